import LiquidModel.Model.Value
import LiquidModel.Model.Find
import LiquidModel.Model.Ast
import LiquidModel.Model.Render
import LiquidModel.Drv.All
import LiquidModel.Model.CondParse
import LiquidModel.Model.Literal
