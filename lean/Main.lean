import LiquidModel.Drv.All
open Liquid

/-- The line-protocol driver: one case per input line `op tok…`, one verdict per output line. -/
partial def loop (h : IO.FS.Stream) (out : IO.FS.Stream) : IO Unit := do
  let line ← h.getLine
  if line.isEmpty then return ()
  let toks := (line.trimAscii.toString.splitOn " ").filter (· ≠ "")
  match toks with
  | [] => out.putStrLn "bad-op empty"
  | op :: args =>
    match Drv.dispatch op with
    | some f => out.putStrLn (f args)
    | none => out.putStrLn ("bad-op " ++ op)
  loop h out

def main : IO Unit := do
  let out ← IO.getStdout
  loop (← IO.getStdin) out
  out.flush
