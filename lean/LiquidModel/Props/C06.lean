/-
  C06 — conditionals render exactly one branch, chosen by Liquid truth and comparison.
  Model: `Model/Ast.lean` (`Cond.eval`, `cmpOpEval`, `containsCheck`), `Model/Render.lean`
  (`.cond`, `.case_` arms of `renderN`), `Model/CondParse.lean` (`parse_condition`).
-/
import LiquidModel.Lemmas.Monad
import LiquidModel.Model.CondParse
import LiquidModel.Lemmas.CondGroup
namespace Liquid.C06
open Liquid

/-! ### exactly one branch -/

/-- **if / unless.** When the condition evaluates to `b`, a conditional with mode `m`
(`true` = if, `false` = unless) renders its first branch iff `b = m`, otherwise its else branch if
there is one, otherwise nothing at all (state and sink untouched). Never both, never neither. -/
theorem C06_one_branch (fuel : Nat) (env : Env) (c : Cond) (m b : Bool) (thn : Tmpl) (els : Option Tmpl)
    (rt : Rt) (w : W) (hc : c.eval rt.layers = .ok b) :
    renderN (fuel + 1) env (.cond c m thn els) rt w =
      if b = m then renderList (renderN fuel env) thn rt w
      else match els with
        | some t => renderList (renderN fuel env) t rt w
        | none => (.ok (), rt, w) := by
  simp only [renderN, M.bind'_getSt, hc, M.bind'_lift_ok]
  by_cases h : b = m
  · simp [h]
  · cases els <;> simp [h]

/-- A condition that fails to evaluate makes the whole block fail; nothing is rendered. -/
theorem C06_condition_error (fuel : Nat) (env : Env) (c : Cond) (m : Bool) (thn : Tmpl) (els : Option Tmpl)
    (rt : Rt) (w : W) (hc : c.eval rt.layers = .err) :
    renderN (fuel + 1) env (.cond c m thn els) rt w = (.err, rt, w) := by
  simp only [renderN, M.bind'_getSt, hc, M.bind'_lift_err]

/-- **unless is the negation of if**: `unless c` behaves exactly like `if` on a condition with the
opposite truth value. -/
theorem C06_unless (fuel : Nat) (env : Env) (c c' : Cond) (b : Bool) (thn : Tmpl) (els : Option Tmpl)
    (rt : Rt) (w : W) (hc : c.eval rt.layers = .ok b) (hc' : c'.eval rt.layers = .ok (!b)) :
    renderN (fuel + 1) env (.cond c false thn els) rt w =
    renderN (fuel + 1) env (.cond c' true thn els) rt w := by
  rw [C06_one_branch fuel env c false b thn els rt w hc, C06_one_branch fuel env c' true (!b) thn els rt w hc']
  cases b <;> simp

/-- **elsif chains**: `if c1 … elsif c2 … else …` is the nested conditional the parser builds (the
rest of the chain is the single element of the else branch); when `c1` is false the result is
exactly that of the rest of the chain, when it is true the rest is not even evaluated. -/
theorem C06_elsif (fuel : Nat) (env : Env) (c1 : Cond) (b : Bool) (thn : Tmpl) (rest : Node) (rt : Rt) (w : W)
    (h1 : c1.eval rt.layers = .ok b) :
    renderN (fuel + 1) env (.cond c1 true thn (some [rest])) rt w =
      if b then renderList (renderN fuel env) thn rt w
      else renderList (renderN fuel env) [rest] rt w := by
  rw [C06_one_branch fuel env c1 true b thn (some [rest]) rt w h1]

/-- **case / when.** The block renders the body of the first `when` arm one of whose values
equals the target, otherwise the else branch, otherwise nothing. -/
theorem C06_case (fuel : Nat) (env : Env) (target : Expr) (value : V) (arms : List (List Expr × Tmpl))
    (els : Option Tmpl) (rt : Rt) (w : W) (pick : Option Tmpl)
    (ht : target.eval rt.layers = .ok value) (hp : casePick rt.layers value arms = .ok pick) :
    renderN (fuel + 1) env (.case_ target arms els) rt w =
      match pick with
      | some body => renderList (renderN fuel env) body rt w
      | none => (match els with
          | some t => renderList (renderN fuel env) t rt w
          | none => (.ok (), rt, w)) := by
  simp only [renderN, M.bind'_getSt, ht, hp, M.bind'_lift_ok]
  cases pick with
  | some b => rfl
  | none => cases els <;> rfl

/-- what "matches" means: comma and `or` lists are disjunctions, tried left to right -/
theorem C06_when_disjunction (st : Stack) (value v : V) (a : Expr) (as : List Expr)
    (ha : a.eval st = .ok v) :
    anyEqArgs st value (a :: as) = if valueEq v value then .ok true else anyEqArgs st value as := by
  simp [anyEqArgs, ha]

/-- the first matching arm wins, later (duplicate or overlapping) arms are not considered -/
theorem C06_case_first (st : Stack) (value : V) (args : List Expr) (body : Tmpl)
    (r : List (List Expr × Tmpl)) :
    (anyEqArgs st value args = .ok true → casePick st value ((args, body) :: r) = .ok (some body)) ∧
    (anyEqArgs st value args = .ok false → casePick st value ((args, body) :: r) = casePick st value r) := by
  constructor <;> intro h <;> simp [casePick, h]

/-! ### truth -/

/-- **Truthiness.** A bare value is true unless it is nil or `false` (or one of the `empty`/`blank`
marker literals, which the code also treats as falsy). `0`, `""`, `[]` and `{}` are true. -/
theorem C06_truthy (v : V) :
    v.queryState .truthy = match v with
      | .nil => false
      | .sc (.bool b) => b
      | .st _ => false
      | _ => true := by
  cases v with
  | nil => rfl
  | st s => rfl
  | sc s => cases s <;> rfl
  | arr xs => rfl
  | obj kvs => rfl

/-- An undefined name counts as nil: the existence condition on a name no layer defines is false
(and is not an error). -/
theorem C06_undefined_is_false (st : Stack) (x : Str) (h : st.tryGet [.str x] = none) :
    Cond.eval st (.exist (.var x [])) = .ok false := by
  simp [Cond.eval, Expr.tryEval, tryEvalIdx, h, V.queryState]

theorem C06_zero_empty_true :
    (V.sc (.int 0)).queryState .truthy = true ∧ (V.sc (.str [])).queryState .truthy = true ∧
    (V.arr []).queryState .truthy = true ∧ (V.obj []).queryState .truthy = true := by
  refine ⟨rfl, rfl, rfl, rfl⟩

/-! ### operators -/

/-- **Operators agree with the value model**: each comparison operator is the stated function of
`valueEq` / `valueCmp`; `<=` and `>=` hold exactly when the values are ordered `<`/`>` or ordered
equal. -/
theorem C06_ops (a b : V) :
    cmpOpEval .eq a b = .ok (valueEq a b) ∧
    cmpOpEval .ne a b = .ok (!valueEq a b) ∧
    cmpOpEval .lt a b = .ok (valueCmp a b == some .lt) ∧
    cmpOpEval .gt a b = .ok (valueCmp a b == some .gt) ∧
    cmpOpEval .le a b = .ok (valueCmp a b == some .lt || valueCmp a b == some .eq) ∧
    cmpOpEval .ge a b = .ok (valueCmp a b == some .gt || valueCmp a b == some .eq) := by
  refine ⟨rfl, rfl, rfl, rfl, ?_, ?_⟩
  · simp only [cmpOpEval, vLe]; cases valueCmp a b with
    | none => rfl
    | some o => cases o <;> rfl
  · simp only [cmpOpEval, vGe]; cases valueCmp a b with
    | none => rfl
    | some o => cases o <;> rfl

/-- `contains`: substring on scalars (through their string form), key membership on objects,
element equality on arrays, an error on nil. -/
theorem C06_contains (a b : V) :
    containsCheck a b = match a with
      | .sc s => .ok (strContains s.render b.render)
      | .obj kvs => .ok (match b with | .sc k => objContains kvs k.render | _ => false)
      | .arr xs => .ok (xs.any fun e => valueEq e b)
      | _ => .err := by
  cases a <;> simp [containsCheck] <;> cases b <;> rfl

/-- Comparisons against the `empty` / `blank` literals ask the other value's state. -/
theorem C06_empty_blank (v : V) (s : St) (hv : ∀ xs, v ≠ .arr xs) (ho : ∀ kvs, v ≠ .obj kvs) (hn : v ≠ .nil) :
    valueEq v (.st s) = (match v with | .st t => (V.st s).queryState t | _ => v.queryState s) := by
  cases v with
  | nil => exact absurd rfl hn
  | arr xs => exact absurd rfl (hv xs)
  | obj kvs => exact absurd rfl (ho kvs)
  | st t => simp [valueEq, valueEqFlat, V.isNil]
  | sc x => simp [valueEq, valueEqFlat, V.isNil]

/-! ### and / or grouping -/

/-- **Precedence.** `x or y and z` groups as `x or (y and z)`, and `x and y or z` as
`(x and y) or z`, for all operands. -/
theorem C06_precedence (x y z : Expr) :
    parseCondition [.val x, .or_, .val y, .and_, .val z]
      = some (.or (.exist x) (.and (.exist y) (.exist z))) ∧
    parseCondition [.val x, .and_, .val y, .or_, .val z]
      = some (.or (.and (.exist x) (.exist y)) (.exist z)) := by
  constructor <;> rfl

/-- homogeneous chains associate to the left -/
theorem C06_chains (a b c d : Expr) :
    parseCondition [.val a, .and_, .val b, .and_, .val c, .and_, .val d]
      = some (.and (.and (.and (.exist a) (.exist b)) (.exist c)) (.exist d)) ∧
    parseCondition [.val a, .or_, .val b, .or_, .val c, .or_, .val d]
      = some (.or (.or (.or (.exist a) (.exist b)) (.exist c)) (.exist d)) := by
  constructor <;> rfl

/-- binary atoms bind tighter than both connectives -/
theorem C06_atoms (l r x : Expr) (o : CmpOp) :
    parseCondition [.val l, .cmp o, .val r, .or_, .val x] = some (.or (.bin l o r) (.exist x)) ∧
    parseCondition [.val x, .and_, .val l, .cmp o, .val r] = some (.and (.exist x) (.bin l o r)) := by
  constructor <;> rfl

/-- the truth table of the grouping: `x or (y and z)` -/
theorem C06_or_and_truth (st : Stack) (x y z : Cond) (bx b_y bz : Bool)
    (hx : x.eval st = .ok bx) (hy : y.eval st = .ok b_y) (hz : z.eval st = .ok bz) :
    Cond.eval st (.or x (.and y z)) = .ok (bx || (b_y && bz)) := by
  cases bx <;> cases b_y <;> cases bz <;> simp [Cond.eval, hx, hy, hz, bind, Res.bind, pure]

/-- malformed conditions are parse errors, not something silently true or false -/
theorem C06_malformed :
    parseCondition [] = none ∧ parseCondition [.and_] = none ∧
    (∀ x, parseCondition [.val x, .junk] = none) ∧
    (∀ x o, parseCondition [.val x, .cmp o] = none) ∧
    (∀ x, parseCondition [.val x, .or_] = none) := by
  refine ⟨rfl, rfl, fun _ => rfl, fun _ _ => rfl, fun _ => rfl⟩

/-! ### the general grouping theorem (any number of atoms, any mixture of `and`/`or`) -/

open Liquid.CondGroup in
/-- **Grouping, in general.** Any flat sequence `a11 and a12 … or a21 and … or …` — any number of
groups, any number of atoms per group, atoms being bare values or comparisons — parses to the
left-nested disjunction of the left-nested conjunctions of its atoms: `and` binds tighter than
`or`, homogeneous chains associate to the left. -/
theorem C06_grouping (g : Group) (gs : List Group) :
    parseCondition (disjToks g gs) = some (disjTree g gs) :=
  parseCondition_disjToks g gs

open Liquid.CondGroup in
/-- **No other reading.** Whatever token sequence `parse_condition` accepts *is* such a sequence and
its parse is the grouped tree; everything else is a parse error. -/
theorem C06_grouping_unique (toks : List CTok) (c : Cond) (h : parseCondition toks = some c) :
    ∃ (g : Group) (gs : List Group), toks = disjToks g gs ∧ c = disjTree g gs :=
  parseCondition_shape h

open Liquid.CondGroup in
/-- **Truth of a grouped condition.** When its atoms evaluate (to `tv`), the parsed condition is
true exactly when some `or`-group has all its atoms true. -/
theorem C06_grouping_truth (st : Stack) (tv : Atom → Bool) (g : Group) (gs : List Group)
    (h : ∀ x ∈ g :: gs, ∀ b ∈ x.1 :: x.2, b.cond.eval st = .ok (tv b)) :
    ∃ c, parseCondition (disjToks g gs) = some c ∧
      c.eval st = .ok ((g :: gs).any fun x => (x.1 :: x.2).all tv) :=
  ⟨_, parseCondition_disjToks g gs, eval_disjTree st tv g gs h⟩

open Liquid.CondGroup in
/-- non-vacuity: `x or y and z == w and v` is an instance -/
example (x y z w v : Expr) :
    disjToks (.ex x, []) [(.ex y, [.bin z .eq w, .ex v])]
      = [.val x, .or_, .val y, .and_, .val z, .cmp .eq, .val w, .and_, .val v] := rfl

/-- **The first operand that decides a condition decides it** — whatever the other operand is,
even one that would raise: `false and r` is false and `true or r` is true for every `r`; an operand
is evaluated only when the ones before it left the outcome open (and then its error is the
condition's error). -/
theorem C06_short_circuit (st : Stack) (l r : Cond) :
    (l.eval st = .ok false → (Cond.and l r).eval st = .ok false) ∧
    (l.eval st = .ok true → (Cond.or l r).eval st = .ok true) ∧
    (l.eval st = .ok true → (Cond.and l r).eval st = r.eval st) ∧
    (l.eval st = .ok false → (Cond.or l r).eval st = r.eval st) ∧
    (l.eval st = .err → (Cond.and l r).eval st = .err ∧ (Cond.or l r).eval st = .err) := by
  refine ⟨?_, ?_, ?_, ?_, ?_⟩ <;> intro h <;> simp [Cond.eval, h, bind, Res.bind, pure]

/-- non-vacuity: a true operand in front of a comparison over an undefined name -/
example (st : Stack) (r : Cond) (h : (Cond.exist (.lit (.sc (.bool true)))).eval st = .ok true) :
    (Cond.or (.exist (.lit (.sc (.bool true)))) r).eval st = .ok true :=
  (C06_short_circuit st _ r).2.1 h

end Liquid.C06
