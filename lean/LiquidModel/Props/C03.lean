/-
  C03 — literal text is preserved; trim markers, raw and comment do exactly their job.

  All theorems are about the executable model of the lexical layer (`Model/Lex.lean`, a transcription of
  the lax grammar of grammar.pest; whitespace table generated from grammar.pest on every run), of
  `TagBlock::escape_liquid` + raw_block.rs / comment_block.rs (`Model/MiniParse.lean`) and of `Text`/`RawT`/
  `Comment` rendering (`Model/Render.lean`).  They hold for every input string and every pair of inner
  matchers `g` (`TagInner` / `ExpressionInner`): no generator assumption.
-/
import LiquidModel.Lemmas.Monad
import LiquidModel.Lemmas.C03
import LiquidModel.Spec.C03
namespace Liquid.C03
open Liquid Liquid.Lex Liquid.Mini

/-! ### which characters a `-` removes -/

/-- The class matched by one iteration of the grammar's `WHITESPACE*` — over the table *generated from
grammar.pest* — is exactly: space, tab, line feed, carriage return.
(False at the pinned commit: the tab is missing there, D10; patches/C03-tab.diff.) -/
theorem C03_ws_class (c : Char) : isWs c = true ↔ (c = ' ' ∨ c = '\t' ∨ c = '\n' ∨ c = '\r') := by
  simp [isWs, wsAlts]

/-- the executable spec used on the implementation's output has the same whitespace class -/
theorem C03_ws_spec (c : Char) : isWs c = isWsSpec c := by
  have h := C03_ws_class c
  cases hw : isWs c
  · have : ¬(c = ' ' ∨ c = '\t' ∨ c = '\n' ∨ c = '\r') := fun hc => by simp [h.mpr hc] at hw
    simp only [not_or] at this
    simp [isWsSpec, this.1, this.2.1, this.2.2.1, this.2.2.2]
  · rcases h.mp hw with h | h | h | h <;> subst h <;> rfl

/-- the generated table has the shape that makes `WHITESPACE*` a character-class run -/
theorem C03_ws_table_shape : AltsShape wsAlts := by
  unfold AltsShape
  decide

/-- `WHITESPACE*` exactly as pest runs it (ordered choice of the literal alternatives, repeated) consumes
exactly the maximal run of whitespace characters — the `takeWhile/dropWhile isWs` the lexer is written with. -/
theorem C03_ws_star (s : List Char) : pegStar wsAlts s = skipWs s ∧ wsRun s ++ pegStar wsAlts s = s := by
  have h : pegStar wsAlts s = skipWs s := by
    rw [pegStar_eq_dropWhile wsAlts C03_ws_table_shape]; rfl
  exact ⟨h, by rw [h]; exact wsRun_append_skipWs s⟩

/-- the table of the pinned commit (`WHITESPACE = _{" " | NEWLINE}`) does not contain the tab -/
theorem C03_ws_tab_old_counterexample :
    ([[' '], ['\n'], ['\r', '\n'], ['\r']] : List (List Char)).contains ['\t'] = false := by
  decide

/-! ### the lexer is total and its elements tile the input -/

/-- Every input lexes: the element texts, concatenated in order, are the input; no element is empty; and
`length + 1` steps are enough (more fuel changes nothing) — so the loop of `LaxLiquidFile` always
terminates by consuming the whole input. -/
theorem C03_lex_total (g : Inner) (s : List Char) :
    (lexLax g s).flatMap Elem.text = s ∧ (∀ e ∈ lexLax g s, e.text ≠ []) ∧
    (∀ k, s.length < k → lexFuel g k s = lexLax g s) :=
  ⟨lexLax_tile g s, lexFuel_nonempty g _ s, fun k hk => lexFuel_stable g k _ s hk (by omega)⟩

/-- Tiling: the spans of the elements, in order, are the input — every byte belongs to exactly one element. -/
theorem C03_tiling (g : Inner) (s : List Char) : (lexLax g s).flatMap Elem.text = s := lexLax_tile g s

/-- … hence each element sits in the source exactly between the texts of the elements before and after it -/
theorem C03_tiling_split (g : Inner) (s : List Char) (es₁ es₂ : List Elem) (e : Elem)
    (h : lexLax g s = es₁ ++ e :: es₂) : s = texts es₁ ++ e.text ++ texts es₂ := by
  have := lexLax_tile g s
  rw [h] at this
  simp [texts] at this ⊢
  exact this.symm

example : lexLax stdInner "a {{- 1 }}b".toList =
    [.raw ['a'], .expr { pre := [' '], trimL := true, ws1 := [' '], inner := ['1', ' '], ws2 := [], trimR := false, post := [] },
     .raw ['b']] := by decide +kernel

/-- `Text` (what a `Raw` element becomes) writes its slice verbatim and touches nothing else -/
theorem C03_text_verbatim (fuel : Nat) (env : Env) (t : Str) (rt : Rt) (w : W) (hb : w.budget = none) :
    ∃ w', renderN (fuel + 1) env (.text t) rt w = (.ok (), rt, w') ∧ w'.text = w.text ++ t := by
  by_cases ht : t.isEmpty = true
  · refine ⟨w, by simp [renderN, M.emit, W.write, ht], ?_⟩
    have : t = [] := by simpa using ht
    simp [this]
  · refine ⟨{ w with out := w.out ++ [t] }, ?_, by simp [W.text]⟩
    simp [renderN, M.emit, W.write, ht, hb]

/-! ### a template without markup is one text element and renders to itself -/

/-- no `{{` / `{%` ⇒ the whole input is one `Raw` element (or nothing, for the empty input) -/
theorem C03_plain_identity (g : Inner) (s : List Char) (h : hasOpen s = false) :
    lexLax g s = if s = [] then [] else [.raw s] := by
  cases s with
  | nil => simp [lexLax_nil]
  | cons c r => simp [lexLax_plain g c r h]

/-- … which parses to one `Text` and renders to the input, whatever the data -/
theorem C03_plain_renders_to_itself (s : List Char) (h : hasOpen s = false) (fuel : Nat) (env : Env) (globals : Obj) :
    ∃ t, parseText s = .ok t ∧ renderTop (fuel + 1) env t globals = .ok s := by
  cases s with
  | nil =>
    refine ⟨[], ?_, ?_⟩
    · simp [parseText, lexLax_nil, parseElems, toks, parseTopF]
    · simp [renderTop, renderT, renderList, W.text, M.run_pure]
  | cons c r =>
    refine ⟨[.text (c :: r)], ?_, ?_⟩
    · have hl := lexLax_plain stdInner c r h
      unfold parseText
      rw [hl]
      simp [parseElems, toks, parseTopF, parseElem]
    · simp [renderTop, renderT, renderList, renderN, M.run_bind, M.emit, W.write, W.text, Rt.build, Rt.regs, Stack.regs]

example : hasOpen "a { b } % c \" {-".toList = false := by decide

/-! ### trim markers -/

/-- Trim-exact.  For every tag / output element `m` of the lexed input:
 * it absorbs only whitespace, and on a side only if that side's delimiter carries `-`
   (`trimL = false → pre = []`, `trimR = false → post = []`);
 * with `-` on the right delimiter the absorbed run is maximal: what follows does not start with whitespace;
 * with `-` on the left delimiter the absorbed run is maximal: a text element right before it does not end
   in whitespace.
 Together with tiling: a `-` removes exactly the whitespace run touching that side, nothing else. -/
theorem C03_trim_exact (g : Inner) (s : List Char) (es₁ es₂ : List Elem) (e : Elem) (m : Markup)
    (h : lexLax g s = es₁ ++ e :: es₂) (hm : e = .tag m ∨ e = .expr m) :
    (∀ x ∈ m.pre, isWs x = true) ∧ (∀ x ∈ m.post, isWs x = true) ∧
    (m.trimL = false → m.pre = []) ∧ (m.trimR = false → m.post = []) ∧
    (m.trimR = true → ∀ x, (texts es₂).head? = some x → isWs x = false) ∧
    (m.trimL = true → ∀ es₀ t, es₁ = es₀ ++ [.raw t] → ∀ x, t.getLast? = some x → isWs x = false) := by
  obtain ⟨o, c, s₂, sp, _⟩ := lexLax_markup g h hm
  refine ⟨sp.pre_ws, sp.post_ws, sp.pre_none, sp.post_none, sp.post_max, ?_⟩
  intro htl es₀ t hes x hx
  subst hes
  have h' : lexLax g s = es₀ ++ .raw t :: e :: es₂ := by simpa using h
  exact raw_before_trim g h' hm htl x hx

/-- Left maximality in general: the element right before one whose left delimiter carries `-` ends in
whitespace only if it is itself a tag / output element whose right delimiter carries `-` — which has then
absorbed that whitespace (PEG is greedy left to right), so it is removed either way.  Before any other
element (text, invalid character, markup without `-`) no whitespace is left in front of the `-`. -/
theorem C03_trim_left_maximal (g : Inner) (s : List Char) (es₀ es₂ : List Elem) (p e : Elem) (m : Markup)
    (h : lexLax g s = es₀ ++ p :: e :: es₂) (hm : e = .tag m ∨ e = .expr m) (htl : m.trimL = true)
    (x : Char) (hx : p.text.getLast? = some x) (hw : isWs x = true) :
    ∃ m', (p = .tag m' ∨ p = .expr m') ∧ m'.trimR = true :=
  before_trim g h hm htl x hx hw

-- (examples avoid the tab so that they do not depend on the table entry D10 is about: a failing
-- `decide +kernel` is expensive to report)
example : (lexLax stdInner "{{ 1 -}} \n {{- 2 }}".toList).map Elem.text =
    ["{{ 1 -}} \n ".toList, "{{- 2 }}".toList] := by decide +kernel

example : lexLax stdInner "a \r{{- 1 -}}\n b".toList =
    [.raw ['a'], .expr { pre := [' ', '\r'], trimL := true, ws1 := [' '], inner := ['1', ' '], ws2 := [], trimR := true, post := ['\n', ' '] },
     .raw ['b']] := by decide +kernel

/-! ### raw blocks -/

/-- Raw verbatim.  Whatever the body lexes into (valid, invalid, unterminated markup): `escape_liquid` returns
exactly the concatenation of the element texts — i.e. by tiling the source — between the opening tag and
the first argument-less `{% endraw %}`, and only a `{%- endraw` removes the whitespace run before it. -/
theorem C03_raw_verbatim (endTag : List Char) (body : List Elem) (cl : Elem) (rest : List Tok)
    (hb : ∀ e ∈ body, isCloser endTag e = false) (hc : isCloser endTag cl = true) :
    escapeLiquid endTag (body.map Tok.elem ++ Tok.elem cl :: rest) [] =
      (.ok (if closerTrim cl then stripRightWs (texts body) else texts body), rest) := by
  simpa using escapeLiquid_verbatim endTag body cl rest [] hb hc

/-- in the source, that body is the text between the two tags' spans -/
theorem C03_raw_source (g : Inner) (s : List Char) (es₁ body es₂ : List Elem) (op cl : Elem)
    (h : lexLax g s = es₁ ++ op :: (body ++ cl :: es₂)) :
    s = texts es₁ ++ op.text ++ texts body ++ cl.text ++ texts es₂ := by
  have := lexLax_tile g s
  rw [h] at this
  simp [texts] at this ⊢
  exact this.symm

/-- an unterminated raw block is a parse error, never the `panic!` at the end of `escape_liquid` -/
theorem C03_raw_unclosed (endTag : List Char) (body : List Elem) (hb : ∀ e ∈ body, isCloser endTag e = false) :
    escapeLiquid endTag (toks body) [] = (.err, []) ∧
    ∀ (es : List Elem) (rest : List Tok) (acc : List Char) (site : String),
      (escapeLiquid endTag (es.map Tok.elem ++ Tok.eoi :: rest) acc).1 ≠ .panic site :=
  ⟨escapeLiquid_unclosed endTag body [] hb, escapeLiquid_no_panic endTag⟩

/-- `escape_liquid` at the pinned commit never strips: whitespace swallowed by a markup look-alike ending in
`-}}` survives a following `{%- endraw %}` although that delimiter carries `-` (patches/C03-endraw-trim.diff) -/
theorem C03_raw_old_counterexample :
    let es := lexLax stdInner "{% raw %}{{ x -}} {%- endraw %}".toList
    (escapeLiquidOld "endraw".toList (toks (es.drop 1)) []).1 = .ok "{{ x -}} ".toList ∧
    (escapeLiquid "endraw".toList (toks (es.drop 1)) []).1 = .ok "{{ x -}}".toList := by
  decide +kernel

example : (match parseText "{% raw %} {{ x }}{% if %} {%- endraw %}!".toList with
    | .ok [.raw b, .text t] => b == " {{ x }}{% if %}".toList && t == ['!']
    | _ => false) = true := by decide +kernel

/-! ### comment blocks -/

/-- Comment is a no-op: whatever its body holds, a comment block that parses yields the `Comment` renderable … -/
theorem C03_comment_parse (n : Nat) (it it' : List Tok) (nd : Node)
    (h : parseComment n it = (.ok nd, it')) : nd = .comment := parseComment_ok n it it' nd h

/-- … which writes nothing and leaves the runtime state unchanged. -/
theorem C03_comment_noop (fuel : Nat) (env : Env) (rt : Rt) (w : W) :
    renderN (fuel + 1) env .comment rt w = (.ok (), rt, w) := by
  simp [renderN]

example : (match parseText "a{% comment %} {{ ! }} {% assign v = 1 %}{% increment c %}{% comment %}x{% endcomment %} {% endcomment %}b".toList with
    | .ok [.text a, .comment, .text b] => a == ['a'] && b == ['b']
    | _ => false) = true := by decide +kernel

end Liquid.C03
