/-
  C01 — parsing is total: any text yields a template or an error, never a crash.
  Models: `Model/Lex.lean` (lax lexer of grammar.pest; totality and tiling proved in Lemmas/C03),
  `Model/BlockParse.lean` (element-iterator protocol of parser.rs and the stdlib blocks),
  `Model/Literal.lean` (literal conversion).
-/
import LiquidModel.Model.BlockParse
import LiquidModel.Props.C03
import LiquidModel.Props.C07
import LiquidModel.Generated.Registry
namespace Liquid.C01
open Liquid Liquid.BP

def Out.isPanic : Out → Bool | .panic _ => true | _ => false

theorem next_elem_ne_eoi (endTag : Str) (it : List El) (e : El) (r : List El)
    (h : next endTag it = .elem e r) : e ≠ .eoi := by
  cases it with
  | nil => simp [next] at h
  | cons x xs =>
    cases x <;> simp [next] at h
    · obtain ⟨h1, _⟩ := h; subst h1; simp
    · obtain ⟨h1, _⟩ := h; subst h1; simp
    · obtain ⟨h1, _⟩ := h; subst h1; simp
    · split at h
      · split at h <;> cases h
      · cases h; simp

theorem escapeLiquid_no_panic (endTag : Str) (it : List El) :
    Out.isPanic (escapeLiquid endTag it).1 = false ∧ ((escapeLiquid endTag it).1 = .ok → (escapeLiquid endTag it).2.2 = true) := by
  induction it with
  | nil => simp [escapeLiquid, Out.isPanic]
  | cons x xs ih =>
    cases x <;> simp only [escapeLiquid] <;> try exact ih
    · split
      · simp [Out.isPanic]
      · exact ih
    · simp [Out.isPanic]

/-- an outcome of a body loop that is fine: no panic, and `Ok` only with the block closed -/
def Good (x : Out × List El × Bool) : Prop := Out.isPanic x.1 = false ∧ (x.1 = .ok → x.2.2 = true)

theorem specialStep_good (bodyF : BKind → List El → Out × List El × Bool) (elemF : El → List El → Out × List El)
    (hb : ∀ k it, Good (bodyF k it)) (he : ∀ e it, e ≠ .eoi → Out.isPanic (elemF e it).1 = false)
    (kind : BKind) (e : El) (r : List El) (res : Out × List El × Bool)
    (h : specialStep bodyF elemF kind e r = some res) : Good res := by
  have herr : Good (Out.err, r, false) := by simp [Good, Out.isPanic]
  unfold specialStep at h
  split at h
  · split at h
    · cases h; exact hb _ _
    · split at h
      · cases h; split
        · exact hb _ _
        · exact herr
      · cases h
  · split at h
    · cases h; exact hb _ _
    · cases h
  · split at h
    · cases h; split
      · exact hb _ _
      · exact herr
    · cases h
  · split at h
    · cases h; split
      · exact hb _ _
      · exact herr
    · split at h
      · cases h; split
        · exact hb _ _
        · exact herr
      · cases h
  · rename_i name a n
    have hp := he (.tag name a n) r (by simp)
    split at h
    · cases h
      rcases hpe : elemF (.tag name a n) r with ⟨o, r'⟩
      rw [hpe] at hp
      cases o <;> simp_all [Good, Out.isPanic] <;> exact hb _ _
    · cases h
      rcases hpe : elemF (.tag name a n) r with ⟨o, r'⟩
      rw [hpe] at hp
      cases o <;> simp_all [Good, Out.isPanic] <;> exact hb _ _
  · cases h; exact hb _ _
  · cases h

/-- the three mutually recursive protocol functions never reach a panic site, and a block body is
only ever left with `Ok` after its end tag was seen (`closed`), so `assert_empty` cannot fire -/
theorem protocol_no_panic (cfg : Cfg) : ∀ fuel,
    (∀ e it, e ≠ .eoi → Out.isPanic (parseElem cfg fuel e it).1 = false) ∧
    (∀ kind endTag a n it, Out.isPanic (parseBlock cfg fuel kind endTag a n it).1 = false) ∧
    (∀ kind endTag it, Good (body cfg fuel kind endTag it)) := by
  intro fuel
  induction fuel with
  | zero =>
    refine ⟨?_, ?_, ?_⟩
    · intro e it _; simp [parseElem, Out.isPanic]
    · intro kind endTag a n it; simp [parseBlock, Out.isPanic]
    · intro kind endTag it; simp [body, Good, Out.isPanic]
  | succ fuel ih =>
    obtain ⟨ihE, ihB, ihL⟩ := ih
    refine ⟨?_, ?_, ?_⟩
    · intro e it he
      cases e with
      | raw => simp [parseElem, Out.isPanic]
      | expr ok => cases ok <;> simp [parseElem, Out.isPanic]
      | invalid => simp [parseElem, Out.isPanic]
      | eoi => exact absurd rfl he
      | tag name a n =>
        simp only [parseElem]
        split
        · cases a <;> simp [Out.isPanic]
        · split
          · simp [Out.isPanic]
          · exact ihB _ _ _ _ _
    · intro kind endTag a n it
      have hbody : ∀ k, Out.isPanic
          (match body cfg fuel k endTag it with
           | (.ok, r, closed) => if closed then (Out.ok, r) else (Out.panic "assert_empty", r)
           | (o, r, _) => (o, r)).1 = false := by
        intro k
        obtain ⟨h1, h2⟩ := ihL k endTag it
        rcases hb : body cfg fuel k endTag it with ⟨o, r, closed⟩
        rw [hb] at h1 h2
        cases o <;> simp_all [Out.isPanic]
      cases kind <;> simp only [parseBlock]
      · split
        · simp [Out.isPanic]
        · exact hbody _
      · split
        · simp [Out.isPanic]
        · exact hbody _
      · split
        · simp [Out.isPanic]
        · exact hbody _
      · split
        · simp [Out.isPanic]
        · exact hbody _
      · split
        · simp [Out.isPanic]
        · exact hbody _
      · split
        · simp [Out.isPanic]
        · exact hbody _
      · split
        · simp [Out.isPanic]
        · obtain ⟨h1, h2⟩ := escapeLiquid_no_panic endTag it
          rcases hb : escapeLiquid endTag it with ⟨o, r, closed⟩
          rw [hb] at h1 h2
          cases o <;> simp_all [Out.isPanic]
    · intro kind endTag it
      simp only [body]
      cases hn : next endTag it with
      | closed r => simp [Good, Out.isPanic]
      | err r => simp [Good, Out.isPanic]
      | elem e r =>
        have hne := next_elem_ne_eoi endTag it e r hn
        simp only []
        cases hsp : specialStep (fun k it' => body cfg fuel k endTag it') (parseElem cfg fuel) kind e r with
        | some res =>
          exact specialStep_good _ _ (fun k it' => ihL k endTag it') ihE kind e r res hsp
        | none =>
          simp only []
          have hp := ihE e r hne
          rcases hpe : parseElem cfg fuel e r with ⟨o, r'⟩
          rw [hpe] at hp
          cases o <;> simp_all [Good, Out.isPanic] <;> exact ihL kind endTag r'

/-- **The block protocol never panics.** For every registry, every fuel and every element
sequence (any arguments accepted or rejected, any nesting, unclosed, mis-nested, invalid elements
anywhere, with or without a final `EOI`) the top-level parse returns a template or an error: none
of "File shouldn't end before EOI", `assert_empty`, "Function must eventually find either a
Rule::EOI or a closing tag" is reachable.  (At the pinned commit this was false: D3.) -/
theorem C01_block_no_panic (cfg : Cfg) (fuel : Nat) (it : List El) :
    Out.isPanic (parseTop cfg fuel it) = false := by
  induction fuel generalizing it with
  | zero => simp [parseTop, Out.isPanic]
  | succ fuel ih =>
    cases it with
    | nil => simp [parseTop, Out.isPanic]
    | cons e r =>
      cases e with
      | eoi => simp [parseTop, Out.isPanic]
      | raw =>
        simp only [parseTop]
        have hp := (protocol_no_panic cfg fuel).1 .raw r (by simp)
        rcases hpe : parseElem cfg fuel .raw r with ⟨o, r'⟩
        rw [hpe] at hp
        cases o <;> simp_all [Out.isPanic]
        cases r' <;> simp [Out.isPanic, ih]
      | expr ok =>
        simp only [parseTop]
        have hp := (protocol_no_panic cfg fuel).1 (.expr ok) r (by simp)
        rcases hpe : parseElem cfg fuel (.expr ok) r with ⟨o, r'⟩
        rw [hpe] at hp
        cases o <;> simp_all [Out.isPanic]
        cases r' <;> simp [Out.isPanic, ih]
      | invalid =>
        simp only [parseTop]
        have hp := (protocol_no_panic cfg fuel).1 .invalid r (by simp)
        rcases hpe : parseElem cfg fuel .invalid r with ⟨o, r'⟩
        rw [hpe] at hp
        cases o <;> simp_all [Out.isPanic]
        cases r' <;> simp [Out.isPanic, ih]
      | tag name a n =>
        simp only [parseTop]
        have hp := (protocol_no_panic cfg fuel).1 (.tag name a n) r (by simp)
        rcases hpe : parseElem cfg fuel (.tag name a n) r with ⟨o, r'⟩
        rw [hpe] at hp
        cases o <;> simp_all [Out.isPanic]
        cases r' <;> simp [Out.isPanic, ih]

/-- **Unknown tags are errors**: a tag element at an executed position whose name is in no
registry is rejected (and consumes nothing further). -/
theorem C01_unknown_is_err (cfg : Cfg) (fuel : Nat) (name : Str) (a n : Bool) (it : List El)
    (ht : cfg.tags.contains name = false) (hb : cfg.block? name = none) :
    parseElem cfg (fuel + 1) (.tag name a n) it = (.err, it) := by
  have h1 : ¬ name ∈ cfg.tags := by simpa using ht
  simp [parseElem, h1, hb]

/-- **A tag or block whose arguments its plugin rejects is an error.** -/
theorem C01_bad_args_is_err (cfg : Cfg) (fuel : Nat) (name : Str) (n : Bool) (it : List El)
    (ht : cfg.tags.contains name = true) :
    parseElem cfg (fuel + 1) (.tag name false n) it = (.err, it) := by
  have h1 : name ∈ cfg.tags := by simpa using ht
  simp [parseElem, h1]

/-- **An invalid element at an executed position is an error** (never a panic, never skipped). -/
theorem C01_invalid_is_err (cfg : Cfg) (fuel : Nat) (it : List El) :
    (parseElem cfg (fuel + 1) .invalid it).1 = .err := by
  simp [parseElem]

/-- an output tag whose filter chain does not parse (unknown filter, wrong arity, bad keyword) -/
theorem C01_bad_expression_is_err (cfg : Cfg) (fuel : Nat) (it : List El) :
    parseElem cfg (fuel + 1) (.expr false) it = (.err, it) := by
  simp [parseElem]

/-- **Unclosed blocks are errors.** A block body can only be completed by an argument-less tag
named like the block's end tag: if no such element follows, the block is not accepted. -/
theorem C01_unclosed_is_err (endTag : Str) (it : List El) (h : ∀ a, El.tag endTag a true ∉ it) :
    ∀ r, next endTag it ≠ .closed r := by
  intro r
  cases it with
  | nil => simp [next]
  | cons x xs =>
    cases x with
    | tag name a n =>
      simp only [next]
      by_cases hn : name = endTag
      · subst hn
        cases n
        · simp
        · exact absurd (List.mem_cons_self) (h a)
      · have : (name == endTag) = false := by simpa using hn
        simp [this]
    | raw => simp [next]
    | expr ok => simp [next]
    | invalid => simp [next]
    | eoi => simp [next]

/-- the raw block's scanner: without an argument-less end tag it fails -/
theorem C01_unclosed_raw_is_err (endTag : Str) (it : List El) (h : ∀ a, El.tag endTag a true ∉ it) :
    (escapeLiquid endTag it).1 = .err := by
  induction it with
  | nil => simp [escapeLiquid]
  | cons x xs ih =>
    have hxs : ∀ a, El.tag endTag a true ∉ xs := fun a hm => h a (List.mem_cons_of_mem _ hm)
    cases x with
    | tag name a n =>
      simp only [escapeLiquid]
      split
      · rename_i heq
        simp at heq
        obtain ⟨h1, h2⟩ := heq
        subst h1; subst h2
        exact absurd (List.mem_cons_self) (h a)
      · exact ih hxs
    | raw => simpa [escapeLiquid] using ih hxs
    | expr ok => simpa [escapeLiquid] using ih hxs
    | invalid => simpa [escapeLiquid] using ih hxs
    | eoi => simp [escapeLiquid]

/-! ### the lexical layer and literals (proved in Props/C03 and Props/C07) -/

/-- **Lexing is total**: every string splits into non-empty elements that tile it, so the first
`expect` of `parse` cannot fire and the element loop terminates. -/
theorem C01_lex_total (g : Lex.Inner) (s : List Char) :
    (Lex.lexLax g s).flatMap Lex.Elem.text = s := C03.C03_tiling g s

/-- **Literal conversion is total**: a matched integer literal is its integer when it fits in 64
bits and an error otherwise — never a panic, never another integer (at the pinned commit: D1). -/
theorem C01_literal_total (s : Str) (hm : matchesIntegerLiteral s = true) (hq : stringLiteral? s = none)
    (hk : s ≠ "nil".toList ∧ s ≠ "null".toList ∧ s ≠ "empty".toList ∧ s ≠ "blank".toList ∧
          s ≠ "true".toList ∧ s ≠ "false".toList) :
    (∃ i, parseLiteral s = .value (.sc (.int i)) ∧ parseI64 s = some i) ∨ parseLiteral s = .outOfRange := by
  rw [C07.C07_int_literal s hm hq hk]
  cases h : parseI64 s with
  | none => exact Or.inr rfl
  | some i => exact Or.inl ⟨i, rfl, rfl⟩

theorem C01_literal_out_of_range : parseLiteral "12345678901234567890".toList = .outOfRange :=
  (C07.C07_int_out_of_range).2.2

/-! ### non-vacuity: concrete sequences -/
example : parseTop stdCfg 50 [.tag "comment".toList true true, .tag "raw".toList true true, .tag "endcomment".toList true true, .eoi] = .err := by
  rfl
example : parseTop stdCfg 50 [.tag "if".toList true false, .raw, .tag "else".toList true true, .expr true, .tag "endif".toList true true, .eoi] = .ok := by
  rfl
example : parseTop stdCfg 50 [.tag "for".toList true false, .tag "endif".toList true true, .eoi] = .err := by
  rfl

/-- **The model's registry is the code's registry.** The tags and blocks (with their end tags) that
`ParserBuilder::stdlib` registers — regenerated from src/parser.rs and the reflection impls on every
run — are exactly those of `stdCfg`, the configuration `C01_block_no_panic` is instantiated with by
the harness.  Registering another block, or renaming an end tag, breaks this proof. -/
theorem C01_registry_is_stdCfg :
    Generated.regTags.map String.toList = BP.stdCfg.tags ∧
    Generated.regBlocks.map (fun ab => (ab.1.toList, ab.2.toList)) = BP.stdCfg.blocks.map (fun b => (b.1, b.2.1)) := by
  decide

end Liquid.C01
