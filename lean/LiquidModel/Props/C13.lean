/-
  C13 — string filters compute their documented function on every string, counting and cutting in
  characters, never bytes, and satisfy the laws that follow from those definitions.
  Property theorems only (plus non-vacuity examples).  Model: `Model/StrFilters.lean`
  (`StrF.apply`, `StrF.chain`, `StrF.table`) and `Model/Render.lean` (`evalChain`).
  Helper lemmas: `Lemmas/C13.lean`.

  Unicode data is a parameter `u : Uni` (case maps, grapheme segmentation); every theorem holds for
  every `u`; where a theorem needs the segmentation to be a segmentation at all (a partition into
  non-empty pieces) that is the hypothesis `IsSeg u.seg`, which `segSimple_isSeg` shows satisfiable.
-/
import LiquidModel.Lemmas.C13
namespace Liquid.C13
open Liquid Liquid.StrF

/-! ### append / prepend / case / newline_to_br / default: the documented function -/

/-- `append` and `prepend` concatenate the string forms of input and argument, on every input
(empty, whitespace-only, non-ASCII, non-string), with nothing added or lost. -/
theorem C13_append_prepend (u : Uni) (x a : V) :
    apply u .append x [a] = .ok (sV (x.render ++ a.render)) ∧
    apply u .prepend x [a] = .ok (sV (a.render ++ x.render)) := ⟨rfl, rfl⟩

/-- `upcase`/`downcase` map every character through the Unicode case map (one character may become
several) and keep the order; `capitalize` maps the first character only and keeps the rest verbatim. -/
theorem C13_case (u : Uni) (x : V) :
    apply u .upcase x [] = .ok (sV (x.render.flatMap u.upper)) ∧
    apply u .downcase x [] = .ok (sV (x.render.flatMap u.lower)) ∧
    apply u .capitalize x [] = .ok (sV (match x.render with | [] => [] | c :: r => u.upper c ++ r)) := by
  refine ⟨rfl, rfl, ?_⟩
  simp only [apply]
  cases x.render <;> rfl

/-- Case filters distribute over concatenation, hence act character by character. -/
theorem C13_case_append (u : Uni) (s t : Str) :
    upcase u (s ++ t) = upcase u s ++ upcase u t ∧ downcase u (s ++ t) = downcase u s ++ downcase u t := by
  simp [upcase, downcase]

/-- `newline_to_br` inserts `<br />` before every newline and changes nothing else: removing the
inserted markers gives the input back, and there are as many markers as newlines. -/
theorem C13_newline_to_br (u : Uni) (x : V) :
    apply u .newlineToBr x [] = .ok (sV (newlineToBr x.render)) ∧
    (∀ s t : Str, newlineToBr (s ++ t) = newlineToBr s ++ newlineToBr t) ∧
    newlineToBr [] = [] ∧
    (∀ c, newlineToBr [c] = if c = '\n' then "<br />\n".toList else [c]) := by
  refine ⟨rfl, ?_, rfl, ?_⟩
  · intro s t; simp [newlineToBr]
  · intro c; simp only [newlineToBr, brNl, List.flatMap_cons, List.flatMap_nil, List.append_nil]
    by_cases h : c = '\n' <;> simp [h]

/-- `default` returns its argument exactly when the input is nil, false, or an empty
string/array/object (`query_state(DefaultValue)`), otherwise the input unchanged. -/
theorem C13_default (u : Uni) (x d : V) :
    apply u .default x [d] = .ok (if x.queryState .dflt then d else x) := rfl

example : defaultV (sV []) (sV ['d']) = sV ['d'] ∧ defaultV (sV [' ']) (sV ['d']) = sV [' '] ∧
    defaultV .nil (sV ['d']) = sV ['d'] := ⟨rfl, rfl, rfl⟩

/-! ### strip family -/

/-- **strip = lstrip after rstrip** (and also rstrip after lstrip), on every string. -/
theorem C13_strip (s : Str) :
    trim s = trimStart (trimEnd s) ∧ trim s = trimEnd (trimStart s) :=
  ⟨trimEnd_trimStart_comm s, rfl⟩

/-- The same law at the level of the filters applied to arbitrary values. -/
theorem C13_strip_filters (u : Uni) (x : V) :
    ∃ r, apply u .rstrip x [] = .ok r ∧ apply u .lstrip r [] = apply u .strip x [] := by
  refine ⟨sV (trimEnd x.render), rfl, ?_⟩
  simp only [apply, sV, V.render, Sc.render]
  rw [(C13_strip x.render).1]

/-- What the strip filters compute: `lstrip` removes a maximal whitespace prefix, `rstrip` a maximal
whitespace suffix, `strip` both — the removed parts consist of White_Space characters only and the
result neither starts (`lstrip`, `strip`) nor ends (`rstrip`, `strip`) with one. -/
theorem C13_strip_spec (s : Str) :
    (∃ a, s = a ++ trimStart s ∧ a.all isUniWs = true ∧ ∀ c, (trimStart s).head? = some c → isUniWs c = false) ∧
    (∃ b, s = trimEnd s ++ b ∧ b.all isUniWs = true ∧ ∀ c, (trimEnd s).getLast? = some c → isUniWs c = false) ∧
    (∃ a b, s = a ++ trim s ++ b ∧ a.all isUniWs = true ∧ b.all isUniWs = true ∧
      (∀ c, (trim s).head? = some c → isUniWs c = false) ∧
      (∀ c, (trim s).getLast? = some c → isUniWs c = false)) := by
  refine ⟨?_, ?_, ?_⟩
  · obtain ⟨a, h1, h2⟩ := trimStart_append_ws s
    exact ⟨a, h1, h2, trimStart_head_not_ws s⟩
  · obtain ⟨b, h1, h2⟩ := trimEnd_append_ws s
    exact ⟨b, h1, h2, trimEnd_getLast_not_ws s⟩
  · obtain ⟨a, h1, h2⟩ := trimStart_append_ws s
    obtain ⟨b, h3, h4⟩ := trimEnd_append_ws (trimStart s)
    refine ⟨a, b, ?_, h2, h4, ?_, trimEnd_getLast_not_ws _⟩
    · unfold trim; rw [List.append_assoc, ← h3, ← h1]
    · rw [(C13_strip s).1]; exact trimStart_head_not_ws _

/-- Whitespace-only (in particular empty) strings strip to the empty string. -/
theorem C13_strip_blank (s : Str) (h : s.all isUniWs = true) :
    trim s = [] ∧ trimStart s = [] ∧ trimEnd s = [] := by
  refine ⟨?_, trimStart_eq_nil_of_all_ws s h, trimEnd_eq_nil_of_all_ws s h⟩
  unfold trim; rw [trimStart_eq_nil_of_all_ws s h]; rfl

example : trim " \t\na b  ".toList = "a b".toList := by decide

/-- `strip_newlines` deletes exactly the `\n` and `\r` characters and keeps everything else in
order. -/
theorem C13_strip_newlines (u : Uni) (x : V) :
    apply u .stripNewlines x [] = .ok (sV (x.render.filter fun c => c != '\n' && c != '\r')) := rfl

/-! ### split / join -/

/-- **split then join on the same separator is the identity** on strings (for every separator —
the property asks for the non-empty ones; the empty separator splits into characters). -/
theorem C13_split_join (sep s : Str) : joinWith sep (strSplit sep s) = s :=
  joinWith_strSplit sep s

/-- The same law through the filters and the value model: `x | split: sep | join: sep` is the
string form of `x`, for every value `x` (an empty input splits into the empty array, which joins to
the empty string). -/
theorem C13_split_join_filters (u : Uni) (x sep : V) :
    ∃ r, apply u .split x [sep] = .ok r ∧ apply u .join r [sep] = .ok (sV x.render) := by
  refine ⟨splitV x sep.render, rfl, ?_⟩
  simp only [apply, splitV, strArg]
  by_cases h : x.render.isEmpty = true
  · simp only [h, if_true, joinV, List.map_nil, joinWith]
    have : x.render = [] := by simpa using h
    rw [this]
  · have h' : x.render.isEmpty = false := by simpa using h
    simp only [h', Bool.false_eq_true, if_false, joinV]
    have hm : (List.map sV (strSplit sep.render x.render)).map V.render = strSplit sep.render x.render := by
      rw [List.map_map]
      have : (V.render ∘ sV) = id := by funext t; simp [sV, V.render, Sc.render]
      rw [this, List.map_id]
    rw [hm, C13_split_join]

/-- `split` on a non-empty separator: unfolding equations (leftmost, non-overlapping matches). -/
theorem C13_split_eqns (sep : Str) (hs : sep ≠ []) :
    strSplit sep [] = [[]] ∧
    (∀ s, s ≠ [] → sep <+: s → strSplit sep s = [] :: strSplit sep (s.drop sep.length)) ∧
    (∀ c r, ¬ sep <+: (c :: r) → ∃ p ps, strSplit sep r = p :: ps ∧ strSplit sep (c :: r) = (c :: p) :: ps) := by
  refine ⟨?_, ?_, ?_⟩
  · rw [strSplit_of_ne_nil hs]; rfl
  · intro s hne hpre
    rw [strSplit_of_ne_nil hs, strSplit_of_ne_nil hs]
    exact splitK_match hs (List.isPrefixOf_iff_prefix.mpr hpre) hne
  · intro c r hpre
    rw [strSplit_of_ne_nil hs, strSplit_of_ne_nil hs]
    apply splitK_nomatch
    cases hb : sep.isPrefixOf (c :: r) with
    | false => rfl
    | true => exact absurd (List.isPrefixOf_iff_prefix.mp hb) hpre

/-- `split` cuts at *every* occurrence it scans over: no piece contains the (non-empty) separator,
and there is always at least one piece. -/
theorem C13_split_pieces (sep s : Str) (hs : sep ≠ []) :
    strSplit sep s ≠ [] ∧ ∀ p ∈ strSplit sep s, ¬ sep <:+: p := by
  rw [strSplit_of_ne_nil hs]
  exact ⟨splitK_ne_nil sep 0 s, splitK_pieces_no_pat hs s 0⟩

example : strSplit "aa".toList "aaa".toList = ["".toList, "a".toList] ∧
    strSplit ", ".toList "a, b, c".toList = ["a".toList, "b".toList, "c".toList] ∧
    strSplit [] "ab".toList = [[], ['a'], ['b'], []] := by decide

/-- `join` concatenates the string forms of the elements with the separator between them (default
separator: one space) and is an error on a non-array. -/
theorem C13_join (u : Uni) (xs : List V) (sep : V) :
    apply u .join (.arr xs) [sep] = .ok (sV (joinWith sep.render (xs.map V.render))) ∧
    apply u .join (.arr xs) [] = .ok (sV (joinWith [' '] (xs.map V.render))) ∧
    (∀ a b : Str, ∀ r : List Str, joinWith sep.render (a :: b :: r) = a ++ sep.render ++ joinWith sep.render (b :: r)) ∧
    (∀ a : Str, joinWith sep.render [a] = a) ∧ joinWith sep.render [] = [] :=
  ⟨rfl, rfl, fun _ _ _ => rfl, fun _ => rfl, rfl⟩

/-! ### replace / remove -/

/-- `replace` for a non-empty search string: scan left to right; at an occurrence emit the
replacement and continue after it (non-overlapping), otherwise copy one character. -/
theorem C13_replace_eqns (pat to : Str) (hp : pat ≠ []) :
    strReplace pat to [] = [] ∧
    (∀ s, pat <+: s → strReplace pat to s = to ++ strReplace pat to (s.drop pat.length)) ∧
    (∀ c r, ¬ pat <+: (c :: r) → strReplace pat to (c :: r) = c :: strReplace pat to r) := by
  refine ⟨strReplace_nil hp to, ?_, ?_⟩
  · intro s h; exact strReplace_match hp to (List.isPrefixOf_iff_prefix.mpr h)
  · intro c r h
    apply strReplace_nomatch hp
    cases hb : pat.isPrefixOf (c :: r) with
    | false => rfl
    | true => exact absurd (List.isPrefixOf_iff_prefix.mp hb) h

/-- `replace` with an empty search string inserts the replacement at every character boundary
(Rust `str::replace` semantics). -/
theorem C13_replace_empty (to s : Str) : strReplace [] to s = to ++ s.flatMap (fun c => c :: to) :=
  strReplace_empty to s

/-- Replacing a string by itself changes nothing; `remove` is `replace` with the empty string. -/
theorem C13_replace_self_remove (u : Uni) (pat s : Str) (x p : V) :
    strReplace pat pat s = s ∧ apply u .remove x [p] = apply u .replace x [p, sV []] ∧
    apply u .replace x [p] = apply u .replace x [p, sV []] :=
  ⟨joinWith_strSplit pat s, rfl, rfl⟩

/-- `replace_first` / `remove_first`: when the search string occurs, exactly its leftmost
occurrence is replaced (removed); when it does not occur the input is returned unchanged. -/
theorem C13_replace_first (pat to s : Str) :
    (¬ pat <:+: s → replaceFirst pat to s = s ∧ removeFirst pat s = s) ∧
    (pat <:+: s → ∃ a b, s = a ++ pat ++ b ∧ replaceFirst pat to s = a ++ to ++ b ∧ removeFirst pat s = a ++ b ∧
        ∀ a' b', s = a' ++ pat ++ b' → a.length ≤ a'.length) := by
  constructor
  · intro h
    cases hs : splitFirst pat s with
    | none => simp [replaceFirst, removeFirst, hs]
    | some ab =>
      obtain ⟨a, b⟩ := ab
      exact absurd ⟨a, b, (splitFirst_some hs).symm⟩ h
  · intro h
    cases hs : splitFirst pat s with
    | none => exact absurd h (splitFirst_none hs)
    | some ab =>
      obtain ⟨a, b⟩ := ab
      exact ⟨a, b, splitFirst_some hs, by simp [replaceFirst, hs], by simp [removeFirst, hs], splitFirst_leftmost hs⟩

example : strReplace "aa".toList "b".toList "aaa".toList = "ba".toList ∧
    replaceFirst "a".toList "".toList "banana".toList = "bnana".toList := by decide

/-! ### truncate / truncatewords -/

/-- the limit as the code sees it: `length as usize` (a negative limit is a huge one, i.e. "no
limit" — pinned by the repository's own `unit_truncate_negative_length`) -/
abbrev limitOf (n : Int) : Nat := toUsize n

/-- **Truncate bound.**  For every segmentation: the result of `truncate n e` is either the input
unchanged — and then it has at most `n` characters — or a concatenation of at most
`max n |e|` grapheme clusters, each a cluster of the input (in order, from the front) followed by
the clusters of the ellipsis.  Never a byte count anywhere. -/
theorem C13_truncate_bound (u : Uni) (hseg : IsSeg u.seg) (n : Nat) (e s : Str) :
    (truncStr u n e s = none ∧ s.length ≤ n) ∨
    (∃ k, n < s.length ∧ truncStr u n e s = some (((u.seg s).take k).flatten ++ e) ∧
       k + (u.seg e).length ≤ max n (u.seg e).length ∧
       ((u.seg s).take k ++ u.seg e).flatten = ((u.seg s).take k).flatten ++ e) := by
  unfold truncStr
  by_cases h : n < s.length
  · right
    refine ⟨n - e.length, h, by simp [h], ?_, by simp [(hseg e).1]⟩
    have := hseg.length_le e
    omega
  · left; exact ⟨by simp [h], by omega⟩

/-- Corollary in characters when every cluster of the input is a single character (e.g. ASCII,
precomposed letters): the result has at most `max n |e|` characters. -/
theorem C13_truncate_bound_chars (u : Uni) (n : Nat) (e s r : Str)
    (h1 : ∀ g ∈ u.seg s, g.length ≤ 1) (h : truncStr u n e s = some r) :
    r.length ≤ max n e.length := by
  unfold truncStr at h
  split at h
  · simp only [Option.some.injEq] at h
    subst h
    have key : ∀ L : List Str, (∀ g ∈ L, g.length ≤ 1) → L.flatten.length ≤ L.length := by
      intro L hL
      induction L with
      | nil => simp
      | cons g gs ih =>
        have := hL g (by simp)
        have := ih (fun x hx => hL x (by simp [hx]))
        simp only [List.flatten_cons, List.length_append, List.length_cons]; omega
    have := key ((u.seg s).take (n - e.length)) (fun g hg => h1 g (List.mem_of_mem_take hg))
    simp only [List.length_append, List.length_take] at this ⊢
    omega
  · simp at h

/-- the trivial segmentation: every character its own cluster (exact for ASCII / precomposed text) -/
def charSeg (s : Str) : List Str := s.map fun c => [c]

/-- The bound measured on the result itself: when concatenation never increases the number of
clusters beyond the sum and a prefix of whole clusters re-segments into no more clusters (both
hold for extended grapheme clusters; checked on every case of the correspondence run, where the
implementation's own segmentation of its output is shipped), the truncated string has at most
`max n |e|` grapheme clusters. -/
theorem C13_truncate_bound_graphemes (u : Uni) (hseg : IsSeg u.seg)
    (hsub : ∀ a b, (u.seg (a ++ b)).length ≤ (u.seg a).length + (u.seg b).length)
    (hpre : ∀ s k, (u.seg ((u.seg s).take k).flatten).length ≤ k)
    (n : Nat) (e s r : Str) (h : truncStr u n e s = some r) :
    (u.seg r).length ≤ max n (u.seg e).length := by
  unfold truncStr at h
  split at h
  · simp only [Option.some.injEq] at h
    subst h
    have h1 := hsub ((u.seg s).take (n - e.length)).flatten e
    have h2 := hpre s (n - e.length)
    have h3 := hseg.length_le e
    omega
  · simp at h

example : IsSeg charSeg ∧
    (∀ a b, (charSeg (a ++ b)).length ≤ (charSeg a).length + (charSeg b).length) ∧
    (∀ s k, (charSeg ((charSeg s).take k).flatten).length ≤ k) := by
  refine ⟨fun s => ⟨?_, ?_⟩, ?_, ?_⟩
  · induction s with
    | nil => rfl
    | cons c r ih => simpa [charSeg] using ih
  · intro g hg; simp [charSeg] at hg; obtain ⟨c, _, rfl⟩ := hg; simp
  · intro a b; simp [charSeg]
  · intro s k
    have : ∀ L : List Str, (∀ g ∈ L, g.length = 1) → L.flatten.length = L.length := by
      intro L hL
      induction L with
      | nil => rfl
      | cons g gs ih =>
        have := hL g (by simp)
        have := ih (fun x hx => hL x (by simp [hx]))
        simp only [List.flatten_cons, List.length_append, List.length_cons]; omega
    simp only [charSeg, List.length_map]
    rw [this]
    · simp [List.length_take]; omega
    · intro g hg
      have := List.mem_of_mem_take hg
      simp at this; obtain ⟨c, _, rfl⟩ := this; rfl

/-- Truncation cuts a prefix: a truncated result is a prefix of the input (whole clusters) followed
by the ellipsis; an input within the limit is returned as the very same value. -/
theorem C13_truncate_prefix (u : Uni) (hseg : IsSeg u.seg) (x : V) (n : Int) (e : Str) :
    truncateV u x n e = x ∨ ∃ p, p <+: x.render ∧ truncateV u x n e = sV (p ++ e) := by
  unfold truncateV truncStr
  split
  · next r hr =>
    right
    split at hr
    · simp only [Option.some.injEq] at hr
      refine ⟨((u.seg x.render).take (toUsize n - e.length)).flatten, ?_, by rw [← hr]⟩
      have hfl := (hseg x.render).1
      have : (u.seg x.render) = (u.seg x.render).take (toUsize n - e.length) ++ (u.seg x.render).drop (toUsize n - e.length) :=
        (List.take_append_drop _ _).symm
      refine ⟨((u.seg x.render).drop (toUsize n - e.length)).flatten, ?_⟩
      rw [← List.flatten_append, ← this, hfl]
    · simp at hr
  · left; rfl

/-- the D13 witness now: `'ééé' | truncate: 4` is `ééé` -/
example (u : Uni) : apply u .truncate (sV "ééé".toList) [.sc (.int 4)] = .ok (sV "ééé".toList) := by
  simp [apply, StrF.intArg, Sc.toInteger?, Res.bind, truncateV, truncStr, toUsize, sV, V.render, Sc.render]

/-- The code at the pinned commit compared byte lengths (D13): `'ééé' | truncate: 4` gave `é...`,
four characters cut down although the limit was not exceeded. -/
theorem C13_truncate_old_counterexample :
    truncStrOld { upper := fun c => [c], lower := fun c => [c], seg := segSimple } 4 "...".toList "ééé".toList
      = some "é...".toList := by decide

/-- `truncatewords`: words are the pieces between single spaces; with more than `n` of them the
first `n` are kept, re-joined by single spaces, and the ellipsis is appended; otherwise the input
is returned as the very same value. -/
theorem C13_truncatewords (x : V) (n : Int) (e : Str) :
    let ws := strSplit [' '] x.render
    (ws.length ≤ limitOf n → truncateWordsV x n e = x) ∧
    (limitOf n < ws.length → truncateWordsV x n e = sV (joinWith [' '] (ws.take (limitOf n)) ++ e)) ∧
    joinWith [' '] ws = x.render := by
  refine ⟨?_, ?_, C13_split_join _ _⟩
  · intro h
    simp only [truncateWordsV, truncWords]
    rw [if_neg (by simp only [limitOf] at h; omega)]
  · intro h
    simp only [truncateWordsV, truncWords]
    rw [if_pos h]

/-! ### slice -/

/-- **Slice** on strings counts in characters: for every offset and every length ≥ 1 the result is
`sliceSpec` — `drop offset` (from the end when negative, empty when out of range) then `take length`
— hence a contiguous piece of the input of at most the requested length.  No panic for any `i64`
arguments (D9 repaired). -/
theorem C13_slice_infix (off len : Int) (s : Str) (ho : inI64 off = true) (hl : inI64 len = true)
    (h1 : 1 ≤ len) (hs : s.length < 2^63) :
    sliceStr off len s = .ok (sliceSpec off len s) ∧
    sliceSpec off len s <:+: s ∧ (sliceSpec off len s).length ≤ len.toNat := by
  obtain ⟨o, l, hc, h⟩ := canonSlice_list s off len ho hl h1 hs
  refine ⟨?_, sliceSpec_infix off len s, sliceSpec_length off len s⟩
  simp only [sliceStr, hc, h]

/-- The same for arrays (`slice` shares `canonicalize_slice`). -/
theorem C13_slice_array (off len : Int) (xs : List V) (ho : inI64 off = true) (hl : inI64 len = true)
    (h1 : 1 ≤ len) (hs : xs.length < 2^63) :
    sliceArr off len xs = .ok (sliceSpec off len xs) := by
  obtain ⟨o, l, hc, h⟩ := canonSlice_list xs off len ho hl h1 hs
  simp only [sliceArr, hc, h]

/-- Filter level: a length below 1 is the documented error; otherwise the result is the slice of
the array, or of the string form of anything else. -/
theorem C13_slice_filter (u : Uni) (x : V) (off len : Int) (ho : inI64 off = true) (hl : inI64 len = true)
    (hs : x.render.length < 2^63) (hx : ∀ xs, x = .arr xs → xs.length < 2^63) :
    apply u .slice x [.sc (.int off), .sc (.int len)] =
      if len < 1 then .err else
      match x with
      | .arr xs => .ok (.arr (sliceSpec off len xs))
      | v => .ok (sV (sliceSpec off len v.render)) := by
  simp only [apply, StrF.intArg, Sc.toInteger?, Res.bind, sliceV]
  by_cases h : len < 1
  · simp [h]
  · simp only [h, if_false]
    have h1 : 1 ≤ len := by omega
    cases x with
    | arr xs => simp only [C13_slice_array off len xs ho hl h1 (hx xs rfl)]
    | nil => simp only [(C13_slice_infix off len _ ho hl h1 hs).1]
    | st _ => simp only [(C13_slice_infix off len _ ho hl h1 hs).1]
    | sc _ => simp only [(C13_slice_infix off len _ ho hl h1 hs).1]
    | obj _ => simp only [(C13_slice_infix off len _ ho hl h1 hs).1]

/-- the D15 witness now: `'ééé' | slice: -1` is `é` -/
example : sliceStr (-1) 1 "ééé".toList = .ok "é".toList := by rfl

/-- Pinned commit, D15: negative offsets were resolved against the *byte* length, so
`'ééé' | slice: -1` was empty (offset 5 of a 3-character string). -/
theorem C13_slice_old_counterexample_bytes : sliceStrOld (-1) 1 "ééé".toList = .ok [] := by rfl

/-- Pinned commit, D9: `slice: 1, 9223372036854775807` overflowed `isize`. -/
theorem C13_slice_old_counterexample_overflow :
    (sliceStrOld 1 9223372036854775807 "abc".toList).isPanic = true ∧
    sliceStr 1 9223372036854775807 "abc".toList = .ok "bc".toList := ⟨by rfl, by rfl⟩

/-! ### size / first / last -/

/-- **size** of a scalar is the number of characters of its string form (never bytes); of an array
or object the number of elements; of nil 0. -/
theorem C13_size_chars (u : Uni) (x : V) :
    apply u .size x [] = .ok (.sc (.int (match x with
      | .sc s => (s.render.length : Int)
      | .arr xs => xs.length
      | .obj kvs => kvs.length
      | _ => 0))) := by
  cases x <;> rfl

example (u : Uni) : apply u .size (sV "ééé".toList) [] = .ok (.sc (.int 3)) := rfl

/-- Pinned commit, D14: `'ééé' | size` was 6. -/
theorem C13_size_old_counterexample : sizeVOld (sV "ééé".toList) = 6 := by decide

/-- **first / last** of a scalar are its first / last character as a string (empty string when
there is none); of an array its first / last element (nil when empty); anything else is an error. -/
theorem C13_first_last (u : Uni) :
    (∀ s : Sc, apply u .first (.sc s) [] = .ok (sV (s.render.take 1)) ∧
               apply u .last (.sc s) [] = .ok (sV (s.render.drop (s.render.length - 1)))) ∧
    (∀ xs : List V, apply u .first (.arr xs) [] = .ok (xs.head?.getD .nil) ∧
                    apply u .last (.arr xs) [] = .ok (xs.getLast?.getD .nil)) ∧
    apply u .first .nil [] = .err ∧ apply u .last .nil [] = .err := by
  refine ⟨?_, ?_, rfl, rfl⟩
  · intro s
    constructor
    · simp only [apply, firstV]
      cases s.render <;> rfl
    · simp only [apply, lastV]
      rw [lastChar_eq_drop]
  · intro xs
    constructor
    · simp only [apply, firstV]; cases xs <;> rfl
    · rfl

example (u : Uni) : apply u .first (sV "é1".toList) [] = .ok (sV "é".toList) ∧
    apply u .last (sV "1é".toList) [] = .ok (sV "é".toList) := ⟨rfl, rfl⟩

/-! ### arity and argument conversion -/

/-- Integer parameters accept integers and strings that parse as `i64`; anything else is an error
(never a panic, never a silent default). -/
theorem C13_int_args (u : Uni) (x a : V) (h : StrF.intArg a = .err) :
    apply u .truncate x [a] = .err ∧ apply u .truncatewords x [a] = .err ∧ apply u .slice x [a] = .err := by
  simp [apply, h, Res.bind]

/-- **No panic.**  No string filter panics, for any input value and any arguments whose integers
are `i64` values (strings and arrays shorter than `isize::MAX`): the `isize` arithmetic of
`canonicalize_slice` — the only panic sites of these filters — stays in range (D9 repaired). -/
theorem C13_no_panic (u : Uni) (f : Fn) (x : V) (args : List V)
    (hargs : ∀ i, V.sc (.int i) ∈ args → inI64 i = true)
    (hs : x.render.length < 2^63) (hx : ∀ xs, x = .arr xs → xs.length < 2^63) :
    (apply u f x args).isPanic = false :=
  apply_not_panic u f x args hargs hs hx

/-! ### chains -/

/-- **A filter chain is the left-to-right composition of its filters**: the result of
`e | f₁ … | fₙ | g` is `g` applied to the result of `e | f₁ … | fₙ`, errors and panics of an earlier
stage propagate and later filters do not run.  (`evalChain` is the interpreter's
`FilterChain::evaluate`.) -/
theorem C13_chain (env : Env) (st : Stack) (e : Expr) (fs : List FCall) (g : FCall) :
    evalChain env st e [] = e.eval st ∧
    evalChain env st e (fs ++ [g]) =
      (evalChain env st e fs).bind (fun acc =>
        (evalArgs st g.args).bind fun args =>
          match env.filters g.name with
          | some fn => fn acc args
          | none => .err) := by
  constructor
  · simp only [evalChain, bind, List.foldlM, pure]
    cases e.eval st <;> rfl
  · simp only [evalChain, bind]
    cases e.eval st with
    | ok v =>
      simp only [Res.bind]
      induction fs generalizing v with
      | nil =>
        simp only [List.nil_append, List.foldlM, bind, pure]
        cases evalArgs st g.args with
        | ok args =>
          simp only [Res.bind]
          cases env.filters g.name with
          | none => rfl
          | some fn => simp only []; cases fn v args <;> rfl
        | _ => rfl
      | cons f fs ih =>
        simp only [List.cons_append, List.foldlM, bind]
        cases evalArgs st f.args with
        | ok args =>
          simp only [Res.bind]
          cases env.filters f.name with
          | none => rfl
          | some fn =>
            simp only []
            cases fn v args with
            | ok v' => exact ih v'
            | _ => rfl
        | _ => rfl
    | _ => rfl

/-- The same for the value-level chain of string filters, as an explicit recursion from the left:
the first filter is applied to the entry value, the rest of the chain to its result. -/
theorem C13_chain_compose (u : Uni) (v : V) (f : Fn) (args : List V) (fs gs : List (Fn × List V)) :
    chain u v [] = .ok v ∧
    chain u v ((f, args) :: fs) = (apply u f v args).bind (fun v' => chain u v' fs) ∧
    chain u v (fs ++ gs) = (chain u v fs).bind (fun v' => chain u v' gs) := by
  refine ⟨rfl, ?_, ?_⟩
  · simp only [chain]
    cases apply u f v args <;> rfl
  · induction fs generalizing v with
    | nil => rfl
    | cons h t ih =>
      obtain ⟨f', a'⟩ := h
      simp only [List.cons_append, chain]
      cases apply u f' v a' with
      | ok v' => exact ih v'
      | _ => rfl

/-- The interpreter's chain over literal arguments with the string-filter table *is* the
value-level chain: what a template `{{ x | f₁: a… | f₂: b… }}` computes is `chain`. -/
theorem C13_chain_table (u : Uni) (st : Stack) (v : V) (fs : List (Fn × String × List V))
    (hn : ∀ t ∈ fs, Fn.ofName t.2.1 = some t.1) :
    evalChain { filters := table u } st (.lit v)
        (fs.map fun t => { name := t.2.1.toList, args := t.2.2.map Expr.lit }) =
      chain u v (fs.map fun t => (t.1, t.2.2)) := by
  have hargs : ∀ as : List V, evalArgs st (as.map Expr.lit) = .ok as := by
    intro as
    induction as with
    | nil => rfl
    | cons a r ih => simp only [List.map_cons, evalArgs, Expr.eval, bind, Res.bind, ih, pure]
  simp only [evalChain, Expr.eval, bind, Res.bind]
  induction fs generalizing v with
  | nil => rfl
  | cons t r ih =>
    have h1 := hn t (by simp)
    simp only [List.map_cons, List.foldlM, bind, hargs, Res.bind, table, String.ofList_toList, h1, Option.map_some, chain]
    cases apply u t.1 v t.2.2 with
    | ok v' => exact ih v' (fun x hx => hn x (by simp [hx]))
    | _ => rfl

example : Fn.ofName "strip_newlines" = some .stripNewlines := by decide

/-! ### the executable specification and the model agree -/

/-- The reference implementations that judge the implementation in the correspondence run
(`Spec/C13.lean`: `dropWhile`/`reverse` trimming, fuel-driven scanners for replace and split, index
search for replace_first, a fold for join and for the words of truncatewords, integer offset
arithmetic for slice) compute exactly the model's functions: a disagreement between implementation
and model is a disagreement with the specification. -/
theorem C13_reference_agrees :
    (∀ s, C13S.refLstrip s = trimStart s) ∧ (∀ s, C13S.refRstrip s = trimEnd s) ∧
    (∀ s, C13S.refStrip s = trim s) ∧
    (∀ sep xs, C13S.refJoin sep xs = joinWith sep xs) ∧
    (∀ pat to s, C13S.refReplace pat to s = strReplace pat to s) ∧
    (∀ pat s, C13S.refSplit pat s = strSplit pat s) ∧
    (∀ pat to s, C13S.refReplaceFirst pat to s = replaceFirst pat to s) ∧
    (∀ pat s, C13S.refReplaceFirst pat [] s = removeFirst pat s) ∧
    (∀ s, C13S.refWords s = strSplit [' '] s) ∧
    (∀ (off len : Int) (s : Str), C13S.refSlice off len s = sliceSpec off len s) ∧
    (∀ (off len : Int) (xs : List V), C13S.refSlice off len xs = sliceSpec off len xs) := by
  refine ⟨fun s => (trimStart_eq_dropWhile s).symm, refRstrip_eq, ?_, refJoin_eq, refReplace_eq, refSplit_eq,
    refReplaceFirst_eq, ?_, refWords_eq, refSlice_eq, refSlice_eq⟩
  · intro s
    unfold C13S.refStrip trim
    rw [refRstrip_eq]
    unfold C13S.refLstrip
    rw [trimStart_eq_dropWhile]
  · intro pat s
    rw [refReplaceFirst_eq, removeFirst_eq_replaceFirst]

end Liquid.C13
