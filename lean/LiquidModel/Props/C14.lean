/-
  C14 — array filters neither invent nor lose elements beyond their contract.
  Property theorems only (plus non-vacuity examples).  Model: `Model/ArrFilters.lean`
  (`sortFilter`, `sortNaturalFilter`, `uniqFilter`, `reverseFilter`, `compactFilter`, `concatFilter`,
  `mapFilter`, `whereFilter`, `firstFilter`, `lastFilter`, `sizeFilter`, `sliceFilter`, `joinFilter`);
  hypothesis `TotalPreorderOn` and the executable checks: `Spec/C14.lean`; helper lemmas:
  `Lemmas/C14.lean`.

  The sort comparator modelled is the repaired one (D8, `patches/C14-sort-total-preorder.diff`);
  `sortLeOld` is the comparator of the pinned commit.
-/
import LiquidModel.Lemmas.C14
namespace Liquid.C14
open Liquid Liquid.Arr List

/-! ### sort, sort_natural, reverse: permutations — for EVERY comparator / key / input -/

/-- `sort` (with or without a property) only rearranges. No hypothesis on the comparator. -/
theorem C14_sort_perm (key : V → V) (xs : List V) : (sortByKey key xs).Perm xs :=
  mergeSort_perm _ _

/-- `sort_natural` only rearranges, for every lower-casing table. -/
theorem C14_sort_natural_perm (lower : Str → Str) (key : V → V) (xs : List V) :
    (sortNaturalBy lower key xs).Perm xs := by
  rw [sortNaturalBy_eq]; exact mergeSort_perm _ _

/-- `reverse` only rearranges, and `ys[i] = xs[n-1-i]`. -/
theorem C14_reverse_perm (xs : List V) :
    ∃ ys, reverseFilter (.arr xs) [] = .ok (.arr ys) ∧ ys.Perm xs ∧ ys.length = xs.length ∧
      ∀ i, i < xs.length → ys[i]? = xs[xs.length - 1 - i]? := by
  refine ⟨xs.reverse, rfl, reverse_perm xs, length_reverse, ?_⟩
  intro i hi
  rw [getElem?_reverse hi]

/-- The filters themselves: whatever the input value and arguments, `sort` / `sort_natural` either
report an error or return an array that is a rearrangement of the input sequence (nil = empty,
scalar = singleton); they never panic. -/
theorem C14_sort_filter_perm (input : V) (args : List V) :
    sortFilter input args = .err ∨
    ∃ ys, sortFilter input args = .ok (.arr ys) ∧ ys.Perm (asSequence input) := by
  unfold sortFilter
  match args with
  | [] => exact Or.inr ⟨_, rfl, C14_sort_perm _ _⟩
  | [p] =>
    by_cases h : (asSequence input).all isObj
    · exact Or.inr ⟨sortByKey (propOf p.render) (asSequence input), by simp [h], C14_sort_perm _ _⟩
    · exact Or.inl (by simp [h])
  | _ :: _ :: _ => exact Or.inl rfl

theorem C14_sort_natural_filter_perm (lower : Str → Str) (input : V) (args : List V) :
    sortNaturalFilter lower input args = .err ∨
    ∃ ys, sortNaturalFilter lower input args = .ok (.arr ys) ∧ ys.Perm (asSequence input) := by
  unfold sortNaturalFilter
  match args with
  | [] => exact Or.inr ⟨_, rfl, C14_sort_natural_perm _ _ _⟩
  | [p] =>
    by_cases h : (asSequence input).all isObj
    · exact Or.inr ⟨sortNaturalBy lower (propOf p.render) (asSequence input), by simp [h], C14_sort_natural_perm _ _ _⟩
    · exact Or.inl (by simp [h])
  | _ :: _ :: _ => exact Or.inl rfl

/-! ### sorted, stable, idempotent — under the total-preorder hypothesis -/

/-- the executable check of the hypothesis is exact -/
theorem C14_totalPreorderOnB_iff {α : Type} (xs : List α) (le : α → α → Bool) :
    totalPreorderOnB xs le = true ↔ TotalPreorderOn xs le := by
  constructor
  · intro h
    simp only [totalPreorderOnB, all_eq_true, Bool.and_eq_true, Bool.or_eq_true, Bool.not_eq_true',
      Bool.and_eq_false_iff] at h
    refine ⟨fun a ha b hb => ?_, fun a ha b hb c hc hab hbc => ?_⟩
    · simpa using (h a ha b hb).1
    · rcases (h a ha b hb).2 c hc with (h1 | h1) | h1
      · simp [hab] at h1
      · simp [hbc] at h1
      · exact h1
  · intro h
    simp only [totalPreorderOnB, all_eq_true, Bool.and_eq_true, Bool.or_eq_true, Bool.not_eq_true',
      Bool.and_eq_false_iff]
    intro a ha b hb
    refine ⟨by simpa using h.total a ha b hb, fun c hc => ?_⟩
    by_cases hab : le a b = true
    · by_cases hbc : le b c = true
      · exact Or.inr (h.trans a ha b hb c hc hab hbc)
      · exact Or.inl (Or.inr (by simpa using hbc))
    · exact Or.inl (Or.inl (by simpa using hab))

/-- **Sorted, stable, idempotent.**  If the comparator is a total preorder on the elements of the
array, the sort result is non-decreasing; every non-decreasing subsequence of the input (in
particular every pair of elements the comparator cannot tell apart) keeps its order; and sorting
again changes nothing. -/
theorem C14_sort_sorted_stable_idem (key : V → V) (xs : List V)
    (h : TotalPreorderOn xs (fun a b => sortLe (key a) (key b))) :
    (sortByKey key xs).Pairwise (fun a b => sortLe (key a) (key b) = true) ∧
    (∀ ys, ys <+ xs → ys.Pairwise (fun a b => sortLe (key a) (key b) = true) → ys <+ sortByKey key xs) ∧
    sortByKey key (sortByKey key xs) = sortByKey key xs :=
  ⟨sorted_of_preorderOn h, fun _ hs hp => stable_of_preorderOn h hs hp, idem_of_preorderOn h⟩

/-- **Non-decreasing for mutually comparable elements**, in the property's own reading: in the
result no element is followed by one that is smaller — where "smaller" means: comparable by
`partial_cmp` and `Less`, or non-nil after nil (`cmpGt`, which does not mention the kind ranks of
the repair). -/
theorem C14_sort_non_decreasing (key : V → V) (xs : List V)
    (h : TotalPreorderOn xs (fun a b => sortLe (key a) (key b))) :
    (sortByKey key xs).Pairwise (fun a b => cmpGt (key a) (key b) = false) :=
  (sorted_of_preorderOn h).imp fun hab => not_cmpGt_of_sortLe _ _ hab

/-- the same for any comparator (this is the statement used for `sort_natural` and for `std`) -/
theorem C14_mergeSort_sorted_stable_idem {α : Type} (le : α → α → Bool) (xs : List α)
    (h : TotalPreorderOn xs le) :
    (xs.mergeSort le).Pairwise (fun a b => le a b = true) ∧
    (∀ ys, ys <+ xs → ys.Pairwise (fun a b => le a b = true) → ys <+ xs.mergeSort le) ∧
    (xs.mergeSort le).mergeSort le = xs.mergeSort le :=
  ⟨sorted_of_preorderOn h, fun _ hs hp => stable_of_preorderOn h hs hp, idem_of_preorderOn h⟩

/-- **`sort_natural` needs no hypothesis**: its comparator (nil last, otherwise the case-folded
rendering in code-point order) is a total preorder on all values, so the result is always sorted by
the case-folded key, stable (strings differing only in case keep their input order) and idempotent. -/
theorem C14_sort_natural_sorted_stable_idem (lower : Str → Str) (key : V → V) (xs : List V) :
    let le := fun a b => casecmpLe (casecmpKey lower (key a)) (casecmpKey lower (key b))
    (sortNaturalBy lower key xs).Pairwise (fun a b => le a b = true) ∧
    (∀ ys, ys <+ xs → ys.Pairwise (fun a b => le a b = true) → ys <+ sortNaturalBy lower key xs) ∧
    sortNaturalBy lower key (sortNaturalBy lower key xs) = sortNaturalBy lower key xs := by
  intro le
  have h := natural_preorderOn lower key xs
  simp only [sortNaturalBy_eq]
  exact ⟨sorted_of_preorderOn h, fun _ hs hp => stable_of_preorderOn h hs hp, idem_of_preorderOn h⟩

/-- **Uniqueness of the stable sort** — the tie between `std`'s `sort_by` and the model.  Tag every
input element with its position.  Any rearrangement of the tagged input that is ordered by the
comparator and, among elements the comparator cannot tell apart, by input position (= any correct
stable sort) is, untagged, exactly the model's result. -/
theorem C14_stable_unique {α : Type} (le : α → α → Bool) (xs : List α) (h : TotalPreorderOn xs le)
    (ys : List (α × Nat)) (hperm : ys.Perm xs.zipIdx)
    (hsorted : ys.Pairwise (fun a b => zipIdxLE le a b = true)) :
    ys.map (·.1) = xs.mergeSort le :=
  stable_unique_of_preorderOn h ys hperm hsorted

/-- **nil last** (`sort`): once a nil (or a missing / nil property) has been emitted only such
elements follow. -/
theorem C14_nil_last (key : V → V) (xs : List V)
    (h : TotalPreorderOn xs (fun a b => sortLe (key a) (key b))) :
    (sortByKey key xs).Pairwise (fun a b => (key a).isNil = true → (key b).isNil = true) := by
  refine (sorted_of_preorderOn h).imp ?_
  intro a b hab ha
  cases hk : key a with
  | nil => rw [hk, sortLe_nil_left] at hab; exact hab
  | _ => simp [hk, V.isNil] at ha

/-- nil last for `sort_natural`, unconditionally -/
theorem C14_nil_last_natural (lower : Str → Str) (key : V → V) (xs : List V) :
    (sortNaturalBy lower key xs).Pairwise (fun a b => (key a).isNil = true → (key b).isNil = true) := by
  rw [sortNaturalBy_eq]
  refine (sorted_of_preorderOn (natural_preorderOn lower key xs)).imp ?_
  intro a b hab ha
  simp only [casecmpKey, ha, if_true, casecmpLe_none_left] at hab
  by_cases hb : (key b).isNil = true
  · exact hb
  · simp [hb] at hab

/-! ### the hypothesis holds for the repaired comparator on the common value kinds -/

/-- The repaired `sort` comparator is a total preorder on every array whose (keys of the) elements
are integers, strings, booleans, dates, nils and state markers in ANY mixture. -/
theorem C14_preorder_ints_strings_mixed (key : V → V) (xs : List V)
    (h : ∀ v, v ∈ xs → nice false (key v) = true) :
    TotalPreorderOn xs (fun a b => sortLe (key a) (key b)) :=
  preorderOn_of_nice false key xs h

/-- … and on every mixture of floats (NaN and infinities included), strings, booleans, dates, nils. -/
theorem C14_preorder_floats_strings_mixed (key : V → V) (xs : List V)
    (h : ∀ v, v ∈ xs → nice true (key v) = true) :
    TotalPreorderOn xs (fun a b => sortLe (key a) (key b)) :=
  preorderOn_of_nice true key xs h

/-- … and on every mixture of floats with integers of absolute value below 2^53 (where `i64 as f64`
is exact), strings, booleans, dates, nils.  Beyond 2^53 the implementation compares an integer
with a float after rounding, `Equal` stops being transitive (`2^53 == 2^53.0 == 2^53+1`) and the
hypothesis fails — see `C14_int_float_counterexample`. -/
theorem C14_preorder_small_ints_floats_mixed (key : V → V) (xs : List V)
    (h : ∀ v, v ∈ xs → nice2 (key v) = true) :
    TotalPreorderOn xs (fun a b => sortLe (key a) (key b)) :=
  preorderOn_of_nice2 key xs h

/-- 2^53 as an `f64` -/
def f2p53 : V := .sc (.flt { bits := 0x4340000000000000 })

/-- **Residual inconsistency (open finding).**  `2^53+1 == 2^53.0 == 2^53` but `2^53+1 > 2^53`:
`partial_cmp` itself is inconsistent inside the number kind, the repaired comparator inherits it,
and `sort_by` can still panic on long arrays of this shape (harness kind `residual-int-float`). -/
theorem C14_int_float_counterexample :
    ¬ TotalPreorderOn [V.sc (.int 9007199254740993), f2p53, V.sc (.int 9007199254740992)] sortLe := by
  intro h
  have := h.trans (V.sc (.int 9007199254740993)) (by simp) f2p53 (by simp)
    (V.sc (.int 9007199254740992)) (by simp) (by decide +kernel) (by decide +kernel)
  exact absurd this (by decide +kernel)

/-- Consequently: an all-integer (all-string, integer/string/nil-mixed …) array is sorted in
non-decreasing order, stably, idempotently, nils last. -/
theorem C14_sort_mixed_scalars (xs : List V) (h : ∀ v, v ∈ xs → nice false v = true) :
    (sortByKey id xs).Pairwise (fun a b => sortLe a b = true) ∧
    sortByKey id (sortByKey id xs) = sortByKey id xs ∧
    (sortByKey id xs).Pairwise (fun a b => a.isNil = true → b.isNil = true) := by
  have hp := C14_preorder_ints_strings_mixed id xs h
  exact ⟨(C14_sort_sorted_stable_idem id xs hp).1, (C14_sort_sorted_stable_idem id xs hp).2.2,
    C14_nil_last id xs hp⟩

/-- on integers the comparator is `≤`, on strings code-point lexicographic order -/
theorem C14_sortLe_int (x y : Int) : sortLe (.sc (.int x)) (.sc (.int y)) = decide (x ≤ y) := by
  rw [Bool.eq_iff_iff]
  simp only [sortLe, sortCmp, nilSafeCompare, V.isNil, kindRank, valueCmp, scalarCmp]
  simp only [Bool.and_self, Bool.false_eq_true, if_false, Nat.lt_irrefl, Option.getD_some,
    decide_eq_true_eq]
  exact int_le_iff x y

/-- **D8.**  The comparator of the pinned commit (incomparable ⇒ `Equal`) is not transitive:
`1 ≤ "a"`, `"a" ≤ 0`, but not `1 ≤ 0` — so it is no total preorder on `[1, "a", 0]`, the
precondition of `sort_by` fails, and `std` panics on longer arrays of this shape (replayed on the
implementation by the `d8-*` cases of the harness). -/
theorem C14_sort_old_counterexample :
    ¬ TotalPreorderOn [V.sc (.int 1), V.sc (.str ['a']), V.sc (.int 0)] sortLeOld := by
  intro h
  have := h.trans (V.sc (.int 1)) (by simp) (V.sc (.str ['a'])) (by simp) (V.sc (.int 0)) (by simp)
    (by rfl) (by rfl)
  exact absurd this (by decide)

/-- the repaired comparator on the same witness -/
theorem C14_sort_repaired_witness :
    sortByKey id [V.sc (.int 1), V.sc (.str ['a']), V.sc (.int 0)]
      = [V.sc (.int 0), V.sc (.int 1), V.sc (.str ['a'])] := by
  simp [sortByKey, mergeSort, MergeSort.Internal.splitInTwo, sortLe, sortCmp, nilSafeCompare, V.isNil,
    kindRank, valueCmp, scalarCmp, Int.compare_eq_gt]

/-! ### uniq -/

/-- **First occurrences.**  Reading the array left to right, the next element is dropped iff it is
equal (`value_eq`, kept element on the left) to an element kept so far, otherwise it is appended. -/
theorem C14_uniq_snoc (pre : List V) (x : V) :
    uniq (pre ++ [x]) = if (uniq pre).any (fun k => valueEq k x) then uniq pre else uniq pre ++ [x] := by
  unfold uniq
  rw [uniqFrom_append]
  simp only [nil_append, uniqFrom]
  split <;> simp

/-- `uniq` returns a subsequence of its input, pairwise non-equal; and every input element is
either kept or equal to a kept one. -/
theorem C14_uniq (xs : List V) :
    uniq xs <+ xs ∧
    (uniq xs).Pairwise (fun a b => valueEq a b = false) ∧
    ∀ x, x ∈ xs → x ∈ uniq xs ∨ ∃ k, k ∈ uniq xs ∧ valueEq k x = true := by
  unfold uniq
  refine ⟨uniqFrom_sublist [] xs, (uniqFrom_distinct [] xs).1, fun x hx => ?_⟩
  rcases uniqFrom_covers [] xs x hx with ⟨k, hk, hkx⟩ | h
  · exact Or.inr ⟨k, by simpa using hk, hkx⟩
  · exact Or.inl h

/-- every dropped element equals an EARLIER kept one: in `pre ++ x :: post`, if `x` is not emitted at
this position then a kept element of `pre` equals it; and what is kept of `pre` does not depend on
what follows. -/
theorem C14_uniq_dropped (pre post : List V) (x : V) :
    uniq (pre ++ x :: post) =
      uniq pre ++ (if (uniq pre).any (fun k => valueEq k x) then [] else [x]) ++
        uniqFrom (uniq (pre ++ [x])) post := by
  have : pre ++ x :: post = (pre ++ [x]) ++ post := by simp
  rw [this]
  unfold uniq
  rw [uniqFrom_append [] (pre ++ [x]) post, uniqFrom_append [] pre [x]]
  simp only [nil_append, uniqFrom]

theorem C14_uniq_filter (xs : List V) (args : List V) :
    uniqFilter (.arr xs) args = (if args.isEmpty then .ok (.arr (uniq xs)) else .err) := by
  cases args <;> rfl

/-! ### compact, concat -/

/-- **compact removes exactly the nils**: the result is the input with the nil elements deleted,
order and multiplicity of everything else untouched. -/
theorem C14_compact (xs : List V) :
    ∃ ys, compactFilter (.arr xs) [] = .ok (.arr ys) ∧
      ys = xs.filter (fun v => !v.isNil) ∧ ys <+ xs ∧ (∀ v, v ∈ ys → v.isNil = false) ∧
      (∀ v, v ∈ xs → v.isNil = false → v ∈ ys) ∧
      ys.length + xs.countP (fun v => v.isNil) = xs.length := by
  refine ⟨_, rfl, rfl, filter_sublist, ?_, ?_, ?_⟩
  · intro v hv; simpa using (mem_filter.mp hv).2
  · intro v hv hn; exact mem_filter.mpr ⟨hv, by simp [hn]⟩
  · have h1 := length_eq_countP_add_countP (fun v : V => v.isNil) (l := xs)
    have h2 : countP (fun a : V => decide ¬a.isNil = true) xs = countP (fun v : V => !v.isNil) xs := by
      congr 1; funext v; cases v.isNil <;> rfl
    rw [← countP_eq_length_filter]
    omega

/-- with a property: all elements must be objects, and exactly those whose property is missing or
nil are removed -/
theorem C14_compact_property (xs : List V) (p : V) (h : xs.all isObj = true) :
    compactFilter (.arr xs) [p] =
      .ok (.arr (xs.filter fun v => match propGet? p.render v with | some w => !w.isNil | none => false)) := by
  simp only [compactFilter, h, Bool.not_true, Bool.false_eq_true, if_false]
  congr 3
  funext v
  cases propGet? p.render v <;> simp

/-- **concat**: the input followed by the argument; lengths add up. -/
theorem C14_concat_len (xs ys : List V) :
    ∃ zs, concatFilter (.arr xs) [.arr ys] = .ok (.arr zs) ∧ zs = xs ++ ys ∧
      zs.length = xs.length + ys.length :=
  ⟨_, rfl, rfl, length_append⟩

/-! ### map, where -/

/-- **map** returns, in order, exactly the property values of the objects that have the property. -/
theorem C14_map (xs : List V) (p : V) :
    mapFilter (.arr xs) [p] = .ok (.arr (xs.filterMap fun v =>
      match v with
      | .obj kvs => objGet kvs p.render
      | _ => none)) := by
  simp only [mapFilter]
  congr 3

/-- **where** on an array of objects returns, in order, exactly the objects that have the property
with a truthy value (no target) / a value equal to the target. -/
theorem C14_where (xs : List V) (p : V) (target : Option V) (h : xs.all isObj = true) :
    whereFilter (.arr xs) (p :: target.toList) =
      .ok (.arr (xs.filter fun v =>
        match v with
        | .obj kvs =>
          (match objGet kvs p.render with
           | none => false
           | some w =>
             match target with
             | none => w.queryState .truthy
             | some t => valueEq t w)
        | _ => false)) := by
  have hgo : ∀ r : List V, r.all isObj = true →
      ((r.filterMap asObj?).filter (whereKeep p.render target) |>.map V.obj) =
      r.filter fun v =>
        match v with
        | .obj kvs => whereKeep p.render target kvs
        | _ => false := by
    intro r hr
    induction r with
    | nil => rfl
    | cons v r ih =>
      have hv : isObj v = true := by simp only [all_cons, Bool.and_eq_true] at hr; exact hr.1
      have hr' : r.all isObj = true := by simp only [all_cons, Bool.and_eq_true] at hr; exact hr.2
      cases v with
      | obj kvs =>
        simp only [filterMap_cons, asObj?, filter_cons]
        by_cases hk : whereKeep p.render target kvs = true
        · simp [hk, ih hr']
        · simp [hk, ih hr']
      | _ => simp [isObj] at hv
  have hrest : (target.toList).head? = target := by cases target <;> rfl
  have hshape : whereFilter (.arr xs) (p :: target.toList) =
      .ok (.arr (((asSequence (.arr xs)).filterMap asObj?).filter (whereKeep p.render target) |>.map V.obj)) := by
    cases target with
    | none => simp [whereFilter, h]
    | some t => simp [whereFilter, h]
  rw [hshape]
  simp only [asSequence]
  rw [hgo xs h]
  rfl

/-- an array containing a non-object is answered with nil, not with an error or a panic -/
theorem C14_where_non_objects (xs : List V) (p : V) (rest : List V) (hr : rest.length ≤ 1)
    (h : xs.all isObj = false) : whereFilter (.arr xs) (p :: rest) = .ok .nil := by
  match rest, hr with
  | [], _ => simp [whereFilter, h]
  | [_], _ => simp [whereFilter, h]

/-! ### first, last, size, slice, join agree with indexing -/

theorem C14_first_last_index (xs : List V) :
    firstFilter (.arr xs) [] = .ok ((xs[0]?).getD .nil) ∧
    lastFilter (.arr xs) [] = .ok ((xs[xs.length - 1]?).getD .nil) ∧
    sizeFilter (.arr xs) [] = .ok (.sc (.int xs.length)) := by
  refine ⟨?_, ?_, rfl⟩
  · simp [firstFilter, head?_eq_getElem?]
  · simp [lastFilter, getLast?_eq_getElem?]

/-- **slice** with an in-range start: `len` elements from the start (or what is left), element `k`
of the result is element `start + k` of the input; a negative offset counts from the end. -/
theorem C14_slice_index (xs : List V) (off len : Int) (hlen : 1 ≤ len)
    (hoff : -(xs.length : Int) ≤ off) (hno : inI64 (off + xs.length + len) = true)
    (hno' : inI64 (off + len) = true) :
    let start : Nat := if 0 ≤ off then min off.toNat xs.length else (xs.length + off).toNat
    ∃ ys, sliceFilter (.arr xs) [.sc (.int off), .sc (.int len)] = .ok (.arr ys) ∧
      ys = (xs.drop start).take len.toNat ∧
      ys.length = min len.toNat (xs.length - start) ∧
      ∀ k, k < ys.length → ys[k]? = xs[start + k]? := by
  intro start
  have hidx : ∀ (s l : Nat), ∀ k, k < ((xs.drop s).take l).length → ((xs.drop s).take l)[k]? = xs[s + k]? := by
    intro s l k hk
    rw [getElem?_take_of_lt (by simpa using (by simpa using hk : k < min l (xs.length - s)) |> fun h => (Nat.lt_min.mp h).1)]
    rw [getElem?_drop]
  have key : sliceFilter (.arr xs) [.sc (.int off), .sc (.int len)] = .ok (.arr ((xs.drop start).take len.toNat)) := by
    have hl : ¬ len < 1 := by omega
    simp only [sliceFilter, intArg, Sc.toInteger?, hl, if_false]
    simp only [canonSlice]
    by_cases h0 : 0 ≤ off
    · by_cases h1 : off ≤ (xs.length : Int)
      · have hn : ¬ off < 0 := by omega
        simp only [h1, if_true, hn, if_false, hno', Bool.not_true, Bool.false_eq_true]
        have hs : start = off.toNat := by simp only [start, h0, if_true]; omega
        by_cases h2 : off + len > (xs.length : Int)
        · simp only [h2, if_true, bind, Res.bind, pure]
          have e1 : toUsize off = start := by simp [toUsize, hn, hs]
          have e2 : toUsize ((xs.length : Int) - off) = xs.length - start := by
            have : ¬ ((xs.length : Int) - off < 0) := by omega
            simp only [toUsize, this, if_false, hs]; omega
          rw [e1, e2]
          congr 2
          rw [take_of_length_le (by simp), take_of_length_le (by simp; omega)]
        · simp only [h2, if_false, bind, Res.bind, pure]
          have e1 : toUsize off = start := by simp [toUsize, hn, hs]
          have e2 : toUsize len = len.toNat := by
            have : ¬ len < 0 := by omega
            simp [toUsize, this]
          rw [e1, e2]
      · have hn : ¬ ((xs.length : Int) < 0) := by omega
        have hs : start = xs.length := by simp only [start, h0, if_true]; omega
        have hno2 : inI64 ((xs.length : Int) + len) = true := by
          rw [inI64_iff] at hno hno' ⊢
          omega
        simp only [h1, if_false, hn, hno2, Bool.not_true, Bool.false_eq_true]
        have h2 : (xs.length : Int) + len > xs.length := by omega
        simp only [h2, if_true, bind, Res.bind, pure, Int.sub_self]
        have e1 : toUsize (xs.length : Int) = start := by simp [toUsize, hn, hs]
        rw [e1]
        congr 2
        rw [hs]; simp [toUsize]
    · have hneg : off < 0 := by omega
      have h1 : off ≤ (xs.length : Int) := by omega
      have hs : start = ((xs.length : Int) + off).toNat := by simp only [start, h0, if_false]
      have hno2 : inI64 (off + (xs.length : Int) + len) = true := hno
      simp only [h1, if_true, hneg, hno2, Bool.not_true, Bool.false_eq_true, if_false]
      have e1 : toUsize (off + (xs.length : Int)) = start := by
        have : ¬ (off + (xs.length : Int) < 0) := by omega
        simp only [toUsize, this, if_false, hs]; omega
      by_cases h2 : off + (xs.length : Int) + len > (xs.length : Int)
      · simp only [h2, if_true, bind, Res.bind, pure]
        have e2 : toUsize ((xs.length : Int) - (off + xs.length)) = xs.length - start := by
          have : ¬ ((xs.length : Int) - (off + xs.length) < 0) := by omega
          simp only [toUsize, this, if_false, hs]; omega
        rw [e1, e2]
        congr 2
        rw [take_of_length_le (by simp), take_of_length_le (by simp; omega)]
      · simp only [h2, if_false, bind, Res.bind, pure]
        have e2 : toUsize len = len.toNat := by
          have : ¬ len < 0 := by omega
          simp [toUsize, this]
        rw [e1, e2]
  refine ⟨_, key, rfl, by simp [length_take, length_drop], hidx start len.toNat⟩

/-- an offset further than the length before the start gives the empty array (the `usize` image of a
negative number skips everything) -/
theorem C14_slice_far_negative (xs : List V) (off len : Int) (hlen : 1 ≤ len)
    (hoff : off < -(xs.length : Int)) (hlo : i64Min ≤ off) (hhi : len ≤ i64Max) :
    sliceFilter (.arr xs) [.sc (.int off), .sc (.int len)] = .ok (.arr []) := by
  simp only [i64Min] at hlo
  simp only [i64Max] at hhi
  have hl : ¬ len < 1 := by omega
  have h1 : off ≤ (xs.length : Int) := by omega
  have hneg : off < 0 := by omega
  have hno : inI64 (off + (xs.length : Int) + len) = true := by
    rw [inI64_iff]; omega
  have hbig : xs.length ≤ toUsize (off + (xs.length : Int)) := by
    have hlt : off + (xs.length : Int) < 0 := by omega
    simp only [toUsize, hlt, if_true]
    omega
  simp only [sliceFilter, intArg, Sc.toInteger?, hl, if_false, canonSlice, h1, if_true, hneg, hno,
    Bool.not_true, Bool.false_eq_true, bind, Res.bind, pure]
  rw [drop_eq_nil_of_le hbig]; simp

/-- **join** is the renderings of the elements with the separator between them. -/
theorem C14_join (xs : List V) (sep : V) :
    joinFilter (.arr xs) [sep] = .ok (.sc (.str (List.intercalate sep.render (xs.map V.render)))) ∧
    joinFilter (.arr xs) [] = .ok (.sc (.str (List.intercalate [' '] (xs.map V.render)))) := by
  have h : ∀ (s : Str) (l : List Str), joinStr s l = List.intercalate s l := by
    intro s l
    induction l with
    | nil => rfl
    | cons a r ih =>
      cases r with
      | nil => simp [joinStr, List.intercalate]
      | cons b r' =>
        simp only [joinStr] at ih ⊢
        rw [ih]
        simp [List.intercalate, List.intersperse]
  exact ⟨by simp [joinFilter, h], by simp [joinFilter, h]⟩

/-- none of the array filters has a panic outcome on an array input, whatever the arguments —
except `slice` whose `isize` addition overflows for extreme lengths (D9, property C13). -/
theorem C14_no_panic (lower : Str → Str) (name : Str) (f : V → List V → Res V)
    (hf : filters lower name = some f) (hn : name ≠ "slice".toList) (input : V) (args : List V) :
    (f input args).isPanic = false := by
  unfold filters at hf
  split at hf <;> simp at hf <;> subst hf
  · rcases C14_sort_filter_perm input args with h | ⟨_, h, _⟩ <;> simp [h, Res.isPanic]
  · rcases C14_sort_natural_filter_perm lower input args with h | ⟨_, h, _⟩ <;> simp [h, Res.isPanic]
  · unfold uniqFilter; split <;> rfl
  · unfold reverseFilter; split <;> rfl
  · unfold mapFilter; split <;> rfl
  · unfold compactFilter; split <;> (try split) <;> rfl
  · unfold concatFilter; split <;> rfl
  · unfold whereFilter; split <;> (try split) <;> (try split) <;> (try split) <;> rfl
  · unfold firstFilter; split <;> rfl
  · unfold lastFilter; split <;> rfl
  · unfold sizeFilter; split <;> (try split) <;> rfl
  · unfold joinFilter; split <;> (try split) <;> rfl
  · rename_i heq
    have h := congrArg String.toList heq
    exact absurd (by simpa using h) hn

/-! ### non-vacuity -/

example : TotalPreorderOn [V.sc (.int 2), .nil, V.sc (.str ['b']), V.sc (.int 1), V.sc (.bool true)]
    (fun a b => sortLe (id a) (id b)) :=
  C14_preorder_ints_strings_mixed id _ (by decide)
example : sortByKey id [V.sc (.int 2), .nil, V.sc (.str ['b']), V.sc (.int 1), V.sc (.bool true)]
    = [V.sc (.int 1), V.sc (.int 2), V.sc (.bool true), V.sc (.str ['b']), .nil] := by
  simp [sortByKey, mergeSort, MergeSort.Internal.splitInTwo, sortLe, sortCmp, nilSafeCompare, V.isNil,
    kindRank, valueCmp, scalarCmp, Int.compare_eq_gt]
example : uniq [V.sc (.int 1), V.sc (.int 2), V.sc (.int 1), .nil, .nil] = [V.sc (.int 1), V.sc (.int 2), .nil] := by
  simp [uniq, uniqFrom, valueEq, valueEqFlat, V.isNil, scalarEq, Sc.toBool?]
example : sliceFilter (.arr [V.sc (.int 1), V.sc (.int 2), V.sc (.int 3)]) [.sc (.int (-2)), .sc (.int 5)]
    = .ok (.arr [V.sc (.int 2), V.sc (.int 3)]) := by
  simp [sliceFilter, intArg, Sc.toInteger?, canonSlice, inI64, i64Min, i64Max, toUsize, bind, Res.bind, pure]

end Liquid.C14
