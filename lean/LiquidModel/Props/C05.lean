/-
  C05 — loops visit exactly the selected elements, with truthful loop metadata.
  Property theorems only (plus non-vacuity examples).  Model: `Model/Render.lean`
  (`iterArray`, `rangeInts`, `getArray`, `forloopObj`, `tablerowObj`, `loopItems`, `renderList`).
-/
import LiquidModel.Lemmas.Shape
import LiquidModel.Lemmas.ForNode
namespace Liquid.C05
open Liquid

/-- The specification of offset/limit/reversed: drop, take, optionally reverse. -/
def selectSpec (xs : List V) (limit : Option Nat) (offset : Nat) (reversed : Bool) : List V :=
  let s := (xs.drop offset).take (limit.getD xs.length)
  if reversed then s.reverse else s

/-- **Window.** `iter_array` selects exactly `drop offset |> take limit` (reversed on demand):
nothing invented, nothing lost, for every array, offset, limit (also those far beyond the length,
e.g. the `usize` image of a negative number). -/
theorem C05_window (xs : List V) (limit : Option Nat) (offset : Nat) (rev : Bool) :
    iterArray xs limit offset rev = selectSpec xs limit offset rev := by
  have hlen : (List.drop (min offset xs.length) xs).length = xs.length - min offset xs.length := by
    simp
  have hdrop : List.drop (min offset xs.length) xs = List.drop offset xs := by
    by_cases h : offset ≤ xs.length
    · simp [Nat.min_eq_left h]
    · have h' : xs.length ≤ offset := by omega
      simp [Nat.min_eq_right h', List.drop_of_length_le h']
  have key : iterWindow xs limit offset = (xs.drop offset).take (limit.getD xs.length) := by
    unfold iterWindow
    cases limit with
    | none =>
      simp only [Option.getD_none]
      rw [if_pos (by rw [hlen]; exact Nat.le_refl _), hdrop]
      rw [List.take_of_length_le (by simp; omega), List.take_of_length_le (by simp)]
    | some l =>
      simp only [Option.getD_some]
      rw [if_pos (by rw [hlen]; exact Nat.min_le_right _ _), hdrop]
      by_cases h : l ≤ xs.length - min offset xs.length
      · rw [Nat.min_eq_left h]
      · have h' : xs.length - min offset xs.length ≤ l := by omega
        rw [Nat.min_eq_right h']
        rw [List.take_of_length_le (by simp; omega), List.take_of_length_le (by simp; omega)]
  unfold iterArray selectSpec
  simp only [key]

/-- Corollary: the selection never contains a padded element: its length is
`min limit (len - offset)`. -/
theorem C05_window_length (xs : List V) (limit : Option Nat) (offset : Nat) (rev : Bool) :
    (iterArray xs limit offset rev).length = min (limit.getD xs.length) (xs.length - offset) := by
  rw [C05_window]; unfold selectSpec; split <;> simp

/-- The code at the pinned commit violated the window law (D11): five elements, `limit:4
offset:3` yields the two remaining elements *and two phantom nils*.  Replayed on the
implementation by corpus case `C05/d11`. -/
theorem C05_window_old_counterexample :
    iterArrayOld [iV 1, iV 2, iV 3, iV 4, iV 5] (some 4) 3 false = [iV 4, iV 5, .nil, .nil] := by
  rfl

/-- **Ranges.** `(a..b)` denotes exactly the integers `a, a+1, …, b` (empty when `b < a`). -/
theorem C05_range_length (a b : Int) : (rangeInts a b).length = (b - a + 1).toNat := by
  unfold rangeInts; split
  · simp
  · simp; omega

theorem C05_range_get (a b : Int) (k : Nat) (h : k < (rangeInts a b).length) :
    (rangeInts a b)[k] = iV (a + k) := by
  unfold rangeInts at h ⊢
  split
  · simp [iV]
  · rename_i hab; simp [hab] at h

theorem C05_range_empty (a b : Int) (h : b < a) : rangeInts a b = [] := by
  unfold rangeInts; simp; omega

/-- **Collections.** What a loop iterates: an array's elements, an object's `[key, value]` pairs,
nothing for nil / `empty` / `blank`, and an error for any other scalar. -/
theorem C05_collection (v : V) :
    getArray v = match v with
      | .arr xs => .ok xs
      | .obj kvs => .ok (kvs.map fun (k, w) => V.arr [.sc (.str k), w])
      | .st _ => .ok []
      | .nil => .ok []
      | .sc _ => .err := by
  cases v <;> rfl

/-! ### forloop / tablerow fields -/

def fld (o : V) (k : String) : Option V :=
  match o with
  | .obj kvs => objGet kvs k.toList
  | _ => none

/-- **forloop is truthful.** In iteration `i` of `n` (0-based), every field says what it should. -/
theorem C05_forloop_truthful (i n : Nat) (p : V) :
    let o := forloopObj i n p
    fld o "length" = some (iV n) ∧
    fld o "index0" = some (iV i) ∧
    fld o "index" = some (iV (i + 1)) ∧
    fld o "rindex0" = some (iV ((n : Int) - i - 1)) ∧
    fld o "rindex" = some (iV ((n : Int) - i)) ∧
    fld o "first" = some (bV (i == 0)) ∧
    fld o "last" = some (bV ((i : Int) == (n : Int) - 1)) ∧
    fld o "parentloop" = some p := by
  simp [forloopObj, fld, objGet, List.find?, iV, bV]
  cases i <;> simp; omega

/-- `last` is true exactly in the final iteration, `first` exactly in the first. -/
theorem C05_forloop_first_last (i n : Nat) (p : V) :
    (fld (forloopObj i n p) "first" = some (bV true) ↔ i = 0) ∧
    (fld (forloopObj i n p) "last" = some (bV true) ↔ i + 1 = n) := by
  have := C05_forloop_truthful i n p
  simp only at this
  obtain ⟨_, _, _, _, _, hf, hl, _⟩ := this
  rw [hf, hl]
  simp [bV]
  omega

/-- **tablerow is truthful.** With `c` columns, element `i` of `n` sits in column `i % c`
(1-based `col`), and `col_last` holds at the last column of a row or at the very last element. -/
theorem C05_tablerow_truthful (i n c : Nat) :
    let o := tablerowObj i n (i % c) c
    fld o "length" = some (iV n) ∧
    fld o "index0" = some (iV i) ∧
    fld o "index" = some (iV (i + 1)) ∧
    fld o "rindex0" = some (iV ((n : Int) - i - 1)) ∧
    fld o "rindex" = some (iV ((n : Int) - i)) ∧
    fld o "first" = some (bV (i == 0)) ∧
    fld o "last" = some (bV ((i : Int) == (n : Int) - 1)) ∧
    fld o "col0" = some (iV ((i % c : Nat) : Int)) ∧
    fld o "col" = some (iV ((i % c : Nat) + 1)) ∧
    fld o "col_first" = some (bV ((i % c) == 0)) ∧
    fld o "col_last" = some (bV ((((i % c : Nat) : Int) + 1 == (c : Int)) || ((i : Int) == (n : Int) - 1))) := by
  simp [tablerowObj, fld, objGet, List.find?, iV, bV]
  constructor
  · cases i <;> simp; omega
  · have h1 : ((i : Int) % (c : Int) = 0) ↔ (i % c = 0) := by omega
    rw [Bool.eq_iff_iff]; simp only [beq_iff_eq]; exact h1

/-! ### visiting order, continue, break -/

/-- **Empty selection.** The loop driver on nothing renders nothing and changes nothing. -/
theorem C05_loop_nil (step : V → Nat → M (Option Intr)) (i : Nat) (rt : Rt) (w : W) :
    loopItems step [] i rt w = (.ok (), rt, w) := rfl

/-- **One iteration, no break.** If the body for the element at position `i` succeeds and the
interrupt it consumed was not `break` (i.e. none, or a `continue`), the loop goes on with the
*next* element at position `i + 1`: `continue` skips only the rest of the current iteration. -/
theorem C05_loop_step (step : V → Nat → M (Option Intr)) (i : Nat) (v : V) (r : List V)
    (rt rt' : Rt) (w w' : W) (intr : Option Intr)
    (hstep : step v i rt w = (.ok intr, rt', w')) (hnb : intr ≠ some .brk) :
    loopItems step (v :: r) i rt w = loopItems step r (i + 1) rt' w' := by
  rw [loopItems, M.run_bind_ok _ _ _ _ _ _ _ hstep]
  simp [hnb]

/-- **break.** If the body requested `break`, the loop stops right there with success and the
remaining elements are not visited. -/
theorem C05_loop_break (step : V → Nat → M (Option Intr)) (i : Nat) (v : V) (r : List V)
    (rt rt' : Rt) (w w' : W)
    (hstep : step v i rt w = (.ok (some .brk), rt', w')) :
    loopItems step (v :: r) i rt w = (.ok (), rt', w') := by
  rw [loopItems, M.run_bind_ok _ _ _ _ _ _ _ hstep]
  simp

/-- **Errors stop the loop.** -/
theorem C05_loop_err (step : V → Nat → M (Option Intr)) (i : Nat) (v : V) (r : List V)
    (rt rt' : Rt) (w w' : W) (o : Res (Option Intr))
    (hstep : step v i rt w = (o, rt', w')) (ho : o.isOk = false) :
    (loopItems step (v :: r) i rt w).1.isOk = false := by
  rw [loopItems, M.run_bind_notok _ _ _ _ _ _ _ hstep ho]
  cases o <;> simp_all [Res.isOk, M.castErr]

/-- **Frames are balanced.** Rendering a loop body (any template) leaves exactly the frames it was
given: the loop variable's frame is the one dropped afterwards, so the variable stops existing
when its loop ends and nothing else is lost. -/
theorem C05_body_keeps_frames (env : Env) (fuel : Nat) (body : Tmpl) (rt : Rt) (w : W) :
    ((renderT fuel env body rt w).2.1).layers.shape = rt.layers.shape :=
  renderT_keeps_frames env fuel body rt w

/-- **The interrupt is consumed by the loop that sees it**: whatever the body of a `for`
iteration did, after a successful iteration the interrupt register is clear again and the frames
are those from before the iteration — so `break` ends, and `continue` skips in, only the
innermost `for`; the enclosing loop carries on. -/
theorem C05_break_innermost (env : Env) (fuel : Nat) (x : Str) (len : Nat) (parent : V) (body : Tmpl)
    (v : V) (i : Nat) (rt rt' : Rt) (w w' : W) (intr : Option Intr)
    (h : forStep x len parent (renderT fuel env body) v i rt w = (.ok intr, rt', w')) :
    rt'.regs.interrupt = none ∧ rt'.layers.shape = rt.layers.shape := by
  unfold forStep M.inFrames at h
  simp only [M.run_bind] at h
  generalize hroot : objInsert (objInsert [] "forloop".toList (forloopObj i len parent)) x v = root at h
  have hsh := renderT_keeps_frames env fuel body { rt with layers := [Layer.plain root] ++ rt.layers } w
  rcases hb : renderT fuel env body { rt with layers := [Layer.plain root] ++ rt.layers } w with ⟨r1, rt1, w1⟩
  rw [hb] at h hsh
  cases r1 with
  | ok u =>
    simp only [takeInterruptM, M.bind'_getRegs, M.bind'_setRegs, M.run_pure, Prod.mk.injEq] at h
    obtain ⟨_, hrt, _⟩ := h
    subst hrt
    have h2 := Rt.setRegs_shape rt1 { rt1.regs with interrupt := none }
    have h3 := Rt.regs_setRegs rt1 { rt1.regs with interrupt := none }
    simp only at hsh
    rw [← h2] at hsh
    -- the stack after the body is `l :: rest` with `l` plain
    generalize hrt2 : rt1.setRegs { rt1.regs with interrupt := none } = rt2 at h2 h3 hsh ⊢
    rcases hl : rt2.layers with _ | ⟨l, rest⟩
    · simp [hl, Stack.shape] at hsh
    · simp only [hl, Stack.shape, List.map_cons, List.singleton_append, List.cons.injEq] at hsh
      obtain ⟨hk, hrest⟩ := hsh
      refine ⟨?_, ?_⟩
      · have : Stack.regs (l :: rest) rt2.core = Stack.regs rest rt2.core :=
          Stack.regs_cons_nonsandbox l rest rt2.core (by rw [hk]; simp [Layer.kind])
        simp only [Rt.regs, hl] at h3
        simp only [Rt.regs, List.length_singleton, List.drop_one, List.tail_cons, ← this, h3]
      · simpa [Stack.shape, hl] using hrest
  | err => simp at h
  | io => simp at h
  | panic s => simp at h
  | fuel => simp at h

/-- **Visits, in order, once each.** For a body that just writes `f v i` (no interrupts, no state),
the loop's output is the outputs for the selected elements in order with positions `i, i+1, …`. -/
theorem C05_visits_in_order (f : V → Nat → Str) (hne : ∀ v i, f v i ≠ [])
    (items : List V) (i : Nat) (rt : Rt) (out : List Str) :
    loopItems (fun v i => do M.emit (f v i); pure none) items i rt { out := out, budget := none } =
      (.ok (), rt, { out := out ++ (items.zipIdx i).map (fun (v, j) => f v j), budget := none }) := by
  induction items generalizing i out with
  | nil => simp [loopItems]
  | cons v r ih =>
    have hw : (do M.emit (f v i); pure none : M (Option Intr)) rt { out := out, budget := none }
        = (.ok none, rt, { out := out ++ [f v i], budget := none }) := by
      simp [M.run_bind, M.emit, W.write, hne]
    rw [C05_loop_step _ i v r rt rt _ _ none hw (by simp)]
    have := ih (i + 1) (out ++ [f v i])
    simp [this, List.zipIdx_cons]

/-- a block body: after an element leaves an interrupt pending, the remaining elements of this
body are skipped — that is all `continue`/`break` do inside the body. -/
theorem C05_body_skips_rest (f : Node → M Unit) (n : Node) (r : Tmpl) (rt rt' : Rt) (w w' : W)
    (h : f n rt w = (.ok (), rt', w')) (hi : rt'.regs.interrupt.isSome = true) :
    renderList f (n :: r) rt w = (.ok (), rt', w') := by
  rw [renderList, M.run_bind_ok _ _ _ _ _ _ _ h]
  simp [hi]

theorem C05_body_goes_on (f : Node → M Unit) (n : Node) (r : Tmpl) (rt rt' : Rt) (w w' : W)
    (h : f n rt w = (.ok (), rt', w')) (hi : rt'.regs.interrupt = none) :
    renderList f (n :: r) rt w = renderList f r rt' w' := by
  rw [renderList, M.run_bind_ok _ _ _ _ _ _ _ h]
  simp [hi]

/-! ### non-vacuity -/

example : selectSpec [iV 1, iV 2, iV 3, iV 4, iV 5] (some 4) 3 false = [iV 4, iV 5] := by rfl
example : iterArray [iV 1, iV 2, iV 3, iV 4, iV 5] (some 2) 1 true = [iV 3, iV 2] := by rfl
example : (Rt.build []).regs.interrupt = none := rfl

/-! ### end to end -/

/-- **The whole tag.** For every collection expression, `limit:`/`offset:` attributes, direction,
runtime and sink: `{% for x in R limit:l offset:o [reversed] %}{{ x }}{% endfor %}` succeeds and
appends exactly the renderings of `drop o |> take l` of the collection (reversed on demand), in
order, once each — through attribute evaluation, `iter_array`, the loop driver, the per-iteration
frame, the lookup of `x` in it, the output tag and the interrupt register; nothing is written when
the selection is empty. -/
theorem C05_for_prints_window (fuel : Nat) (env : Env) (x : Str) (rng : RangeE) (limit offset : Option Expr)
    (rev : Bool) (rt : Rt) (w : W) (arr : List V) (lim off : Option Nat)
    (hr : rng.eval rt.layers = .ok arr) (hl : evalAttr rt.layers limit = .ok lim)
    (ho : evalAttr rt.layers offset = .ok off)
    (hi : rt.regs.interrupt = none) (hb : w.budget = none) :
    ∃ rt' w', renderN (fuel + 2) env (.for_ x rng limit offset rev [.output (.var x []) []] none) rt w
        = (.ok (), rt', w') ∧
      w'.text = w.text ++ ((selectSpec arr lim (off.getD 0) rev).map V.render).flatten := by
  rw [← C05_window]
  generalize hitems : iterArray arr lim (off.getD 0) rev = items
  cases items with
  | nil =>
    refine ⟨rt, w, ?_, by simp⟩
    simp [renderN, M.run_bind, hr, hl, ho, hitems]
  | cons v r =>
    obtain ⟨rt', w', h, _, _, ht⟩ := ForNode.loop_print fuel env x (v :: r).length
      ((rt.layers.tryGet [.str "forloop".toList]).getD .nil) (v :: r) 0 rt w hi hb
    refine ⟨rt', w', ?_, ht⟩
    simp only [renderN, M.run_bind, M.run_getSt, M.run_lift, hr, hl, ho, hitems]
    exact h

/-- **The whole tag, for any pure-printing body.** If the body, run in the frame of iteration `i` of
`len` over element `v` (pushed over any runtime), just prints `f len v i` and leaves the runtime as
it was, then the `for` tag prints `f len v i` for exactly the selected elements `v` in order, with
`i = 0, 1, …` and `len` the size of the selection — compositional form of `C05_for_prints_window`. -/
theorem C05_for_compositional (fuel : Nat) (env : Env) (x : Str) (rng : RangeE) (limit offset : Option Expr)
    (rev : Bool) (body : Tmpl) (f : Nat → V → Nat → Str) (rt : Rt) (w : W) (arr : List V) (lim off : Option Nat)
    (hr : rng.eval rt.layers = .ok arr) (hl : evalAttr rt.layers limit = .ok lim)
    (ho : evalAttr rt.layers offset = .ok off)
    (hi : rt.regs.interrupt = none) (hb : w.budget = none)
    (hbody : ∀ len parent v i, ForNode.WritesIn (renderList (renderN fuel env) body)
      (ForNode.iterRoot x len parent v i) (f len v i)) :
    ∃ rt' w', renderN (fuel + 1) env (.for_ x rng limit offset rev body none) rt w = (.ok (), rt', w') ∧
      w'.text = w.text ++ (((selectSpec arr lim (off.getD 0) rev).zipIdx 0).map fun (v, j) =>
        f (selectSpec arr lim (off.getD 0) rev).length v j).flatten := by
  rw [← C05_window]
  generalize hitems : iterArray arr lim (off.getD 0) rev = items
  cases items with
  | nil =>
    refine ⟨rt, w, ?_, by simp⟩
    simp [renderN, M.run_bind, hr, hl, ho, hitems]
  | cons v r =>
    obtain ⟨rt', w', h, _, _, ht⟩ := ForNode.loop_pure x (v :: r).length
      ((rt.layers.tryGet [.str "forloop".toList]).getD .nil) _ (f (v :: r).length)
      (fun v' j => hbody _ _ v' j) (v :: r) 0 rt w hi hb
    refine ⟨rt', w', ?_, ht⟩
    simp only [renderN, M.run_bind, M.run_getSt, M.run_lift, hr, hl, ho, hitems]
    exact h

/-- **forloop.index / forloop.length, end to end.** `{% for x in R … %}{{ forloop.index }}{% endfor %}`
prints `1 2 … n` and `{{ forloop.length }}` prints `n` each time, where `n` is the size of the
selection (after offset/limit), whatever the collection — the loop metadata seen by the template is
the truthful one of `C05_forloop_truthful`. -/
theorem C05_for_prints_index (fuel : Nat) (env : Env) (x : Str) (hx : x ≠ "forloop".toList) (rng : RangeE)
    (limit offset : Option Expr) (rev : Bool) (rt : Rt) (w : W) (arr : List V) (lim off : Option Nat)
    (hr : rng.eval rt.layers = .ok arr) (hl : evalAttr rt.layers limit = .ok lim)
    (ho : evalAttr rt.layers offset = .ok off)
    (hi : rt.regs.interrupt = none) (hb : w.budget = none) :
    (∃ rt' w', renderN (fuel + 2) env (.for_ x rng limit offset rev
        [.output (.var "forloop".toList [.lit (.sc (.str "index".toList))]) []] none) rt w = (.ok (), rt', w') ∧
      w'.text = w.text ++ (((selectSpec arr lim (off.getD 0) rev).zipIdx 0).map fun (_, j) => (iV (j + 1)).render).flatten) ∧
    (∃ rt' w', renderN (fuel + 2) env (.for_ x rng limit offset rev
        [.output (.var "forloop".toList [.lit (.sc (.str "length".toList))]) []] none) rt w = (.ok (), rt', w') ∧
      w'.text = w.text ++ (((selectSpec arr lim (off.getD 0) rev).zipIdx 0).map fun (_, _) =>
        (iV (selectSpec arr lim (off.getD 0) rev).length).render).flatten) := by
  constructor
  · refine C05_for_compositional (fuel + 1) env x rng limit offset rev _ (fun _ _ j => (iV (j + 1)).render)
      rt w arr lim off hr hl ho hi hb (fun len parent v i => ?_)
    refine ForNode.print_forloop_field_writes fuel env x len parent v i _ _ hx ?_
    have h := (C05_forloop_truthful i len parent).2.2.1
    exact ⟨_, rfl, by simpa [fld, forloopObj] using h⟩
  · refine C05_for_compositional (fuel + 1) env x rng limit offset rev _ (fun len _ _ => (iV len).render)
      rt w arr lim off hr hl ho hi hb (fun len parent v i => ?_)
    refine ForNode.print_forloop_field_writes fuel env x len parent v i _ _ hx ?_
    have h := (C05_forloop_truthful i len parent).1
    exact ⟨_, rfl, by simpa [fld, forloopObj] using h⟩

/-- **tablerow, end to end.** For every collection, `cols:`/`limit:`/`offset:` attributes (`cols` not
zero) and every pure-printing body: the tag writes, for exactly the selected elements in order, a
`<tr class="rowR">` before the first cell of each row of `cols` cells, each cell as
`<td class="colC">body</td>`, and `</tr>` after the last cell of a row and after the very last
cell (`cellText`); without `cols:` the whole selection is one row. -/
theorem C05_tablerow_compositional (fuel : Nat) (env : Env) (x : Str) (rng : RangeE) (cols limit offset : Option Expr)
    (body : Tmpl) (f : Nat → Nat → V → Nat → Str) (rt : Rt) (w : W) (arr : List V) (c lim off : Option Nat)
    (hr : rng.eval rt.layers = .ok arr) (hc : evalAttr rt.layers cols = .ok c) (hc0 : c ≠ some 0)
    (hl : evalAttr rt.layers limit = .ok lim) (ho : evalAttr rt.layers offset = .ok off)
    (hi : rt.regs.interrupt = none) (hb : w.budget = none)
    (hbody : ∀ len ncols v i, ForNode.WritesIn (renderList (renderN fuel env) body)
      (ForNode.cellRoot x len ncols v i) (f len ncols v i)) :
    let sel := selectSpec arr lim (off.getD 0) false
    ∃ w', renderN (fuel + 1) env (.tablerow x rng cols limit offset body) rt w = (.ok (), rt, w') ∧
      w'.text = w.text ++ ((sel.zipIdx 0).map fun (v, j) =>
        ForNode.cellText sel.length (c.getD sel.length) j (f sel.length (c.getD sel.length) v j)).flatten := by
  intro sel
  have hsel : iterArray arr lim (off.getD 0) false = sel := C05_window arr lim (off.getD 0) false
  have hc0' : (c == some 0) = false := by
    cases c with
    | none => rfl
    | some k => cases k with
      | zero => exact absurd rfl hc0
      | succ k => rfl
  cases hs : sel with
  | nil =>
    refine ⟨w, ?_, by simp⟩
    simp [renderN, M.run_bind, hr, hc, hc0, hl, ho, hsel, hs, tableItems]
  | cons v r =>
    have hn : c.getD (v :: r).length ≠ 0 := by
      cases c with
      | none => simp
      | some k => simpa using fun h => hc0 (by rw [h])
    obtain ⟨w', h, _, ht⟩ := ForNode.table_pure x (v :: r).length (c.getD (v :: r).length) hn _
      (f (v :: r).length (c.getD (v :: r).length)) (fun v' j => hbody _ _ v' j) (v :: r) 0 rt w hi hb
    refine ⟨w', ?_, ht⟩
    simp only [renderN, M.run_bind, M.run_getSt, M.run_lift, hr, hc, hc0', hl, ho, hsel, hs, Bool.false_eq_true, if_false]
    exact h

/-- the instance with the body `{{ x }}` -/
theorem C05_tablerow_prints_window (fuel : Nat) (env : Env) (x : Str) (rng : RangeE) (cols limit offset : Option Expr)
    (rt : Rt) (w : W) (arr : List V) (c lim off : Option Nat)
    (hr : rng.eval rt.layers = .ok arr) (hc : evalAttr rt.layers cols = .ok c) (hc0 : c ≠ some 0)
    (hl : evalAttr rt.layers limit = .ok lim) (ho : evalAttr rt.layers offset = .ok off)
    (hi : rt.regs.interrupt = none) (hb : w.budget = none) :
    let sel := selectSpec arr lim (off.getD 0) false
    ∃ w', renderN (fuel + 2) env (.tablerow x rng cols limit offset [.output (.var x []) []]) rt w = (.ok (), rt, w') ∧
      w'.text = w.text ++ ((sel.zipIdx 0).map fun (v, j) =>
        ForNode.cellText sel.length (c.getD sel.length) j v.render).flatten :=
  C05_tablerow_compositional (fuel + 1) env x rng cols limit offset _ (fun _ _ v _ => v.render) rt w arr c lim off
    hr hc hc0 hl ho hi hb (fun len ncols v i => ForNode.print_var_writes_root fuel env x _ v)

/-- what a cell looks like: first cell of a two-column table, and the closing of a row -/
example : ForNode.cellText 3 2 0 "a".toList = "<tr class=\"row1\"><td class=\"col1\">a</td>".toList ∧
    ForNode.cellText 3 2 1 "b".toList = "<td class=\"col2\">b</td></tr>".toList ∧
    ForNode.cellText 3 2 2 "c".toList = "<tr class=\"row2\"><td class=\"col1\">c</td></tr>".toList := by decide

/-- **else runs exactly when nothing is selected — and in the enclosing scope.** With an empty
selection the tag is exactly its `else` body rendered where the tag stands: no iteration frame, and
an interrupt the `else` body raises is NOT consumed (a `break` there belongs to the enclosing
loop); with a non-empty selection the `else` body is not rendered at all. -/
theorem C05_else_iff_empty (fuel : Nat) (env : Env) (x : Str) (rng : RangeE) (limit offset : Option Expr)
    (rev : Bool) (body : Tmpl) (els : Option Tmpl) (rt : Rt) (w : W) (arr : List V) (lim off : Option Nat)
    (hr : rng.eval rt.layers = .ok arr) (hl : evalAttr rt.layers limit = .ok lim)
    (ho : evalAttr rt.layers offset = .ok off) :
    (selectSpec arr lim (off.getD 0) rev = [] →
      renderN (fuel + 1) env (.for_ x rng limit offset rev body els) rt w =
        (match els with
         | some t => renderList (renderN fuel env) t rt w
         | none => (.ok (), rt, w))) ∧
    (selectSpec arr lim (off.getD 0) rev ≠ [] →
      renderN (fuel + 1) env (.for_ x rng limit offset rev body els) rt w =
        loopItems (forStep x (selectSpec arr lim (off.getD 0) rev).length
          ((rt.layers.tryGet [.str "forloop".toList]).getD .nil) (renderList (renderN fuel env) body))
          (selectSpec arr lim (off.getD 0) rev) 0 rt w) := by
  rw [← C05_window]
  constructor
  · intro he
    cases els <;> simp [renderN, M.run_bind, hr, hl, ho, he]
  · intro hne
    cases hs : iterArray arr lim (off.getD 0) rev with
    | nil => exact absurd hs hne
    | cons v r => simp [renderN, M.run_bind, hr, hl, ho, hs]

/-- non-vacuity: a literal three-element array with `offset:1` on a fresh runtime -/
example : ∃ rt' w', renderN 2 {} (.for_ "x".toList (.arr (.lit (.arr [iV 1, iV 2, iV 3]))) none (some (.lit (iV 1))) false
      [.output (.var "x".toList []) []] none) (Rt.build []) {} = (.ok (), rt', w') ∧ w'.text = "23".toList := by
  refine ⟨_, _, rfl, ?_⟩
  decide

/-- **`include` is transparent for interrupts** (and for every other register): what an `include`
leaves in the runtime is exactly what the partial's body left, minus the argument frame — in
particular a `break` / `continue` raised inside the partial is still pending for the enclosing loop
of the including template; `include` neither clears nor raises one. -/
theorem C05_include_transparent (fuel : Nat) (env : Env) (name : Expr) (args : List (Str × Expr))
    (rt : Rt) (w : W) (s : Sc) (pass : Obj) (t : Tmpl)
    (hn : name.eval rt.layers = .ok (.sc s)) (ha : evalVars rt.layers args [] = .ok pass)
    (hp : lookupPartial env s.render = .ok t) :
    renderN (fuel + 1) env (.include_ name args) rt w =
      (match renderT fuel env t { rt with layers := .plain pass :: rt.layers } w with
       | (r, rt', w') => (r, { rt' with layers := rt'.layers.drop 1 }, w')) := by
  simp [renderN, hn, ha, hp, M.inFrames, renderT]

/-- so the registers after an `include` — the pending interrupt among them — are the ones the
partial's body left behind -/
theorem C05_include_keeps_interrupt (fuel : Nat) (env : Env) (name : Expr) (args : List (Str × Expr))
    (rt : Rt) (w : W) (s : Sc) (pass : Obj) (t : Tmpl)
    (hn : name.eval rt.layers = .ok (.sc s)) (ha : evalVars rt.layers args [] = .ok pass)
    (hp : lookupPartial env s.render = .ok t) :
    (renderN (fuel + 1) env (.include_ name args) rt w).2.1.regs =
      (renderT fuel env t { rt with layers := .plain pass :: rt.layers } w).2.1.regs := by
  rw [C05_include_transparent fuel env name args rt w s pass t hn ha hp]
  have hshape := renderT_keeps_frames env fuel t { rt with layers := .plain pass :: rt.layers } w
  generalize renderT fuel env t { rt with layers := .plain pass :: rt.layers } w = x at hshape ⊢
  obtain ⟨r, rt', w'⟩ := x
  obtain ⟨ls, core⟩ := rt'
  cases ls with
  | nil => simp [Stack.shape] at hshape
  | cons l ls =>
    have hk : l.kind ≠ 1 := by
      simp only [Stack.shape, List.map_cons, List.cons.injEq] at hshape
      have h0 : l.kind = 0 := hshape.1
      rw [h0]; decide
    simp only [Rt.regs, List.drop_succ_cons, List.drop_zero]
    exact (Stack.regs_cons_nonsandbox l ls core hk).symm

end Liquid.C05
