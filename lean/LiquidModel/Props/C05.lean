/-
  C05 — loops visit exactly the selected elements, with truthful loop metadata.
  Property theorems only (plus non-vacuity examples).  Model: `Model/Render.lean`
  (`iterArray`, `rangeInts`, `getArray`, `forloopObj`, `tablerowObj`, `loopItems`, `renderList`).
-/
import LiquidModel.Model.Render
namespace Liquid.C05
open Liquid

/-- The specification of offset/limit/reversed: drop, take, optionally reverse. -/
def selectSpec (xs : List V) (limit : Option Nat) (offset : Nat) (reversed : Bool) : List V :=
  let s := (xs.drop offset).take (limit.getD xs.length)
  if reversed then s.reverse else s

/-- **Window.** `iter_array` selects exactly `drop offset |> take limit` (reversed on demand):
nothing invented, nothing lost, for every array, offset, limit (also those far beyond the length,
e.g. the `usize` image of a negative number). -/
theorem C05_window (xs : List V) (limit : Option Nat) (offset : Nat) (rev : Bool) :
    iterArray xs limit offset rev = selectSpec xs limit offset rev := by
  have hlen : (List.drop (min offset xs.length) xs).length = xs.length - min offset xs.length := by
    simp
  have hdrop : List.drop (min offset xs.length) xs = List.drop offset xs := by
    by_cases h : offset ≤ xs.length
    · simp [Nat.min_eq_left h]
    · have h' : xs.length ≤ offset := by omega
      simp [Nat.min_eq_right h', List.drop_of_length_le h']
  have key : iterWindow xs limit offset = (xs.drop offset).take (limit.getD xs.length) := by
    unfold iterWindow
    cases limit with
    | none =>
      simp only [Option.getD_none]
      rw [if_pos (by rw [hlen]; exact Nat.le_refl _), hdrop]
      rw [List.take_of_length_le (by simp; omega), List.take_of_length_le (by simp)]
    | some l =>
      simp only [Option.getD_some]
      rw [if_pos (by rw [hlen]; exact Nat.min_le_right _ _), hdrop]
      by_cases h : l ≤ xs.length - min offset xs.length
      · rw [Nat.min_eq_left h]
      · have h' : xs.length - min offset xs.length ≤ l := by omega
        rw [Nat.min_eq_right h']
        rw [List.take_of_length_le (by simp; omega), List.take_of_length_le (by simp; omega)]
  unfold iterArray selectSpec
  simp only [key]

/-- Corollary: the selection never contains a padded element: its length is
`min limit (len - offset)`. -/
theorem C05_window_length (xs : List V) (limit : Option Nat) (offset : Nat) (rev : Bool) :
    (iterArray xs limit offset rev).length = min (limit.getD xs.length) (xs.length - offset) := by
  rw [C05_window]; unfold selectSpec; split <;> simp

/-- The code at the pinned commit violated the window law (D11): five elements, `limit:4
offset:3` yields the two remaining elements *and two phantom nils*.  Replayed on the
implementation by corpus case `C05/d11`. -/
theorem C05_window_old_counterexample :
    iterArrayOld [iV 1, iV 2, iV 3, iV 4, iV 5] (some 4) 3 false = [iV 4, iV 5, .nil, .nil] := by
  rfl

/-- **Ranges.** `(a..b)` denotes exactly the integers `a, a+1, …, b` (empty when `b < a`). -/
theorem C05_range_length (a b : Int) : (rangeInts a b).length = (b - a + 1).toNat := by
  unfold rangeInts; split
  · simp
  · simp; omega

theorem C05_range_get (a b : Int) (k : Nat) (h : k < (rangeInts a b).length) :
    (rangeInts a b)[k] = iV (a + k) := by
  unfold rangeInts at h ⊢
  split
  · simp [iV]
  · rename_i hab; simp [hab] at h

theorem C05_range_empty (a b : Int) (h : b < a) : rangeInts a b = [] := by
  unfold rangeInts; simp; omega

/-- **Collections.** What a loop iterates: an array's elements, an object's `[key, value]` pairs,
nothing for nil / `empty` / `blank`, and an error for any other scalar. -/
theorem C05_collection (v : V) :
    getArray v = match v with
      | .arr xs => .ok xs
      | .obj kvs => .ok (kvs.map fun (k, w) => V.arr [.sc (.str k), w])
      | .st _ => .ok []
      | .nil => .ok []
      | .sc _ => .err := by
  cases v <;> rfl

/-! ### forloop / tablerow fields -/

def fld (o : V) (k : String) : Option V :=
  match o with
  | .obj kvs => objGet kvs k.toList
  | _ => none

/-- **forloop is truthful.** In iteration `i` of `n` (0-based), every field says what it should. -/
theorem C05_forloop_truthful (i n : Nat) (p : V) :
    let o := forloopObj i n p
    fld o "length" = some (iV n) ∧
    fld o "index0" = some (iV i) ∧
    fld o "index" = some (iV (i + 1)) ∧
    fld o "rindex0" = some (iV ((n : Int) - i - 1)) ∧
    fld o "rindex" = some (iV ((n : Int) - i)) ∧
    fld o "first" = some (bV (i == 0)) ∧
    fld o "last" = some (bV ((i : Int) == (n : Int) - 1)) ∧
    fld o "parentloop" = some p := by
  simp [forloopObj, fld, objGet, List.find?, iV, bV]
  cases i <;> simp; omega

/-- `last` is true exactly in the final iteration, `first` exactly in the first. -/
theorem C05_forloop_first_last (i n : Nat) (p : V) :
    (fld (forloopObj i n p) "first" = some (bV true) ↔ i = 0) ∧
    (fld (forloopObj i n p) "last" = some (bV true) ↔ i + 1 = n) := by
  have := C05_forloop_truthful i n p
  simp only at this
  obtain ⟨_, _, _, _, _, hf, hl, _⟩ := this
  rw [hf, hl]
  simp [bV]
  omega

/-- **tablerow is truthful.** With `c` columns, element `i` of `n` sits in column `i % c`
(1-based `col`), and `col_last` holds at the last column of a row or at the very last element. -/
theorem C05_tablerow_truthful (i n c : Nat) :
    let o := tablerowObj i n (i % c) c
    fld o "length" = some (iV n) ∧
    fld o "index0" = some (iV i) ∧
    fld o "index" = some (iV (i + 1)) ∧
    fld o "rindex0" = some (iV ((n : Int) - i - 1)) ∧
    fld o "rindex" = some (iV ((n : Int) - i)) ∧
    fld o "first" = some (bV (i == 0)) ∧
    fld o "last" = some (bV ((i : Int) == (n : Int) - 1)) ∧
    fld o "col0" = some (iV ((i % c : Nat) : Int)) ∧
    fld o "col" = some (iV ((i % c : Nat) + 1)) ∧
    fld o "col_first" = some (bV ((i % c) == 0)) ∧
    fld o "col_last" = some (bV ((((i % c : Nat) : Int) == (c : Int) - 1) || ((i : Int) == (n : Int) - 1))) := by
  simp [tablerowObj, fld, objGet, List.find?, iV, bV]
  constructor
  · cases i <;> simp; omega
  · have h1 : ((i : Int) % (c : Int) = 0) ↔ (i % c = 0) := by omega
    rw [Bool.eq_iff_iff]; simp only [beq_iff_eq]; exact h1

/-! ### visiting order, continue, break -/

/-- **Empty selection.** `loopItems` on nothing renders nothing and changes nothing. -/
theorem C05_loop_nil (step : V → Nat → Rt → W → RR) (npop i : Nat) (rt : Rt) (w : W) :
    loopItems step npop [] i rt w = (.ok (), rt, w) := rfl

/-- **One iteration, no break.** If the body of the element at position `i` succeeds and did not
request `break`, the pending interrupt (a `continue`, or none) is cleared, the iteration's frames
are dropped, and the loop goes on with the *next* element at position `i + 1`: `continue` skips
only the rest of the current iteration. -/
theorem C05_loop_step (step : V → Nat → Rt → W → RR) (npop i : Nat) (v : V) (r : List V)
    (rt rt' : Rt) (w w' : W)
    (hstep : step v i rt w = (.ok (), rt', w')) (hnb : rt'.regs.interrupt ≠ some .brk) :
    loopItems step npop (v :: r) i rt w =
      loopItems step npop r (i + 1)
        { (rt'.setInterrupt none) with layers := (rt'.setInterrupt none).layers.drop npop } w' := by
  simp [loopItems, hstep, hnb]

/-- **break.** If the body requested `break`, the loop stops right there with success, the
remaining elements are not visited, and the interrupt is consumed (cleared) by this loop. -/
theorem C05_loop_break (step : V → Nat → Rt → W → RR) (npop i : Nat) (v : V) (r : List V)
    (rt rt' : Rt) (w w' : W)
    (hstep : step v i rt w = (.ok (), rt', w')) (hb : rt'.regs.interrupt = some .brk) :
    loopItems step npop (v :: r) i rt w =
      (.ok (), { (rt'.setInterrupt none) with layers := (rt'.setInterrupt none).layers.drop npop }, w') := by
  simp [loopItems, hstep, hb]

/-- **Errors stop the loop.** -/
theorem C05_loop_err (step : V → Nat → Rt → W → RR) (npop i : Nat) (v : V) (r : List V)
    (rt rt' : Rt) (w w' : W) (o : Res Unit)
    (hstep : step v i rt w = (o, rt', w')) (ho : o.isOk = false) :
    loopItems step npop (v :: r) i rt w = (o, rt', w') := by
  cases o <;> simp_all [loopItems, Res.isOk]

/-- **Visits, in order, once each.** For a body that just writes `f v i` (no interrupts, no state),
the loop's output is the outputs for the selected elements in order with positions `i, i+1, …`. -/
theorem C05_visits_in_order (f : V → Nat → Str) (hne : ∀ v i, f v i ≠ [])
    (items : List V) (i : Nat) (rt : Rt) (out : List Str)
    (hrt : rt.regs.interrupt = none) (hst : rt.setInterrupt none = rt) :
    loopItems (fun v i rt w => writeR rt w (f v i)) 0 items i rt { out := out, budget := none } =
      (.ok (), rt, { out := out ++ (items.zipIdx i).map (fun (v, j) => f v j), budget := none }) := by
  induction items generalizing i out with
  | nil => simp [loopItems]
  | cons v r ih =>
    have hw : writeR rt { out := out, budget := none } (f v i)
        = (.ok (), rt, { out := out ++ [f v i], budget := none }) := by
      simp [writeR, W.write, hne]
    rw [C05_loop_step _ 0 i v r rt rt _ _ hw (by simp [hrt])]
    simp only [hst, List.drop_zero]
    have := ih (i + 1) (out ++ [f v i])
    simp [this, List.zipIdx_cons]

/-- `renderList` (a block body): after an element leaves an interrupt pending, the remaining
elements of this body are skipped — that is all `continue`/`break` do inside the body. -/
theorem C05_body_skips_rest (f : Node → Rt → W → RR) (n : Node) (r : Tmpl) (rt rt' : Rt) (w w' : W)
    (h : f n rt w = (.ok (), rt', w')) (hi : rt'.regs.interrupt.isSome = true) :
    renderList f (n :: r) rt w = (.ok (), rt', w') := by
  simp [renderList, h, hi]

theorem C05_body_goes_on (f : Node → Rt → W → RR) (n : Node) (r : Tmpl) (rt rt' : Rt) (w w' : W)
    (h : f n rt w = (.ok (), rt', w')) (hi : rt'.regs.interrupt = none) :
    renderList f (n :: r) rt w = renderList f r rt' w' := by
  simp [renderList, h, hi]

/-! ### non-vacuity -/

example : selectSpec [iV 1, iV 2, iV 3, iV 4, iV 5] (some 4) 3 false = [iV 4, iV 5] := by rfl
example : iterArray [iV 1, iV 2, iV 3, iV 4, iV 5] (some 2) 1 true = [iV 3, iV 2] := by rfl
example : (Rt.build []).regs.interrupt = none ∧ (Rt.build []).setInterrupt none = Rt.build [] := by
  constructor <;> rfl

end Liquid.C05
