/-
  C19 — eager, lazy and on-demand partial compilation are observationally equivalent.
  Model: `Model/Partials.lean`.
-/
import LiquidModel.Model.Partials
namespace Liquid.C19
open Liquid

/-- the lazy cache only ever holds the compilation of the source text of its key -/
def Inv (src : PSrc) (c : Compile) (σ : Cache) : Prop :=
  ∀ n r, cacheFind σ n = some r → ∃ s, src.text n = some s ∧ r = c s

theorem inv_nil (src : PSrc) (c : Compile) : Inv src c [] := by
  intro n r h; simp [cacheFind] at h

/-- **Lazy = by definition.** In any state satisfying the cache invariant a lazy `get` answers
exactly `compiled`, and leaves a state satisfying the invariant (whether it hit, compiled and
inserted, or failed). -/
theorem C19_lazy_correct (src : PSrc) (c : Compile) (σ : Cache) (name : Str) (h : Inv src c σ) :
    (lazyGet src c σ name).1 = compiled src c name ∧ Inv src c (lazyGet src c σ name).2 := by
  unfold lazyGet compiled
  cases hf : cacheFind σ name with
  | some r =>
    obtain ⟨s, hs, hr⟩ := h name r hf
    simp [hs, hr, h]
  | none =>
    cases hs : src.text name with
    | none => simp [h]
    | some s =>
      refine ⟨rfl, ?_⟩
      intro n r hn
      simp only [cacheFind] at hn
      by_cases hk : name = n
      · subst hk; simp at hn; exact ⟨s, hs, hn.symm⟩
      · have : (name == n) = false := by simpa using hk
        simp only [this, Bool.false_eq_true, if_false] at hn
        exact h n r hn

theorem find_map_key (names : List Str) (f : Str → Option Tmpl) (name : Str) :
    (names.map fun n => (n, f n)).find? (·.1 == name) = if name ∈ names then some (name, f name) else none := by
  induction names with
  | nil => simp
  | cons a r ih =>
    simp only [List.map_cons, List.find?_cons, List.mem_cons]
    by_cases h : a = name
    · subst h; simp
    · have : (a == name) = false := by simpa using h
      simp only [this, ih]
      have h' : ¬ name = a := fun e => h e.symm
      simp [h']

/-- **Eager = by definition**, for a source whose name listing is truthful. -/
theorem C19_eager_correct (src : PSrc) (c : Compile) (ht : src.Truthful) (name : Str) :
    storeGet (eagerStore src c) name = compiled src c name := by
  unfold storeGet eagerStore compiled
  rw [find_map_key]
  by_cases hm : name ∈ src.names
  · have := (ht name).mpr hm
    cases hs : src.text name with
    | none => simp [hs] at this
    | some s => simp [hm]
  · have : src.text name = none := by
      cases hs : src.text name with
      | none => rfl
      | some s => exact absurd ((ht name).mp (by simp [hs])) hm
    simp [hm, this]

/-- **On demand = by definition.** -/
theorem C19_ondemand_correct (src : PSrc) (c : Compile) (name : Str) :
    onDemandGet src c name = compiled src c name := rfl

/-- **Observational equivalence over every history.** Whatever sequence of names is asked for, a
lazy store started empty answers each `get` exactly as the eager and the on-demand store do. -/
theorem C19_equiv (src : PSrc) (c : Compile) (ht : src.Truthful) (hist : List Str) (σ : Cache) (h : Inv src c σ) :
    (lazyRun src c hist σ).1 = hist.map (storeGet (eagerStore src c)) ∧
    (lazyRun src c hist σ).1 = hist.map (onDemandGet src c) ∧
    Inv src c (lazyRun src c hist σ).2 := by
  induction hist generalizing σ with
  | nil => exact ⟨rfl, rfl, h⟩
  | cons n r ih =>
    obtain ⟨h1, h2⟩ := C19_lazy_correct src c σ n h
    obtain ⟨i1, i2, i3⟩ := ih _ h2
    simp only [lazyRun, List.map_cons]
    refine ⟨?_, ?_, i3⟩
    · rw [i1, h1, C19_eager_correct src c ht]
    · rw [i2, h1]; rfl

/-- **Repeated use gives the first result**, within and across renders. -/
theorem C19_repeat (src : PSrc) (c : Compile) (σ : Cache) (h : Inv src c σ) (name : Str) :
    (lazyGet src c (lazyGet src c σ name).2 name).1 = (lazyGet src c σ name).1 := by
  obtain ⟨h1, h2⟩ := C19_lazy_correct src c σ name h
  rw [(C19_lazy_correct src c _ name h2).1, h1]

/-- **Errors are deferred and local.** Building a store never fails (each is a plain value); a
missing or unparsable partial makes exactly the `get`s that name it fail, no others. -/
theorem C19_deferred (src : PSrc) (c : Compile) (name : Str) :
    compiled src c name = .err ↔ (src.text name = none ∨ ∃ s, src.text name = some s ∧ c s = none) := by
  unfold compiled
  cases hs : src.text name with
  | none => simp
  | some s => cases hc : c s <;> simp [resOfOpt, hc]

/-- **The same render under the three policies.** With stores that answer alike the interpreter
cannot tell them apart: output and failure are identical. -/
theorem C19_render_equiv (src : PSrc) (c : Compile) (ht : src.Truthful) (σ : Cache) (h : Inv src c σ)
    (filters : Str → Option (V → List V → Res V)) (fuel : Nat) (t : Tmpl) (globals : Obj) :
    renderTop fuel (lazyEnv src c σ filters) t globals = renderTop fuel (eagerEnv src c filters) t globals ∧
    renderTop fuel (onDemandEnv src c filters) t globals = renderTop fuel (eagerEnv src c filters) t globals := by
  have e1 : lazyEnv src c σ filters = eagerEnv src c filters := by
    unfold lazyEnv eagerEnv
    congr 1
    funext n
    rw [(C19_lazy_correct src c σ n h).1, C19_eager_correct src c ht]
  have e2 : onDemandEnv src c filters = eagerEnv src c filters := by
    unfold onDemandEnv eagerEnv
    congr 1
    funext n
    rw [C19_eager_correct src c ht]; rfl
  rw [e1, e2]; exact ⟨rfl, rfl⟩

/-! ### non-vacuity -/
def exSrc : PSrc := { names := ["p".toList], text := fun n => if n == "p".toList then some "x".toList else none }
example : exSrc.Truthful := by
  intro n; unfold exSrc; by_cases h : n = "p".toList <;> simp [h]

/-- **The `name.liquid` fallback of `render` is a function of the two lookups alone** — the same
under every store policy (C19_equiv makes the lookups agree): the partial stored under `name` when it
can be had, otherwise — missing or unparsable alike — whatever the lookup of `name.liquid` gives. -/
theorem C19_render_fallback (env : Env) (name : Str) :
    (∀ t, lookupPartial env name = .ok t → lookupPartialR env name = .ok t) ∧
    ((∀ t, lookupPartial env name ≠ .ok t) →
        lookupPartialR env name = lookupPartial env (name ++ ".liquid".toList)) := by
  constructor
  · intro t h; simp [lookupPartialR, h]
  · intro h
    unfold lookupPartialR
    cases hl : lookupPartial env name with
    | ok t => exact absurd hl (h t)
    | err => rfl
    | io => rfl
    | panic s => rfl
    | fuel => rfl

end Liquid.C19
