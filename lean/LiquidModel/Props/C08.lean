/-
  C08 — include shares the caller's scope; render isolates the partial.
  Model: the `.include_` / `.render_` arms of `renderN`, `renderForStep`, `lookupPartial(R)`;
  whole-interpreter invariants `renderT_isolated` (`Lemmas/Isolate.lean`) and the frame discipline.
-/
import LiquidModel.Lemmas.Isolate
import LiquidModel.Lemmas.Scope
import LiquidModel.Props.C04
import LiquidModel.Lemmas.NonInterf
namespace Liquid.C08
open Liquid

/-! ### render: isolation -/

/-- what the caller can observe of a computation: only counters may have changed -/
def OnlyCounters {α} (m : M α) : Prop :=
  ∀ rt w, eqModIndex rt.layers (m rt w).2.1.layers ∧ (m rt w).2.1.core = rt.core

namespace OnlyCounters

theorem pure {α} (a : α) : OnlyCounters (Pure.pure a : M α) :=
  fun rt _ => ⟨eqModIndex_refl _, rfl⟩

theorem lift {α} (r : Res α) : OnlyCounters (M.lift r) :=
  fun rt _ => ⟨eqModIndex_refl _, rfl⟩

theorem getSt : OnlyCounters M.getSt := fun rt _ => ⟨eqModIndex_refl _, rfl⟩

theorem bind {α β} {m : M α} {f : α → M β} (hm : OnlyCounters m) (hf : ∀ a, OnlyCounters (f a)) :
    OnlyCounters (m >>= f) := by
  intro rt w
  have h1 := hm rt w
  rw [M.run_bind]
  rcases hr : m rt w with ⟨r, rt', w'⟩
  rw [hr] at h1
  cases r with
  | ok a =>
    have h2 := hf a rt' w'
    exact ⟨eqModIndex_trans _ _ _ h1.1 h2.1, h2.2.trans h1.2⟩
  | err => exact h1
  | io => exact h1
  | panic s => exact h1
  | fuel => exact h1

/-- the heart of it: anything run inside a fresh global frame over a sandboxed frame -/
theorem inSandbox {α} (root : Obj) {m : M α} (hm : Pres isoRel m) :
    OnlyCounters (M.inFrames [.global [], .sandbox root {}] m) := by
  intro rt w
  have h := hm { rt with layers := [Layer.global [], Layer.sandbox root {}] ++ rt.layers } w
  unfold M.inFrames
  rcases hr : m { rt with layers := [Layer.global [], Layer.sandbox root {}] ++ rt.layers } w with ⟨r, rt', w'⟩
  rw [hr] at h
  obtain ⟨hs, hp⟩ := h
  obtain ⟨b', hb', he, hc⟩ := hp (by simp [globalFirst]) rt.layers (by simp [belowSandbox])
  rcases hl : rt'.layers with _ | ⟨l1, _ | ⟨l2, rest⟩⟩
  · simp [hl, Stack.shape] at hs
  · simp [hl, Stack.shape] at hs
  · simp only [hl, Stack.shape, List.map_cons, List.singleton_append, List.cons_append, List.nil_append,
      List.cons.injEq] at hs
    rw [hl] at hb'
    have : b' = rest := by cases l1 <;> cases l2 <;> simp_all [Layer.kind, belowSandbox]
    subst this
    exact ⟨by simpa [hl] using he, hc⟩

theorem loopItems {step : V → Nat → M (Option Intr)} (hs : ∀ v i, OnlyCounters (step v i)) :
    ∀ items i, OnlyCounters (loopItems step items i)
  | [], _ => pure ()
  | v :: r, i => by
    unfold Liquid.loopItems
    refine bind (hs v i) (fun intr => ?_)
    split
    · exact pure ()
    · exact loopItems hs r (i + 1)

end OnlyCounters

/-- **render isolates the partial.** After `{% render … %}` in any of its forms (plain,
`with … as`, `for … as`), whatever the partial did — assign, capture, break, continue, cycle,
ifchanged, nested includes and renders, errors — the caller's frames are exactly those from
before, except that shared counters may have been incremented, and the caller's registers
(pending interrupt, cycle positions, ifchanged memory) are untouched. -/
theorem C08_render_isolated (fuel : Nat) (env : Env) (name : Expr) (form : RForm) (args : List (Str × Expr)) :
    OnlyCounters (renderN (fuel + 1) env (.render_ name form args)) := by
  have hbody : ∀ t, Pres isoRel (renderList (renderN fuel env) t) := fun t => Pres.renderT isoRel env fuel t
  rw [renderN]
  refine OnlyCounters.bind OnlyCounters.getSt (fun st => OnlyCounters.bind (OnlyCounters.lift _) (fun v => ?_))
  split
  · dsimp only
    split
    · refine OnlyCounters.bind (OnlyCounters.lift _) (fun items => ?_)
      refine OnlyCounters.loopItems (fun v i => ?_) _ _
      unfold renderForStep
      refine OnlyCounters.bind (OnlyCounters.lift _) (fun root0 => OnlyCounters.inSandbox _ ?_)
      exact (isoRel.toMProp).bind ((isoRel.toMProp).bind ((isoRel.toMProp).lift _) (fun t => hbody t))
        (fun _ => MProp.takeInterruptM isoRel.toMProp)
    · refine OnlyCounters.bind (OnlyCounters.lift _) (fun root => OnlyCounters.bind (OnlyCounters.lift _) (fun t => ?_))
      exact OnlyCounters.inSandbox _ (hbody t)
  · exact OnlyCounters.lift _

/-- **The partial starts from only its explicit arguments.** Inside `render`, a name resolves in
the partial's own assignments `g`, else in the argument frame `root`; nothing of the caller
(`below`, arbitrary) can be seen. -/
theorem C08_render_view (g root : Obj) (q : Regs) (below below' : Stack) (path : List Sc) :
    Stack.tryGet (.global g :: .sandbox root q :: below) path =
    Stack.tryGet (.global g :: .sandbox root q :: below') path := by
  cases path with
  | nil => simp [Stack.tryGet, pathKey]
  | cons k p =>
    simp only [Stack.tryGet, pathKey, List.head?, Option.map]

theorem C08_render_names (g root : Obj) (q : Regs) (below : Stack) (k : Str) :
    Stack.tryGet (.global g :: .sandbox root q :: below) [.str k] = C04.orElse (objGet g k) (objGet root k) := by
  simp only [Stack.tryGet, pathKey, List.head?, Option.map, Sc.render]
  cases hg : objContains g k
  · rw [C04.objGet_none_of_not_contains g k hg]
    simp only [Bool.false_eq_true, if_false, C04.orElse]
    cases hr : objGet root k with
    | none => rfl
    | some w =>
      have : objContains root k = true := by
        have := C18.objGet_isSome_iff_contains root k; simp [hr] at this; exact this
      simp [C04.tryFind_single root k this, hr]
  · have := C18.objGet_isSome_iff_contains g k
    simp only [if_true, C04.tryFind_single g k hg]
    cases hv : objGet g k with
    | some w => rfl
    | none => simp [hv, hg] at this

/-- **for … as … is truthful**: in iteration `i` of `n` the partial sees the item under the given
name and a `forloop` object describing exactly that iteration (fields: C05_forloop_truthful). -/
theorem C08_for_as_truthful (root0 : Obj) (as_ : Str) (v : V) (i n : Nat) :
    objGet (objInsert (objInsert root0 "forloop".toList (forloopObj i n .nil)) as_ v) as_ = some v ∧
    (as_ ≠ "forloop".toList →
      objGet (objInsert (objInsert root0 "forloop".toList (forloopObj i n .nil)) as_ v) "forloop".toList
        = some (forloopObj i n .nil)) := by
  refine ⟨C18.objInsert_get _ _ _, fun h => ?_⟩
  rw [C18.objInsert_get_other _ _ _ _ (Ne.symm h), C18.objInsert_get]

/-- … and that `forloop` has **no enclosing loop**: whatever loops the caller is in, the
`parentloop` the partial sees is nil (falsy), so nothing of the caller's loop state is reachable
through it. -/
theorem C08_for_as_no_parentloop (i n : Nat) :
    tryFind (forloopObj i n .nil) [.str "parentloop".toList] = some .nil ∧
    tryFind (forloopObj i n .nil) [.str "parentloop".toList, .str "index".toList] = none := by
  constructor <;> simp [tryFind, augGet, forloopObj, objGet, Sc.render, iV, bV]

/-! ### include: shared scope -/

/-- **include runs in the caller's scope.** The partial sees its arguments first and every caller
name otherwise (arguments shadow, nothing is hidden). -/
theorem C08_include_sees_caller (pass : Obj) (caller : Stack) (k : Str) :
    Stack.tryGet (.plain pass :: caller) [.str k] = C04.orElse (objGet pass k) (Stack.tryGet caller [.str k]) :=
  C04.C04_precedence_inner pass caller k

/-- the argument frame is gone after the include, the caller's plain frames are intact, and what
the partial assigned stayed in the caller's global frame (`C04_global_keeps_names`) -/
theorem C08_include_args_vanish (fuel : Nat) (env : Env) (name : Expr) (args : List (Str × Expr)) (rt : Rt) (w : W) :
    ((renderN fuel env (.include_ name args) rt w).2.1).layers.shape = rt.layers.shape ∧
    ∀ (i : Nat) (d : Obj), rt.layers[i]? = some (Layer.plain d) →
      ((renderN fuel env (.include_ name args) rt w).2.1).layers[i]? = some (Layer.plain d) :=
  renderN_keeps_plains env fuel (.include_ name args) rt w

/-- **A break inside an include ends the caller's loop**: the registers current inside the
argument frame are the caller's registers, so the interrupt the partial leaves pending is pending
in the caller when the include returns. -/
theorem C08_include_interrupt_shared (env : Env) (fuel : Nat) (pass : Obj) (t : Tmpl) (rt rt1 : Rt) (w w1 : W)
    (r : Res Unit)
    (h : renderT fuel env t { rt with layers := [Layer.plain pass] ++ rt.layers } w = (r, rt1, w1)) :
    (M.inFrames [.plain pass] (renderT fuel env t) rt w).2.1.regs = rt1.regs := by
  have hsh := renderT_keeps_frames env fuel t { rt with layers := [Layer.plain pass] ++ rt.layers } w
  rw [h] at hsh
  unfold M.inFrames
  rw [h]
  rcases hl : rt1.layers with _ | ⟨l, rest⟩
  · simp [hl, Stack.shape] at hsh
  · simp only [hl, Stack.shape, List.map_cons, List.singleton_append, List.cons.injEq] at hsh
    have hk : l.kind ≠ 1 := by rw [hsh.1]; simp [Layer.kind]
    simp only [Rt.regs, hl, List.length_singleton, List.drop_one, List.tail_cons]
    exact (Stack.regs_cons_nonsandbox l rest rt1.core hk).symm

/-! ### missing or broken partials -/

/-- **A missing or unparsable partial is an error at that tag**: nothing is written by it and the
runtime is left as it was. -/
theorem C08_missing_is_err_include (fuel : Nat) (env : Env) (name : Expr) (args : List (Str × Expr))
    (rt : Rt) (w : W) (s : Sc) (pass : Obj)
    (hn : name.eval rt.layers = .ok (.sc s)) (hv : evalVars rt.layers args [] = .ok pass)
    (hp : lookupPartial env s.render = .err) :
    renderN (fuel + 1) env (.include_ name args) rt w = (.err, rt, w) := by
  simp [renderN, hn, hv, hp]

theorem C08_missing_is_err_render (fuel : Nat) (env : Env) (name : Expr) (form : RForm) (args : List (Str × Expr))
    (rt : Rt) (w : W) (s : Sc) (root : Obj) (hf : ∀ r a, form ≠ .for_ r a)
    (hn : name.eval rt.layers = .ok (.sc s)) (hv : evalVars rt.layers (form.vars args) [] = .ok root)
    (hp : lookupPartialR env s.render = .err) :
    renderN (fuel + 1) env (.render_ name form args) rt w = (.err, rt, w) := by
  cases form with
  | for_ r a => exact absurd rfl (hf r a)
  | plain => simp [renderN, hn, hv, hp]
  | with_ e a => simp [renderN, hn, hv, hp]

/-- a partial name that is not a string is an error as well -/
theorem C08_nonstring_name_is_err (fuel : Nat) (env : Env) (name : Expr) (args : List (Str × Expr))
    (rt : Rt) (w : W) (v : V) (hn : name.eval rt.layers = .ok v) (hv : ∀ s, v ≠ .sc s) :
    renderN (fuel + 1) env (.include_ name args) rt w = (.err, rt, w) := by
  cases v with
  | sc s => exact absurd rfl (hv s)
  | nil => simp [renderN, hn]
  | st x => simp [renderN, hn]
  | arr xs => simp [renderN, hn]
  | obj kvs => simp [renderN, hn]

/-- what "missing" means for a store given as a table: no entry for the name, or an entry that is
a stored parse error; a well-formed stored partial is found -/
theorem C08_lookup (ps : List (Str × Option Tmpl)) (name : Str) :
    (ps.find? (·.1 == name) = none → lookupPartial (Env.ofList ps) name = .err) ∧
    (∀ n, ps.find? (·.1 == name) = some (n, none) → lookupPartial (Env.ofList ps) name = .err) ∧
    (∀ n t, ps.find? (·.1 == name) = some (n, some t) → lookupPartial (Env.ofList ps) name = .ok t) := by
  refine ⟨fun h => ?_, fun n h => ?_, fun n t h => ?_⟩ <;> simp [lookupPartial, Env.ofList, h]

/-! ### non-interference: the partial's behaviour is a function of its arguments (and the counters) -/

/-- **Inside a sandbox nothing of the caller can be observed.** Two runtimes that agree on every
frame down to and including some sandboxed frame (with a global frame somewhere above their
bottom `n` frames), and whose bottom `n` frames merely have the same kinds and equal counter
frames, cannot be told apart by ANY template: same result, same output, and the runtimes stay
related.  Proved by a two-run induction over the whole interpreter (`NI.renderN_ni`). -/
theorem C08_sandbox_noninterference (env : Env) (n fuel : Nat) (t : Tmpl) (rt1 rt2 : Rt) (w : W)
    (h : NI.RelN n rt1.layers rt2.layers) :
    (renderT fuel env t rt1 w).1 = (renderT fuel env t rt2 w).1 ∧
    (renderT fuel env t rt1 w).2.2 = (renderT fuel env t rt2 w).2.2 := by
  have o := NI.NI2.renderList (NI.renderN_ni env n fuel) t rt1 rt2 w h
  exact ⟨o.res, o.out⟩

/-- **`render` is a function of its arguments.** Take two *arbitrary* callers — different data,
different assigned variables, different loop frames — in which the partial's name and its
arguments (for the `for` form also the collection) evaluate to the same values and whose counter
frames agree.  Then `{% render … %}` (any form, any partial body, any nesting of further includes
and renders inside it) returns the same result and writes exactly the same output in both: no
variable of the caller, no pending interrupt, cycle position or ifchanged memory of the caller can
influence the partial. -/
theorem C08_render_function_of_args (env : Env) (fuel : Nat) (name : Expr) (form : RForm)
    (args : List (Str × Expr)) (rt1 rt2 : Rt) (w : W)
    (hc : NI.relBelow rt1.layers rt2.layers)
    (hn : name.eval rt1.layers = name.eval rt2.layers)
    (ha : evalVars rt1.layers (form.vars args) [] = evalVars rt2.layers (form.vars args) [])
    (ha' : evalVars rt1.layers args [] = evalVars rt2.layers args [])
    (hr : ∀ rng as_, form = .for_ rng as_ → rng.eval rt1.layers = rng.eval rt2.layers) :
    (renderN (fuel + 1) env (.render_ name form args) rt1 w).1
      = (renderN (fuel + 1) env (.render_ name form args) rt2 w).1 ∧
    (renderN (fuel + 1) env (.render_ name form args) rt1 w).2.2
      = (renderN (fuel + 1) env (.render_ name form args) rt2 w).2.2 := by
  have o := NI.render_ni env fuel name form args rt1 rt2 w hc hn ha ha' hr
  exact ⟨o.1, o.2.1⟩

/-- non-vacuity: two fresh runtimes over *different* caller data satisfy the counter hypothesis, and
a literal partial name with literal arguments satisfies the others -/
example (d1 d2 : Obj) : NI.relBelow (Rt.build d1).layers (Rt.build d2).layers := by
  refine ⟨⟨rfl, ?_⟩, ⟨rfl, ?_⟩, ⟨rfl, ?_⟩, trivial⟩ <;> intro c1 c2 h1 h2 <;> simp_all

example (d1 d2 : Obj) (s : Str) (v : V) :
    (Expr.lit (.sc (.str s))).eval (Rt.build d1).layers = (Expr.lit (.sc (.str s))).eval (Rt.build d2).layers ∧
    evalVars (Rt.build d1).layers [("x".toList, .lit v)] [] = evalVars (Rt.build d2).layers [("x".toList, .lit v)] [] :=
  ⟨rfl, rfl⟩

end Liquid.C08
