/-
  C04 — scoping: innermost binding wins, assignments persist, caller data untouched.
  Model: `Model/Find.lean` (frames), `Model/Render.lean` (assign, capture, increment, for, include);
  whole-interpreter invariants from `Lemmas/Scope.lean` and `Lemmas/Sink.lean`.
-/
import LiquidModel.Lemmas.Scope
import LiquidModel.Lemmas.Sink
import LiquidModel.Props.C18
namespace Liquid.C04
open Liquid

/-- first defined of two optional values -/
def orElse {α} : Option α → Option α → Option α
  | some a, _ => some a
  | none, b => b

/-- looking a single name up in one object (`try_find` of a one-element path) -/
theorem tryFind_single (d : Obj) (k : Str) (h : objContains d k = true) :
    tryFind (.obj d) [.str k] = objGet d k := by
  have hs := C18.objGet_isSome_iff_contains d k
  simp only [tryFind, augGet, Sc.render]
  cases hg : objGet d k with
  | some w => rfl
  | none => simp [hg, h] at hs

theorem objGet_none_of_not_contains (d : Obj) (k : Str) (h : objContains d k = false) : objGet d k = none := by
  have hs := C18.objGet_isSome_iff_contains d k
  cases hg : objGet d k with
  | none => rfl
  | some w => simp [hg, h] at hs

/-- **Precedence.** In the runtime a render starts with — assigned/captured variables (global
frame `g`) over the caller's data over the increment/decrement counters `c` — and under any
stack `inner` of loop-variable / include-argument frames, a name resolves to its innermost
binding: an `inner` frame first (innermost first), then `g`, then `data`, then `c`. -/
theorem C04_precedence_base (g data c : Obj) (k : Str) :
    Stack.tryGet [.global g, .plain data, .index c] [.str k] =
      orElse (objGet g k) (orElse (objGet data k) (objGet c k)) := by
  simp only [Stack.tryGet, pathKey, List.head?, Option.map, Sc.render]
  cases hg : objContains g k
  · rw [objGet_none_of_not_contains g k hg]
    cases hd : objContains data k
    · rw [objGet_none_of_not_contains data k hd]
      cases hc : objContains c k
      · simp [objGet_none_of_not_contains c k hc, orElse]
      · simp [tryFind_single c k hc, orElse]
    · have := C18.objGet_isSome_iff_contains data k
      simp only [Bool.false_eq_true, if_false, if_true, tryFind_single data k hd, orElse]
      cases hv : objGet data k with
      | some w => rfl
      | none => simp [hv, hd] at this
  · have := C18.objGet_isSome_iff_contains g k
    simp only [if_true, tryFind_single g k hg]
    cases hv : objGet g k with
    | some w => rfl
    | none => simp [hv, hg] at this

/-- a loop-variable / include-argument frame shadows everything below for the names it binds and
is transparent for all others -/
theorem C04_precedence_inner (d : Obj) (below : Stack) (k : Str) :
    Stack.tryGet (.plain d :: below) [.str k] = orElse (objGet d k) (Stack.tryGet below [.str k]) := by
  simp only [Stack.tryGet, pathKey, List.head?, Option.map, Sc.render]
  cases hd : objContains d k
  · simp [objGet_none_of_not_contains d k hd, orElse]
  · have := C18.objGet_isSome_iff_contains d k
    simp only [if_true, tryFind_single d k hd]
    cases hv : objGet d k with
    | some w => rfl
    | none => simp [hv, hd] at this

/-- **assign binds in the global frame, whatever the depth.** Executed under any number of
loop / include frames (none of which is a global or sandboxed frame), `assign x = v` writes `x`
into the render's global frame; every frame above that does not itself bind `x` then sees `v`. -/
theorem C04_assign_global (fuel : Nat) (env : Env) (x : Str) (e : Expr) (v : V)
    (inner : Stack) (g : Obj) (below : Stack) (core : Regs) (w : W)
    (hin : inner.all (C18.passes x) = true)
    (he : evalChain env (inner ++ .global g :: below) e [] = .ok v) :
    renderN (fuel + 1) env (.assign x e []) { layers := inner ++ .global g :: below, core := core } w
      = (.ok (), { layers := inner ++ .global (objInsert g x v) :: below, core := core }, w) ∧
    Stack.tryGet (inner ++ .global (objInsert g x v) :: below) [.str x] = some v := by
  obtain ⟨h1, h2⟩ := C18.C18_set_global_nearest inner g below x v hin
  refine ⟨?_, h2⟩
  simp [renderN, he, setGlobalM, h1]

/-- **Assignments persist**: no later render step removes a frame or touches a plain frame, and
(by `C04_global_keeps_names`) a global frame never loses a name. -/
def globalsGrow : StepRel where
  R := fun rt rt' => rt'.layers.shape = rt.layers.shape ∧
    ∀ (i : Nat) (g : Obj) (k : Str), rt.layers[i]? = some (Layer.global g) → objContains g k = true →
      ∃ g', rt'.layers[i]? = some (Layer.global g') ∧ objContains g' k = true
  refl := fun _ => ⟨rfl, fun _ g _ h hk => ⟨g, h, hk⟩⟩
  trans := by
    intro a b c ⟨s1, h1⟩ ⟨s2, h2⟩
    refine ⟨s2.trans s1, ?_⟩
    intro i g k hi hk
    obtain ⟨g1, hg1, hk1⟩ := h1 i g k hi hk
    exact h2 i g1 k hg1 hk1
  setRegs := by
    intro rt q
    refine ⟨Rt.setRegs_shape rt q, ?_⟩
    intro i g k hi hk
    refine ⟨g, ?_, hk⟩
    unfold Rt.setRegs
    generalize rt.core = core
    revert i
    induction rt.layers with
    | nil => intro i hi; simp at hi
    | cons l r ih =>
      intro i hi
      cases l <;> cases i <;> simp_all [Stack.setRegs]
  setGlobal := by
    intro rt k0 v ls h
    refine ⟨setGlobal_shape _ _ k0 v h, ?_⟩
    generalize rt.layers = st at h
    intro i g k hi hk
    induction st generalizing ls i with
    | nil => simp [Stack.setGlobal] at h
    | cons l r ih =>
      cases l with
      | global g0 =>
        simp [Stack.setGlobal] at h; subst h
        cases i with
        | zero =>
          simp at hi; subst hi
          refine ⟨objInsert g0 k0 v, by simp, ?_⟩
          by_cases hk0 : k = k0
          · subst hk0; exact C18.objInsert_contains g0 k v
          · have h1 := C18.objGet_isSome_iff_contains (objInsert g0 k0 v) k
            have h2 := C18.objGet_isSome_iff_contains g0 k
            rw [C18.objInsert_get_other g0 k0 k v hk0] at h1
            rw [← h1, h2, hk]
        | succ n => exact ⟨g, by simpa using hi, hk⟩
      | plain d0 =>
        simp only [Stack.setGlobal, bind, Res.bind] at h
        cases hr : Stack.setGlobal r k0 v <;> simp [hr, pure] at h
        subst h
        cases i with
        | zero => simp at hi
        | succ n =>
          obtain ⟨g', hg', hk'⟩ := ih _ hr n (by simpa using hi)
          exact ⟨g', by simpa using hg', hk'⟩
      | sandbox d0 q =>
        simp only [Stack.setGlobal, bind, Res.bind] at h
        cases hr : Stack.setGlobal r k0 v <;> simp [hr, pure] at h
        subst h
        cases i with
        | zero => simp at hi
        | succ n =>
          obtain ⟨g', hg', hk'⟩ := ih _ hr n (by simpa using hi)
          exact ⟨g', by simpa using hg', hk'⟩
      | index d0 =>
        simp only [Stack.setGlobal, bind, Res.bind] at h
        cases hr : Stack.setGlobal r k0 v <;> simp [hr, pure] at h
        subst h
        cases i with
        | zero => simp at hi
        | succ n =>
          obtain ⟨g', hg', hk'⟩ := ih _ hr n (by simpa using hi)
          exact ⟨g', by simpa using hg', hk'⟩
  setIndex := by
    intro rt k0 v ls h
    refine ⟨setIndex_shape _ _ k0 v h, ?_⟩
    generalize rt.layers = st at h
    intro i g k hi hk
    refine ⟨g, ?_, hk⟩
    induction st generalizing ls i with
    | nil => simp [Stack.setIndex] at h
    | cons l r ih =>
      cases l with
      | index c0 =>
        simp [Stack.setIndex] at h; subst h
        cases i <;> simp_all
      | plain d0 =>
        simp only [Stack.setIndex, bind, Res.bind] at h
        cases hr : Stack.setIndex r k0 v <;> simp [hr, pure] at h
        subst h
        cases i with
        | zero => simp at hi
        | succ n => simpa using ih _ hr n (by simpa using hi)
      | sandbox d0 q =>
        simp only [Stack.setIndex, bind, Res.bind] at h
        cases hr : Stack.setIndex r k0 v <;> simp [hr, pure] at h
        subst h
        cases i with
        | zero => simp at hi
        | succ n => simpa using ih _ hr n (by simpa using hi)
      | global d0 =>
        simp only [Stack.setIndex, bind, Res.bind] at h
        cases hr : Stack.setIndex r k0 v <;> simp [hr, pure] at h
        subst h
        cases i with
        | zero => simpa using hi
        | succ n => simpa using ih _ hr n (by simpa using hi)
  framePlain := by
    intro d0 rt rt' ⟨hs, hp⟩
    refine ⟨shapeRel.framePlain d0 rt rt' hs, ?_⟩
    intro i g k hi hk
    obtain ⟨g', hg', hk'⟩ := hp (i + 1) g k (by simpa using hi) hk
    exact ⟨g', by simpa [List.getElem?_drop, Nat.add_comm] using hg', hk'⟩
  frameSandbox := by
    intro root rt rt' ⟨hs, hp⟩
    refine ⟨shapeRel.frameSandbox root rt rt' hs, ?_⟩
    intro i g k hi hk
    obtain ⟨g', hg', hk'⟩ := hp (i + 2) g k (by simpa using hi) hk
    exact ⟨g', by simpa [List.getElem?_drop, Nat.add_comm] using hg', hk'⟩

/-- **A bound name stays bound for the rest of the render**: whatever is rendered afterwards
(any template, any outcome), a global frame still binds every name it bound before. -/
theorem C04_global_keeps_names (env : Env) (fuel : Nat) (t : Tmpl) (rt : Rt) (w : W)
    (i : Nat) (g : Obj) (k : Str) (hi : rt.layers[i]? = some (Layer.global g)) (hk : objContains g k = true) :
    ∃ g', ((renderT fuel env t rt w).2.1).layers[i]? = some (Layer.global g') ∧ objContains g' k = true := by
  have h : ((renderT fuel env t rt w).2.1).layers.shape = rt.layers.shape ∧
      ∀ (i : Nat) (g : Obj) (k : Str), rt.layers[i]? = some (Layer.global g) → objContains g k = true →
        ∃ g', ((renderT fuel env t rt w).2.1).layers[i]? = some (Layer.global g') ∧ objContains g' k = true :=
    Pres.renderT globalsGrow env fuel t rt w
  exact h.2 i g k hi hk

/-- **capture binds exactly the text its body would have printed**, and prints nothing itself:
if the body, run against any never-failing sink holding `o`, appends the fragments `δ`, then the
capture block leaves the outer sink untouched and assigns `δ` concatenated. -/
theorem C04_capture_exact (fuel : Nat) (env : Env) (x : Str) (body : Tmpl) (rt : Rt) (w : W) :
    ∃ (r : Res Unit) (rt' : Rt) (δ : List Str),
      (∀ o, renderT fuel env body rt ⟨o, none⟩ = (r, rt', ⟨o ++ δ, none⟩)) ∧
      renderN (fuel + 1) env (.capture x body) rt w =
        (match r with
         | .ok () => setGlobalM x (.sc (.str δ.flatten)) rt' w
         | .err => (.err, rt', w) | .io => (.io, rt', w) | .panic s => (.panic s, rt', w) | .fuel => (.fuel, rt', w)) := by
  obtain ⟨r, rt', δ, h1, _, _⟩ := renderT_sinkOk env fuel body rt
  refine ⟨r, rt', δ, h1, ?_⟩
  have h0 : renderT fuel env body rt {} = (r, rt', ⟨δ, none⟩) := by simpa using h1 []
  rw [renderN]
  show (M.capture (renderT fuel env body) >>= fun s => setGlobalM x (.sc (.str s))) rt w = _
  rw [M.run_bind]
  unfold M.capture
  rw [h0]
  cases r <;> simp [W.text, M.castErr]

/-- **A loop variable stops existing when its loop ends; caller data is never modified.** After
rendering any element (in particular a whole `for` loop or an `include`), the runtime has exactly
the frames it had before and every plain frame — the caller's data object, enclosing loop
variables — is unchanged. -/
theorem C04_loopvar_scoped (env : Env) (fuel : Nat) (n : Node) (rt : Rt) (w : W) :
    ((renderN fuel env n rt w).2.1).layers.shape = rt.layers.shape ∧
    ∀ (i : Nat) (d : Obj), rt.layers[i]? = some (Layer.plain d) →
      ((renderN fuel env n rt w).2.1).layers[i]? = some (Layer.plain d) :=
  renderN_keeps_plains env fuel n rt w

/-- **The caller's data object is never modified** by a render, whatever the template does and
however it ends. -/
theorem C04_data_untouched (env : Env) (fuel : Nat) (t : Tmpl) (globals : Obj) (w : W) :
    ((renderT fuel env t (Rt.build globals) w).2.1).layers[1]? = some (Layer.plain globals) :=
  (renderT_keeps_plains env fuel t (Rt.build globals) w).2 1 globals rfl

/-- **increment prints the counter, then bumps it** (decrement bumps first); counters live in their
own frame, below the caller's data in lookups (`C04_precedence_base`). -/
theorem C04_increment (fuel : Nat) (env : Env) (x : Str) (g data c : Obj) (core : Regs) (o : List Str)
    (hv : inI64 (counterVal [.global g, .plain data, .index c] x + 1) = true) :
    let val := counterVal [.global g, .plain data, .index c] x
    renderN (fuel + 1) env (.incr x) { layers := [.global g, .plain data, .index c], core := core } ⟨o, none⟩ =
      (.ok (), { layers := [.global g, .plain data, .index (objInsert c x (iV (val + 1)))], core := core },
       ⟨o ++ [intRepr val], none⟩) := by
  intro val
  have hne : (intRepr val).isEmpty = false := by
    unfold intRepr natDigits
    split
    · rfl
    · have := @Nat.toDigits_ne_nil 10 val.natAbs
      cases h : Nat.toDigits 10 val.natAbs <;> simp_all
  simp [renderN, M.bind, M.emit, W.write, hne, hv, val, setIndexM, Stack.setIndex, bind, Res.bind, pure, M.getSt, M.lift, M.setLayers]

/-! ### non-vacuity -/
example : Stack.tryGet [.plain [("a".toList, iV 1)], .global [("a".toList, iV 2)], .plain [("a".toList, iV 3)], .index []]
    [.str "a".toList] = some (iV 1) := by rfl
example : ([] : Stack).all (C18.passes "a".toList) = true := rfl

/-- a layer's own bindings -/
def Layer.binds : Layer → Str → Bool
  | .plain d, k | .global d, k | .index d, k | .sandbox d _, k => objContains d k

/-- **A name nobody binds does not exist**, whatever it is called — also `size`, `first`, `last`,
which objects and arrays answer as synthetic members: no frame of any kind resolves a root name it
does not itself bind, for every path that starts with it. -/
theorem C04_unbound_absent (st : Stack) (k : Sc) (p : List Sc)
    (h : ∀ l ∈ st, Layer.binds l k.render = false) :
    st.tryGet (k :: p) = none ∧ st.get (k :: p) = .err := by
  induction st with
  | nil => exact ⟨rfl, rfl⟩
  | cons l r ih =>
    have hl := h l (List.mem_cons_self)
    have hr := ih (fun l' hl' => h l' (List.mem_cons_of_mem _ hl'))
    cases l with
    | plain d => simp [Layer.binds] at hl; simp [Stack.tryGet, Stack.get, pathKey, hl, hr]
    | global d => simp [Layer.binds] at hl; simp [Stack.tryGet, Stack.get, pathKey, hl, hr]
    | index d => simp [Layer.binds] at hl; simp [Stack.tryGet, Stack.get, pathKey, hl, hr]
    | sandbox d q =>
      simp [Layer.binds] at hl
      have : objGet d k.render = none := objGet_none_of_not_contains d k.render hl
      simp [Stack.tryGet, Stack.get, pathKey, this]

/-- **A re-bound name hides the outer datum completely**: when the innermost frame binding the root
of a path is a plain, global or counter frame, the path is resolved inside that frame's value alone
— whatever the frames below hold for the same name (a member only the shadowed value has does not
exist). -/
theorem C04_shadow_hides_subpaths (d : Obj) (below below' : Stack) (k : Sc) (p : List Sc)
    (hb : objContains d k.render = true) :
    Stack.tryGet (.plain d :: below) (k :: p) = Stack.tryGet (.plain d :: below') (k :: p) ∧
    Stack.tryGet (.global d :: below) (k :: p) = Stack.tryGet (.global d :: below') (k :: p) ∧
    Stack.tryGet (.plain d :: below) (k :: p) = tryFind (.obj d) (k :: p) ∧
    Stack.get (.plain d :: below) (k :: p) = find (.obj d) (k :: p) ∧
    Stack.get (.global d :: below) (k :: p) = find (.obj d) (k :: p) := by
  simp [Stack.tryGet, Stack.get, pathKey, hb]

/-- keys of an object -/
theorem objContains_insert_other (d : Obj) (k k' : Str) (v : V) (h : objContains d k' = true) :
    objContains (objInsert d k v) k' = true := by
  induction d with
  | nil => simp [objContains] at h
  | cons kv r ih =>
    obtain ⟨k0, w⟩ := kv
    by_cases hk : k0 = k
    · subst hk
      simp only [objInsert, beq_self_eq_true, if_true]
      simp only [objContains, List.any_cons] at h ⊢
      exact h
    · have hne : (k0 == k) = false := by simpa using hk
      have hstep : objInsert ((k0, w) :: r) k v = (k0, w) :: objInsert r k v := by
        simp [objInsert, hne]
      rw [hstep]
      have h' : (k0 == k') = true ∨ objContains r k' = true := by
        simpa [objContains, List.any_cons] using h
      rcases h' with h' | h'
      · simp [objContains, List.any_cons, h']
      · have := ih h'
        simp only [objContains, List.any_cons, Bool.or_eq_true]
        exact Or.inr (by simpa [objContains] using this)

/-- **Every argument of an include / render is a binding, whatever its value** — a nil value included:
each named argument that evaluates ends up as a key of the argument frame, so inside the partial it
shadows what lower layers hold for that name (with `C04_precedence_inner`). -/
theorem C04_every_argument_binds (st : Stack) (args : List (Str × Expr)) (acc pass : Obj)
    (h : evalVars st args acc = .ok pass) :
    (∀ k, objContains acc k = true → objContains pass k = true) ∧
    (∀ kv ∈ args, objContains pass kv.1 = true) := by
  induction args generalizing acc with
  | nil =>
    simp only [evalVars, Res.ok.injEq] at h
    subst h
    exact ⟨fun _ hk => hk, fun kv hkv => by simp at hkv⟩
  | cons a r ih =>
    obtain ⟨k, e⟩ := a
    simp only [evalVars] at h
    cases hv : e.tryEval st with
    | none => simp [hv] at h
    | some v =>
      simp only [hv] at h
      obtain ⟨ih1, ih2⟩ := ih (objInsert acc k v) h
      refine ⟨fun k' hk' => ih1 k' (objContains_insert_other acc k k' v hk'), ?_⟩
      intro kv hkv
      simp only [List.mem_cons] at hkv
      rcases hkv with rfl | hkv
      · exact ih1 k (C18.objInsert_contains acc k v)
      · exact ih2 kv hkv

end Liquid.C04
