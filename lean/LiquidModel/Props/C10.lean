/-
  C10 — a failing output sink produces an error and a clean prefix, never a panic.
  Model: the render monad of `Model/Render.lean` (`W`, `W.write`, `M.emit`); the simulation lemma
  `renderT_sinkOk` (`Lemmas/Sink.lean`) is proved for every template by the interpreter induction.
-/
import LiquidModel.Lemmas.Sink
import LiquidModel.Generated.WriteSites
namespace Liquid.C10
open Liquid

/-- a sink that has accepted nothing yet and accepts `k` more writes / never fails -/
def sinkK (k : Nat) : W := { out := [], budget := some k }
def sinkInf : W := { out := [], budget := none }

/-- **Prefix theorem.** For every template, partial store, data (start runtime) and every `k`:
let `δ` be the fragments the fault-free run writes. If the sink fails at write `k + 1 ≤ |δ|`, the
streaming render returns the sink error, exactly the first `k` fragments were accepted, and
nothing is written afterwards (the sink is left exhausted with that prefix). If the sink would
only fail later than the render writes, outcome, final state and output are those of the
fault-free run. -/
theorem C10_prefix (env : Env) (fuel : Nat) (t : Tmpl) (rt : Rt) (k : Nat) :
    ∃ (r : Res Unit) (rt' : Rt) (δ : List Str),
      renderT fuel env t rt sinkInf = (r, rt', { out := δ, budget := none }) ∧
      (δ.length ≤ k → renderT fuel env t rt (sinkK k) = (r, rt', { out := δ, budget := some (k - δ.length) })) ∧
      (k < δ.length → ∃ rt'', renderT fuel env t rt (sinkK k) = (.io, rt'', { out := δ.take k, budget := some 0 })) := by
  obtain ⟨r, rt', δ, h1, h2, h3⟩ := renderT_sinkOk env fuel t rt
  refine ⟨r, rt', δ, ?_, ?_, ?_⟩
  · simpa [sinkInf] using h1 []
  · intro hk; simpa [sinkK] using h2 [] k hk
  · intro hk
    obtain ⟨rt'', h⟩ := h3 [] k hk
    exact ⟨rt'', by simpa [sinkK] using h⟩

/-- **What the sink accepted is always a prefix of the fault-free output** — as fragments and as
text — whatever `k`. -/
theorem C10_accepted_is_prefix (env : Env) (fuel : Nat) (t : Tmpl) (rt : Rt) (k : Nat) :
    (renderT fuel env t rt (sinkK k)).2.2.out <+: (renderT fuel env t rt sinkInf).2.2.out ∧
    (renderT fuel env t rt (sinkK k)).2.2.text <+: (renderT fuel env t rt sinkInf).2.2.text := by
  obtain ⟨r, rt', δ, h1, h2, h3⟩ := C10_prefix env fuel t rt k
  by_cases hk : δ.length ≤ k
  · rw [h1, h2 hk]; exact ⟨List.prefix_refl _, List.prefix_refl _⟩
  · obtain ⟨rt'', h⟩ := h3 (by omega)
    rw [h1, h]
    refine ⟨List.take_prefix _ _, ?_⟩
    simp only [W.text]
    obtain ⟨s, hs⟩ := List.take_prefix k δ
    exact ⟨s.flatten, by rw [← List.flatten_append, hs]⟩

/-- **A failing sink is an error, never success and never a panic**: when the sink gives up
before the render is done, the result is the sink's error. -/
theorem C10_failure_is_error (env : Env) (fuel : Nat) (t : Tmpl) (rt : Rt) (k : Nat)
    (hk : k < (renderT fuel env t rt sinkInf).2.2.out.length) :
    (renderT fuel env t rt (sinkK k)).1 = .io := by
  obtain ⟨r, rt', δ, h1, _, h3⟩ := C10_prefix env fuel t rt k
  rw [h1] at hk
  obtain ⟨rt'', h⟩ := h3 hk
  rw [h]

/-- **Streamed = buffered.** With a sink that never fails, the text streamed is exactly the string
the buffering `render` returns (and both fail alike). -/
theorem C10_stream_eq_buffer (env : Env) (fuel : Nat) (t : Tmpl) (globals : Obj) (s : Str) :
    renderTop fuel env t globals = .ok s ↔
      ((renderT fuel env t (Rt.build globals) sinkInf).1 = .ok () ∧
       (renderT fuel env t (Rt.build globals) sinkInf).2.2.text = s) := by
  unfold renderTop sinkInf
  rcases renderT fuel env t (Rt.build globals) {} with ⟨r, rt', w⟩
  cases r <;> simp

/-- **Short writes.** If the sink accepts only part `p` of the fragment at which it then fails, the
bytes it holds are still a prefix of the fault-free output. -/
theorem C10_short_write (δ : List Str) (k : Nat) (p frag : Str) (hk : δ[k]? = some frag) (hp : p <+: frag) :
    (δ.take k).flatten ++ p <+: δ.flatten := by
  obtain ⟨q, hq⟩ := hp
  have hlt : k < δ.length := by
    rcases Nat.lt_or_ge k δ.length with h | h
    · exact h
    · rw [List.getElem?_eq_none h] at hk; cases hk
  have hsplit : δ = δ.take k ++ frag :: δ.drop (k + 1) := by
    have := List.getElem?_eq_some_iff.mp hk
    obtain ⟨_, hget⟩ := this
    rw [← hget]
    exact (List.take_append_drop k δ).symm.trans (by rw [List.drop_eq_getElem_cons hlt])
  refine ⟨q ++ (δ.drop (k + 1)).flatten, ?_⟩
  have hflat : δ.flatten = (δ.take k).flatten ++ (frag ++ (δ.drop (k + 1)).flatten) := by
    conv => lhs; rw [hsplit]
    simp [List.flatten_append]
  rw [hflat, ← hq]
  simp [List.append_assoc]

/-- Writes that carry no bytes (empty fragments) make no `write` call: they neither fail nor count. -/
theorem C10_empty_write_is_free (w : W) : w.write [] = some w := by
  simp [W.write]

/-- **Every write site propagates the sink's error.** The table is regenerated from /repo's sources
on every run (tools/extract.py): each `write!(writer, …)` in a stdlib/core `render_to` is followed
by `.replace("Failed to render")?` — the syntactic fact the model's `M.emit` relies on. -/
theorem C10_write_sites_propagate :
    Generated.writeSites.all (·.propagated) = true ∧ 10 ≤ Generated.writeSites.length := by
  decide

/-! ### non-vacuity: a concrete template whose sink fails in the middle -/
example :
    (renderT 4 {} [.text "ab".toList, .text "cd".toList, .text "ef".toList] (Rt.build []) (sinkK 1)).1 = .io ∧
    (renderT 4 {} [.text "ab".toList, .text "cd".toList, .text "ef".toList] (Rt.build []) (sinkK 1)).2.2.out
      = ["ab".toList] := by
  constructor <;> rfl

end Liquid.C10
