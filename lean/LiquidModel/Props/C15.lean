/-
  C15 — arithmetic filters are exact or fail; they never wrap or crash.
  Property theorems only (plus non-vacuity examples).  Model: `Model/Math.lean` = filters/math.rs with
  patch `patches/C15-checked-int-arith.diff` (D6) applied; the pinned code is `IntArith.old`.
  Helper lemmas: `Lemmas/C15.lean`.
-/
import LiquidModel.Lemmas.C15
import LiquidModel.Props.C07
namespace Liquid.C15
open Liquid

/-- the mathematical (unbounded) result of the three ring operations -/
def mathResult : MathOp → Int → Int → Int
  | .plus, a, b => a + b
  | .minus, a, b => a - b
  | .times, a, b => a * b
  | _, _, _ => 0

/-- **Exact or not an integer** (plus, minus, times).  For operands that read as integers (integer
scalars and strings that `parse::<i64>` accepts): when the mathematical result fits in 64 bits the
filter returns exactly that integer; otherwise it is an error or a float — in particular never a
different (wrapped) integer and never a panic. -/
theorem C15_int_exact (ops : FloatOps) (op : MathOp) (hop : op = .plus ∨ op = .minus ∨ op = .times)
    (x y : Sc) (a b : Int) (hx : x.toInteger? = some a) (hy : y.toInteger? = some b) :
    (inI64 (mathResult op a b) = true →
        binScalars .new ops op x y = .ok (intV (mathResult op a b))) ∧
    (inI64 (mathResult op a b) = false →
        binScalars .new ops op x y = .err ∨ ∃ f, binScalars .new ops op x y = .ok (fltV f)) := by
  have hfp := floatPath_cases ops op x y
  rcases hop with h | h | h <;> subst h <;>
    simp only [binScalars, MathOp.isDiv, Bool.false_and, hx, hy, IntArith.new, arithNew, mathResult,
      checkedAdd, checkedSub, checkedMul] <;>
    constructor <;> intro hm <;> simp [hm] <;> exact hfp

/-- With integer *scalars* the overflow case continues in floating point with the IEEE operation
on the converted operands (glue: the operation itself is the external `ops`). -/
theorem C15_int_overflow_continues_in_float (ops : FloatOps) (op : MathOp)
    (hop : op = .plus ∨ op = .minus ∨ op = .times) (a b : Int)
    (hm : inI64 (mathResult op a b) = false) :
    binFilter .new ops op (intV a) [intV b] = .ok (fltV (binFlt ops op (f64OfInt a) (f64OfInt b))) := by
  rcases hop with h | h | h <;> subst h <;>
    simp only [mathResult] at hm <;>
    simp [binFilter, intV, V.asScalar?, binScalars, MathOp.isDiv, Sc.toInteger?, IntArith.new, arithNew,
      checkedAdd, checkedSub, checkedMul, hm, floatPath, Sc.toFloatBits?]

/-- at_least / at_most on integer operands are exactly max / min (always representable). -/
theorem C15_int_exact_minmax (ops : FloatOps) (x y : Sc) (a b : Int)
    (hx : x.toInteger? = some a) (hy : y.toInteger? = some b) :
    binScalars .new ops .atLeast x y = .ok (intV (max a b)) ∧
    binScalars .new ops .atMost x y = .ok (intV (min a b)) := by
  simp [binScalars, MathOp.isDiv, hx, hy, IntArith.new, arithNew]

/-- abs on an integer operand: `|a|` when it fits (i.e. `a ≠ i64::MIN`), else an error or a float. -/
theorem C15_int_exact_abs (x : Sc) (a : Int) (hx : x.toInteger? = some a) (ha : inI64 a = true) :
    (inI64 ((a.natAbs : Int)) = true → absScalar .new x = .ok (intV ((a.natAbs : Int)))) ∧
    (inI64 ((a.natAbs : Int)) = false →
        absScalar .new x = .err ∨ ∃ f, absScalar .new x = .ok (fltV f)) := by
  have hmin : a = i64Min ↔ inI64 ((a.natAbs : Int)) = false := by
    rw [inI64_false_iff]; rw [inI64_iff] at ha
    unfold i64Min i64Max at *; omega
  constructor
  · intro h
    have : ¬ a = i64Min := by rw [hmin]; simp [h]
    simp [absScalar, hx, IntArith.new, absNew, checkedAbs, this]
  · intro h
    have : a = i64Min := hmin.mpr h
    simp only [absScalar, hx, IntArith.new, absNew, checkedAbs, this]
    simp only [if_true]
    cases x.toFloatBits? with
    | none => exact Or.inl rfl
    | some f => exact Or.inr ⟨_, rfl⟩

/-- `i64::MIN | abs` continues in floating point: `|−2^63|` as a double. -/
theorem C15_abs_min (ops : FloatOps) :
    (mathFilters ops "abs".toList).map (fun f => f (intV i64Min) []) =
      some (.ok (fltV (fAbs (f64OfInt i64Min)))) := by
  rfl

/-- **Division identity.**  Integer operands, non-zero divisor: `modulo` always yields the integer
remainder; unless the quotient is the unrepresentable `MIN / -1`, `divided_by` yields the integer
quotient, and `a = q·b + r` with `|r| < |b|`; both stay within 64 bits. -/
theorem C15_divmod (ops : FloatOps) (x y : Sc) (a b : Int)
    (hx : x.toInteger? = some a) (hy : y.toInteger? = some b)
    (ha : inI64 a = true) (hb : b ≠ 0) :
    ∃ r : Int, binScalars .new ops .modulo x y = .ok (intV r) ∧ r.natAbs < b.natAbs ∧ inI64 r = true ∧
      (¬(a = i64Min ∧ b = -1) →
        ∃ q : Int, binScalars .new ops .dividedBy x y = .ok (intV q) ∧ inI64 q = true ∧ a = q * b + r) := by
  have hz : zeroGuard y = false := by simp [zeroGuard, hy, hb]
  refine ⟨a.tmod b, ?_, tmod_natAbs_lt a b hb, tmod_inI64 a b ha, ?_⟩
  · by_cases hmin : a = i64Min ∧ b = -1
    · obtain ⟨h1, h2⟩ := hmin
      subst h1 h2
      simp [binScalars, MathOp.isDiv, hz, hx, hy, IntArith.new, arithNew, wrappingRem, Res.bind, i64Min]
    · simp [binScalars, MathOp.isDiv, hz, hx, hy, IntArith.new, arithNew, wrappingRem, Res.bind, hb, hmin]
  · intro hmin
    refine ⟨a.tdiv b, ?_, tdiv_inI64 a b ha hmin hb, ?_⟩
    · simp [binScalars, MathOp.isDiv, hz, hx, hy, IntArith.new, arithNew, checkedDiv, hb, hmin]
    · have := Int.tmod_add_tdiv_mul a b
      omega

/-- The one pair whose quotient does not fit: `MIN | divided_by: -1` is an error or a float (with
integer scalars: `MIN as f64 / -1.0`), and `MIN | modulo: -1` is exactly `0`. -/
theorem C15_divmod_min_neg_one (ops : FloatOps) :
    binFilter .new ops .dividedBy (intV i64Min) [intV (-1)] =
        .ok (fltV (ops.div (f64OfInt i64Min) (f64OfInt (-1)))) ∧
    binFilter .new ops .modulo (intV i64Min) [intV (-1)] = .ok (intV 0) := by
  constructor <;> rfl

/-- **Division by zero is an error**, whatever the input is: integer `0`, a string spelling it,
or a float zero of either sign. -/
theorem C15_div_zero (ops : FloatOps) (op : MathOp) (hop : op = .dividedBy ∨ op = .modulo) (x y : Sc)
    (hy : y.toInteger? = some 0 ∨ (y.toInteger? = none ∧ ∃ f, y.toFloatBits? = some f ∧ fIsZero f = true)) :
    binScalars .new ops op x y = .err := by
  have hz : zeroGuard y = true := by
    rcases hy with h | ⟨h, f, hf, hf0⟩
    · simp [zeroGuard, h]
    · simp [zeroGuard, h, hf, hf0]
  rcases hop with h | h <;> subst h <;> simp [binScalars, MathOp.isDiv, hz]

example : (Sc.str "0".toList).toInteger? = some 0 := by decide
example : fIsZero (2^63) = true ∧ fIsZero 0 = true := by decide

/-! ### never a crash -/

/-- The eleven filters, by name. -/
theorem C15_filter_table (ar : IntArith) (ops : FloatOps) :
    mathFiltersWith ar ops "abs".toList = some (absFilter ar) ∧
    mathFiltersWith ar ops "at_least".toList = some (binFilter ar ops .atLeast) ∧
    mathFiltersWith ar ops "at_most".toList = some (binFilter ar ops .atMost) ∧
    mathFiltersWith ar ops "plus".toList = some (binFilter ar ops .plus) ∧
    mathFiltersWith ar ops "minus".toList = some (binFilter ar ops .minus) ∧
    mathFiltersWith ar ops "times".toList = some (binFilter ar ops .times) ∧
    mathFiltersWith ar ops "divided_by".toList = some (binFilter ar ops .dividedBy) ∧
    mathFiltersWith ar ops "modulo".toList = some (binFilter ar ops .modulo) ∧
    mathFiltersWith ar ops "round".toList = some (roundFilter ops) ∧
    mathFiltersWith ar ops "ceil".toList = some (toI64Filter ceilQ) ∧
    mathFiltersWith ar ops "floor".toList = some (toI64Filter floorQ) := by
  refine ⟨?_, ?_, ?_, ?_, ?_, ?_, ?_, ?_, ?_, ?_, ?_⟩ <;> rfl

/-- **Never a crash**: no math filter of the repaired code reaches a panic site, for any input
value, any arguments and any behaviour of the external float operations. -/
theorem C15_never_panics (ops : FloatOps) (name : Str) (f : V → List V → Res V)
    (hf : mathFilters ops name = some f) (input : V) (args : List V) :
    (f input args).isPanic = false := by
  rcases filter_cases .new ops name f hf with h | ⟨op, h⟩ | h | h | h <;> subst h
  · exact absFilter_no_panic input args
  · exact binFilter_no_panic ops op input args
  · exact roundFilter_no_panic ops input args
  · exact toI64Filter_no_panic _ input args
  · exact toI64Filter_no_panic _ input args

/-- The code at the pinned commit (D6) does crash (overflow-checks; a release build without them
returns the wrapped value instead, `MIN / -1` and `MIN % -1` abort in every build).  Replayed on the
implementation by the `corpus` cases of the harness. -/
theorem C15_int_exact_old_counterexample (ops : FloatOps) :
    binFilter .old ops .plus (intV i64Max) [intV 1] = .panic "attempt to add with overflow" ∧
    binFilter .old ops .minus (intV i64Min) [intV 1] = .panic "attempt to subtract with overflow" ∧
    binFilter .old ops .times (intV i64Max) [intV 2] = .panic "attempt to multiply with overflow" ∧
    absFilter .old (intV i64Min) [] = .panic "attempt to negate with overflow" := by
  refine ⟨?_, ?_, ?_, ?_⟩ <;> rfl

theorem C15_divmod_old_counterexample (ops : FloatOps) :
    binFilter .old ops .dividedBy (intV i64Min) [intV (-1)] = .panic "attempt to divide with overflow" ∧
    binFilter .old ops .modulo (intV i64Min) [intV (-1)] =
      .panic "attempt to calculate the remainder with overflow" := by
  constructor <;> rfl

/-- Where no overflow occurs the repair changes nothing: old and new integer arithmetic agree. -/
theorem C15_repair_conservative (op : MathOp) (a b : Int) (r : Int)
    (h : arithOld op a b = .ok (some r)) : arithNew op a b = .ok (some r) := by
  cases op <;> simp only [arithOld, arithNew, checkedAdd, checkedSub, checkedMul, checkedDiv] at *
  · by_cases hc : inI64 (a + b) = true <;> simp_all
  · by_cases hc : inI64 (a - b) = true <;> simp_all
  · by_cases hc : inI64 (a * b) = true <;> simp_all
  · by_cases hb : b = 0 <;> by_cases hm : (a = i64Min ∧ b = -1) <;> simp_all
  · by_cases hb : b = 0 <;> by_cases hm : (a = i64Min ∧ b = -1) <;>
      simp only [hb, hm, wrappingRem, Res.bind, if_true, if_false] at h ⊢ <;> first | exact h | simp_all
  · exact h
  · exact h

/-! ### float operands (glue) -/

/-- A float scalar never takes the integer path, and reads as itself. -/
theorem C15_float_operand (f : Fl) :
    (Sc.flt f).toInteger? = none ∧ (Sc.flt f).toFloatBits? = some f.bits := ⟨rfl, rfl⟩

/-- **Float path.**  If one operand does not read as an integer (e.g. it is a float) and both read
as floats, the result is the float operation on the two doubles — unless the zero-divisor guard of
divided_by / modulo fires. -/
theorem C15_float_glue (ops : FloatOps) (op : MathOp) (x y : Sc) (fx fy : Nat)
    (hint : x.toInteger? = none ∨ y.toInteger? = none)
    (hfx : x.toFloatBits? = some fx) (hfy : y.toFloatBits? = some fy)
    (hz : op.isDiv = true → zeroGuard y = false) :
    binScalars .new ops op x y = .ok (fltV (binFlt ops op fx fy)) := by
  have hg : (op.isDiv && zeroGuard y) = false := by
    cases h : op.isDiv with
    | false => rfl
    | true => simp [hz h]
  unfold binScalars
  simp only [hg, Bool.false_eq_true, if_false]
  rcases hint with h | h
  · simp [h, floatPath, hfx, hfy]
  · cases hx : x.toInteger? <;> simp [h, floatPath, hfx, hfy]

/-- which double operation each filter applies: the external IEEE `+ − × ÷ %`, and max/min. -/
theorem C15_float_ops (ops : FloatOps) (a b : Nat) :
    binFlt ops .plus a b = ops.add a b ∧ binFlt ops .minus a b = ops.sub a b ∧
    binFlt ops .times a b = ops.mul a b ∧ binFlt ops .dividedBy a b = ops.div a b ∧
    binFlt ops .modulo a b = ops.rem a b ∧ binFlt ops .atLeast a b = fMax a b ∧
    binFlt ops .atMost a b = fMin a b := ⟨rfl, rfl, rfl, rfl, rfl, rfl, rfl⟩

/-- at_least / at_most on doubles: one of the operands, not below (above) either of them; a NaN
input is replaced by the operand, a NaN operand is ignored. -/
theorem C15_float_minmax (a b : Nat) (ha : fIsNaN a = false) :
    (fMax a b = a ∨ fMax a b = b) ∧ fLt (fMax a b) a = false ∧ fLt (fMax a b) b = false ∧
    (fMin a b = a ∨ fMin a b = b) ∧ fLt a (fMin a b) = false ∧ fLt b (fMin a b) = false := by
  unfold fMax fMin
  simp only [ha, Bool.false_eq_true, if_false]
  refine ⟨?_, ?_, ?_, ?_, ?_, ?_⟩
  · split <;> simp
  · split
    · rename_i h; exact fLt_asymm a b h
    · exact fLt_irrefl a
  · split
    · exact fLt_irrefl b
    · rename_i h; simpa using h
  · split <;> simp
  · split
    · rename_i h; exact fLt_asymm b a h
    · exact fLt_irrefl a
  · split
    · exact fLt_irrefl b
    · rename_i h; simpa using h

theorem C15_float_minmax_nan (a b : Nat) (ha : fIsNaN a = true) : fMax a b = b ∧ fMin a b = b := by
  simp [fMax, fMin, ha]

/-- abs of a double clears the sign bit. -/
theorem C15_float_abs (f : Fl) : absFilter .new (.sc (.flt f)) [] = .ok (fltV (f.bits % 2^63)) := rfl

/-! ### floor, ceil, round -/

/-- **floor**: for an operand that reads as a double `q/2^1074` within the 64-bit range the
result is the integer `r` with `r ≤ f < r + 1`. -/
theorem C15_floor (x : Sc) (b : Nat) (q : Int) (hni : x.toInteger? = none)
    (hx : x.toFloatBits? = some b) (hq : fv b = .fin q)
    (hlo : i64Min * fUnit ≤ q) (hhi : q ≤ i64Max * fUnit) :
    ∃ r : Int, toI64Filter floorQ (.sc x) [] = .ok (intV r) ∧ r * fUnit ≤ q ∧ q < (r + 1) * fUnit := by
  have hr := floorQ_range q hlo hhi
  refine ⟨floorQ q, ?_, floor_spec q fUnit fUnit_pos⟩
  simp [toI64Filter, V.asScalar?, hni, hx, fToI64, hq, satI64_of_in _ hr.1 hr.2]

/-- **ceil**: `r − 1 < f ≤ r`. -/
theorem C15_ceil (x : Sc) (b : Nat) (q : Int) (hni : x.toInteger? = none)
    (hx : x.toFloatBits? = some b) (hq : fv b = .fin q)
    (hlo : i64Min * fUnit ≤ q) (hhi : q ≤ i64Max * fUnit) :
    ∃ r : Int, toI64Filter ceilQ (.sc x) [] = .ok (intV r) ∧ (r - 1) * fUnit < q ∧ q ≤ r * fUnit := by
  have hr := ceilQ_range q hlo hhi
  refine ⟨ceilQ q, ?_, ceil_spec q fUnit fUnit_pos⟩
  simp [toI64Filter, V.asScalar?, hni, hx, fToI64, hq, satI64_of_in _ hr.1 hr.2]

/-- **round** (no argument, or a decimal-places argument `n ≤ 0`): the nearest integer,
`|f − r| ≤ 1/2`, and on a tie the one away from zero. -/
theorem C15_round (ops : FloatOps) (x : Sc) (b : Nat) (q : Int) (args : List V)
    (hargs : args = [] ∨ ∃ n : Int, n ≤ 0 ∧ args = [intV n]) (hni : x.toInteger? = none)
    (hx : x.toFloatBits? = some b) (hq : fv b = .fin q)
    (hlo : i64Min * fUnit ≤ q) (hhi : q ≤ i64Max * fUnit) :
    ∃ r : Int, roundFilter ops (.sc x) args = .ok (intV r) ∧
      -fUnit ≤ 2 * (q - r * fUnit) ∧ 2 * (q - r * fUnit) ≤ fUnit ∧
      (2 * (q - r * fUnit) = fUnit → q < 0) ∧ (2 * (q - r * fUnit) = -fUnit → 0 ≤ q) := by
  have hr := roundQ_range q hlo hhi
  refine ⟨roundQ q, ?_, ?_⟩
  · rcases hargs with h | ⟨n, hn, h⟩
    · subst h
      simp [roundFilter, roundGo, V.asScalar?, hni, hx, fToI64, hq, satI64_of_in _ hr.1 hr.2]
    · subst h
      have hint : (Sc.int n).toInteger? = some n := rfl
      simp [roundFilter, roundGo, intV, V.asScalar?, hint, hni, hx, fToI64, hq, satI64_of_in _ hr.1 hr.2, hn]
  · unfold roundQ
    split
    · rename_i h0
      have := round_spec_nonneg q fUnit fUnit_pos h0
      simp only at this
      omega
    · rename_i h0
      have := round_spec_neg q fUnit fUnit_pos (by omega)
      simp only at this
      omega

/-- **Every float within the 64-bit range** (`−2^63 ≤ f < 2^63`) satisfies the range hypotheses
above (the largest double below `2^63` is `2^63 − 1024`), so for every such float operand floor,
ceil and round return the neighbouring integer in the documented direction. -/
theorem C15_floor_ceil_round (ops : FloatOps) (f : Fl) (q : Int) (hq : fv f.bits = .fin q)
    (hlo : -(2^63) * fUnit ≤ q) (hhi : q < 2^63 * fUnit) :
    (∃ r : Int, toI64Filter floorQ (.sc (.flt f)) [] = .ok (intV r) ∧ r * fUnit ≤ q ∧ q < (r + 1) * fUnit) ∧
    (∃ r : Int, toI64Filter ceilQ (.sc (.flt f)) [] = .ok (intV r) ∧ (r - 1) * fUnit < q ∧ q ≤ r * fUnit) ∧
    (∃ r : Int, roundFilter ops (.sc (.flt f)) [] = .ok (intV r) ∧
      -fUnit ≤ 2 * (q - r * fUnit) ∧ 2 * (q - r * fUnit) ≤ fUnit ∧
      (2 * (q - r * fUnit) = fUnit → q < 0) ∧ (2 * (q - r * fUnit) = -fUnit → 0 ≤ q)) := by
  have h1 : i64Min * fUnit ≤ q := hlo
  have h2 : q ≤ i64Max * fUnit := float_range f.bits q hq hhi
  exact ⟨C15_floor (.flt f) f.bits q rfl rfl hq h1 h2, C15_ceil (.flt f) f.bits q rfl rfl hq h1 h2,
    C15_round ops (.flt f) f.bits q [] (Or.inl rfl) rfl rfl hq h1 h2⟩

/-- **A whole number is its own floor, ceiling and rounding** — for every 64-bit integer and every
string that spells one, also beyond 2^53 where `f64` cannot represent it (after the `fix:` commit;
the filters used to convert every input to `f64` first: `9223372036854775806 | floor` printed
`9223372036854775807`). -/
theorem C15_whole_fixed (ops : FloatOps) (x : Sc) (i : Int) (hi : x.toInteger? = some i) :
    toI64Filter floorQ (.sc x) [] = .ok (intV i) ∧ toI64Filter ceilQ (.sc x) [] = .ok (intV i) ∧
    roundFilter ops (.sc x) [] = .ok (intV i) ∧
    (∀ n : Int, n ≤ 0 → roundFilter ops (.sc x) [intV n] = .ok (intV i)) := by
  refine ⟨?_, ?_, ?_, ?_⟩
  · simp [toI64Filter, V.asScalar?, hi]
  · simp [toI64Filter, V.asScalar?, hi]
  · simp [roundFilter, roundGo, V.asScalar?, hi]
  · intro n hn
    have hint : (Sc.int n).toInteger? = some n := rfl
    simp [roundFilter, roundGo, intV, V.asScalar?, hint, hi, hn]

example (ops : FloatOps) : toI64Filter floorQ (.sc (.int 9223372036854775806)) [] = .ok (intV 9223372036854775806) ∧
    roundFilter ops (.sc (.str "9007199254740993".toList)) [] = .ok (intV 9007199254740993) := by
  constructor
  · rfl
  · exact (C15_whole_fixed ops _ 9007199254740993 (by decide)).2.2.1

/-- Outside the 64-bit range the cast saturates, NaN becomes 0 — still a value, never a crash. -/
theorem C15_round_saturates (mode : Int → Int) (b : Nat) :
    (fv b = .nan → fToI64 mode b = 0) ∧ (fv b = .pinf → fToI64 mode b = i64Max) ∧
    (fv b = .ninf → fToI64 mode b = i64Min) ∧ inI64 (fToI64 mode b) = true := by
  refine ⟨fun h => by simp [fToI64, h], fun h => by simp [fToI64, h], fun h => by simp [fToI64, h], ?_⟩
  unfold fToI64
  split <;> try decide
  unfold satI64
  rw [inI64_iff]
  split
  · decide
  · split
    · decide
    · omega

example : fv 0x4004000000000000 = .fin (5 * 2^1073) := by decide +kernel   -- 2.5
example : fToI64 roundQ 0x4004000000000000 = 3 ∧ fToI64 roundQ 0xC004000000000000 = -3 ∧
    fToI64 floorQ 0xC004000000000000 = -3 ∧ fToI64 ceilQ 0xC004000000000000 = -2 := by decide +kernel

/-- Observation outside the property's statement (which speaks of *float* operands): integer inputs
are converted to double first, as the code does, so beyond 2^53 they lose precision and
`MAX − 1 | floor` saturates to `MAX`. -/
example : fToI64 floorQ (f64OfInt (2^53 + 1)) = 2^53 ∧ fToI64 floorQ (f64OfInt (i64Max - 1)) = i64Max := by
  decide +kernel

/-- `i64 as f64` of this model agrees with the conversion used by the comparison model
(`FV.ofI64`, Value.lean) on the boundary values. -/
example : [0, 1, -1, 7, 2^31, -(2^62), i64Max - 1, i64Max, i64Min, i64Min + 1, 2^53 + 1, -(2^53) - 1, 3037000499].all
    (fun x => fv (f64OfInt x) == FV.ofI64 x) = true := by decide +kernel

/-! ### numeric strings -/

/-- **Numeric strings behave like the numbers they spell** (integers): the decimal spelling of a
64-bit integer reads, through `parse::<i64>` and `parse::<f64>`, as that integer and as its
conversion to double. -/
theorem C15_numeric_strings (n : Int) (hn : inI64 n = true) :
    (Sc.str (intRepr n)).toInteger? = some n ∧
    (Sc.str (intRepr n)).toFloatBits? = (Sc.int n).toFloatBits? :=
  ⟨parseI64_intRepr n hn, parseF64_intRepr n⟩

/-- The filters see a scalar only through its two numeric readings: operands with the same
readings give the same result (binary filters). -/
theorem C15_coercion_congr (ar : IntArith) (ops : FloatOps) (op : MathOp) (x x' y y' : Sc)
    (hxi : x.toInteger? = x'.toInteger?) (hxf : x.toFloatBits? = x'.toFloatBits?)
    (hyi : y.toInteger? = y'.toInteger?) (hyf : y.toFloatBits? = y'.toFloatBits?) :
    binFilter ar ops op (.sc x) [.sc y] = binFilter ar ops op (.sc x') [.sc y'] := by
  unfold binFilter binScalars zeroGuard floatPath
  simp only [V.asScalar?]
  rw [hxi, hxf, hyi, hyf]

/-- … and the unary ones (`round` also with its decimal-places argument). -/
theorem C15_coercion_congr_unary (ar : IntArith) (ops : FloatOps) (x x' : Sc) (args : List V)
    (hxi : x.toInteger? = x'.toInteger?) (hxf : x.toFloatBits? = x'.toFloatBits?) (mode : Int → Int) :
    absFilter ar (.sc x) args = absFilter ar (.sc x') args ∧
    toI64Filter mode (.sc x) args = toI64Filter mode (.sc x') args ∧
    roundFilter ops (.sc x) args = roundFilter ops (.sc x') args := by
  simp only [absFilter, absScalar, toI64Filter, roundFilter, roundGo, V.asScalar?, hxi, hxf, and_self]

/-- Hence e.g. `"7" | plus: "-3"` is `7 | plus: -3`, for all 64-bit integers and every binary filter. -/
theorem C15_numeric_strings_behave (ar : IntArith) (ops : FloatOps) (op : MathOp) (n m : Int)
    (hn : inI64 n = true) (hm : inI64 m = true) :
    binFilter ar ops op (.sc (.str (intRepr n))) [.sc (.str (intRepr m))] =
      binFilter ar ops op (intV n) [intV m] := by
  have h1 := C15_numeric_strings n hn
  have h2 := C15_numeric_strings m hm
  exact C15_coercion_congr ar ops op _ _ _ _ h1.1 h1.2 h2.1 h2.2

/-- Float spellings (partial): a string that `parse::<i64>` rejects and `parse::<f64>` reads as the
double `b` behaves, in every binary filter and on either side, exactly like the float `b`.
Missing for the full statement: that `parseF64` (correctly rounded decimal → binary64, validated
against the implementation on every string case) returns the double a given *printer* spelled —
float printing is external (DESIGN 4.3). -/
theorem C15_numeric_strings_float_partial (ar : IntArith) (ops : FloatOps) (op : MathOp) (s : Str) (b : Nat) (z : Sc)
    (hi : parseI64 s = none) (hf : parseF64 s = some b) :
    binFilter ar ops op (.sc (.str s)) [.sc z] = binFilter ar ops op (.sc (.flt { bits := b })) [.sc z] ∧
    binFilter ar ops op (.sc z) [.sc (.str s)] = binFilter ar ops op (.sc z) [.sc (.flt { bits := b })] :=
  ⟨C15_coercion_congr ar ops op _ _ _ _ hi hf rfl rfl, C15_coercion_congr ar ops op _ _ _ _ rfl rfl hi hf⟩

example : parseI64 "2.5".toList = none ∧ parseF64 "2.5".toList = some 0x4004000000000000 := by decide

example : (Sc.str "-42".toList).toInteger? = some (-42) := by decide
example : parseF64 "2.5".toList = some 0x4004000000000000 := by decide
example : parseF64 "-1e-2x".toList = none ∧ parseF64 "1e".toList = none ∧ parseF64 ".".toList = none := by decide

/-- **An explicit `+` does not change the number a string spells**: `"+N"` and `"N"` denote the same
integer for every N in range (so `"+7" | divided_by: 2` is integer arithmetic like `7 | divided_by: 2`). -/
theorem C15_plus_spelling (n : Nat) (h : inI64 n = true) :
    (Sc.str ('+' :: natDigits n)).toInteger? = some (n : Int) ∧
    (Sc.str (natDigits n)).toInteger? = some (n : Int) := by
  have h2 := C07.parseI64_natDigits n h
  refine ⟨?_, by simpa [Sc.toInteger?] using h2⟩
  simp only [Sc.toInteger?]
  -- `parseI64 ('+' :: r)` runs the same digit loop as `parseI64 r` when `r` starts with a digit
  have hne := C07.natDigits_ne_nil n
  have hd := C07.natDigits_isDigit n
  unfold parseI64 at h2 ⊢
  cases hr : natDigits n with
  | nil => exact absurd hr hne
  | cons c r =>
    have hc : c.isDigit = true := hd c (by rw [hr]; exact List.mem_cons_self)
    have h1 : c ≠ '-' := by intro e; subst e; simp [Char.isDigit] at hc
    have h3 : c ≠ '+' := by intro e; subst e; simp [Char.isDigit] at hc
    rw [hr] at h2
    simpa [h1, h3] using h2

end Liquid.C15
