/-
  C09 — rendering is repeatable: no state survives from one render into another.
  Model: `renderTop` (`src/template.rs`: a fresh runtime per call), the lazy partial cache
  (`Model/Partials.lean`) — the only state a parser threads between renders.
-/
import LiquidModel.Props.C19
import LiquidModel.Lemmas.Scope
namespace Liquid.C09
open Liquid

/-- one render call on a parser with a lazy store in state `σ`; returns the result and a store
state after it — any state at all that the cache invariant allows (the set of names a render
touches is irrelevant to the theorems, which hold for every such state) -/
def renderOn (src : PSrc) (c : Compile) (filters : Str → Option (V → List V → Res V)) (fuel : Nat)
    (σ : Cache) (t : Tmpl) (globals : Obj) : Res Str :=
  renderTop fuel (lazyEnv src c σ filters) t globals

/-- **Cache invariant** (inductive over every history): the lazy cache only holds compilations
of the source of their key; it holds initially and every `get` — hit, miss, failure — keeps it. -/
theorem C09_cache_inv (src : PSrc) (c : Compile) :
    C19.Inv src c [] ∧
    ∀ σ name, C19.Inv src c σ → C19.Inv src c (lazyGet src c σ name).2 :=
  ⟨C19.inv_nil src c, fun σ name h => (C19.C19_lazy_correct src c σ name h).2⟩

/-- **History freedom.** Whatever was rendered before — any number of renders of any templates
with any data, successful or failed, leaving the store in any state `σ` the invariant allows —
a render gives exactly what the same (template, data) gives on a freshly built parser (`σ = []`),
which is a function of the template, the partial sources and the data alone. -/
theorem C09_history_free (src : PSrc) (c : Compile) (ht : src.Truthful)
    (filters : Str → Option (V → List V → Res V)) (fuel : Nat) (σ : Cache) (h : C19.Inv src c σ)
    (t : Tmpl) (globals : Obj) :
    renderOn src c filters fuel σ t globals = renderOn src c filters fuel [] t globals := by
  unfold renderOn
  rw [(C19.C19_render_equiv src c ht σ h filters fuel t globals).1,
      (C19.C19_render_equiv src c ht [] (C19.inv_nil src c) filters fuel t globals).1]

/-- the same for a whole history: the i-th result does not depend on the store states reached -/
theorem C09_history (src : PSrc) (c : Compile) (ht : src.Truthful)
    (filters : Str → Option (V → List V → Res V)) (fuel : Nat)
    (calls : List (Cache × Tmpl × Obj)) (h : ∀ x ∈ calls, C19.Inv src c x.1) :
    calls.map (fun x => renderOn src c filters fuel x.1 x.2.1 x.2.2) =
    calls.map (fun x => renderOn src c filters fuel [] x.2.1 x.2.2) := by
  apply List.map_congr_left
  intro x hx
  exact C09_history_free src c ht filters fuel x.1 (h x hx) x.2.1 x.2.2

/-- **Every render starts from a fresh runtime**: no assigned variable, counter, cycle position,
ifchanged memory or pending break/continue exists when a render begins — the start state is a
function of the caller's data only. -/
theorem C09_fresh_runtime (globals : Obj) :
    (Rt.build globals).layers = [.global [], .plain globals, .index []] ∧
    (Rt.build globals).regs.interrupt = none ∧ (Rt.build globals).regs.cycles = [] ∧
    (Rt.build globals).regs.lastChanged = none := by
  refine ⟨rfl, rfl, rfl, rfl⟩

/-- **A render (failed or not) hands nothing back but its result**, and never modifies the data it
was given — so the caller can reuse the same data object for the next render. -/
theorem C09_data_reusable (env : Env) (fuel : Nat) (t : Tmpl) (globals : Obj) (w : W) :
    ((renderT fuel env t (Rt.build globals) w).2.1).layers[1]? = some (Layer.plain globals) :=
  (renderT_keeps_plains env fuel t (Rt.build globals) w).2 1 globals rfl

end Liquid.C09
