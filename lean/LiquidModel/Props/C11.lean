/-
  C11 — Value equality and ordering are coherent and construction-independent.

  Model: `valueEq`, `valueCmp`, `vLt/vLe/vGt/vGe`, `V.queryState` of Model/Value.lean
  (`value_eq`, `value_cmp` of value/view.rs; `scalar_eq`, `scalar_cmp` of scalar/mod.rs; the default
  `PartialOrd` methods).  `valueCmp` is the REPAIRED comparison (objects compared in key order,
  patches/C11-object-cmp-sorted.diff); `valueCmpOld` is the code at the pinned commit (defect D12).

  Side conditions (Spec/C11.lean, all decidable):
    WF a       no `Truthy`/`DefaultValue` marker anywhere in `a` (templates cannot produce them);
    NoTruthy a no `Truthy` marker (weaker than WF; all that symmetry/reflexivity need);
    WFV a      every object in `a` has pairwise distinct keys (invariant of a HashMap-backed object);
    NaNFree a  no NaN anywhere in `a`.
  Every excluded point has a `_counterexample` theorem; the harness replays those that can be
  built with the public API (markers, NaN, 2^53+1, date/date-time, bool) on the implementation.
-/
import LiquidModel.Lemmas.C11
import LiquidModel.Model.Ast
namespace Liquid.C11
open Liquid Liquid.C11L

/-! ## 1. equality is symmetric -/

/-- `a == b` and `b == a` agree for values without the `Truthy` marker whose objects have distinct keys. -/
theorem C11_symm_noTruthy (a b : V) (ha : NoTruthy a = true) (hb : NoTruthy b = true)
    (hwa : WFV a = true) (hwb : WFV b = true) : valueEq a b = valueEq b a :=
  valueEq_symm a b ha hb hwa hwb

/-- the form announced in DESIGN §7 (WF excludes `Truthy` and `DefaultValue`). -/
theorem C11_symm (a b : V) (ha : WF a = true) (hb : WF b = true)
    (hwa : WFV a = true) (hwb : WFV b = true) : valueEq a b = valueEq b a :=
  valueEq_symm a b (noTruthy_of_wf a ha) (noTruthy_of_wf b hb) hwa hwb

example : WF oAB = true ∧ WFV oAB = true ∧ WF (.arr [bT, .nil, .st .empty]) = true := by decide

/-- excluded point: the `Truthy` marker (`State::is_truthy` answers `false`, the other three `true`). -/
theorem C11_symm_truthy_counterexample :
    valueEq (.st .truthy) (.st .empty) = false ∧ valueEq (.st .empty) (.st .truthy) = true := by
  constructor <;> (rw [valueEq_of_flat _ _ rfl rfl]; decide)

/-- why `WFV` is a hypothesis: with a repeated key (impossible for a HashMap) `value_eq`'s
"every key of x is in y with an equal value" is one-directional. -/
theorem C11_symm_duplicate_keys_counterexample :
    valueEq (.obj [("k".toList, i 1), ("k".toList, i 1)]) (.obj [("k".toList, i 1), ("j".toList, i 5)]) = true ∧
    valueEq (.obj [("k".toList, i 1), ("j".toList, i 5)]) (.obj [("k".toList, i 1), ("k".toList, i 1)]) = false := by
  constructor
  · rw [valueEq_obj, eqObj_cons, eqObj_cons, eqObj_nil, eqGet_cons_eq, valueEq_of_flat _ _ rfl rfl]; decide
  · rw [valueEq_obj, eqObj_cons, eqObj_cons, eqObj_nil, eqGet_cons_eq, valueEq_of_flat _ _ rfl rfl,
      eqGet_cons_ne _ _ _ _ _ (by decide), eqGet_cons_ne _ _ _ _ _ (by decide), eqGet_eq]
    decide

/-- nil and `false` are equal in both directions, nil and `true` are not (Ruby truthiness rows). -/
theorem C11_nil_false :
    valueEq .nil bF = true ∧ valueEq bF .nil = true ∧ valueEq .nil bT = false ∧ valueEq bT .nil = false := by
  refine ⟨?_, ?_, ?_, ?_⟩ <;> (rw [valueEq_of_flat _ _ rfl rfl]; decide)

/-- the rule `(_, Bool(b)) | (Bool(b), _) => b`: a boolean compared with any non-boolean scalar,
array or object is the boolean itself — in both argument orders. -/
theorem C11_bool_vs_any (b : Bool) (v : V)
    (hv : (match v with | .sc (.bool _) => false | .sc _ => true | .arr _ => true | .obj _ => true | _ => false) = true) :
    valueEq (.sc (.bool b)) v = b ∧ valueEq v (.sc (.bool b)) = b := by
  cases v with
  | sc x =>
    rw [valueEq_of_flat _ _ rfl rfl, valueEq_of_flat _ _ rfl rfl]
    cases x <;> simp_all [valueEqFlat, V.isNil, scalarEq]
  | arr xs => rw [valueEq_of_flat _ _ rfl rfl, valueEq_of_flat _ _ rfl rfl]; simp [valueEqFlat, V.isNil, Sc.toBool?]
  | obj xs => rw [valueEq_of_flat _ _ rfl rfl, valueEq_of_flat _ _ rfl rfl]; simp [valueEqFlat, V.isNil, Sc.toBool?]
  | nil => simp at hv
  | st _ => simp at hv

/-! ## 2. equality is reflexive (NaN excepted) -/

theorem C11_refl (a : V) (ht : NoTruthy a = true) (hw : WFV a = true) (hn : NaNFree a = true) :
    valueEq a a = true := valueEq_refl a ht hw hn

example : NoTruthy oAB = true ∧ WFV oAB = true ∧ NaNFree oAB = true := by decide

theorem C11_refl_nan_counterexample : NaNFree (fl fNaN) = false ∧ valueEq (fl fNaN) (fl fNaN) = false := by
  constructor
  · decide
  · unfold fl; rw [valueEq_of_flat _ _ rfl rfl]; decide

theorem C11_refl_truthy_counterexample : valueEq (.st .truthy) (.st .truthy) = false := by
  rw [valueEq_of_flat _ _ rfl rfl]; decide

/-! ## 3. `!=` is the negation of `==` -/

/-- `!=` is the negation of `==`, in the API model and in the `{% if %}` comparison operators. -/
theorem C11_ne (a b : V) :
    vNe a b = !valueEq a b ∧ cmpOpEval .eq a b = .ok (valueEq a b) ∧ cmpOpEval .ne a b = .ok (!valueEq a b) :=
  ⟨rfl, rfl, rfl⟩

/-! ## 4. `<` and `>` are duals -/

/-- `partial_cmp(b, a)` is `partial_cmp(a, b)` reversed — for ALL values (no side condition). -/
theorem C11_dual (a b : V) : valueCmp b a = swapO (valueCmp a b) := valueCmp_dual a b

theorem C11_lt_gt_dual (a b : V) : vLt a b = vGt b a ∧ vLe a b = vGe b a := by
  unfold vLt vGt vLe vGe
  rw [C11_dual a b]
  rcases valueCmp a b with _ | o
  · simp [swapO]
  · cases o <;> simp [swapO]

/-! ## 5. consistency of `<  <=  >  >=` with `partial_cmp` and with equality -/

/-- whenever two values are ordered the four operators are what the ordering says. -/
theorem C11_ordered_ops (a b : V) (o : Ordering) (h : valueCmp a b = some o) :
    (vLt a b = true ↔ o = .lt) ∧ (vGt a b = true ↔ o = .gt) ∧
    (vLe a b = true ↔ (o = .lt ∨ o = .eq)) ∧ (vGe a b = true ↔ (o = .gt ∨ o = .eq)) := by
  unfold vLt vGt vLe vGe
  rw [h]; cases o <;> simp

/-- unordered values: every strict or non-strict comparison is `false`. -/
theorem C11_unordered (a b : V) (h : valueCmp a b = none) :
    vLt a b = false ∧ vGt a b = false ∧ vLe a b = false ∧ vGe a b = false := by
  unfold vLt vGt vLe vGe; rw [h]; simp

/-- whenever two values are ordered, they are equal (in either argument order) exactly when the
ordering says `Equal`.  No marker hypothesis is needed: markers are never ordered. -/
theorem C11_eq_iff_cmp_eq (a b : V) (hwa : WFV a = true) (hwb : WFV b = true) (o : Ordering)
    (h : valueCmp a b = some o) : (valueEq a b = true ↔ o = .eq) ∧ (valueEq b a = true ↔ o = .eq) :=
  valueCmp_cons a b hwa hwb o h

/-- whenever two values are ordered, `<=` / `>=` hold exactly when `<` / `>` or equality does. -/
theorem C11_consistent (a b : V) (hwa : WFV a = true) (hwb : WFV b = true) (o : Ordering)
    (h : valueCmp a b = some o) :
    (vLe a b = true ↔ (vLt a b = true ∨ valueEq a b = true)) ∧
    (vGe a b = true ↔ (vGt a b = true ∨ valueEq a b = true)) := by
  obtain ⟨h1, h2, h3, h4⟩ := C11_ordered_ops a b o h
  obtain ⟨e1, _⟩ := C11_eq_iff_cmp_eq a b hwa hwb o h
  rw [h1, h2, h3, h4, e1]
  exact ⟨Iff.rfl, Iff.rfl⟩

/-- values that are equal are never strictly ordered. -/
theorem C11_equal_never_strictly_ordered (a b : V) (hwa : WFV a = true) (hwb : WFV b = true)
    (he : valueEq a b = true) : vLt a b = false ∧ vGt a b = false := by
  rcases hc : valueCmp a b with _ | o
  · exact ⟨(C11_unordered a b hc).1, (C11_unordered a b hc).2.1⟩
  · have := ((C11_eq_iff_cmp_eq a b hwa hwb o hc).1).1 he
    subst this
    unfold vLt vGt; rw [hc]; simp

example : valueCmp (i 1) (fl f1) = some .eq ∧ WFV (i 1) = true := by decide +kernel

/-- equality does not imply being ordered (so `<=` can be false for equal values of different kinds):
`true == 1` but `true <= 1` is false.  Outside the property's "whenever two values are ordered". -/
theorem C11_equal_unordered_counterexample :
    valueEq bT (i 1) = true ∧ valueCmp bT (i 1) = none ∧ vLe bT (i 1) = false := by
  refine ⟨?_, by decide, by decide⟩
  unfold bT i; rw [valueEq_of_flat _ _ rfl rfl]; decide

/-! ## 6. an integer and a float denoting the same number are equal -/

/-- for |n| ≤ 2^53 an integer equals a float exactly when the float denotes n (both orders), and
they then compare `Equal`. -/
theorem C11_int_float (n : Int) (f : Fl) (hn : -(2 : Int) ^ 53 ≤ n ∧ n ≤ 2 ^ 53) :
    valueEq (.sc (.int n)) (.sc (.flt f)) = denotesInt f n ∧
    valueEq (.sc (.flt f)) (.sc (.int n)) = denotesInt f n ∧
    (denotesInt f n = true → valueCmp (.sc (.int n)) (.sc (.flt f)) = some .eq) := by
  have hr := roundI64ToF64_exact n hn
  have e1 : valueEq (.sc (.int n)) (.sc (.flt f)) = denotesInt f n := by
    rw [valueEq_of_flat _ _ rfl rfl]
    simp only [valueEqFlat, V.isNil, Bool.false_and, scalarEq, FV.ofI64, hr, denotesInt]
    cases f.toFV <;> simp [FV.eq]
    exact beq_comm' _ _
  refine ⟨e1, ?_, ?_⟩
  · rw [← e1, valueEq_of_flat _ _ rfl rfl, valueEq_of_flat _ _ rfl rfl]
    simp only [valueEqFlat, V.isNil, Bool.false_and, Bool.false_eq_true, if_false]
    exact scalarEq_symm _ _
  · intro hd
    simp only [valueCmp, scalarCmp, FV.ofI64, hr]
    unfold denotesInt at hd
    cases hf : f.toFV <;> simp [hf] at hd
    subst hd
    simp [FV.cmp, cmpInt_eq_iff]

example : denotesInt { bits := f1 } 1 = true ∧ denotesInt { bits := f2p53 } (2 ^ 53) = true := by decide +kernel

/-- above 2^53 `x as f64` rounds: 2^53 + 1 "equals" the float 2^53 although they denote different
numbers (and equality stops being transitive: 2^53 + 1 == 2^53.0 == 2^53 but 2^53 + 1 != 2^53). -/
theorem C11_int_float_above_2p53_counterexample :
    denotesInt { bits := f2p53 } (2 ^ 53 + 1) = false ∧
    valueEq (i (2 ^ 53 + 1)) (fl f2p53) = true ∧ valueEq (fl f2p53) (i (2 ^ 53)) = true ∧
    valueEq (i (2 ^ 53 + 1)) (i (2 ^ 53)) = false := by
  refine ⟨by decide +kernel, ?_, ?_, ?_⟩ <;> (unfold i; try unfold fl) <;> rw [valueEq_of_flat _ _ rfl rfl] <;>
    decide +kernel

/-! ## 7. the outcome depends only on the values (construction independence) -/

/-- permuting the entry lists of two objects changes neither `==` nor `partial_cmp`
(repaired `value_cmp`). -/
theorem C11_perm_invariant (xs xs' ys ys' : Obj) (hx : xs.Perm xs') (hy : ys.Perm ys')
    (hnx : WFV (.obj xs) = true) (hny : WFV (.obj ys) = true) :
    valueEq (.obj xs) (.obj ys) = valueEq (.obj xs') (.obj ys') ∧
    valueCmp (.obj xs) (.obj ys) = valueCmp (.obj xs') (.obj ys') ∧
    cmpO xs ys = cmpO xs' ys' := by
  have h1 := wfv_obj_keys hnx
  have h2 := wfv_obj_keys hny
  refine ⟨valueEq_obj_perm hx hy h2, valueCmp_obj_perm hx hy h1 h2, ?_⟩
  rw [cmpO_eq, cmpO_eq, sortK_eq_of_perm hx h1, sortK_eq_of_perm hy h2]

/-- `==` and `partial_cmp` only look at the canonical representative (entries of every object, at
any depth, sorted by key). -/
theorem C11_canon (a b : V) (hwa : WFV a = true) (hwb : WFV b = true) :
    valueEq a b = valueEq (canon a) (canon b) ∧ valueCmp a b = valueCmp (canon a) (canon b) :=
  ⟨(valueEq_canon a b hwa hwb).symm, (valueCmp_canon a b).symm⟩

/-- Construction independence at full depth: if `a'` and `b'` are `a` and `b` with the entry lists
of any of their objects (nested anywhere) in a different iteration order, every comparison gives
the same answer. -/
theorem C11_construction_independent (a a' b b' : V) (pa : VPerm a a') (pb : VPerm b b')
    (hwa : WFV a = true) (hwb : WFV b = true) :
    valueEq a b = valueEq a' b' ∧ valueCmp a b = valueCmp a' b' ∧
    vLt a b = vLt a' b' ∧ vLe a b = vLe a' b' ∧ vGt a b = vGt a' b' ∧ vGe a b = vGe a' b' := by
  obtain ⟨wa', ca, _⟩ := pa.canon_eq hwa
  obtain ⟨wb', cb, _⟩ := pb.canon_eq hwb
  have he : valueEq a b = valueEq a' b' := by
    rw [← valueEq_canon a b hwa hwb, ← valueEq_canon a' b' wa' wb', ca, cb]
  have hc : valueCmp a b = valueCmp a' b' := by
    rw [← valueCmp_canon a b, ← valueCmp_canon a' b', ca, cb]
  refine ⟨he, hc, ?_, ?_, ?_, ?_⟩ <;> simp only [vLt, vLe, vGt, vGe, hc]

example : VPerm oAB oBA ∧ WFV oAB = true :=
  ⟨VPerm.objPerm (List.Perm.swap _ _ _), by decide⟩

/-- D12, the code at the pinned commit: two equal two-key objects whose hash maps iterate in
different orders compare `Less` (and `Greater` the other way round) instead of `Equal`. -/
theorem C11_perm_cmp_old_counterexample :
    valueEq oAB oBA = true ∧ valueCmpOld oAB oBA = some .lt ∧ valueCmpOld oBA oAB = some .gt ∧
    valueCmpOld oAB oAB = some .eq ∧ valueCmp oAB oBA = some .eq := by
  refine ⟨?_, by decide, by decide, by decide, by decide⟩
  unfold oAB oBA i
  rw [valueEq_obj, eqObj_cons, eqObj_cons, eqObj_nil, eqGet_cons_ne _ _ _ _ _ (by decide), eqGet_cons_eq,
    eqGet_cons_eq, valueEq_of_flat _ _ rfl rfl, valueEq_of_flat _ _ rfl rfl]
  decide

/-! ## 8. transitivity: what holds and what does not (triples) -/

/-- inside one scalar kind equality is transitive and the order is a preorder. -/
theorem C11_trans_within_kind (x y z : Sc) (k1 : scKind x = scKind y) (k2 : scKind y = scKind z) :
    (valueEq (.sc x) (.sc y) = true → valueEq (.sc y) (.sc z) = true → valueEq (.sc x) (.sc z) = true) ∧
    (vLt (.sc x) (.sc y) = true → vLt (.sc y) (.sc z) = true → vLt (.sc x) (.sc z) = true) ∧
    (vLe (.sc x) (.sc y) = true → vLe (.sc y) (.sc z) = true → vLe (.sc x) (.sc z) = true) := by
  refine ⟨?_, ?_, ?_⟩
  · rw [valueEq_of_flat _ _ rfl rfl, valueEq_of_flat _ _ rfl rfl, valueEq_of_flat _ _ rfl rfl]
    simp only [valueEqFlat, V.isNil, Bool.false_and]
    exact scalarEq_trans x y z k1 k2
  · simp only [vLt, valueCmp, beq_iff_eq]
    exact scalarCmp_lt_trans x y z k1 k2
  · have key : ∀ a b : Sc, vLe (.sc a) (.sc b) = true ↔ leO (scalarCmp a b) := by
      intro a b
      simp only [vLe, valueCmp, leO]
      rcases scalarCmp a b with _ | o
      · simp
      · cases o <;> simp
    rw [key, key, key]
    exact scalarCmp_le_trans x y z k1 k2

/-- the bool-vs-anything rule makes equality non-transitive across kinds: 1 == true == 2, 1 != 2. -/
theorem C11_eq_trans_bool_counterexample :
    valueEq (i 1) bT = true ∧ valueEq bT (i 2) = true ∧ valueEq (i 1) (i 2) = false := by
  refine ⟨?_, ?_, ?_⟩ <;> (unfold i; try unfold bT) <;> rw [valueEq_of_flat _ _ rfl rfl] <;> decide

/-- a date compares with a date-time by the *local* calendar day, two date-times by the instant:
`x < d < y` and yet `x > y`. -/
theorem C11_lt_trans_date_counterexample :
    vLt dtX dD = true ∧ vLt dD dtY = true ∧ vGt dtX dtY = true := by decide

/-! ## 9. the executable laws used to judge the implementation hold of the model (M ⊨ S) -/

/-- one direction: `!=`, the four operators, and the two order/equality laws. -/
theorem C11_spec_sound_one (a b : V) (w : Bool) :
    lawsOne (WFV a && WFV b) (modelPOb a b w) = none := by
  cases w
  · simp [lawsOne, modelPOb, vNe]
  · have hle := vLe_eq a b
    have hge := vGe_eq a b
    have h1 : ((WFV a && WFV b) && valueCmp a b == some .eq && !valueEq a b) = false := by
      rcases hw : (WFV a && WFV b) with _ | _
      · rfl
      · simp only [Bool.and_eq_true] at hw
        rcases hc : valueCmp a b with _ | o
        · rfl
        · have := (C11_eq_iff_cmp_eq a b hw.1 hw.2 o hc).1
          cases o <;> simp_all
    have h2 : ((WFV a && WFV b) && valueEq a b && (valueCmp a b == some .lt || valueCmp a b == some .gt)) = false := by
      rcases hw : (WFV a && WFV b) with _ | _
      · rfl
      · simp only [Bool.and_eq_true] at hw
        rcases hc : valueCmp a b with _ | o
        · simp
        · have := (C11_eq_iff_cmp_eq a b hw.1 hw.2 o hc).1
          cases o <;> simp_all
    simp only [lawsOne, modelPOb, vNe, if_true]
    simp only [vLt, vGt, hle, hge, bne_self_eq_false, Bool.false_eq_true, if_false, h1, h2]

/-- both directions: symmetry of `==` and duality of the order. -/
theorem C11_spec_sound_two (a b : V) :
    lawsTwo (NoTruthy a && NoTruthy b) (WFV a && WFV b) (modelPOb a b true) (modelPOb b a true) = none := by
  have hs : ((NoTruthy a && NoTruthy b) && (WFV a && WFV b) && (valueEq a b != valueEq b a)) = false := by
    rcases h1 : (NoTruthy a && NoTruthy b) with _ | _
    · rfl
    · rcases h2 : (WFV a && WFV b) with _ | _
      · rfl
      · simp only [Bool.and_eq_true] at h1 h2
        rw [C11_symm_noTruthy a b h1.1 h1.2 h2.1 h2.2]; simp
  have hd := C11_dual a b
  have hlg := C11_lt_gt_dual a b
  have hgl := C11_lt_gt_dual b a
  simp only [lawsTwo, modelPOb, if_true, hs, Bool.false_eq_true, if_false, hd, bne_self_eq_false,
    hlg.1, hgl.1, Bool.or_self]

/-- triples: the transitivity laws are only demanded inside one scalar kind, where they hold. -/
theorem C11_spec_sound_triple (a b c : V) :
    lawsTriple a b c (valueEq a b) (valueEq b c) (valueEq a c) (valueCmp a b) (valueCmp b c) (valueCmp a c) = none := by
  unfold lawsTriple
  by_cases hk : sameScKind a b c = true
  · cases a <;> cases b <;> cases c <;> simp only [sameScKind] at hk <;> try (cases hk)
    rename_i x y z
    simp only [Bool.and_eq_true, beq_iff_eq] at hk
    obtain ⟨t1, t2, t3⟩ := C11_trans_within_kind x y z hk.1 hk.2
    simp only [sameScKind, hk.1, hk.2, beq_self_eq_true, Bool.and_self, Bool.not_true, Bool.false_eq_true, if_false]
    have e : (valueEq (.sc x) (.sc y) && valueEq (.sc y) (.sc z) && !valueEq (.sc x) (.sc z)) = false := by
      rcases h1 : valueEq (.sc x) (.sc y) with _ | _
      · rfl
      · rcases h2 : valueEq (.sc y) (.sc z) with _ | _
        · rfl
        · rw [t1 h1 h2]; rfl
    have l : (valueCmp (.sc x) (.sc y) == some .lt && valueCmp (.sc y) (.sc z) == some .lt &&
        (valueCmp (.sc x) (.sc z) != some .lt)) = false := by
      have := t2
      simp only [vLt] at this
      rcases h1 : (valueCmp (.sc x) (.sc y) == some .lt) with _ | _
      · rfl
      · rcases h2 : (valueCmp (.sc y) (.sc z) == some .lt) with _ | _
        · rfl
        · rw [bne, this h1 h2]; rfl
    have le : ((valueCmp (.sc x) (.sc y) == some .lt || valueCmp (.sc x) (.sc y) == some .eq) &&
        (valueCmp (.sc y) (.sc z) == some .lt || valueCmp (.sc y) (.sc z) == some .eq) &&
        !(valueCmp (.sc x) (.sc z) == some .lt || valueCmp (.sc x) (.sc z) == some .eq)) = false := by
      rw [← vLe_eq, ← vLe_eq, ← vLe_eq]
      rcases h1 : vLe (.sc x) (.sc y) with _ | _
      · rfl
      · rcases h2 : vLe (.sc y) (.sc z) with _ | _
        · rfl
        · rw [t3 h1 h2]; rfl
    simp only [e, l, le, Bool.false_eq_true, if_false]
  · simp [hk]

end Liquid.C11
