/-
  C07 — variable paths and literals denote the right value or fail loudly.
  Model: `Model/Find.lean` (`convertIndex`, `arrGet`, `augGet`, `tryFind`, `find`), `Model/Ast.lean`
  (`Expr.eval`), `Model/Literal.lean` (`parseLiteral`), `Model/Value.lean` (`intRepr`).
-/
import LiquidModel.Model.Render
import LiquidModel.Model.Literal
import LiquidModel.Props.C18
import LiquidModel.Lemmas.Monad
namespace Liquid.C07
open Liquid

/-! ### array indexing -/

/-- **Index law.** For every array and every index `i` (the whole `i64` range and beyond):
`0 ≤ i < n` selects element `i`, `-n ≤ i < 0` selects element `n + i`, anything else selects
nothing — never a neighbouring element, never a wrap-around. -/
theorem C07_index (xs : List V) (i : Int) :
    arrGet xs i =
      if 0 ≤ i ∧ i < xs.length then xs[i.toNat]?
      else if -(xs.length : Int) ≤ i ∧ i < 0 then xs[(xs.length + i).toNat]?
      else none := by
  unfold arrGet convertIndex
  by_cases h0 : 0 ≤ i
  · simp only [h0, if_true, true_and]
    by_cases h1 : i < xs.length
    · simp [h1]
    · simp only [h1, if_false]
      have : ¬ (-(xs.length : Int) ≤ i ∧ i < 0) := by omega
      simp only [this, if_false]
      apply List.getElem?_eq_none; omega
  · simp only [h0, if_false, false_and]
    by_cases h1 : -(xs.length : Int) ≤ i
    · have h2 : i < 0 := by omega
      have h3 : (0 : Int) ≤ xs.length + i := by omega
      simp [h1, h2, h3]
    · have h3 : ¬ ((0 : Int) ≤ xs.length + i) := by omega
      simp [h1, h3]

/-- a selected element is really *the* element at that position -/
theorem C07_index_in_range (xs : List V) (i : Nat) (h : i < xs.length) :
    arrGet xs i = some xs[i] ∧ arrGet xs (-(xs.length : Int) + i) = some xs[i] := by
  constructor
  · rw [C07_index]; simp [h]
  · rw [C07_index]
    have h1 : ¬ (0 ≤ -(xs.length : Int) + i ∧ -(xs.length : Int) + i < xs.length) := by omega
    have h2 : -(xs.length : Int) ≤ -(xs.length : Int) + i ∧ -(xs.length : Int) + (i : Int) < 0 := by omega
    have h3 : ((xs.length : Int) + (-(xs.length : Int) + i)).toNat = i := by omega
    simp [h1, h2, h3, h]

/-! ### first / last / size and colliding keys -/

/-- **first, last, size by their meaning** on arrays. -/
theorem C07_array_overlay (xs : List V) :
    augGet (.arr xs) (.str "first".toList) = xs[0]? ∧
    augGet (.arr xs) (.str "last".toList) = (if xs.length = 0 then none else xs[xs.length - 1]?) ∧
    augGet (.arr xs) (.str "size".toList) = some (.sc (.int xs.length)) := by
  have hf : Sc.toInteger? (.str "first".toList) = none := by rfl
  have hl : Sc.toInteger? (.str "last".toList) = none := by rfl
  have hs : Sc.toInteger? (.str "size".toList) = none := by rfl
  have e1 : ("last".toList == "first".toList) = false := by decide
  have e2 : ("size".toList == "first".toList) = false := by decide
  have e3 : ("size".toList == "last".toList) = false := by decide
  refine ⟨?_, ?_, ?_⟩
  · simp only [augGet, hf, Sc.render, beq_self_eq_true, if_true]
    rw [C07_index]; cases xs <;> simp
  · simp only [augGet, hl, Sc.render, e1, beq_self_eq_true, if_true, Bool.false_eq_true, if_false]
    rw [C07_index]
    cases xs with
    | nil => simp
    | cons x r =>
      have h1 : ¬ (0 ≤ (-1 : Int) ∧ (-1 : Int) < ((x :: r).length : Int)) := by omega
      have h2 : -((x :: r).length : Int) ≤ -1 ∧ (-1 : Int) < 0 := by simp; omega
      have h3 : (((x :: r).length : Int) + -1).toNat = (x :: r).length - 1 := by simp; omega
      rw [if_neg h1, if_pos h2, h3]; simp
  · simp only [augGet, hs, Sc.render, e2, e3, beq_self_eq_true, if_true, Bool.false_eq_true, if_false]

/-- **An object's own key wins** over the special name; `size` is the number of entries only
when the object has no `size` member. -/
theorem C07_own_key_wins (kvs : Obj) (k : Str) (w : V) (h : objGet kvs k = some w) :
    augGet (.obj kvs) (.str k) = some w := by
  simp [augGet, Sc.render, h]

theorem C07_object_size (kvs : Obj) (h : objGet kvs "size".toList = none) :
    augGet (.obj kvs) (.str "size".toList) = some (.sc (.int kvs.length)) := by
  unfold augGet; simp only [Sc.render]; rw [h]; rfl

theorem C07_object_missing (kvs : Obj) (k : Str) (h : objGet kvs k = none) (hk : k ≠ "size".toList) :
    augGet (.obj kvs) (.str k) = none := by
  have hk' : (k == "size".toList) = false := by simpa using hk
  unfold augGet; simp only [Sc.render, h, hk']; rfl

/-- `size` of a string counts characters (after the `fix:`), nothing else resolves on a scalar. -/
theorem C07_string_size (s : Str) :
    augGet (.sc (.str s)) (.str "size".toList) = some (.sc (.int s.length)) := by
  simp [augGet, Sc.render]

/-! ### missing steps fail loudly -/

/-- **Step by step.** A path resolves exactly when every step resolves, each on the value produced
by the previous one. -/
theorem C07_stepwise (v : V) (i : Sc) (p : List Sc) :
    tryFind v (i :: p) = (augGet v i).bind (fun c => tryFind c p) := by
  simp only [tryFind]; cases augGet v i <;> rfl

/-- **Missing is an error.** If any step of a variable's path does not exist the failing lookup is
an error (never nil, never a neighbour), and an output tag over it fails. -/
theorem C07_missing_is_err (st : Stack) (root : Str) (idx : List Expr) (p : List Sc)
    (hp : evalIdx st idx = .ok p) (hm : st.tryGet (.str root :: p) = none) :
    Expr.eval st (.var root idx) = .err := by
  simp [Expr.eval, hp, C18.C18_get_tryget, hm, C18.ofOpt]

theorem C07_output_missing_is_err (fuel : Nat) (env : Env) (rt : Rt) (w : W) (root : Str) (idx : List Expr)
    (p : List Sc) (hp : evalIdx rt.layers idx = .ok p) (hm : rt.layers.tryGet (.str root :: p) = none) :
    renderN (fuel + 1) env (.output (.var root idx) []) rt w = (.err, rt, w) := by
  have h := C07_missing_is_err rt.layers root idx p hp hm
  have hc : evalChain env rt.layers (.var root idx) [] = .err := by
    simp [evalChain, h, bind, Res.bind]
  simp [renderN, hc]

/-- and when every step exists the output tag prints exactly the value found -/
theorem C07_output_found (fuel : Nat) (env : Env) (rt : Rt) (w : W) (root : Str) (idx : List Expr)
    (p : List Sc) (v : V) (hp : evalIdx rt.layers idx = .ok p) (hm : rt.layers.tryGet (.str root :: p) = some v) :
    renderN (fuel + 1) env (.output (.var root idx) []) rt w = M.emit v.render rt w := by
  have hc : evalChain env rt.layers (.var root idx) [] = .ok v := by
    simp [evalChain, Expr.eval, hp, C18.C18_get_tryget, hm, C18.ofOpt, bind, Res.bind, List.foldlM, pure]
  simp [renderN, hc]

/-! ### literals -/

theorem digitVal_of_isDigit (c : Char) (h : c.isDigit = true) : digitVal? c = some (c.toNat - '0'.toNat) := by
  unfold digitVal?
  have : '0' ≤ c ∧ c ≤ '9' := by
    simp [Char.isDigit] at h
    exact ⟨h.1, h.2⟩
  simp [this]

theorem digitsVal_eq (ds : Str) (h : ∀ c ∈ ds, c.isDigit = true) (acc : Nat) :
    digitsVal? ds acc = some (Nat.ofDigitChars 10 ds acc) := by
  induction ds generalizing acc with
  | nil => simp [digitsVal?]
  | cons c t ih =>
    have hc := digitVal_of_isDigit c (h c (by simp))
    simp only [digitsVal?, hc, Nat.ofDigitChars_cons]
    rw [ih (fun c hc => h c (by simp [hc]))]
    congr 2
    omega

theorem natDigits_isDigit (n : Nat) : ∀ c ∈ natDigits n, c.isDigit = true :=
  fun _ hc => Nat.isDigit_of_mem_toDigits (by decide) (by decide) hc

theorem natDigits_all_digits (n : Nat) : (natDigits n).all Char.isDigit = true := by
  simpa using natDigits_isDigit n

theorem natDigits_ne_nil (n : Nat) : natDigits n ≠ [] := Nat.toDigits_ne_nil

theorem digitsVal_natDigits (n : Nat) : digitsVal? (natDigits n) 0 = some n := by
  rw [digitsVal_eq _ (natDigits_isDigit n)]
  unfold natDigits
  rw [Nat.ofDigitChars_ten_toDigits]

/-- parsing the digits of `n` -/
theorem parseI64_natDigits (n : Nat) (h : inI64 n = true) : parseI64 (natDigits n) = some (n : Int) := by
  have hd := natDigits_isDigit n
  have hne := natDigits_ne_nil n
  unfold parseI64
  split
  · rename_i r heq
    have := hd '-' (by rw [heq]; simp)
    simp [Char.isDigit] at this
  · rename_i r heq
    have := hd '+' (by rw [heq]; simp)
    simp [Char.isDigit] at this
  · simp [hne, digitsVal_natDigits, h]

/-- **Integer literals over the whole 64-bit range.** For every `n` in `[i64::MIN, i64::MAX]` the
decimal text of `n` is an integer literal, converts to the integer `n`, and an output tag prints
that same text. -/
theorem C07_int_roundtrip (n : Int) (h : inI64 n = true) :
    matchesIntegerLiteral (intRepr n) = true ∧
    parseI64 (intRepr n) = some n ∧
    (V.sc (.int n)).render = intRepr n := by
  refine ⟨?_, ?_, rfl⟩
  · unfold intRepr matchesIntegerLiteral
    by_cases hn : n < 0
    · simp only [hn, if_true]
      simp [natDigits_all_digits, natDigits_ne_nil]
    · simp only [hn, if_false]
      have hd := natDigits_isDigit n.natAbs
      have hne := natDigits_ne_nil n.natAbs
      split
      · rename_i r heq
        have := hd '+' (by rw [heq]; simp)
        simp [Char.isDigit] at this
      · rename_i r heq
        have := hd '-' (by rw [heq]; simp)
        simp [Char.isDigit] at this
      · simp [hne, natDigits_all_digits]
  · unfold intRepr
    by_cases hn : n < 0
    · simp only [hn, if_true, parseI64]
      have hv := digitsVal_natDigits n.natAbs
      have hne := natDigits_ne_nil n.natAbs
      have hneg : -((n.natAbs : Nat) : Int) = n := by omega
      simp [hv, hne, hneg, h]
    · simp only [hn, if_false]
      have hnn : ((n.natAbs : Nat) : Int) = n := by omega
      have := parseI64_natDigits n.natAbs (by rw [hnn]; exact h)
      rw [this, hnn]

/-- the literal conversion built on it: in range = that integer, out of range = an error (never a
panic, never another integer) -/
theorem C07_int_literal (s : Str) (hm : matchesIntegerLiteral s = true) (hq : stringLiteral? s = none)
    (hk : s ≠ "nil".toList ∧ s ≠ "null".toList ∧ s ≠ "empty".toList ∧ s ≠ "blank".toList ∧
          s ≠ "true".toList ∧ s ≠ "false".toList) :
    parseLiteral s = match parseI64 s with
      | some i => .value (.sc (.int i))
      | none => .outOfRange := by
  obtain ⟨h1, h2, h3, h4, h5, h6⟩ := hk
  have e1 : (s == "nil".toList) = false := by simpa using h1
  have e2 : (s == "null".toList) = false := by simpa using h2
  have e3 : (s == "empty".toList) = false := by simpa using h3
  have e4 : (s == "blank".toList) = false := by simpa using h4
  have e5 : (s == "true".toList) = false := by simpa using h5
  have e6 : (s == "false".toList) = false := by simpa using h6
  unfold parseLiteral
  simp only [e1, e2, e3, e4, e5, e6, Bool.or_self, Bool.false_eq_true, if_false, hq, hm, if_true]
  cases parseI64 s <;> rfl

/-- `9223372036854775808` (one past `i64::MAX`) is rejected — at the pinned commit this input
crashed the parser (D1). -/
theorem C07_int_out_of_range : parseLiteral "9223372036854775808".toList = .outOfRange ∧
    parseLiteral "-9223372036854775809".toList = .outOfRange ∧
    parseLiteral "12345678901234567890".toList = .outOfRange := by
  refine ⟨by rfl, by rfl, by rfl⟩

/-- **String literals.** In either quote style the content between the quotes is preserved
exactly, for every content that does not contain that quote. -/
theorem C07_string_literal (q : Char) (body : Str) (hq : q = '\'' ∨ q = '"') (hb : body.contains q = false) :
    stringLiteral? (q :: (body ++ [q])) = some body := by
  unfold stringLiteral?
  have : (q == '\'' || q == '"') = true := by rcases hq with h | h <;> simp [h]
  have hb' : ¬ q ∈ body := by simpa using hb
  simp [this, hb']

/-- `true`, `false`, `nil`/`null`, `empty`, `blank` denote themselves. -/
theorem C07_bool_nil :
    parseLiteral "true".toList = .value (.sc (.bool true)) ∧
    parseLiteral "false".toList = .value (.sc (.bool false)) ∧
    parseLiteral "nil".toList = .value .nil ∧ parseLiteral "null".toList = .value .nil ∧
    parseLiteral "empty".toList = .value (.st .empty) ∧ parseLiteral "blank".toList = .value (.st .blank) ∧
    (V.sc (.bool true)).render = "true".toList ∧ (V.sc (.bool false)).render = "false".toList ∧
    V.nil.render = [] := by
  refine ⟨by rfl, by rfl, by rfl, by rfl, by rfl, by rfl, by rfl, by rfl, by rfl⟩

/-! ### non-vacuity -/
example : inI64 i64Min = true ∧ inI64 i64Max = true := by decide
example : arrGet [iV 7, iV 8, iV 9] (-1) = some (iV 9) := by rfl
example : parseI64 (intRepr i64Min) = some i64Min := (C07_int_roundtrip i64Min (by decide)).2.1


/-- **What is not a position does not exist.** On an array a step that is neither an integer (nor a
string spelling one) nor one of the three names selects nothing — a decimal such as `1.5`, a
boolean, `nil`, a string like `"nan"` never denote a neighbouring element. -/
theorem C07_array_not_a_position (xs : List V) (k : Sc) (hi : k.toInteger? = none)
    (h1 : k.render ≠ "first".toList) (h2 : k.render ≠ "last".toList) (h3 : k.render ≠ "size".toList) :
    augGet (.arr xs) k = none := by
  simp only [augGet, hi]
  simp at h1 h2 h3 ⊢
  simp [h1, h2, h3]

/-- … hence an output tag with such a step fails (with `C07_stepwise`, at whatever depth) -/
theorem C07_array_not_a_position_path (xs : List V) (k : Sc) (p : List Sc) (hi : k.toInteger? = none)
    (h1 : k.render ≠ "first".toList) (h2 : k.render ≠ "last".toList) (h3 : k.render ≠ "size".toList) :
    tryFind (.arr xs) (k :: p) = none := by
  simp [tryFind, C07_array_not_a_position xs k hi h1 h2 h3]

example : augGet (.arr [.sc (.int 10), .sc (.int 20)]) (.str "nan".toList) = none := by decide

/-- **A scalar has no members**: any step other than `size` on a number, string, boolean or date
fails — so a path that goes on after a counter (an integer that only `increment` / `decrement`
created) does not silently return the counter. -/
theorem C07_scalar_no_members (s : Sc) (k : Sc) (p : List Sc) (h : k.render ≠ "size".toList) :
    augGet (.sc s) k = none ∧ tryFind (.sc s) (k :: p) = none := by
  have h1 : augGet (.sc s) k = none := by
    simp only [augGet]
    simp at h ⊢
    exact h
  exact ⟨h1, by simp [tryFind, h1]⟩

/-- a counter is read through the same step-by-step resolution as every other binding: the frame
that holds it hands the rest of the path to the value -/
theorem C07_counter_paths_resolve (c : Obj) (below : Stack) (k : Sc) (p : List Sc)
    (hb : objContains c k.render = true) :
    Stack.tryGet (.index c :: below) (k :: p) = tryFind (.obj c) (k :: p) ∧
    Stack.get (.index c :: below) (k :: p) = find (.obj c) (k :: p) := by
  simp [Stack.tryGet, Stack.get, pathKey, hb]

end Liquid.C07
