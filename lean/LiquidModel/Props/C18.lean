/-
  C18 — scope layers compose predictably (runtime stack algebra).
  Model: `Model/Find.lean` (`Layer`, `Stack.tryGet/get/roots/setGlobal/setIndex/getIndex/regs`),
  transcribed from `runtime/stack.rs` + `runtime/runtime.rs`.
-/
import LiquidModel.Model.Find
namespace Liquid.C18
open Liquid

/-! ### the abstract specification: a stack of finite maps

`AL` is what a layer *means*: which kind it is and which top-level names it binds.  The abstract
lookup walks down until a layer binds the name; a sandbox stops the walk. -/

/-- resolution of a whole path inside the value bound to its first key -/
def resolveIn (d : Obj) (path : List Sc) : Option V := tryFind (.obj d) path

/-- the failing form expected from an optional result -/
def ofOpt : Option V → Res V
  | some v => .ok v
  | none => .err

def specLookup : Stack → List Sc → Option V
  | [], _ => none
  | _ :: _, [] => none
  | .sandbox d _ :: _, k :: p => if objContains d k.render then resolveIn d (k :: p) else none
  | .plain d :: r, k :: p | .global d :: r, k :: p | .index d :: r, k :: p =>
    if objContains d k.render then resolveIn d (k :: p) else specLookup r (k :: p)

theorem objGet_isSome_iff_contains (d : Obj) (k : Str) : (objGet d k).isSome = objContains d k := by
  induction d with
  | nil => simp [objGet, objContains]
  | cons kv r ih =>
    obtain ⟨k', w⟩ := kv
    simp only [objGet, objContains, List.any_cons] at ih ⊢
    by_cases h : k' = k <;> simp [h, ih]

/-- **Refinement (lookup).** The optional lookup of the implementation is the abstract lookup. -/
theorem C18_tryGet_refines (st : Stack) (path : List Sc) : st.tryGet path = specLookup st path := by
  induction st with
  | nil => cases path <;> rfl
  | cons l r ih =>
    cases path with
    | nil => cases l <;> simp [Stack.tryGet, pathKey, specLookup]
    | cons k p =>
      cases l with
      | plain d => simp [Stack.tryGet, pathKey, specLookup, resolveIn, ih]
      | global d => simp [Stack.tryGet, pathKey, specLookup, resolveIn, ih]
      | index d => simp [Stack.tryGet, pathKey, specLookup, resolveIn, ih]
      | sandbox d g =>
        simp only [Stack.tryGet, pathKey, List.head?, Option.map, specLookup, resolveIn]
        have hc := objGet_isSome_iff_contains d k.render
        cases h : objGet d k.render with
        | none =>
          have : objContains d k.render = false := by simpa [h] using hc.symm
          simp [this]
        | some w =>
          have : objContains d k.render = true := by simpa [h] using hc.symm
          simp [this]

/-- `find` never reaches its final `panic!` (after the `fix:` commit that lets the search for a
resolvable prefix go down to the empty prefix, the value itself): it returns what `try_find` finds,
or an error — for every value and every path, also when the first key does not exist. -/
theorem find_eq_ofOpt (v : V) (path : List Sc) : find v path = ofOpt (tryFind v path) := by
  unfold find
  cases hf : tryFind v path with
  | some r => rfl
  | none =>
    simp only [ofOpt]
    cases path with
    | nil => simp [tryFind] at hf
    | cons k p =>
      have : (List.range' 1 (k :: p).length).any
          (fun c => (tryFind v ((k :: p).take ((k :: p).length - c))).isSome) = true := by
        rw [List.any_eq_true]
        refine ⟨(k :: p).length, ?_, ?_⟩
        · simp only [List.mem_range', List.length_cons]
          exact ⟨p.length, by omega, by omega⟩
        · simp [tryFind]
      rw [if_pos this]

/-- the form used by the frames (`stack.rs` only calls `find` when the first key is bound) -/
theorem find_no_panic (d : Obj) (k : Sc) (p : List Sc) (_h : objContains d k.render = true) :
    find (.obj d) (k :: p) = ofOpt (tryFind (.obj d) (k :: p)) :=
  find_eq_ofOpt _ _

/-- the code before that commit did panic on a missing first key (`find(&obj, &["missing"])`) -/
theorem find_old_counterexample :
    (let path := [Sc.str "missing".toList]
     let n := path.length
     (List.range' 1 (n - 1)).any (fun c => (tryFind (.obj []) (path.take (n - c))).isSome)) = false := by
  decide

/-- **The failing and the optional lookup always agree**: `get` succeeds with `v` exactly when
`try_get` returns `v`, fails with an error exactly when `try_get` returns nothing, and never
panics — for every stack and every path. -/
theorem C18_get_tryget (st : Stack) (path : List Sc) :
    st.get path = ofOpt (st.tryGet path) := by
  induction st with
  | nil => cases path <;> rfl
  | cons l r ih =>
    cases path with
    | nil => cases l <;> simp [Stack.tryGet, Stack.get, pathKey, ofOpt]
    | cons k p =>
      cases l with
      | plain d =>
        simp only [Stack.tryGet, Stack.get, pathKey, List.head?, Option.map]
        cases h : objContains d k.render <;> simp [h, ih, find_no_panic]
      | global d =>
        simp only [Stack.tryGet, Stack.get, pathKey, List.head?, Option.map]
        cases h : objContains d k.render <;> simp [h, ih, find_no_panic]
      | index d =>
        simp only [Stack.tryGet, Stack.get, pathKey, List.head?, Option.map]
        cases h : objContains d k.render <;> simp [h, ih, find_no_panic]
      | sandbox d g =>
        simp only [Stack.tryGet, Stack.get, pathKey, List.head?, Option.map]
        cases h : objGet d k.render with
        | none => simp [ofOpt]
        | some w => simp only []; cases tryFind (V.obj d) (k :: p) <;> rfl

/-- **Transparency.** A plain scope answers the names it defines and is transparent otherwise. -/
theorem C18_transparent (d : Obj) (r : Stack) (k : Sc) (p : List Sc) :
    (objContains d k.render = true → Stack.tryGet (Layer.plain d :: r) (k :: p) = resolveIn d (k :: p)) ∧
    (objContains d k.render = false → Stack.tryGet (Layer.plain d :: r) (k :: p) = r.tryGet (k :: p)) := by
  constructor <;> intro h <;> simp [Stack.tryGet, pathKey, h, resolveIn]

/-- **Sandbox hides every outer name**: what lies below a sandboxed scope cannot influence any
lookup or the root listing. -/
theorem C18_sandbox_hides (d : Obj) (g : Regs) (r r' : Stack) (path : List Sc) :
    Stack.tryGet (Layer.sandbox d g :: r) path = Stack.tryGet (Layer.sandbox d g :: r') path ∧
    Stack.get (Layer.sandbox d g :: r) path = Stack.get (Layer.sandbox d g :: r') path ∧
    Stack.roots (Layer.sandbox d g :: r) = Stack.roots (Layer.sandbox d g :: r') := by
  refine ⟨?_, ?_, rfl⟩ <;> cases path <;> simp [Stack.tryGet, Stack.get, pathKey]

/-- A layer that is not a global layer forwards `set_global` to its parent unchanged. -/
def notGlobal : Layer → Bool | .global _ => false | _ => true
def notIndex : Layer → Bool | .index _ => false | _ => true

/-- **Pop restores.** Dropping a (plain or sandboxed) scope after a global assignment made above
it leaves exactly the underlying runtime with that assignment applied: the assignment went
*through* the scope, nothing else changed. -/
theorem C18_pop_restores_global (l : Layer) (hl : notGlobal l = true) (r : Stack) (k : Str) (v : V) :
    (Stack.setGlobal (l :: r) k v) = (match Stack.setGlobal r k v with
      | .ok r' => .ok (l :: r') | .err => .err | .io => .io | .panic s => .panic s | .fuel => .fuel) := by
  cases l <;> simp_all [notGlobal, Stack.setGlobal, bind, Res.bind] <;> cases Stack.setGlobal r k v <;> rfl

theorem C18_pop_restores_index (l : Layer) (hl : notIndex l = true) (r : Stack) (k : Str) (v : V) :
    (Stack.setIndex (l :: r) k v) = (match Stack.setIndex r k v with
      | .ok r' => .ok (l :: r') | .err => .err | .io => .io | .panic s => .panic s | .fuel => .fuel) := by
  cases l <;> simp_all [notIndex, Stack.setIndex, bind, Res.bind] <;> cases Stack.setIndex r k v <;> rfl

/-- A global assignment never changes the number or the kinds of the layers (so "pop" afterwards
removes the same scope that was pushed). -/
def kind : Layer → Nat | .plain _ => 0 | .sandbox _ _ => 1 | .global _ => 2 | .index _ => 3

theorem C18_setGlobal_shape (st st' : Stack) (k : Str) (v : V) (h : st.setGlobal k v = .ok st') :
    st'.map kind = st.map kind := by
  induction st generalizing st' with
  | nil => simp [Stack.setGlobal] at h
  | cons l r ih =>
    cases l with
    | global g => simp [Stack.setGlobal] at h; subst h; simp [kind]
    | plain d =>
      simp only [Stack.setGlobal, bind, Res.bind] at h
      cases hr : Stack.setGlobal r k v <;> simp [hr, pure] at h
      subst h; simp [ih _ hr]
    | sandbox d g =>
      simp only [Stack.setGlobal, bind, Res.bind] at h
      cases hr : Stack.setGlobal r k v <;> simp [hr, pure] at h
      subst h; simp [ih _ hr]
    | index d =>
      simp only [Stack.setGlobal, bind, Res.bind] at h
      cases hr : Stack.setGlobal r k v <;> simp [hr, pure] at h
      subst h; simp [ih _ hr]

theorem objInsert_contains (d : Obj) (k : Str) (v : V) : objContains (objInsert d k v) k = true := by
  induction d with
  | nil => simp [objInsert, objContains]
  | cons kv r ih =>
    obtain ⟨k', w⟩ := kv
    simp only [objInsert]
    by_cases h : k' = k
    · simp [h, objContains]
    · simp only [beq_iff_eq, h, if_false]
      simp only [objContains, List.any_cons] at ih ⊢
      simp [ih]

theorem objInsert_get (d : Obj) (k : Str) (v : V) : objGet (objInsert d k v) k = some v := by
  induction d with
  | nil => simp [objInsert, objGet]
  | cons kv r ih =>
    obtain ⟨k', w⟩ := kv
    by_cases h : k' = k <;> simp [objInsert, objGet, h, ih]

theorem objInsert_get_other (d : Obj) (k k' : Str) (v : V) (h : k' ≠ k) :
    objGet (objInsert d k v) k' = objGet d k' := by
  induction d with
  | nil => simp [objInsert, objGet, Ne.symm h]
  | cons kv r ih =>
    obtain ⟨k2, w⟩ := kv
    by_cases h2 : k2 = k
    · subst h2; simp [objInsert, objGet, Ne.symm h]
    · by_cases h3 : k2 = k'
      · subst h3; simp [objInsert, objGet, h2]
      · simp [objInsert, objGet, h2, h3, ih]

/-- layers that neither bind `k` nor hide what is below (no sandbox) -/
def passes (k : Str) : Layer → Bool
  | .plain d | .index d => !objContains d k
  | _ => false

/-- **Nearest global layer.** A global assignment made through any number of plain scopes lands
in the nearest enclosing global layer, and every scope above it that does not itself define the
name sees the new value. -/
theorem C18_set_global_nearest (above : Stack) (g : Obj) (below : Stack) (k : Str) (v : V)
    (hab : above.all (passes k) = true) :
    Stack.setGlobal (above ++ Layer.global g :: below) k v
      = .ok (above ++ Layer.global (objInsert g k v) :: below) ∧
    Stack.tryGet (above ++ Layer.global (objInsert g k v) :: below) [.str k] = some v := by
  induction above with
  | nil =>
    refine ⟨by simp [Stack.setGlobal], ?_⟩
    simp [Stack.tryGet, pathKey, Sc.render, objInsert_contains, tryFind, augGet, objInsert_get]
  | cons l r ih =>
    simp only [List.all_cons, Bool.and_eq_true] at hab
    obtain ⟨hl, hr⟩ := hab
    obtain ⟨ih1, ih2⟩ := ih hr
    cases l with
    | plain d =>
      simp only [passes, Bool.not_eq_true'] at hl
      refine ⟨by simp [Stack.setGlobal, ih1, bind, Res.bind, pure], ?_⟩
      simpa [Stack.tryGet, pathKey, Sc.render, hl] using ih2
    | index d =>
      simp only [passes, Bool.not_eq_true'] at hl
      refine ⟨by simp [Stack.setGlobal, ih1, bind, Res.bind, pure], ?_⟩
      simpa [Stack.tryGet, pathKey, Sc.render, hl] using ih2
    | global d => simp [passes] at hl
    | sandbox d q => simp [passes] at hl

/-- **Counters are shared by all layers**, sandboxed ones included: a counter set anywhere is read
back everywhere above the index layer, whatever scopes are in between. -/
theorem C18_counters_shared (above : Stack) (c : Obj) (below : Stack) (k : Str) (v : V)
    (hab : above.all notIndex = true) :
    Stack.setIndex (above ++ Layer.index c :: below) k v
      = .ok (above ++ Layer.index (objInsert c k v) :: below) ∧
    Stack.getIndex (above ++ Layer.index (objInsert c k v) :: below) k = some v ∧
    (∀ k', k' ≠ k → Stack.getIndex (above ++ Layer.index (objInsert c k v) :: below) k'
                    = Stack.getIndex (above ++ Layer.index c :: below) k') := by
  induction above with
  | nil =>
    refine ⟨by simp [Stack.setIndex], by simp [Stack.getIndex, objInsert_get], ?_⟩
    intro k' h; simp [Stack.getIndex, objInsert_get_other _ _ _ _ h]
  | cons l r ih =>
    simp only [List.all_cons, Bool.and_eq_true] at hab
    obtain ⟨hl, hr⟩ := hab
    obtain ⟨ih1, ih2, ih3⟩ := ih hr
    cases l <;> simp_all [notIndex, Stack.setIndex, Stack.getIndex, bind, Res.bind, pure]

/-- **Root names are exactly the top-level names that resolve.** -/
theorem C18_roots_exact (st : Stack) (k : Str) :
    k ∈ st.roots ↔ (st.tryGet [.str k]).isSome = true := by
  have key : ∀ d : Obj, (k ∈ d.map (·.1)) ↔ objContains d k = true := by
    intro d; simp [objContains, List.mem_map]
  have found : ∀ d : Obj, objContains d k = true → (tryFind (.obj d) [.str k]).isSome = true := by
    intro d h
    have := objGet_isSome_iff_contains d k
    simp only [tryFind, augGet, Sc.render]
    cases hg : objGet d k with
    | some w => simp
    | none => simp [hg, h] at this
  induction st with
  | nil => simp [Stack.roots, Stack.tryGet]
  | cons l r ih =>
    cases l with
    | sandbox d g =>
      simp only [Stack.roots, Stack.tryGet, pathKey, List.head?, Option.map, Sc.render, key]
      have := objGet_isSome_iff_contains d k
      cases hg : objGet d k with
      | none => simp [hg] at this; simp [this]
      | some w => simp [hg] at this; simp [this, found d this]
    | plain d =>
      simp only [Stack.roots, Stack.tryGet, pathKey, List.head?, Option.map, Sc.render, List.mem_append, key, ih]
      cases h : objContains d k <;> simp [h, found]
    | global d =>
      simp only [Stack.roots, Stack.tryGet, pathKey, List.head?, Option.map, Sc.render, List.mem_append, key, ih]
      cases h : objContains d k <;> simp [h, found]
    | index d =>
      simp only [Stack.roots, Stack.tryGet, pathKey, List.head?, Option.map, Sc.render, List.mem_append, key, ih]
      cases h : objContains d k <;> simp [h, found]

/-! ### non-vacuity -/
example : (Rt.build [("a".toList, iV0)]).layers.tryGet [.str "a".toList] = some iV0 := by rfl
  where iV0 : V := .sc (.int 0)
example : [Layer.plain [("x".toList, .nil)], Layer.index []].all (passes "a".toList) = true := by rfl

end Liquid.C18
