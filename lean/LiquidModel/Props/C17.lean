/-
  C17 — dates: the independent calendar is correct, date-times compare chronologically, the
  default print/parse round-trips, and `strftime` directives mean what they say.
  Property theorems only (plus non-vacuity examples).  Models: `Model/Calendar.lean`,
  `Model/Strftime.lean`, `Model/DateFmt.lean`, `Model/Value.lean` (`scalarEq`/`scalarCmp`);
  helper lemmas: `Lemmas/C17.lean`.
-/
import LiquidModel.Lemmas.C17
namespace Liquid.C17
open Liquid Liquid.Cal Liquid.Strf Liquid.DateFmt

/-! ## The calendar (first principles ⇒ the functions the formatter uses) -/

/-- **Year lengths.** The closed form `daysBeforeYear` is the day count obtained by adding up
year lengths (365, or 366 in Gregorian leap years) from 1970: these two equations determine it. -/
theorem C17_year_lengths : daysBeforeYear 1970 = 0 ∧
    ∀ y, daysBeforeYear (y + 1) = daysBeforeYear y + (if isLeap y then 366 else 365) :=
  ⟨by decide, fun y => by rw [dby_succ]; rfl⟩

/-- **Month lengths.** The cumulative month table is the running sum of the month lengths and a
whole year is 365/366 days. -/
theorem C17_month_lengths (y m : Int) (h1 : 1 ≤ m) (h2 : m ≤ 12) :
    daysBeforeMonth (isLeap y) 1 = 0 ∧
    daysBeforeMonth (isLeap y) (m + 1) = daysBeforeMonth (isLeap y) m + monthLen y m ∧
    daysBeforeMonth (isLeap y) 13 = yearLen y :=
  ⟨by cases isLeap y <;> decide, dbm_succ y m h1 h2, dbm_13 y⟩

/-- **Civil round-trip, all days.** Every day number maps to a date that exists, and counting the
days of that date gives the day number back. -/
theorem C17_civil_roundtrip (n : Int) :
    validCivil (civilOfDay n).1 (civilOfDay n).2.1 (civilOfDay n).2.2 ∧
    dayOfCivil (civilOfDay n).1 (civilOfDay n).2.1 (civilOfDay n).2.2 = n :=
  civil_valid n

/-- **… and back.** Every existing date is recovered from its day number (so `civilOfDay` is a
bijection between days and valid dates). -/
theorem C17_civil_roundtrip_inv (y m d : Int) (h : validCivil y m d) :
    civilOfDay (dayOfCivil y m d) = (y, m, d) := by
  obtain ⟨a, b, c⟩ := civil_unique h
  simp [civilOfDay, a, b, c]

example : civilOfDay 19782 = (2024, 2, 29) := by decide
example : validCivil 2024 2 29 := by unfold validCivil; decide
example : dayOfCivil 1 1 1 = -719162 := by decide

/-- **Weekday.** 1970-01-01 is a Thursday and weekdays cycle with period 7; `%w` counts from
Sunday, `%u` from Monday = 1. -/
theorem C17_weekday (n : Int) :
    wdFromMonday 0 = 3 ∧ 0 ≤ wdFromMonday n ∧ wdFromMonday n < 7 ∧
    wdFromMonday (n + 1) = (wdFromMonday n + 1) % 7 ∧
    wdFromSunday n = (wdFromMonday n + 1) % 7 ∧ wdIso n = wdFromMonday n + 1 := by
  unfold wdFromMonday wdFromSunday wdIso wdFromMonday
  refine ⟨by decide, ?_, ?_, ?_, ?_, rfl⟩ <;> omega

/-- **Ordinal day (`%j`).** The day of the year of an existing date is the days of the preceding
months plus the day of the month; it lies in 1 ..= 365/366. -/
theorem C17_ordinal (y m d : Int) (h : validCivil y m d) :
    ordinalOf (dayOfCivil y m d) = daysBeforeMonth (isLeap y) m + d ∧
    1 ≤ ordinalOf (dayOfCivil y m d) ∧ ordinalOf (dayOfCivil y m d) ≤ yearLen y := by
  have hy := (civil_unique h).1
  have ob := ordinal_bounds (dayOfCivil y m d)
  unfold yearOf at hy
  rw [hy] at ob
  refine ⟨?_, ob.1, ob.2⟩
  unfold ordinalOf; rw [hy]; unfold dayOfCivil; omega

/-- **Week of the year (`%U` for `w = 6`, `%W` for `w = 0`).** Let `f` be the ordinal of the first
day of the year that falls on weekday `w` (it exists among the first seven days and no earlier day
has that weekday).  Days before it are week 0, then weeks count up every seven days.  This equals
the closed formula `(ordinal − days since that weekday + 6) / 7`, and lies in 0 ..= 53. -/
theorem C17_week_of_year (n w : Int) (hw0 : 0 ≤ w) (hw : w < 7) :
    let f := firstWeekdayOrd n w
    let jan1 := daysBeforeYear (yearOf n)
    (1 ≤ f ∧ f ≤ 7 ∧ wdFromMonday (jan1 + (f - 1)) = w ∧
      ∀ o, 1 ≤ o → o < f → wdFromMonday (jan1 + (o - 1)) ≠ w) ∧
    weekFrom n w = (if ordinalOf n < f then 0 else (ordinalOf n - f) / 7 + 1) ∧
    weekFrom n w = (ordinalOf n - (wdFromMonday n - w) % 7 + 6) / 7 ∧
    0 ≤ weekFrom n w ∧ weekFrom n w ≤ 53 :=
  ⟨firstWeekdayOrd_spec n w hw0 hw, rfl, weekFrom_closed n w, week_bounds n w⟩

example : sundayWeek 19782 = 8 ∧ mondayWeek 19782 = 9 := by decide

/-- **ISO 8601 week date (`%G`, `%V`).** Week 1 of ISO year `Y` starts on the Monday of the week
containing 4 January of `Y`; a day belongs to the ISO year whose week-1 Monday is the latest one
not after it (and that year is unique); its week number counts the Mondays since then and lies in
1 ..= 53. -/
theorem C17_iso_week (n : Int) :
    (∀ y, wdFromMonday (isoWeek1Start y) = 0 ∧ isoWeek1Start y ≤ dayOfCivil y 1 4 ∧
          dayOfCivil y 1 4 < isoWeek1Start y + 7) ∧
    isoWeek1Start (isoYear n) ≤ n ∧ n < isoWeek1Start (isoYear n + 1) ∧
    (∀ y, isoWeek1Start y ≤ n → n < isoWeek1Start (y + 1) → isoYear n = y) ∧
    isoWeek n = (n - isoWeek1Start (isoYear n)) / 7 + 1 ∧ 1 ≤ isoWeek n ∧ isoWeek n ≤ 53 := by
  refine ⟨fun y => ?_, (iso_spec n).1, (iso_spec n).2, fun y => iso_unique n y, rfl, isoWeek_bounds n⟩
  have e : dayOfCivil y 1 4 = daysBeforeYear y + 3 := by
    unfold dayOfCivil; cases isLeap y <;> simp [daysBeforeMonth]
  rw [e]; exact isoWeek1Start_spec y

example : isoYear 18627 = 2020 ∧ isoWeek 18627 = 53 := by decide   -- 2020-12-31
example : isoYear 18628 = 2020 ∧ isoWeek 18628 = 53 := by decide   -- 2021-01-01

/-- **Offsets.** Changing the offset changes the local clock, not the instant. -/
theorem C17_offset_arith (d : DT) (off : Int) : (toOffset d off).instant = d.instant ∧ (toOffset d off).off = off := by
  unfold toOffset DT.instant nsPerSec; constructor <;> simp <;> omega

/-! ## Equality and ordering are chronological -/

/-- **Chronological.** `==` and the ordering of two date-times are those of their instants,
whatever their offsets. -/
theorem C17_chrono (a b : DT) :
    (scalarEq (.dt a) (.dt b) = true ↔ a.instant = b.instant) ∧
    scalarCmp (.dt a) (.dt b) = some (compare a.instant b.instant) := by
  simp [scalarEq, scalarCmp]

/-- The same instant seen from another offset is equal and `cmp`-equal. -/
theorem C17_chrono_offset_invariant (a : DT) (off : Int) :
    scalarEq (.dt (toOffset a off)) (.dt a) = true ∧ scalarCmp (.dt (toOffset a off)) (.dt a) = some .eq := by
  have := (C17_offset_arith a off).1
  simp [scalarEq, scalarCmp, this]

example : scalarEq (.dt (mkDT 2016 2 16 10 0 0 0 3600)) (.dt (mkDT 2016 2 16 9 0 0 0 0)) = true := by decide

/-! ## Default print / parse -/

/-- **Round-trip.** A date-time printed in its default form (`Display`: with the sub-second digits
when there are any, offset as `±HHMM`) and parsed back by `DateTime::from_str` denotes the same
local time and the same offset — hence the same instant — for every year the crate can represent
(−9999 ..= 9999, in particular 0 ..= 9999), every nanosecond, and every offset of whole minutes
below 20 h (the offset regex `[+-][01][0-9]{3}$` accepts nothing larger, and the default form
has no place for offset seconds). -/
theorem C17_default_roundtrip (d : DT) (hy1 : -9999 ≤ year d) (hy2 : year d ≤ 9999)
    (hm : d.off % 60 = 0) (hlo : -72000 < d.off) (hhi : d.off < 72000) :
    ∃ e, parseDT (displayDT d) = .some e ∧ e.loc = d.loc ∧ e.off = d.off ∧ e.instant = d.instant := by
  obtain ⟨e, h1, h2, h3⟩ := default_roundtrip d hy1 hy2 hm hlo hhi
  exact ⟨e, h1, h2, h3, by unfold DT.instant; rw [h2, h3]⟩

example : displayDT (mkDT 2022 1 3 7 56 37 5000000 (-1800)) = "2022-01-03 07:56:37.005 -0030".toList := by decide

/-- An offset with seconds cannot round-trip: the default form drops them (outside the property's
quantifier, recorded so that the hypothesis `off % 60 = 0` is seen to be needed). -/
theorem C17_default_roundtrip_needs_minute_offsets :
    displayDT (mkDT 2022 1 3 7 56 37 0 3630) = displayDT (mkDT 2022 1 3 7 56 37 0 3600) := by decide

/-! ## strftime -/

/-- **Never a crash.** For every timestamp and every format string (any Unicode text) the
repaired `strftime` returns a string or the format error; no slice, index or arithmetic panic. -/
theorem C17_never_panics (d : DT) (fmt : Str) :
    (∃ s, strftime d fmt = .ok s) ∨ strftime d fmt = .err := by
  rw [strftime_eq]
  cases runA d .text fmt <;> simp [toRes]

/-- … and hence neither does the `date` filter. -/
theorem C17_date_filter_never_panics (input : V) (args : List V) (site : String) :
    dateFilter true input args ≠ .panic site := by
  have key : ∀ d fmt p, strftimeG true d fmt ≠ .panic p := by
    intro d fmt p h
    rcases C17_never_panics d fmt with ⟨s, hs⟩ | hs <;> (unfold strftime at hs; rw [h] at hs; cases hs)
  unfold dateFilter
  repeat' split
  all_goals first
    | (intro h; cases h; done)
    | (intro h; cases h; exact key _ _ _ ‹_›)

/-- The format `%é` crashed the code at the pinned commit (D7): `fmt[fmt_pos..=cursor]` ends
inside the two-byte `é`. -/
theorem C17_unknown_echo_old_counterexample :
    ∃ site, strftimeG false (mkDT 2022 1 3 7 56 37 0 0) ['%', 'é'] = .panic site := ⟨_, rfl⟩

/-- **Unknown directive.** After literal text, `%`, any flags and width, a character that is not
a directive (ASCII or not) makes the whole directive text appear in the output verbatim, and
formatting continues after it. -/
theorem C17_unknown_echo (d : DT) (pre fs ds : Str) (c : Char) (post : Str)
    (hpre : '%' ∉ pre) (hfs : ∀ x ∈ fs, isFlagChar x = true) (hds : ∀ x ∈ ds, x.isDigit = true)
    (hds0 : ds.head? ≠ some '0') (hw : decVal ds < 2 ^ 16)
    (hc1 : isFlagChar c = false) (hc2 : c.isDigit = false) (hc3 : c ≠ 'E') (hc4 : c ≠ 'O') (hc5 : c ≠ ':')
    (hc : knownDirective c = false) :
    strftime d (pre ++ '%' :: (fs ++ ds ++ c :: post)) =
      prepend (pre ++ '%' :: (fs ++ ds ++ [c])) (strftime d post) := by
  rw [strftime_single d pre fs ds c post hpre hfs hds hds0 hc1 hc2 hc3 hc4 hc5]
  have : specWidth ds = some (if ds = [] then none else some (decVal ds)) := by
    unfold specWidth parseUsize; split <;> simp [hw]
  rw [this]
  simp [directive_unknown true d _ _ c hc]

/-- Every non-ASCII character satisfies the hypotheses of `C17_unknown_echo`. -/
theorem C17_nonascii_is_unknown (c : Char) (h : 128 ≤ c.toNat) :
    isFlagChar c = false ∧ c.isDigit = false ∧ c ≠ 'E' ∧ c ≠ 'O' ∧ c ≠ ':' ∧ knownDirective c = false := by
  have ne : ∀ x : Char, x.toNat < 128 → c ≠ x := fun x hx e => by subst e; omega
  refine ⟨?_, ?_, ne _ (by decide), ne _ (by decide), ne _ (by decide), ?_⟩
  · simp only [isFlagChar, Bool.or_eq_false_iff, beq_eq_false_iff_ne]
    exact ⟨⟨⟨⟨ne _ (by decide), ne _ (by decide)⟩, ne _ (by decide)⟩, ne _ (by decide)⟩, ne _ (by decide)⟩
  · simp only [Char.isDigit, Bool.and_eq_false_iff, decide_eq_false_iff_not]
    right
    show ¬ c.val ≤ 57
    intro hle
    have : c.toNat ≤ 57 := hle
    omega
  · simp only [knownDirective, List.contains_eq_mem, List.mem_cons, List.not_mem_nil, or_false,
      decide_eq_false_iff_not, not_or]
    refine ⟨?_, ?_, ?_, ?_, ?_, ?_, ?_, ?_, ?_, ?_, ?_, ?_, ?_, ?_, ?_, ?_, ?_, ?_, ?_, ?_, ?_, ?_, ?_, ?_, ?_, ?_, ?_, ?_,
      ?_, ?_, ?_, ?_, ?_, ?_, ?_, ?_, ?_, ?_, ?_, ?_, ?_, ?_, ?_, ?_⟩ <;> exact ne _ (by decide)

example : strftime (mkDT 2022 1 3 7 56 37 0 0) ['a', '%', '-', '5', 'é', '%', 'Y'] = .ok ['a', '%', '-', '5', 'é', '2', '0', '2', '2'] := by rfl

/-- **Malformed formats are errors** (as the code documents: `NoFormatSpecifier`,
`NoFormatSpecifierAfterModifier`, `InvalidWidth`): a `%` followed by nothing but flags and width
digits, the same ending in an `E`/`O` modifier, and a width that does not fit `usize` before a
directive character. -/
theorem C17_malformed_is_err (d : DT) (pre fs ds : Str)
    (hpre : '%' ∉ pre) (hfs : ∀ x ∈ fs, isFlagChar x = true) (hds : ∀ x ∈ ds, x.isDigit = true)
    (hds0 : ds.head? ≠ some '0') :
    strftime d (pre ++ '%' :: (fs ++ ds)) = .err ∧
    (∀ m, m = 'E' ∨ m = 'O' → strftime d (pre ++ '%' :: (fs ++ ds ++ [m])) = .err) ∧
    (∀ c post, 2 ^ 16 ≤ decVal ds → isFlagChar c = false → c.isDigit = false → c ≠ 'E' → c ≠ 'O' → c ≠ ':' →
      strftime d (pre ++ '%' :: (fs ++ ds ++ c :: post)) = .err) := by
  refine ⟨strftime_dangling d pre fs ds hpre hfs hds hds0,
    fun m hm => strftime_dangling_modifier d pre fs ds m hpre hfs hds hds0 hm, ?_⟩
  intro c post hbig hc1 hc2 hc3 hc4 hc5
  rw [strftime_single d pre fs ds c post hpre hfs hds hds0 hc1 hc2 hc3 hc4 hc5]
  have hne : ds ≠ [] := by rintro rfl; simp [decVal] at hbig
  have : specWidth ds = none := by
    unfold specWidth parseUsize; simp [hne]; omega
  rw [this]

example : strftime (mkDT 2022 1 3 7 56 37 0 0) ['X', '%'] = .err := by rfl
example : strftime (mkDT 2022 1 3 7 56 37 0 0) ['%', '-', '_', '0', '1', '0'] = .err := by rfl
example : strftime (mkDT 2022 1 3 7 56 37 0 0) ['%', '9', 'E'] = .err := by rfl

/-- **Flags.** `-` (anywhere among the flags) switches padding off. -/
theorem C17_flag_minus (fs : Str) : (fs.foldl Flags.apply {}).usePad = !fs.contains '-' := by
  rw [flags_usePad]; rfl

/-- the padding choice after a flag string is decided by its last `_` / `0` -/
def lastPad : Str → Pad → Pad
  | [], p => p
  | c :: r, p => lastPad r (if c = '_' then .space else if c = '0' then .zero else p)

theorem foldl_pad (fs : Str) (f : Flags) : (fs.foldl Flags.apply f).pad = lastPad fs f.pad := by
  induction fs generalizing f with
  | nil => rfl
  | cons c r ih =>
    simp only [List.foldl_cons, lastPad]
    rw [ih]
    congr 1
    unfold Flags.apply
    by_cases h1 : c = '-'
    · subst h1; simp
    · by_cases h2 : c = '_'
      · subst h2; simp
      · by_cases h3 : c = '0'
        · subst h3; simp
        · by_cases h4 : c = '^'
          · subst h4; simp
          · by_cases h5 : c = '#'
            · subst h5; simp
            · simp [h1, h2, h3, h4, h5]

/-- **Several flags on one directive: the last of `_` and `0` decides the padding character**,
whatever other flags stand before, between or after them (with `C17_flag_minus`: `-` switches
padding off wherever it stands; `C17_numeric_directive` turns this into the printed text). -/
theorem C17_flag_last_pad_wins (fs gs : Str) (hg : ∀ c ∈ gs, c ≠ '_' ∧ c ≠ '0') :
    ((fs ++ '_' :: gs).foldl Flags.apply {}).pad = .space ∧
    ((fs ++ '0' :: gs).foldl Flags.apply {}).pad = .zero := by
  have tail : ∀ (gs : Str) (p : Pad), (∀ c ∈ gs, c ≠ '_' ∧ c ≠ '0') → lastPad gs p = p := by
    intro gs
    induction gs with
    | nil => intro p _; rfl
    | cons c r ih =>
      intro p h
      have hc := h c (List.mem_cons_self)
      simp only [lastPad, hc.1, hc.2, if_false]
      exact ih p (fun x hx => h x (List.mem_cons_of_mem _ hx))
  have app : ∀ (a b : Str) (p : Pad), lastPad (a ++ b) p = lastPad b (lastPad a p) := by
    intro a
    induction a with
    | nil => intro b p; rfl
    | cons c r ih => intro b p; simp only [List.cons_append, lastPad]; exact ih b _
  constructor
  · rw [foldl_pad, app]; simp only [lastPad, if_true]; exact tail gs _ hg
  · rw [foldl_pad, app]
    have : ('0' : Char) ≠ '_' := by decide
    simp only [lastPad, this, if_false, if_true]; exact tail gs _ hg

example : (("0_".toList).foldl Flags.apply {}).pad = .space ∧ (("_0".toList).foldl Flags.apply {}).pad = .zero := by decide

/-- **Numeric directives.** `%Y %C %y %m %d %e %j %H %k %I %l %M %S %u %w %U %W %G %g %V %s` print
their calendar field (`numericField`, in terms of the independent calendar) in decimal,
right-aligned in the given width — the documented default width when none is given, *not* the
larger of the two — filled with `0`, or with blanks under the `_` flag and by default for
`%e %k %l`; with `-` the bare number.  A negative field (years before 0, instants before 1970)
carries its sign as `fmtNumeric_neg` describes.  Formatting then continues with the rest. -/
theorem C17_numeric_directive (d : DT) (pre fs ds : Str) (c : Char) (post : Str) (v : Int) (dw : Nat) (b : Bool)
    (hpre : '%' ∉ pre) (hfs : ∀ x ∈ fs, isFlagChar x = true) (hds : ∀ x ∈ ds, x.isDigit = true)
    (hds0 : ds.head? ≠ some '0') (hw : decVal ds < 2 ^ 16)
    (hf : numericField d c = some (v, dw, b)) (hv : 0 ≤ v) :
    let fl := fs.foldl Flags.apply {}
    let width := if ds = [] then dw else decVal ds
    let fill := if fl.pad = .space ∨ (b = true ∧ fl.pad = .dflt) then ' ' else '0'
    strftime d (pre ++ '%' :: (fs ++ ds ++ c :: post)) =
      prepend (pre ++ (if fl.usePad then padLeft width fill (natDigits v.toNat) else natDigits v.toNat))
        (strftime d post) := by
  obtain ⟨hc1, hc2, hc3, hc4, hc5⟩ := numericField_char d c _ hf
  intro fl width fill
  rw [strftime_single d pre fs ds c post hpre hfs hds hds0 hc1 hc2 hc3 hc4 hc5]
  have hsw : specWidth ds = some (if ds = [] then none else some (decVal ds)) := by
    unfold specWidth parseUsize; split <;> simp [hw]
  rw [hsw]
  simp only [directive_numeric true d _ _ c v dw b hf, Option.getD_some, fmtNumeric_nonneg _ _ v dw hv]
  have hpad : (if b = true then fl.spaceDefault else fl).usePad = fl.usePad := by
    cases b <;> simp [Flags.spaceDefault] <;> split <;> rfl
  have hfill : padCharNum (if b = true then fl.spaceDefault else fl).pad = fill := by
    cases b <;> cases hp : fl.pad <;> simp [fill, Flags.spaceDefault, padCharNum, hp]
  have hwd : (if ds = [] then (none : Option Nat) else some (decVal ds)).getD dw = width := by
    simp only [width]; split <;> simp
  rw [hpad, hfill, hwd]


/-- **Fractional seconds.** `%L` / `%N` print the first `k` digits (`k` = the width; 3 resp. 9
by default; flags are ignored) of the nanosecond written with nine digits — the nine digits
being characterised by: nine characters, all decimal digits, value = the nanosecond — and
continue with zeros when `k > 9`. -/
theorem C17_fraction (d : DT) (pre fs ds : Str) (c : Char) (post : Str)
    (hpre : '%' ∉ pre) (hfs : ∀ x ∈ fs, isFlagChar x = true) (hds : ∀ x ∈ ds, x.isDigit = true)
    (hds0 : ds.head? ≠ some '0') (hw : decVal ds < 2 ^ 16) (hc : c = 'L' ∨ c = 'N') :
    let k := if ds = [] then (if c = 'L' then 3 else 9) else decVal ds
    let nine := pad9 (nanos d)
    (nine.length = 9 ∧ (∀ x ∈ nine, x.isDigit = true) ∧ (decVal nine : Int) = nanos d) ∧
    strftime d (pre ++ '%' :: (fs ++ ds ++ c :: post)) =
      prepend (pre ++ (nine ++ rep (k - 9) '0').take k) (strftime d post) := by
  intro k nine
  have hn : 0 ≤ nanos d ∧ nanos d < 1000000000 := by
    unfold nanos nsPerSec; omega
  refine ⟨pad9_spec (nanos d) hn.1 hn.2, ?_⟩
  have hcs : isFlagChar c = false ∧ c.isDigit = false ∧ c ≠ 'E' ∧ c ≠ 'O' ∧ c ≠ ':' := by
    rcases hc with rfl | rfl <;> decide
  obtain ⟨hc1, hc2, hc3, hc4, hc5⟩ := hcs
  rw [strftime_single d pre fs ds c post hpre hfs hds hds0 hc1 hc2 hc3 hc4 hc5]
  have hsw : specWidth ds = some (if ds = [] then none else some (decVal ds)) := by
    unfold specWidth parseUsize; split <;> simp [hw]
  rw [hsw]
  have hk : ∀ isL : Bool, (isL = true ↔ c = 'L') →
      (if ds = [] then (none : Option Nat) else some (decVal ds)).getD (if isL then 3 else 9) = k := by
    intro isL h
    simp only [k]
    split <;> simp
    cases isL <;> simp_all
  rcases hc with rfl | rfl
  · simp only [directive, Char.reduceEq, if_false, if_true, Option.getD_some, or_self]
    rw [fmtFraction_spec _ true _ hn.1 hn.2, hk true (by simp)]
  · simp only [directive, Char.reduceEq, if_false, if_true, Option.getD_some, or_self]
    rw [fmtFraction_spec _ false _ hn.1 hn.2, hk false (by simp)]

/-- At the pinned commit 5 ms printed as `500` under `%L` and `500000000` under `%N` (D16). -/
theorem C17_fraction_old_counterexample :
    strftimeG false (mkDT 2022 1 3 7 56 37 5000000 0) ['%', 'L'] = .ok ['5', '0', '0'] ∧
    strftimeG false (mkDT 2022 1 3 7 56 37 5000000 0) ['%', 'N'] = .ok ['5', '0', '0', '0', '0', '0', '0', '0', '0'] ∧
    strftime (mkDT 2022 1 3 7 56 37 5000000 0) ['%', 'L'] = .ok ['0', '0', '5'] ∧
    strftime (mkDT 2022 1 3 7 56 37 5000000 0) ['%', 'N'] = .ok ['0', '0', '5', '0', '0', '0', '0', '0', '0'] :=
  ⟨rfl, rfl, rfl, rfl⟩

/-- **UTC offset (`%z`, `%Z`, `%:z`, `%::z`).** Sign of the *offset*, hours (zero-filled after the
sign, or — under `_` — blank-filled before it), minutes and, for `%::z`, seconds, each two digits. -/
theorem C17_offset (fl : Flags) (w : Option Nat) (off : Int) (hm ms : Bool) :
    let sign := if off < 0 then '-' else '+'
    let hh := natDigits (offHours off).natAbs
    let width := max (w.getD 0 - (5 + (if hm then 1 else 0) + (if ms then 3 else 0)) + 2) 2
    fmtOffset true fl w off hm ms =
      (if fl.pad = .space then padLeft (width + 1) ' ' (sign :: hh) else sign :: padLeft width '0' hh) ++
      (if hm then [':'] else []) ++ pad2 (offMinutes off) ++ (if ms then ':' :: pad2 (offSeconds off) else []) := by
  intro sign hh width
  have e : (1 + 2 + (if hm then 1 else 0) + 2 + (if ms then 3 else 0) : Nat) = 5 + (if hm then 1 else 0) + (if ms then 3 else 0) := by
    omega
  unfold fmtOffset
  simp only [e]
  cases hp : fl.pad <;> simp [sign, hh, width]

/-- At the pinned commit `%_z` printed the offset -00:30 as `+030` (D17: the sign of the hour
component, which is zero, instead of the sign of the offset). -/
theorem C17_offset_old_counterexample :
    strftimeG false (mkDT 2022 1 3 7 56 37 0 (-1800)) ['%', '_', 'z'] = .ok ['+', '0', '3', '0'] ∧
    strftime (mkDT 2022 1 3 7 56 37 0 (-1800)) ['%', '_', 'z'] = .ok [' ', '-', '0', '3', '0'] ∧
    strftime (mkDT 2022 1 3 7 56 37 0 (-1800)) ['%', 'z'] = .ok ['-', '0', '0', '3', '0'] :=
  ⟨rfl, rfl, rfl⟩

theorem natAbs_tmod_lt60 (a : Int) : (a.tmod 60).natAbs < 100 := by
  rcases Int.le_total 0 a with h | h
  · rw [Int.tmod_eq_emod_of_nonneg h]; omega
  · have e : a.tmod 60 = -((-a).tmod 60) := by rw [Int.neg_tmod]; omega
    rw [e, Int.tmod_eq_emod_of_nonneg (by omega)]; omega
theorem natAbs_tdiv_lt (a : Int) (h : a.natAbs < 360000) : (a.tdiv 3600).natAbs < 100 := by
  rcases Int.le_total 0 a with h0 | h0
  · rw [Int.tdiv_eq_ediv_of_nonneg h0]; omega
  · have e : a.tdiv 3600 = -((-a).tdiv 3600) := by rw [Int.neg_tdiv]; omega
    rw [e, Int.tdiv_eq_ediv_of_nonneg (by omega)]; omega

/-- **The offset fills its width** under every padding style: the field is as wide as requested
(5/6/9 columns by default for `%z` / `%:z` / `%::z`), for zero- and for blank-filling alike — the
blank-filled form was one column short until the `fix:` commit (`%_10z` printed 9 columns). -/
theorem C17_offset_width (fl : Flags) (w : Option Nat) (off : Int) (hm ms : Bool)
    (hh : (natDigits (offHours off).natAbs).length ≤ 2) :
    (fmtOffset true fl w off hm ms).length =
      max (w.getD 0) (5 + (if hm then 1 else 0) + (if ms then 3 else 0)) := by
  have hd : ∀ m : Fin 100, (natDigits m.val).length ≤ 2 := by decide +kernel
  have hmin : (natDigits (offMinutes off).natAbs).length ≤ 2 := by
    have : (offMinutes off).natAbs < 100 := by unfold offMinutes; exact natAbs_tmod_lt60 _
    exact hd ⟨_, this⟩
  have hsec : (natDigits (offSeconds off).natAbs).length ≤ 2 := by
    have : (offSeconds off).natAbs < 100 := by unfold offSeconds; exact natAbs_tmod_lt60 _
    exact hd ⟨_, this⟩
  unfold fmtOffset pad2 padLeft rep
  cases hm <;> cases ms <;> cases hp : fl.pad <;>
    simp [List.length_append, List.length_replicate, hp] <;> omega

/-- the hypothesis holds for every offset the `time` crate can represent (|hours| ≤ 25) -/
theorem C17_offset_hours_two_digits (off : Int) (h : off.natAbs < 360000) :
    (natDigits (offHours off).natAbs).length ≤ 2 := by
  have hd : ∀ m : Fin 100, (natDigits m.val).length ≤ 2 := by decide +kernel
  have : (offHours off).natAbs < 100 := by unfold offHours; exact natAbs_tdiv_lt _ h
  exact hd ⟨_, this⟩

/-- **Literals.** `%%`, `%n`, `%t` are the character itself (right-aligned in a given width). -/
theorem C17_literal (d : DT) (pre post : Str) (hpre : '%' ∉ pre) :
    strftime d (pre ++ '%' :: '%' :: post) = prepend (pre ++ ['%']) (strftime d post) ∧
    strftime d (pre ++ '%' :: 'n' :: post) = prepend (pre ++ ['\n']) (strftime d post) ∧
    strftime d (pre ++ '%' :: 't' :: post) = prepend (pre ++ ['\t']) (strftime d post) := by
  have h := fun c h1 h2 h3 h4 h5 =>
    strftime_single d pre [] [] c post hpre (by simp) (by simp) (by simp) h1 h2 h3 h4 h5
  simp only [List.append_nil, List.nil_append] at h
  refine ⟨?_, ?_, ?_⟩
  · rw [h '%' (by decide) (by decide) (by decide) (by decide) (by decide)]; simp [specWidth, directive, fmtLit]
  · rw [h 'n' (by decide) (by decide) (by decide) (by decide) (by decide)]; simp [specWidth, directive, fmtLit]
  · rw [h 't' (by decide) (by decide) (by decide) (by decide) (by decide)]; simp [specWidth, directive, fmtLit]

/-- Ordinary text is copied. -/
theorem C17_text (d : DT) (pre post : Str) (hpre : '%' ∉ pre) :
    strftime d (pre ++ post) = prepend pre (strftime d post) := by
  rw [strftime_eq, strftime_eq, runA_lit d pre hpre]
  cases runA d .text post <;> rfl

/-- **`date_in_tz` (extra)** cannot crash either (repaired, D18): an hour count whose seconds
overflow `i32`, an offset beyond ±25:59:59 and a shifted date outside the representable years are
errors. -/
theorem C17_date_in_tz_never_panics (input : V) (args : List V) (site : String) :
    dateInTz true input args ≠ .panic site := by
  have key : ∀ d fmt p, strftimeG true d fmt ≠ .panic p := by
    intro d fmt p h
    rcases C17_never_panics d fmt with ⟨s, hs⟩ | hs <;> (unfold strftime at hs; rw [h] at hs; cases hs)
  unfold dateInTz
  simp only [↓reduceIte]
  repeat' split
  all_goals first
    | (intro h; cases h; done)
    | (intro h; cases h; exact key _ _ _ ‹_›)

/-- At the pinned commit `date_in_tz: fmt, 596524` overflowed `i32` (panic with overflow checks)
and shifting 9999-12-31 23:00 UTC by +2 h panicked inside `to_offset`. -/
theorem C17_date_in_tz_old_counterexample :
    (∃ s, dateInTz false (.sc (.dt (mkDT 2022 1 3 7 56 37 0 0))) [.sc (.str ['%', 'Y']), .sc (.int 596524)] = .panic s) ∧
    (∃ s, dateInTz false (.sc (.dt (mkDT 9999 12 31 23 0 0 0 0))) [.sc (.str ['%', 'Y']), .sc (.int 2)] = .panic s) ∧
    dateInTz true (.sc (.dt (mkDT 2022 1 3 7 56 37 0 0))) [.sc (.str ['%', 'Y']), .sc (.int 596524)] = .err ∧
    dateInTz true (.sc (.dt (mkDT 9999 12 31 23 0 0 0 0))) [.sc (.str ['%', 'Y']), .sc (.int 2)] = .err :=
  ⟨⟨_, rfl⟩, ⟨_, rfl⟩, rfl, rfl⟩

end Liquid.C17
