/-
  C20 — parsers and templates can be shared across threads without changing results.
  Model: `Model/Partials.lean` (`Sys`, `stepThread`: threads doing `get`s on one lazy store under
  its mutex).  Everything else a render touches is private to the call (`C09_fresh_runtime`).
  Not modelled (stated in the evidence): real preemption points, memory ordering, `Send`/`Sync`.
-/
import LiquidModel.Props.C19
namespace Liquid.C20
open Liquid

/-- the lock is held exactly by the thread that is in its critical section -/
def LockInv (s : Sys) : Prop :=
  (∀ (i : Nat) (t : TState), s.threads[i]? = some t → (t.phase = Phase.holding ↔ s.lock = some i)) ∧
  (∀ (i : Nat) (t : TState), s.threads[i]? = some t → t.phase = Phase.holding → t.todo ≠ []) ∧
  (∀ j, s.lock = some j → ∃ t, s.threads[j]? = some t)

/-- every result recorded so far is the answer `compiled` gives, and the cache is sound -/
def Sound (src : PSrc) (c : Compile) (s : Sys) : Prop :=
  C19.Inv src c s.cache ∧
  ∀ (i : Nat) (t : TState), s.threads[i]? = some t → ∀ x ∈ t.results, ∃ n, x = compiled src c n

theorem set_getElem? {α} (l : List α) (i j : Nat) (a : α) :
    (l.set i a)[j]? = if i = j ∧ i < l.length then some a else l[j]? := by
  by_cases h : i = j
  · subst h
    by_cases hl : i < l.length
    · simp [hl]
    · simp [hl]
  · simp [h]

/-- **Invariants are preserved by every step of every thread** — hence by every schedule. -/
theorem C20_step_inv (src : PSrc) (c : Compile) (s s' : Sys) (i : Nat)
    (hl : LockInv s) (hs : Sound src c s) (h : stepThread src c s i = some s') :
    LockInv s' ∧ Sound src c s' := by
  unfold stepThread at h
  cases ht : s.threads[i]? with
  | none => simp [ht] at h
  | some t =>
    have hi : i < s.threads.length := by
      rcases Nat.lt_or_ge i s.threads.length with h1 | h1
      · exact h1
      · rw [List.getElem?_eq_none h1] at ht; cases ht
    simp only [ht] at h
    cases hp : t.phase <;> cases htd : t.todo <;> simp only [hp, htd] at h
    · cases h
    · -- idle, acquire
      split at h
      · rename_i hfree
        cases h
        have hnone : s.lock = none := by cases hlk : s.lock <;> simp_all
        refine ⟨⟨?_, ?_, ?_⟩, ⟨hs.1, ?_⟩⟩
        · intro j tj hj
          simp only [set_getElem?] at hj
          by_cases hij : i = j
          · subst hij; simp [hi] at hj; subst hj; simp
          · simp [hij] at hj
            have := (hl.1 j tj hj)
            constructor
            · intro hh; have := this.mp hh; simp [hnone] at this
            · intro hh; simp at hh; exact absurd hh hij
        · intro j tj hj hh
          simp only [set_getElem?] at hj
          by_cases hij : i = j
          · subst hij; simp [hi] at hj; subst hj; simp [htd]
          · simp [hij] at hj; exact hl.2.1 j tj hj hh
        · intro j hj
          simp at hj; subst hj
          exact ⟨{ t with phase := Phase.holding }, by simp [set_getElem?, hi, htd]⟩
        · intro j tj hj x hx
          simp only [set_getElem?] at hj
          by_cases hij : i = j
          · subst hij; simp [hi] at hj; subst hj; exact hs.2 i t ht x hx
          · simp [hij] at hj; exact hs.2 j tj hj x hx
      · cases h
    · cases h
    · -- holding, release
      rename_i n r
      split at h
      · rename_i hmine
        have hmine' : s.lock = some i := by simpa using hmine
        obtain ⟨hget, hinv⟩ := C19.C19_lazy_correct src c s.cache n hs.1
        cases h
        refine ⟨⟨?_, ?_, ?_⟩, ⟨hinv, ?_⟩⟩
        · intro j tj hj
          simp only [set_getElem?] at hj
          by_cases hij : i = j
          · subst hij; simp [hi] at hj; subst hj; simp
          · simp [hij] at hj
            have := hl.1 j tj hj
            constructor
            · intro hh; have h2 := this.mp hh; rw [hmine'] at h2; simp at h2; exact absurd h2 hij
            · intro hh; simp at hh
        · intro j tj hj hh
          simp only [set_getElem?] at hj
          by_cases hij : i = j
          · subst hij; simp [hi] at hj; subst hj; simp at hh
          · simp [hij] at hj; exact hl.2.1 j tj hj hh
        · intro j hj; simp at hj
        · intro j tj hj x hx
          simp only [set_getElem?] at hj
          by_cases hij : i = j
          · subst hij; simp [hi] at hj; subst hj
            simp only [List.mem_append, List.mem_singleton] at hx
            rcases hx with hx | hx
            · exact hs.2 i t ht x hx
            · exact ⟨n, by rw [hx, hget]⟩
          · simp [hij] at hj; exact hs.2 j tj hj x hx
      · cases h

/-- a schedule: which thread moves at each instant -/
def runSched (src : PSrc) (c : Compile) : List Nat → Sys → Sys
  | [], s => s
  | i :: r, s => match stepThread src c s i with
    | some s' => runSched src c r s'
    | none => runSched src c r s          -- a thread that cannot move just loses its turn

/-- **Schedule freedom.** For every schedule of every number of threads, every `get` any thread
has completed returned exactly what it returns alone (`compiled`: the eager / sequential answer),
including the first simultaneous use of a lazily compiled valid or broken partial. -/
theorem C20_schedule_free (src : PSrc) (c : Compile) (sched : List Nat) (s : Sys)
    (hl : LockInv s) (hs : Sound src c s) :
    LockInv (runSched src c sched s) ∧ Sound src c (runSched src c sched s) := by
  induction sched generalizing s with
  | nil => exact ⟨hl, hs⟩
  | cons i r ih =>
    simp only [runSched]
    cases hst : stepThread src c s i with
    | none => exact ih s hl hs
    | some s' =>
      obtain ⟨hl', hs'⟩ := C20_step_inv src c s s' i hl hs hst
      exact ih s' hl' hs'

/-- the results a thread gets are in order the answers for the names it asked, whatever the others do -/
theorem C20_results_are_sequential (src : PSrc) (c : Compile) (s s' : Sys) (i : Nat) (t : TState) (n : Str) (r : List Str)
    (hs : Sound src c s) (ht : s.threads[i]? = some t) (hp : t.phase = .holding) (htd : t.todo = n :: r)
    (hlock : s.lock = some i) (h : stepThread src c s i = some s') :
    ∃ t', s'.threads[i]? = some t' ∧ t'.results = t.results ++ [compiled src c n] ∧ t'.todo = r := by
  have hi : i < s.threads.length := by
    rcases Nat.lt_or_ge i s.threads.length with h1 | h1
    · exact h1
    · rw [List.getElem?_eq_none h1] at ht; cases ht
  unfold stepThread at h
  simp only [ht, hp, htd, hlock, beq_self_eq_true, if_true] at h
  cases h
  refine ⟨{ todo := r, phase := .idle, results := t.results ++ [(lazyGet src c s.cache n).1] }, by simp [hi], ?_, rfl⟩
  simp [(C19.C19_lazy_correct src c s.cache n hs.1).1]

/-- **No deadlock.** In every reachable state (lock invariant), as long as some thread still has
work, some thread can move: the holder can always finish its critical section (it is a total
function — parsing never panics, C01, so the mutex is never poisoned), and a free lock can always
be taken. -/
theorem C20_no_deadlock (src : PSrc) (c : Compile) (s : Sys) (hl : LockInv s)
    (hwork : ∃ (i : Nat) (t : TState), s.threads[i]? = some t ∧ t.todo ≠ []) :
    ∃ i, (stepThread src c s i).isSome = true := by
  cases hlk : s.lock with
  | some j =>
    -- the holder exists, is in its critical section and has its `get` to finish
    obtain ⟨tj, htj⟩ := hl.2.2 j hlk
    have hh : tj.phase = Phase.holding := (hl.1 j tj htj).mpr hlk
    have hne := hl.2.1 j tj htj hh
    refine ⟨j, ?_⟩
    unfold stepThread
    cases htd : tj.todo with
    | nil => exact absurd htd hne
    | cons n r => simp [htj, hh, htd, hlk]
  | none =>
    obtain ⟨i, t, hti, hne⟩ := hwork
    have hidle : t.phase = Phase.idle := by
      cases hp : t.phase with
      | idle => rfl
      | holding => have := (hl.1 i t hti).mp hp; rw [hlk] at this; cases this
    refine ⟨i, ?_⟩
    unfold stepThread
    cases htd : t.todo with
    | nil => exact absurd htd hne
    | cons n r => simp [hti, hidle, htd, hlk]

/-- the start state of any number of threads with any work satisfies the invariants -/
theorem C20_initial (src : PSrc) (c : Compile) (work : List (List Str)) :
    LockInv { threads := work.map fun w => { todo := w } } ∧
    Sound src c { threads := work.map fun w => { todo := w } } := by
  refine ⟨⟨?_, ?_, ?_⟩, ⟨C19.inv_nil src c, ?_⟩⟩
  · intro i t ht
    simp only [List.getElem?_map] at ht
    cases hw : work[i]? <;> simp [hw] at ht
    subst ht; simp
  · intro i t ht hh
    simp only [List.getElem?_map] at ht
    cases hw : work[i]? <;> simp [hw] at ht
    subst ht; simp at hh
  · intro j hj; simp at hj
  · intro i t ht x hx
    simp only [List.getElem?_map] at ht
    cases hw : work[i]? <;> simp [hw] at ht
    subst ht; simp at hx

/-- **No poisoning**: the critical section is a total function into {ok, err}; it has no panic
outcome (the only way a Rust mutex is poisoned). -/
theorem C20_no_poison (src : PSrc) (c : Compile) (σ : Cache) (name : Str) :
    (lazyGet src c σ name).1.isPanic = false := by
  unfold lazyGet
  cases cacheFind σ name with
  | some r => cases r <;> rfl
  | none =>
    cases src.text name with
    | none => rfl
    | some s => simp only []; cases c s <;> rfl

end Liquid.C20
