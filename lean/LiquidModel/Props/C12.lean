/-
  C12 — all views and conversions of a datum agree (owned, borrowed, serde, derive).

  Property theorems only (plus non-vacuity examples).  Model: `Model/Serde.lean` (+ the single
  definitions of the observations in `Model/Value.lean`); hypotheses are the executable predicates
  of `Spec/C12.lean`, which the driver also evaluates on the implementation's observations.

  What is *not* a theorem: that the many Rust impls of `ValueView` (`Value`, `ValueCow`, `&T`,
  `Option<T>`, `Vec<T>`, maps, derived structs …) agree with the single Lean definition of each
  observation.  The model has one definition; the agreement of the Rust impls with it is
  established by the differential harness (`harness/src/c12.rs`), on every run.
-/
import LiquidModel.Lemmas.C12
import LiquidModel.Model.Render
import LiquidModel.Props.C07
namespace Liquid.C12
open Liquid

/-! ## keys survive every conversion -/

private def kd : List Str → Bool
  | [] => true
  | k :: r => !(r.any (· == k)) && kd r

private theorem keysDistinct_eq_kd {α : Type} (es : List (Str × α)) :
    keysDistinct es = kd (es.map (·.1)) := by
  induction es with
  | nil => rfl
  | cons e r ih => obtain ⟨k, v⟩ := e; simp [keysDistinct, kd, ih, List.any_map, Function.comp_def]

private theorem keysDistinct_congr {α β : Type} (es : List (Str × α)) (fs : List (Str × β))
    (h : es.map (·.1) = fs.map (·.1)) : keysDistinct es = keysDistinct fs := by
  rw [keysDistinct_eq_kd, keysDistinct_eq_kd, h]

private theorem keys_imageO (kvs : List (Str × V)) : (imageO kvs).map (·.1) = kvs.map (·.1) := by
  induction kvs with
  | nil => rfl
  | cons e r ih => obtain ⟨k, v⟩ := e; simp [imageO, ih]

private theorem keys_tdViewF (fs : List (Str × TD)) : (tdViewF fs).map (·.1) = fs.map (·.1) := by
  induction fs with
  | nil => rfl
  | cons e r ih => obtain ⟨k, v⟩ := e; simp [tdViewF, ih]

/-! ## 1. `to_value(&v)`: exact characterisation, and what round-trips -/

mutual
private theorem ser_image : (v : V) → invV v = true → serialize v.toSD = .ok (serdeImage v)
  | .nil, _ => by simp [V.toSD, serialize, serdeImage]
  | .st s, _ => by simp [V.toSD, serialize, serdeImage]
  | .sc s, h => by
    cases s <;> simp_all [V.toSD, Sc.toSD, serialize, serInt, serdeImage, invV, scInv, IntTag.is128]
  | .arr xs, h => by
    have := serL_image xs (by simpa [invV] using h)
    simp [V.toSD, serialize, this, serdeImage]
  | .obj kvs, h => by
    simp only [invV, Bool.and_eq_true] at h
    have h1 := serO_image kvs h.2
    have h2 : keysDistinct (imageO kvs) = true := by
      rw [keysDistinct_congr (imageO kvs) kvs (keys_imageO kvs)]; exact h.1
    simp [V.toSD, serialize, h1, serdeImage, objOfEntries_distinct _ h2]
private theorem serL_image : (xs : List V) → invL xs = true → serList (toSDL xs) = .ok (imageL xs)
  | [], _ => by simp [toSDL, serList, imageL]
  | x :: xs, h => by
    simp only [invL, Bool.and_eq_true] at h
    simp [toSDL, serList, imageL, ser_image x h.1, serL_image xs h.2]
private theorem serO_image : (kvs : List (Str × V)) → invO kvs = true →
    serEntries (toSDO kvs) = .ok (imageO kvs)
  | [], _ => by simp [toSDO, serEntries, imageO]
  | (k, v) :: r, h => by
    simp only [invO, Bool.and_eq_true] at h
    simp [toSDO, serEntries, imageO, mapKey, ser_image v h.1, serO_image r h.2]
end

/-- **`to_value(&v)` for every value** (only the model's own invariants assumed: distinct keys,
integers within `i64`): the result is `v` with every date / date-time replaced by its text and
every `State` marker replaced by the name of its enum variant — nothing else changes, and the
conversion never fails. -/
theorem C12_to_value_image (v : V) (h : invV v = true) : toValueV v = .ok (serdeImage v) :=
  ser_image v h

mutual
private theorem image_id : (v : V) → wfWith scSer v = true → serdeImage v = v
  | .nil, _ => rfl
  | .st _, h => by simp [wfWith] at h
  | .sc s, h => by cases s <;> simp_all [wfWith, scSer, serdeImage]
  | .arr xs, h => by simp [serdeImage, imageL_id xs (by simpa [wfWith] using h)]
  | .obj kvs, h => by
    simp only [wfWith, Bool.and_eq_true] at h
    simp [serdeImage, imageO_id kvs h.2]
private theorem imageL_id : (xs : List V) → wfL scSer xs = true → imageL xs = xs
  | [], _ => rfl
  | x :: xs, h => by
    simp only [wfL, Bool.and_eq_true] at h
    simp [imageL, image_id x h.1, imageL_id xs h.2]
private theorem imageO_id : (kvs : List (Str × V)) → wfO scSer kvs = true → imageO kvs = kvs
  | [], _ => rfl
  | (k, v) :: r, h => by
    simp only [wfO, Bool.and_eq_true] at h
    simp [imageO, image_id v h.1, imageO_id r h.2]
end

mutual
private theorem wf_inv : (v : V) → wfWith scSer v = true → invV v = true
  | .nil, _ => rfl
  | .st _, _ => rfl
  | .sc s, h => by cases s <;> simp_all [wfWith, scSer, invV, scInv]
  | .arr xs, h => by simpa [invV] using wfL_inv xs (by simpa [wfWith] using h)
  | .obj kvs, h => by
    simp only [wfWith, Bool.and_eq_true] at h
    simp [invV, h.1, wfO_inv kvs h.2]
private theorem wfL_inv : (xs : List V) → wfL scSer xs = true → invL xs = true
  | [], _ => rfl
  | x :: xs, h => by
    simp only [wfL, Bool.and_eq_true] at h
    simp [invL, wf_inv x h.1, wfL_inv xs h.2]
private theorem wfO_inv : (kvs : List (Str × V)) → wfO scSer kvs = true → invO kvs = true
  | [], _ => rfl
  | (k, v) :: r, h => by
    simp only [wfO, Bool.and_eq_true] at h
    simp [invO, wf_inv v h.1, wfO_inv r h.2]
end

/-- **Round trip 1** — `to_value(&v) = Ok(v)` for every value without dates, date-times and
`State` markers (any nesting, any strings — also strings that look like numbers or dates:
`ValueSerializer` never inspects text). -/
theorem C12_roundtrip_to_value (v : V) (h : wfWith scSer v = true) : toValueV v = .ok v := by
  rw [C12_to_value_image v (wf_inv v h), image_id v h]

example : wfWith scSer
    (.obj [("a".toList, .arr [.sc (.int 1), .sc (.str "2022-03-02".toList), .nil, .sc (.flt { bits := 0x7FF8000000000000 })]),
           ("b".toList, .obj [("c".toList, .sc (.bool true))])]) = true := by decide

/-- Corollary in the words of the property: kind, contents, the four truthiness answers, the
printed forms and (reflexive) equality are those of the original. -/
theorem C12_roundtrip_to_value_observations (v : V) (h : wfWith scSer v = true) :
    ∃ w, toValueV v = .ok w ∧ w.typeName = v.typeName ∧ w.render = v.render ∧
      w.source = v.source ∧ w.toKStr = v.toKStr ∧ (∀ q, w.queryState q = v.queryState q) ∧
      (∀ u, valueEq w u = valueEq v u) ∧ V.same w v = V.same v v :=
  ⟨v, C12_roundtrip_to_value v h, rfl, rfl, rfl, rfl, fun _ => rfl, fun _ => rfl, rfl⟩

mutual
private theorem image_render : (v : V) → wfWith (fun _ => true) v = true →
    (serdeImage v).render = v.render
  | .nil, _ => rfl
  | .st s, h => by simp [wfWith] at h
  | .sc s, _ => by cases s <;> simp [serdeImage, V.render, Sc.render]
  | .arr xs, h => by
    simp only [serdeImage, V.render]; exact imageL_render xs (by simpa [wfWith] using h)
  | .obj kvs, h => by
    simp only [wfWith, Bool.and_eq_true] at h
    simp only [serdeImage, V.render]; exact imageO_render kvs h.2
private theorem imageL_render : (xs : List V) → wfL (fun _ => true) xs = true →
    renderL (imageL xs) = renderL xs
  | [], _ => rfl
  | x :: xs, h => by
    simp only [wfL, Bool.and_eq_true] at h
    simp only [imageL, renderL]
    rw [imageL_render xs h.2, image_render x h.1]
private theorem imageO_render : (kvs : List (Str × V)) → wfO (fun _ => true) kvs = true →
    renderO (imageO kvs) = renderO kvs
  | [], _ => rfl
  | (k, v) :: r, h => by
    simp only [wfO, Bool.and_eq_true] at h
    simp only [imageO, renderO]
    rw [imageO_render r h.2, image_render v h.1]
end

/-- **Printed form survives `to_value` even where the kind does not**: for every value without
`State` markers — dates and date-times included — the converted value renders the same text. -/
theorem C12_to_value_render (v : V) (hinv : invV v = true) (h : wfWith (fun _ => true) v = true) :
    ∃ w, toValueV v = .ok w ∧ w.render = v.render :=
  ⟨serdeImage v, C12_to_value_image v hinv, image_render v h⟩

/-- What does *not* round-trip through `to_value` (replayed on the implementation by the
harness kinds `witness-date`, `witness-state`): a date comes back as a string — same text,
different kind, and no longer equal to the original … -/
theorem C12_to_value_date_counterexample :
    let d : Dt := { days := 19053, disp := "2022-03-02".toList }
    toValueV (.sc (.date d)) = .ok (.sc (.str "2022-03-02".toList)) ∧
    valueEq (.sc (.str "2022-03-02".toList)) (.sc (.date d)) = false ∧
    (V.sc (.str "2022-03-02".toList)).render = (V.sc (.date d)).render := by
  refine ⟨rfl, ?_, rfl⟩
  simp [valueEq, valueEqFlat, V.isNil, scalarEq]

/-- … and a `State` marker (which no template can produce) comes back as a non-empty string. -/
theorem C12_to_value_state_counterexample :
    toValueV (.st .blank) = .ok (.sc (.str "Blank".toList)) := rfl

/-! ## 2. `from_value::<Value>(&v)` -/

private theorem dtSame_eq {a b : DT} (h : dtSame a b = true) : a = b := by
  cases a; cases b; simp_all [dtSame]

private theorem dateSame_eq {a b : Dt} (h : dateSame a b = true) : a = b := by
  cases a; cases b; simp_all [dateSame]

private theorem desStr_plain (orc : TextOracle) (s : Str) (h : plainStr orc s = true) :
    desStr orc s = .str s := by
  simp only [plainStr, Bool.and_eq_true, Option.isNone_iff_eq_none] at h
  simp [desStr, h.1, h.2]

private theorem desStr_dt (orc : TextOracle) (d : DT) (h : dtReparses orc d = true) :
    desStr orc d.disp = .dt d := by
  unfold dtReparses at h
  split at h
  · rename_i d' hd; simp [desStr, hd, dtSame_eq h]
  · simp at h

private theorem desStr_date (orc : TextOracle) (d : Dt) (h : dateReparses orc d = true) :
    desStr orc d.disp = .date d := by
  unfold dateReparses at h
  simp only [Bool.and_eq_true, Option.isNone_iff_eq_none] at h
  obtain ⟨h1, h2⟩ := h
  split at h2
  · rename_i d' hd; simp [desStr, h1, hd, dateSame_eq h2]
  · simp at h2

private theorem keys_desO_toContO (orc : TextOracle) (kvs : List (Str × V)) :
    (desO orc (toContO kvs)).map (·.1) = kvs.map (·.1) := by
  induction kvs with
  | nil => rfl
  | cons e r ih => obtain ⟨k, v⟩ := e; simp [toContO, desO, ih]

mutual
private theorem from_id (orc : TextOracle) : (v : V) → wfWith (scFrom orc) v = true →
    deserializeValue orc v.toCont = v
  | .nil, _ => rfl
  | .st _, h => by simp [wfWith] at h
  | .sc s, h => by
    simp only [wfWith] at h
    cases s with
    | int i => rfl
    | flt f => rfl
    | bool b => rfl
    | dt d => simp [V.toCont, Sc.toCont, deserializeValue, desStr_dt orc d (by simpa [scFrom] using h)]
    | date d => simp [V.toCont, Sc.toCont, deserializeValue, desStr_date orc d (by simpa [scFrom] using h)]
    | str s => simp [V.toCont, Sc.toCont, deserializeValue, desStr_plain orc s (by simpa [scFrom] using h)]
  | .arr xs, h => by
    simp [V.toCont, deserializeValue, fromL_id orc xs (by simpa [wfWith] using h)]
  | .obj kvs, h => by
    simp only [wfWith, Bool.and_eq_true] at h
    have h1 := fromO_id orc kvs h.2
    simp [V.toCont, deserializeValue, h1, objOfEntries_distinct _ h.1]
private theorem fromL_id (orc : TextOracle) : (xs : List V) → wfL (scFrom orc) xs = true →
    desL orc (toContL xs) = xs
  | [], _ => rfl
  | x :: xs, h => by
    simp only [wfL, Bool.and_eq_true] at h
    simp [toContL, desL, from_id orc x h.1, fromL_id orc xs h.2]
private theorem fromO_id (orc : TextOracle) : (kvs : List (Str × V)) → wfO (scFrom orc) kvs = true →
    desO orc (toContO kvs) = kvs
  | [], _ => rfl
  | (k, v) :: r, h => by
    simp only [wfO, Bool.and_eq_true] at h
    simp [toContO, desO, from_id orc v h.1, fromO_id orc r h.2]
end

/-- **Round trip 2** — `from_value::<Value>(&v) = v` (for the repaired `deserialize_any`) for
every value without `State` markers whose strings are not in the date / date-time text format
and whose dates / date-times parse back from their own Display text (for *whatever* the `time`
crate's parsers do: `orc` is universally quantified).  In particular integers stay the same
integers, floats keep their bits (NaN included), and strings that look like numbers stay strings. -/
theorem C12_roundtrip_from_value (orc : TextOracle) (v : V) (h : wfWith (scFrom orc) v = true) :
    fromValueV orc v = v := from_id orc v h

/-- an oracle that recognises nothing (e.g. on data without date-like text) -/
def noDates : TextOracle := { dt := fun _ => none, date := fun _ => none }

example : wfWith (scFrom noDates)
    (.obj [("a".toList, .arr [.sc (.int 1), .sc (.str "123".toList), .nil]), ("b".toList, .sc (.bool true))]) = true := by
  decide

/-- The code at the pinned commit violates round trip 2 on numeric-looking strings:
`from_value::<Value>(&Value::scalar("123"))` is the *integer* 123 — another kind, and not equal
to the original (harness kind `witness-numstr`; repaired by patches/C12-deserialize-any.diff). -/
theorem C12_from_value_numeric_string_old_counterexample (fp : Str → Option Fl) :
    fromValueScOld noDates fp (.str "123".toList) = .sc (.int 123) ∧
    valueEq (.sc (.int 123)) (.sc (.str "123".toList)) = false ∧
    fromValueV noDates (.sc (.str "123".toList)) = .sc (.str "123".toList) := by
  have hp : parseI64 "123".toList = some 123 := by decide
  refine ⟨?_, ?_, rfl⟩
  · simp only [fromValueScOld, Sc.toContOld, hp, deserializeValue]
  · simp [valueEq, valueEqFlat, V.isNil, scalarEq]

/-- … and the printed form changes too as soon as the text is not the canonical one:
`"1e3"` comes back as the float 1000 (whatever `str::parse::<f64>` returns is kept as a float). -/
theorem C12_from_value_float_string_old_counterexample (fp : Str → Option Fl) (f : Fl)
    (h : fp "1e3".toList = some f) :
    fromValueScOld noDates fp (.str "1e3".toList) = .sc (.flt f) := by
  have : parseI64 "1e3".toList = none := by decide
  simp only [fromValueScOld, Sc.toContOld, this, h, deserializeValue]

/-- By design of the untagged `Scalar` (not repaired): a *string* in the date format comes back
as a date (harness kind `witness-datestr`). -/
theorem C12_from_value_date_string_counterexample (orc : TextOracle) (d : Dt)
    (h1 : orc.dt "2022-03-02".toList = none) (h2 : orc.date "2022-03-02".toList = some d) :
    fromValueV orc (.sc (.str "2022-03-02".toList)) = .sc (.date d) := by
  simp only [fromValueV, V.toCont, Sc.toCont, deserializeValue, desStr, h1, h2]

/-- `State` markers come back as nil. -/
theorem C12_from_value_state_counterexample (orc : TextOracle) (s : St) :
    fromValueV orc (.st s) = .nil := rfl

/-! ## 3. through JSON text -/

private theorem keys_desO (orc : TextOracle) (es : List (Str × Cont)) :
    (desO orc es).map (·.1) = es.map (·.1) := by
  induction es with
  | nil => rfl
  | cons e r ih => obtain ⟨k, v⟩ := e; simp [desO, ih]

mutual
private theorem json_id (orc : TextOracle) : (v : V) → wfWith (scJson orc) v = true →
    (jsonOfSD v.toSD).map (deserializeValue orc) = some v
  | .nil, _ => rfl
  | .st _, h => by simp [wfWith] at h
  | .sc s, h => by
    simp only [wfWith] at h
    cases s with
    | int i =>
      simp only [scJson, inI64, Bool.and_eq_true, decide_eq_true_eq] at h
      by_cases hn : i < 0
      · simp [V.toSD, Sc.toSD, jsonOfSD, IntTag.is128, hn, deserializeValue]
      · simp [V.toSD, Sc.toSD, jsonOfSD, IntTag.is128, hn, deserializeValue, h.2]
    | flt f =>
      have hf : f.isFinite = true := by simpa [scJson] using h
      simp [V.toSD, Sc.toSD, jsonOfSD, hf, deserializeValue]
    | bool b => rfl
    | dt d => simp [V.toSD, Sc.toSD, jsonOfSD, deserializeValue, desStr_dt orc d (by simpa [scJson] using h)]
    | date d => simp [V.toSD, Sc.toSD, jsonOfSD, deserializeValue, desStr_date orc d (by simpa [scJson] using h)]
    | str s => simp [V.toSD, Sc.toSD, jsonOfSD, deserializeValue, desStr_plain orc s (by simpa [scJson] using h)]
  | .arr xs, h => by
    have := jsonL_id orc xs (by simpa [wfWith] using h)
    simp only [V.toSD, jsonOfSD]
    cases hj : jsonL (toSDL xs) with
    | none => simp [hj] at this
    | some ys => simp [hj] at this; simp [deserializeValue, this]
  | .obj kvs, h => by
    simp only [wfWith, Bool.and_eq_true] at h
    have := jsonO_id orc kvs h.2
    simp only [V.toSD, jsonOfSD]
    cases hj : jsonE (toSDO kvs) with
    | none => simp [hj] at this
    | some es => simp [hj] at this; simp [deserializeValue, this, objOfEntries_distinct _ h.1]
private theorem jsonL_id (orc : TextOracle) : (xs : List V) → wfL (scJson orc) xs = true →
    (jsonL (toSDL xs)).map (desL orc) = some xs
  | [], _ => rfl
  | x :: xs, h => by
    simp only [wfL, Bool.and_eq_true] at h
    have h1 := json_id orc x h.1
    have h2 := jsonL_id orc xs h.2
    simp only [toSDL, jsonL]
    cases hx : jsonOfSD x.toSD with
    | none => simp [hx] at h1
    | some y =>
      cases hxs : jsonL (toSDL xs) with
      | none => simp [hxs] at h2
      | some ys => simp [hx] at h1; simp [hxs] at h2; simp [desL, h1, h2]
private theorem jsonO_id (orc : TextOracle) : (kvs : List (Str × V)) → wfO (scJson orc) kvs = true →
    (jsonE (toSDO kvs)).map (desO orc) = some kvs
  | [], _ => rfl
  | (k, v) :: r, h => by
    simp only [wfO, Bool.and_eq_true] at h
    have h1 := json_id orc v h.1
    have h2 := jsonO_id orc r h.2
    simp only [toSDO, jsonE, jsonKey]
    cases hx : jsonOfSD v.toSD with
    | none => simp [hx] at h1
    | some y =>
      cases hxs : jsonE (toSDO r) with
      | none => simp [hxs] at h2
      | some ys => simp [hx] at h1; simp [hxs] at h2; simp [desO, h1, h2]
end

/-- **Round trip 3** — `serde_json::from_str::<Value>(&serde_json::to_string(&v)?) = v` for every
value without `State` markers, with finite floats, strings outside the date formats, and dates
that parse back from their text (the decimal text of floats is external: assumption in
`jsonOfSD`). -/
theorem C12_roundtrip_json (orc : TextOracle) (v : V) (h : wfWith (scJson orc) v = true) :
    viaJson orc v.toSD = some v := json_id orc v h

example : wfWith (scJson noDates)
    (.obj [("a".toList, .arr [.sc (.int (-5)), .sc (.int 9223372036854775807), .sc (.str "123".toList), .nil,
           .sc (.flt { bits := 0x3FF8000000000000 })])]) = true := by decide

/-- JSON has no NaN / infinities: they come back as nil (harness kind `witness-nan`). -/
theorem C12_json_nan_counterexample (orc : TextOracle) :
    viaJson orc (V.sc (.flt { bits := 0x7FF8000000000000 })).toSD = some .nil := by
  simp [viaJson, V.toSD, Sc.toSD, jsonOfSD, Fl.isFinite, Fl.expBits, deserializeValue]

/-! ## 4. integers are never turned into different integers -/

/-- `serialize_u64` (and every `serialize_{i,u}N`): the stored integer *is* the given one. -/
theorem C12_narrow (t : IntTag) (n k : Int) (h : serInt t n = .ok (.int k)) : k = n := by
  unfold serInt at h
  split at h
  · cases h
  · split at h
    · injection h with h; injection h with h; exact h.symm
    · cases h

theorem C12_narrow_u64 (n k : Int) (h : serializeU64 n = .ok (.int k)) : k = n :=
  C12_narrow .u64 n k h

/-- the result of narrowing is an integer scalar or an error — nothing else -/
theorem C12_narrow_kind (t : IntTag) (n : Int) :
    serInt t n = .ok (.int n) ∨ serInt t n = .err := by
  unfold serInt; split
  · exact .inr rfl
  · split
    · exact .inl rfl
    · exact .inr rfl

/-- an integer above `i64::MAX` (or below `i64::MIN`) is rejected -/
theorem C12_narrow_big (t : IntTag) (n : Int) (h : n > i64Max ∨ n < i64Min) : serInt t n = .err := by
  unfold serInt; split
  · rfl
  · have : inI64 n = false := by
      unfold inI64; rcases h with h | h <;> simp <;> omega
    simp [this]

theorem C12_narrow_u64_big (n : Int) (h : n > i64Max) : serializeU64 n = .err :=
  C12_narrow_big .u64 n (.inl h)

example : serializeU64 9223372036854775807 = .ok (.int 9223372036854775807) := by rfl
example : serializeU64 9223372036854775808 = .err := by rfl

/-- through the whole `ValueSerializer`: an integer of any width becomes that very integer or an error -/
theorem C12_narrow_value (t : IntTag) (n : Int) (v : V) (h : serialize (.int t n) = .ok v) :
    v = .sc (.int n) := by
  rcases C12_narrow_kind t n with h' | h' <;> simp [serialize, h'] at h
  exact h.symm

/-- From JSON (and any self-describing format): an unsigned integer event is kept exactly when it
fits, and otherwise carried as a *float* — never as another integer. -/
theorem C12_narrow_json (orc : TextOracle) (n : Int) :
    (n ≤ i64Max ∧ deserializeValue orc (.u64 n) = .sc (.int n)) ∨
    (n > i64Max ∧ deserializeValue orc (.u64 n) = .sc (.flt (intToF64 n))) := by
  by_cases h : n ≤ i64Max
  · exact .inl ⟨h, by simp [deserializeValue, h]⟩
  · exact .inr ⟨by omega, by simp [deserializeValue, h]⟩

/-- `u64::MAX` arrives as the double 2⁶⁴ (bit pattern `0x43F0000000000000`). -/
theorem C12_narrow_json_u64_max (orc : TextOracle) :
    ∃ f, deserializeValue orc (.u64 18446744073709551615) = .sc (.flt f) ∧
      f.bits = 0x43F0000000000000 := by
  refine ⟨intToF64 18446744073709551615, ?_, by decide +kernel⟩
  have : ¬ ((18446744073709551615 : Int) ≤ i64Max) := by decide
  simp only [deserializeValue, this, if_false]

/-- Typed direction (`from_value::<u8>` … `::<u64>`): the result is the value's own integer and
lies in the target type's range; anything else is an error. -/
theorem C12_narrow_typed (t : IntTag) (v : V) (k : Int) (h : desInt t v = .ok k) :
    t.inRange k = true ∧ ∃ s, v = .sc s ∧ s.toInteger? = some k := by
  unfold desInt at h
  split at h
  · rename_i s
    split at h
    · rename_i n hn
      split at h
      · injection h with h; subst h; exact ⟨by assumption, s, rfl, hn⟩
      · cases h
    · cases h
  · cases h

/-- `from_value::<Value>` keeps every integer and every float bit pattern, whatever else is in the value. -/
theorem C12_narrow_from_value (orc : TextOracle) (i : Int) (f : Fl) :
    fromValueV orc (.sc (.int i)) = .sc (.int i) ∧ fromValueV orc (.sc (.flt f)) = .sc (.flt f) := ⟨rfl, rfl⟩

example : desInt .u8 (.sc (.int 300)) = .err := by rfl
example : desInt .u8 (.sc (.int 255)) = .ok 255 := by rfl

/-! ## 5. derived view = serde conversion -/

mutual
private theorem td_ser : (x : TD) → tdWf x = true → serialize x.toSD = .ok x.view
  | .bool _, _ => rfl
  | .int t n, h => by
    simp only [tdWf, Bool.and_eq_true, Bool.not_eq_true'] at h
    simp [TD.toSD, serialize, serInt, h.1, h.2, TD.view]
  | .f32 _, _ => rfl
  | .f64 _, _ => rfl
  | .str _, _ => rfl
  | .dt _, h => by simp [tdWf] at h
  | .date _, h => by simp [tdWf] at h
  | .val v, h => by simpa [TD.toSD, TD.view, toValueV] using C12_roundtrip_to_value v (by simpa [tdWf] using h)
  | .none, _ => rfl
  | .some x, h => by simpa [TD.toSD, TD.view, serialize] using td_ser x (by simpa [tdWf] using h)
  | .vec xs, h => by
    simp [TD.toSD, TD.view, serialize, tdL_ser xs (by simpa [tdWf] using h)]
  | .map kvs, h => by
    simp only [tdWf, Bool.and_eq_true] at h
    have h2 : keysDistinct (tdViewF kvs) = true := by
      rw [keysDistinct_congr (tdViewF kvs) kvs (keys_tdViewF kvs)]; exact h.1
    simp [TD.toSD, TD.view, serialize, tdM_ser kvs h.2, objOfEntries_distinct _ h2]
  | .struct fs, h => by
    simp only [tdWf, Bool.and_eq_true] at h
    have h2 : keysDistinct (tdViewF fs) = true := by
      rw [keysDistinct_congr (tdViewF fs) fs (keys_tdViewF fs)]; exact h.1
    simp [TD.toSD, TD.view, serialize, tdF_ser fs h.2, objOfEntries_distinct _ h2]
private theorem tdL_ser : (xs : List TD) → tdWfL xs = true → serList (tdSDL xs) = .ok (tdViewL xs)
  | [], _ => rfl
  | x :: xs, h => by
    simp only [tdWfL, Bool.and_eq_true] at h
    simp [tdSDL, serList, tdViewL, td_ser x h.1, tdL_ser xs h.2]
private theorem tdM_ser : (kvs : List (Str × TD)) → tdWfF kvs = true →
    serEntries (tdSDM kvs) = .ok (tdViewF kvs)
  | [], _ => rfl
  | (k, x) :: r, h => by
    simp only [tdWfF, Bool.and_eq_true] at h
    simp [tdSDM, serEntries, mapKey, tdViewF, td_ser x h.1, tdM_ser r h.2]
private theorem tdF_ser : (fs : List (Str × TD)) → tdWfF fs = true →
    serFields (tdSDF fs) = .ok (tdViewF fs)
  | [], _ => rfl
  | (k, x) :: r, h => by
    simp only [tdWfF, Bool.and_eq_true] at h
    simp [tdSDF, serFields, tdViewF, td_ser x h.1, tdF_ser r h.2]
end

/-- **Derived view = serde conversion.**  For every datum of the derive family whose fields are
booleans, integers, floats, strings, `Value`s, options, vectors, string-keyed maps and nested
derived structs (no `Date`/`DateTime` field), the value shown by the `ValueView`/`ObjectView`
impls — forwarding impls and `derive(ObjectView, ValueView)` — *is* `to_value(&x)`. -/
theorem C12_derive_eq_serde (x : TD) (h : tdWf x = true) : serialize x.toSD = .ok x.view :=
  td_ser x h

/-- the same for `to_object(&x)` of a struct -/
theorem C12_derive_eq_to_object (fs : List (Str × TD)) (h : tdWf (.struct fs) = true) :
    serializeObject (TD.struct fs).toSD = .ok (tdViewF fs) := by
  simp only [tdWf, Bool.and_eq_true] at h
  have h2 : keysDistinct (tdViewF fs) = true := by
    rw [keysDistinct_congr (tdViewF fs) fs (keys_tdViewF fs)]; exact h.1
  simp [TD.toSD, serializeObject, tdF_ser fs h.2, objOfEntries_distinct _ h2]

/-- Hence a template sees the same thing: rendering any template with the derived struct as
globals equals rendering it with the serde-converted object as globals. -/
theorem C12_derive_template_eq (fuel : Nat) (env : Env) (t : Tmpl) (fs : List (Str × TD))
    (h : tdWf (.struct fs) = true) (o : Obj) (ho : serializeObject (TD.struct fs).toSD = .ok o) :
    renderTop fuel env t o = renderTop fuel env t (tdViewF fs) := by
  rw [C12_derive_eq_to_object fs h] at ho
  injection ho with ho; rw [ho]

example : tdWf (.struct [("a".toList, .int .i32 5), ("b".toList, .some (.vec [.str "x".toList, .str "2022-03-02".toList])),
    ("c".toList, .map [("k".toList, .f64 { bits := 0 })]), ("d".toList, .val (.arr [.nil]))]) = true := by decide

/-- Where derive and serde part: a `Date` field is a date through the derived view and a string
through serde (harness kind `witness-tddate`). -/
theorem C12_derive_date_field_counterexample :
    let d : Dt := { days := 19053, disp := "2022-03-02".toList }
    let x : TD := .struct [("day".toList, .date d)]
    serialize x.toSD = .ok (.obj [("day".toList, .sc (.str "2022-03-02".toList))]) ∧
    x.view = .obj [("day".toList, .sc (.date d))] := ⟨rfl, rfl⟩

/-- `derive(ObjectView)` at the pinned commit names the field `r#type` by the raw token text,
serde_derive by the identifier (`type`): the two views of the same struct disagree on the key
(harness kind `witness-rawident`; repaired by patches/C12-derive-raw-ident.diff). -/
theorem C12_derive_raw_ident_old_counterexample :
    deriveKeyOld true "type".toList = "r#type".toList ∧ deriveKeyOld true "type".toList ≠ "type".toList := by
  decide

theorem natDigits_injective (a b : Nat) (h : natDigits a = natDigits b) : a = b := by
  have ha := C07.digitsVal_natDigits a
  have hb := C07.digitsVal_natDigits b
  rw [h] at ha
  rw [ha] at hb
  exact Option.some.inj hb

theorem intRepr_injective (n m : Int) (h : intRepr n = intRepr m) : n = m := by
  unfold intRepr at h
  have hd : ∀ k : Nat, (natDigits k).head? ≠ some '-' := by
    intro k hk
    have hne := C07.natDigits_ne_nil k
    cases hr : natDigits k with
    | nil => exact hne hr
    | cons c r =>
      rw [hr] at hk
      simp at hk
      have := C07.natDigits_isDigit k c (by rw [hr]; exact List.mem_cons_self)
      subst hk
      simp [Char.isDigit] at this
  by_cases hn : n < 0 <;> by_cases hm : m < 0
  · simp only [hn, hm, if_true, List.cons.injEq, true_and] at h
    have := natDigits_injective _ _ h
    omega
  · simp only [hn, hm, if_true, if_false] at h
    exact absurd (by rw [← h]; rfl) (hd m.natAbs)
  · simp only [hn, hm, if_true, if_false] at h
    exact absurd (by rw [h]; rfl) (hd n.natAbs)
  · simp only [hn, hm, if_false] at h
    have := natDigits_injective _ _ h
    omega

/-- **A map key stays the key it was.** The text under which an integer key of a Rust map appears in
the object is the decimal text of that very integer, for every integer of every width up to 64 bits
(a `u64` above `i64::MAX` included: it is not squeezed through a narrower type first); different
integers give different keys, and string keys are kept as they are. -/
theorem C12_map_key_exact (t : IntTag) (n m : Int) (ht : t.is128 = false) :
    mapKey (.int t n) = .ok (intRepr n) ∧
    (mapKey (.int t n) = mapKey (.int t m) → n = m) ∧
    (∀ s : Str, mapKey (.str s) = .ok s) := by
  refine ⟨by simp [mapKey, ht], ?_, fun s => rfl⟩
  intro h
  have : intRepr n = intRepr m := by simpa [mapKey, ht] using h
  exact intRepr_injective n m this

end Liquid.C12
