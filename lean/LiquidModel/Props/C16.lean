/-
  C16 — escape / escape_once / url_encode / url_decode / strip_html are safe and invertible.
  Property theorems only (plus non-vacuity examples).
  Models: `Model/Html.lean` (`escGo`, `nrEscaped`, `stripGo`, `matchAt`), `Model/Url.lean`
  (`utf8Enc`, `utf8Dec`, `pctEncode`, `pctGo`, `urlEncode`, `urlDecode`);
  vocabulary: `Spec/C16.lean` (`SafeEnt`/`inLang`, `unescape`, `UrlLang`/`urlLang`, `HasTag`/`hasTag`);
  helper lemmas: `Lemmas/C16.lean`.
-/
import LiquidModel.Lemmas.C16
namespace Liquid.C16
open Liquid Liquid.Html Liquid.Url

/-! ### escape -/

/-- **Safe output.**  The output of `escape` is a sequence of characters other than `< > ' " &`
and of the five entities — for every input string. -/
theorem C16_escape_safe (s : Str) : SafeEnt (escape s) := escape_safeEnt s

/-- The executable membership test used on the implementation's output decides exactly that
language, … -/
theorem C16_inLang_iff (t : Str) : inLang t = true ↔ SafeEnt t := inLang_iff_safeEnt t

/-- … so the model's output passes it. -/
theorem C16_escape_safe_exec (s : Str) : inLang (escape s) = true :=
  (C16_inLang_iff _).mpr (C16_escape_safe s)

/-- **Invertible.**  Replacing the entities back yields the input. -/
theorem C16_unescape_escape (s : Str) : unescape (escape s) = s := unescape_escape s

/-- `escape` is injective (corollary of invertibility). -/
theorem C16_escape_injective (s t : Str) (h : escape s = escape t) : s = t := by
  rw [← C16_unescape_escape s, ← C16_unescape_escape t, h]

/-- `escape` has no context: each character is replaced on its own (the `skip` counter of the
shared loop is never armed when `once_p` is false). -/
theorem C16_escape_pointwise (s : Str) : escape s = s.flatMap escChar := escape_eq_flatMap s

/-! ### escape_once -/

/-- The output of `escape_once` is in `(Safe | Entity)*` as well. -/
theorem C16_once_safe (s : Str) : SafeEnt (escapeOnce s) := once_safeEnt s

/-- **Idempotent.**  Applying `escape_once` twice equals applying it once. -/
theorem C16_once_idem (s : Str) : escapeOnce (escapeOnce s) = escapeOnce s := once_idem s

/-- **Existing entities stay untouched**, wherever they stand: an entity `e` between any `p` and
any `t` is copied verbatim, and `p`, `t` are treated exactly as they would be alone. -/
theorem C16_once_keeps_entities (p t e : Str) (he : e ∈ entityStrs) :
    escapeOnce (p ++ e ++ t) = escapeOnce p ++ e ++ escapeOnce t := by
  obtain ⟨ch, tail, rfl, hm⟩ := mem_entityStrs he
  exact once_keeps p t hm

/-- `escape_once` neither loses nor double-escapes anything: after replacing entities back, input
and output read the same. -/
theorem C16_once_unescape (s : Str) : unescape (escapeOnce s) = unescape s := once_unescape s

/-- What `escape` produced is a fixed point of `escape_once`. -/
theorem C16_once_after_escape (s : Str) : escapeOnce (escape s) = escape s := by
  induction s with
  | nil => rfl
  | cons c r ih => rw [escape_cons, once_escChar, ih]

/-- On a string without `&`, `escape_once` is `escape`. -/
theorem C16_once_eq_escape (s : Str) (h : '&' ∉ s) : escapeOnce s = escape s := by
  induction s with
  | nil => rfl
  | cons c r ih =>
    simp only [List.mem_cons, not_or] at h
    rw [once_chr c r (fun hc => h.1 hc.symm), escape_cons, ih h.2]

/-! ### url_encode / url_decode -/

/-- **Alphabet.**  `url_encode` emits only ASCII letters, digits, `-`, `.`, `_` and `%`. -/
theorem C16_url_charset (s : Str) : ∀ c ∈ urlEncode s, isUnreservedChar c = true ∨ c = '%' :=
  urlLang_chars (urlLang_asciiStr_pctEncode _ (utf8Enc_lt s))

/-- … more precisely a sequence of unreserved characters and of `%` + two upper-case hex digits. -/
theorem C16_url_shape (s : Str) : UrlLang (urlEncode s) :=
  urlLang_asciiStr_pctEncode _ (utf8Enc_lt s)

theorem C16_url_shape_exec (s : Str) : urlLang (urlEncode s) = true := urlLang_sound (C16_url_shape s)

/-- The bytes left alone by the `FRAGMENT` set (`NON_ALPHANUMERIC` minus `-._`, as transcribed from
`percent-encoding`) are exactly the ASCII letters, digits, `-`, `.`, `_`. -/
theorem C16_url_unreserved_exact (b : Nat) (hb : b < 256) :
    shouldEncode b = false ↔
      ((48 ≤ b ∧ b ≤ 57) ∨ (65 ≤ b ∧ b ≤ 90) ∨ (97 ≤ b ∧ b ≤ 122) ∨ b = 45 ∨ b = 46 ∨ b = 95) :=
  shouldEncode_exact b hb

/-- UTF-8 decoding inverts encoding (every string is accepted by `from_utf8` and read back) … -/
theorem C16_utf8_roundtrip (s : Str) : utf8Dec (utf8Enc s) = some s := utf8Dec_enc s

/-- … and whatever `from_utf8` accepts is the encoding of what it returns. -/
theorem C16_utf8_dec_exact (bs : List Nat) (t : Str) (h : utf8Dec bs = some t) : utf8Enc t = bs :=
  utf8Enc_of_dec bs.length bs t (Nat.le_refl _) h

/-- **Round trip.**  `url_decode` inverts `url_encode` for every string. -/
theorem C16_url_roundtrip (s : Str) : urlDecode (urlEncode s) = .ok s := urlDecode_urlEncode s

/-- **Invalid UTF-8 is an error.**  When the percent-decoded bytes are not valid UTF-8,
`url_decode` fails with an error (never a panic, never a lossy string). -/
theorem C16_url_bad_utf8_is_err (s : Str) (h : validUtf8 (decodedBytes s) = false) : urlDecode s = .err := by
  unfold urlDecode; unfold validUtf8 at h
  cases hd : utf8Dec (decodedBytes s) with
  | none => rfl
  | some t => rw [hd] at h; cases h

/-- … and only then: otherwise the result is the one string whose UTF-8 encoding is those bytes. -/
theorem C16_url_decode_ok_iff (s t : Str) : urlDecode s = .ok t ↔ utf8Enc t = decodedBytes s := by
  unfold urlDecode
  constructor
  · intro h
    cases hd : utf8Dec (decodedBytes s) with
    | none => rw [hd] at h; cases h
    | some t' =>
      rw [hd] at h
      have : t' = t := by simpa using h
      subst this
      exact C16_utf8_dec_exact _ _ hd
  · intro h; rw [← h, C16_utf8_roundtrip]

theorem C16_url_decode_total (s : Str) : urlDecode s = .err ∨ ∃ t, urlDecode s = .ok t := by
  unfold urlDecode; cases utf8Dec (decodedBytes s) with
  | none => exact Or.inl rfl
  | some t => exact Or.inr ⟨t, rfl⟩

/-! ### strip_html -/

/-- The executable "has a complete tag" test is the stated notion. -/
theorem C16_hasTag_iff (s : Str) : hasTag s = true ↔ HasTag s := hasTag_iff s

/-- **No complete tag survives.**  The output of `strip_html` contains no `<` with a `>`
somewhere behind it — for every input, also nested ones like `<scr<script>ipt>`. -/
theorem C16_strip_no_tag (s : Str) : ¬ HasTag (stripHtml s) := by
  rw [← C16_hasTag_iff]
  have := stripTags_no_tag (stripPass commentOpen commentClose (stripPass styleOpen styleClose (stripPass scriptOpen scriptClose s))) 0
  simpa [stripHtml, stripTags, stripPass] using this

theorem C16_strip_no_tag_exec (s : Str) : hasTag (stripHtml s) = false := by
  have := C16_strip_no_tag s
  rw [← C16_hasTag_iff] at this
  simpa using this

/-- Nothing is invented or reordered: the output is a subsequence of the input. -/
theorem C16_strip_sublist (s : Str) : (stripHtml s).Sublist s := stripHtml_sublist s

/-- Text without any `<` passes through unchanged (so the no-tag theorem is not met by deleting
everything). -/
theorem C16_strip_plain_unchanged (s : Str) (h : '<' ∉ s) : stripHtml s = s := stripHtml_no_lt s h

/-! ### totality at the filter level: no panic outcome exists in these filters -/

theorem C16_filters_never_panic (v : V) (args : List V) :
    (escapeFilter false v args).isPanic = false ∧ (escapeFilter true v args).isPanic = false ∧
    (stripHtmlFilter v args).isPanic = false ∧ (urlEncodeFilter v args).isPanic = false ∧
    (urlDecodeFilter v args).isPanic = false := by
  refine ⟨?_, ?_, ?_, ?_, ?_⟩
  · unfold escapeFilter; repeat' split
    all_goals rfl
  · unfold escapeFilter; repeat' split
    all_goals rfl
  · unfold stripHtmlFilter; repeat' split
    all_goals rfl
  · unfold urlEncodeFilter; repeat' split
    all_goals rfl
  · unfold urlDecodeFilter; repeat' split
    all_goals rfl

/-! ### non-vacuity / concrete behaviour -/

-- `1 < 2 & 3`
example : escape ['1', '<', '2', '&', '3'] = "1&lt;2&amp;3".toList := by decide
-- near-entities: `&amp` (no `;`) and `&lt;;`
example : escapeOnce ['&', 'a', 'm', 'p'] = "&amp;amp".toList := by decide
example : escapeOnce ['&', 'l', 't', ';', ';'] = "&lt;;".toList := by decide
example : escapeOnce ['&', '&', 'l', 't', ';'] = "&amp;&lt;".toList := by decide
example : escape ['&', 'l', 't', ';'] = "&amp;lt;".toList := by decide
example : unescape "&amp;lt;".toList = "&lt;".toList := by decide
-- the entity list of `C16_once_keeps_entities` is inhabited
example : ['&', '#', '3', '9', ';'] ∈ entityStrs := by decide
-- a string that is NOT in the language, so `C16_escape_safe` says something
example : inLang ['a', '<'] = false := by decide
example : inLang ['&', 'l', 't'] = false := by decide
-- url
example : urlEncode ['a', ' ', '+', 'é', '~'] = "a%20%2B%C3%A9%7E".toList := by decide
example : urlDecode ['%', 'C', '3', '%', 'A', '9', '+', '%', '2'] = .ok ['é', ' ', '%', '2'] := by rfl
example : validUtf8 (decodedBytes ['%', 'F', 'F']) = false := by decide
example : urlDecode ['%', 'E', 'D', '%', 'A', '0', '%', '8', '0'] = .err := by rfl   -- surrogate
example : urlDecode ['%', 'C', '0', '%', 'A', 'F'] = .err := by rfl                  -- overlong
example : urlDecode ['%', 'F', '4', '%', '9', '0', '%', '8', '0', '%', '8', '0'] = .err := by rfl  -- > U+10FFFF
-- strip_html: nested tags, unclosed script, comment
example : stripHtml "<scr<script>ipt>".toList = "ipt>".toList := by decide
example : stripHtml "a<ScRiPt>x</sCrIpT>b<!-- > -->c<p\n>d".toList = "abcd".toList := by decide
example : stripHtml "<script>alert(1)".toList = "alert(1)".toList := by decide
example : hasTag "a<b>".toList = true := by decide
example : HasTag ['<', '>'] := ⟨[], [], [], rfl⟩

end Liquid.C16
