/-
  C02 — rendering is total: any template on any data yields output or an error.
  Model: the whole interpreter (`Model/Render.lean`), the filter families of C13–C17; the core is
  `renderN_sp` (`Lemmas/NoPanic.lean`), proved by induction over the interpreter.
-/
import LiquidModel.Lemmas.NoPanic
import LiquidModel.Lemmas.NoFuel
import LiquidModel.Model.StdFilters
import LiquidModel.Model.StrFilters
import LiquidModel.Generated.Registry
import LiquidModel.Props.C14
import LiquidModel.Props.C15
import LiquidModel.Props.C16
import LiquidModel.Props.C17
namespace Liquid.C02
open Liquid

/-- **Rendering never panics.** For every well-formed template (what the parser can build: a
`cycle` has at least one value), every data object, every partial store that hands out
well-formed templates and every filter table whose filters do not panic: `render` returns the
output or an error; no `expect`/`unwrap`/`unreachable!`/index/`% 0` site of the interpreter is
reachable (find's final `panic!`, `set_global` on a runtime without global frame, `cycle`'s and
`tablerow`'s remainder by zero) — the only panic outcomes left in the model are the two counter
overflows, which need 2^63 increments of one counter. -/
theorem C02_no_panic (env : Env) (hf : FiltersSafe env) (hl : LookupSafe env) (fuel : Nat)
    (t : Tmpl) (hwf : wfL t = true) (globals : Obj) (s : String)
    (h : renderTop fuel env t globals = .panic s) : okPanic s = true := by
  have hsp := (SP.renderList (renderN_sp env hf hl fuel) t hwf).2 (Rt.build globals) {} (by rfl)
  unfold renderTop renderT at h
  rcases hr : renderList (renderN fuel env) t (Rt.build globals) {} with ⟨r, rt', w⟩
  rw [hr] at h hsp
  cases r <;> simp_all [Res.safe]

/-- the same for streaming into any sink, from any runtime that has a global and a counter frame -/
theorem C02_no_panic_streaming (env : Env) (hf : FiltersSafe env) (hl : LookupSafe env) (fuel : Nat)
    (t : Tmpl) (hwf : wfL t = true) (rt : Rt) (hrt : hasGI rt.layers = true) (w : W) :
    (renderT fuel env t rt w).1.safe = true :=
  (SP.renderList (renderN_sp env hf hl fuel) t hwf).2 rt w hrt

/-- **The standard filter families never panic**: every modelled math, array, html, url and date
filter, applied to any input value and any arguments (type-confused on purpose included), returns
a value or an error. -/
theorem C02_std_filters_safe (ops : FloatOps) (lower : Str → Str) (name : Str) (f : V → List V → Res V)
    (hf : stdFilters ops lower name = some f) (v : V) (args : List V) : (f v args).isPanic = false := by
  unfold stdFilters at hf
  cases hm : mathFilters ops name with
  | some g =>
    simp only [hm, Option.some.injEq] at hf; subst hf
    exact C15.C15_never_panics ops name g hm v args
  | none =>
    simp only [hm] at hf
    by_cases hs : name = "slice".toList
    · subst hs
      simp at hf
    · have hs' : (name == "slice".toList) = false := by simpa using hs
      simp only [hs', Bool.false_eq_true, if_false] at hf
      cases ha : Arr.filters lower name with
      | some g =>
        simp only [ha, Option.some.injEq] at hf; subst hf
        exact C14.C14_no_panic lower name g ha hs v args
      | none =>
        simp only [ha] at hf
        obtain ⟨h1, h2, h3, h4, h5⟩ := C16.C16_filters_never_panic v args
        split at hf <;> simp at hf <;> subst hf
        · exact h1
        · exact h2
        · exact h3
        · exact h4
        · exact h5
        · cases hd : DateFmt.dateFilter true v args with
          | panic site => exact absurd hd (C17.C17_date_filter_never_panics v args site)
          | _ => rfl

/-- **Capstone**: rendering any well-formed template that uses the modelled standard filters,
with partials that are well-formed, on any data, never panics. -/
theorem C02_no_panic_std (ops : FloatOps) (lower : Str → Str) (lookup : Str → Res Tmpl)
    (hl : LookupSafe { lookup := lookup, filters := stdFilters ops lower }) (fuel : Nat)
    (t : Tmpl) (hwf : wfL t = true) (globals : Obj) (s : String)
    (h : renderTop fuel { lookup := lookup, filters := stdFilters ops lower } t globals = .panic s) :
    okPanic s = true :=
  C02_no_panic _ (fun name f hf v args => C02_std_filters_safe ops lower name f hf v args) hl fuel t hwf globals s h

/-- **Termination.** The interpreter is a total function (accepted by Lean's termination checker:
structural recursion on the nesting fuel), so every render returns; `Res.fuel` is the explicit
outcome for templates nested deeper than the fuel given (include/render may recurse through the
store), never a hang.  A template without blocks and partial calls needs fuel 1 only: -/
theorem C02_flat_needs_no_fuel (env : Env) (s : Str) (rt : Rt) (w : W) :
    (renderN 1 env (.text s) rt w).1 ≠ .fuel := by
  rw [renderN]; unfold M.emit; cases w.write s <;> simp

/-- **Everything emitted is valid UTF-8**: fragments are sequences of Unicode scalar values
(`List Char`); their UTF-8 encoding decodes back to the same characters. -/
theorem C02_utf8 (frag : Str) : (String.ofList frag).toList = frag := by simp

/-- `find` — the public lookup of `liquid_core::model` — returns a value or an error for EVERY value
and path, also when the first key does not exist (it used to reach its final `panic!` there until
the `fix:` commit; `C18.find_old_counterexample`). -/
theorem C02_find_never_panics (v : V) (path : List Sc) : (find v path).isPanic = false := by
  rw [C18.find_eq_ofOpt]; cases tryFind v path <;> rfl

/-! ### termination: the fuel is only a device -/

/-- **Enough fuel is enough.** A template whose nesting depth plus `k` is at most the fuel never
ends in the model's `fuel` outcome, provided the partial store's templates do not when given `k`
(or the template calls no partial at all) and the filters are pure functions. Together with Lean's
acceptance of the interpreter this is the termination claim: every render returns output, an error
or (never, by C02_no_panic) a panic. -/
theorem C02_enough_fuel (env : Env) (hf : FiltersNoFuel env) (k fuel : Nat) (t : Tmpl)
    (hd : dL t + k ≤ fuel) (hp : npL t = true ∨ LookupNF env k) (globals : Obj) :
    renderTop fuel env t globals ≠ .fuel := by
  have h : NF (renderList (renderN fuel env) t) := by
    refine NF.renderList t (fun x hx => renderN_nf env hf k fuel x ?_ ?_)
    · have := dN_le_dL t x hx; omega
    · rcases hp with h | h
      · exact .inl (npN_of_npL t h x hx)
      · exact .inr h
  have := h (Rt.build globals) {}
  unfold renderTop renderT
  rcases hr : renderList (renderN fuel env) t (Rt.build globals) {} with ⟨r, rt', w⟩
  rw [hr] at this
  cases r <;> simp_all [Res.isFuel]

/-- a store of partial-free templates of depth at most `D` is fine from fuel `D` on -/
theorem C02_store_level (env : Env) (hf : FiltersNoFuel env) (D : Nat)
    (hs : ∀ name, (env.lookup name).isFuel = false ∧ ∀ t, env.lookup name = .ok t → npL t = true ∧ dL t ≤ D) :
    LookupNF env D := by
  intro name
  refine ⟨(hs name).1, fun t ht f hf' => ?_⟩
  obtain ⟨hnp, hd⟩ := (hs name).2 t ht
  refine NF.renderList t (fun x hx => renderN_nf env hf 0 f x ?_ (.inl (npN_of_npL t hnp x hx)))
  have := dN_le_dL t x hx; omega

/-- **More fuel changes nothing.** Once a render did not run out of fuel, any larger fuel gives
exactly the same result — so "the" result of rendering is well defined, independent of the device. -/
theorem C02_fuel_irrelevant (env : Env) (fuel extra : Nat) (t : Tmpl) (globals : Obj)
    (h : renderTop fuel env t globals ≠ .fuel) :
    renderTop (fuel + extra) env t globals = renderTop fuel env t globals := by
  have hnf : (renderT fuel env t (Rt.build globals) {}).1.isFuel = false := by
    unfold renderTop at h
    rcases hr : renderT fuel env t (Rt.build globals) {} with ⟨r, rt', w⟩
    rw [hr] at h
    cases r <;> simp_all [Res.isFuel]
  unfold renderTop
  rw [renderT_mono env fuel extra t (Rt.build globals) {} hnf]

/-- non-vacuity: a two-level template needs fuel 2 -/
example : dL [.for_ "x".toList (.arr (.lit .nil)) none none false [.text "a".toList] none] = 2 := by decide
example : npL [.for_ "x".toList (.arr (.lit .nil)) none none false [.text "a".toList] none] = true := by decide

/-! ### the registry: every filter `ParserBuilder::stdlib` registers has a model -/

def mathNames : List String := ["abs", "at_least", "at_most", "plus", "minus", "times", "divided_by", "modulo", "round", "ceil", "floor"]
def arrNames : List String := ["sort", "sort_natural", "uniq", "reverse", "map", "compact", "concat", "where", "first", "last", "size", "join"]
def miscNames : List String := ["escape", "escape_once", "strip_html", "url_encode", "url_decode", "date"]
def strNames : List String := ["append", "prepend", "upcase", "downcase", "capitalize", "strip", "lstrip", "rstrip", "strip_newlines",
  "newline_to_br", "replace", "replace_first", "remove", "remove_first", "split", "join", "truncate", "truncatewords", "slice", "size",
  "first", "last", "default"]

theorem std_names_modelled (ops : FloatOps) (lower : Str → Str) :
    ∀ n ∈ mathNames ++ arrNames ++ miscNames, (stdFilters ops lower n.toList).isSome = true := by
  intro n hn
  simp only [mathNames, arrNames, miscNames, List.mem_append, List.mem_cons, List.not_mem_nil, or_false] at hn
  rcases hn with (((rfl | rfl | rfl | rfl | rfl | rfl | rfl | rfl | rfl | rfl | rfl) |
    (rfl | rfl | rfl | rfl | rfl | rfl | rfl | rfl | rfl | rfl | rfl | rfl)) | (rfl | rfl | rfl | rfl | rfl | rfl)) <;>
    simp [stdFilters, mathFilters, mathFiltersWith, Arr.filters]

theorem str_names_modelled (u : StrF.Uni) : ∀ n ∈ strNames, (StrF.table u n.toList).isSome = true := by
  intro n hn
  simp only [strNames, List.mem_cons, List.not_mem_nil, or_false] at hn
  rcases hn with rfl | rfl | rfl | rfl | rfl | rfl | rfl | rfl | rfl | rfl | rfl | rfl | rfl | rfl | rfl | rfl | rfl | rfl |
    rfl | rfl | rfl | rfl | rfl <;> simp [StrF.table, StrF.Fn.ofName]

/-- **Every registered filter is modelled.** The list of filters is regenerated from
`ParserBuilder::stdlib` (src/parser.rs) and the `#[filter(name = …)]` attributes on every run; each of
them is in the table of the math / array / html / url / date models (covered by `C02_std_filters_safe`)
or of the string-filter model (C13).  A filter added to, removed from or renamed in the registry
changes the table and this proof no longer checks. -/
theorem C02_registered_filters_modelled (ops : FloatOps) (lower : Str → Str) (u : StrF.Uni) :
    ∀ n ∈ Generated.regFilters,
      (stdFilters ops lower n.toList).isSome = true ∨ (StrF.table u n.toList).isSome = true := by
  intro n hn
  have h : n ∈ mathNames ++ arrNames ++ miscNames ∨ n ∈ strNames := by
    revert n; decide
  rcases h with h | h
  · exact .inl (std_names_modelled ops lower n h)
  · exact .inr (str_names_modelled u n h)

/-- and nothing is modelled that is not registered (the models do not invent filters) -/
theorem C02_modelled_filters_registered :
    ∀ n ∈ mathNames ++ arrNames ++ miscNames ++ strNames, n ∈ Generated.regFilters := by decide

/-! ### non-vacuity -/
example : wfL [.cycle "c".toList [.lit .nil], .for_ "x".toList (.arr (.lit .nil)) none none false [.brk] none] = true := by
  rfl
example : LookupSafe {} := fun _ => ⟨rfl, fun _ h => by cases h⟩

end Liquid.C02
