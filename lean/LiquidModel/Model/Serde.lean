/-
  Serde side of liquid-core's data model (C12):

  * the serde data model as the inductive `SD` (what a `Serialize` impl emits);
  * `serialize` = `ValueSerializer` (`value/ser.rs`), `serializeScalar` = `ScalarSerializer`
    (`scalar/ser.rs`, incl. `serialize_as_i64`), `serializeObject` = `ObjectSerializer`
    (`object/ser.rs`), `mapKey` = `MapKeySerializer` (`model/ser.rs`);
  * `V.toSD` = what `#[derive(Serialize)] #[serde(untagged)]` on `Value` / `ScalarCowEnum`, the
    hand-written `Serialize for Object` and `friendly_date(_time)::serialize` emit;
  * `Cont` = the self-describing event tree that reaches `Value::deserialize` (serde's private
    `Content` buffer of an untagged enum), `deserializeValue` = the untagged `Value`/`Scalar`
    deserialisation (variants tried in declaration order: Integer, Float, Bool, DateTime, Date, Str;
    then Array, Object, State, Nil);
  * `V.toCont` = `ValueDeserializer::deserialize_any` (`from_value::<Value>`);
  * `jsonOfSD` = serde_json's writer followed by its reader, on the level of events;
  * `TD` = a Rust datum of the derive family, with `TD.toSD` (serde_derive) and `TD.view`
    (the `ValueView`/`ObjectView` impls: forwarding impls + `derive(ObjectView, ValueView)`).

  The observations `render`, `typeName`, `queryState`, `valueEq`, `same` are the single definitions
  of `Model/Value.lean`; `V.source` and `V.toKStr` are added here in the same style.
  Import-free apart from other Model files.
-/
import LiquidModel.Model.Find
namespace Liquid

/-! ### the two remaining `ValueView` observations -/

/-- `StrSource`: the text between double quotes, *not* escaped. -/
def strSource (s : Str) : Str := '"' :: (s ++ ['"'])

def Sc.source : Sc → Str
  | .str s => strSource s
  | s => s.render

/-- `ArraySource`: `[` then `render` (not `source`) of every item followed by `, `, then `]`. -/
def srcL : List V → Str
  | [] => []
  | x :: xs => x.render ++ (", ".toList ++ srcL xs)

/-- `ObjectSource`: `{` then `"key": render, ` per entry, then `}`. -/
def srcO : List (Str × V) → Str
  | [] => []
  | (k, v) :: r => strSource k ++ (": ".toList ++ (v.render ++ (", ".toList ++ srcO r)))

/-- `ValueView::source` -/
def V.source : V → Str
  | .nil => "nil".toList
  | .st s => (V.st s).typeName
  | .sc s => s.source
  | .arr xs => '[' :: (srcL xs ++ [']'])
  | .obj kvs => '{' :: (srcO kvs ++ ['}'])

/-- `ValueView::to_kstr`: every impl is `render().to_string()` (or the empty string for nil/state). -/
def V.toKStr (v : V) : Str := v.render

/-! ### the serde data model -/

inductive IntTag where
  | i8 | i16 | i32 | i64 | i128 | u8 | u16 | u32 | u64 | u128
  deriving DecidableEq, Repr, Inhabited

def IntTag.lo : IntTag → Int
  | .i8 => -128 | .i16 => -32768 | .i32 => -2147483648 | .i64 => i64Min
  | .i128 => -170141183460469231731687303715884105728
  | _ => 0

def IntTag.hi : IntTag → Int
  | .i8 => 127 | .i16 => 32767 | .i32 => 2147483647 | .i64 => i64Max
  | .i128 => 170141183460469231731687303715884105727
  | .u8 => 255 | .u16 => 65535 | .u32 => 4294967295 | .u64 => 18446744073709551615
  | .u128 => 340282366920938463463374607431768211455

def IntTag.inRange (t : IntTag) (n : Int) : Bool := t.lo ≤ n && n ≤ t.hi

def IntTag.is128 : IntTag → Bool
  | .i128 | .u128 => true
  | _ => false

/-- What a `Serialize` impl can emit (the 29 serde data-model types; names as in
`serde::Serializer`).  `f32` carries the value already widened by `f64::from`, which is exact. -/
inductive SD where
  | bool (b : Bool)
  | int (t : IntTag) (n : Int)
  | f32 (f : Fl)
  | f64 (f : Fl)
  | char (c : Char)
  | str (s : Str)
  | bytes (bs : List Nat)
  | none
  | some (x : SD)
  | unit
  | unitStruct
  | unitVariant (variant : Str)
  | newtypeStruct (x : SD)
  | newtypeVariant (variant : Str) (x : SD)
  | seq (xs : List SD)
  | tuple (xs : List SD)
  | tupleStruct (xs : List SD)
  | tupleVariant (variant : Str) (xs : List SD)
  | map (kvs : List (SD × SD))
  | struct (fs : List (Str × SD))
  | structVariant (variant : Str) (fs : List (Str × SD))
  deriving Repr, Inhabited

/-! ### serializers -/

/-- `serialize_as_i64` (`value.try_into::<i64>()`, error "Cannot fit number"); `serialize_i64`
stores the value as is; `serialize_i128/u128` are serde's defaults: always an error. -/
def serInt (t : IntTag) (n : Int) : Res Sc :=
  if t.is128 then .err
  else if inI64 n then .ok (.int n) else .err

/-- `ScalarSerializer::serialize_u64` -/
def serializeU64 (n : Int) : Res Sc := serInt .u64 n

/-- `MapKeySerializer` (`model/ser.rs`): strings, chars, unit variants and 8–64 bit integers (as
decimal text) are keys; everything else is "Key must be a string." -/
def mapKey : SD → Res Str
  | .int t n => if t.is128 then .err else .ok (intRepr n)
  | .char c => .ok [c]
  | .str s => .ok s
  | .unitVariant v => .ok v
  | .newtypeStruct x => mapKey x
  | _ => .err

/-- `ScalarSerializer` (`to_scalar`) -/
def serializeScalar : SD → Res Sc
  | .bool b => .ok (.bool b)
  | .int t n => serInt t n
  | .f32 f => .ok (.flt f)
  | .f64 f => .ok (.flt f)
  | .char c => .ok (.str [c])
  | .str s => .ok (.str s)
  | .unitVariant v => .ok (.str v)
  | .newtypeStruct x => serializeScalar x
  | _ => .err

/-- entries inserted one by one into a fresh `Object` (`HashMap::insert`: last value wins) -/
def objOfEntries (es : List (Str × V)) : Obj := es.foldl (fun o e => objInsert o e.1 e.2) []

mutual
/-- `ValueSerializer` (`to_value`) -/
def serialize : SD → Res V
  | .bool b => .ok (.sc (.bool b))
  | .int t n => (serInt t n).bind fun s => .ok (.sc s)
  | .f32 f => .ok (.sc (.flt f))
  | .f64 f => .ok (.sc (.flt f))
  | .char c => .ok (.sc (.str [c]))
  | .str s => .ok (.sc (.str s))
  | .bytes bs => .ok (.arr (bs.map fun b => .sc (.int (Int.ofNat b))))
  | .none => .ok .nil
  | .some x => serialize x
  | .unit => .ok .nil
  | .unitStruct => .ok .nil
  | .unitVariant v => .ok (.sc (.str v))
  | .newtypeStruct x => serialize x
  | .newtypeVariant v x => (serialize x).bind fun y => .ok (.obj [(v, y)])
  | .seq xs => (serList xs).bind fun ys => .ok (.arr ys)
  | .tuple xs => (serList xs).bind fun ys => .ok (.arr ys)
  | .tupleStruct xs => (serList xs).bind fun ys => .ok (.arr ys)
  | .tupleVariant v xs => (serList xs).bind fun ys => .ok (.obj [(v, .arr ys)])
  | .map kvs => (serEntries kvs).bind fun es => .ok (.obj (objOfEntries es))
  | .struct fs => (serFields fs).bind fun es => .ok (.obj (objOfEntries es))
  | .structVariant v fs => (serFields fs).bind fun es => .ok (.obj [(v, .obj (objOfEntries es))])
/-- `SerializeVec::serialize_element` for each element, first error wins -/
def serList : List SD → Res (List V)
  | [] => .ok []
  | x :: xs => (serialize x).bind fun y => (serList xs).bind fun ys => .ok (y :: ys)
/-- `SerializeMap::{serialize_key, serialize_value}` per entry (key first) -/
def serEntries : List (SD × SD) → Res (List (Str × V))
  | [] => .ok []
  | (k, x) :: r => (mapKey k).bind fun k' => (serialize x).bind fun y =>
      (serEntries r).bind fun es => .ok ((k', y) :: es)
/-- `SerializeStruct::serialize_field` per field -/
def serFields : List (Str × SD) → Res (List (Str × V))
  | [] => .ok []
  | (k, x) :: r => (serialize x).bind fun y => (serFields r).bind fun es => .ok ((k, y) :: es)
end

/-- `ObjectSerializer` (`to_object`) -/
def serializeObject : SD → Res Obj
  | .some x => serializeObject x
  | .newtypeStruct x => serializeObject x
  | .newtypeVariant v x => (serialize x).bind fun y => .ok [(v, y)]
  | .tupleVariant v xs => (serList xs).bind fun ys => .ok [(v, .arr ys)]
  | .map kvs => (serEntries kvs).bind fun es => .ok (objOfEntries es)
  | .struct fs => (serFields fs).bind fun es => .ok (objOfEntries es)
  | .structVariant v fs => (serFields fs).bind fun es => .ok [(v, .obj (objOfEntries es))]
  | _ => .err

/-! ### `Value: Serialize` -/

/-- variant names of `enum State` as serde_derive emits them -/
def stateName : St → Str
  | .truthy => "Truthy".toList
  | .dflt => "DefaultValue".toList
  | .empty => "Empty".toList
  | .blank => "Blank".toList

def Sc.toSD : Sc → SD
  | .int i => .int .i64 i
  | .flt f => .f64 f
  | .bool b => .bool b
  | .dt d => .str d.disp          -- friendly_date_time::serialize: the Display text
  | .date d => .str d.disp        -- friendly_date::serialize
  | .str s => .str s

mutual
/-- `impl Serialize for Value` (untagged: the payload's own serialisation; `Nil` = unit) -/
def V.toSD : V → SD
  | .nil => .unit
  | .st s => .unitVariant (stateName s)
  | .sc s => s.toSD
  | .arr xs => .seq (toSDL xs)
  | .obj kvs => .map (toSDO kvs)
def toSDL : List V → List SD
  | [] => []
  | x :: xs => x.toSD :: toSDL xs
def toSDO : List (Str × V) → List (SD × SD)
  | [] => []
  | (k, v) :: r => (.str k, v.toSD) :: toSDO r
end

/-- `to_value(&v)` for `v : Value` -/
def toValueV (v : V) : Res V := serialize v.toSD

/-! ### `Value: Deserialize` -/

/-- The events of a self-describing input as buffered by serde's untagged-enum machinery
(`Content`), restricted to what serde_json, `serde_json::Value` and `ValueDeserializer` produce:
map keys are always strings. -/
inductive Cont where
  | unit
  | bool (b : Bool)
  | i64 (n : Int)
  | u64 (n : Int)
  | f64 (f : Fl)
  | str (s : Str)
  | seq (xs : List Cont)
  | map (kvs : List (Str × Cont))
  deriving Repr, Inhabited

/-- The text parsers of the `time` crate behind `friendly_date_time::deserialize` (sub-second
format first, then the plain one) and `friendly_date::deserialize` (`[year]-[month]-[day]`).
External (DESIGN 4.7): a parameter of the model, supplied per string by the harness. -/
structure TextOracle where
  dt : Str → Option DT
  date : Str → Option Dt

/-- IEEE-754 bit pattern of the double nearest to the natural number `n` (ties to even) = Rust's
`n as f64` for an unsigned integer. -/
def natToF64Bits (n : Nat) : Nat :=
  if n = 0 then 0 else
  let r := (roundI64ToF64 (Int.ofNat n)).toNat
  let l := bitLen r
  if l ≤ 53 then (l - 1 + 1023) * 2^52 + (r * 2^(53 - l) - 2^52)
  else (l - 1 + 1023) * 2^52 + (r / 2^(l - 53) - 2^52)

/-- `v as f64` in serde's `f64` visitor (`visit_u64` / `visit_i64`) -/
def intToF64 (n : Int) : Fl :=
  { bits := (if n < 0 then 2^63 else 0) + natToF64Bits n.natAbs }

/-- A string reaching the untagged `ScalarCowEnum`: Integer ✗ Float ✗ Bool ✗, then DateTime, Date, Str. -/
def desStr (orc : TextOracle) (s : Str) : Sc :=
  match orc.dt s with
  | some d => .dt d
  | none =>
    match orc.date s with
    | some d => .date d
    | none => .str s

mutual
/-- `Value::deserialize` on buffered content.  Total: every event tree matches some variant
(`State` is shadowed by `Scalar`/`Object` and never produced). -/
def deserializeValue (orc : TextOracle) : Cont → V
  | .unit => .nil
  | .bool b => .sc (.bool b)
  | .i64 n => .sc (.int n)
  | .u64 n => if n ≤ i64Max then .sc (.int n) else .sc (.flt (intToF64 n))
  | .f64 f => .sc (.flt f)
  | .str s => .sc (desStr orc s)
  | .seq xs => .arr (desL orc xs)
  | .map kvs => .obj (objOfEntries (desO orc kvs))
def desL (orc : TextOracle) : List Cont → List V
  | [] => []
  | x :: xs => deserializeValue orc x :: desL orc xs
def desO (orc : TextOracle) : List (Str × Cont) → List (Str × V)
  | [] => []
  | (k, x) :: r => (k, deserializeValue orc x) :: desO orc r
end

/-- `ValueDeserializer::deserialize_any` on a scalar, **repaired** (patches/C12-deserialize-any.diff):
a string scalar is visited as a string. -/
def Sc.toCont : Sc → Cont
  | .int i => .i64 i
  | .flt f => .f64 f
  | .bool b => .bool b
  | .dt d => .str d.disp      -- `into_cow_str` = Display text
  | .date d => .str d.disp
  | .str s => .str s

/-- The code at the pinned commit: `to_integer()` / `to_float()` are asked first, and these *parse*
a string scalar (`str::parse::<i64>`, `str::parse::<f64>` = the parameter `fltParse`). -/
def Sc.toContOld (fltParse : Str → Option Fl) : Sc → Cont
  | .str s =>
    match parseI64 s with
    | some i => .i64 i
    | none =>
      match fltParse s with
      | some f => .f64 f
      | none => .str s
  | s => s.toCont

mutual
/-- `ValueDeserializer::deserialize_any` driven by serde's content buffering -/
def V.toCont : V → Cont
  | .nil => .unit
  | .st _ => .unit
  | .sc s => s.toCont
  | .arr xs => .seq (toContL xs)
  | .obj kvs => .map (toContO kvs)
def toContL : List V → List Cont
  | [] => []
  | x :: xs => x.toCont :: toContL xs
def toContO : List (Str × V) → List (Str × Cont)
  | [] => []
  | (k, v) :: r => (k, v.toCont) :: toContO r
end

/-- `from_value::<Value>(&v)` -/
def fromValueV (orc : TextOracle) (v : V) : V := deserializeValue orc v.toCont

/-- `from_value::<Value>` at the pinned commit, on a scalar -/
def fromValueScOld (orc : TextOracle) (fltParse : Str → Option Fl) (s : Sc) : V :=
  deserializeValue orc (s.toContOld fltParse)

/-! ### typed integers (`from_value::<u8>` …) -/

/-- `deserialize_{i8..u64}` all forward to `deserialize_i64`: `to_integer()` (which parses strings),
then the target type's primitive visitor checks the range of `visit_i64`. -/
def desInt (t : IntTag) (v : V) : Res Int :=
  match v with
  | .sc s =>
    match s.toInteger? with
    | some n => if t.inRange n then .ok n else .err
    | none => .err
  | _ => .err

/-! ### serde_json as a pair writer/reader, on the level of events -/

def Fl.isFinite (f : Fl) : Bool := f.expBits != 2047

/-- keys serde_json accepts for a map (its own `MapKeySerializer`): modelled for strings, chars
and 8–64 bit integers only. -/
def jsonKey : SD → Option Str
  | .str s => some s
  | .char c => some [c]
  | .int t n => if t.is128 then none else some (intRepr n)
  | .unitVariant v => some v
  | .newtypeStruct x => jsonKey x
  | _ => none

mutual
/-- `serde_json::to_string` followed by the reader's event stream.  `none` = outside the modelled
fragment (128-bit integers, `f32` whose shortest decimal text is external, non-string-like keys).
Non-negative integers are read back as `u64`, negative ones as `i64`; a non-finite double is
written as `null`; a finite double is read back exactly (harness builds serde_json with
`float_roundtrip`; the decimal text itself is external). -/
def jsonOfSD : SD → Option Cont
  | .bool b => some (.bool b)
  | .int t n => if t.is128 then none else some (if n < 0 then .i64 n else .u64 n)
  | .f32 _ => none
  | .f64 f => some (if f.isFinite then .f64 f else .unit)
  | .char c => some (.str [c])
  | .str s => some (.str s)
  | .bytes bs => some (.seq (bs.map fun b => .u64 (Int.ofNat b)))
  | .none => some .unit
  | .some x => jsonOfSD x
  | .unit => some .unit
  | .unitStruct => some .unit
  | .unitVariant v => some (.str v)
  | .newtypeStruct x => jsonOfSD x
  | .newtypeVariant v x => (jsonOfSD x).bind fun y => some (.map [(v, y)])
  | .seq xs => (jsonL xs).bind fun ys => some (.seq ys)
  | .tuple xs => (jsonL xs).bind fun ys => some (.seq ys)
  | .tupleStruct xs => (jsonL xs).bind fun ys => some (.seq ys)
  | .tupleVariant v xs => (jsonL xs).bind fun ys => some (.map [(v, .seq ys)])
  | .map kvs => (jsonE kvs).bind fun es => some (.map es)
  | .struct fs => (jsonF fs).bind fun es => some (.map es)
  | .structVariant v fs => (jsonF fs).bind fun es => some (.map [(v, .map es)])
def jsonL : List SD → Option (List Cont)
  | [] => some []
  | x :: xs => (jsonOfSD x).bind fun y => (jsonL xs).bind fun ys => some (y :: ys)
def jsonE : List (SD × SD) → Option (List (Str × Cont))
  | [] => some []
  | (k, x) :: r => (jsonKey k).bind fun k' => (jsonOfSD x).bind fun y =>
      (jsonE r).bind fun es => some ((k', y) :: es)
def jsonF : List (Str × SD) → Option (List (Str × Cont))
  | [] => some []
  | (k, x) :: r => (jsonOfSD x).bind fun y => (jsonF r).bind fun es => some ((k, y) :: es)
end

/-- `serde_json::from_str::<Value>(&serde_json::to_string(&x)?)` -/
def viaJson (orc : TextOracle) (sd : SD) : Option V := (jsonOfSD sd).map (deserializeValue orc)

/-! ### the derive family -/

/-- A Rust datum built from the types that have a `ValueView` impl: scalars, `Value`, `Option`,
`Vec`, string-keyed maps, and structs with `derive(Serialize, ObjectView, ValueView)`. -/
inductive TD where
  | bool (b : Bool)
  | int (t : IntTag) (n : Int)     -- i8 i16 i32 i64 u8 u16 u32 (the `impl_copyable!` list + i64)
  | f32 (f : Fl)
  | f64 (f : Fl)
  | str (s : Str)                   -- String, &str, KString, KStringCow, KStringRef
  | dt (d : DT)
  | date (d : Dt)
  | val (v : V)                     -- a field of type `Value`
  | none
  | some (x : TD)
  | vec (xs : List TD)
  | map (kvs : List (Str × TD))     -- HashMap / BTreeMap with an `ObjectIndex` key
  | struct (fs : List (Str × TD))   -- field identifiers in declaration order
  deriving Repr, Inhabited

mutual
/-- what serde (`Serialize` impls of std + serde_derive with default attributes) emits -/
def TD.toSD : TD → SD
  | .bool b => .bool b
  | .int t n => .int t n
  | .f32 f => .f32 f
  | .f64 f => .f64 f
  | .str s => .str s
  | .dt d => .str d.disp
  | .date d => .str d.disp
  | .val v => v.toSD
  | .none => .none
  | .some x => .some x.toSD
  | .vec xs => .seq (tdSDL xs)
  | .map kvs => .map (tdSDM kvs)
  | .struct fs => .struct (tdSDF fs)
def tdSDL : List TD → List SD
  | [] => []
  | x :: xs => x.toSD :: tdSDL xs
def tdSDM : List (Str × TD) → List (SD × SD)
  | [] => []
  | (k, x) :: r => (.str k, x.toSD) :: tdSDM r
def tdSDF : List (Str × TD) → List (Str × SD)
  | [] => []
  | (k, x) :: r => (k, x.toSD) :: tdSDF r
end

mutual
/-- what the `ValueView`/`ArrayView`/`ObjectView` impls show: the forwarding impls of
`value/view.rs`, `scalar/mod.rs`, `array/mod.rs`, `object/mod.rs` and the code generated by
`derive(ObjectView, ValueView)` (an object over the field list, keys = field identifiers — with the
repair of patches/C12-derive-raw-ident.diff: *unraw* identifiers, as serde_derive). -/
def TD.view : TD → V
  | .bool b => .sc (.bool b)
  | .int _ n => .sc (.int n)
  | .f32 f => .sc (.flt f)
  | .f64 f => .sc (.flt f)
  | .str s => .sc (.str s)
  | .dt d => .sc (.dt d)
  | .date d => .sc (.date d)
  | .val v => v
  | .none => .nil
  | .some x => x.view
  | .vec xs => .arr (tdViewL xs)
  | .map kvs => .obj (tdViewF kvs)
  | .struct fs => .obj (tdViewF fs)
def tdViewL : List TD → List V
  | [] => []
  | x :: xs => x.view :: tdViewL xs
def tdViewF : List (Str × TD) → List (Str × V)
  | [] => []
  | (k, x) :: r => (k, x.view) :: tdViewF r
end

/-- key text generated by `derive(ObjectView)` at the pinned commit: `stringify!(#field)`, which
keeps the `r#` of a raw identifier (`isRaw`), whereas serde_derive strips it. -/
def deriveKeyOld (isRaw : Bool) (name : Str) : Str := if isRaw then "r#".toList ++ name else name

end Liquid
