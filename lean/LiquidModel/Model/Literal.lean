/-
  Literals: the `Literal` alternatives of `grammar.pest` and `try_parse_literal` of `parser.rs`
  (after the `fix:` commit: an integer literal outside 64 bits is an error, not a panic).
  `FloatLiteral` conversion (`str::parse::<f64>`) is external.
-/
import LiquidModel.Model.Find
namespace Liquid

/-- does `s` match `IntegerLiteral = @{ ("+" | "-")? ~ ASCII_DIGIT+ }` completely? -/
def matchesIntegerLiteral (s : Str) : Bool :=
  let ds := match s with
    | '+' :: r => r
    | '-' :: r => r
    | _ => s
  !ds.isEmpty && ds.all Char.isDigit

inductive LitOutcome where
  | value (v : V)
  | outOfRange           -- "Integer literal out of range"
  | notALiteral
  deriving Inhabited

/-- `StringLiteral = @{ ("'" ~ (!"'" ~ ANY)* ~ "'") | ("\"" ~ (!"\"" ~ ANY)* ~ "\"") }` + the
quote trimming of `try_parse_literal`. -/
def stringLiteral? (s : Str) : Option Str :=
  match s with
  | q :: r =>
    if q == '\'' || q == '"' then
      match r.reverse with
      | q' :: body => if q' == q && !body.contains q then some body.reverse else none
      | [] => none
    else none
  | [] => none

/-- conversion of a complete literal token (float literals excluded: external) -/
def parseLiteral (s : Str) : LitOutcome :=
  if s == "nil".toList || s == "null".toList then .value .nil
  else if s == "empty".toList then .value (.st .empty)
  else if s == "blank".toList then .value (.st .blank)
  else if s == "true".toList then .value (.sc (.bool true))
  else if s == "false".toList then .value (.sc (.bool false))
  else match stringLiteral? s with
    | some body => .value (.sc (.str body))
    | none =>
      if matchesIntegerLiteral s then
        match parseI64 s with
        | some i => .value (.sc (.int i))
        | none => .outOfRange
      else .notALiteral

end Liquid
