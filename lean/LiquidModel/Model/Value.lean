/-
  Value model of liquid-core (crates/core/src/model): scalars, arrays, objects, state markers,
  with `query_state`, `value_eq`, `value_cmp`, rendering and the coercions — transcribed arm by arm
  from `scalar/mod.rs`, `value/view.rs`, `value/values.rs`, `value/state.rs`, `array/mod.rs`,
  `object/mod.rs`.  Import-free on purpose (the driver links as a `lean_exe`).
-/
namespace Liquid

abbrev Str := List Char

/-- The four `State` markers (`value/state.rs`). -/
inductive St where
  | truthy | dflt | empty | blank
  deriving DecidableEq, Repr, Inhabited

/-- An IEEE-754 double carried as its 64-bit pattern; `disp` is the implementation's own
`Display` text for it (decimal printing of floats is external, DESIGN 4.3). -/
structure Fl where
  bits : Nat
  disp : Str := []
  deriving Repr, Inhabited

/-- Semantic reading of a double: `fin q` denotes the real number `q / 2^1074`. -/
inductive FV where
  | nan | ninf | pinf | fin (q : Int)
  deriving DecidableEq, Repr, Inhabited

def Fl.sign (f : Fl) : Bool := (f.bits / 2^63) % 2 == 1
def Fl.expBits (f : Fl) : Nat := (f.bits / 2^52) % 2048
def Fl.mant (f : Fl) : Nat := f.bits % 2^52

def Fl.toFV (f : Fl) : FV :=
  let e := f.expBits
  let m := f.mant
  if e == 2047 then
    if m != 0 then .nan else if f.sign then .ninf else .pinf
  else
    let mag : Nat := if e == 0 then m else (2^52 + m) * 2^(e - 1)
    .fin (if f.sign then -(Int.ofNat mag) else Int.ofNat mag)

/-- IEEE `==` on the semantic reading. -/
def FV.eq : FV → FV → Bool
  | .nan, _ => false
  | _, .nan => false
  | .ninf, .ninf => true
  | .pinf, .pinf => true
  | .fin a, .fin b => a == b
  | _, _ => false

def FV.cmp : FV → FV → Option Ordering
  | .nan, _ => none
  | _, .nan => none
  | .ninf, .ninf => some .eq
  | .ninf, _ => some .lt
  | _, .ninf => some .gt
  | .pinf, .pinf => some .eq
  | .pinf, _ => some .gt
  | _, .pinf => some .lt
  | .fin a, .fin b => some (compare a b)

/-- number of binary digits of `n` -/
def bitLen (n : Nat) : Nat := if n = 0 then 0 else Nat.log2 n + 1

/-- `i64 as f64`: round to nearest, ties to even, 53 significant bits.  Returns the exact
integer value of the resulting double. -/
def roundI64ToF64 (x : Int) : Int :=
  let n := x.natAbs
  let l := bitLen n
  let r : Nat :=
    if l ≤ 53 then n
    else
      let sh := l - 53
      let q := n / 2^sh
      let rem := n % 2^sh
      let half := 2^(sh - 1)
      let q' := if rem > half then q + 1 else if rem < half then q else (if q % 2 == 1 then q + 1 else q)
      q' * 2^sh
  if x < 0 then -(Int.ofNat r) else Int.ofNat r

def FV.ofI64 (x : Int) : FV := .fin (roundI64ToF64 x * 2^1074)

/-- A date-time: local clock reading in nanoseconds since 1970-01-01T00:00 local, and the UTC
offset in seconds.  `disp` = implementation's default `Display` (used until C17's printer). -/
structure DT where
  loc : Int
  off : Int
  disp : Str := []
  deriving Repr, Inhabited

def nsPerDay : Int := 86400 * 1000000000
def DT.instant (d : DT) : Int := d.loc - d.off * 1000000000
def DT.localDay (d : DT) : Int := d.loc / nsPerDay   -- floor division (`Int./` is `ediv`, positive divisor)

structure Dt where   -- calendar date: days since 1970-01-01
  days : Int
  disp : Str := []
  deriving Repr, Inhabited

inductive Sc where
  | int (i : Int)
  | flt (f : Fl)
  | bool (b : Bool)
  | dt (d : DT)
  | date (d : Dt)
  | str (s : Str)
  deriving Repr, Inhabited

inductive V where
  | nil
  | st (s : St)
  | sc (s : Sc)
  | arr (xs : List V)
  | obj (kvs : List (Str × V))     -- list order = iteration order of that instance
  deriving Repr, Inhabited

abbrev Obj := List (Str × V)

/-! ### small helpers -/

/-- decimal digits of `n`, most significant first (`u64`/`i64` `Display`) -/
def natDigits (n : Nat) : Str := (Nat.toDigits 10 n)
def intRepr (i : Int) : Str := if i < 0 then '-' :: natDigits i.natAbs else natDigits i.natAbs

/-- `char::is_whitespace` = Unicode White_Space (25 code points). -/
def isUniWs (c : Char) : Bool :=
  let n := c.toNat
  (9 ≤ n && n ≤ 13) || n == 32 || n == 0x85 || n == 0xA0 || n == 0x1680 ||
  (0x2000 ≤ n && n ≤ 0x200A) || n == 0x2028 || n == 0x2029 || n == 0x202F || n == 0x205F || n == 0x3000

/-- lexicographic comparison of strings by scalar value (= byte order of UTF-8). -/
def strCmp : Str → Str → Ordering
  | [], [] => .eq
  | [], _ :: _ => .lt
  | _ :: _, [] => .gt
  | a :: as, b :: bs =>
    if a.toNat < b.toNat then .lt else if b.toNat < a.toNat then .gt else strCmp as bs

def utf8Len1 (c : Char) : Nat :=
  let n := c.toNat
  if n < 0x80 then 1 else if n < 0x800 then 2 else if n < 0x10000 then 3 else 4
def utf8Len (s : Str) : Nat := (s.map utf8Len1).sum

/-! ### scalar equality / ordering (`scalar_eq`, `scalar_cmp`) -/

def boolCmp : Bool → Bool → Ordering
  | false, true => .lt
  | true, false => .gt
  | _, _ => .eq

def scalarEq : Sc → Sc → Bool
  | .int x, .int y => x == y
  | .int x, .flt y => (FV.ofI64 x).eq y.toFV
  | .flt x, .int y => x.toFV.eq (FV.ofI64 y)
  | .flt x, .flt y => x.toFV.eq y.toFV
  | .bool x, .bool y => x == y
  | .dt x, .dt y => x.instant == y.instant
  | .date x, .date y => x.days == y.days
  | .dt x, .date y => x.localDay == y.days
  | .date x, .dt y => y.localDay == x.days
  | .str x, .str y => x == y
  | _, .bool b => b
  | .bool b, _ => b
  | _, _ => false

def scalarCmp : Sc → Sc → Option Ordering
  | .int x, .int y => some (compare x y)
  | .int x, .flt y => (FV.ofI64 x).cmp y.toFV
  | .flt x, .int y => x.toFV.cmp (FV.ofI64 y)
  | .flt x, .flt y => x.toFV.cmp y.toFV
  | .bool x, .bool y => some (boolCmp x y)
  | .dt x, .dt y => some (compare x.instant y.instant)
  | .date x, .date y => some (compare x.days y.days)
  | .dt x, .date y => some (compare x.localDay y.days)
  | .date x, .dt y => some (compare x.days y.localDay)
  | .str x, .str y => some (strCmp x y)
  | _, _ => none

def Sc.toBool? : Sc → Option Bool
  | .bool b => some b
  | _ => none

/-! ### rendering (`ValueView::render`, `to_kstr`) -/

def boolRepr (b : Bool) : Str := if b then "true".toList else "false".toList

def Sc.render : Sc → Str
  | .int i => intRepr i
  | .flt f => f.disp
  | .bool b => boolRepr b
  | .dt d => d.disp
  | .date d => d.disp
  | .str s => s

mutual
def V.render : V → Str
  | .nil => []
  | .st _ => []
  | .sc s => s.render
  | .arr xs => renderL xs
  | .obj kvs => renderO kvs
def renderL : List V → Str
  | [] => []
  | x :: xs => x.render ++ renderL xs
def renderO : List (Str × V) → Str
  | [] => []
  | (k, v) :: r => k ++ v.render ++ renderO r
end

def V.typeName : V → Str
  | .nil => "nil".toList
  | .st .truthy => "truthy".toList
  | .st .dflt => "default".toList
  | .st .empty => "empty".toList
  | .st .blank => "blank".toList
  | .sc (.int _) => "whole number".toList
  | .sc (.flt _) => "fractional number".toList
  | .sc (.bool _) => "boolean".toList
  | .sc (.dt _) => "date time".toList
  | .sc (.date _) => "date".toList
  | .sc (.str _) => "string".toList
  | .arr _ => "array".toList
  | .obj _ => "object".toList

/-! ### `query_state` -/

def strIsBlank (s : Str) : Bool := s.all isUniWs

def Sc.queryState (s : Sc) (q : St) : Bool :=
  match s, q with
  | .bool b, .truthy => b
  | .bool b, .dflt => !b
  | .bool _, .empty => false
  | .bool b, .blank => !b
  | .str _, .truthy => true
  | .str s, .dflt => s.isEmpty
  | .str s, .empty => s.isEmpty
  | .str s, .blank => strIsBlank s
  | _, .truthy => true
  | _, _ => false

def V.queryState (v : V) (q : St) : Bool :=
  match v with
  | .nil => (match q with | .truthy => false | _ => true)
  | .st _ => (match q with | .truthy => false | _ => true)   -- State::is_* as coded
  | .sc s => s.queryState q
  | .arr xs => (match q with | .truthy => true | _ => xs.isEmpty)
  | .obj kvs => (match q with | .truthy => true | _ => kvs.isEmpty)

def V.isNil : V → Bool | .nil => true | _ => false
def V.asScalar? : V → Option Sc | .sc s => some s | _ => none

/-! ### `value_eq` / `value_cmp` (`value/view.rs`) -/

def objGet : Obj → Str → Option V
  | [], _ => none
  | (k', v) :: r, k => if k' == k then some v else objGet r k

/-- The non-container part of `value_eq`. -/
def valueEqFlat (a b : V) : Bool :=
  if a.isNil && b.isNil then true
  else match a, b with
    | .st s, _ => b.queryState s
    | _, .st s => a.queryState s
    | .sc x, .sc y => scalarEq x y
    | .sc x, _ => if b.isNil then !(x.toBool?.getD true) else x.toBool?.getD false
    | _, .sc x => if a.isNil then !(x.toBool?.getD true) else x.toBool?.getD false
    | _, _ => false

mutual
def valueEq : V → V → Bool
  | .arr xs, .arr ys => xs.length == ys.length && eqZip xs ys
  | .obj xs, .obj ys => xs.length == ys.length && eqObj xs ys
  | a, b => valueEqFlat a b
termination_by a b => sizeOf a + sizeOf b
/-- `x.values().zip(y.values()).all(value_eq)` -/
def eqZip : List V → List V → Bool
  | x :: xs, y :: ys => valueEq x y && eqZip xs ys
  | _, _ => true
termination_by a b => sizeOf a + sizeOf b
/-- `x.iter().all(|(k, v)| y.get(k).map(|w| value_eq(w, v)).unwrap_or(false))` -/
def eqObj : Obj → Obj → Bool
  | [], _ => true
  | (k, v) :: r, ys => eqGet ys k v && eqObj r ys
termination_by a b => sizeOf a + sizeOf b
/-- find the first entry of `ys` with key `k` and compare its value (`w == v`, in that order) -/
def eqGet : Obj → Str → V → Bool
  | [], _, _ => false
  | (k', w) :: r, k, v => if k' == k then valueEq w v else eqGet r k v
termination_by a _ v => sizeOf a + sizeOf v
end

def ordThen : Option Ordering → (Unit → Option Ordering) → Option Ordering
  | some .eq, k => k ()
  | o, _ => o

/-! #### `value_cmp`

At the pinned commit `value_cmp` compares two objects by zipping the two *iteration orders*
(defect D12: the outcome depends on `HashMap` layout).  That behaviour is kept below as
`valueCmpOld / cmpLOld / cmpOOld`.  `valueCmp / cmpL / cmpO` model the repaired code
(patches/C11-object-cmp-sorted.diff): both entry lists are sorted by key (stable) before the
lexicographic comparison. -/

/-- stable insertion into a key-sorted entry list (before the first entry whose key is `≥ k`) -/
def insK {α : Type} (k : Str) (a : α) : List (Str × α) → List (Str × α)
  | [] => [(k, a)]
  | (k', b) :: r => if strCmp k k' == .gt then (k', b) :: insK k a r else (k, a) :: (k', b) :: r

/-- `entries.sort_by(|a, b| a.0.cmp(&b.0))` (stable; by UTF-8 byte order = scalar value order) -/
def sortK {α : Type} : List (Str × α) → List (Str × α)
  | [] => []
  | (k, a) :: r => insK k a (sortK r)

/-- `Iterator::partial_cmp` over `(key, ValueViewCmp)` tuples; the left values are carried as
their comparison functions `valueCmp x` (keeps the recursion below structural). -/
def lexK : List (Str × (V → Option Ordering)) → List (Str × V) → Option Ordering
  | [], [] => some .eq
  | [], _ :: _ => some .lt
  | _ :: _, [] => some .gt
  | (k, f) :: xs, (k', y) :: ys =>
    match strCmp k k' with
    | .eq => (match f y with
              | some .eq => lexK xs ys
              | o => o)
    | o => some o

mutual
def valueCmp : V → V → Option Ordering
  | .sc x, .sc y => scalarCmp x y
  | .arr xs, .arr ys => cmpL xs ys
  | .obj xs, .obj ys => lexK (sortK (cmpFns xs)) (sortK ys)
  | _, _ => none
/-- `Iterator::partial_cmp` (lexicographic) over `ValueViewCmp` -/
def cmpL : List V → List V → Option Ordering
  | [], [] => some .eq
  | [], _ :: _ => some .lt
  | _ :: _, [] => some .gt
  | x :: xs, y :: ys =>
    match valueCmp x y with
    | some .eq => cmpL xs ys
    | o => o
/-- each entry's value replaced by "compare me with …" -/
def cmpFns : Obj → List (Str × (V → Option Ordering))
  | [] => []
  | (k, x) :: r => (k, valueCmp x) :: cmpFns r
end

/-- repaired object comparison: lexicographic over the entries sorted by key -/
def cmpO (xs ys : Obj) : Option Ordering := lexK (sortK (cmpFns xs)) (sortK ys)

/-! behaviour at the pinned commit (objects zipped in iteration order) -/
mutual
def valueCmpOld : V → V → Option Ordering
  | .sc x, .sc y => scalarCmp x y
  | .arr xs, .arr ys => cmpLOld xs ys
  | .obj xs, .obj ys => cmpOOld xs ys
  | _, _ => none
def cmpLOld : List V → List V → Option Ordering
  | [], [] => some .eq
  | [], _ :: _ => some .lt
  | _ :: _, [] => some .gt
  | x :: xs, y :: ys =>
    match valueCmpOld x y with
    | some .eq => cmpLOld xs ys
    | o => o
/-- lexicographic over `(key, ValueViewCmp)` tuples, in iteration order -/
def cmpOOld : Obj → Obj → Option Ordering
  | [], [] => some .eq
  | [], _ :: _ => some .lt
  | _ :: _, [] => some .gt
  | (k, x) :: xs, (k', y) :: ys =>
    match strCmp k k' with
    | .eq => (match valueCmpOld x y with
              | some .eq => cmpOOld xs ys
              | o => o)
    | o => some o
end

/-- Rust's default `PartialOrd::{lt,le,gt,ge}` from `partial_cmp`. -/
def vLt (a b : V) : Bool := valueCmp a b == some .lt
def vLe (a b : V) : Bool := match valueCmp a b with | some .lt | some .eq => true | _ => false
def vGt (a b : V) : Bool := valueCmp a b == some .gt
def vGe (a b : V) : Bool := match valueCmp a b with | some .gt | some .eq => true | _ => false

end Liquid

namespace Liquid

/-- structural identity of values as the line protocol sees them (floats by bit pattern;
`disp` texts ignored) -/
def Sc.same : Sc → Sc → Bool
  | .int a, .int b => a == b
  | .flt a, .flt b => a.bits == b.bits || (a.toFV == FV.nan && b.toFV == FV.nan)   -- all NaNs are one
  | .bool a, .bool b => a == b
  | .dt a, .dt b => a.loc == b.loc && a.off == b.off
  | .date a, .date b => a.days == b.days
  | .str a, .str b => a == b
  | _, _ => false

mutual
def V.same : V → V → Bool
  | .nil, .nil => true
  | .st a, .st b => a == b
  | .sc a, .sc b => a.same b
  | .arr a, .arr b => sameL a b
  | .obj a, .obj b => sameO a b
  | _, _ => false
def sameL : List V → List V → Bool
  | [], [] => true
  | x :: xs, y :: ys => x.same y && sameL xs ys
  | _, _ => false
def sameO : List (Str × V) → List (Str × V) → Bool
  | [], [] => true
  | (k, x) :: xs, (k', y) :: ys => k == k' && x.same y && sameO xs ys
  | _, _ => false
end

end Liquid
