/-
  `parse_condition` / `parse_conjunction_chain` / `parse_atom_condition` of `if_block.rs`, on a
  token list: how a flat `a or b and c …` is grouped.
-/
import LiquidModel.Model.Ast
namespace Liquid

inductive CTok where
  | val (e : Expr)        -- a value token
  | cmp (o : CmpOp)       -- one of == != <> < > <= >= contains
  | and_ | or_
  | junk                  -- any other token
  deriving Repr, Inhabited

/-- `parse_atom_condition`: `value [op value]`. -/
def parseAtom : List CTok → Option (Cond × List CTok)
  | .val l :: .cmp o :: .val r :: rest => some (.bin l o r, rest)
  | .val _ :: .cmp _ :: _ => none              -- "Value expected."
  | .val l :: rest => some (.exist l, rest)
  | _ => none

/-- the `while let Some("and")` loop of `parse_conjunction_chain` -/
def conjLoop : Nat → Cond → List CTok → Option (Cond × List CTok)
  | 0, _, _ => none
  | fuel + 1, lh, .and_ :: rest =>
    (match parseAtom rest with
     | some (rh, rest') => conjLoop fuel (.and lh rh) rest'
     | none => none)
  | _ + 1, lh, rest => some (lh, rest)

def parseConj (fuel : Nat) (toks : List CTok) : Option (Cond × List CTok) :=
  match parseAtom toks with
  | some (lh, rest) => conjLoop fuel lh rest
  | none => none

/-- the `while let Some(token)` loop of `parse_condition`: every remaining token must be `or` -/
def disjLoop : Nat → Cond → List CTok → Option Cond
  | 0, _, _ => none
  | _ + 1, lh, [] => some lh
  | fuel + 1, lh, .or_ :: rest =>
    (match parseConj fuel rest with
     | some (rh, rest') => disjLoop fuel (.or lh rh) rest'
     | none => none)
  | _ + 1, _, _ => none                         -- "\"and\" or \"or\" expected."

def parseCondition (toks : List CTok) : Option Cond :=
  let fuel := toks.length + 1
  match parseConj fuel toks with
  | some (lh, rest) => disjLoop fuel lh rest
  | none => none

end Liquid
