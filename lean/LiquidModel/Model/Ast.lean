/-
  Template AST (what `parser.rs` + the stdlib `ParseBlock`/`ParseTag` impls build), expression and
  condition evaluation (`runtime/{expression,variable}.rs`, `if_block.rs` conditions).
-/
import LiquidModel.Model.Find
namespace Liquid

inductive Expr where
  | lit (v : V)
  | var (root : Str) (idx : List Expr)
  deriving Repr, Inhabited

structure FCall where
  name : Str
  args : List Expr
  kw : List (Str × Expr) := []
  deriving Repr, Inhabited

inductive CmpOp where
  | eq | ne | lt | gt | le | ge | contains
  deriving DecidableEq, Repr, Inhabited

inductive Cond where
  | bin (l : Expr) (op : CmpOp) (r : Expr)
  | exist (e : Expr)
  | and (a b : Cond)
  | or (a b : Cond)
  deriving Repr, Inhabited

inductive RangeE where
  | arr (e : Expr)
  | counted (a b : Expr)
  deriving Repr, Inhabited

inductive RForm where
  | plain
  | with_ (e : Expr) (as_ : Str)
  | for_ (r : RangeE) (as_ : Str)
  deriving Repr, Inhabited

inductive Node where
  | text (s : Str)
  | output (e : Expr) (fs : List FCall)
  | assign (x : Str) (e : Expr) (fs : List FCall)
  | capture (x : Str) (body : List Node)
  | incr (x : Str)
  | decr (x : Str)
  | brk
  | cont
  | cond (c : Cond) (mode : Bool) (thn : List Node) (els : Option (List Node))
  | case_ (target : Expr) (arms : List (List Expr × List Node)) (els : Option (List Node))
  | for_ (x : Str) (rng : RangeE) (limit offset : Option Expr) (rev : Bool)
         (body : List Node) (els : Option (List Node))
  | tablerow (x : Str) (rng : RangeE) (cols limit offset : Option Expr) (body : List Node)
  | cycle (name : Str) (vals : List Expr)
  | ifchanged (body : List Node)
  | include_ (name : Expr) (args : List (Str × Expr))
  | render_ (name : Expr) (form : RForm) (args : List (Str × Expr))
  | raw (s : Str)
  | comment
  deriving Repr, Inhabited

abbrev Tmpl := List Node

/-! ### expressions -/

mutual
/-- `Expression::evaluate` (failing form). -/
def Expr.eval (st : Stack) : Expr → Res V
  | .lit v => .ok v
  | .var root idx =>
    match evalIdx st idx with
    | .ok p => st.get (.str root :: p)
    | .err => .err | .io => .io | .panic s => .panic s | .fuel => .fuel
/-- `Variable::evaluate`: every index must evaluate to a scalar. -/
def evalIdx (st : Stack) : List Expr → Res (List Sc)
  | [] => .ok []
  | e :: r =>
    match e.eval st with
    | .ok (.sc s) =>
      (match evalIdx st r with
       | .ok p => .ok (s :: p)
       | o => o)
    | .ok _ => .err           -- "Expected scalar, found …"
    | .err => .err | .io => .io | .panic s => .panic s | .fuel => .fuel
end

mutual
/-- `Expression::try_evaluate` (optional form). -/
def Expr.tryEval (st : Stack) : Expr → Option V
  | .lit v => some v
  | .var root idx =>
    match tryEvalIdx st idx with
    | some p => st.tryGet (.str root :: p)
    | none => none
def tryEvalIdx (st : Stack) : List Expr → Option (List Sc)
  | [] => some []
  | e :: r =>
    match e.tryEval st with
    | some (.sc s) => (match tryEvalIdx st r with | some p => some (s :: p) | none => none)
    | _ => none
end

/-! ### conditions (`if_block.rs`) -/

/-- `str::contains` -/
def strContains (hay needle : Str) : Bool :=
  match hay with
  | [] => needle.isEmpty
  | _ :: r => needle.isPrefixOf hay || strContains r needle

def containsCheck (a b : V) : Res Bool :=
  match a with
  | .sc s => .ok (strContains s.render b.render)
  | .obj kvs => (match b with
      | .sc k => .ok (objContains kvs k.render)
      | _ => .ok false)
  | .arr xs => .ok (xs.any (fun e => valueEq e b))
  | _ => .err

def cmpOpEval (op : CmpOp) (a b : V) : Res Bool :=
  match op with
  | .eq => .ok (valueEq a b)
  | .ne => .ok (!valueEq a b)
  | .lt => .ok (vLt a b)
  | .gt => .ok (vGt a b)
  | .le => .ok (vLe a b)
  | .ge => .ok (vGe a b)
  | .contains => containsCheck a b

def Cond.eval (st : Stack) : Cond → Res Bool
  | .bin l op r => do
      let a ← l.eval st
      let b ← r.eval st
      cmpOpEval op a b
  | .exist e => .ok (((e.tryEval st).getD .nil).queryState .truthy)
  | .and a b => do
      let x ← a.eval st
      if x then b.eval st else pure false
  | .or a b => do
      let x ← a.eval st
      if x then pure true else b.eval st

end Liquid
