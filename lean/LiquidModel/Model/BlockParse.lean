/-
  The element-iterator protocol of `parser.rs` and of the stdlib blocks, abstracted from text:
  `parse`, `BlockElement::parse_pair`, `Tag::parse_pair` (tag / block / unknown), `TagBlock::{next,
  parse_all, escape_liquid, assert_empty}`, `InvalidLiquidToken::parse_pair` (drains the iterator),
  and the body-consumption pattern of every stdlib block (if/elsif/else, unless/else, for/else,
  tablerow, case/when/else, capture, ifchanged, comment with its "ignore the errors of inner tags",
  raw).  Whether a tag's arguments are accepted is an arbitrary bit carried by each element, so the
  theorems hold for every argument parser.  State after the `fix:` commits (an exhausted iterator is
  an "Unclosed block" error).
-/
import LiquidModel.Model.Value
namespace Liquid.BP

inductive El where
  | raw
  | expr (ok : Bool)                                  -- `{{ … }}`; `ok` = its filter chain parses
  | invalid                                           -- an `InvalidLiquid` element
  | tag (name : Str) (argsOk : Bool) (noArgs : Bool)  -- `{% name … %}`; `argsOk` = the owner accepts its
                                                      -- arguments, `noArgs` = nothing follows the name
  | eoi
  deriving Repr, Inhabited, DecidableEq

inductive BKind where
  | plain      -- capture, ifchanged, tablerow: arguments, then `parse_all`
  | ifB | unlessB | forB | caseB | commentB | rawB
  deriving Repr, Inhabited, DecidableEq

structure Cfg where
  tags : List Str
  blocks : List (Str × Str × BKind)     -- start tag, end tag, kind

def Cfg.block? (cfg : Cfg) (name : Str) : Option (Str × BKind) :=
  (cfg.blocks.find? (·.1 == name)).map (·.2)

inductive Out where
  | ok | err | panic (site : String) | fuel
  deriving Repr, Inhabited, DecidableEq

/-- `TagBlock::next` -/
inductive NextR where
  | closed (rest : List El)
  | err (rest : List El)
  | elem (e : El) (rest : List El)

def next (endTag : Str) : List El → NextR
  | [] => .err []                                   -- exhausted iterator ("Unclosed block")
  | .eoi :: r => .err r                             -- "Unclosed block. {% end… %} tag expected."
  | .tag name a n :: r =>
    if name == endTag then (if n then .closed r else .err r)   -- an end tag takes no arguments
    else .elem (.tag name a n) r
  | e :: r => .elem e r

/-- `TagBlock::escape_liquid(false)` (raw): skip to the first argument-less end tag -/
def escapeLiquid (endTag : Str) : List El → Out × List El × Bool
  | [] => (.err, [], false)
  | .eoi :: r => (.err, r, false)
  | .tag name _ n :: r => if name == endTag && n then (.ok, r, true) else escapeLiquid endTag r
  | _ :: r => escapeLiquid endTag r

/-- what a block does with its own inner tags (`else`, `elsif`, `when`; for `comment`: everything):
`none` = not special, handle the element like `parse_all` does.  `bodyF`/`elemF` are the protocol
functions one level of fuel down. -/
def specialStep (bodyF : BKind → List El → Out × List El × Bool) (elemF : El → List El → Out × List El)
    (kind : BKind) (e : El) (r : List El) : Option (Out × List El × Bool) :=
  match kind, e with
  | .ifB, .tag name a _ =>
    if name == "else".toList then some (bodyF .plain r)
    else if name == "elsif".toList then some (if a then bodyF .ifB r else (.err, r, false))
    else none
  | .unlessB, .tag name _ _ =>
    if name == "else".toList then some (bodyF .plain r) else none
  | .forB, .tag name _ n =>
    if name == "else".toList then some (if n then bodyF .plain r else (.err, r, false)) else none
  | .caseB, .tag name a n =>
    if name == "when".toList then some (if a then bodyF .caseB r else (.err, r, false))
    else if name == "else".toList then some (if n then bodyF .plain r else (.err, r, false))
    else none
  | .commentB, .tag name a n =>
    -- nested comments are parsed (errors propagate); other tags are parsed and their errors ignored
    if name == "comment".toList then
      some (match elemF (.tag name a n) r with
        | (.ok, r') => bodyF .commentB r'
        | (o, r') => (o, r', false))
    else
      some (match elemF (.tag name a n) r with
        | (.panic s, r') => (.panic s, r', false)
        | (.fuel, r') => (.fuel, r', false)
        | (_, r') => bodyF .commentB r')
  | .commentB, _ => some (bodyF .commentB r)        -- raw / output / invalid: skipped
  | _, _ => none

mutual
/-- `BlockElement::parse_pair` / `BlockElement::parse` -/
def parseElem (cfg : Cfg) : Nat → El → List El → Out × List El
  | 0, _, it => (.fuel, it)
  | fuel + 1, e, it =>
    match e with
    | .raw => (.ok, it)
    | .expr ok => (if ok then .ok else .err, it)
    | .invalid => (.err, [])                        -- `next_elements.last()` drains the iterator
    | .eoi => (.panic "BlockElement::from: Only rules Raw | Tag | Expression", it)
    | .tag name argsOk noArgs =>
      if cfg.tags.contains name then (if argsOk then .ok else .err, it)
      else match cfg.block? name with
        | none => (.err, it)                        -- "Unknown tag."
        | some (endTag, kind) => parseBlock cfg fuel kind endTag argsOk noArgs it

/-- `ParseBlock::parse` of the stdlib blocks: arguments, body, `assert_empty` -/
def parseBlock (cfg : Cfg) : Nat → BKind → Str → Bool → Bool → List El → Out × List El
  | 0, _, _, _, _, it => (.fuel, it)
  | fuel + 1, kind, endTag, argsOk, noArgs, it =>
    match kind with
    | .rawB =>
      if !noArgs then (.err, it) else
      (match escapeLiquid endTag it with
       | (.ok, r, closed) => if closed then (.ok, r) else (.panic "assert_empty", r)
       | (o, r, _) => (o, r))
    | .commentB =>
      if !noArgs then (.err, it) else
      (match body cfg fuel kind endTag it with
       | (.ok, r, closed) => if closed then (.ok, r) else (.panic "assert_empty", r)
       | (o, r, _) => (o, r))
    | _ =>
      if !argsOk then (.err, it) else
      (match body cfg fuel kind endTag it with
       | (.ok, r, closed) => if closed then (.ok, r) else (.panic "assert_empty", r)
       | (o, r, _) => (o, r))

/-- the `while let Some(element) = tokens.next()?` loop of a block (incl. `parse_all`); the Bool is
`TagBlock::closed` when the loop is left with `Ok` -/
def body (cfg : Cfg) : Nat → BKind → Str → List El → Out × List El × Bool
  | 0, _, _, it => (.fuel, it, false)
  | fuel + 1, kind, endTag, it =>
    match next endTag it with
    | .closed r => (.ok, r, true)
    | .err r => (.err, r, false)
    | .elem e r =>
      match specialStep (fun k it' => body cfg fuel k endTag it') (parseElem cfg fuel) kind e r with
      | some res => res
      | none =>
        match parseElem cfg fuel e r with
        | (.ok, r') => body cfg fuel kind endTag r'
        | (o, r') => (o, r', false)
end

/-- `parser::parse`: top-level loop up to `EOI` -/
def parseTop (cfg : Cfg) : Nat → List El → Out
  | 0, _ => .fuel
  | _ + 1, [] => .ok                                -- `while let Some(element) = liquid.next()` ends
  | _ + 1, .eoi :: _ => .ok
  | fuel + 1, e :: r =>
    match parseElem cfg fuel e r with
    | (.ok, r') => (match r' with
        | [] => .ok          -- `while let Some(element) = liquid.next()`: exhausted ⇒ loop ends
        | _ => parseTop cfg fuel r')
    | (o, _) => o

/-- the stdlib registry (`ParserBuilder::stdlib`) -/
def stdCfg : Cfg :=
  { tags := ["assign", "break", "continue", "cycle", "include", "increment", "decrement", "render"].map String.toList,
    blocks := [("raw", "endraw", BKind.rawB), ("if", "endif", .ifB), ("unless", "endunless", .unlessB),
               ("ifchanged", "endifchanged", .plain), ("for", "endfor", .forB), ("tablerow", "endtablerow", .plain),
               ("comment", "endcomment", .commentB), ("capture", "endcapture", .plain), ("case", "endcase", .caseB)].map
      fun (a, b, k) => (a.toList, b.toList, k) }

end Liquid.BP
