/-
  String filters of liquid-lib (`crates/lib/src/stdlib/filters/{string/*,slice,html,array,mod}.rs`)
  on `Str = List Char`, transcribed filter by filter, plus the positional-argument conversion that
  `#[derive(FilterParameters)]` generates (`arg_type = "str"` ⇒ `to_kstr`, `"integer"` ⇒
  `as_scalar().to_integer()` or "Invalid argument").

  External Unicode data is a parameter (`Uni`): the per-character case maps of
  `char::to_uppercase/to_lowercase` and the extended-grapheme-cluster segmentation of
  `unicode_segmentation`.  The harness ships both for the strings of each case; theorems hold for
  every `Uni`.  `segSimple` is a self-contained segmentation for the property's restricted alphabet.

  Repaired behaviour is modelled for D13 (truncate), D14 (size), D15 and D9 (slice); the behaviour
  at the pinned commit is kept as `…Old` for the counterexample theorems.
-/
import LiquidModel.Model.Render
namespace Liquid.StrF
open Liquid

/-- External Unicode tables. -/
structure Uni where
  /-- `char::to_uppercase` -/
  upper : Char → Str
  /-- `char::to_lowercase` (the context-sensitive final-sigma rule of `str::to_lowercase` is not
  modelled; the generator never produces sigma: U+03A3, U+03C3, U+03C2) -/
  lower : Char → Str
  /-- `UnicodeSegmentation::graphemes(s, true)` -/
  seg : Str → List Str

/-! ### a segmentation for the restricted alphabet

Valid for strings made of ASCII, Latin-1, the combining diacriticals U+0300–U+036F and pictographs
without ZWJ / variation selectors / regional indicators / Hangul: break everywhere except before an
Extend character that does not follow a control character, and except inside CR LF. -/

def isExtendSimple (c : Char) : Bool := 0x300 ≤ c.toNat && c.toNat ≤ 0x36F
def isControlSimple (c : Char) : Bool := c.toNat < 0x20 || (0x7F ≤ c.toNat && c.toNat < 0xA0)

def segSimple : Str → List Str
  | [] => []
  | c :: r =>
    match segSimple r with
    | [] => [[c]]
    | [] :: gs => [c] :: gs          -- unreachable (pieces are non-empty)
    | (d :: g) :: gs =>
      if (isExtendSimple d && !isControlSimple c) || (c == '\r' && d == '\n') then (c :: d :: g) :: gs
      else [c] :: (d :: g) :: gs

/-! ### `str` primitives -/

/-- `str::trim_start` -/
def trimStart : Str → Str
  | [] => []
  | c :: r => if isUniWs c then trimStart r else c :: r

/-- `str::trim_end` -/
def trimEnd : Str → Str
  | [] => []
  | c :: r =>
    match trimEnd r with
    | [] => if isUniWs c then [] else [c]
    | t => c :: t

/-- `str::trim` = `trim_matches(char::is_whitespace)`: the front is searched first, then the back
of what is left. -/
def trim (s : Str) : Str := trimEnd (trimStart s)

/-- `[a, b, c].join(sep)` / `itertools::join` -/
def joinWith (sep : Str) : List Str → Str
  | [] => []
  | [x] => x
  | x :: y :: r => x ++ sep ++ joinWith sep (y :: r)

/-- The pieces between the leftmost non-overlapping occurrences of a non-empty `pat`
(`StrSearcher`).  The first argument counts characters still covered by the match just found. -/
def splitK (pat : Str) : Nat → Str → List Str
  | _, [] => [[]]
  | k + 1, _ :: r => splitK pat k r
  | 0, c :: r =>
    if pat.isPrefixOf (c :: r) then [] :: splitK pat (pat.length - 1) r
    else
      match splitK pat 0 r with
      | p :: ps => (c :: p) :: ps
      | [] => [[c]]       -- unreachable

/-- An empty needle matches at every char boundary, including both ends. -/
def splitEmpty (s : Str) : List Str := [] :: (s.map (fun c => [c]) ++ [[]])

/-- `str::split(pat)` collected. -/
def strSplit (pat s : Str) : List Str :=
  if pat.isEmpty then splitEmpty s else splitK pat 0 s

/-- `str::replace(from, to)`: the same searcher as `split`; the pieces are re-joined with `to`. -/
def strReplace (pat to s : Str) : Str := joinWith to (strSplit pat s)

/-- `str::splitn(2, pat)`: `some (before, after)` of the first match, `none` when there is none
(⇒ a single token). -/
def splitFirst (pat : Str) : Str → Option (Str × Str)
  | [] => if pat.isEmpty then some ([], []) else none
  | c :: r =>
    if pat.isPrefixOf (c :: r) then some ([], (c :: r).drop pat.length)
    else match splitFirst pat r with
      | some (a, b) => some (c :: a, b)
      | none => none

def replaceFirst (pat to s : Str) : Str :=
  match splitFirst pat s with
  | some (a, b) => a ++ to ++ b
  | none => s

def removeFirst (pat s : Str) : Str :=
  match splitFirst pat s with
  | some (a, b) => a ++ b
  | none => s

def upcase (u : Uni) (s : Str) : Str := s.flatMap u.upper
def downcase (u : Uni) (s : Str) : Str := s.flatMap u.lower
def capitalize (u : Uni) : Str → Str
  | [] => []
  | c :: r => u.upper c ++ r

def stripNewlines (s : Str) : Str := s.filter (fun c => c != '\n' && c != '\r')

def brNl : Str := "<br />\n".toList
def newlineToBr (s : Str) : Str := s.flatMap (fun c => if c == '\n' then brNl else [c])

/-! ### truncate / truncatewords (`string/truncate.rs`) -/

/-- `truncate` after the repair of D13: the limit is compared with the number of characters of the
input, the ellipsis is measured in characters, the cut is made in whole grapheme clusters.
`none` = input returned unchanged (`input.to_value()`). -/
def truncStr (u : Uni) (n : Nat) (e s : Str) : Option Str :=
  let l := n - e.length                     -- `if length >= e { length - e } else { 0 }`
  if n < s.length then some (((u.seg s).take l).flatten ++ e) else none

/-- `truncate` at the pinned commit: byte lengths (`str::len`) against a grapheme cut. -/
def truncStrOld (u : Uni) (n : Nat) (e s : Str) : Option Str :=
  let l := n - utf8Len e
  if n < utf8Len s then some (((u.seg s).take l).flatten ++ e) else none

/-- `truncatewords`: words are the pieces of `split(' ')`. -/
def truncWords (n : Nat) (e s : Str) : Option Str :=
  let ws := strSplit [' '] s
  if n < ws.length then some (joinWith [' '] (ws.take n) ++ e) else none

/-! ### slice (`slice.rs`) -/

/-- `isize::saturating_add` -/
def satAddI64 (a b : Int) : Int :=
  let s := a + b
  if s > i64Max then i64Max else if s < i64Min then i64Min else s

/-- `canonicalize_slice` after the repair of D9 (saturating sum).  Every remaining `+`/`-` is an
explicit panic site (overflow checks are on in the harness build). -/
def canonSlice (off len : Int) (n : Nat) : Res (Nat × Nat) :=
  let vl : Int := n
  let off1 := min off vl
  if off1 < 0 && !inI64 (off1 + vl) then .panic "canonicalize_slice: offset + vec_length" else
  let off2 := if off1 < 0 then off1 + vl else off1
  if satAddI64 off2 len > vl then
    if !inI64 (vl - off2) then .panic "canonicalize_slice: vec_length - offset" else
    .ok (toUsize off2, toUsize (vl - off2))
  else .ok (toUsize off2, toUsize len)

/-- `canonicalize_slice` at the pinned commit: plain `slice_offset + slice_length`. -/
def canonSliceOld (off len : Int) (n : Nat) : Res (Nat × Nat) :=
  let vl : Int := n
  let off1 := min off vl
  let off2 := if off1 < 0 then off1 + vl else off1
  if !inI64 (off2 + len) then .panic "canonicalize_slice: offset + length" else
  if off2 + len > vl then .ok (toUsize off2, toUsize (vl - off2))
  else .ok (toUsize off2, toUsize len)

/-- the string arm of `slice`: `chars().skip(o).take(l)` with the length counted in characters
(repair of D15). -/
def sliceStr (off len : Int) (s : Str) : Res Str :=
  match canonSlice off len s.length with
  | .ok (o, l) => .ok ((s.drop o).take l)
  | .panic m => .panic m
  | _ => .err

/-- pinned commit: `input.len()` (bytes) as the vector length. -/
def sliceStrOld (off len : Int) (s : Str) : Res Str :=
  match canonSliceOld off len (utf8Len s) with
  | .ok (o, l) => .ok ((s.drop o).take l)
  | .panic m => .panic m
  | _ => .err

def sliceArr (off len : Int) (xs : List V) : Res (List V) :=
  match canonSlice off len xs.length with
  | .ok (o, l) => .ok ((xs.drop o).take l)
  | .panic m => .panic m
  | _ => .err

/-! ### argument conversion (`derive/src/filter_parameters.rs`) -/

def sV (s : Str) : V := .sc (.str s)

/-- `arg_type = "str"`: any value, through `to_kstr`. -/
def strArg (v : V) : Str := v.render

/-- `arg_type = "integer"`: `as_scalar().and_then(to_integer)` or "Whole number expected". -/
def intArg (v : V) : Res Int :=
  match v with
  | .sc s => match s.toInteger? with
    | some i => .ok i
    | none => .err
  | _ => .err

/-- optional integer parameter -/
def optIntArg : Option V → Int → Res Int
  | none, d => .ok d
  | some v, _ => intArg v

/-! ### the filters -/

/-- `size`: scalar ⇒ number of characters of its string form (repair of D14); array / object ⇒
number of elements; nil and state markers ⇒ 0. -/
def sizeV : V → Int
  | .sc s => s.render.length
  | .arr xs => xs.length
  | .obj kvs => kvs.length
  | _ => 0

/-- pinned commit: `to_kstr().len()` = UTF-8 bytes. -/
def sizeVOld : V → Int
  | .sc s => utf8Len s.render
  | .arr xs => xs.length
  | .obj kvs => kvs.length
  | _ => 0

def firstV : V → Res V
  | .sc s => .ok (sV (match s.render with | [] => [] | c :: _ => [c]))
  | .arr xs => .ok (match xs with | [] => .nil | x :: _ => x)
  | _ => .err

/-- `chars().last().map(to_string).unwrap_or("")` -/
def lastChar (s : Str) : Str := match s.getLast? with | none => [] | some c => [c]

def lastV : V → Res V
  | .sc s => .ok (sV (lastChar s.render))
  | .arr xs => .ok (xs.getLast?.getD .nil)
  | _ => .err

def joinV (input : V) (sep : Str) : Res V :=
  match input with
  | .arr xs => .ok (sV (joinWith sep (xs.map V.render)))
  | _ => .err

def splitV (input : V) (pat : Str) : V :=
  let s := input.render
  if s.isEmpty then .arr [] else .arr ((strSplit pat s).map sV)

def truncateV (u : Uni) (input : V) (len : Int) (e : Str) : V :=
  match truncStr u (toUsize len) e input.render with
  | some r => sV r
  | none => input

def truncateWordsV (input : V) (len : Int) (e : Str) : V :=
  match truncWords (toUsize len) e input.render with
  | some r => sV r
  | none => input

def sliceV (input : V) (off len : Int) : Res V :=
  if len < 1 then .err else
  match input with
  | .arr xs => (sliceArr off len xs).bind fun r => .ok (.arr r)
  | v => (sliceStr off len v.render).bind fun r => .ok (sV r)

def defaultV (input dflt : V) : V := if input.queryState .dflt then dflt else input

def ellipsis : Str := "...".toList

/-- The stdlib filters of this property. -/
inductive Fn where
  | append | prepend | upcase | downcase | capitalize | strip | lstrip | rstrip | stripNewlines
  | newlineToBr | replace | replaceFirst | remove | removeFirst | split | join | truncate
  | truncatewords | slice | size | first | last | default
  deriving DecidableEq, Repr, Inhabited

def Fn.ofName (n : String) : Option Fn :=
  match n with
  | "append" => some .append | "prepend" => some .prepend | "upcase" => some .upcase
  | "downcase" => some .downcase | "capitalize" => some .capitalize | "strip" => some .strip
  | "lstrip" => some .lstrip | "rstrip" => some .rstrip | "strip_newlines" => some .stripNewlines
  | "newline_to_br" => some .newlineToBr | "replace" => some .replace
  | "replace_first" => some .replaceFirst | "remove" => some .remove
  | "remove_first" => some .removeFirst | "split" => some .split | "join" => some .join
  | "truncate" => some .truncate | "truncatewords" => some .truncatewords | "slice" => some .slice
  | "size" => some .size | "first" => some .first | "last" => some .last | "default" => some .default
  | _ => none

/-- Positional application of one stdlib string filter.  Wrong arity ⇒ the error raised when the
filter is built; then arguments are converted in order; then the input is examined. -/
def apply (u : Uni) (f : Fn) (input : V) (args : List V) : Res V :=
  let s := input.render
  match f, args with
  | .append, [a] => .ok (sV (s ++ strArg a))
  | .prepend, [a] => .ok (sV (strArg a ++ s))
  | .upcase, [] => .ok (sV (upcase u s))
  | .downcase, [] => .ok (sV (downcase u s))
  | .capitalize, [] => .ok (sV (capitalize u s))
  | .strip, [] => .ok (sV (trim s))
  | .lstrip, [] => .ok (sV (trimStart s))
  | .rstrip, [] => .ok (sV (trimEnd s))
  | .stripNewlines, [] => .ok (sV (stripNewlines s))
  | .newlineToBr, [] => .ok (sV (newlineToBr s))
  | .replace, [p] => .ok (sV (strReplace (strArg p) [] s))
  | .replace, [p, t] => .ok (sV (strReplace (strArg p) (strArg t) s))
  | .replaceFirst, [p] => .ok (sV (replaceFirst (strArg p) [] s))
  | .replaceFirst, [p, t] => .ok (sV (replaceFirst (strArg p) (strArg t) s))
  | .remove, [p] => .ok (sV (strReplace (strArg p) [] s))
  | .removeFirst, [p] => .ok (sV (removeFirst (strArg p) s))
  | .split, [p] => .ok (splitV input (strArg p))
  | .join, [] => joinV input [' ']
  | .join, [p] => joinV input (strArg p)
  | .truncate, [] => .ok (truncateV u input 50 ellipsis)
  | .truncate, [n] => (intArg n).bind fun n => .ok (truncateV u input n ellipsis)
  | .truncate, [n, e] => (intArg n).bind fun n => .ok (truncateV u input n (strArg e))
  | .truncatewords, [] => .ok (truncateWordsV input 50 ellipsis)
  | .truncatewords, [n] => (intArg n).bind fun n => .ok (truncateWordsV input n ellipsis)
  | .truncatewords, [n, e] => (intArg n).bind fun n => .ok (truncateWordsV input n (strArg e))
  | .slice, [o] => (intArg o).bind fun o => sliceV input o 1
  | .slice, [o, l] => (intArg o).bind fun o => (intArg l).bind fun l => sliceV input o l
  | .size, [] => .ok (.sc (.int (sizeV input)))
  | .first, [] => firstV input
  | .last, [] => lastV input
  | .default, [d] => .ok (defaultV input d)
  | _, _ => .err

/-- The filter table handed to the interpreter (`Env.filters`). -/
def table (u : Uni) (name : Str) : Option (V → List V → Res V) :=
  (Fn.ofName (String.ofList name)).map fun f => apply u f

/-- `FilterChain::evaluate` after the entry value: fold the filters left to right, each on the
previous result, stopping at the first error. -/
def chain (u : Uni) : V → List (Fn × List V) → Res V
  | v, [] => .ok v
  | v, (f, args) :: fs =>
    match apply u f v args with
    | .ok v' => chain u v' fs
    | r => r

end Liquid.StrF
