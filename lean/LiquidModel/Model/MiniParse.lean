/-
  From lexed elements to renderables: `parser.rs` `parse`, `BlockElement::parse_pair`,
  `TagBlock::{next, parse_next, parse_all, escape_liquid, assert_empty}`, `Raw::into_renderable`
  (= `Text`), `Exp::parse`, and the `ParseTag`/`ParseBlock` impls of the stdlib constructs that the
  literal-text property C03 talks about: `raw` (raw_block.rs), `comment` (comment_block.rs), `if`/`elsif`/
  `else` (if_block.rs), `assign`, `increment`, `decrement`.  Any other tag name that is registered in
  the stdlib, a filter, or a float literal makes the result `unsupported` (the model declines, it never
  guesses); an unregistered name is the "Unknown tag" error.

  The element iterator is a `List Tok` ending in `eoi`; `[]` is the exhausted iterator (`EOI` already
  consumed), on which `TagBlock::next` panics ("File shouldn't end before EOI.").  Every function returns
  the remaining iterator also on failure, because the comment block carries on after an ignored error.
  `InvalidLiquidToken::parse_pair` drains the iterator (`next_elements.last()`) and then errs; its
  re-parse panic (D2) is outside this model (`unsupported` is not needed: the generator of C03 never
  executes an invalid token — they only occur inside raw/comment bodies).
-/
import LiquidModel.Model.LexInner
import LiquidModel.Model.Render
namespace Liquid.Mini
open Liquid Liquid.Lex

inductive Tok where
  | elem (e : Elem)
  | eoi
  deriving Repr, Inhabited

def toks (es : List Elem) : List Tok := es.map Tok.elem ++ [Tok.eoi]

/-- outcome of a parse step -/
inductive PR (α : Type) where
  | ok (a : α)
  | err
  | panic (site : String)
  | unsupported
  deriving Repr, Inhabited, DecidableEq

/-! ### values and tag tokens -/

/-- a parsed `Value`, or why the model cannot build it -/
inductive PE where
  | ok (e : Expr)
  | err                      -- "Integer literal out of range" (after the `fix:` commit; was a panic)
  | panic (site : String)
  | unsupported
  deriving Repr, Inhabited

def spanOf (s r : List Char) : List Char := s.take (s.length - r.length)

/-- `parse_literal` -/
def parseLiteral (k : LitKind) (text : List Char) : PE :=
  match k with
  | .nil => .ok (.lit .nil)
  | .empty => .ok (.lit (.st .empty))
  | .blank => .ok (.lit (.st .blank))
  | .str => .ok (.lit (.sc (.str ((text.drop 1).take (text.length - 2)))))
  | .float => .unsupported
  | .int => (match parseI64 text with
      | some i => .ok (.lit (.sc (.int i)))
      | none => .err)
  | .bool => .ok (.lit (.sc (.bool (text == "true".toList))))

def PE.andIdx (root : List Char) (acc : List Expr) : List PE → PE
  | [] => .ok (.var root acc.reverse)
  | .ok e :: r => PE.andIdx root (e :: acc) r
  | .err :: _ => .err
  | .panic s :: _ => .panic s
  | .unsupported :: _ => .unsupported

mutual
/-- `parse_value` on the text a `Value` matched at the head of `s`: expression and rest -/
def pValueF : Nat → List Char → Option (PE × List Char)
  | 0, _ => none
  | n + 1, s =>
    match literalK s with
    | some (k, r) => some (parseLiteral k (spanOf s r), r)
    | none => pVariableF n s
def pVariableF : Nat → List Char → Option (PE × List Char)
  | 0, _ => none
  | n + 1, s =>
    match identifier s with
    | none => none
    | some r =>
      let (idx, r') := pVarTailF n r
      some (PE.andIdx (spanOf s r) [] idx, r')
def pVarTailF : Nat → List Char → List PE × List Char
  | 0, s => ([], s)
  | n + 1, s =>
    match s with
    | '.' :: r => (match identifier r with
        | some r' =>
          let (idx, r'') := pVarTailF n r'
          (PE.ok (.lit (.sc (.str (spanOf r r')))) :: idx, r'')
        | none => ([], s))
    | '[' :: r => (match pValueF n (skipWs r) with
        | some (e, r') => (match skipWs r' with
            | ']' :: r'' =>
              let (idx, r''') := pVarTailF n r''
              (e :: idx, r''')
            | _ => ([], s))
        | none => ([], s))
    | _ => ([], s)
end

def pValue (s : List Char) : Option (PE × List Char) := pValueF (innerFuel s) s

/-- is the value text a bare identifier (`unwrap_identifier`)? -/
def bareIdent? (s : List Char) : Option (List Char) :=
  match literalK s with
  | some _ => none
  | none => match identifier s with
    | some r => if (varTailF (innerFuel r) r).length == r.length then some (spanOf s r) else none
    | none => none

/-- a `FilterChain` pair: its entry value, whether filters follow, and (if it is a bare identifier) the name -/
structure Chain where
  entry : PE
  hasFilters : Bool
  ident : Option (List Char)
  deriving Repr, Inhabited

/-- structure of the text matched by `FilterChain` at the head of `s` -/
def pChain (s : List Char) : Option (Chain × List Char) :=
  match pValue s, filterChain s with
  | some (e, r), some rAll =>
    let hasF := match skipWs r with
      | '|' :: r2 => (filter (skipWs r2)).isSome
      | _ => false
    some ({ entry := e, hasFilters := hasF, ident := if hasF then none else bareIdent? s }, rAll)
  | _, _ => none

def trimUni (s : List Char) : List Char := ((s.dropWhile isUniWs).reverse.dropWhile isUniWs).reverse

/-- a `TagToken`: the alternative taken, `as_str()` (trimmed span) and, for chains, their structure -/
structure TTok where
  kind : TokKind
  text : List Char
  chain : Option Chain
  deriving Repr, Inhabited

def tagTokensF : Nat → List Char → List TTok
  | 0, _ => []
  | n + 1, s =>
    let s := skipWs s
    match tagTokenK s with
    | some (k, r) =>
      if r.length < s.length then
        let c := if k == .chain then (pChain s).map (·.1) else none
        { kind := k, text := trimUni (spanOf s r), chain := c } :: tagTokensF n r
      else []
    | none => []

/-- name and argument tokens of the text `TagInner` matched -/
def tagParts (inner : List Char) : Option (List Char × List TTok) :=
  match identifier inner with
  | some r => some (spanOf inner r, tagTokensF (r.length + 1) r)
  | none => none

/-- `expect_value` -/
def TTok.value? (t : TTok) : Option PE :=
  match t.chain with
  | some c => if c.hasFilters then none else some c.entry
  | none => none

/-- `expect_identifier` -/
def TTok.ident? (t : TTok) : Option (List Char) :=
  match t.chain with
  | some c => c.ident
  | none => none

/-! ### conditions (`if_block.rs`) -/

def cmpOp? (s : List Char) : Option CmpOp :=
  if s == "==".toList then some .eq
  else if s == "!=".toList || s == "<>".toList then some .ne
  else if s == "<".toList then some .lt
  else if s == ">".toList then some .gt
  else if s == "<=".toList then some .le
  else if s == ">=".toList then some .ge
  else if s == "contains".toList then some .contains
  else none

def peToPR : PE → PR Expr
  | .ok e => .ok e
  | .err => .err
  | .panic s => .panic s
  | .unsupported => .unsupported

/-- `parse_atom_condition` -/
def pAtom (ts : List TTok) : PR Cond × List TTok :=
  match ts with
  | [] => (.err, [])
  | t :: r =>
    match t.value? with
    | none => (.err, r)
    | some lh =>
      match peToPR lh with
      | .ok l =>
        (match r with
         | o :: r' =>
           (match cmpOp? o.text with
            | some op =>
              (match r' with
               | [] => (.err, [])
               | t2 :: r'' =>
                 (match t2.value? with
                  | none => (.err, r'')
                  | some rh => (match peToPR rh with
                      | .ok rv => (.ok (.bin l op rv), r'')
                      | .err => (.err, r'') | .panic s => (.panic s, r'') | .unsupported => (.unsupported, r''))))
            | none => (.ok (.exist l), r))
         | [] => (.ok (.exist l), []))
      | .err => (.err, r) | .panic s => (.panic s, r) | .unsupported => (.unsupported, r)

/-- `parse_conjunction_chain` (fuel = number of tokens) -/
def pConj : Nat → List TTok → PR Cond × List TTok
  | 0, ts => (.err, ts)
  | n + 1, ts =>
    match pAtom ts with
    | (.ok lh, r) =>
      let rec loop : Nat → Cond → List TTok → PR Cond × List TTok
        | 0, c, ts => (.ok c, ts)
        | k + 1, c, ts =>
          match ts with
          | t :: r' =>
            if t.text == "and".toList then
              match pAtom r' with
              | (.ok rh, r'') => loop k (.and c rh) r''
              | o => o
            else (.ok c, ts)
          | [] => (.ok c, [])
      loop n lh r
    | o => o

/-- `parse_condition` -/
def pCondition (ts : List TTok) : PR Cond :=
  match pConj (ts.length + 1) ts with
  | (.ok lh, r) =>
    let rec loop : Nat → Cond → List TTok → PR Cond
      | 0, c, _ => .ok c
      | k + 1, c, ts =>
        match ts with
        | [] => .ok c
        | t :: r' =>
          if t.text == "or".toList then
            match pConj (r'.length + 1) r' with
            | (.ok rh, r'') => loop k (.or c rh) r''
            | (.err, _) => .err
            | (.panic s, _) => .panic s
            | (.unsupported, _) => .unsupported
          else .err
    loop (r.length + 1) lh r
  | (.err, _) => .err
  | (.panic s, _) => .panic s
  | (.unsupported, _) => .unsupported

/-! ### the element protocol -/

/-- tags and blocks `ParserBuilder::with_stdlib()` registers besides the ones modelled here -/
def otherStdlib : List String :=
  ["break", "continue", "cycle", "include", "render", "capture", "case", "for", "ifchanged",
   "tablerow", "unless"]

/-- name and tokens of a `Tag` element -/
def elemTag (m : Markup) : List Char × List TTok :=
  match tagParts m.inner with
  | some p => p
  | none => ([], [])

/-- is this element the block's end tag (`name == end_tag` and no further token)? -/
def isCloser (endTag : List Char) : Elem → Bool
  | .tag m => (elemTag m).1 == endTag && (elemTag m).2.isEmpty
  | _ => false

/-- does the element start with the `{%-` form of the delimiter? -/
def closerTrim : Elem → Bool
  | .tag m => m.trimL
  | _ => false

/-- `str::trim_end_matches` over the grammar's whitespace class -/
def stripRightWs (s : List Char) : List Char := (s.reverse.dropWhile isWs).reverse

/-- `TagBlock::escape_liquid(false)` on the iterator: the block's raw content — the source between the
opening tag and the first argument-less end tag (= the concatenation of the spans of the elements in
between), minus its trailing whitespace when the end tag is written `{%- … %}` (patches/C03-endraw-trim.diff)
— and the remaining iterator. -/
def escapeLiquid (endTag : List Char) : List Tok → List Char → PR (List Char) × List Tok
  | [], _ => (.err, [])   -- exhausted iterator: "Unclosed block" (after the `fix:` commit; was a panic)
  | .eoi :: r, _ => (.err, r)
  | .elem e :: r, acc =>
    if isCloser endTag e then (.ok (if closerTrim e then stripRightWs acc else acc), r)
    else escapeLiquid endTag r (acc ++ e.text)

/-- `escape_liquid` as it was at the pinned commit: whitespace that a markup look-alike ending in `-}}` /
`-%}` had swallowed survived a following `{%- endraw %}`.  Kept for the counterexample theorem only. -/
def escapeLiquidOld (endTag : List Char) : List Tok → List Char → PR (List Char) × List Tok
  | [], _ => (.err, [])   -- exhausted iterator: "Unclosed block" (after the `fix:` commit; was a panic)
  | .eoi :: r, _ => (.err, r)
  | .elem e :: r, acc =>
    if isCloser endTag e then (.ok acc, r)
    else escapeLiquidOld endTag r (acc ++ e.text)

abbrev PRes := PR Node × List Tok

mutual
/-- `BlockElement::parse_pair` / `BlockElement::parse` on an element, with the iterator behind it -/
def parseElem : Nat → Elem → List Tok → PRes
  | 0, _, it => (.unsupported, it)
  | n + 1, e, it =>
    match e with
    | .raw s => (.ok (.text s), it)
    | .invalid _ => (.err, [])                       -- `next_elements.last()` drains the iterator
    | .expr m =>
      (match pChain m.inner with
       | some (c, _) =>
         if c.hasFilters then (.unsupported, it) else
         (match c.entry with
          | .ok ex => (.ok (.output ex []), it)
          | .err => (.err, it)
          | .panic s => (.panic s, it)
          | .unsupported => (.unsupported, it))
       | none => (.unsupported, it))
    | .tag m => parseTag n m it
/-- `Tag::parse_pair` -/
def parseTag : Nat → Markup → List Tok → PRes
  | 0, _, it => (.unsupported, it)
  | n + 1, m, it =>
    let (name, args) := elemTag m
    let nm := String.ofList name
    if nm == "assign" then
      match args with
      | [] => (.err, it)
      | t :: r =>
        match t.ident? with
        | none => (.err, it)
        | some x =>
          match r with
          | [] => (.err, it)
          | eq :: r2 =>
            if eq.text != "=".toList then (.err, it) else
            match r2 with
            | [] => (.err, it)
            | v :: r3 =>
              match v.chain with
              | none => (.err, it)
              | some c =>
                if c.hasFilters then (.unsupported, it) else
                match c.entry with
                | .ok ex => if r3.isEmpty then (.ok (.assign x ex []), it) else (.err, it)
                | .err => (.err, it)
                | .panic s => (.panic s, it)
                | .unsupported => (.unsupported, it)
    else if nm == "increment" || nm == "decrement" then
      match args with
      | [t] => (match t.ident? with
          | some x => (.ok (if nm == "increment" then .incr x else .decr x), it)
          | none => (.err, it))
      | [] => (.err, it)
      | t :: _ => (match t.ident? with
          | some _ => (.err, it)
          | none => (.err, it))
    else if nm == "raw" then
      if !args.isEmpty then (.err, it) else
      match escapeLiquid "endraw".toList it [] with
      | (.ok body, it') => (.ok (.raw body), it')
      | (.err, it') => (.err, it')
      | (.panic s, it') => (.panic s, it')
      | (.unsupported, it') => (.unsupported, it')
    else if nm == "comment" then
      if !args.isEmpty then (.err, it) else parseComment n it
    else if nm == "if" then
      parseIf n args it
    else if otherStdlib.contains nm then (.unsupported, it)
    else (.err, it)                                   -- "Unknown tag."
/-- `CommentBlock::parse` after `expect_nothing`: walk to `{% endcomment %}`; nested comments are parsed
(errors propagate), other tags are parsed and their errors ignored, everything else is skipped. -/
def parseComment : Nat → List Tok → PRes
  | 0, it => (.unsupported, it)
  | n + 1, it =>
    match it with
    | [] => (.err, [])   -- exhausted iterator: "Unclosed block" (after the `fix:` commit; was a panic)
    | .eoi :: r => (.err, r)                           -- "Unclosed block"
    | .elem e :: r =>
      match e with
      | .tag m =>
        let (name, args) := elemTag m
        if name == "endcomment".toList then
          if args.isEmpty then (.ok .comment, r) else (.err, r)
        else if name == "comment".toList then
          match parseTag n m r with
          | (.ok _, r') => parseComment n r'
          | o => o
        else
          match parseTag n m r with
          | (.panic s, r') => (.panic s, r')
          | (.unsupported, r') => (.unsupported, r')
          | (_, r') => parseComment n r'
      | _ => parseComment n r
/-- `parse_if` (condition from `args`), then the body up to `else` / `elsif` / `endif` -/
def parseIf : Nat → List TTok → List Tok → PRes
  | 0, _, it => (.unsupported, it)
  | n + 1, args, it =>
    match pCondition args with
    | .ok c =>
      (match parseIfBody n it [] with
       | (.ok (thn, els), it') => (.ok (.cond c true thn els), it')
       | (.err, it') => (.err, it')
       | (.panic s, it') => (.panic s, it')
       | (.unsupported, it') => (.unsupported, it'))
    | .err => (.err, it)
    | .panic s => (.panic s, it)
    | .unsupported => (.unsupported, it)
def parseIfBody : Nat → List Tok → List Node → PR (List Node × Option (List Node)) × List Tok
  | 0, it, _ => (.unsupported, it)
  | n + 1, it, acc =>
    match it with
    | [] => (.err, [])   -- exhausted iterator: "Unclosed block" (after the `fix:` commit; was a panic)
    | .eoi :: r => (.err, r)
    | .elem e :: r =>
      match e with
      | .tag m =>
        let (name, args) := elemTag m
        if name == "endif".toList then
          if args.isEmpty then (.ok (acc.reverse, none), r) else (.err, r)
        else if name == "else".toList then
          match parseAll n "endif".toList r [] with
          | (.ok els, r') => (.ok (acc.reverse, some els), r')
          | (.err, r') => (.err, r')
          | (.panic s, r') => (.panic s, r')
          | (.unsupported, r') => (.unsupported, r')
        else if name == "elsif".toList then
          match parseIf n args r with
          | (.ok nd, r') => (.ok (acc.reverse, some [nd]), r')
          | (.err, r') => (.err, r')
          | (.panic s, r') => (.panic s, r')
          | (.unsupported, r') => (.unsupported, r')
        else
          match parseTag n m r with
          | (.ok nd, r') => parseIfBody n r' (nd :: acc)
          | (.err, r') => (.err, r')
          | (.panic s, r') => (.panic s, r')
          | (.unsupported, r') => (.unsupported, r')
      | _ =>
        match parseElem n e r with
        | (.ok nd, r') => parseIfBody n r' (nd :: acc)
        | (.err, r') => (.err, r')
        | (.panic s, r') => (.panic s, r')
        | (.unsupported, r') => (.unsupported, r')
/-- `TagBlock::parse_all` -/
def parseAll : Nat → List Char → List Tok → List Node → PR (List Node) × List Tok
  | 0, _, it, _ => (.unsupported, it)
  | n + 1, endTag, it, acc =>
    match it with
    | [] => (.err, [])   -- exhausted iterator: "Unclosed block" (after the `fix:` commit; was a panic)
    | .eoi :: r => (.err, r)
    | .elem e :: r =>
      let closes : Option Bool := match e with
        | .tag m => let (name, args) := elemTag m
                    if name == endTag then some args.isEmpty else none
        | _ => none
      match closes with
      | some true => (.ok acc.reverse, r)
      | some false => (.err, r)
      | none =>
        match parseElem n e r with
        | (.ok nd, r') => parseAll n endTag r' (nd :: acc)
        | (.err, r') => (.err, r')
        | (.panic s, r') => (.panic s, r')
        | (.unsupported, r') => (.unsupported, r')
end

/-- `parser::parse`: the top-level loop -/
def parseTopF : Nat → List Tok → List Node → PR Tmpl
  | 0, _, _ => .unsupported
  | n + 1, it, acc =>
    match it with
    | [] => .ok acc.reverse                                -- `while let Some(..)` simply ends
    | .eoi :: _ => .ok acc.reverse
    | .elem e :: r =>
      match parseElem (4 * r.length + 8) e r with
      | (.ok nd, r') => parseTopF n r' (nd :: acc)
      | (.err, _) => .err
      | (.panic s, _) => .panic s
      | (.unsupported, _) => .unsupported

def parseElems (es : List Elem) : PR Tmpl :=
  parseTopF (2 * es.length + 4) (toks es) []

/-- lex + parse of a template text with the grammar's inner rules -/
def parseText (s : List Char) : PR Tmpl := parseElems (lexLax stdInner s)

end Liquid.Mini
