/-
  Model of `crates/lib/src/stdlib/filters/url.rs` (`url_encode`, `url_decode`) together with the
  parts of `percent-encoding 2.3.1` (`AsciiSet`, `PercentEncode`, `PercentDecode`,
  `after_percent_sign`) and of `core::str::from_utf8` (`run_utf8_validation`) they rest on.
  Strings are `List Char`; the URL pair works on UTF-8 *bytes* (`List Nat`, every element < 256)
  with explicit `utf8Enc` / `utf8Dec`.  Import-free (core only).
-/
import LiquidModel.Model.Find
namespace Liquid.Url
open Liquid

/-! ### UTF-8 -/

/-- `char::encode_utf8` -/
def utf8Enc1 (c : Char) : List Nat :=
  let n := c.toNat
  if n < 0x80 then [n]
  else if n < 0x800 then [0xC0 + n / 64, 0x80 + n % 64]
  else if n < 0x10000 then [0xE0 + n / 4096, 0x80 + n / 64 % 64, 0x80 + n % 64]
  else [0xF0 + n / 262144, 0x80 + n / 4096 % 64, 0x80 + n / 64 % 64, 0x80 + n % 64]

/-- `str::as_bytes` -/
def utf8Enc (s : Str) : List Nat := s.flatMap utf8Enc1

/-- continuation byte `10xxxxxx` -/
def isCont (b : Nat) : Bool := 0x80 ≤ b && b ≤ 0xBF

/-- `String::from_utf8` / `str::from_utf8`: the case analysis of `run_utf8_validation`
(`UTF8_CHAR_WIDTH` 2 for C2..DF, 3 for E0..EF, 4 for F0..F4, otherwise invalid; the second byte
ranges that exclude overlong forms, surrogates and values above U+10FFFF), returning the decoded
characters; `none` = `Utf8Error`. -/
def utf8Dec : List Nat → Option Str
  | [] => some []
  | b0 :: r =>
    if b0 < 0x80 then
      match utf8Dec r with
      | some t => some (Char.ofNat b0 :: t)
      | none => none
    else if 0xC2 ≤ b0 ∧ b0 ≤ 0xDF then
      match r with
      | b1 :: r1 =>
        if isCont b1 then
          match utf8Dec r1 with
          | some t => some (Char.ofNat ((b0 - 0xC0) * 64 + (b1 - 0x80)) :: t)
          | none => none
        else none
      | [] => none
    else if 0xE0 ≤ b0 ∧ b0 ≤ 0xEF then
      match r with
      | b1 :: b2 :: r2 =>
        if ((b0 = 0xE0 ∧ 0xA0 ≤ b1 ∧ b1 ≤ 0xBF) ∨ (0xE1 ≤ b0 ∧ b0 ≤ 0xEC ∧ 0x80 ≤ b1 ∧ b1 ≤ 0xBF) ∨
            (b0 = 0xED ∧ 0x80 ≤ b1 ∧ b1 ≤ 0x9F) ∨ (0xEE ≤ b0 ∧ b0 ≤ 0xEF ∧ 0x80 ≤ b1 ∧ b1 ≤ 0xBF)) ∧ isCont b2 = true then
          match utf8Dec r2 with
          | some t => some (Char.ofNat ((b0 - 0xE0) * 4096 + (b1 - 0x80) * 64 + (b2 - 0x80)) :: t)
          | none => none
        else none
      | _ => none
    else if 0xF0 ≤ b0 ∧ b0 ≤ 0xF4 then
      match r with
      | b1 :: b2 :: b3 :: r3 =>
        if ((b0 = 0xF0 ∧ 0x90 ≤ b1 ∧ b1 ≤ 0xBF) ∨ (0xF1 ≤ b0 ∧ b0 ≤ 0xF3 ∧ 0x80 ≤ b1 ∧ b1 ≤ 0xBF) ∨
            (b0 = 0xF4 ∧ 0x80 ≤ b1 ∧ b1 ≤ 0x8F)) ∧ isCont b2 = true ∧ isCont b3 = true then
          match utf8Dec r3 with
          | some t => some (Char.ofNat ((b0 - 0xF0) * 262144 + (b1 - 0x80) * 4096 + (b2 - 0x80) * 64 + (b3 - 0x80)) :: t)
          | none => none
        else none
      | _ => none
    else none

def validUtf8 (bs : List Nat) : Bool := (utf8Dec bs).isSome

/-! ### percent-encoding -/

/-- `CONTROLS`: C0 controls and DEL -/
def controls (b : Nat) : Bool := b < 0x20 || b == 0x7F

/-- the bytes `.add`ed to `CONTROLS` by `NON_ALPHANUMERIC` (in source order) -/
def nonAlnumAdded : List Nat :=
  [0x20, 0x21, 0x22, 0x23, 0x24, 0x25, 0x26, 0x27, 0x28, 0x29, 0x2A, 0x2B, 0x2C, 0x2D, 0x2E, 0x2F,
   0x3A, 0x3B, 0x3C, 0x3D, 0x3E, 0x3F, 0x40, 0x5B, 0x5C, 0x5D, 0x5E, 0x5F, 0x60, 0x7B, 0x7C, 0x7D, 0x7E]

/-- `FRAGMENT = NON_ALPHANUMERIC.remove(b'-').remove(b'.').remove(b'_')` -/
def fragment (b : Nat) : Bool :=
  (controls b || nonAlnumAdded.contains b) && b != 0x2D && b != 0x2E && b != 0x5F

/-- `AsciiSet::should_percent_encode` -/
def shouldEncode (b : Nat) : Bool := !(b < 0x80) || fragment b

/-- upper-case hex digit, as a byte (`ENC_TABLE`) -/
def hexUp (d : Nat) : Nat := if d < 10 then 48 + d else 55 + d

/-- `percent_encode_byte` -/
def pctByte (b : Nat) : List Nat := [37, hexUp (b / 16), hexUp (b % 16)]

def encByte (b : Nat) : List Nat := if shouldEncode b then pctByte b else [b]

/-- `PercentEncode` collected: bytes of the result (all ASCII) -/
def pctEncode (bs : List Nat) : List Nat := bs.flatMap encByte

/-- the ASCII bytes of the result read as a `String` -/
def asciiStr (bs : List Nat) : Str := bs.map Char.ofNat

def urlEncode (s : Str) : Str := asciiStr (pctEncode (utf8Enc s))

/-- `char::from(b).to_digit(16)` -/
def hexVal (b : Nat) : Option Nat :=
  if 48 ≤ b ∧ b ≤ 57 then some (b - 48)
  else if 65 ≤ b ∧ b ≤ 70 then some (b - 55)
  else if 97 ≤ b ∧ b ≤ 102 then some (b - 87)
  else none

/-- `after_percent_sign`: the byte denoted by two hex digits at the start of `r`, if any -/
def afterPercent : List Nat → Option Nat
  | h :: l :: _ =>
    match hexVal h, hexVal l with
    | some x, some y => some (x * 16 + y)
    | _, _ => none
  | _ => none

/-- `PercentDecode`: `%` followed by two hex digits is one byte (the iterator then advances past
the two digits: first argument = digits still to be passed over), any other `%` stays literal -/
def pctGo : Nat → List Nat → List Nat
  | _, [] => []
  | k + 1, _ :: r => pctGo k r
  | 0, b :: r =>
    if b = 37 then
      match afterPercent r with
      | some v => v :: pctGo 2 r
      | none => b :: pctGo 0 r
    else b :: pctGo 0 r

def pctDecode (bs : List Nat) : List Nat := pctGo 0 bs

/-- `s.replace('+', " ")` -/
def plusToSpace (s : Str) : Str := s.map fun c => if c = '+' then ' ' else c

/-- the bytes `url_decode` hands to `decode_utf8` -/
def decodedBytes (s : Str) : List Nat := pctDecode (utf8Enc (plusToSpace s))

def urlDecode (s : Str) : Res Str :=
  match utf8Dec (decodedBytes s) with
  | some t => .ok t
  | none => .err

def urlEncodeFilter (input : V) (args : List V) : Res V :=
  if !args.isEmpty then .err
  else if input.isNil then .ok .nil
  else .ok (.sc (.str (urlEncode input.render)))

def urlDecodeFilter (input : V) (args : List V) : Res V :=
  if !args.isEmpty then .err
  else if input.isNil then .ok .nil
  else match urlDecode input.render with
    | .ok t => .ok (.sc (.str t))
    | _ => .err

end Liquid.Url
