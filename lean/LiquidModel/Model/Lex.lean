/-
  The lexical layer: a functional model of the top-level *lax* grammar of
  `crates/core/src/parser/grammar.pest`

      WHITESPACE      = _{ …generated… }
      LaxLiquidFile   = ${ SOI ~ (Element | InvalidLiquid)* ~ EOI }
      InvalidLiquid   =  { !Expression ~ ANY }
      Element         = _{ Expression | Tag | Raw }
      TagStart        = _{ (WHITESPACE* ~ "{%-") | "{%" }
      TagEnd          = _{ ("-%}" ~ WHITESPACE*) | "%}" }
      ExpressionStart = _{ (WHITESPACE* ~ "{{-") | "{{" }
      ExpressionEnd   = _{ ("-}}" ~ WHITESPACE*) | "}}" }
      Tag             =  { TagStart ~ WHITESPACE* ~ TagInner ~ WHITESPACE* ~ TagEnd }
      Expression      =  { ExpressionStart ~ WHITESPACE* ~ ExpressionInner ~ WHITESPACE* ~ ExpressionEnd }
      Raw             = @{ (!(TagStart | ExpressionStart) ~ ANY)+ }

  pest semantics used (pest 2.7, `pest_generator/src/generator.rs`):
  * `LaxLiquidFile` is compound-atomic (`$`): atomicity is inherited by the normal rules `Tag`,
    `Expression`, `InvalidLiquid` it calls, so **no** implicit `WHITESPACE*` is inserted at `~` or
    inside `*` at this level — whitespace is consumed only where the rules say `WHITESPACE*`.
    Implicit skipping resumes inside the non-atomic (`!`) rules `TagInner`/`ExpressionInner`, which are
    parameters here (`Inner`).
  * PEG: ordered choice, greedy repetition, no backtracking into a finished sub-expression.  In
    `(WHITESPACE* ~ "{%-") | "{%"` the first alternative fails as a whole (position restored) before
    the second is tried.
  * `WHITESPACE*` is the repetition of an ordered choice of literals (`pegStar wsAlts`); because every
    character of every alternative is itself an alternative this consumes exactly the maximal run of
    characters of the class `isWs` (`pegStar_eq_dropWhile`, proved in Lemmas/C03.lean), so the lexer is
    written with `takeWhile/dropWhile isWs`.
  * `LaxLiquidFile` cannot fail: when `Element` fails at a non-empty position, `Expression` has failed
    there, so `InvalidLiquid` consumes exactly one character.

  The whitespace table `wsAlts` is generated from grammar.pest on every run (tools/extract_ws.py), which
  also checks that the rules above still have exactly this shape.
  This file imports only the generated table (import-free otherwise; linked into the driver).
-/
import LiquidModel.Generated.Ws
namespace Liquid.Lex

/-- a character of the class matched by one iteration of `WHITESPACE*` (a one-character alternative) -/
def isWs (c : Char) : Bool := wsAlts.contains [c]

/-- `rest` if `p` is a prefix of `s` (a pest string literal) -/
def stripPrefix? : List Char → List Char → Option (List Char)
  | [], s => some s
  | _ :: _, [] => none
  | a :: p, b :: s => if a == b then stripPrefix? p s else none

/-- ordered choice over literal alternatives -/
def pegAlt : List (List Char) → List Char → Option (List Char)
  | [], _ => none
  | a :: as, s => match stripPrefix? a s with
    | some r => some r
    | none => pegAlt as s

/-- `(a₁ | a₂ | …)*` exactly as pest runs it (`repeat`: stop at the first failing iteration; an
iteration that consumes nothing stops the loop as well).  Fuel = input length + 1 is enough. -/
def pegStarFuel (alts : List (List Char)) : Nat → List Char → List Char
  | 0, s => s
  | n + 1, s => match pegAlt alts s with
    | some r => if r.length < s.length then pegStarFuel alts n r else s
    | none => s

def pegStar (alts : List (List Char)) (s : List Char) : List Char := pegStarFuel alts (s.length + 1) s

/-- the text consumed by `WHITESPACE*` at `s` -/
def wsRun (s : List Char) : List Char := s.takeWhile isWs
/-- the input after `WHITESPACE*` -/
def skipWs (s : List Char) : List Char := s.dropWhile isWs

/-- Parts of a `Tag` / `Expression` match.  The source span is
`pre ++ open ++ ws1 ++ inner ++ ws2 ++ close ++ post`. -/
structure Markup where
  /-- whitespace consumed by the start rule's `WHITESPACE*` (only in the `-` alternative) -/
  pre : List Char
  /-- the start delimiter is the `{%-` / `{{-` alternative -/
  trimL : Bool
  ws1 : List Char
  /-- text matched by `TagInner` / `ExpressionInner` -/
  inner : List Char
  ws2 : List Char
  /-- the end delimiter is the `-%}` / `-}}` alternative -/
  trimR : Bool
  /-- whitespace consumed by the end rule's `WHITESPACE*` -/
  post : List Char
  deriving Repr, DecidableEq, Inhabited

inductive Elem where
  | raw (s : List Char)
  | tag (m : Markup)
  | expr (m : Markup)
  | invalid (c : Char)
  deriving Repr, DecidableEq, Inhabited

def openDelim (d : Char) (trim : Bool) : List Char := if trim then ['{', d, '-'] else ['{', d]
def closeDelim (d : Char) (trim : Bool) : List Char := if trim then ['-', d, '}'] else [d, '}']

/-- source text of a markup element with delimiter characters `o` (`%` / `{`) and `c` (`%` / `}`) -/
def Markup.text (o c : Char) (m : Markup) : List Char :=
  m.pre ++ (openDelim o m.trimL ++ (m.ws1 ++ (m.inner ++ (m.ws2 ++ (closeDelim c m.trimR ++ m.post)))))

/-- `Pair::as_str()` of the element -/
def Elem.text : Elem → List Char
  | .raw s => s
  | .tag m => m.text '%' '%'
  | .expr m => m.text '{' '}'
  | .invalid c => [c]

def Elem.isMarkup : Elem → Bool
  | .tag _ | .expr _ => true
  | _ => false

/-- `"{" ~ d` (second alternative of a start rule) -/
def plainStart (d : Char) : List Char → Option (List Char)
  | '{' :: c :: r => if c == d then some r else none
  | _ => none

/-- `WHITESPACE* ~ "{" ~ d ~ "-"` (first alternative of a start rule): the input after it -/
def trimStart (d : Char) (s : List Char) : Option (List Char) :=
  match skipWs s with
  | '{' :: c :: '-' :: r => if c == d then some r else none
  | _ => none

/-- `TagStart` (`d = '%'`) / `ExpressionStart` (`d = '{'`): consumed whitespace, trim flag, rest -/
def startAt (d : Char) (s : List Char) : Option (List Char × Bool × List Char) :=
  match trimStart d s with
  | some r => some (wsRun s, true, r)
  | none => match plainStart d s with
    | some r => some ([], false, r)
    | none => none

/-- `TagEnd` (`d = '%'`) / `ExpressionEnd` (`d = '}'`): trim flag, consumed whitespace, rest -/
def endAt (d : Char) (s : List Char) : Option (Bool × List Char × List Char) :=
  match s with
  | '-' :: c :: '}' :: r => if c == d then some (true, wsRun r, skipWs r) else none
  | c :: '}' :: r => if c == d then some (false, [], r) else none
  | _ => none

/-- `TagStart | ExpressionStart` matches here (the negative lookahead of `Raw`) -/
def isStart (s : List Char) : Bool := (startAt '%' s).isSome || (startAt '{' s).isSome

/-- A matcher for a non-atomic inner rule: the number of characters it consumes at the given input,
`none` = no match. -/
abbrev InnerM := List Char → Option Nat

structure Inner where
  tagInner : InnerM
  exprInner : InnerM

/-- `Start ~ WHITESPACE* ~ Inner ~ WHITESPACE* ~ End` -/
def markupAt (o c : Char) (inner : InnerM) (s : List Char) : Option (Markup × List Char) :=
  match startAt o s with
  | none => none
  | some (pre, tl, r1) =>
    match inner (skipWs r1) with
    | none => none
    | some n =>
      let r2 := skipWs r1
      let r3 := r2.drop n
      match endAt c (skipWs r3) with
      | none => none
      | some (tr, post, r5) =>
        some ({ pre := pre, trimL := tl, ws1 := wsRun r1, inner := r2.take n, ws2 := wsRun r3,
                trimR := tr, post := post }, r5)

/-- `(!(TagStart | ExpressionStart) ~ ANY)*`: matched text and rest -/
def scanRaw : List Char → List Char × List Char
  | [] => ([], [])
  | c :: r => if isStart (c :: r) then ([], c :: r) else
    let p := scanRaw r
    (c :: p.1, p.2)

/-- one iteration of `(Element | InvalidLiquid)` at a non-empty input: the element and the rest.
(At the empty input both alternatives fail and the loop ends; `lexFuel` handles that.) -/
def lexOne (g : Inner) (c : Char) (r : List Char) : Elem × List Char :=
  let s := c :: r
  match markupAt '{' '}' g.exprInner s with
  | some (m, rest) => (.expr m, rest)
  | none =>
    match markupAt '%' '%' g.tagInner s with
    | some (m, rest) => (.tag m, rest)
    | none =>
      if isStart s then (.invalid c, r)      -- `Raw` needs one iteration; `InvalidLiquid` = ANY
      else
        let p := scanRaw r
        (.raw (c :: p.1), p.2)

/-- the `(Element | InvalidLiquid)*` loop with a step counter -/
def lexFuel (g : Inner) : Nat → List Char → List Elem
  | 0, _ => []
  | _ + 1, [] => []
  | n + 1, c :: r => let p := lexOne g c r; p.1 :: lexFuel g n p.2

/-- the inner pairs of `LaxLiquidFile` without the final `EOI` (fuel = length + 1 is proved sufficient:
`Lemmas/C03.lean` `lexFuel_stable`) -/
def lexLax (g : Inner) (s : List Char) : List Elem := lexFuel g (s.length + 1) s

end Liquid.Lex
