/-
  `model/find.rs` (try_find / find / augmented_get), `array/mod.rs` (convert_index, get),
  and the `Runtime` frames of `runtime/stack.rs` + `runtime/runtime.rs`.
-/
import LiquidModel.Model.Value
namespace Liquid

/-- Outcome of a fallible operation of the implementation.  `panic` and `fuel` are explicit so
that "never panics" is a statement and not an artefact of totality. -/
inductive Res (α : Type) where
  | ok (a : α)
  | err            -- a `liquid_core::Error` (always carries a message in the implementation)
  | io             -- the sink failed; surfaced as `Error` "Failed to render"
  | panic (site : String)
  | fuel           -- model ran out of nesting fuel (never on generated inputs)
  deriving Repr, Inhabited

def Res.bind {α β} (r : Res α) (f : α → Res β) : Res β :=
  match r with
  | .ok a => f a
  | .err => .err
  | .io => .io
  | .panic s => .panic s
  | .fuel => .fuel

instance : Monad Res where
  pure := .ok
  bind := Res.bind

def Res.isOk {α} : Res α → Bool | .ok _ => true | _ => false
def Res.isPanic {α} : Res α → Bool | .panic _ => true | _ => false

def i64Min : Int := -9223372036854775808
def i64Max : Int := 9223372036854775807
def inI64 (i : Int) : Bool := i64Min ≤ i && i ≤ i64Max

def digitVal? (c : Char) : Option Nat :=
  if '0' ≤ c ∧ c ≤ '9' then some (c.toNat - '0'.toNat) else none

def digitsVal? : Str → Nat → Option Nat
  | [], acc => some acc
  | c :: r, acc => match digitVal? c with
    | some d => digitsVal? r (acc * 10 + d)
    | none => none

/-- Rust `str::parse::<i64>()`: optional single sign, ≥ 1 ASCII digit, value within range. -/
def parseI64 (s : Str) : Option Int :=
  let go (neg : Bool) (ds : Str) : Option Int :=
    if ds.isEmpty then none else
    match digitsVal? ds 0 with
    | some n => let v : Int := if neg then -(Int.ofNat n) else Int.ofNat n
                if inI64 v then some v else none
    | none => none
  match s with
  | '-' :: r => go true r
  | '+' :: r => go false r
  | _ => go false s

def Sc.toInteger? : Sc → Option Int
  | .int i => some i
  | .str s => parseI64 s
  | _ => none

def convertIndex (i size : Int) : Int := if 0 ≤ i then i else size + i

/-- `Vec::get(convert_index(i) as usize)`; a negative converted index becomes a huge `usize`. -/
def arrGet (xs : List V) (i : Int) : Option V :=
  let j := convertIndex i xs.length
  if 0 ≤ j then xs[j.toNat]? else none

def objContains (kvs : Obj) (k : Str) : Bool := kvs.any (·.1 == k)

/-- `HashMap::insert`: replace in place when present, else append (position = unspecified). -/
def objInsert : Obj → Str → V → Obj
  | [], k, v => [(k, v)]
  | (k', w) :: r, k, v => if k' == k then (k, v) :: r else (k', w) :: objInsert r k v

def augGet (v : V) (idx : Sc) : Option V :=
  match v with
  | .arr xs =>
    match idx.toInteger? with
    | some i => arrGet xs i
    | none =>
      let k := idx.render
      if k == "first".toList then arrGet xs 0
      else if k == "last".toList then arrGet xs (-1)
      else if k == "size".toList then some (.sc (.int xs.length))
      else none
  | .obj kvs =>
    let k := idx.render
    match objGet kvs k with
    | some w => some w
    | none => if k == "size".toList then some (.sc (.int kvs.length)) else none
  | .sc s =>
    if idx.render == "size".toList then some (.sc (.int s.render.length)) else none
  | _ => none

def tryFind : V → List Sc → Option V
  | v, [] => some v
  | v, i :: r => match augGet v i with
    | some c => tryFind c r
    | none => none

/-- `find`: on failure look for the longest resolvable proper prefix (`cur_idx in 1..len`);
if none resolves the code reaches its final `panic!`. -/
def find (v : V) (path : List Sc) : Res V :=
  match tryFind v path with
  | some r => .ok r
  | none =>
    let n := path.length
    if (List.range' 1 n).any (fun c => (tryFind v (path.take (n - c))).isSome) then .err
    else .panic "find: Should have already errored"

/-! ### runtime frames -/

inductive Intr where | cont | brk
  deriving DecidableEq, Repr, Inhabited

structure Regs where
  interrupt : Option Intr := none
  cycles : List (Str × Nat) := []
  lastChanged : Option Str := none
  deriving Repr, Inhabited

inductive Layer where
  | plain (d : Obj)                  -- StackFrame
  | sandbox (d : Obj) (regs : Regs)  -- SandboxedStackFrame
  | global (g : Obj)                 -- GlobalFrame
  | index (c : Obj)                  -- IndexFrame
  deriving Repr, Inhabited

/-- head = innermost frame; the empty list is `RuntimeCore`. -/
abbrev Stack := List Layer

def pathKey (path : List Sc) : Option Str := path.head?.map Sc.render

def Stack.tryGet : Stack → List Sc → Option V
  | [], _ => none
  | l :: r, path =>
    match pathKey path with
    | none => none
    | some k =>
      match l with
      | .plain d | .global d | .index d =>
        if objContains d k then tryFind (.obj d) path else Stack.tryGet r path
      | .sandbox d _ =>
        match objGet d k with
        | some _ => tryFind (.obj d) path
        | none => none

def Stack.get : Stack → List Sc → Res V
  | [], _ => .err                        -- RuntimeCore: "Unknown variable"
  | l :: r, path =>
    match pathKey path with
    | none => .err
    | some k =>
      match l with
      | .plain d | .global d | .index d =>
        if objContains d k then find (.obj d) path else Stack.get r path
      | .sandbox d _ =>
        match objGet d k with
        | some _ => (match tryFind (.obj d) path with | some v => .ok v | none => .err)
        | none => .err

def Stack.roots : Stack → List Str
  | [] => []
  | .sandbox d _ :: _ => d.map (·.1)
  | .plain d :: r | .global d :: r | .index d :: r => Stack.roots r ++ d.map (·.1)

/-- `set_global`: lands in the nearest `GlobalFrame`; `RuntimeCore` is `unreachable!`. -/
def Stack.setGlobal : Stack → Str → V → Res Stack
  | [], _, _ => .panic "set_global: Must be masked by a global frame"
  | .global g :: r, k, v => .ok (.global (objInsert g k v) :: r)
  | l :: r, k, v => do let r' ← Stack.setGlobal r k v; pure (l :: r')

def Stack.setIndex : Stack → Str → V → Res Stack
  | [], _, _ => .panic "set_index: Must be masked by a global frame"
  | .index c :: r, k, v => .ok (.index (objInsert c k v) :: r)
  | l :: r, k, v => do let r' ← Stack.setIndex r k v; pure (l :: r')

def Stack.getIndex : Stack → Str → Option V
  | [], _ => none
  | .index c :: _, k => objGet c k
  | _ :: r, k => Stack.getIndex r k

/-- A runtime = the frame stack plus `RuntimeCore`'s registers. -/
structure Rt where
  layers : Stack
  core : Regs := {}
  deriving Repr, Inhabited

def Stack.regs : Stack → Regs → Regs
  | [], core => core
  | .sandbox _ g :: _, _ => g
  | _ :: r, core => Stack.regs r core

def Rt.regs (rt : Rt) : Regs := rt.layers.regs rt.core

def Stack.setRegs : Stack → Regs → Regs → Stack × Regs
  | [], _, g => ([], g)
  | .sandbox d _ :: r, core, g => (.sandbox d g :: r, core)
  | l :: r, core, g => let (r', c') := Stack.setRegs r core g; (l :: r', c')

def Rt.setRegs (rt : Rt) (g : Regs) : Rt :=
  let (ls, c) := rt.layers.setRegs rt.core g
  { layers := ls, core := c }

/-- `RuntimeBuilder::build`: GlobalFrame over StackFrame(globals) over IndexFrame over core. -/
def Rt.build (globals : Obj) : Rt := { layers := [.global [], .plain globals, .index []] }

end Liquid
