/-
  Partial stores: `partials/{inmemory,eager,lazy,ondemand}.rs` as state machines over one parser
  (`compile`), and the lock protocol of the lazy store for concurrent use.
-/
import LiquidModel.Model.Render
namespace Liquid

/-- a partial source with a truthful name listing (`InMemorySource`) -/
structure PSrc where
  names : List Str
  text : Str → Option Str

def PSrc.Truthful (src : PSrc) : Prop := ∀ n, (src.text n).isSome = true ↔ n ∈ src.names

/-- `parser::parse` + `Template::new` on a partial's text: `none` = parse error -/
abbrev Compile := Str → Option Tmpl

def resOfOpt {α} : Option α → Res α
  | some a => .ok a
  | none => .err

/-- what a `get` naming `name` has to answer, by definition -/
def compiled (src : PSrc) (c : Compile) (name : Str) : Res Tmpl :=
  match src.text name with
  | none => .err                      -- "Unknown partial-template"
  | some s => resOfOpt (c s)          -- the compiled template, or its parse error

/-! ### eager: compile every listed name when the parser is built -/

def eagerStore (src : PSrc) (c : Compile) : List (Str × Option Tmpl) :=
  src.names.map fun n => (n, (src.text n).bind c)

def storeGet (store : List (Str × Option Tmpl)) (name : Str) : Res Tmpl :=
  match store.find? (·.1 == name) with
  | some (_, r) => resOfOpt r
  | none => .err

/-! ### lazy: compile at first use, cache the result (also a parse error) -/

abbrev Cache := List (Str × Option Tmpl)

def cacheFind (σ : Cache) (name : Str) : Option (Option Tmpl) :=
  match σ with
  | [] => none
  | (n, r) :: rest => if n == name then some r else cacheFind rest name

/-- `LazyStore::get_or_create` under its mutex: look up, else compile and insert -/
def lazyGet (src : PSrc) (c : Compile) (σ : Cache) (name : Str) : Res Tmpl × Cache :=
  match cacheFind σ name with
  | some r => (resOfOpt r, σ)
  | none =>
    match src.text name with
    | none => (.err, σ)
    | some s => (resOfOpt (c s), (name, c s) :: σ)

/-- a whole history of `get`s on one lazy store -/
def lazyRun (src : PSrc) (c : Compile) : List Str → Cache → List (Res Tmpl) × Cache
  | [], σ => ([], σ)
  | n :: r, σ =>
    let (x, σ') := lazyGet src c σ n
    let (xs, σ'') := lazyRun src c r σ'
    (x :: xs, σ'')

/-! ### on demand: compile at every use -/

def onDemandGet (src : PSrc) (c : Compile) (name : Str) : Res Tmpl := compiled src c name

/-! ### the three policies as interpreter environments -/

def eagerEnv (src : PSrc) (c : Compile) (filters : Str → Option (V → List V → Res V)) : Env :=
  { lookup := storeGet (eagerStore src c), filters := filters }
def lazyEnv (src : PSrc) (c : Compile) (σ : Cache) (filters : Str → Option (V → List V → Res V)) : Env :=
  { lookup := fun n => (lazyGet src c σ n).1, filters := filters }
def onDemandEnv (src : PSrc) (c : Compile) (filters : Str → Option (V → List V → Res V)) : Env :=
  { lookup := onDemandGet src c, filters := filters }

/-! ### threads sharing one lazy store

Each thread performs a list of `get`s; a `get` is: acquire the store's mutex, run `lazyGet` (the
critical section), release.  `stepThread s i` lets thread `i` make its next move, if it can. -/

inductive Phase where | idle | holding
  deriving DecidableEq, Repr

structure TState where
  todo : List Str
  phase : Phase := .idle
  results : List (Res Tmpl) := []

structure Sys where
  lock : Option Nat := none
  threads : List TState
  cache : Cache := []

def stepThread (src : PSrc) (c : Compile) (s : Sys) (i : Nat) : Option Sys :=
  match s.threads[i]? with
  | none => none
  | some t =>
    match t.phase, t.todo with
    | .idle, _ :: _ =>
      if s.lock.isNone then some { s with lock := some i, threads := s.threads.set i { t with phase := .holding } }
      else none
    | .holding, n :: r =>
      if s.lock == some i then
        let (x, σ') := lazyGet src c s.cache n
        some { lock := none, cache := σ',
               threads := s.threads.set i { todo := r, phase := .idle, results := t.results ++ [x] } }
      else none
    | _, [] => none

end Liquid
