/-
  `crates/core/src/model/scalar/datetime/strftime.rs` — `strftime(ts, fmt)` transcribed: the flag
  loop, the width loop (`parse::<usize>`), the ignored `E`/`O` modifiers, the `:`/`::` special
  case, every directive with its padding rule, and the unknown-directive echo that slices the
  format string *by byte indices*.

  Shape.  The Rust function is one loop over `fmt.char_indices().peekable()`.  Here it is a Mealy
  machine that consumes exactly one character per step (`step`), so that `run` is structural
  recursion over the format string: state `text` is the outer loop, `flags`/`width`/`modif` are
  the three inner parsing phases, `colon1`/`colon2` are the `handle_colons` closure.  A peeked but
  not consumed character in Rust is always consumed by the very next statement, so nothing is lost.
  `Ctx.p` is `fmt_pos`, `Ctx.cur` is `cursor`, `Ctx.seen` are the characters consumed since (and
  including) the `%`, newest first — only the proofs look at `seen`.

  Repairs (`fixed = true`, the default of the entry point `strftime`):
  * D7  — `cursor` is the index of the *last byte* of the consumed char (was: its first byte), so
          `fmt[fmt_pos..=cursor]` ends on a char boundary; at the pinned commit a non-ASCII char
          after `%` makes the slice panic.
  * D16 — `%L`/`%N` take the leading digits of the 9-digit zero-padded nanosecond (was:
          `{:0<width$}` of `nanos / 10^(9-digits)`, which drops the leading zeros).
  * D17 — `%_z` prints the sign of the *offset* (was: the sign of `whole_hours()`, which is `+`
          for offsets between -00:59:59 and -00:00:01).
  `fixed = false` is the behaviour of the pinned commit, kept for the `_old_counterexample`s.
-/
import LiquidModel.Model.Calendar
import LiquidModel.Model.Find
namespace Liquid.Strf
open Liquid Liquid.Cal

inductive Pad where | dflt | zero | space
  deriving DecidableEq, Repr, Inhabited
inductive Casing where | dflt | upper | change
  deriving DecidableEq, Repr, Inhabited

structure Flags where
  usePad : Bool := true
  pad : Pad := .dflt
  casing : Casing := .dflt
  deriving DecidableEq, Repr, Inhabited

def isFlagChar (c : Char) : Bool := c == '-' || c == '_' || c == '0' || c == '^' || c == '#'

/-- one iteration of the flag loop -/
def Flags.apply (f : Flags) (c : Char) : Flags :=
  if c = '-' then { f with usePad := false }
  else if c = '_' then { f with pad := .space }
  else if c = '0' then { f with pad := .zero }
  else if c = '^' then { f with casing := .upper }
  else if c = '#' then { f with casing := .change }
  else f

/-! ### Rust `format!` fragments -/

def rep (n : Nat) (c : Char) : Str := List.replicate n c
/-- `{:c>w$}` -/
def padLeft (w : Nat) (c : Char) (s : Str) : Str := rep (w - s.length) c ++ s
/-- `{:c<w$}` -/
def padRight (w : Nat) (c : Char) (s : Str) : Str := s ++ rep (w - s.length) c
/-- `{:0w$}` on a signed integer: sign-aware zero padding (the sign counts towards the width) -/
def fmtZeroInt (w : Nat) (v : Int) : Str :=
  if v < 0 then '-' :: padLeft (w - 1) '0' (natDigits v.natAbs) else padLeft w '0' (natDigits v.natAbs)
/-- `{:02}` on an unsigned field -/
def pad2 (v : Int) : Str := padLeft 2 '0' (natDigits v.natAbs)

def upChar (c : Char) : Char := if 'a' ≤ c ∧ c ≤ 'z' then Char.ofNat (c.toNat - 32) else c
/-- `make_ascii_uppercase` -/
def upper (s : Str) : Str := s.map upChar

def monthNames : List Str :=
  ["January", "February", "March", "April", "May", "June", "July", "August", "September",
   "October", "November", "December"].map String.toList
/-- indexed by `time::Weekday as usize`: Monday = 0 -/
def weekdayNames : List Str :=
  ["Monday", "Tuesday", "Wednesday", "Thursday", "Friday", "Saturday", "Sunday"].map String.toList

def monthName (m : Int) : Str := monthNames.getD (m.toNat - 1) []
def weekdayName (w : Int) : Str := weekdayNames.getD w.toNat []

/-! ### the four output shapes (`enum Formats`) -/

/-- `write_padding!(num …)`: `Default | Zero => '0'`, `Space => ' '` -/
def padCharNum (p : Pad) : Char := match p with | .space => ' ' | _ => '0'
/-- `write_padding!(…)` / `(comp …)`: `Default | Space => ' '`, `Zero => '0'` -/
def padCharAlpha (p : Pad) : Char := match p with | .zero => '0' | _ => ' '

/-- `Formats::Numeric(value, def_padding)`.  The Rust digit-counting loop yields the number of
decimal digits of `|value|` (1 for 0), plus 1 for a negative value. -/
def fmtNumeric (fl : Flags) (w : Option Nat) (value : Int) (dflt : Nat) : Str :=
  let neg : Bool := decide (value < 0)
  let ds := natDigits value.natAbs
  let digits := ds.length + (if neg then 1 else 0)
  if fl.usePad then
    let width := w.getD (dflt + (if neg then 1 else 0))
    (if neg && fl.pad != .space then ['-'] else []) ++ rep (width - digits) (padCharNum fl.pad) ++
      (if neg && fl.pad == .space then ['-'] else []) ++ ds
  else (if neg then ['-'] else []) ++ ds

/-- `Formats::Alphabetical(s)` -/
def fmtAlpha (fl : Flags) (w : Option Nat) (s : Str) : Str :=
  let padding : Str := match fl.usePad, w with
    | true, some p => rep (p - s.length) (padCharAlpha fl.pad)
    | _, _ => []
  let out := padding ++ s
  if fl.casing != .dflt then upper out else out

/-- `write_padding!(comp n)` + body + `Formats::Formatted` (`comp` ignores the `-` flag) -/
def fmtComp (fl : Flags) (w : Option Nat) (n : Nat) (body : Str) : Str :=
  let padding : Str := match w with
    | some p => rep (p - n) (padCharAlpha fl.pad)
    | none => []
  let out := padding ++ body
  if fl.casing != .dflt then upper out else out

/-- `Formats::Literal(c)` -/
def fmtLit (fl : Flags) (w : Option Nat) (c : Char) : Str :=
  (match fl.usePad, w with
    | true, some p => rep (p - 1) (padCharAlpha fl.pad)
    | _, _ => []) ++ [c]

/-- `%e %k %l`: a default padding style becomes `Space` -/
def Flags.spaceDefault (fl : Flags) : Flags := if fl.pad = .dflt then { fl with pad := .space } else fl

def hour12 (h : Int) : Int := if h = 0 ∨ h = 12 then 12 else if h ≤ 11 then h else h - 12

/-- the nanosecond as 9 zero-padded digits, `format!("{:09}", nanos)` -/
def pad9 (ns : Int) : Str := padLeft 9 '0' (natDigits ns.natAbs)

/-- `%L` / `%N` -/
def fmtFraction (fixed : Bool) (w : Option Nat) (isL : Bool) (ns : Int) : Str :=
  let digits := w.getD (if isL then 3 else 9)
  if fixed then
    if digits ≤ 9 then (pad9 ns).take digits else padRight digits '0' (pad9 ns)
  else
    let v : Nat := if digits ≤ 9 then ns.natAbs / 10 ^ (9 - digits) else ns.natAbs
    padRight digits '0' (natDigits v)

/-- `%z`, `%Z`, `%:z`, `%::z` -/
def fmtOffset (fixed : Bool) (fl : Flags) (w : Option Nat) (off : Int) (hmSep msSep : Bool) : Str :=
  let outSize : Nat := 1 + 2 + (if hmSep then 1 else 0) + 2 + (if msSep then 3 else 0)
  let padWidth : Nat := max (w.getD 0 - outSize + 2) 2
  let hours := offHours off
  let head : Str :=
    if fl.pad != .space then
      (if off < 0 then '-' else '+') :: padLeft padWidth '0' (natDigits hours.natAbs)
    else
      let neg : Bool := if fixed then decide (off < 0) else decide (hours < 0)
      -- the sign is part of the blank-padded field (after the `fix:` commit; one column short before)
      padLeft (if fixed then padWidth + 1 else padWidth) ' ' ((if neg then '-' else '+') :: natDigits hours.natAbs)
  head ++ (if hmSep then [':'] else []) ++ pad2 (offMinutes off) ++
    (if msSep then ':' :: pad2 (offSeconds off) else [])

/-- The `match fmt_char { … }` for everything except `':'` (which needs look-ahead) — `none` is
`Formats::Unknown`. -/
def directive (fixed : Bool) (d : DT) (fl : Flags) (w : Option Nat) (c : Char) : Option Str :=
  let n := localDay d
  let y := yearOf n
  let mo := monthOf n
  let dd := dayOf n
  let h := hour d
  let mi := minute d
  let s := second d
  let wd := wdFromMonday n
  let isAm : Bool := decide (h < 12)
  let mon3 := (monthName mo).take 3
  let wd3 := (weekdayName wd).take 3
  let hms := pad2 h ++ [':'] ++ pad2 mi ++ [':'] ++ pad2 s
  if c = 'Y' then some (fmtNumeric fl w y 4)
  else if c = 'C' then some (fmtNumeric fl w (y.tdiv 100) 2)
  else if c = 'y' then some (fmtNumeric fl w (y.tmod 100) 2)
  else if c = 'm' then some (fmtNumeric fl w mo 2)
  else if c = 'd' then some (fmtNumeric fl w dd 2)
  else if c = 'e' then some (fmtNumeric fl.spaceDefault w dd 2)
  else if c = 'w' then some (fmtNumeric fl w (wdFromSunday n) 0)
  else if c = 'u' then some (fmtNumeric fl w (wdIso n) 0)
  else if c = 'U' then some (fmtNumeric fl w (sundayWeek n) 2)
  else if c = 'W' then some (fmtNumeric fl w (mondayWeek n) 2)
  else if c = 'G' then some (fmtNumeric fl w (isoYear n) 4)
  else if c = 'g' then some (fmtNumeric fl w ((isoYear n).tmod 100) 2)
  else if c = 'V' then some (fmtNumeric fl w (isoWeek n) 2)
  else if c = 'j' then some (fmtNumeric fl w (ordinalOf n) 3)
  else if c = 'H' then some (fmtNumeric fl w h 2)
  else if c = 'k' then some (fmtNumeric fl.spaceDefault w h 2)
  else if c = 'I' then some (fmtNumeric fl w (hour12 h) 2)
  else if c = 'l' then some (fmtNumeric fl.spaceDefault w (hour12 h) 2)
  else if c = 'M' then some (fmtNumeric fl w mi 2)
  else if c = 'S' then some (fmtNumeric fl w s 2)
  else if c = 's' then some (fmtNumeric fl w (unixSeconds d) 0)
  else if c = 'b' ∨ c = 'h' then some (fmtAlpha fl w mon3)
  else if c = 'B' then some (fmtAlpha fl w (monthName mo))
  else if c = 'a' then some (fmtAlpha fl w wd3)
  else if c = 'A' then some (fmtAlpha fl w (weekdayName wd))
  else if c = 'p' then
    let up : Bool := fl.casing != .change
    some (fmtAlpha { fl with casing := .dflt } w
      (if up then (if isAm then "AM".toList else "PM".toList) else (if isAm then "am".toList else "pm".toList)))
  else if c = 'P' then
    let up : Bool := fl.casing != .dflt
    some (fmtAlpha { fl with casing := .dflt } w
      (if up then (if isAm then "AM".toList else "PM".toList) else (if isAm then "am".toList else "pm".toList)))
  else if c = 'F' then some (fmtComp fl w 10 (fmtZeroInt 4 y ++ ['-'] ++ pad2 mo ++ ['-'] ++ pad2 dd))
  else if c = 'v' then
    some (fmtComp { fl with casing := .upper } w 11
      (padLeft 2 ' ' (natDigits dd.natAbs) ++ ['-'] ++ mon3 ++ ['-'] ++ fmtZeroInt 4 y))
  else if c = 'R' then some (fmtComp fl w 5 (pad2 h ++ [':'] ++ pad2 mi))
  else if c = 'D' ∨ c = 'x' then
    some (fmtComp fl w 8 (pad2 mo ++ ['/'] ++ pad2 dd ++ ['/'] ++ fmtZeroInt 2 (y.tmod 100)))
  else if c = 'T' ∨ c = 'X' then some (fmtComp fl w 8 hms)
  else if c = 'r' then
    some (fmtComp fl w 11 (pad2 (hour12 h) ++ [':'] ++ pad2 mi ++ [':'] ++ pad2 s ++ [' '] ++
      (if isAm then "AM".toList else "PM".toList)))
  else if c = 'c' then
    some (fmtComp fl w 24 (wd3 ++ [' '] ++ mon3 ++ [' '] ++ padLeft 2 ' ' (natDigits dd.natAbs) ++ [' '] ++
      hms ++ [' '] ++ fmtZeroInt 4 y))
  else if c = '%' then some (fmtLit fl w '%')
  else if c = 'n' then some (fmtLit fl w '\n')
  else if c = 't' then some (fmtLit fl w '\t')
  else if c = 'L' then some (fmtFraction fixed w true (nanos d))
  else if c = 'N' then some (fmtFraction fixed w false (nanos d))
  else if c = 'z' then some (fmtOffset fixed fl w d.off false false)
  else if c = 'Z' then some (fmtOffset fixed fl w d.off true false)
  else none

/-! ### byte slicing -/

/-- chars of `s` whose byte offset (starting at `pos`) lies in `[a, b)`, provided `a` and `b` are
char boundaries — `none` is the slice panic ("byte index is not a char boundary" / out of range). -/
def sliceFrom (pos : Nat) (s : Str) (a b : Nat) : Option Str :=
  match s with
  | [] => if a = pos ∧ b = pos then some [] else none
  | c :: cs =>
    if b = pos then (if a = pos then some [] else none)
    else if pos < a then sliceFrom (pos + utf8Len1 c) cs a b
    else if pos = a then
      (if b < pos + utf8Len1 c then none else (sliceFrom (pos + utf8Len1 c) cs (pos + utf8Len1 c) b).map (c :: ·))
    else none

/-- `&fmt[a..b]` -/
def byteSlice (fmt : Str) (a b : Nat) : Option Str := if a ≤ b then sliceFrom 0 fmt a b else none

/-! ### the parser machine -/

/-- what the inner phases remember -/
structure Ctx where
  p : Nat            -- `fmt_pos`
  cur : Nat          -- `cursor`
  seen : List Char   -- consumed since the `%`, newest first (ghost: proofs only)
  fl : Flags
  deriving Repr, Inhabited

inductive PSt where
  | text
  | flags (k : Ctx)
  | width (k : Ctx) (ds : List Char)      -- digits so far, in order
  | modif (k : Ctx) (w : Option Nat)      -- after `E` / `O`
  | colon1 (k : Ctx) (w : Option Nat)     -- after `%…:`
  | colon2 (k : Ctx) (w : Option Nat)     -- after `%…::`
  deriving Repr, Inhabited

/-- `next!()`: consume `c` found at byte `pos` -/
def Ctx.eat (fixed : Bool) (k : Ctx) (pos : Nat) (c : Char) : Ctx :=
  { k with cur := if fixed then pos + utf8Len1 c - 1 else pos, seen := c :: k.seen }

/-- `str::parse::<usize>()` of a non-empty run of ASCII digits: fails only on overflow -/
def decVal (ds : List Char) : Nat := ds.foldl (fun a c => 10 * a + (c.toNat - 48)) 0
def parseUsize (ds : List Char) : Option Nat :=
  let v := decVal ds
  if v < 2 ^ 16 then some v else none

/-- `Formats::Unknown`: `output.push_str(&fmt[fmt_pos..=cursor])` -/
def echo (fmt : Str) (k : Ctx) : Res Str :=
  match byteSlice fmt k.p (k.cur + 1) with
  | some s => .ok s
  | none => .panic "strftime.rs: fmt[fmt_pos..=cursor] is not on a char boundary"

/-- the directive character has been consumed (`k` already contains it) -/
def onDirective (fixed : Bool) (d : DT) (ech : Ctx → Res Str) (k : Ctx) (w : Option Nat) (c : Char) : Res (Str × PSt) :=
  if c = ':' then .ok ([], .colon1 k w)
  else match directive fixed d k.fl w c with
    | some out => .ok (out, .text)
    | none => (ech k).bind fun e => .ok (e, .text)

/-- the character after flags and width: `E`/`O` are skipped -/
def onFmtChar (fixed : Bool) (d : DT) (ech : Ctx → Res Str) (k : Ctx) (w : Option Nat) (c : Char) : Res (Str × PSt) :=
  if c = 'E' ∨ c = 'O' then .ok ([], .modif k w) else onDirective fixed d ech k w c

/-- one character, found at byte offset `pos`; `ech` is the unknown-directive echo (`echo fmt` for
the real thing — a parameter so that the proofs can swap in the index-free `seen.reverse`) -/
def step (fixed : Bool) (d : DT) (ech : Ctx → Res Str) (st : PSt) (pos : Nat) (c : Char) : Res (Str × PSt) :=
  match st with
  | .text =>
    if c = '%' then .ok ([], .flags { p := pos, cur := pos, seen := ['%'], fl := {} })
    else .ok ([c], .text)
  | .flags k =>
    let k' := k.eat fixed pos c
    if isFlagChar c then .ok ([], .flags { k' with fl := k.fl.apply c })
    else if c.isDigit then .ok ([], .width k' [c])
    else onFmtChar fixed d ech k' none c
  | .width k ds =>
    let k' := k.eat fixed pos c
    if c.isDigit then .ok ([], .width k' (ds ++ [c]))
    else match parseUsize ds with
      | none => .err                                  -- `InvalidWidth`
      | some w => onFmtChar fixed d ech k' (some w) c
  | .modif k w => onDirective fixed d ech (k.eat fixed pos c) w c
  | .colon1 k w =>
    let k' := k.eat fixed pos c
    if c = 'z' then .ok (fmtOffset fixed k.fl w d.off true false, .text)
    else if c = ':' then .ok ([], .colon2 k' w)
    else (ech k').bind fun e => .ok (e, .text)
  | .colon2 k w =>
    let k' := k.eat fixed pos c
    if c = 'z' then .ok (fmtOffset fixed k.fl w d.off true true, .text)
    else (ech k').bind fun e => .ok (e, .text)

/-- the format string ended in state `st` -/
def atEnd (ech : Ctx → Res Str) (st : PSt) : Res Str :=
  match st with
  | .text => .ok []
  | .flags _ => .err          -- `NoFormatSpecifier`
  | .width _ _ => .err        -- `NoFormatSpecifier`
  | .modif _ _ => .err        -- `NoFormatSpecifierAfterModifier`
  | .colon1 k _ => ech k -- `handle_colons` returned false: `Formats::Unknown`
  | .colon2 k _ => ech k

def prepend (o : Str) : Res Str → Res Str
  | .ok s => .ok (o ++ s)
  | r => r

def run (fixed : Bool) (d : DT) (ech : Ctx → Res Str) (st : PSt) (pos : Nat) : List Char → Res Str
  | [] => atEnd ech st
  | c :: cs =>
    match step fixed d ech st pos c with
    | .ok (o, st') => prepend o (run fixed d ech st' (pos + utf8Len1 c) cs)
    | .err => .err
    | .io => .io
    | .panic s => .panic s
    | .fuel => .fuel

/-- `strftime(ts, fmt)` at the pinned commit (`fixed = false`) / with the three repairs -/
def strftimeG (fixed : Bool) (d : DT) (fmt : Str) : Res Str := run fixed d (echo fmt) .text 0 fmt

/-- `DateTime::format` (repaired) -/
def strftime (d : DT) (fmt : Str) : Res Str := strftimeG true d fmt

end Liquid.Strf
