/-
  `crates/lib/src/stdlib/filters/math.rs` (abs, at_least, at_most, plus, minus, times, divided_by,
  modulo, round, ceil, floor) and the two numeric coercions of `scalar/mod.rs`
  (`ScalarCow::to_integer` = `Sc.toInteger?` in Find.lean, `ScalarCow::to_float` = `Sc.toFloatBits?`).

  The model is the code *with patch `patches/C15-checked-int-arith.diff` applied* (D6: the integer
  path uses `checked_add/sub/mul/div/abs`, falling through to the float path on overflow, and
  `wrapping_rem`).  The code at the pinned commit is kept as `arithOld` (plain `+ - * / % abs`,
  overflow = panic under overflow-checks) for the `_old_counterexample` theorems.

  Doubles are bit patterns (`Nat`, < 2^64).  What is computed here with integer arithmetic:
  classification/comparison (`Fl.toFV`), `abs`, `max/min`, `== 0.0`, `floor/ceil/round`, `as i64`,
  `i64 as f64`, `str::parse::<f64>` (correctly rounded decimal → binary64) and `%` (`fmodBits`, exact).
  IEEE `+ − × ÷`, `%` and `10f64.powi(n)` are *parameters* (`FloatOps`, DESIGN 4.3).
-/
import LiquidModel.Model.Find
namespace Liquid

/-! ### doubles as bit patterns -/

/-- External IEEE-754 binary64 operations, on bit patterns. -/
structure FloatOps where
  add : Nat → Nat → Nat
  sub : Nat → Nat → Nat
  mul : Nat → Nat → Nat
  div : Nat → Nat → Nat
  /-- Rust `%` on `f64` (C `fmod`) -/
  rem : Nat → Nat → Nat
  /-- `10.0_f64.powi(n)` for `0 < n ≤ i32::MAX` -/
  powi10 : Nat → Nat

def f64Sign : Nat := 2^63
def f64Inf : Nat := 2047 * 2^52
def f64NaN : Nat := 2047 * 2^52 + 2^51
/-- the unit of `FV.fin`: `fin q` denotes `q / 2^1074` -/
def fUnit : Int := 2^1074

def fv (bits : Nat) : FV := Fl.toFV { bits := bits }

def fIsNaN (b : Nat) : Bool := fv b == .nan
/-- IEEE `b == 0.0` (true for both zeros) -/
def fIsZero (b : Nat) : Bool := fv b == .fin 0
def fLt (a b : Nat) : Bool := (fv a).cmp (fv b) == some .lt
/-- `f64::abs`: clear the sign bit -/
def fAbs (b : Nat) : Nat := b % f64Sign
/-- `f64::max` (x86 `maxsd` + NaN select): the other operand if `self` is NaN, the other if it is
greater, else `self` (so `self` on ties such as `0.0` vs `-0.0`, and when `other` is NaN). -/
def fMax (a b : Nat) : Nat := if fIsNaN a then b else if fLt a b then b else a
def fMin (a b : Nat) : Nat := if fIsNaN a then b else if fLt b a then b else a

/-- Nearest double, ties to even, of the non-negative rational `num/den` (`den > 0`): the bit
pattern of the magnitude (overflow gives `f64Inf`). -/
def roundRatBits (num den : Nat) : Nat :=
  if num = 0 ∨ den = 0 then 0 else
  let L : Int := (bitLen num : Int) - (bitLen den : Int)
  let scaled (e : Int) : Nat × Nat :=      -- num/den / 2^e as a fraction
    if 0 ≤ e then (num, den * 2 ^ e.toNat) else (num * 2 ^ (-e).toNat, den)
  let e0 : Int := L - 53
  let s0 := scaled e0
  let e1 : Int := if 2^53 ≤ s0.1 / s0.2 then e0 + 1 else e0
  let e : Int := if e1 < -1074 then -1074 else e1
  let s := scaled e
  let q := s.1 / s.2
  let r := s.1 % s.2
  let q' := if s.2 < 2 * r then q + 1 else if 2 * r < s.2 then q else if q % 2 = 1 then q + 1 else q
  let bits := (e + 1074).toNat * 2^52 + q'
  if f64Inf ≤ bits then f64Inf else bits

/-- `x as f64` for an integer -/
def f64OfInt (x : Int) : Nat := (if x < 0 then f64Sign else 0) + roundRatBits x.natAbs 1

/-- correctly rounded `m · 10^e10` -/
def decToBits (m : Nat) (e10 : Int) : Nat :=
  if m = 0 then 0
  else if 400 < e10 then f64Inf
  else if e10 < -(400 + (bitLen m : Int)) then 0
  else if 0 ≤ e10 then roundRatBits (m * 10 ^ e10.toNat) 1
  else roundRatBits m (10 ^ (-e10).toNat)

def digitsNat (ds : Str) : Nat := ds.foldl (fun acc c => 10 * acc + (c.toNat - '0'.toNat)) 0

def lowerAscii (c : Char) : Char := if 'A' ≤ c ∧ c ≤ 'Z' then Char.ofNat (c.toNat + 32) else c

/-- `dec2flt::parse::parse_number`: `digits* [. digits*] [(e|E) [+-] digits+]`, at least one
mantissa digit, everything consumed.  Result: mantissa and decimal exponent. -/
def parseDecimal (s : Str) : Option (Nat × Int) :=
  let ip := s.takeWhile Char.isDigit
  let r1 := s.dropWhile Char.isDigit
  let (fp, r2) : Str × Str := match r1 with
    | '.' :: t => (t.takeWhile Char.isDigit, t.dropWhile Char.isDigit)
    | _ => ([], r1)
  if ip.length + fp.length = 0 then none else
  let mant := digitsNat (ip ++ fp)
  let e10 : Int := -(fp.length : Int)
  match r2 with
  | [] => some (mant, e10)
  | c :: t =>
    if c == 'e' || c == 'E' then
      let (neg, t') : Bool × Str := match t with
        | '-' :: u => (true, u)
        | '+' :: u => (false, u)
        | _ => (false, t)
      let ed := t'.takeWhile Char.isDigit
      if ed.isEmpty || !(t'.dropWhile Char.isDigit).isEmpty then none
      else
        let ex : Int := digitsNat ed
        some (mant, if neg then e10 - ex else e10 + ex)
    else none

/-- Rust `str::parse::<f64>()` (`core::num::dec2flt`): optional sign, then a decimal number or
(ASCII case-insensitively) `nan` / `inf` / `infinity`; correctly rounded. -/
def parseF64 (s : Str) : Option Nat :=
  match s with
  | [] => none
  | c :: r =>
    let body := if c == '-' || c == '+' then r else s
    let sgn := if c == '-' then f64Sign else 0
    if body.isEmpty then none else
    match parseDecimal body with
    | some (m, e10) => some (sgn + decToBits m e10)
    | none =>
      let low := body.map lowerAscii
      if low == "nan".toList then some (sgn + f64NaN)
      else if low == "inf".toList || low == "infinity".toList then some (sgn + f64Inf)
      else none

/-- `ScalarCow::to_float` -/
def Sc.toFloatBits? : Sc → Option Nat
  | .int i => some (f64OfInt i)
  | .flt f => some f.bits
  | .str s => parseF64 s
  | _ => none

/-! ### float → integer -/

def satI64 (x : Int) : Int := if x < i64Min then i64Min else if i64Max < x then i64Max else x

/-- ⌊q / 2^1074⌋ -/
def floorQ (q : Int) : Int := q / fUnit
def ceilQ (q : Int) : Int := -((-q) / fUnit)
/-- nearest integer, ties away from zero -/
def roundQ (q : Int) : Int :=
  if 0 ≤ q then (2 * q + fUnit) / (2 * fUnit) else -((2 * (-q) + fUnit) / (2 * fUnit))

/-- `f.floor() as i64` etc.: the float-level rounding is exact (the result is representable), the
cast saturates and sends NaN to 0. -/
def fToI64 (mode : Int → Int) (b : Nat) : Int :=
  match fv b with
  | .nan => 0
  | .ninf => i64Min
  | .pinf => i64Max
  | .fin q => satI64 (mode q)

/-- `f64::round` as a double: sign kept (`-0.4 ↦ -0.0`), NaN/±inf unchanged. -/
def fRoundBits (b : Nat) : Nat :=
  match fv b with
  | .fin q => (b / f64Sign % 2) * f64Sign + roundRatBits (roundQ q).natAbs 1
  | _ => b

/-- Rust `%` on doubles = C `fmod`: exact, sign of the dividend. -/
def fmodBits (a b : Nat) : Nat :=
  match fv a, fv b with
  | .fin qa, .fin qb =>
    if qb = 0 then f64NaN + f64Sign
    else (a / f64Sign % 2) * f64Sign + roundRatBits (qa.tmod qb).natAbs fUnit.natAbs
  | .fin _, .pinf => a
  | .fin _, .ninf => a
  | .nan, _ => a
  | _, .nan => b
  | _, _ => f64NaN + f64Sign

/-! ### integer arithmetic of the integer path -/

inductive MathOp where
  | plus | minus | times | dividedBy | modulo | atLeast | atMost
  deriving DecidableEq, Repr, Inhabited

def checkedAdd (a b : Int) : Option Int := if inI64 (a + b) then some (a + b) else none
def checkedSub (a b : Int) : Option Int := if inI64 (a - b) then some (a - b) else none
def checkedMul (a b : Int) : Option Int := if inI64 (a * b) then some (a * b) else none
/-- `i64::checked_div`: `None` iff `b == 0` or (`a == MIN` and `b == -1`) -/
def checkedDiv (a b : Int) : Option Int :=
  if b = 0 ∨ (a = i64Min ∧ b = -1) then none else some (a.tdiv b)
/-- `i64::checked_abs`: `None` iff `a == MIN` -/
def checkedAbs (a : Int) : Option Int := if a = i64Min then none else some (a.natAbs : Int)
/-- `i64::wrapping_rem`: panics on `b == 0`, `MIN wrapping_rem -1 = 0` -/
def wrappingRem (a b : Int) : Res Int :=
  if b = 0 then .panic "attempt to calculate the remainder with a divisor of zero"
  else if a = i64Min ∧ b = -1 then .ok 0
  else .ok (a.tmod b)

/-- Integer path of a binary filter.  `ok (some r)`: integer result; `ok none`: the `Option` chain
is `None`, evaluation continues with `.or_else(float path)`. -/
def arithNew : MathOp → Int → Int → Res (Option Int)
  | .plus, a, b => .ok (checkedAdd a b)
  | .minus, a, b => .ok (checkedSub a b)
  | .times, a, b => .ok (checkedMul a b)
  | .dividedBy, a, b => .ok (checkedDiv a b)
  | .modulo, a, b => (wrappingRem a b).bind fun r => .ok (some r)
  | .atLeast, a, b => .ok (some (max a b))
  | .atMost, a, b => .ok (some (min a b))

def absNew (a : Int) : Res (Option Int) := .ok (checkedAbs a)

/-- The pinned commit: plain `i64` operators; with overflow-checks every overflow is a panic
(in a release build without them the value wraps; `MIN / -1` and `MIN % -1` panic in any build). -/
def arithOld : MathOp → Int → Int → Res (Option Int)
  | .plus, a, b => if inI64 (a + b) then .ok (some (a + b)) else .panic "attempt to add with overflow"
  | .minus, a, b => if inI64 (a - b) then .ok (some (a - b)) else .panic "attempt to subtract with overflow"
  | .times, a, b => if inI64 (a * b) then .ok (some (a * b)) else .panic "attempt to multiply with overflow"
  | .dividedBy, a, b =>
    if b = 0 then .panic "attempt to divide by zero"
    else if a = i64Min ∧ b = -1 then .panic "attempt to divide with overflow"
    else .ok (some (a.tdiv b))
  | .modulo, a, b =>
    if b = 0 then .panic "attempt to calculate the remainder with a divisor of zero"
    else if a = i64Min ∧ b = -1 then .panic "attempt to calculate the remainder with overflow"
    else .ok (some (a.tmod b))
  | .atLeast, a, b => .ok (some (max a b))
  | .atMost, a, b => .ok (some (min a b))

def absOld (a : Int) : Res (Option Int) :=
  if a = i64Min then .panic "attempt to negate with overflow" else .ok (some (a.natAbs : Int))

/-- which integer arithmetic the filters use -/
structure IntArith where
  bin : MathOp → Int → Int → Res (Option Int)
  abs : Int → Res (Option Int)

def IntArith.new : IntArith := { bin := arithNew, abs := absNew }
def IntArith.old : IntArith := { bin := arithOld, abs := absOld }

/-! ### the filters -/

def intV (i : Int) : V := .sc (.int i)
def fltV (bits : Nat) : V := .sc (.flt { bits := bits })

def MathOp.isDiv : MathOp → Bool
  | .dividedBy => true
  | .modulo => true
  | _ => false

/-- float path of a binary filter -/
def binFlt (ops : FloatOps) : MathOp → Nat → Nat → Nat
  | .plus, x, y => ops.add x y
  | .minus, x, y => ops.sub x y
  | .times, x, y => ops.mul x y
  | .dividedBy, x, y => ops.div x y
  | .modulo, x, y => ops.rem x y
  | .atLeast, x, y => fMax x y
  | .atMost, x, y => fMin x y

/-- the "Can't divide by zero" guard of `divided_by` / `modulo`: looks at the operand only, integer
reading first -/
def zeroGuard (y : Sc) : Bool :=
  match y.toInteger? with
  | some o => o == 0
  | none =>
    match y.toFloatBits? with
    | some o => fIsZero o
    | none => false

/-- `.or_else(|| input.to_float().and_then(|i| operand.to_float().map(..))).ok_or_else(..)` -/
def floatPath (ops : FloatOps) (op : MathOp) (x y : Sc) : Res V :=
  match x.toFloatBits?, y.toFloatBits? with
  | some fx, some fy => .ok (fltV (binFlt ops op fx fy))
  | _, _ => .err

/-- plus, minus, times, divided_by, modulo, at_least, at_most on scalars -/
def binScalars (ar : IntArith) (ops : FloatOps) (op : MathOp) (x y : Sc) : Res V :=
  if op.isDiv && zeroGuard y then .err else
  match x.toInteger?, y.toInteger? with
  | some a, some b =>
    match ar.bin op a b with
    | .ok (some r) => .ok (intV r)
    | .ok none => floatPath ops op x y
    | .panic s => .panic s
    | _ => .err
  | _, _ => floatPath ops op x y

/-- exactly one positional argument (else the filter is rejected when it is built); input and
operand must be scalars -/
def binFilter (ar : IntArith) (ops : FloatOps) (op : MathOp) (input : V) (args : List V) : Res V :=
  match args with
  | [arg] =>
    match input.asScalar?, arg.asScalar? with
    | some x, some y => binScalars ar ops op x y
    | _, _ => .err
  | _ => .err

def absScalar (ar : IntArith) (x : Sc) : Res V :=
  let fl : Res V := match x.toFloatBits? with
    | some f => .ok (fltV (fAbs f))
    | none => .err
  match x.toInteger? with
  | some a =>
    match ar.abs a with
    | .ok (some r) => .ok (intV r)
    | .ok none => fl
    | .panic s => .panic s
    | _ => .err
  | none => fl

def absFilter (ar : IntArith) (input : V) (args : List V) : Res V :=
  match args with
  | [] => (match input.asScalar? with | some x => absScalar ar x | none => .err)
  | _ => .err

/-- ceil / floor: a whole number (or a string spelling one) is returned as it is (after the `fix:`
commit; it used to go through `f64` like everything else); otherwise `to_float`, round, `as i64` -/
def toI64Filter (mode : Int → Int) (input : V) (args : List V) : Res V :=
  match args with
  | [] =>
    match input.asScalar? with
    | some x =>
      (match x.toInteger? with
       | some i => .ok (intV i)
       | none => (match x.toFloatBits? with | some f => .ok (intV (fToI64 mode f)) | none => .err))
    | none => .err
  | _ => .err

def i32Max : Int := 2147483647

/-- round: optional `decimal_places` must be an integer (`arg_type = "integer"`, evaluated before
the input is looked at); `n ≤ 0`: `round() as i64`; `n > 0`: `(x * 10^n).round() / 10^n` as a
float; `n > i32::MAX`: error. -/
def roundGo (ops : FloatOps) (input : V) (n : Int) : Res V :=
  match input.asScalar? with
  | some x =>
    if n ≤ 0 ∧ (x.toInteger?).isSome then .ok (intV ((x.toInteger?).getD 0)) else
    match x.toFloatBits? with
    | some f =>
      if n ≤ 0 then .ok (intV (fToI64 roundQ f))
      else if i32Max < n then .err
      else
        let m := ops.powi10 n.toNat
        .ok (fltV (ops.div (fRoundBits (ops.mul f m)) m))
    | none => .err
  | none => .err

def roundFilter (ops : FloatOps) (input : V) (args : List V) : Res V :=
  match args with
  | [] => roundGo ops input 0
  | [a] =>
    match a.asScalar? with
    | some s => (match s.toInteger? with | some n => roundGo ops input n | none => .err)
    | none => .err
  | _ => .err

/-- name ↦ filter, for a given integer arithmetic -/
def mathFiltersWith (ar : IntArith) (ops : FloatOps) (name : Str) : Option (V → List V → Res V) :=
  if name == "abs".toList then some (absFilter ar)
  else if name == "at_least".toList then some (binFilter ar ops .atLeast)
  else if name == "at_most".toList then some (binFilter ar ops .atMost)
  else if name == "plus".toList then some (binFilter ar ops .plus)
  else if name == "minus".toList then some (binFilter ar ops .minus)
  else if name == "times".toList then some (binFilter ar ops .times)
  else if name == "divided_by".toList then some (binFilter ar ops .dividedBy)
  else if name == "modulo".toList then some (binFilter ar ops .modulo)
  else if name == "round".toList then some (roundFilter ops)
  else if name == "ceil".toList then some (toI64Filter ceilQ)
  else if name == "floor".toList then some (toI64Filter floorQ)
  else none

/-- the eleven math filters (repaired code) -/
def mathFilters (ops : FloatOps) : Str → Option (V → List V → Res V) := mathFiltersWith .new ops

end Liquid
