/-
  The filter table the interpreter model is run with: the modelled stdlib filters of the math
  (`Model/Math.lean`), array (`Model/ArrFilters.lean`), html/url (`Model/Html.lean`, `Model/Url.lean`)
  and date (`Model/DateFmt.lean`) families, by name.  Float arithmetic (`ops`) and `to_lowercase`
  (`lower`) are parameters.  (The string filters of `Model/StrFilters.lean` take per-case Unicode
  tables and are exercised through their own ops.)
-/
import LiquidModel.Model.Math
import LiquidModel.Model.ArrFilters
import LiquidModel.Model.Html
import LiquidModel.Model.Url
import LiquidModel.Model.DateFmt
namespace Liquid

def stdFilters (ops : FloatOps) (lower : Str → Str) (name : Str) : Option (V → List V → Res V) :=
  match mathFilters ops name with
  | some f => some f
  | none =>
    match (if name == "slice".toList then none else Arr.filters lower name) with
    | some f => some f
    | none =>
      match String.ofList name with
      | "escape" => some (Html.escapeFilter false)
      | "escape_once" => some (Html.escapeFilter true)
      | "strip_html" => some Html.stripHtmlFilter
      | "url_encode" => some Url.urlEncodeFilter
      | "url_decode" => some Url.urlDecodeFilter
      | "date" => some (DateFmt.dateFilter true)
      | _ => none

end Liquid
