/-
  Model of `crates/lib/src/stdlib/filters/html.rs`: `escape`, `escape_once`, `strip_html`.

  * `escGo once skip s` is the `for (i, c) in s.char_indices()` loop of `fn escape` with its `skip`
    counter; the `last..i` slices it pushes are exactly the characters that were neither replaced
    nor consumed, so the model emits them as it goes (the slice bounds `last`, `i` are always char
    boundaries: `last = i + 1` is only set right after an ASCII character — no panic site; the
    `unreachable!()` arm is guarded by the outer match on the same five characters).
  * `strip_html` folds four `regex` replacements; each regex has the shape `(?is)OPEN.*?CLOSE`, whose
    leftmost-first match with a lazy star is: the first position where OPEN matches and CLOSE
    occurs somewhere behind it, extended to the *first* such CLOSE.  `stripGo` is `replace_all`
    for that shape, again as a scanner with a skip counter.  Case-insensitivity is Unicode simple
    case folding as `regex-syntax` implements it: for the ASCII letters used here the only
    non-ASCII equivalents are U+017F (ſ ~ s) and U+212A (K ~ k).
  Import-free (core only).
-/
import LiquidModel.Model.Find
namespace Liquid.Html
open Liquid

/-! ### escape / escape_once -/

def tailLt : Str := ['l', 't', ';']
def tailGt : Str := ['g', 't', ';']
def tail39 : Str := ['#', '3', '9', ';']
def tailQuot : Str := ['q', 'u', 'o', 't', ';']
def tailAmp : Str := ['a', 'm', 'p', ';']

/-- `nr_escaped`: the prefixes are tried in the code's order; the result is `prefix.len()`
(bytes = chars, all ASCII). -/
def nrEscaped (text : Str) : Nat :=
  if tailLt.isPrefixOf text then 3
  else if tailGt.isPrefixOf text then 3
  else if tail39.isPrefixOf text then 4
  else if tailQuot.isPrefixOf text then 5
  else if tailAmp.isPrefixOf text then 4
  else 0

def entLt : Str := '&' :: tailLt
def entGt : Str := '&' :: tailGt
def ent39 : Str := '&' :: tail39
def entQuot : Str := '&' :: tailQuot
def entAmp : Str := '&' :: tailAmp

/-- the loop of `fn escape(input, once_p)`; first argument = the `skip` counter -/
def escGo (once : Bool) : Nat → Str → Str
  | _, [] => []
  | k + 1, c :: r => c :: escGo once k r
  | 0, c :: r =>
    if c = '<' then entLt ++ escGo once 0 r
    else if c = '>' then entGt ++ escGo once 0 r
    else if c = '\'' then ent39 ++ escGo once 0 r
    else if c = '"' then entQuot ++ escGo once 0 r
    else if c = '&' then
      let k := if once then nrEscaped r else 0
      if k = 0 then entAmp ++ escGo once 0 r else '&' :: escGo once k r
    else c :: escGo once 0 r

def escape (s : Str) : Str := escGo false 0 s
def escapeOnce (s : Str) : Str := escGo true 0 s

/-- filter level: `nil ↦ nil`, anything else through `to_kstr`; no positional arguments. -/
def escapeFilter (once : Bool) (input : V) (args : List V) : Res V :=
  if !args.isEmpty then .err
  else if input.isNil then .ok .nil
  else .ok (.sc (.str (escGo once 0 input.render)))

/-! ### strip_html -/

def isAsciiLower (c : Char) : Bool := 97 ≤ c.toNat && c.toNat ≤ 122

/-- does text char `c` match pattern char `p` under `(?i)`?  (`p` is written in lower case) -/
def ciEq (p c : Char) : Bool :=
  c == p || (isAsciiLower p && c.toNat + 32 == p.toNat) ||
  (p == 's' && c.toNat == 0x17F) || (p == 'k' && c.toNat == 0x212A)

/-- the literal `pat` matches at the start of `text` (case-insensitively) -/
def ciPrefix : Str → Str → Bool
  | [], _ => true
  | _ :: _, [] => false
  | p :: ps, c :: cs => ciEq p c && ciPrefix ps cs

/-- index of the first position of `text` at which `cls` matches -/
def findCloser (cls : Str) : Str → Option Nat
  | [] => if ciPrefix cls [] then some 0 else none
  | c :: r =>
    if ciPrefix cls (c :: r) then some 0
    else match findCloser cls r with
      | some j => some (j + 1)
      | none => none

/-- length of the match of `(?is)opn.*?cls` anchored at the start of `text`, if there is one -/
def matchAt (opn cls : Str) (text : Str) : Option Nat :=
  if ciPrefix opn text then
    match findCloser cls (text.drop opn.length) with
    | some j => some (opn.length + j + cls.length)
    | none => none
  else none

/-- `Regex::replace_all(text, "")` for `(?is)opn.*?cls`; first argument = characters of the current
match still to be dropped -/
def stripGo (opn cls : Str) : Nat → Str → Str
  | _, [] => []
  | k + 1, _ :: r => stripGo opn cls k r
  | 0, c :: r =>
    match matchAt opn cls (c :: r) with
    | some n => stripGo opn cls (n - 1) r
    | none => c :: stripGo opn cls 0 r

def stripPass (opn cls : Str) (s : Str) : Str := stripGo opn cls 0 s

def scriptOpen : Str := ['<', 's', 'c', 'r', 'i', 'p', 't']
def scriptClose : Str := ['<', '/', 's', 'c', 'r', 'i', 'p', 't', '>']
def styleOpen : Str := ['<', 's', 't', 'y', 'l', 'e']
def styleClose : Str := ['<', '/', 's', 't', 'y', 'l', 'e', '>']
def commentOpen : Str := ['<', '!', '-', '-']
def commentClose : Str := ['-', '-', '>']
def tagOpen : Str := ['<']
def tagClose : Str := ['>']

/-- the last of the four passes: `(?is)<.*?>` -/
def stripTags (s : Str) : Str := stripPass tagOpen tagClose s

/-- `MATCHERS.iter().fold(input, |acc, m| m.replace_all(&acc, ""))` -/
def stripHtml (s : Str) : Str :=
  stripTags (stripPass commentOpen commentClose (stripPass styleOpen styleClose (stripPass scriptOpen scriptClose s)))

/-- filter level: no nil shortcut here (`nil.to_kstr()` is the empty string) -/
def stripHtmlFilter (input : V) (args : List V) : Res V :=
  if !args.isEmpty then .err
  else .ok (.sc (.str (stripHtml input.render)))

end Liquid.Html
