/-
  Proleptic Gregorian calendar from first principles — the *independent* calendar C17 asks for.
  Nothing here is transcribed from the `time` crate: years have 365 days plus a leap day when
  divisible by 4 and (not by 100 or by 400); months have their usual lengths; day 0 is Thursday
  1970-01-01.  `dayOfCivil` is the evident forward map (count the days of the preceding years and
  months), `civilOfDay` its inverse (estimate the year, correct by at most one, walk the months);
  the round-trip in both directions is proved in `Props/C17.lean`.  Week numbers and the ISO week
  date are defined from their textbook definitions (first Sunday / first Monday / week containing
  4 January), not from the closed formulas the crate uses.
  All quantities are `Int` (floor division: `Int./` with a positive divisor) so that `omega`
  decides everything.  Import-free apart from the value model.
-/
import LiquidModel.Model.Value
namespace Liquid.Cal

/-- Gregorian leap-year rule (astronomical year numbering: year 0 = 1 BC is a leap year). -/
def isLeap (y : Int) : Bool := decide (y % 4 = 0 ∧ (y % 100 ≠ 0 ∨ y % 400 = 0))

def yearLen (y : Int) : Int := if isLeap y then 366 else 365

/-- Number of leap years among the years `1 .. y-1` (negative for `y ≤ 0`: floor division). -/
def leapsBefore (y : Int) : Int := (y - 1) / 4 - (y - 1) / 100 + (y - 1) / 400

/-- Days from 1970-01-01 to 1 January of year `y`: 365 per year plus one per leap year in between
(`leapsBefore 1970 = 477`). -/
def daysBeforeYear (y : Int) : Int := 365 * (y - 1970) + (leapsBefore y - 477)

def monthLen (y m : Int) : Int :=
  if m = 2 then (if isLeap y then 29 else 28)
  else if m = 4 ∨ m = 6 ∨ m = 9 ∨ m = 11 then 30
  else 31

/-- Days of the year before the first of month `m` (`m = 13`: the whole year). -/
def daysBeforeMonth (leap : Bool) (m : Int) : Int :=
  let l : Int := if leap then 1 else 0
  if m ≤ 1 then 0
  else if m = 2 then 31
  else if m = 3 then 59 + l
  else if m = 4 then 90 + l
  else if m = 5 then 120 + l
  else if m = 6 then 151 + l
  else if m = 7 then 181 + l
  else if m = 8 then 212 + l
  else if m = 9 then 243 + l
  else if m = 10 then 273 + l
  else if m = 11 then 304 + l
  else if m = 12 then 334 + l
  else 365 + l

/-- A calendar date that exists. -/
def validCivil (y m d : Int) : Prop := 1 ≤ m ∧ m ≤ 12 ∧ 1 ≤ d ∧ d ≤ monthLen y m

/-- civil date ↦ days since 1970-01-01 -/
def dayOfCivil (y m d : Int) : Int := daysBeforeYear y + daysBeforeMonth (isLeap y) m + (d - 1)

/-- The year containing day `n`: estimate from the mean year length (365.2425 days =
146097/400), then correct by at most one in either direction. -/
def yearOfDay (n : Int) : Int :=
  let y0 := 400 * (n + 719162) / 146097 + 1
  if daysBeforeYear (y0 + 1) ≤ n then y0 + 1
  else if n < daysBeforeYear y0 then y0 - 1
  else y0

/-- month of the 0-based day-of-year `o` -/
def monthOfOrd (leap : Bool) (o : Int) : Int :=
  if o < daysBeforeMonth leap 2 then 1
  else if o < daysBeforeMonth leap 3 then 2
  else if o < daysBeforeMonth leap 4 then 3
  else if o < daysBeforeMonth leap 5 then 4
  else if o < daysBeforeMonth leap 6 then 5
  else if o < daysBeforeMonth leap 7 then 6
  else if o < daysBeforeMonth leap 8 then 7
  else if o < daysBeforeMonth leap 9 then 8
  else if o < daysBeforeMonth leap 10 then 9
  else if o < daysBeforeMonth leap 11 then 10
  else if o < daysBeforeMonth leap 12 then 11
  else 12

def yearOf (n : Int) : Int := yearOfDay n
/-- 1-based day of the year (`%j`) -/
def ordinalOf (n : Int) : Int := n - daysBeforeYear (yearOfDay n) + 1
def monthOf (n : Int) : Int := monthOfOrd (isLeap (yearOfDay n)) (ordinalOf n - 1)
def dayOf (n : Int) : Int := ordinalOf n - daysBeforeMonth (isLeap (yearOfDay n)) (monthOf n)

/-- days since 1970-01-01 ↦ (year, month, day) -/
def civilOfDay (n : Int) : Int × Int × Int := (yearOf n, monthOf n, dayOf n)

/-! ### weekday -/

/-- Monday = 0 … Sunday = 6; day 0 (1970-01-01) is a Thursday. -/
def wdFromMonday (n : Int) : Int := (n + 3) % 7
/-- Sunday = 0 … Saturday = 6 (`%w`) -/
def wdFromSunday (n : Int) : Int := (n + 4) % 7
/-- Monday = 1 … Sunday = 7 (`%u`) -/
def wdIso (n : Int) : Int := wdFromMonday n + 1

/-! ### week of the year (`%U`, `%W`): week 1 starts at the first Sunday / Monday of the year,
the days before it are week 0 -/

/-- ordinal (1..7) of the first day of the year of `n` whose Monday-based weekday is `w` -/
def firstWeekdayOrd (n w : Int) : Int :=
  let jan1 := daysBeforeYear (yearOfDay n)
  (w - wdFromMonday jan1) % 7 + 1

def weekFrom (n w : Int) : Int :=
  let f := firstWeekdayOrd n w
  let o := ordinalOf n
  if o < f then 0 else (o - f) / 7 + 1

def sundayWeek (n : Int) : Int := weekFrom n 6
def mondayWeek (n : Int) : Int := weekFrom n 0

/-! ### ISO 8601 week date: weeks run Monday..Sunday, week 1 of ISO year `Y` is the week that
contains 4 January of `Y` -/

/-- the Monday that starts week 1 of ISO year `y` -/
def isoWeek1Start (y : Int) : Int :=
  let jan4 := daysBeforeYear y + 3
  jan4 - wdFromMonday jan4

def isoYear (n : Int) : Int :=
  let y := yearOfDay n
  if isoWeek1Start (y + 1) ≤ n then y + 1
  else if isoWeek1Start y ≤ n then y
  else y - 1

def isoWeek (n : Int) : Int := (n - isoWeek1Start (isoYear n)) / 7 + 1

/-! ### clock fields and UTC offsets of a `DT` (local nanoseconds since the epoch + offset) -/

def nsPerSec : Int := 1000000000

def localDay (d : DT) : Int := d.loc / nsPerDay
def nsOfDay (d : DT) : Int := d.loc % nsPerDay
def hour (d : DT) : Int := nsOfDay d / (3600 * nsPerSec)
def minute (d : DT) : Int := nsOfDay d / (60 * nsPerSec) % 60
def second (d : DT) : Int := nsOfDay d / nsPerSec % 60
def nanos (d : DT) : Int := nsOfDay d % nsPerSec
/-- `unix_timestamp()`: whole seconds of the instant, rounded down -/
def unixSeconds (d : DT) : Int := d.loc / nsPerSec - d.off

def year (d : DT) : Int := yearOf (localDay d)
def month (d : DT) : Int := monthOf (localDay d)
def day (d : DT) : Int := dayOf (localDay d)

/-- `UtcOffset::{whole_hours, minutes_past_hour, seconds_past_minute}` truncate toward zero. -/
def offHours (off : Int) : Int := off.tdiv 3600
def offMinutes (off : Int) : Int := (off.tdiv 60).tmod 60
def offSeconds (off : Int) : Int := off.tmod 60

/-- `OffsetDateTime::to_offset`: same instant, other local clock. -/
def toOffset (d : DT) (off : Int) : DT :=
  { loc := d.loc - d.off * nsPerSec + off * nsPerSec, off := off, disp := [] }

/-- build a `DT` from calendar fields (used by the parser model) -/
def mkDT (y m d h mi s ns off : Int) : DT :=
  { loc := dayOfCivil y m d * nsPerDay + ((h * 3600 + mi * 60 + s) * nsPerSec + ns), off := off, disp := [] }

end Liquid.Cal
