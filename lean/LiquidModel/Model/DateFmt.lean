/-
  Default `Display` and the accepted parse syntaxes of `DateTime` / `Date`
  (`crates/core/src/model/scalar/datetime.rs`: `DATE_TIME_FORMAT`, `DATE_TIME_FORMAT_SUBSEC`,
  `Display`, `parse_date_time`; `date.rs`: `DATE_FORMAT`, `parse_date`), and the `date` /
  `date_in_tz` filters (`crates/lib/src/stdlib/filters/date.rs`, `crates/lib/src/extra/date.rs`).

  The `time` crate's format-description formatter / parser is external: what is modelled is the
  *syntax it accepts and prints* for the eight format descriptions liquid uses
  (`[year]` = optional sign + exactly 4 digits, two-digit zero padded fields, `[subsecond]` = one
  or more digits / printed without trailing zeros, `[offset_hour sign:mandatory]`, English month
  and weekday names, `[day padding:none]` = 1–2 digits, `[unix_timestamp]` = optional sign + 1–14
  digits), greedy, no backtracking, whole input consumed, components range-checked, the weekday
  of the `dow_mon` syntax not cross-checked against the date.
-/
import LiquidModel.Model.Strftime
namespace Liquid.DateFmt
open Liquid Liquid.Cal Liquid.Strf

/-! ### printing -/

/-- `[year]` (no `large-dates`): `-` for negative years, 4 zero-padded digits -/
def fmtYear (y : Int) : Str := (if y < 0 then ['-'] else []) ++ padLeft 4 '0' (natDigits y.natAbs)

def stripTrailingZeros (s : Str) : Str := (s.reverse.dropWhile (· == '0')).reverse

/-- `[subsecond]` (`digits:one_or_more`) for a non-zero nanosecond: the 9 digits without trailing zeros -/
def fmtSubsec (ns : Int) : Str := stripTrailingZeros (pad9 ns)

/-- `[offset_hour sign:mandatory][offset_minute]` -/
def fmtOffsetHM (off : Int) : Str :=
  (if off < 0 then '-' else '+') :: (pad2 (offHours off) ++ pad2 (offMinutes off))

def fmtDate (n : Int) : Str := fmtYear (yearOf n) ++ ['-'] ++ pad2 (monthOf n) ++ ['-'] ++ pad2 (dayOf n)

/-- `impl Display for DateTime` -/
def displayDT (d : DT) : Str :=
  fmtDate (localDay d) ++ [' '] ++ pad2 (hour d) ++ [':'] ++ pad2 (minute d) ++ [':'] ++ pad2 (second d) ++
  (if nanos d = 0 then [] else '.' :: fmtSubsec (nanos d)) ++ [' '] ++ fmtOffsetHM d.off

/-- `impl Display for Date` -/
def displayDate (days : Int) : Str := fmtDate days

/-! ### parsing: tiny combinators over `Str` -/

abbrev Pz (α : Type) := Str → Option (α × Str)

def digitVal (c : Char) : Nat := c.toNat - 48

/-- exactly `n` ASCII digits -/
def digitsN : Nat → Nat → Pz Nat
  | 0, acc, s => some (acc, s)
  | n + 1, acc, c :: s => if c.isDigit then digitsN n (10 * acc + digitVal c) s else none
  | _ + 1, _, [] => none

/-- up to `m` further ASCII digits (greedy) -/
def digitsUpTo : Nat → Nat → Pz Nat
  | 0, acc, s => some (acc, s)
  | m + 1, acc, c :: s => if c.isDigit then digitsUpTo m (10 * acc + digitVal c) s else some (acc, c :: s)
  | _ + 1, acc, [] => some (acc, [])

/-- between 1 and `m` digits -/
def digits1To (m : Nat) : Pz Nat := fun s =>
  match s with
  | c :: r => if c.isDigit then digitsUpTo (m - 1) (digitVal c) r else none
  | [] => none

def lit (l : Str) : Pz Unit := fun s => if l.isPrefixOf s then some ((), s.drop l.length) else none

def optSign : Pz (Option Bool) := fun s =>    -- `some true` = minus
  match s with
  | '-' :: r => some (some true, r)
  | '+' :: r => some (some false, r)
  | _ => some (none, s)

/-- first table entry that is a prefix (case sensitive) -/
def firstMatch : List (Str × Int) → Pz Int
  | [], _ => none
  | (k, v) :: r, s => if k.isPrefixOf s then some (v, s.drop k.length) else firstMatch r s

def monthLong : List (Str × Int) := monthNames.zipIdx.map fun (n, i) => (n, (i : Int) + 1)
def monthShort : List (Str × Int) := monthNames.zipIdx.map fun (n, i) => (n.take 3, (i : Int) + 1)
def weekdayShort : List (Str × Int) := weekdayNames.zipIdx.map fun (n, i) => (n.take 3, (i : Int))

/-- what a format description collects -/
structure Parsed where
  year : Int := 0
  month : Int := 0
  day : Int := 0
  hour : Int := 0
  minute : Int := 0
  second : Int := 0
  nano : Int := 0
  offNeg : Bool := false
  offHour : Int := 0
  offMin : Int := 0
  deriving Repr, Inhabited

/-- `[year]`: optional sign, exactly four digits -/
def pYear : Pz Int := fun s =>
  match optSign s with
  | some (sg, r) =>
    match digitsN 4 0 r with
    | some (v, r') => some (if sg = some true then -(v : Int) else (v : Int), r')
    | none => none
  | none => none

def p2 : Pz Int := fun s => (digitsN 2 0 s).map fun (v, r) => ((v : Int), r)

/-- `[subsecond]` one-or-more: every following digit is consumed, the first nine count -/
def subsecGo : Nat → Int → Int → Str → (Int × Str)
  | 0, v, _, s => (v, s)
  | f + 1, v, mult, c :: s => if c.isDigit then subsecGo f (v + digitVal c * mult) (mult / 10) s else (v, c :: s)
  | _ + 1, v, _, [] => (v, [])
def pSubsec : Pz Int := fun s =>
  match s with
  | c :: r => if c.isDigit then some (subsecGo r.length (digitVal c * 100000000) 10000000 r) else none
  | [] => none

/-- `[offset_hour sign:mandatory][offset_minute]` -/
def pOffset (pr : Parsed) : Pz Parsed := fun s =>
  match optSign s with
  | some (some neg, r) =>
    match p2 r with
    | some (h, r1) =>
      match p2 r1 with
      | some (m, r2) => some ({ pr with offNeg := neg, offHour := h, offMin := m }, r2)
      | none => none
    | none => none
  | _ => none

/-- `[hour]:[minute]:[second]` -/
def pHMS (pr : Parsed) : Pz Parsed := fun s =>
  match p2 s with
  | some (h, r) =>
    match lit [':'] r with
    | some (_, r) =>
      match p2 r with
      | some (mi, r) =>
        match lit [':'] r with
        | some (_, r) =>
          match p2 r with
          | some (sec, r) => some ({ pr with hour := h, minute := mi, second := sec }, r)
          | none => none
        | none => none
      | none => none
    | none => none
  | none => none

def bindP {α β} (p : Pz α) (f : α → Pz β) : Pz β := fun s =>
  match p s with
  | some (a, r) => f a r
  | none => none

def sp : Pz Unit := lit [' ']

/-- `[year]-[month]-[day]` -/
def pYMD (pr : Parsed) : Pz Parsed :=
  bindP pYear fun y => bindP (lit ['-']) fun _ => bindP p2 fun m => bindP (lit ['-']) fun _ => bindP p2 fun d =>
  fun s => some ({ pr with year := y, month := m, day := d }, s)

/-- the six `USER_FORMATS` of `parse_date_time`, in order -/
def fmtDefault (subsec : Bool) : Pz Parsed :=
  bindP (pYMD {}) fun pr => bindP sp fun _ => bindP (pHMS pr) fun pr =>
  (if subsec then bindP (lit ['.']) fun _ => bindP pSubsec fun ns => bindP sp fun _ => pOffset { pr with nano := ns }
   else bindP sp fun _ => pOffset pr)

def fmtDayMonth (tbl : List (Str × Int)) : Pz Parsed :=
  bindP p2 fun d => bindP sp fun _ => bindP (firstMatch tbl) fun m => bindP sp fun _ => bindP pYear fun y =>
  bindP sp fun _ => bindP (pHMS { year := y, month := m, day := d }) fun pr => bindP sp fun _ => pOffset pr

def fmtMDY : Pz Parsed :=
  bindP p2 fun m => bindP (lit ['/']) fun _ => bindP p2 fun d => bindP (lit ['/']) fun _ => bindP pYear fun y =>
  bindP sp fun _ => bindP (pHMS { year := y, month := m, day := d }) fun pr => bindP sp fun _ => pOffset pr

def fmtDowMon : Pz Parsed :=
  bindP (firstMatch weekdayShort) fun _ => bindP sp fun _ => bindP (firstMatch monthShort) fun m => bindP sp fun _ =>
  bindP (digits1To 2) fun d => bindP sp fun _ => bindP (pHMS { month := m, day := (d : Int) }) fun pr => bindP sp fun _ =>
  bindP pYear fun y => bindP sp fun _ => pOffset { pr with year := y }

def userFormats : List (Pz Parsed) :=
  [fmtDefault false, fmtDefault true, fmtDayMonth monthLong, fmtDayMonth monthShort, fmtMDY, fmtDowMon]

/-- range checks of `Parsed::set_*` and of `Date/Time/UtcOffset::try_from(Parsed)` -/
def Parsed.build (p : Parsed) : Option DT :=
  if 1 ≤ p.month ∧ p.month ≤ 12 ∧ 1 ≤ p.day ∧ p.day ≤ monthLen p.year p.month ∧
     p.hour ≤ 23 ∧ p.minute ≤ 59 ∧ p.second ≤ 59 ∧ p.offHour ≤ 23 ∧ p.offMin ≤ 59 then
    let o := p.offHour * 3600 + p.offMin * 60
    some (mkDT p.year p.month p.day p.hour p.minute p.second p.nano (if p.offNeg then -o else o))
  else none

/-- `OffsetDateTime::parse(s, f)`: the whole input must be consumed -/
def parseWith (f : Pz Parsed) (s : Str) : Option DT :=
  match f s with
  | some (pr, []) => pr.build
  | _ => none

/-- regex `[+-][01][0-9]{3}$` -/
def hasOffsetSuffix (s : Str) : Bool :=
  match s.drop (s.length - 5) with
  | [sg, a, b, c, d] => (sg == '+' || sg == '-') && (a == '0' || a == '1') && b.isDigit && c.isDigit && d.isDigit
  | _ => false

/-- `str::parse::<i64>().is_ok()` -/
def isI64 (s : Str) : Bool :=
  match optSign s with
  | some (sg, r) =>
    !r.isEmpty && r.all Char.isDigit &&
      (let v := decVal r
       if sg = some true then decide (v ≤ 2 ^ 63) else decide (v < 2 ^ 63))
  | none => false

def lowerChar (c : Char) : Char := if 'A' ≤ c ∧ c ≤ 'Z' then Char.ofNat (c.toNat + 32) else c
def trimWs (s : Str) : Str := ((s.dropWhile isUniWs).reverse.dropWhile isUniWs).reverse

/-- first and last representable seconds (years -9999 ..= 9999) -/
def minUnix : Int := daysBeforeYear (-9999) * 86400
def maxUnix : Int := daysBeforeYear 10000 * 86400 - 1

/-- `[unix_timestamp]`: optional sign, 1–14 digits, nothing after them -/
def parseUnix (s : Str) : Option DT :=
  match optSign s with
  | some (sg, r) =>
    match digits1To 14 r with
    | some (v, []) =>
      let t : Int := if sg = some true then -(v : Int) else (v : Int)
      if minUnix ≤ t ∧ t ≤ maxUnix then some { loc := t * nsPerSec, off := 0, disp := [] } else none
    | _ => none
  | none => none

inductive ParseRes where
  | none
  | now                 -- `now` / `today`: the wall clock, never generated, not modelled further
  | some (d : DT)
  deriving Repr, Inhabited

def firstSome (s : Str) : List (Pz Parsed) → Option DT
  | [] => none
  | f :: r => match parseWith f s with
    | some d => some d
    | none => firstSome s r

/-- `parse_date_time` (= `DateTime::from_str`) -/
def parseDT (s : Str) : ParseRes :=
  if s.isEmpty then .none
  else
    let t := trimWs (s.map lowerChar)
    if t = "now".toList ∨ t = "today".toList then .now
    else if isI64 s then (match parseUnix s with | some d => .some d | none => .none)
    else
      let s' := if hasOffsetSuffix s then s else s ++ " +0000".toList
      match firstSome s' userFormats with
      | some d => .some d
      | none => .none

/-- `parse_date`: `[day] [month repr:long] [year]`, `[day] [month repr:short] [year]`, `[year]-[month]-[day]` -/
def parseDate (s : Str) : Option (Option Int) :=    -- `none` = today
  if s = "today".toList then none
  else
    let dmy (tbl : List (Str × Int)) : Pz Parsed :=
      bindP p2 fun d => bindP sp fun _ => bindP (firstMatch tbl) fun m => bindP sp fun _ => bindP pYear fun y =>
      fun r => some ({ year := y, month := m, day := d }, r)
    let tryF (f : Pz Parsed) : Option Int :=
      match f s with
      | some (pr, []) =>
        if 1 ≤ pr.month ∧ pr.month ≤ 12 ∧ 1 ≤ pr.day ∧ pr.day ≤ monthLen pr.year pr.month
        then some (dayOfCivil pr.year pr.month pr.day) else none
      | _ => none
    some ((tryF (dmy monthLong)).orElse fun _ => (tryF (dmy monthShort)).orElse fun _ => tryF (pYMD {}))

/-! ### the filters -/

/-- `to_date_time` of the filter input: `none` = not a date (the filter echoes its input) -/
def toDateTime (v : V) : Option ParseRes :=
  match v with
  | .sc (.dt d) => some (.some d)
  | .sc (.str s) => some (parseDT s)
  | _ => none

/-- `arg_type = "str"` parameter -/
def strArg (v : V) : Option Str := some v.render   -- a `str` parameter is `to_kstr()` of any value

/-- `date: fmt` (stdlib) -/
def dateFilter (fixed : Bool) (input : V) (args : List V) : Res V :=
  match args with
  | [a] =>
    match strArg a with
    | none => .err
    | some fmt =>
      match toDateTime input with
      | some (.some d) =>
        if fmt.isEmpty then .ok input
        else (match strftimeG fixed d fmt with
          | .ok s => .ok (.sc (.str s))
          | .panic p => .panic p
          | _ => .err)
      | some .now => .fuel          -- wall clock: outside the model
      | _ => .ok input
  | _ => .err

/-- `x as i32` -/
def wrapI32 (x : Int) : Int :=
  let m := x % 4294967296
  if m ≥ 2147483648 then m - 4294967296 else m
def inI32 (x : Int) : Bool := decide (-2147483648 ≤ x ∧ x ≤ 2147483647)

/-- the local year is one the `time` crate can represent (no `large-dates`) -/
def inYearRange (d : DT) : Bool := decide (-9999 ≤ year d ∧ year d ≤ 9999)

/-- `date_in_tz: fmt, hours` (extra).  At the pinned commit (`fixed = false`):
`UtcOffset::from_whole_seconds(args.timezone as i32 * 3600)` — the cast wraps, the multiplication
overflows (panic with overflow checks) — and `DateTime::with_offset` = `to_offset`, which panics
when the shifted local date leaves the years -9999..=9999.  Repaired (D18): both are errors. -/
def dateInTz (fixed : Bool) (input : V) (args : List V) : Res V :=
  match args with
  | [a, .sc (.int tz)] =>
    match strArg a with
    | none => .err
    | some fmt =>
      match toDateTime input with
      | some (.some d) =>
        let h : Int := if fixed then tz else wrapI32 tz
        let secs := h * 3600
        if !(inI32 h && inI32 secs) then (if fixed then .err else .panic "extra/date.rs: `timezone as i32 * 3600` overflows")
        else if secs < -93599 ∨ secs > 93599 then .err
        else
          let d' := toOffset d secs
          if !inYearRange d' then (if fixed then .err else .panic "time: to_offset: local datetime out of valid range")
          else (match strftimeG fixed d' fmt with
            | .ok s => .ok (.sc (.str s))
            | .panic p => .panic p
            | _ => .err)
      | some .now => .fuel
      | _ => .err
  | _ => .err

end Liquid.DateFmt
