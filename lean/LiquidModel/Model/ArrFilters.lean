/-
  Array filters of liquid-lib: `crates/lib/src/stdlib/filters/array.rs` (join, sort, sort_natural,
  where, uniq, reverse, map, compact, concat, first, last), `filters/slice.rs` (slice) and the
  `size` filter of `filters/mod.rs`, transcribed branch by branch.

  * `Vec::sort_by(c)` is modelled as core's stable `List.mergeSort` over `fun a b => c a b ≠ Greater`.
    For a comparator that is a consistent total preorder on the elements of the array, *every*
    stable sort returns the same list (`C14_stable_unique`), so this is the behaviour of `std`'s
    sort there; for an inconsistent comparator `std` only promises a permutation (and, at the
    pinned commit, may panic — defect D8) and the correspondence consults the spec only.
  * The comparator modelled here is the REPAIRED one (`patches/C14-sort-total-preorder.diff`):
    values of different kinds are ordered by `kindRank` instead of being declared `Equal`.
    `nilSafeCompareOld` is the comparator of the pinned commit.
  * Filter arguments: `arg_type = "str"` parameters are `to_kstr` of the argument (`V.render`),
    `"integer"` parameters are `as_scalar().and_then(to_integer)` or an error; a missing required
    argument or a surplus positional argument is an error (raised when the filter is built).
  Import-free (core only): the driver links as a `lean_exe`.
-/
import LiquidModel.Model.Find
namespace Liquid.Arr
open Liquid

/-! ### helpers -/

def isObj : V → Bool | .obj _ => true | _ => false
def asObj? : V → Option Obj | .obj kvs => some kvs | _ => none

/-- `as_sequence`: an array is its elements, nil is empty, anything else a singleton. -/
def asSequence : V → List V
  | .arr xs => xs
  | .nil => []
  | v => [v]

/-- `safe_property_getter`: `value.as_object().and_then(|o| o.get(p)).unwrap_or(&Nil)` -/
def propOf (p : Str) (v : V) : V :=
  match v with
  | .obj kvs => (objGet kvs p).getD .nil
  | _ => .nil

/-- `x as usize` for an `isize` -/
def toUsize (i : Int) : Nat := if i < 0 then 2^64 - i.natAbs else i.toNat

/-- `itertools::join` -/
def joinStr (sep : Str) : List Str → Str
  | [] => []
  | [s] => s
  | s :: r => s ++ sep ++ joinStr sep r

/-! ### comparators -/

/-- Comparator of the pinned commit: every incomparable pair is later mapped to `Equal`. -/
def nilSafeCompareOld (a b : V) : Option Ordering :=
  if a.isNil && b.isNil then some .eq
  else if a.isNil then some .gt
  else if b.isNil then some .lt
  else valueCmp a b

def isNanFV : FV → Bool
  | .nan => true
  | _ => false

/-- `kind_rank` (repair): numbers, NaN, booleans, dates, strings, arrays, objects, the rest. -/
def kindRank : V → Nat
  | .sc (.int _) => 0
  | .sc (.flt f) => if isNanFV f.toFV then 1 else 0
  | .sc (.bool _) => 2
  | .sc (.dt _) => 3
  | .sc (.date _) => 3
  | .sc (.str _) => 4
  | .arr _ => 5
  | .obj _ => 6
  | .st _ => 7
  | .nil => 7

/-- `nil_safe_compare` (repaired): nil after everything, different kinds by rank, same kind by
`partial_cmp`. -/
def nilSafeCompare (a b : V) : Option Ordering :=
  if a.isNil && b.isNil then some .eq
  else if a.isNil then some .gt
  else if b.isNil then some .lt
  else if kindRank a < kindRank b then some .lt
  else if kindRank b < kindRank a then some .gt
  else valueCmp a b

/-- the closure handed to `sort_by`: `nil_safe_compare(a, b).unwrap_or(Equal)` -/
def sortCmp (a b : V) : Ordering := (nilSafeCompare a b).getD .eq
def sortCmpOld (a b : V) : Ordering := (nilSafeCompareOld a b).getD .eq

/-- "not greater" under the sort comparator -/
def sortLe (a b : V) : Bool := sortCmp a b != .gt
def sortLeOld (a b : V) : Bool := sortCmpOld a b != .gt

/-- `nil_safe_casecmp_key`; `lower` is `str::to_lowercase` (Unicode table = parameter). -/
def casecmpKey (lower : Str → Str) (v : V) : Option Str :=
  if v.isNil then none else some (lower v.render)

/-- `nil_safe_casecmp` -/
def casecmp : Option Str → Option Str → Option Ordering
  | none, none => some .eq
  | none, _ => some .gt
  | _, none => some .lt
  | some a, some b => some (strCmp a b)

def casecmpLe (a b : Option Str) : Bool := (casecmp a b).getD .eq != .gt

/-! ### the sorts -/

/-- `sorted.sort_by(|a, b| c(key(a), key(b)))` -/
def sortByKey (key : V → V) (xs : List V) : List V :=
  xs.mergeSort (fun a b => sortLe (key a) (key b))

def sortByKeyOld (key : V → V) (xs : List V) : List V :=
  xs.mergeSort (fun a b => sortLeOld (key a) (key b))

/-- `sort_natural`: decorate with the case-folded key, stable sort on the keys, undecorate. -/
def sortNaturalBy (lower : Str → Str) (key : V → V) (xs : List V) : List V :=
  ((xs.map fun v => (casecmpKey lower (key v), v)).mergeSort
    (fun a b => casecmpLe a.1 b.1)).map (·.2)

/-- `SortFilter::evaluate` -/
def sortFilter (input : V) (args : List V) : Res V :=
  let xs := asSequence input
  match args with
  | [] => .ok (.arr (sortByKey id xs))
  | [p] =>
    if !xs.all isObj then .err
    else .ok (.arr (sortByKey (propOf p.render) xs))
  | _ => .err

/-- `SortFilter::evaluate` at the pinned commit, where the comparator is consistent. -/
def sortFilterOld (input : V) (args : List V) : Res V :=
  let xs := asSequence input
  match args with
  | [] => .ok (.arr (sortByKeyOld id xs))
  | [p] =>
    if !xs.all isObj then .err
    else .ok (.arr (sortByKeyOld (propOf p.render) xs))
  | _ => .err

/-- `SortNaturalFilter::evaluate` -/
def sortNaturalFilter (lower : Str → Str) (input : V) (args : List V) : Res V :=
  let xs := asSequence input
  match args with
  | [] => .ok (.arr (sortNaturalBy lower id xs))
  | [p] =>
    if !xs.all isObj then .err
    else .ok (.arr (sortNaturalBy lower (propOf p.render) xs))
  | _ => .err

/-! ### uniq -/

/-- the loop of `UniqFilter`: `seen` is `deduped` so far; the result lists the elements pushed. -/
def uniqFrom (seen : List V) : List V → List V
  | [] => []
  | x :: r =>
    if seen.any (fun v => valueEq v x) then uniqFrom seen r
    else x :: uniqFrom (seen ++ [x]) r

def uniq (xs : List V) : List V := uniqFrom [] xs

def uniqFilter (input : V) (args : List V) : Res V :=
  match args, input with
  | [], .arr xs => .ok (.arr (uniq xs))
  | _, _ => .err

/-! ### reverse, map, compact, concat, where -/

def reverseFilter (input : V) (args : List V) : Res V :=
  match args, input with
  | [], .arr xs => .ok (.arr xs.reverse)
  | _, _ => .err

/-- `v.as_object().and_then(|o| o.get(p))` -/
def propGet? (p : Str) (v : V) : Option V :=
  match v with
  | .obj kvs => objGet kvs p
  | _ => none

def mapFilter (input : V) (args : List V) : Res V :=
  match args, input with
  | [p], .arr xs => .ok (.arr (xs.filterMap (propGet? p.render)))
  | _, _ => .err

def compactFilter (input : V) (args : List V) : Res V :=
  match args, input with
  | [], .arr xs => .ok (.arr (xs.filter fun v => !v.isNil))
  | [p], .arr xs =>
    if !xs.all isObj then .err
    else .ok (.arr (xs.filter fun v => !(((propGet? p.render v).map V.isNil).getD true)))
  | _, _ => .err

def concatFilter (input : V) (args : List V) : Res V :=
  match args, input with
  | [.arr ys], .arr xs => .ok (.arr (xs ++ ys))
  | _, _ => .err

/-- the predicate of `WhereFilter` on one object -/
def whereKeep (p : Str) (target : Option V) (o : Obj) : Bool :=
  match objGet o p with
  | none => false
  | some v =>
    match target with
    | none => v.queryState .truthy
    | some t => valueEq t v

def whereFilter (input : V) (args : List V) : Res V :=
  match args with
  | [] => .err
  | p :: rest =>
    match rest with
    | _ :: _ :: _ => .err
    | _ =>
      let go : Res V :=
        .ok (.arr (((asSequence input).filterMap asObj?).filter (whereKeep p.render rest.head?) |>.map V.obj))
      match input with
      | .arr xs => if !xs.all isObj then .ok .nil else go
      | .obj _ => go
      | _ => .err

/-! ### first, last, size, join, slice -/

def firstFilter (input : V) (args : List V) : Res V :=
  match args, input with
  | [], .sc s => .ok (.sc (.str (s.render.take 1)))
  | [], .arr xs => .ok (xs.head?.getD .nil)
  | _, _ => .err

def lastFilter (input : V) (args : List V) : Res V :=
  match args, input with
  | [], .sc s => .ok (.sc (.str (match s.render.getLast? with | some c => [c] | none => [])))
  | [], .arr xs => .ok (xs.getLast?.getD .nil)
  | _, _ => .err

def sizeFilter (input : V) (args : List V) : Res V :=
  match args with
  | [] =>
    match input with
    | .sc s => .ok (.sc (.int s.render.length))
    | .arr xs => .ok (.sc (.int xs.length))
    | .obj kvs => .ok (.sc (.int kvs.length))
    | _ => .ok (.sc (.int 0))
  | _ => .err

def joinFilter (input : V) (args : List V) : Res V :=
  let go (sep : Str) : Res V :=
    match input with
    | .arr xs => .ok (.sc (.str (joinStr sep (xs.map V.render))))
    | _ => .err
  match args with
  | [] => go [' ']
  | [s] => go s.render
  | _ => .err

/-- `canonicalize_slice` (after the `fix:` commit the addition saturates; before it, the `isize`
addition `slice_offset + slice_length` panicked when it left the `i64` range, D9 — the branch is
kept and proved dead for in-range lengths by `saturating_add`: `min (o2 + len) MAX > vl` iff
`o2 + len > vl` because `vl ≤ MAX`). -/
def canonSlice (off len : Int) (n : Nat) : Res (Nat × Nat) :=
  let vl : Int := n
  let o1 := if off ≤ vl then off else vl
  let o2 := if o1 < 0 then o1 + vl else o1
  let l2 := if o2 + len > vl then vl - o2 else len
  .ok (toUsize o2, toUsize l2)

/-- an `"integer"` filter parameter -/
def intArg (v : V) : Option Int :=
  match v with
  | .sc s => s.toInteger?
  | _ => none

def sliceFilter (input : V) (args : List V) : Res V :=
  let go (off len : Int) : Res V :=
    if len < 1 then .err
    else match input with
      | .arr xs => do
        let (o, l) ← canonSlice off len xs.length
        pure (.arr ((xs.drop o).take l))
      | v => do
        let s := v.render
        let (o, l) ← canonSlice off len s.length
        pure (.sc (.str ((s.drop o).take l)))
  match args with
  | [o] => match intArg o with
    | some off => go off 1
    | none => .err
  | [o, l] => match intArg o, intArg l with
    | some off, some len => go off len
    | _, _ => .err
  | _ => .err

/-- name ↦ model (used by the driver and by the template interpreter's filter table). -/
def filters (lower : Str → Str) (name : Str) : Option (V → List V → Res V) :=
  match String.ofList name with
  | "sort" => some sortFilter
  | "sort_natural" => some (sortNaturalFilter lower)
  | "uniq" => some uniqFilter
  | "reverse" => some reverseFilter
  | "map" => some mapFilter
  | "compact" => some compactFilter
  | "concat" => some concatFilter
  | "where" => some whereFilter
  | "first" => some firstFilter
  | "last" => some lastFilter
  | "size" => some sizeFilter
  | "join" => some joinFilter
  | "slice" => some sliceFilter
  | _ => none

end Liquid.Arr
