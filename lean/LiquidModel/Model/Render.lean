/-
  The render interpreter: `runtime/template.rs`, `parser/{text,filter_chain}.rs` and every stdlib
  tag and block's `render_to`, over the frame stack of `Find.lean`.
  Recursion is on a nesting-fuel argument (block nesting + partial depth); `Res.fuel` is the explicit
  out-of-fuel outcome, so no theorem silently depends on a default.
-/
import LiquidModel.Model.Ast
namespace Liquid

/-- The output sink: accepted fragments (one per successful non-empty `write!` site) and how many
further writes the sink accepts (`none` = never fails). -/
structure W where
  out : List Str := []
  budget : Option Nat := none
  deriving Repr, Inhabited

/-- One `write!(writer, …).replace("Failed to render")?` site.  An empty fragment makes no `write`
call at all (`write_all` on an empty buffer), so it can neither fail nor consume budget. -/
def W.write (w : W) (s : Str) : Option W :=
  if s.isEmpty then some w else
  match w.budget with
  | none => some { w with out := w.out ++ [s] }
  | some 0 => none
  | some (n + 1) => some { out := w.out ++ [s], budget := some n }

def W.text (w : W) : Str := w.out.flatten

structure Env where
  /-- partial store as seen by `get`: absent name ⇒ error, `none` ⇒ stored parse error. -/
  partials : List (Str × Option Tmpl) := []
  /-- positional-argument filters. -/
  filters : Str → Option (V → List V → Res V) := fun _ => none

abbrev RR := Res Unit × Rt × W

def toUsize (i : Int) : Nat := if i < 0 then (2^64 - i.natAbs) else i.toNat

/-- `iter_array` exactly as coded (`min`, `min`, `drain`, `resize`, `reverse`).  `resize` pads with
nil when asked for more than what is left; C05_window proves that branch dead. -/
def iterWindow (xs : List V) (limit : Option Nat) (offset : Nat) : List V :=
  let len := xs.length
  let offset := min offset len
  let limit := match limit with
    | some l => min l (len - offset)
    | none => len - offset
  let r := xs.drop offset                       -- range.drain(0..offset)
  if limit ≤ r.length then r.take limit          -- range.resize(limit, Nil)
  else r ++ List.replicate (limit - r.length) V.nil

def iterArray (xs : List V) (limit : Option Nat) (offset : Nat) (reversed : Bool) : List V :=
  let r := iterWindow xs limit offset
  if reversed then r.reverse else r

/-- `iter_array` as it was at the pinned commit (limit clamped by the *original* length): kept
only to state the counterexample that motivated the `fix:` commit. -/
def iterArrayOld (xs : List V) (limit : Option Nat) (offset : Nat) (reversed : Bool) : List V :=
  let len := xs.length
  let offset := min offset len
  let limit := match limit with
    | some l => min l len
    | none => len - offset
  let r := xs.drop offset
  let r := if limit ≤ r.length then r.take limit else r ++ List.replicate (limit - r.length) V.nil
  if reversed then r.reverse else r

def getArray (v : V) : Res (List V) :=
  match v with
  | .arr xs => .ok xs
  | .obj kvs => .ok (kvs.map fun (k, w) => V.arr [.sc (.str k), w])
  | .st _ => .ok []
  | .nil => .ok []
  | _ => .err

def intArg (st : Stack) (e : Expr) : Res Int := do
  let v ← e.eval st
  match v with
  | .sc s => (match s.toInteger? with | some i => pure i | none => .err)
  | _ => .err

def rangeInts (a b : Int) : List V :=
  if a ≤ b then (List.range (b - a + 1).toNat).map (fun (k : Nat) => V.sc (.int (a + (k : Int)))) else []

def RangeE.eval (st : Stack) : RangeE → Res (List V)
  | .arr e => do let v ← e.eval st; getArray v
  | .counted a b => do
      let x ← intArg st a
      let y ← intArg st b
      pure (rangeInts x y)

def evalAttr (st : Stack) : Option Expr → Res (Option Nat)
  | none => .ok none
  | some e => do
      let v ← e.eval st
      match v with
      | .sc s => (match s.toInteger? with | some i => pure (some (toUsize i)) | none => .err)
      | _ => .err

def bV (b : Bool) : V := .sc (.bool b)
def iV (i : Int) : V := .sc (.int i)

/-- `ForloopObject::new(i, len).parentloop(p)` as the object the derive exposes. -/
def forloopObj (i len : Nat) (parent : V) : V :=
  let i : Int := i; let len : Int := len
  .obj [("length".toList, iV len), ("parentloop".toList, parent), ("index0".toList, iV i),
        ("index".toList, iV (i + 1)), ("rindex0".toList, iV (len - i - 1)), ("rindex".toList, iV (len - i)),
        ("first".toList, bV (i == 0)), ("last".toList, bV (i == len - 1))]

/-- `TableRowObject::new(i, len, col, cols)`; `colsI` is `cols as i64`. -/
def tablerowObj (i len col : Nat) (colsI : Int) : V :=
  let i : Int := i; let len : Int := len; let col : Int := col
  let last := i == len - 1
  .obj [("length".toList, iV len), ("index0".toList, iV i), ("index".toList, iV (i + 1)),
        ("rindex0".toList, iV (len - i - 1)), ("rindex".toList, iV (len - i)),
        ("first".toList, bV (i == 0)), ("last".toList, bV last),
        ("col0".toList, iV col), ("col".toList, iV (col + 1)),
        ("col_first".toList, bV (col == 0)), ("col_last".toList, bV (col == colsI - 1 || last))]

def usizeAsI64 (n : Nat) : Int := if n < 2^63 then n else (n : Int) - 2^64

/-- `CycleRegister::cycle_index` + bounds check. `none` = the `% 0` panic. -/
def cycleStep (cycles : List (Str × Nat)) (name : Str) (max : Nat) : Option (Nat × List (Str × Nat)) :=
  if max == 0 then none else
  let i := ((cycles.find? (·.1 == name)).map (·.2)).getD 0
  let i' := (i + 1) % max
  let rec upd : List (Str × Nat) → List (Str × Nat)
    | [] => [(name, i')]
    | (k, v) :: r => if k == name then (k, i') :: r else (k, v) :: upd r
  some (i, upd cycles)

def evalArgs (st : Stack) : List Expr → Res (List V)
  | [] => .ok []
  | e :: r => do let v ← e.eval st; let vs ← evalArgs st r; pure (v :: vs)

/-- `FilterChain::evaluate`. An unknown filter cannot occur in a parsed template. -/
def evalChain (env : Env) (st : Stack) (e : Expr) (fs : List FCall) : Res V := do
  let v ← e.eval st
  fs.foldlM (init := v) fun acc f => do
    let args ← evalArgs st f.args
    match env.filters f.name with
    | some fn => fn acc args
    | none => .err

/-- pass-through variables of include/render (`try_evaluate` or "failed to evaluate value"). -/
def evalVars (st : Stack) : List (Str × Expr) → Obj → Res Obj
  | [], acc => .ok acc
  | (k, e) :: r, acc =>
    match e.tryEval st with
    | some v => evalVars st r (objInsert acc k v)
    | none => .err

/-- `CaseOption::evaluate`: some `when` value equals the target (`v == target`, in that order). -/
def anyEqArgs (st : Stack) (value : V) : List Expr → Res Bool
  | [] => .ok false
  | a :: as => match a.eval st with
    | .ok v => if valueEq v value then .ok true else anyEqArgs st value as
    | .err => .err | .io => .io | .panic s => .panic s | .fuel => .fuel

/-- the first `when` arm that matches, if any -/
def casePick (st : Stack) (value : V) : List (List Expr × List Node) → Res (Option (List Node))
  | [] => .ok none
  | (args, body) :: r =>
    match anyEqArgs st value args with
    | .ok true => .ok (some body)
    | .ok false => casePick st value r
    | .err => .err | .io => .io | .panic s => .panic s | .fuel => .fuel

def Rt.setLayers (rt : Rt) (ls : Stack) : Rt := { rt with layers := ls }
def Rt.pop (rt : Rt) : Rt := { rt with layers := rt.layers.tail }
def Rt.push (rt : Rt) (l : Layer) : Rt := { rt with layers := l :: rt.layers }

def Rt.setInterrupt (rt : Rt) (i : Option Intr) : Rt := rt.setRegs { rt.regs with interrupt := i }

def writeR (rt : Rt) (w : W) (s : Str) : RR :=
  match w.write s with
  | some w' => (.ok (), rt, w')
  | none => (.io, rt, w)

def lookupPartial (env : Env) (name : Str) : Res Tmpl :=
  match env.partials.find? (·.1 == name) with
  | some (_, some t) => .ok t
  | some (_, none) => .err
  | none => .err

/-- iterate a loop body over the selected items (`for`, `render … for`); `step` renders the body
for element `v` at position `i` in a runtime that already has the iteration's frame(s) pushed and
returns the runtime with them still in place. `npop` frames are dropped afterwards. -/
def loopItems (step : V → Nat → Rt → W → RR) (npop : Nat) : List V → Nat → Rt → W → RR
  | [], _, rt, w => (.ok (), rt, w)
  | v :: r, i, rt, w =>
    match step v i rt w with
    | (.ok (), rt', w') =>
      let intr := rt'.regs.interrupt
      let rt'' := rt'.setInterrupt none
      let rt'' := { rt'' with layers := rt''.layers.drop npop }
      if intr == some .brk then (.ok (), rt'', w') else loopItems step npop r (i + 1) rt'' w'
    | (o, rt', w') => (o, rt', w')

def tableItems (step : V → Nat → Rt → W → RR) : List V → Nat → Rt → W → RR
  | [], _, rt, w => (.ok (), rt, w)
  | v :: r, i, rt, w =>
    match step v i rt w with
    | (.ok (), rt', w') => tableItems step r (i + 1) rt' w'
    | (o, rt', w') => (o, rt', w')

/-- `Template::render_to`: render the elements in order, stop at the first error, and stop (with
`Ok`) as soon as an interrupt is pending. `f` renders one element. -/
def renderList (f : Node → Rt → W → RR) : Tmpl → Rt → W → RR
  | [], rt, w => (.ok (), rt, w)
  | n :: r, rt, w =>
    match f n rt w with
    | (.ok (), rt', w') =>
      if rt'.regs.interrupt.isSome then (.ok (), rt', w') else renderList f r rt' w'
    | o => o

def renderN (fuel : Nat) (env : Env) (n : Node) (rt : Rt) (w : W) : RR :=
  match fuel with
  | 0 => (.fuel, rt, w)
  | fuel + 1 =>
  match n with
  | .text s => writeR rt w s
  | .raw s => writeR rt w s
  | .comment => (.ok (), rt, w)
  | .output e fs =>
    match evalChain env rt.layers e fs with
    | .ok v => writeR rt w v.render
    | .err => (.err, rt, w) | .io => (.io, rt, w) | .panic s => (.panic s, rt, w) | .fuel => (.fuel, rt, w)
  | .assign x e fs =>
    match evalChain env rt.layers e fs with
    | .ok v => (match rt.layers.setGlobal x v with
        | .ok ls => (.ok (), rt.setLayers ls, w)
        | .panic s => (.panic s, rt, w)
        | _ => (.err, rt, w))
    | .err => (.err, rt, w) | .io => (.io, rt, w) | .panic s => (.panic s, rt, w) | .fuel => (.fuel, rt, w)
  | .capture x body =>
    match renderList (renderN fuel env) body rt {} with
    | (.ok (), rt', cw) =>
      (match rt'.layers.setGlobal x (.sc (.str cw.text)) with
        | .ok ls => (.ok (), rt'.setLayers ls, w)
        | .panic s => (.panic s, rt', w)
        | _ => (.err, rt', w))
    | (o, rt', _) => (o, rt', w)
  | .incr x =>
    let val : Int := match rt.layers.getIndex x with
      | some (.sc s) => (s.toInteger?).getD 0
      | _ => 0
    (match w.write (intRepr val) with
     | none => (.io, rt, w)
     | some w' =>
       if !inI64 (val + 1) then (.panic "increment: add overflow", rt, w') else
       match rt.layers.setIndex x (iV (val + 1)) with
       | .ok ls => (.ok (), rt.setLayers ls, w')
       | .panic s => (.panic s, rt, w')
       | _ => (.err, rt, w'))
  | .decr x =>
    let val : Int := match rt.layers.getIndex x with
      | some (.sc s) => (s.toInteger?).getD 0
      | _ => 0
    if !inI64 (val - 1) then (.panic "decrement: sub overflow", rt, w) else
    (match w.write (intRepr (val - 1)) with
     | none => (.io, rt, w)
     | some w' =>
       match rt.layers.setIndex x (iV (val - 1)) with
       | .ok ls => (.ok (), rt.setLayers ls, w')
       | .panic s => (.panic s, rt, w')
       | _ => (.err, rt, w'))
  | .brk => (.ok (), rt.setInterrupt (some .brk), w)
  | .cont => (.ok (), rt.setInterrupt (some .cont), w)
  | .cycle name vals =>
    let regs := rt.regs
    (match cycleStep regs.cycles name vals.length with
     | none => (.panic "cycle: remainder by zero", rt, w)
     | some (j, cycles') =>
       let rt := rt.setRegs { regs with cycles := cycles' }
       match vals[j]? with
       | none => (.err, rt, w)
       | some e =>
         match e.eval rt.layers with
         | .ok v => writeR rt w v.render
         | .err => (.err, rt, w) | .io => (.io, rt, w) | .panic s => (.panic s, rt, w) | .fuel => (.fuel, rt, w))
  | .cond c mode thn els =>
    (match c.eval rt.layers with
     | .ok b =>
       if b == mode then renderList (renderN fuel env) thn rt w
       else (match els with
         | some t => renderList (renderN fuel env) t rt w
         | none => (.ok (), rt, w))
     | .err => (.err, rt, w) | .io => (.io, rt, w) | .panic s => (.panic s, rt, w) | .fuel => (.fuel, rt, w))
  | .case_ target arms els =>
    (match target.eval rt.layers with
     | .ok value =>
       (match casePick rt.layers value arms with
        | .ok (some body) => renderList (renderN fuel env) body rt w
        | .ok none => (match els with
            | some t => renderList (renderN fuel env) t rt w
            | none => (.ok (), rt, w))
        | .err => (.err, rt, w) | .io => (.io, rt, w) | .panic s => (.panic s, rt, w) | .fuel => (.fuel, rt, w))
     | .err => (.err, rt, w) | .io => (.io, rt, w) | .panic s => (.panic s, rt, w) | .fuel => (.fuel, rt, w))
  | .for_ x rng limit offset rev body els =>
    let st := rt.layers
    let sel : Res (List V) := do
      let arr ← rng.eval st
      let lim ← evalAttr st limit
      let off ← evalAttr st offset
      pure (iterArray arr lim (off.getD 0) rev)
    (match sel with
     | .ok [] => (match els with
         | some t => renderList (renderN fuel env) t rt w
         | none => (.ok (), rt, w))
     | .ok items =>
       let parent := (st.tryGet [.str "forloop".toList]).getD .nil
       let len := items.length
       loopItems (fun v i rt w =>
           let root := objInsert (objInsert [] "forloop".toList (forloopObj i len parent)) x v
           renderList (renderN fuel env) body (rt.push (.plain root)) w) 1 items 0 rt w
     | .err => (.err, rt, w) | .io => (.io, rt, w) | .panic s => (.panic s, rt, w) | .fuel => (.fuel, rt, w))
  | .tablerow x rng cols limit offset body =>
    let st := rt.layers
    let sel : Res (List V × Option Nat) := do
      let arr ← rng.eval st
      let c ← evalAttr st cols
      let lim ← evalAttr st limit
      let off ← evalAttr st offset
      pure (iterArray arr lim (off.getD 0) false, c)
    (match sel with
     | .ok (items, c) =>
       let len := items.length
       let cols := c.getD len
       tableItems (fun v i rt w =>
           if cols == 0 then (.panic "tablerow: remainder by zero", rt, w) else
           let col := i % cols
           let row := i / cols
           let colsI := usizeAsI64 cols
           if !inI64 (colsI - 1) then (.panic "tablerow: cols - 1 overflow", rt, w) else
           let tr := tablerowObj i len col colsI
           let colFirst := col == 0
           let colLast := ((col : Int) == colsI - 1) || ((i : Int) == (len : Int) - 1)
           let root := objInsert (objInsert [] "tablerow".toList tr) x v
           let w1 : Option W := if colFirst then w.write ("<tr class=\"row".toList ++ natDigits (row + 1) ++ "\">".toList) else some w
           match w1 with
           | none => (.io, rt, w)
           | some w1 =>
           match w1.write ("<td class=\"col".toList ++ natDigits (col + 1) ++ "\">".toList) with
           | none => (.io, rt, w1)
           | some w2 =>
           match renderList (renderN fuel env) body (rt.push (.plain root)) w2 with
           | (.ok (), rt', w3) =>
             let rt' := rt'.pop
             (match w3.write "</td>".toList with
              | none => (.io, rt', w3)
              | some w4 =>
                if colLast then (match w4.write "</tr>".toList with
                  | none => (.io, rt', w4)
                  | some w5 => (.ok (), rt', w5))
                else (.ok (), rt', w4))
           | (o, rt', w3) => (o, rt'.pop, w3)) items 0 rt w
     | .err => (.err, rt, w) | .io => (.io, rt, w) | .panic s => (.panic s, rt, w) | .fuel => (.fuel, rt, w))
  | .ifchanged body =>
    (match renderList (renderN fuel env) body rt {} with
     | (.ok (), rt', cw) =>
       let rendered := cw.text
       let regs := rt'.regs
       let changed := match regs.lastChanged with
         | some l => l != rendered
         | none => true
       let rt'' := rt'.setRegs { regs with lastChanged := some rendered }
       if changed then writeR rt'' w rendered else (.ok (), rt'', w)
     | (o, rt', _) => (o, rt', w))
  | .include_ name args =>
    let st := rt.layers
    (match name.eval st with
     | .ok (.sc s) =>
       let pname := s.render
       (match evalVars st args [] with
        | .ok pass =>
          (match lookupPartial env pname with
           | .ok t =>
             (match renderList (renderN fuel env) t (rt.push (.plain pass)) w with
              | (o, rt', w') => (o, rt'.pop, w'))
           | _ => (.err, rt, w))
        | .panic s => (.panic s, rt, w)
        | _ => (.err, rt, w))
     | .ok _ => (.err, rt, w)
     | .err => (.err, rt, w) | .io => (.io, rt, w) | .panic s => (.panic s, rt, w) | .fuel => (.fuel, rt, w))
  | .render_ name form args =>
    let st := rt.layers
    (match name.eval st with
     | .ok (.sc s) =>
       let pname := s.render
       let getPartial : Res Tmpl := match lookupPartial env pname with
         | .ok t => .ok t
         | _ => lookupPartial env (pname ++ ".liquid".toList)
       (match form with
        | .for_ rng as_ =>
          (match rng.eval st with
           | .ok items =>
             let len := items.length
             loopItems (fun v i rt w =>
                 match evalVars rt.layers args [] with
                 | .ok root0 =>
                   let root := objInsert (objInsert root0 "forloop".toList (forloopObj i len .nil)) as_ v
                   let rt1 := (rt.push (.sandbox root {})).push (.global [])
                   (match getPartial with
                    | .ok t => renderList (renderN fuel env) t rt1 w
                    | _ => (.err, rt1, w))
                 | .panic s => (.panic s, (rt.push (.sandbox [] {})).push (.global []), w)
                 | _ => (.err, (rt.push (.sandbox [] {})).push (.global []), w)) 2 items 0 rt w
           | .err => (.err, rt, w) | .io => (.io, rt, w) | .panic s => (.panic s, rt, w) | .fuel => (.fuel, rt, w))
        | _ =>
          let vars : List (Str × Expr) := match form with
            | .with_ e as_ => (as_, e) :: args
            | _ => args
          (match evalVars st vars [] with
           | .ok root =>
             (match getPartial with
              | .ok t =>
                (match renderList (renderN fuel env) t ((rt.push (.sandbox root {})).push (.global [])) w with
                 | (o, rt', w') => (o, rt'.pop.pop, w'))
              | _ => (.err, rt, w))
           | .panic s => (.panic s, rt, w)
           | _ => (.err, rt, w)))
     | .ok _ => (.err, rt, w)
     | .err => (.err, rt, w) | .io => (.io, rt, w) | .panic s => (.panic s, rt, w) | .fuel => (.fuel, rt, w))

def renderT (fuel : Nat) (env : Env) (t : Tmpl) (rt : Rt) (w : W) : RR :=
  renderList (renderN fuel env) t rt w

/-- `liquid::Template::render` on caller data `globals`: fresh runtime, never-failing buffer. -/
def renderTop (fuel : Nat) (env : Env) (t : Tmpl) (globals : Obj) : Res Str :=
  match renderT fuel env t (Rt.build globals) {} with
  | (.ok (), _, w) => .ok w.text
  | (.err, _, _) => .err
  | (.io, _, _) => .io
  | (.panic s, _, _) => .panic s
  | (.fuel, _, _) => .fuel

end Liquid
