/-
  The render interpreter: `runtime/template.rs`, `parser/{text,filter_chain}.rs` and every stdlib
  tag and block's `render_to`, over the frame stack of `Find.lean`.
  Recursion is on a nesting-fuel argument (block nesting + partial depth); `Res.fuel` is the explicit
  out-of-fuel outcome, so no theorem silently depends on a default.
-/
import LiquidModel.Model.Ast
set_option linter.unusedVariables false
namespace Liquid

/-- The output sink: accepted fragments (one per successful non-empty `write!` site) and how many
further writes the sink accepts (`none` = never fails). -/
structure W where
  out : List Str := []
  budget : Option Nat := none
  deriving Repr, Inhabited

/-- One `write!(writer, …).replace("Failed to render")?` site.  An empty fragment makes no `write`
call at all (`write_all` on an empty buffer), so it can neither fail nor consume budget. -/
def W.write (w : W) (s : Str) : Option W :=
  if s.isEmpty then some w else
  match w.budget with
  | none => some { w with out := w.out ++ [s] }
  | some 0 => none
  | some (n + 1) => some { out := w.out ++ [s], budget := some n }

def W.text (w : W) : Str := w.out.flatten

structure Env where
  /-- the partial store's `get`: the compiled partial, or an error (unknown name / parse error). -/
  lookup : Str → Res Tmpl := fun _ => .err
  /-- positional-argument filters. -/
  filters : Str → Option (V → List V → Res V) := fun _ => none

/-- a store given as a table: absent name ⇒ error, `none` ⇒ stored parse error -/
def Env.ofList (ps : List (Str × Option Tmpl)) (filters : Str → Option (V → List V → Res V) := fun _ => none) : Env :=
  { lookup := fun name => match ps.find? (·.1 == name) with
      | some (_, some t) => .ok t
      | _ => .err,
    filters := filters }

def toUsize (i : Int) : Nat := if i < 0 then (2^64 - i.natAbs) else i.toNat

/-- `iter_array` exactly as coded (`min`, `min`, `drain`, `resize`, `reverse`).  `resize` pads with
nil when asked for more than what is left; C05_window proves that branch dead. -/
def iterWindow (xs : List V) (limit : Option Nat) (offset : Nat) : List V :=
  let len := xs.length
  let offset := min offset len
  let limit := match limit with
    | some l => min l (len - offset)
    | none => len - offset
  let r := xs.drop offset                       -- range.drain(0..offset)
  if limit ≤ r.length then r.take limit          -- range.resize(limit, Nil)
  else r ++ List.replicate (limit - r.length) V.nil

def iterArray (xs : List V) (limit : Option Nat) (offset : Nat) (reversed : Bool) : List V :=
  let r := iterWindow xs limit offset
  if reversed then r.reverse else r

/-- `iter_array` as it was at the pinned commit (limit clamped by the *original* length): kept
only to state the counterexample that motivated the `fix:` commit. -/
def iterArrayOld (xs : List V) (limit : Option Nat) (offset : Nat) (reversed : Bool) : List V :=
  let len := xs.length
  let offset := min offset len
  let limit := match limit with
    | some l => min l len
    | none => len - offset
  let r := xs.drop offset
  let r := if limit ≤ r.length then r.take limit else r ++ List.replicate (limit - r.length) V.nil
  if reversed then r.reverse else r

def getArray (v : V) : Res (List V) :=
  match v with
  | .arr xs => .ok xs
  | .obj kvs => .ok (kvs.map fun (k, w) => V.arr [.sc (.str k), w])
  | .st _ => .ok []
  | .nil => .ok []
  | _ => .err

def intArg (st : Stack) (e : Expr) : Res Int := do
  let v ← e.eval st
  match v with
  | .sc s => (match s.toInteger? with | some i => pure i | none => .err)
  | _ => .err

def rangeInts (a b : Int) : List V :=
  if a ≤ b then (List.range (b - a + 1).toNat).map (fun (k : Nat) => V.sc (.int (a + (k : Int)))) else []

def RangeE.eval (st : Stack) : RangeE → Res (List V)
  | .arr e => do let v ← e.eval st; getArray v
  | .counted a b => do
      let x ← intArg st a
      let y ← intArg st b
      pure (rangeInts x y)

def evalAttr (st : Stack) : Option Expr → Res (Option Nat)
  | none => .ok none
  | some e => do
      let v ← e.eval st
      match v with
      | .sc s => (match s.toInteger? with | some i => pure (some (toUsize i)) | none => .err)
      | _ => .err

def bV (b : Bool) : V := .sc (.bool b)
def iV (i : Int) : V := .sc (.int i)

/-- `ForloopObject::new(i, len).parentloop(p)` as the object the derive exposes. -/
def forloopObj (i len : Nat) (parent : V) : V :=
  let i : Int := i; let len : Int := len
  .obj [("length".toList, iV len), ("parentloop".toList, parent), ("index0".toList, iV i),
        ("index".toList, iV (i + 1)), ("rindex0".toList, iV (len - i - 1)), ("rindex".toList, iV (len - i)),
        ("first".toList, bV (i == 0)), ("last".toList, bV (i == len - 1))]

/-- `TableRowObject::new(i, len, col, cols)`; `colsI` is `cols as i64`. -/
def tablerowObj (i len col : Nat) (colsI : Int) : V :=
  let i : Int := i; let len : Int := len; let col : Int := col
  let last := i == len - 1
  .obj [("length".toList, iV len), ("index0".toList, iV i), ("index".toList, iV (i + 1)),
        ("rindex0".toList, iV (len - i - 1)), ("rindex".toList, iV (len - i)),
        ("first".toList, bV (i == 0)), ("last".toList, bV last),
        ("col0".toList, iV col), ("col".toList, iV (col + 1)),
        ("col_first".toList, bV (col == 0)), ("col_last".toList, bV (col + 1 == colsI || last))]

def usizeAsI64 (n : Nat) : Int := if n < 2^63 then n else (n : Int) - 2^64

/-- `CycleRegister::cycle_index` + bounds check. `none` = the `% 0` panic. -/
def cycleStep (cycles : List (Str × Nat)) (name : Str) (max : Nat) : Option (Nat × List (Str × Nat)) :=
  if max == 0 then none else
  let i := ((cycles.find? (·.1 == name)).map (·.2)).getD 0
  let i' := (i + 1) % max
  let rec upd : List (Str × Nat) → List (Str × Nat)
    | [] => [(name, i')]
    | (k, v) :: r => if k == name then (k, i') :: r else (k, v) :: upd r
  some (i, upd cycles)

def evalArgs (st : Stack) : List Expr → Res (List V)
  | [] => .ok []
  | e :: r => do let v ← e.eval st; let vs ← evalArgs st r; pure (v :: vs)

/-- `FilterChain::evaluate`. An unknown filter cannot occur in a parsed template. -/
def evalChain (env : Env) (st : Stack) (e : Expr) (fs : List FCall) : Res V := do
  let v ← e.eval st
  fs.foldlM (init := v) fun acc f => do
    let args ← evalArgs st f.args
    match env.filters f.name with
    | some fn => fn acc args
    | none => .err

/-- pass-through variables of include/render (`try_evaluate` or "failed to evaluate value"). -/
def evalVars (st : Stack) : List (Str × Expr) → Obj → Res Obj
  | [], acc => .ok acc
  | (k, e) :: r, acc =>
    match e.tryEval st with
    | some v => evalVars st r (objInsert acc k v)
    | none => .err

/-- `CaseOption::evaluate`: some `when` value equals the target (`v == target`, in that order). -/
def anyEqArgs (st : Stack) (value : V) : List Expr → Res Bool
  | [] => .ok false
  | a :: as => match a.eval st with
    | .ok v => if valueEq v value then .ok true else anyEqArgs st value as
    | .err => .err | .io => .io | .panic s => .panic s | .fuel => .fuel

/-- the first `when` arm that matches, if any -/
def casePick (st : Stack) (value : V) : List (List Expr × List Node) → Res (Option (List Node))
  | [] => .ok none
  | (args, body) :: r =>
    match anyEqArgs st value args with
    | .ok true => .ok (some body)
    | .ok false => casePick st value r
    | .err => .err | .io => .io | .panic s => .panic s | .fuel => .fuel

def Rt.setLayers (rt : Rt) (ls : Stack) : Rt := { rt with layers := ls }
def Rt.pop (rt : Rt) : Rt := { rt with layers := rt.layers.tail }
def Rt.push (rt : Rt) (l : Layer) : Rt := { rt with layers := l :: rt.layers }

def Rt.setInterrupt (rt : Rt) (i : Option Intr) : Rt := rt.setRegs { rt.regs with interrupt := i }

/-! ### the render monad

Everything a `render_to` can do is: read/modify the runtime, write to the sink, fail.  `M` makes
that explicit; the interpreter below is written with these primitives only, so that global facts
(output is only ever appended, a failing sink yields a prefix, frames are balanced, …) are proved
once per primitive and lifted through `bind`. -/

def M (α : Type) : Type := Rt → W → Res α × Rt × W

namespace M

@[inline] def pure {α} (a : α) : M α := fun rt w => (.ok a, rt, w)

@[inline] def bind {α β} (m : M α) (f : α → M β) : M β := fun rt w =>
  match m rt w with
  | (.ok a, rt', w') => f a rt' w'
  | (.err, rt', w') => (.err, rt', w')
  | (.io, rt', w') => (.io, rt', w')
  | (.panic s, rt', w') => (.panic s, rt', w')
  | (.fuel, rt', w') => (.fuel, rt', w')

instance : Monad M where
  pure := M.pure
  bind := M.bind

/-- a pure fallible computation (expression evaluation, lookups) -/
def lift {α} (r : Res α) : M α := fun rt w => (r, rt, w)

/-- one `write!` site -/
def emit (s : Str) : M Unit := fun rt w =>
  match w.write s with
  | some w' => (.ok (), rt, w')
  | none => (.io, rt, w)

def getSt : M Stack := fun rt w => (.ok rt.layers, rt, w)
def getRegs : M Regs := fun rt w => (.ok rt.regs, rt, w)
def setLayers (ls : Stack) : M Unit := fun rt w => (.ok (), { rt with layers := ls }, w)
def setRegs (g : Regs) : M Unit := fun rt w => (.ok (), rt.setRegs g, w)

def castErr {α β} : Res α → Res β
  | .ok _ => .err   -- not used on `ok`
  | .err => .err | .io => .io | .panic s => .panic s | .fuel => .fuel

/-- run `m` against a private, never-failing in-memory buffer (`capture`, `ifchanged`) and return
what it wrote; the outer sink is not touched. -/
def capture (m : M Unit) : M Str := fun rt w =>
  match m rt {} with
  | (.ok (), rt', cw) => (.ok cw.text, rt', w)
  | (o, rt', _) => (castErr o, rt', w)

/-- run `m` inside the frames `ls` (head = innermost) pushed over the current runtime; the frames
are dropped again afterwards, whatever the outcome (Rust: the `StackFrame` goes out of scope). -/
def inFrames {α} (ls : List Layer) (m : M α) : M α := fun rt w =>
  match m { rt with layers := ls ++ rt.layers } w with
  | (r, rt', w') => (r, { rt' with layers := rt'.layers.drop ls.length }, w')

end M

/-- `runtime.set_global(name, value)` -/
def setGlobalM (x : Str) (v : V) : M Unit := do
  let st ← M.getSt
  let ls ← M.lift (st.setGlobal x v)
  M.setLayers ls

def setIndexM (x : Str) (v : V) : M Unit := do
  let st ← M.getSt
  let ls ← M.lift (st.setIndex x v)
  M.setLayers ls

def setInterruptM (i : Option Intr) : M Unit := do
  let g ← M.getRegs
  M.setRegs { g with interrupt := i }

/-- `registers().get_mut::<InterruptRegister>().reset()` -/
def takeInterruptM : M (Option Intr) := do
  let g ← M.getRegs
  M.setRegs { g with interrupt := none }
  pure g.interrupt

def lookupPartial (env : Env) (name : Str) : Res Tmpl := env.lookup name

/-- the loop of `For::render_to` / `Render::render_to` (for form): `step v i` renders the body for
element `v` at position `i` inside its own frames and returns the interrupt it consumed; a
`break` ends the loop, anything else goes on with the next element. -/
def loopItems (step : V → Nat → M (Option Intr)) : List V → Nat → M Unit
  | [], _ => pure ()
  | v :: r, i => do
    let intr ← step v i
    if intr == some .brk then pure () else loopItems step r (i + 1)

def tableItems (step : V → Nat → M Unit) : List V → Nat → M Unit
  | [], _ => pure ()
  | v :: r, i => do
    step v i
    tableItems step r (i + 1)

/-- `Template::render_to`: render the elements in order, stop at the first error, and stop (with
`Ok`) as soon as an interrupt is pending. `f` renders one element. -/
def renderList (f : Node → M Unit) : Tmpl → M Unit
  | [] => pure ()
  | n :: r => do
    f n
    let g ← M.getRegs
    if g.interrupt.isSome then pure () else renderList f r

/-- `render` looks a partial up by `name`, then by `name.liquid` -/
def lookupPartialR (env : Env) (pname : Str) : Res Tmpl :=
  match lookupPartial env pname with
  | .ok t => .ok t
  | _ => lookupPartial env (pname ++ ".liquid".toList)

/-- the variables a `render` tag passes: `with e as x` is one more `x: e` in front -/
def RForm.vars (form : RForm) (args : List (Str × Expr)) : List (Str × Expr) :=
  match form with
  | .with_ e as_ => (as_, e) :: args
  | _ => args

/-- one iteration of `For::render_to`: the body runs inside a frame binding `forloop` and the
loop variable; the interrupt it leaves is consumed here. -/
def forStep (x : Str) (len : Nat) (parent : V) (body : M Unit) (v : V) (i : Nat) : M (Option Intr) :=
  let root := objInsert (objInsert [] "forloop".toList (forloopObj i len parent)) x v
  M.inFrames [.plain root] (do
    body
    takeInterruptM)

/-- one cell of `TableRow::render_to` -/
def tablerowStep (x : Str) (len ncols : Nat) (body : M Unit) (v : V) (i : Nat) : M Unit :=
  if ncols == 0 then M.lift (.panic "tablerow: remainder by zero") else
  let col := i % ncols
  let row := i / ncols
  let colsI := usizeAsI64 ncols
  let tr := tablerowObj i len col colsI
  let colLast := ((col : Int) + 1 == colsI) || ((i : Int) == (len : Int) - 1)
  let root := objInsert (objInsert [] "tablerow".toList tr) x v
  do
    if col == 0 then M.emit ("<tr class=\"row".toList ++ natDigits (row + 1) ++ "\">".toList) else pure ()
    M.emit ("<td class=\"col".toList ++ natDigits (col + 1) ++ "\">".toList)
    M.inFrames [.plain root] body
    M.emit "</td>".toList
    if colLast then M.emit "</tr>".toList else pure ()

/-- one iteration of `{% render … for … as … %}`: a fresh global frame over a sandboxed frame that
holds only the arguments, a truthful `forloop` and the item. -/
def renderForStep (st : Stack) (args : List (Str × Expr)) (as_ : Str) (len : Nat)
    (body : M Unit) (v : V) (i : Nat) : M (Option Intr) := do
  let root0 ← M.lift (evalVars st args [])
  let root := objInsert (objInsert root0 "forloop".toList (forloopObj i len .nil)) as_ v
  M.inFrames [.global [], .sandbox root {}] (do
    body
    takeInterruptM)

def counterVal (st : Stack) (x : Str) : Int :=
  match st.getIndex x with
  | some (.sc s) => (s.toInteger?).getD 0
  | _ => 0

def renderN : Nat → Env → Node → M Unit
  | 0, _, _ => M.lift .fuel
  | fuel + 1, env, .text s => M.emit s
  | fuel + 1, env, .raw s => M.emit s
  | fuel + 1, env, .comment => pure ()
  | fuel + 1, env, .output e fs => do
    let st ← M.getSt
    let v ← M.lift (evalChain env st e fs)
    M.emit v.render
  | fuel + 1, env, .assign x e fs => do
    let st ← M.getSt
    let v ← M.lift (evalChain env st e fs)
    setGlobalM x v
  | fuel + 1, env, .capture x body => do
    let s ← M.capture (renderList (renderN fuel env) body)
    setGlobalM x (.sc (.str s))
  | fuel + 1, env, .incr x => do
    let st ← M.getSt
    let val := counterVal st x
    M.emit (intRepr val)
    if !inI64 (val + 1) then M.lift (.panic "increment: add overflow") else
    setIndexM x (iV (val + 1))
  | fuel + 1, env, .decr x => do
    let st ← M.getSt
    let val := counterVal st x
    if !inI64 (val - 1) then M.lift (.panic "decrement: sub overflow") else do
    M.emit (intRepr (val - 1))
    setIndexM x (iV (val - 1))
  | fuel + 1, env, .brk => setInterruptM (some .brk)
  | fuel + 1, env, .cont => setInterruptM (some .cont)
  | fuel + 1, env, .cycle name vals => do
    let g ← M.getRegs
    match cycleStep g.cycles name vals.length with
    | none => M.lift (.panic "cycle: remainder by zero")
    | some (j, cycles') => do
      M.setRegs { g with cycles := cycles' }
      match vals[j]? with
      | none => M.lift .err
      | some e => do
        let st ← M.getSt
        let v ← M.lift (e.eval st)
        M.emit v.render
  | fuel + 1, env, .cond c mode thn els => do
    let st ← M.getSt
    let b ← M.lift (c.eval st)
    if b == mode then renderList (renderN fuel env) thn
    else match els with
      | some t => renderList (renderN fuel env) t
      | none => pure ()
  | fuel + 1, env, .case_ target arms els => do
    let st ← M.getSt
    let value ← M.lift (target.eval st)
    let pick ← M.lift (casePick st value arms)
    match pick with
    | some body => renderList (renderN fuel env) body
    | none => match els with
      | some t => renderList (renderN fuel env) t
      | none => pure ()
  | fuel + 1, env, .for_ x rng limit offset rev body els => do
    let st ← M.getSt
    let arr ← M.lift (rng.eval st)
    let lim ← M.lift (evalAttr st limit)
    let off ← M.lift (evalAttr st offset)
    let items := iterArray arr lim (off.getD 0) rev
    match items with
    | [] => (match els with
        | some t => renderList (renderN fuel env) t
        | none => pure ())
    | _ =>
      let parent := (st.tryGet [.str "forloop".toList]).getD .nil
      let len := items.length
      loopItems (forStep x len parent (renderList (renderN fuel env) body)) items 0
  | fuel + 1, env, .tablerow x rng cols limit offset body => do
    let st ← M.getSt
    let arr ← M.lift (rng.eval st)
    let c ← M.lift (evalAttr st cols)
    if c == some 0 then M.lift .err else do     -- "`cols` must be greater than zero"
    let lim ← M.lift (evalAttr st limit)
    let off ← M.lift (evalAttr st offset)
    let items := iterArray arr lim (off.getD 0) false
    let len := items.length
    let ncols := c.getD len
    tableItems (tablerowStep x len ncols (renderList (renderN fuel env) body)) items 0
  | fuel + 1, env, .ifchanged body => do
    let rendered ← M.capture (renderList (renderN fuel env) body)
    let g ← M.getRegs
    let changed := match g.lastChanged with
      | some l => l != rendered
      | none => true
    M.setRegs { g with lastChanged := some rendered }
    if changed then M.emit rendered else pure ()
  | fuel + 1, env, .include_ name args => do
    let st ← M.getSt
    let v ← M.lift (name.eval st)
    match v with
    | .sc s => do
      let pass ← M.lift (evalVars st args [])
      let t ← M.lift (lookupPartial env s.render)
      M.inFrames [.plain pass] (renderList (renderN fuel env) t)
    | _ => M.lift .err
  | fuel + 1, env, .render_ name form args => do
    let st ← M.getSt
    let v ← M.lift (name.eval st)
    match v with
    | .sc s =>
      let pname := s.render
      let getPartial : Res Tmpl := lookupPartialR env pname
      match form with
      | .for_ rng as_ => do
        let items ← M.lift (rng.eval st)
        let len := items.length
        loopItems (renderForStep st args as_ len (do
          let t ← M.lift getPartial
          renderList (renderN fuel env) t)) items 0
      | _ => do
        let root ← M.lift (evalVars st (form.vars args) [])
        let t ← M.lift getPartial
        M.inFrames [.global [], .sandbox root {}] (renderList (renderN fuel env) t)
    | _ => M.lift .err

def renderT (fuel : Nat) (env : Env) (t : Tmpl) : M Unit :=
  renderList (renderN fuel env) t

abbrev RR := Res Unit × Rt × W

/-- `liquid::Template::render` on caller data `globals`: fresh runtime, never-failing buffer. -/
def renderTop (fuel : Nat) (env : Env) (t : Tmpl) (globals : Obj) : Res Str :=
  match renderT fuel env t (Rt.build globals) {} with
  | (.ok (), _, w) => .ok w.text
  | (.err, _, _) => .err
  | (.io, _, _) => .io
  | (.panic s, _, _) => .panic s
  | (.fuel, _, _) => .fuel

end Liquid
