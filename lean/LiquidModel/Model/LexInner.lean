/-
  Recognisers for the inner grammar of `grammar.pest` (`TagInner`, `ExpressionInner` and everything
  below them), used to instantiate the `Inner` parameter of the lax lexer (`Model/Lex.lean`).

  Every recogniser returns the input *after* the match (`none` = no match).  Implicit whitespace: the
  two entry rules are non-atomic (`!{…}`), so pest inserts `skip` (= `WHITESPACE*`) at every `~` and
  between the iterations of a repetition of the normal rules below them (`FilterChain`, `Filter`,
  `Range`, `KeywordFilterArgument`); `Identifier` and the literals are atomic (`@`), `Variable` is
  compound-atomic (`$`, explicit `WHITESPACE*` inside `[ ]` only).  As in pest's generated code,
  `a ~ b*` and `a ~ b?` consume the skip after `a` even when `b` matches nothing.
  `Literal` is tried before `Variable` in `Value`, and the keyword literals have no word-boundary
  check: `nilx`, `true_story`, `empty_list` match `nil`, `true`, `empty` and leave the rest.
  Recursion `Variable → Value → Variable` (bracket indices) runs on a fuel argument
  (`3·length + 3` is ample: every level consumes a character).
-/
import LiquidModel.Model.Lex
namespace Liquid.Lex

def isAsciiAlpha (c : Char) : Bool := ('a' ≤ c && c ≤ 'z') || ('A' ≤ c && c ≤ 'Z')
def isAsciiDigit (c : Char) : Bool := '0' ≤ c && c ≤ '9'
def isAsciiAlnum (c : Char) : Bool := isAsciiAlpha c || isAsciiDigit c

def lit (p : String) (s : List Char) : Option (List Char) := stripPrefix? p.toList s

def startsWith (p : String) (s : List Char) : Bool := (lit p s).isSome

/-- `NON_WHITESPACE_CONTROL_HYPHEN = _{ !"-}}" ~ !"-%}" ~ "-" }` -/
def nwcHyphen (s : List Char) : Option (List Char) :=
  match s with
  | '-' :: r => if startsWith "}}" r || startsWith "%}" r then none else some r
  | _ => none

/-- `(ASCII_ALPHANUMERIC | "_" | NON_WHITESPACE_CONTROL_HYPHEN)*` -/
def identTail : List Char → List Char
  | [] => []
  | c :: r =>
    if isAsciiAlnum c || c == '_' then identTail r
    else if c == '-' then (if startsWith "}}" r || startsWith "%}" r then c :: r else identTail r)
    else c :: r

/-- `Identifier` -/
def identifier (s : List Char) : Option (List Char) :=
  match s with
  | [] => none
  | c :: r =>
    if isAsciiAlpha c || c == '_' then some (identTail r)
    else match nwcHyphen s with
      | some r' => some (identTail r')
      | none => none

def digits1 (s : List Char) : Option (List Char) :=
  match s with
  | c :: _ => if isAsciiDigit c then some (s.dropWhile isAsciiDigit) else none
  | [] => none

def optSign (s : List Char) : List Char :=
  match s with
  | '+' :: r => r
  | '-' :: r => r
  | _ => s

/-- `("'" ~ (!"'" ~ ANY)* ~ "'") | ("\"" ~ (!"\"" ~ ANY)* ~ "\"")` -/
def stringLiteral (s : List Char) : Option (List Char) :=
  match s with
  | '\'' :: r => (match r.dropWhile (· != '\'') with | _ :: r' => some r' | [] => none)
  | '"' :: r => (match r.dropWhile (· != '"') with | _ :: r' => some r' | [] => none)
  | _ => none

def floatLiteral (s : List Char) : Option (List Char) :=
  match digits1 (optSign s) with
  | some ('.' :: r) => digits1 r
  | _ => none

def integerLiteral (s : List Char) : Option (List Char) := digits1 (optSign s)

inductive LitKind where
  | nil | empty | blank | str | float | int | bool
  deriving DecidableEq, Repr

/-- `Literal = { Nil | Empty | Blank | String | Float | Integer | Boolean }` with the matched kind -/
def literalK (s : List Char) : Option (LitKind × List Char) :=
  match lit "nil" s <|> lit "null" s with
  | some r => some (.nil, r)
  | none =>
  match lit "empty" s with
  | some r => some (.empty, r)
  | none =>
  match lit "blank" s with
  | some r => some (.blank, r)
  | none =>
  match stringLiteral s with
  | some r => some (.str, r)
  | none =>
  match floatLiteral s with
  | some r => some (.float, r)
  | none =>
  match integerLiteral s with
  | some r => some (.int, r)
  | none =>
  match lit "true" s <|> lit "false" s with
  | some r => some (.bool, r)
  | none => none

def literal (s : List Char) : Option (List Char) := (literalK s).map (·.2)

mutual
/-- `Value = { Literal | Variable }` -/
def valueF : Nat → List Char → Option (List Char)
  | 0, _ => none
  | n + 1, s => match literal s with
    | some r => some r
    | none => variableF n s
/-- `Variable = ${ Identifier ~ ( ("." ~ Identifier) | ("[" ~ WHITESPACE* ~ Value ~ WHITESPACE* ~ "]") )* }` -/
def variableF : Nat → List Char → Option (List Char)
  | 0, _ => none
  | n + 1, s => match identifier s with
    | none => none
    | some r => some (varTailF n r)
def varTailF : Nat → List Char → List Char
  | 0, s => s
  | n + 1, s =>
    match s with
    | '.' :: r => (match identifier r with
        | some r' => varTailF n r'
        | none => s)
    | '[' :: r => (match valueF n (skipWs r) with
        | some r' => (match skipWs r' with
            | ']' :: r'' => varTailF n r''
            | _ => s)
        | none => s)
    | _ => s
end

def innerFuel (s : List Char) : Nat := 3 * s.length + 3

def value (s : List Char) : Option (List Char) := valueF (innerFuel s) s

/-- `KeywordFilterArgument | PositionalFilterArgument` -/
def filterArgument (s : List Char) : Option (List Char) :=
  let kw : Option (List Char) :=
    match identifier s with
    | some r => (match skipWs r with
        | ':' :: r' => value (skipWs r')
        | _ => none)
    | none => none
  match kw with
  | some r => some r
  | none => value s

/-- `(skip ~ "," ~ skip ~ FilterArgument)*` -/
def moreArgs : Nat → List Char → List Char
  | 0, s => s
  | n + 1, s =>
    match skipWs s with
    | ',' :: r => (match filterArgument (skipWs r) with
        | some r' => moreArgs n r'
        | none => s)
    | _ => s

/-- `Filter = { Identifier ~ (":" ~ FilterArgument ~ ("," ~ FilterArgument)*)? }` -/
def filter (s : List Char) : Option (List Char) :=
  match identifier s with
  | none => none
  | some r =>
    let r1 := skipWs r
    match r1 with
    | ':' :: r2 =>
      (match filterArgument (skipWs r2) with
       | some r3 =>
         -- `FilterArgument ~ (…)*`: the skip after the argument is consumed in any case
         let r4 := skipWs r3
         (match r4 with
          | ',' :: r5 => (match filterArgument (skipWs r5) with
              | some r6 => some (moreArgs r6.length r6)
              | none => some r4)
          | _ => some r4)
       | none => some r1)
    | _ => some r1

/-- `(skip ~ "|" ~ skip ~ Filter)*` -/
def moreFilters : Nat → List Char → List Char
  | 0, s => s
  | n + 1, s =>
    match skipWs s with
    | '|' :: r => (match filter (skipWs r) with
        | some r' => moreFilters n r'
        | none => s)
    | _ => s

/-- `FilterChain = { Value ~ ("|" ~ Filter)* }` -/
def filterChain (s : List Char) : Option (List Char) :=
  match value s with
  | none => none
  | some r =>
    let r1 := skipWs r
    match r1 with
    | '|' :: r2 => (match filter (skipWs r2) with
        | some r3 => some (moreFilters r3.length r3)
        | none => some r1)
    | _ => some r1

/-- `Range = { "(" ~ Value ~ ".." ~ Value ~ ")" }` -/
def range (s : List Char) : Option (List Char) :=
  match s with
  | '(' :: r =>
    (match value (skipWs r) with
     | some r1 => (match skipWs r1 with
        | '.' :: '.' :: r2 => (match value (skipWs r2) with
            | some r3 => (match skipWs r3 with
                | ')' :: r4 => some r4
                | _ => none)
            | none => none)
        | _ => none)
     | none => none)
  | _ => none

def doubleSym (s : List Char) : Option (List Char) :=
  lit "==" s <|> lit "!=" s <|> lit "<>" s <|> lit ">=" s <|> lit "<=" s

def singleSym (s : List Char) : Option (List Char) :=
  lit ">" s <|> lit "<" s <|> lit "=" s <|> lit "," s <|> lit ":" s

inductive TokKind where
  | range | chain | sym
  deriving DecidableEq, Repr, Inhabited

/-- `TagToken = _{ Range | FilterChain | DoubleCharSymbol | SingleCharSymbol }` with the alternative taken -/
def tagTokenK (s : List Char) : Option (TokKind × List Char) :=
  match range s with
  | some r => some (.range, r)
  | none =>
  match filterChain s with
  | some r => some (.chain, r)
  | none =>
  match doubleSym s <|> singleSym s with
  | some r => some (.sym, r)
  | none => none

/-- `(skip ~ TagToken)*` -/
def moreTokens : Nat → List Char → List Char
  | 0, s => s
  | n + 1, s =>
    match tagTokenK (skipWs s) with
    | some (_, r) => if r.length < s.length then moreTokens n r else s
    | none => s

/-- `TagInner = !{ Identifier ~ TagToken* }` -/
def tagInner (s : List Char) : Option (List Char) :=
  match identifier s with
  | none => none
  | some r =>
    let r1 := skipWs r
    match tagTokenK r1 with
    | some (_, r2) => some (moreTokens r2.length r2)
    | none => some r1

/-- `ExpressionInner = !{ FilterChain }` -/
def exprInner (s : List Char) : Option (List Char) := filterChain s

def consumed (m : List Char → Option (List Char)) : InnerM :=
  fun s => (m s).map fun r => s.length - r.length

/-- the inner matchers of grammar.pest -/
def stdInner : Inner := { tagInner := consumed tagInner, exprInner := consumed exprInner }

end Liquid.Lex
