/-
  C12 — executable specification predicates (import-free; used by the driver on the
  implementation's observations *and* as hypotheses of the theorems in `Props/C12.lean`).
-/
import LiquidModel.Model.Serde
namespace Liquid.C12
open Liquid

/-- no key occurs twice (an `Object` is a map; the model's association list must be one too) -/
def keysDistinct {α : Type} : List (Str × α) → Bool
  | [] => true
  | (k, _) :: r => !(r.any (·.1 == k)) && keysDistinct r

mutual
/-- Well-formed value relative to a predicate on scalars: no `State` marker (templates cannot
build one), distinct keys in every object, `p` on every scalar. -/
def wfWith (p : Sc → Bool) : V → Bool
  | .nil => true
  | .st _ => false
  | .sc s => p s
  | .arr xs => wfL p xs
  | .obj kvs => keysDistinct kvs && wfO p kvs
def wfL (p : Sc → Bool) : List V → Bool
  | [] => true
  | x :: xs => wfWith p x && wfL p xs
def wfO (p : Sc → Bool) : List (Str × V) → Bool
  | [] => true
  | (_, v) :: r => wfWith p v && wfO p r
end

def dtSame (a b : DT) : Bool := a.loc == b.loc && a.off == b.off && a.disp == b.disp
def dateSame (a b : Dt) : Bool := a.days == b.days && a.disp == b.disp

/-- the date/time text parser gives this value back from its own Display text -/
def dtReparses (orc : TextOracle) (d : DT) : Bool :=
  match orc.dt d.disp with
  | some d' => dtSame d' d
  | none => false

/-- a date's Display text is not taken for a date-time, and parses back to the date -/
def dateReparses (orc : TextOracle) (d : Dt) : Bool :=
  (orc.dt d.disp).isNone &&
  match orc.date d.disp with
  | some d' => dateSame d' d
  | none => false

/-- a string that the untagged `Scalar` keeps as a string -/
def plainStr (orc : TextOracle) (s : Str) : Bool := (orc.dt s).isNone && (orc.date s).isNone

/-- scalars that survive `to_value(&v)`: everything except dates and date-times (they travel as
their text) -/
def scSer : Sc → Bool
  | .int i => inI64 i
  | .dt _ => false
  | .date _ => false
  | _ => true

/-- scalars that survive `from_value::<Value>(&v)` -/
def scFrom (orc : TextOracle) : Sc → Bool
  | .dt d => dtReparses orc d
  | .date d => dateReparses orc d
  | .str s => plainStr orc s
  | _ => true

/-- scalars that survive a trip through JSON text -/
def scJson (orc : TextOracle) : Sc → Bool
  | .int i => inI64 i
  | .flt f => f.isFinite
  | .dt d => dtReparses orc d
  | .date d => dateReparses orc d
  | .str s => plainStr orc s
  | .bool _ => true

/-- model invariants only: distinct keys, integers within `i64` (dates and markers allowed) -/
def scInv : Sc → Bool
  | .int i => inI64 i
  | _ => true

mutual
def invV : V → Bool
  | .arr xs => invL xs
  | .obj kvs => keysDistinct kvs && invO kvs
  | .sc s => scInv s
  | _ => true
def invL : List V → Bool
  | [] => true
  | x :: xs => invV x && invL xs
def invO : List (Str × V) → Bool
  | [] => true
  | (_, v) :: r => invV v && invO r
end

mutual
/-- The image of a value under serde's data model: dates and date-times become their text, a
`State` marker becomes the name of its enum variant. -/
def serdeImage : V → V
  | .nil => .nil
  | .st s => .sc (.str (stateName s))
  | .sc (.dt d) => .sc (.str d.disp)
  | .sc (.date d) => .sc (.str d.disp)
  | .sc s => .sc s
  | .arr xs => .arr (imageL xs)
  | .obj kvs => .obj (imageO kvs)
def imageL : List V → List V
  | [] => []
  | x :: xs => serdeImage x :: imageL xs
def imageO : List (Str × V) → List (Str × V)
  | [] => []
  | (k, v) :: r => (k, serdeImage v) :: imageO r
end

mutual
/-- Data of the derive family on which "derived view = serde conversion" is claimed: fields of
bool / integer / float / string / `Value` (itself `to_value`-stable) / option / vec / string-keyed
map / nested struct type, distinct keys and field names — no `Date`/`DateTime` field. -/
def tdWf : TD → Bool
  | .bool _ => true
  | .int t n => !t.is128 && inI64 n
  | .f32 _ => true
  | .f64 _ => true
  | .str _ => true
  | .dt _ => false
  | .date _ => false
  | .val v => wfWith scSer v
  | .none => true
  | .some x => tdWf x
  | .vec xs => tdWfL xs
  | .map kvs => keysDistinct kvs && tdWfF kvs
  | .struct fs => keysDistinct fs && tdWfF fs
def tdWfL : List TD → Bool
  | [] => true
  | x :: xs => tdWf x && tdWfL xs
def tdWfF : List (Str × TD) → Bool
  | [] => true
  | (_, x) :: r => tdWf x && tdWfF r
end

/-! ### order-insensitive comparison for the driver (hash order is not the point of C12) -/

def insertKV (e : Str × V) : List (Str × V) → List (Str × V)
  | [] => [e]
  | f :: r => if strCmp e.1 f.1 == .gt then f :: insertKV e r else e :: f :: r

mutual
/-- sort every object's entries by key, recursively -/
def canon : V → V
  | .arr xs => .arr (canonL xs)
  | .obj kvs => .obj (canonO kvs)
  | v => v
def canonL : List V → List V
  | [] => []
  | x :: xs => canon x :: canonL xs
def canonO : List (Str × V) → List (Str × V)
  | [] => []
  | (k, v) :: r => insertKV (k, canon v) (canonO r)
end

/-- same datum up to the iteration order of objects -/
def sameDatum (a b : V) : Bool := (canon a).same (canon b)

end Liquid.C12
