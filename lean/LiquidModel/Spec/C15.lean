/-
  C15 — executable specification, written from the property text and independent of
  `Model/Math.lean`: it judges what the *implementation* was observed to do.

  Laws (the name is reported when violated):
  * `no-panic`            — never a crash;
  * `int-exact`           — plus/minus/times/abs/at_least/at_most on integer operands: the mathematical
                            result when it fits in 64 bits, else an error or a float — never another integer;
  * `div-zero`            — integer/float zero divisor ⇒ error;
  * `div-identity`        — integer divided_by/modulo: a = q·b + r, |r| < |b| (both observed on the same pair);
  * `ieee`                — a float operand: the result is the IEEE result of the operation on the operands
                            converted to double (the IEEE operations themselves are supplied by the driver);
  * `fmod`                — float modulo, stated by its defining property on the semantic reading;
  * `floor` `ceil` `round`— neighbouring integer in the documented direction, ties away from zero;
  * `string-as-number`    — a numeric string behaves like the number it spells.
-/
import LiquidModel.Model.Find
namespace Liquid.C15
open Liquid

inductive Obs where
  | ok (v : V)
  | err
  | panic
  deriving Inhabited

/-- IEEE operations on bit patterns, supplied by the driver (native doubles). -/
structure IEEE where
  add : Nat → Nat → Nat
  sub : Nat → Nat → Nat
  mul : Nat → Nat → Nat
  div : Nat → Nat → Nat
  ofInt : Int → Nat

def U : Int := 2^1074

def sem (bits : Nat) : FV := Fl.toFV { bits := bits }
def isNaNBits (b : Nat) : Bool := sem b == .nan

/-- floats by bit pattern, all NaNs identified (IEEE leaves sign/payload of a produced NaN open) -/
def sameBits (a b : Nat) : Bool := a == b || (isNaNBits a && isNaNBits b)

def sameV (a b : V) : Bool :=
  match a, b with
  | .sc (.flt x), .sc (.flt y) => sameBits x.bits y.bits
  | _, _ => a.same b

def sameObs : Obs → Obs → Bool
  | .ok a, .ok b => sameV a b
  | .err, .err => true
  | .panic, .panic => true
  | _, _ => false

inductive Num where
  | int (a : Int)
  | flt (bits : Nat)

def num? : V → Option Num
  | .sc (.int a) => some (.int a)
  | .sc (.flt f) => some (.flt f.bits)
  | _ => none

def Num.toF (ie : IEEE) : Num → Nat
  | .int a => ie.ofInt a
  | .flt b => b

def Num.isZero : Num → Bool
  | .int a => a == 0
  | .flt b => sem b == .fin 0

def expectInt (law : String) (m : Int) (o : Obs) : Option String :=
  match o with
  | .ok (.sc (.int r)) => if r == m then none else some law
  | _ => some law

/-- result does not fit: an error or a float, never an integer -/
def expectNoInt (law : String) (o : Obs) : Option String :=
  match o with
  | .err => none
  | .ok (.sc (.flt _)) => none
  | _ => some law

def exactOrNot (m : Int) (o : Obs) : Option String :=
  if inI64 m then expectInt "int-exact" m o else expectNoInt "int-exact" o

def expectFlt (law : String) (bits : Nat) (o : Obs) : Option String :=
  match o with
  | .ok (.sc (.flt f)) => if sameBits f.bits bits then none else some law
  | _ => some law

def expectErr (law : String) (o : Obs) : Option String :=
  match o with
  | .err => none
  | _ => some law

def iabs (x : Int) : Int := if x < 0 then -x else x

/-- integer operands -/
def specInts (name : String) (a b : Int) (o : Obs) : Option String :=
  match name with
  | "plus" => exactOrNot (a + b) o
  | "minus" => exactOrNot (a - b) o
  | "times" => exactOrNot (a * b) o
  | "at_least" => exactOrNot (if a < b then b else a) o
  | "at_most" => exactOrNot (if b < a then b else a) o
  | "divided_by" =>
    if b == 0 then expectErr "div-zero" o
    else match o with
      | .ok (.sc (.int q)) => if iabs (a - q * b) < iabs b && inI64 q then none else some "div-identity"
      | _ => if a == i64Min && b == -1 then expectNoInt "int-exact" o else some "div-identity"
  | "modulo" =>
    if b == 0 then expectErr "div-zero" o
    else match o with
      | .ok (.sc (.int r)) =>
        if iabs r < iabs b && (a - r) % b == 0 && inI64 ((a - r) / b) || (a == i64Min && b == -1 && r == 0) then none
        else some "div-identity"
      | _ => if a == i64Min && b == -1 then expectNoInt "int-exact" o else some "div-identity"
  | _ => none

/-- both observations of one integer pair: divided_by ↦ q, modulo ↦ r -/
def specDivMod (a b : Int) (oq or : Obs) : Option String :=
  if b == 0 then (expectErr "div-zero" oq).or (expectErr "div-zero" or)
  else match oq, or with
    | .ok (.sc (.int q)), .ok (.sc (.int r)) =>
      if a == q * b + r && iabs r < iabs b then none else some "div-identity"
    | _, _ =>
      if a == i64Min && b == -1 then
        (expectNoInt "int-exact" oq).or (match or with | .ok (.sc (.int r)) => (if r == 0 then none else some "div-identity") | o => expectNoInt "int-exact" o)
      else some "div-identity"

/-- defining property of C `fmod` on finite operands (units of 2^-1074) -/
def fmodOk (qa qb qr : Int) : Bool :=
  iabs qr < iabs qb && iabs qr ≤ iabs qa && (qa - qr) % qb == 0 && (qr == 0 || (qr < 0) == (qa < 0))

def specFmod (fa fb : Nat) (o : Obs) : Option String :=
  match o with
  | .ok (.sc (.flt r)) =>
    match sem fa, sem fb, sem r.bits with
    | .fin qa, .fin qb, .fin qr =>
      -- a zero result carries the sign of the dividend
      if fmodOk qa qb qr && (r.bits / 2^63 % 2 == fa / 2^63 % 2) then none else some "fmod"
    | .fin _, .pinf, _ => if r.bits == fa then none else some "fmod"
    | .fin _, .ninf, _ => if r.bits == fa then none else some "fmod"
    | _, _, s => if s == .nan then none else some "fmod"
  | _ => some "fmod"

/-- at_least / at_most with a float operand: one of the two operands, not smaller (larger) than
the other; a NaN operand is ignored. -/
def specMinMax (isMax : Bool) (fa fb : Nat) (o : Obs) : Option String :=
  match o with
  | .ok (.sc (.flt r)) =>
    let rb := r.bits
    if !(sameBits rb fa || sameBits rb fb) then some "ieee"
    else if isNaNBits fa then (if sameBits rb fb then none else some "ieee")
    else if isNaNBits fb then (if sameBits rb fa then none else some "ieee")
    else
      let bad (x : Nat) : Bool :=
        if isMax then (sem rb).cmp (sem x) == some .lt else (sem rb).cmp (sem x) == some .gt
      if bad fa || bad fb then some "ieee" else none
  | _ => some "ieee"

/-- at least one float operand, both numbers -/
def specFloats (ie : IEEE) (name : String) (x y : Num) (o : Obs) : Option String :=
  let fa := x.toF ie
  let fb := y.toF ie
  match name with
  | "plus" => expectFlt "ieee" (ie.add fa fb) o
  | "minus" => expectFlt "ieee" (ie.sub fa fb) o
  | "times" => expectFlt "ieee" (ie.mul fa fb) o
  | "divided_by" => if y.isZero then expectErr "div-zero" o else expectFlt "ieee" (ie.div fa fb) o
  | "modulo" => if y.isZero then expectErr "div-zero" o else specFmod fa fb o
  | "at_least" => specMinMax true fa fb o
  | "at_most" => specMinMax false fa fb o
  | _ => none

/-- floor/ceil/round of the double `bits` when it lies within the 64-bit range -/
def specRounding (name : String) (bits : Nat) (o : Obs) : Option String :=
  match sem bits with
  | .fin q =>
    if i64Min * U ≤ q && q ≤ i64Max * U then
      match o with
      | .ok (.sc (.int r)) =>
        match name with
        | "floor" => if r * U ≤ q && q < (r + 1) * U then none else some "floor"
        | "ceil" => if (r - 1) * U < q && q ≤ r * U then none else some "ceil"
        | "round" =>
          let d := iabs (r * U - q)
          if 2 * d < U || (2 * d == U && iabs q < iabs (r * U)) then none else some "round"
        | _ => none
      | _ => some name
    else none
  | _ => none

def isBin (name : String) : Bool :=
  name == "plus" || name == "minus" || name == "times" || name == "divided_by" || name == "modulo" ||
  name == "at_least" || name == "at_most"

/-- The whole spec for one observed application.  `o2`: second observation of the line, if any
(kind `divmod…`: modulo on the same operands; kind `str…`: the same filter on the numbers the
string operands spell). -/
def spec (ie : IEEE) (kind name : String) (input : V) (args : List V) (o : Obs) (o2 : Option Obs) : Option String :=
  match o, o2 with
  | .panic, _ => some "no-panic"
  | _, some .panic => some "no-panic"
  | _, _ =>
    let k := (kind.splitOn ":").headD ""
    if k.startsWith "str" then
      match o2 with
      | some p => if sameObs o p then none else some "string-as-number"
      | none => some "string-as-number"
    else
    match num? input, args with
    | some x, [] =>
      match name, x with
      | "abs", .int a => exactOrNot (iabs a) o
      | "abs", .flt f => expectFlt "ieee" (f % 2^63) o
      | "floor", .flt f => specRounding name f o
      | "ceil", .flt f => specRounding name f o
      | "round", .flt f => specRounding name f o
      -- a whole number is its own floor, ceiling and rounding
      | "floor", .int a => exactOrNot a o
      | "ceil", .int a => exactOrNot a o
      | "round", .int a => exactOrNot a o
      | _, _ => none
    | some x, [arg] =>
      if name == "round" then
        match x, arg with
        | .flt f, .sc (.int n) => if n ≤ 0 then specRounding name f o else none
        | .int a, .sc (.int n) => if n ≤ 0 then exactOrNot a o else none
        | _, _ => none
      else if !isBin name then none
      else
      match x, num? arg with
      | .int a, some (.int b) =>
        if k.startsWith "divmod" then
          match o2 with
          | some p => specDivMod a b o p
          | none => some "div-identity"
        else specInts name a b o
      | _, some y => specFloats ie name x y o
      | _, none => none
    | _, _ => none

end Liquid.C15
