/-
  Executable specification for the C05 correspondence cases: what a loop over `items` with
  offset/limit/reversed/cols must print when its body prints the item and every forloop / tablerow
  field.  Written from the property statement (drop/take/reverse, field formulas), *not* through
  the interpreter, so it can judge the implementation independently of the model.
-/
import LiquidModel.Model.Render
namespace Liquid.C05
open Liquid

def sel (items : List V) (off lim : Option Nat) (rev : Bool) : List V :=
  let s := (items.drop (off.getD 0))
  let s := match lim with | some l => s.take l | none => s
  if rev then s.reverse else s

def colon : Str := [':']

def forFields (i n : Nat) : Str :=
  natDigits (i + 1) ++ colon ++ natDigits i ++ colon ++ natDigits (n - i) ++ colon ++ natDigits (n - i - 1) ++ colon ++
  boolRepr (i == 0) ++ colon ++ boolRepr (i + 1 == n) ++ colon ++ natDigits n

/-- `{% for x in … %}[{{x}}:{{forloop.index}}:…:{{forloop.length}}]{% else %}EMPTY{% endfor %}` -/
def specFor (items : List V) (off lim : Option Nat) (rev : Bool) : Str :=
  let s := sel items off lim rev
  if s.isEmpty then "EMPTY".toList else
  (s.zipIdx.map fun (v, i) => ['['] ++ v.render ++ colon ++ forFields i s.length ++ [']']).flatten

/-- the tablerow body of the harness, with the `<tr>/<td>` wrappers of `TableRow::render_to` -/
def specTable (items : List V) (off lim : Option Nat) (cols : Option Nat) : Str :=
  let s := sel items off lim false
  let n := s.length
  let c := cols.getD n
  (s.zipIdx.map fun (v, i) =>
    let col := i % c
    let colLast := (col + 1 == c) || (i + 1 == n)
    (if col == 0 then "<tr class=\"row".toList ++ natDigits (i / c + 1) ++ "\">".toList else []) ++
    "<td class=\"col".toList ++ natDigits (col + 1) ++ "\">".toList ++
    ['['] ++ v.render ++ colon ++ forFields i n ++ colon ++ natDigits (col + 1) ++ colon ++ natDigits col ++ colon ++
      boolRepr (col == 0) ++ colon ++ boolRepr colLast ++ [']'] ++
    "</td>".toList ++ (if colLast then "</tr>".toList else [])).flatten

/-- interrupt kind at a guard: 0 none, 1 break, 2 continue -/
def innerOut (ys : List V) (outerIdx1 : Nat) (at_ k : Nat) : Str :=
  let rec go : List V → Nat → Str
    | [], _ => []
    | y :: r, j =>
      let hd := ['('] ++ y.render
      if j == at_ && k == 1 then hd                       -- break: stop the inner loop
      else if j == at_ && k == 2 then hd ++ go r (j + 1)  -- continue: skip the rest of this body
      else hd ++ colon ++ natDigits outerIdx1 ++ [')'] ++ go r (j + 1)
  go ys 0

def specNested (xs ys : List V) (atO atI kO kI : Nat) : Str :=
  let rec go : List V → Nat → Str
    | [], _ => []
    | x :: r, i =>
      let hd := ['<'] ++ x.render ++ innerOut ys (i + 1) atI kI
      if i == atO && kO == 1 then hd
      else if i == atO && kO == 2 then hd ++ go r (i + 1)
      else hd ++ ['>'] ++ go r (i + 1)
  go xs 0

end Liquid.C05
