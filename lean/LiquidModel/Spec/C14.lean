/-
  Executable specification for C14, written from the property text and independent of the filter
  models: what an observed result of an array filter must satisfy.  Every predicate is `Bool`-valued
  so the driver can evaluate it on the implementation's observed behaviour; the same predicates
  (or their `Prop` readings) are what the theorems of `Props/C14.lean` prove about the model.
  Import-free (core only).
-/
import LiquidModel.Model.ArrFilters
namespace Liquid.C14
open Liquid Liquid.Arr

/-- The hypothesis under which "sorted", "stable", "idempotent" and "nil last" are promised: on the
elements of this array the comparator is total and transitive (a total preorder; antisymmetry is
not required, e.g. `1` and `1.0`, or strings differing only in case for `sort_natural`). -/
structure TotalPreorderOn {α : Type} (xs : List α) (le : α → α → Bool) : Prop where
  total : ∀ a, a ∈ xs → ∀ b, b ∈ xs → (le a b || le b a) = true
  trans : ∀ a, a ∈ xs → ∀ b, b ∈ xs → ∀ c, c ∈ xs → le a b = true → le b c = true → le a c = true

/-- the same, decided by enumeration of all pairs and triples -/
def totalPreorderOnB {α : Type} (xs : List α) (le : α → α → Bool) : Bool :=
  xs.all fun a => xs.all fun b =>
    (le a b || le b a) && xs.all fun c => !(le a b && le b c) || le a c

/-! ### value kinds for which the hypothesis is proved to hold (`Props/C14.lean`) -/

/-- value kinds on which the repaired comparator is provably consistent -/
def nice (floats : Bool) : V → Bool
  | .nil => true
  | .st _ => true
  | .sc (.int _) => !floats
  | .sc (.flt _) => floats
  | .sc (.bool _) => true
  | .sc (.date _) => true
  | .sc (.str _) => true
  | _ => false

/-- integers below 2^53 in absolute value together with floats, strings, booleans, dates, nils -/
def nice2 : V → Bool
  | .nil => true
  | .st _ => true
  | .sc (.int i) => decide (i.natAbs < 2^53)
  | .sc (.flt _) => true
  | .sc (.bool _) => true
  | .sc (.date _) => true
  | .sc (.str _) => true
  | _ => false

/-! ### multiset equality, sortedness, stability on observed lists (`V.same` = protocol identity) -/

def eraseSame (x : V) : List V → Option (List V)
  | [] => none
  | y :: r => if x.same y then some r else (eraseSame x r).map (y :: ·)

/-- `ys` is a rearrangement of `xs` -/
def permB : List V → List V → Bool
  | [], ys => ys.isEmpty
  | x :: xs, ys =>
    match eraseSame x ys with
    | some ys' => permB xs ys'
    | none => false

def pairwiseB {α : Type} (r : α → α → Bool) : List α → Bool
  | [] => true
  | x :: xs => xs.all (r x) && pairwiseB r xs

/-- elements that the comparator cannot tell apart keep their input order: for every output
element, the elements equivalent to it appear in the output exactly as they do in the input -/
def stableB (le : V → V → Bool) (xs ys : List V) : Bool :=
  ys.all fun y =>
    let eqv := fun z => le y z && le z y
    sameL (ys.filter eqv) (xs.filter eqv)

/-- once a nil (key) has appeared, only nil (keys) follow -/
def nilLastB (key : V → V) (ys : List V) : Bool :=
  (ys.dropWhile fun v => !(key v).isNil).all fun v => (key v).isNil

/-- one representative of every class of protocol-identical values (the comparators are functions
of the value, so the hypothesis may be checked on representatives) -/
def dedupSame : List V → List V
  | [] => []
  | x :: xs => x :: (dedupSame xs).filter (fun y => !x.same y)

/-- "greater" as far as the property text can tell: nil comes after everything else, otherwise
the values must be comparable and `partial_cmp` must say `Greater` (this is the comparator of the
pinned commit, before incomparable pairs are mapped to `Equal`) -/
def cmpGt (a b : V) : Bool := nilSafeCompareOld a b == some .gt

/-- The sort contract on an observed result: always a rearrangement of the input; when the
(repaired) comparator `le` is a total preorder on this input — so that the contract can be met at
all — also: no element is followed by a smaller comparable one (`gt` = "greater", by the property's
own reading), elements the comparator cannot tell apart keep their order, nils last.
Returns the name of the violated law. -/
def sortSpec (le gt : V → V → Bool) (key : V → V) (xs ys : List V) : Option String :=
  if !permB xs ys then some "sort-permutation"
  else if !totalPreorderOnB (dedupSame xs) le then none
  else if !pairwiseB (fun a b => !gt a b) ys then some "sort-non-decreasing"
  else if !stableB le xs ys then some "sort-stable"
  else if !nilLastB key ys then some "sort-nil-last"
  else none

/-! ### uniq -/

def sublistB : List V → List V → Bool
  | [], _ => true
  | _ :: _, [] => false
  | y :: ys, x :: xs => if y.same x then sublistB ys xs else sublistB (y :: ys) xs

/-- walk the input: an element is dropped iff it equals an earlier kept one, otherwise it is the
next output element -/
def uniqWalk (kept : List V) : List V → List V → Bool
  | [], ys => ys.isEmpty
  | x :: xs, ys =>
    if kept.any (fun k => valueEq k x) then uniqWalk kept xs ys
    else match ys with
      | y :: ys' => y.same x && uniqWalk (kept ++ [x]) xs ys'
      | [] => false

def uniqSpec (xs ys : List V) : Option String :=
  if !sublistB ys xs then some "uniq-sublist"
  else if !pairwiseB (fun a b => !valueEq a b) ys then some "uniq-pairwise-distinct"
  else if !(xs.all fun x => ys.any fun k => k.same x || valueEq k x) then some "uniq-dropped-equals-kept"
  else if !uniqWalk [] xs ys then some "uniq-first-occurrences"
  else none

/-! ### element-wise specs of the other filters (array input) -/

def getD? (xs : List V) (i : Nat) : V := (xs[i]?).getD .nil

/-- `ys[i] = xs[n-1-i]` -/
def reverseSpec (xs ys : List V) : Bool :=
  ys.length == xs.length &&
  (List.range xs.length).all fun i => (getD? ys i).same (getD? xs (xs.length - 1 - i))

def hasProp (p : Str) (v : V) : Option V :=
  match v with
  | .obj kvs => (kvs.find? fun kv => kv.1 == p).map (·.2)
  | _ => none

/-- the (normalised) start of a slice: negative offsets count from the end -/
def sliceStart (off : Int) (n : Nat) : Option Nat :=
  if 0 ≤ off then some (min off.toNat n)
  else if -(n : Int) ≤ off then some ((n : Int) + off).toNat
  else none

/-- `slice` agrees with indexing: `ys[k] = xs[start + k]` for `k < len`, nothing more -/
def sliceSpec (xs : List V) (off len : Int) (ys : List V) : Bool :=
  match sliceStart off xs.length with
  | some s =>
    ys.length == min len.toNat (xs.length - s) &&
    (List.range ys.length).all fun k => (getD? ys k).same (getD? xs (s + k))
  | none => ys.isEmpty

end Liquid.C14
