/-
  Executable specification for the C03 correspondence cases, written from the property text and
  from the *structure* the generator built — it never looks at the lexer model:

    "Text outside Liquid markup is emitted byte-for-byte and in order […].  A '-' on a delimiter removes
     exactly the run of whitespace (spaces, tabs, line breaks) touching that side of the tag and nothing
     else; the body of a raw block is emitted verbatim even when it looks like markup, and a comment
     block emits nothing and has no effect, whatever text or well-formed markup it holds."

  A template is a list of pieces; `source` is its text, `expected` what it must render to.
  `wellFormed` is the generator's contract (the part of the quantifier text that makes the expected
  output computable from the structure): literal segments contain no `{{`/`{%` and do not end in `{`
  right before markup, look-alikes occur only inside raw/comment bodies, no quote character after an
  unterminated opener inside a raw body (a string literal could otherwise swallow the end tag), no
  `endraw`/`endcomment` text inside bodies.  Cases outside the contract are judged against the model only.
  Import-free.
-/
namespace Liquid.C03

/-- whitespace of the property text: spaces, tabs, line breaks -/
def isWsSpec (c : Char) : Bool := c == ' ' || c == '\t' || c == '\n' || c == '\r'

/-- one markup element's delimiters: trim marker on the left/right delimiter, spaces inside them -/
structure Delim where
  tl : Bool
  tr : Bool
  il : Nat
  ir : Nat
  deriving Repr, Inhabited, DecidableEq

inductive Piece where
  /-- literal text -/
  | lit (s : List Char)
  /-- `{{ src }}` where `src` is a literal whose rendering is `val` -/
  | out (d : Delim) (src val : List Char)
  /-- `{{ name }}` -/
  | outVar (d : Delim) (name : List Char)
  /-- `{% assign name = src %}`, `src` a literal rendering as `val` -/
  | assign (d : Delim) (name src val : List Char)
  /-- `{% increment name %}` -/
  | incr (d : Delim) (name : List Char)
  /-- `{% if condSrc %}body[{% else %}els]{% endif %}`; `cond` = truth of `condSrc` -/
  | ifb (o : Delim) (condSrc : List Char) (cond : Bool) (body : List Piece)
        (hasElse : Bool) (e : Delim) (eb : List Piece) (c : Delim)
  /-- `{% raw %}body{% endraw %}`; body pieces are `lit`/`look`/`opener` -/
  | raw (o : Delim) (body : List Piece) (c : Delim)
  /-- `{% comment %}body{% endcomment %}` -/
  | comment (o : Delim) (body : List Piece) (c : Delim)
  /-- complete markup look-alike (raw and comment bodies only) -/
  | look (s : List Char)
  /-- unterminated markup (raw bodies only) -/
  | opener (s : List Char)
  /-- invalid output tag (comment bodies only) -/
  | bad (s : List Char)
  deriving Repr, Inhabited

def spaces (n : Nat) : List Char := List.replicate n ' '

def outSrc (d : Delim) (inner : List Char) : List Char :=
  (if d.tl then "{{-".toList else "{{".toList) ++ spaces d.il ++ inner ++ spaces d.ir ++
  (if d.tr then "-}}".toList else "}}".toList)

def tagSrc (d : Delim) (inner : List Char) : List Char :=
  (if d.tl then "{%-".toList else "{%".toList) ++ spaces d.il ++ inner ++ spaces d.ir ++
  (if d.tr then "-%}".toList else "%}".toList)

mutual
/-- the template text of a piece -/
def Piece.source : Piece → List Char
  | .lit s => s
  | .out d src _ => outSrc d src
  | .outVar d name => outSrc d name
  | .assign d name src _ => tagSrc d ("assign ".toList ++ name ++ " = ".toList ++ src)
  | .incr d name => tagSrc d ("increment ".toList ++ name)
  | .ifb o cs _ body hasElse e eb c =>
    tagSrc o ("if ".toList ++ cs) ++ sourceL body ++
    (if hasElse then tagSrc e "else".toList ++ sourceL eb else []) ++
    tagSrc c "endif".toList
  | .raw o body c => tagSrc o "raw".toList ++ sourceL body ++ tagSrc c "endraw".toList
  | .comment o body c => tagSrc o "comment".toList ++ sourceL body ++ tagSrc c "endcomment".toList
  | .look s => s
  | .opener s => s
  | .bad s => s
def sourceL : List Piece → List Char
  | [] => []
  | p :: r => p.source ++ sourceL r
end

/-! ### expected output -/

/-- a stretch of literal text, or a markup boundary that emits `emit` and may trim its neighbours -/
inductive Seg where
  | text (s : List Char)
  | mark (tl tr : Bool) (emit : List Char)
  deriving Repr, Inhabited

structure SEnv where
  vars : List (List Char × List Char) := []
  counters : List (List Char × Nat) := []
  deriving Repr, Inhabited

def SEnv.get (e : SEnv) (x : List Char) : List Char :=
  match e.vars.find? (·.1 == x) with | some (_, v) => v | none => []
def SEnv.set (e : SEnv) (x v : List Char) : SEnv :=
  { e with vars := (x, v) :: e.vars.filter (·.1 != x) }
def SEnv.counter (e : SEnv) (x : List Char) : Nat :=
  match e.counters.find? (·.1 == x) with | some (_, n) => n | none => 0
def SEnv.bump (e : SEnv) (x : List Char) : SEnv :=
  { e with counters := (x, e.counter x + 1) :: e.counters.filter (·.1 != x) }

def stripLeft (s : List Char) : List Char := s.dropWhile isWsSpec
def stripRight (s : List Char) : List Char := (s.reverse.dropWhile isWsSpec).reverse

/-- a raw body is emitted verbatim, except that a `-` on the inner side of `{% raw -%}` / `{%- endraw %}`
removes the whitespace run touching it -/
def rawEmit (o c : Delim) (body : List Char) : List Char :=
  let b := if o.tr then stripLeft body else body
  if c.tl then stripRight b else b

mutual
def Piece.segs (env : SEnv) : Piece → List Seg × SEnv
  | .lit s => ([.text s], env)
  | .out d _ val => ([.mark d.tl d.tr val], env)
  | .outVar d name => ([.mark d.tl d.tr (env.get name)], env)
  | .assign d name _ val => ([.mark d.tl d.tr []], env.set name val)
  | .incr d name => ([.mark d.tl d.tr (Nat.toDigits 10 (env.counter name))], env.bump name)
  | .ifb o _ cond body hasElse e eb c =>
    if !hasElse then
      if cond then
        let (ss, env') := segsL env body
        (.mark o.tl o.tr [] :: ss ++ [.mark c.tl c.tr []], env')
      else ([.mark o.tl c.tr []], env)
    else
      if cond then
        let (ss, env') := segsL env body
        (.mark o.tl o.tr [] :: ss ++ [.mark e.tl c.tr []], env')
      else
        let (ss, env') := segsL env eb
        (.mark o.tl e.tr [] :: ss ++ [.mark c.tl c.tr []], env')
  | .raw o body c => ([.mark o.tl c.tr (rawEmit o c (sourceL body))], env)
  | .comment o _ c => ([.mark o.tl c.tr []], env)
  | .look s => ([.text s], env)          -- not well-formed at this level; never judged
  | .opener s => ([.text s], env)
  | .bad s => ([.text s], env)
def segsL (env : SEnv) : List Piece → List Seg × SEnv
  | [] => ([], env)
  | p :: r =>
    let (a, env1) := p.segs env
    let (b, env2) := segsL env1 r
    (a ++ b, env2)
end

/-- emit the segments: a text stretch loses its leading whitespace run iff the markup before it carries
`-` on its right delimiter, its trailing run iff the markup after it carries `-` on its left one -/
def emitSegs : List Seg → (prevTr : Bool) → (acc : List Char) → List Char
  | [], ptr, acc => if ptr then stripLeft acc else acc
  | .text s :: r, ptr, acc => emitSegs r ptr (acc ++ s)
  | .mark tl tr em :: r, ptr, acc =>
    let t := if ptr then stripLeft acc else acc
    let t := if tl then stripRight t else t
    t ++ em ++ emitSegs r tr []

/-- what the template must render to -/
def expected (ps : List Piece) : List Char := emitSegs (segsL {} ps).1 false []

/-! ### the generator's contract -/

def hasSub (sub : List Char) : List Char → Bool
  | [] => sub.isEmpty
  | c :: r => sub.isPrefixOf (c :: r) || hasSub sub r

def containsOpen (s : List Char) : Bool := hasSub "{{".toList s || hasSub "{%".toList s
def hasQuote (s : List Char) : Bool := s.any fun c => c == '\'' || c == '"'

/-- source-level tokens: literal text or something that starts with a delimiter -/
inductive STok where
  | txt (s : List Char)
  | mk
  deriving Repr, Inhabited

mutual
def Piece.stoks : Piece → List STok
  | .lit s => [.txt s]
  | .ifb _ _ _ body hasElse _ eb _ =>
    .mk :: stoksL body ++ (if hasElse then .mk :: stoksL eb else []) ++ [.mk]
  | .raw _ body _ => .mk :: stoksL body ++ [.mk]
  | .comment _ body _ => .mk :: stoksL body ++ [.mk]
  | _ => [.mk]
def stoksL : List Piece → List STok
  | [] => []
  | p :: r => p.stoks ++ stoksL r
end

/-- every literal stretch is free of `{{`/`{%` and does not end in `{` right before markup -/
def stretchesOk : List STok → List Char → Bool
  | [], acc => !containsOpen acc
  | .txt s :: r, acc => stretchesOk r (acc ++ s)
  | .mk :: r, acc => !containsOpen acc && acc.getLast? != some '{' && stretchesOk r []

/-- `endraw` tags that carry arguments: they do not close a raw block, they are body text -/
def endrawArgLooks : List (List Char) :=
  ["{% endraw x %}", "{%- endraw 'z' -%}", "{% endraw 1 %}", "{%endraw a b%}"].map String.toList

def isEndrawArgLook : Piece → Bool
  | .look s => endrawArgLooks.contains s
  | _ => false

def rawItemOk : Piece → Bool
  | .lit _ | .look _ | .opener _ => true
  | _ => false

/-- no quote character after the first unterminated opener -/
def quotesOk : List Piece → Bool → Bool
  | [], _ => true
  | p :: r, seen =>
    let isOp := match p with | .opener _ => true | _ => false
    (!(seen || isOp) || !hasQuote p.source) && quotesOk r (seen || isOp)

def nameOk (x : List Char) : Bool :=
  !x.isEmpty && x.all (fun c => 'a' ≤ c && c ≤ 'z') &&
  !(["nil", "null", "empty", "blank", "true", "false"].any fun k => k.toList.isPrefixOf x)

mutual
def Piece.wf (inComment : Bool) : Piece → Bool
  | .lit _ => true
  | .out d src _ => !src.isEmpty && !(src.head? == some '-' && d.il == 0 && !d.tl)
  | .outVar _ n => nameOk n
  | .assign _ n src _ => nameOk n && !src.isEmpty
  | .incr _ n => nameOk n
  | .ifb _ cs _ body hasElse _ eb _ =>
    -- (a `bad` piece may only be a direct child of a comment: inside a nested block it would be parsed)
    !cs.isEmpty && wfL false body && (!hasElse || wfL false eb)
  | .raw _ body _ =>
    body.all rawItemOk && quotesOk body false &&
    !hasSub "endraw".toList (sourceL (body.filter fun p => !isEndrawArgLook p)) &&
    !hasSub "endcomment".toList (sourceL body)
  | .comment _ body _ => wfL true body
  | .look _ => false
  | .opener _ => false
  | .bad s => inComment && !hasQuote s && !hasSub "endcomment".toList s && !hasSub "endraw".toList s
def wfL (inComment : Bool) : List Piece → Bool
  | [] => true
  | p :: r => p.wf inComment && wfL inComment r
end

def wellFormed (ps : List Piece) : Bool := wfL false ps && stretchesOk (stoksL ps) []

end Liquid.C03
