/-
  Executable spec for the structured C06 correspondence cases, computed from the truth assignment
  in the data — not through the interpreter.
-/
import LiquidModel.Model.Render
namespace Liquid.C06
open Liquid

def flag (data : Obj) (i : Nat) : Bool :=
  match objGet data ("c".toList ++ natDigits i) with
  | some (.sc (.bool b)) => b
  | _ => false

/-- `[{% if c0 %}<0>{% elsif c1 %}<1>…{% else %}E{% endif %}]` -/
def specChain (data : Obj) (arms : Nat) (withElse : Bool) : Str :=
  let first := (List.range arms).find? (flag data)
  ['['] ++ (match first with
    | some i => ['<'] ++ natDigits i ++ ['>']
    | none => if withElse then ['E'] else []) ++ [']']

/-- `c0 (and|or) c1 …` with `and` binding tighter: an `or` of `and`-groups. Bit `i-1` of `conn`
set = the connective before `c_i` is `and`. -/
def specAndOr (data : Obj) (len conn : Nat) : Bool :=
  let rec go (i : Nat) (fuel : Nat) (cur : Bool) (acc : Bool) : Bool :=
    match fuel with
    | 0 => acc || cur
    | fuel + 1 =>
      if i ≥ len then acc || cur
      else if (conn / 2 ^ (i - 1)) % 2 == 1 then go (i + 1) fuel (cur && flag data i) acc
      else go (i + 1) fuel (flag data i) (acc || cur)
  go 1 len (flag data 0) false

end Liquid.C06
