/-
  Executable specification for the C17 correspondence, written from the property text and the
  documented meaning of the directives (strftime.rs doc comments / Ruby `Time#strftime`), not
  through the parser machine of `Model/Strftime.lean`:
  * a `%` not followed by a format specifier (after optional flags, width and one `E`/`O`), or a
    width above 65535 (what the formatter can pad; after the `fix:` commit — it used to panic), is
    an error; everything else formats;
  * a numeric directive prints its calendar field right-aligned in `width` (default: the
    documented one) filled with `0` (or blanks for `_` and for `%e %k %l`), `-` prints it bare;
  * `%L` / `%N` print the first `width` (default 3 / 9) digits of the nanosecond written with nine
    digits, followed by zeros beyond nine;
  * `%%`, `%n`, `%t` are the literal; an unknown directive is copied to the output.
  The calendar fields come from `Model/Calendar.lean` (the independent calendar).
-/
import LiquidModel.Model.Calendar
namespace Liquid.C17S
open Liquid Liquid.Cal

def isFlag (c : Char) : Bool := "-_0^#".toList.contains c

/-- `%` `flags*` `digits*` `[EO]?` `directive` split off the front of what follows a `%` -/
structure Spec where
  flags : List Char
  width : Option Nat
  dir : Char
  rest : Str

def decimal (ds : List Char) : Nat := ds.foldl (fun a c => 10 * a + (c.toNat - 48)) 0

/-- `none` = malformed at this `%` -/
def splitSpec (s : Str) : Option Spec :=
  let fl := s.takeWhile isFlag
  let s1 := s.dropWhile isFlag
  let ds := s1.takeWhile Char.isDigit
  let s2 := s1.dropWhile Char.isDigit
  match s2 with
  | [] => none
  | c :: r =>
    if !ds.isEmpty && decimal ds ≥ 2 ^ 16 then none          -- a field wider than the formatter can pad (u16::MAX)
    else
      let w := if ds.isEmpty then none else some (decimal ds)
      if c == 'E' || c == 'O' then
        (match r with
         | [] => none
         | c' :: r' => some { flags := fl, width := w, dir := c', rest := r' })
      else some { flags := fl, width := w, dir := c, rest := r }

/-- what a `:` directive swallows: `z`, `:z`, or up to two further characters -/
def afterColon (r : Str) : Str :=
  match r with
  | 'z' :: r' => r'
  | ':' :: _ :: r' => r'
  | ':' :: [] => []
  | _ :: r' => r'
  | [] => []

/-- the format is one the code documents as an error -/
def malformed : Nat → Str → Bool
  | 0, _ => false
  | _ + 1, [] => false
  | f + 1, c :: r =>
    if c == '%' then
      match splitSpec r with
      | none => true
      | some sp => malformed f (if sp.dir == ':' then afterColon sp.rest else sp.rest)
    else malformed f r

def isMalformed (fmt : Str) : Bool := malformed (fmt.length + 1) fmt

/-- documented field and default width of the numeric directives (non-negative fields only) -/
def numericField (d : DT) (c : Char) : Option (Int × Nat × Bool) :=   -- (value, default width, blank padded by default)
  let n := localDay d
  match c with
  | 'Y' => some (yearOf n, 4, false)
  | 'C' => some (yearOf n / 100, 2, false)
  | 'y' => some (yearOf n % 100, 2, false)
  | 'm' => some (monthOf n, 2, false)
  | 'd' => some (dayOf n, 2, false)
  | 'e' => some (dayOf n, 2, true)
  | 'j' => some (ordinalOf n, 3, false)
  | 'H' => some (hour d, 2, false)
  | 'k' => some (hour d, 2, true)
  | 'I' => some ((hour d + 11) % 12 + 1, 2, false)
  | 'l' => some ((hour d + 11) % 12 + 1, 2, true)
  | 'M' => some (minute d, 2, false)
  | 'S' => some (second d, 2, false)
  | 'u' => some (wdIso n, 0, false)
  | 'w' => some (wdFromSunday n, 0, false)
  | 'U' => some (sundayWeek n, 2, false)
  | 'W' => some (mondayWeek n, 2, false)
  | 'G' => some (isoYear n, 4, false)
  | 'g' => some (isoYear n % 100, 2, false)
  | 'V' => some (isoWeek n, 2, false)
  | 's' => some (unixSeconds d, 0, false)
  | _ => none

def rightAlign (w : Nat) (fill : Char) (s : Str) : Str := List.replicate (w - s.length) fill ++ s

/-- last of `_` / `0` wins; `-` switches padding off -/
def fillOf (flags : List Char) (blankDefault : Bool) : Option Char :=
  if flags.contains '-' then none
  else match (flags.filter fun c => c == '_' || c == '0').getLast? with
    | some '_' => some ' '
    | some _ => some '0'
    | none => some (if blankDefault then ' ' else '0')

/-- expected output of a single-directive format `%<flags><width><c>`, where the spec has an
opinion (`none` = judged through the model only) -/
def expectSingle (d : DT) (fmt : Str) : Option Str :=
  match fmt with
  | '%' :: r =>
    match splitSpec r with
    | some sp =>
      if !sp.rest.isEmpty then none
      else if sp.dir == 'L' || sp.dir == 'N' then
        let k := sp.width.getD (if sp.dir == 'L' then 3 else 9)
        let nine := rightAlign 9 '0' (natDigits (nanos d).toNat)
        some ((nine ++ List.replicate (k - 9) '0').take k)
      else match numericField d sp.dir with
        | some (v, dw, blank) =>
          if v < 0 then none
          else
            let digits := natDigits v.toNat
            (match fillOf sp.flags blank with
             | none => some digits
             | some fill => some (rightAlign (sp.width.getD dw) fill digits))
        | none => none
    | none => none
  | _ => none

end Liquid.C17S
