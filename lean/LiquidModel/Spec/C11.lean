/-
  C11 — executable side conditions and executable laws, written from the property text.
  Import-free apart from the value model (the driver links this file).

  * side conditions of the theorems: `WF` (no `Truthy`/`DefaultValue` markers, which templates
    cannot produce), `NoTruthy`, `WFV` (object keys are distinct — the invariant of a
    `HashMap`-backed object), `NaNFree`;
  * `V.canon`: entries of every object sorted by key — the construction-independent
    representative of a value;
  * `POb`/`lawsPair`…: the laws of the property evaluated on what the *implementation* answered.
-/
import LiquidModel.Model.Value
namespace Liquid

/-! ### `every`: a predicate holds at every node of a value -/

mutual
def V.every (p : V → Bool) : V → Bool
  | .arr xs => p (.arr xs) && everyL p xs
  | .obj kvs => p (.obj kvs) && everyO p kvs
  | v => p v
def everyL (p : V → Bool) : List V → Bool
  | [] => true
  | x :: xs => x.every p && everyL p xs
def everyO (p : V → Bool) : List (Str × V) → Bool
  | [] => true
  | (_, x) :: xs => x.every p && everyO p xs
end

namespace C11

def keysNodup : List Str → Bool
  | [] => true
  | k :: r => !(r.contains k) && keysNodup r

def keys (kvs : Obj) : List Str := kvs.map (·.1)

def isNoMarker : V → Bool
  | .st .truthy => false
  | .st .dflt => false
  | _ => true

def isNoTruthy : V → Bool
  | .st .truthy => false
  | _ => true

def isNanFree : V → Bool
  | .sc (.flt f) => (match f.toFV with | .nan => false | _ => true)
  | _ => true

def isKeysNodup : V → Bool
  | .obj kvs => keysNodup (keys kvs)
  | _ => true

/-- WF of DESIGN §7/C11: no `Truthy`/`DefaultValue` marker anywhere in the value. -/
def WF (v : V) : Bool := v.every isNoMarker
/-- weaker: no `Truthy` marker anywhere (this is all the symmetry/reflexivity proofs need). -/
def NoTruthy (v : V) : Bool := v.every isNoTruthy
/-- every object in the value has pairwise distinct keys. -/
def WFV (v : V) : Bool := v.every isKeysNodup
/-- no NaN anywhere in the value. -/
def NaNFree (v : V) : Bool := v.every isNanFree

def swapO : Option Ordering → Option Ordering
  | some .lt => some .gt
  | some .gt => some .lt
  | o => o

/-! ### canonical representative: every object's entries sorted by key -/

mutual
def canon : V → V
  | .arr xs => .arr (canonL xs)
  | .obj kvs => .obj (sortK (canonO kvs))
  | v => v
def canonL : List V → List V
  | [] => []
  | x :: xs => canon x :: canonL xs
def canonO : List (Str × V) → List (Str × V)
  | [] => []
  | (k, x) :: xs => (k, canon x) :: canonO xs
end

/-- Two transmitted instances denote the same value: identical after sorting entries by key
(floats by bit pattern). -/
def sameValue (a b : V) : Bool := (canon a).same (canon b)

/-! ### laws on observed behaviour -/

/-- What one API answered for the ordered pair (a, b). `cmp`/`lt…` are absent for APIs without
`PartialOrd` (`ValueCow`). -/
structure POb where
  eq : Bool
  ne : Bool
  ord : Option (Option Ordering × Bool × Bool × Bool × Bool) := none   -- cmp, lt, le, gt, ge

def ordStr : Option Ordering → String
  | some .lt => "lt" | some .eq => "eq" | some .gt => "gt" | none => "none"

/-- laws that involve one direction only; returns the name of the first violated law. -/
def lawsOne (wfv : Bool) (o : POb) : Option String :=
  if o.ne != !o.eq then some "ne-is-negation"
  else match o.ord with
    | none => none
    | some (c, lt, le, gt, ge) =>
      if lt != (c == some .lt) then some "lt-iff-cmp-lt"
      else if gt != (c == some .gt) then some "gt-iff-cmp-gt"
      else if le != (c == some .lt || c == some .eq) then some "le-iff-lt-or-cmp-eq"
      else if ge != (c == some .gt || c == some .eq) then some "ge-iff-gt-or-cmp-eq"
      else if wfv && c == some .eq && !o.eq then some "cmp-eq-implies-equal"
      else if wfv && o.eq && (c == some .lt || c == some .gt) then some "equal-never-strictly-ordered"
      else none

/-- laws relating the two directions (a,b) and (b,a). -/
def lawsTwo (noTruthy wfv : Bool) (f b : POb) : Option String :=
  if noTruthy && wfv && f.eq != b.eq then some "eq-symmetric"
  else match f.ord, b.ord with
    | some (c, lt, _, gt, _), some (c', lt', _, gt', _) =>
      if c' != swapO c then some "cmp-dual"
      else if lt != gt' || gt != lt' then some "lt-gt-dual"
      else none
    | _, _ => none

/-- does the float denote the integer `n`? -/
def denotesInt (f : Fl) (n : Int) : Bool :=
  match f.toFV with
  | .fin q => q == n * 2^1074
  | _ => false

def twoP53 : Int := 9007199254740992

/-- value-dependent laws for the ordered pair (a, b) given the observed equality. -/
def lawsValues (a b : V) (eq : Bool) : Option String :=
  let refl : Option String :=
    if sameValue a b && NoTruthy a && WFV a && WFV b && NaNFree a && !eq then some "reflexive" else none
  let intFloat : Option String :=
    match a, b with
    | .sc (.int n), .sc (.flt f) =>
      if -twoP53 ≤ n && n ≤ twoP53 && eq != denotesInt f n then some "int-float-same-number" else none
    | .sc (.flt f), .sc (.int n) =>
      if -twoP53 ≤ n && n ≤ twoP53 && eq != denotesInt f n then some "int-float-same-number" else none
    | _, _ => none
  refl <|> intFloat

/-! ### transitivity inside one scalar kind (what does hold on triples) -/

/-- kinds inside which `scalar_cmp` is a total preorder and `scalar_eq` an equivalence. -/
def scKind : Sc → Nat
  | .int _ => 0 | .flt _ => 1 | .bool _ => 2 | .dt _ => 3 | .date _ => 4 | .str _ => 5

def sameScKind : V → V → V → Bool
  | .sc x, .sc y, .sc z => scKind x == scKind y && scKind y == scKind z
  | _, _, _ => false

/-- `eqs = (a==b, b==c, a==c)`, `cmps = (cmp a b, cmp b c, cmp a c)` as observed. -/
def lawsTriple (a b c : V) (eab ebc eac : Bool) (cab cbc cac : Option Ordering) : Option String :=
  if !sameScKind a b c then none
  else if eab && ebc && !eac then some "eq-transitive-within-kind"
  else if cab == some .lt && cbc == some .lt && cac != some .lt then some "lt-transitive-within-kind"
  else if (cab == some .lt || cab == some .eq) && (cbc == some .lt || cbc == some .eq)
          && !(cac == some .lt || cac == some .eq) then some "le-transitive-within-kind"
  else none

/-! ### what the model answers, in the shape of an observation -/

/-- Rust's provided `PartialEq::ne` (no impl in the crate overrides it). -/
def vNe (a b : V) : Bool := !valueEq a b

/-- the model's answers for the ordered pair (a, b) as an API with (`withOrd`) or without `PartialOrd` -/
def modelPOb (a b : V) (withOrd : Bool) : POb :=
  { eq := valueEq a b, ne := vNe a b,
    ord := if withOrd then some (valueCmp a b, vLt a b, vLe a b, vGt a b, vGe a b) else none }

/-! ### sample values used by the examples and counterexamples of Props/C11.lean -/

def i (n : Int) : V := .sc (.int n)
def fl (bits : Nat) : V := .sc (.flt { bits := bits })
def bT : V := .sc (.bool true)
def bF : V := .sc (.bool false)
def f1 : Nat := 0x3FF0000000000000          -- 1.0
def fNaN : Nat := 0x7FF8000000000000
def f2p53 : Nat := 0x4340000000000000       -- 9007199254740992.0
def oAB : V := .obj [("a".toList, i 1), ("b".toList, i 2)]
def oBA : V := .obj [("b".toList, i 2), ("a".toList, i 1)]
def dtX : V := .sc (.dt { loc := 18262 * nsPerDay + 23 * 3600 * 1000000000, off := -43200 })  -- 2020-01-01 23:00 -12:00
def dtY : V := .sc (.dt { loc := 18264 * nsPerDay, off := 50400 })                             -- 2020-01-03 00:00 +14:00
def dD : V := .sc (.date { days := 18263 })                                                    -- 2020-01-02

end C11
end Liquid
