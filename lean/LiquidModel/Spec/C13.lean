/-
  Executable specification for the C13 correspondence cases: reference implementations of the
  string filters written from their documentation in a style different from the model
  (`dropWhile`/`reverse`, fuel-driven scanners, folds, integer offset arithmetic) plus the laws of
  the property (truncate bound, slice infix/length, split/join, strip shape) as Boolean predicates.
  It judges the *implementation's* observed result independently of `Model/StrFilters.lean`.
  Only the external Unicode tables (`StrF.Uni`: case maps, grapheme segmentation) are shared.
-/
import LiquidModel.Model.StrFilters
namespace Liquid.C13S
open Liquid

abbrev Uni := StrF.Uni

/-- what the implementation was seen to do -/
inductive Obs where
  | ok (v : V)
  | err (hasMsg : Bool)
  | panic
  deriving Inhabited

def str (s : Str) : V := .sc (.str s)

/-! ### reference functions -/

def refLstrip (s : Str) : Str := s.dropWhile isUniWs
def refRstrip (s : Str) : Str := (s.reverse.dropWhile isUniWs).reverse
def refStrip (s : Str) : Str := refRstrip (refLstrip s)

def refJoin (sep : Str) : List Str → Str
  | [] => []
  | x :: r => r.foldl (fun acc y => acc ++ sep ++ y) x

/-- left-to-right scanner: copy a character, or at an occurrence emit `to` and skip the occurrence -/
def refReplaceF (pat to : Str) : Nat → Str → Str
  | 0, s => s
  | _ + 1, [] => []
  | f + 1, c :: r =>
    if pat.isPrefixOf (c :: r) then to ++ refReplaceF pat to f ((c :: r).drop pat.length)
    else c :: refReplaceF pat to f r

def refReplace (pat to s : Str) : Str :=
  if pat.isEmpty then to ++ s.flatMap (fun c => c :: to) else refReplaceF pat to (s.length + 1) s

/-- scanner with the current piece as accumulator -/
def refSplitF (pat : Str) : Nat → Str → Str → List Str
  | 0, cur, _ => [cur.reverse]
  | _ + 1, cur, [] => [cur.reverse]
  | f + 1, cur, c :: r =>
    if pat.isPrefixOf (c :: r) then cur.reverse :: refSplitF pat f [] ((c :: r).drop pat.length)
    else refSplitF pat f (c :: cur) r

def refSplit (pat s : Str) : List Str :=
  if pat.isEmpty then [[]] ++ s.map (fun c => [c]) ++ [[]] else refSplitF pat (s.length + 1) [] s

/-- index of the first occurrence -/
def refFind (pat : Str) : Nat → Str → Option Nat
  | i, [] => if pat.isEmpty then some i else none
  | i, c :: r => if pat.isPrefixOf (c :: r) then some i else refFind pat (i + 1) r

def refReplaceFirst (pat to s : Str) : Str :=
  match refFind pat 0 s with
  | some i => s.take i ++ to ++ s.drop (i + pat.length)
  | none => s

def asciiUp (c : Char) : Char := if 'a' ≤ c ∧ c ≤ 'z' then Char.ofNat (c.toNat - 32) else c
def asciiDown (c : Char) : Char := if 'A' ≤ c ∧ c ≤ 'Z' then Char.ofNat (c.toNat + 32) else c
def isAscii (s : Str) : Bool := s.all (fun c => c.toNat < 128)

/-- `slice` from its documentation, on any list -/
def refSlice {α} (off len : Int) (s : List α) : List α :=
  let n : Int := s.length
  let start : Int := if off < 0 then n + off else off
  if start < 0 then [] else (s.drop start.toNat).take len.toNat

/-- words of `truncatewords`: maximal runs between single spaces (a fold from the right) -/
def refWords (s : Str) : List Str :=
  s.foldr (fun c acc => if c == ' ' then [] :: acc else
    match acc with
    | w :: ws => (c :: w) :: ws
    | [] => [[c]]) [[]]

def refInt : V → Option Int
  | .sc (.int i) => some i
  | .sc (.str s) => parseI64 s
  | _ => none

def isInfix (p s : Str) : Bool :=
  match s with
  | [] => p.isEmpty
  | _ :: r => p.isPrefixOf s || isInfix p r

/-- `none`: nothing expected by this table; `some none`: an error is documented;
`some (some v)`: the documented result. -/
def expected (u : Uni) (name : String) (x : V) (args : List V) : Option (Option V) :=
  let s := x.render
  match name, args with
  | "append", [a] => some (some (str (s ++ a.render)))
  | "prepend", [a] => some (some (str (a.render ++ s)))
  | "upcase", [] => some (some (str (if isAscii s then s.map asciiUp else s.flatMap u.upper)))
  | "downcase", [] => some (some (str (if isAscii s then s.map asciiDown else s.flatMap u.lower)))
  | "capitalize", [] =>
    some (some (str (match s with
      | [] => []
      | c :: r => (if c.toNat < 128 then [asciiUp c] else u.upper c) ++ r)))
  | "strip", [] => some (some (str (refStrip s)))
  | "lstrip", [] => some (some (str (refLstrip s)))
  | "rstrip", [] => some (some (str (refRstrip s)))
  | "strip_newlines", [] => some (some (str (s.filter fun c => !(c == '\n' || c == '\r'))))
  | "newline_to_br", [] => some (some (str (refReplace ['\n'] "<br />\n".toList s)))
  | "replace", [p] => some (some (str (refReplace p.render [] s)))
  | "replace", [p, t] => some (some (str (refReplace p.render t.render s)))
  | "remove", [p] => some (some (str (refReplace p.render [] s)))
  | "replace_first", [p] => some (some (str (refReplaceFirst p.render [] s)))
  | "replace_first", [p, t] => some (some (str (refReplaceFirst p.render t.render s)))
  | "remove_first", [p] => some (some (str (refReplaceFirst p.render [] s)))
  | "split", [p] => some (some (.arr (if s.isEmpty then [] else (refSplit p.render s).map str)))
  | "join", [] => (match x with | .arr xs => some (some (str (refJoin [' '] (xs.map V.render)))) | _ => some none)
  | "join", [p] => (match x with | .arr xs => some (some (str (refJoin p.render (xs.map V.render)))) | _ => some none)
  | "size", [] =>
    some (some (.sc (.int (match x with
      | .sc sc => sc.render.length
      | .arr xs => xs.length
      | .obj kvs => kvs.length
      | _ => 0))))
  | "first", [] =>
    (match x with
     | .sc sc => some (some (str (sc.render.take 1)))
     | .arr xs => some (some (xs.head?.getD .nil))
     | _ => some none)
  | "last", [] =>
    (match x with
     | .sc sc => some (some (str (sc.render.reverse.take 1)))
     | .arr xs => some (some (xs.reverse.head?.getD .nil))
     | _ => some none)
  | "default", [d] =>
    let isDefault := match x with
      | .nil => true
      | .sc (.bool b) => !b
      | .sc (.str t) => t.isEmpty
      | .arr xs => xs.isEmpty
      | .obj kvs => kvs.isEmpty
      | .st _ => true
      | _ => false
    some (some (if isDefault then d else x))
  | "slice", o :: rest =>
    (match refInt o, rest with
     | some off, [] =>
       (match x with
        | .arr xs => some (some (.arr (refSlice off 1 xs)))
        | _ => some (some (str (refSlice off 1 s))))
     | some off, [l] =>
       (match refInt l with
        | some len =>
          if len < 1 then some none else
          (match x with
           | .arr xs => some (some (.arr (refSlice off len xs)))
           | _ => some (some (str (refSlice off len s))))
        | none => some none)
     | none, [] => some none
     | none, [_] => some none
     | _, _ => none)
  | "truncate", _ =>
    let go (n : Int) (e : Str) : Option (Option V) :=
      if n < 0 || (s.length : Int) ≤ n then some (some x)
      else some (some (str (((u.seg s).take (n.toNat - e.length)).flatten ++ e)))
    (match args with
     | [] => go 50 "...".toList
     | [n] => (match refInt n with | some n => go n "...".toList | none => some none)
     | [n, e] => (match refInt n with | some n => go n e.render | none => some none)
     | _ => none)
  | "truncatewords", _ =>
    let go (n : Int) (e : Str) : Option (Option V) :=
      let ws := refWords s
      if n < 0 || (ws.length : Int) ≤ n then some (some x)
      else some (some (str (refJoin [' '] (ws.take n.toNat) ++ e)))
    (match args with
     | [] => go 50 "...".toList
     | [n] => (match refInt n with | some n => go n "...".toList | none => some none)
     | [n, e] => (match refInt n with | some n => go n e.render | none => some none)
     | _ => none)
  | _, _ => none

/-- arity table (required, optional) from the parameter structs -/
def arity : String → Option (Nat × Nat)
  | "append" | "prepend" | "remove" | "remove_first" | "split" | "default" => some (1, 0)
  | "replace" | "replace_first" | "slice" => some (1, 1)
  | "join" => some (0, 1)
  | "truncate" | "truncatewords" => some (0, 2)
  | "upcase" | "downcase" | "capitalize" | "strip" | "lstrip" | "rstrip" | "strip_newlines"
  | "newline_to_br" | "size" | "first" | "last" => some (0, 0)
  | _ => none

/-! ### laws evaluated on the observed result -/

def strOf : V → Option Str
  | .sc (.str s) => some s
  | _ => none

/-- the laws of the property, on what the implementation returned -/
def laws (u : Uni) (name : String) (x : V) (args : List V) (out : V) : Option String :=
  let s := x.render
  match name with
  | "strip" | "lstrip" | "rstrip" =>
    (match strOf out with
     | some o =>
       if !isInfix o s then some "strip-result-is-a-piece-of-the-input"
       else if name != "rstrip" && (o.head?.map isUniWs).getD false then some "strip-leading-whitespace-left"
       else if name != "lstrip" && (o.getLast?.map isUniWs).getD false then some "strip-trailing-whitespace-left"
       else if (o.filter (fun c => !isUniWs c)) != (s.filter (fun c => !isUniWs c)) then some "strip-removed-non-whitespace"
       else none
     | none => some "strip-returns-a-string")
  | "split" =>
    (match out, args with
     | .arr ps, [p] =>
       let pat := p.render
       let pieces := ps.map V.render
       if refJoin pat pieces != s then some "split-join-identity"
       else if !pat.isEmpty && pieces.any (fun q => isInfix pat q) then some "split-piece-contains-separator"
       else none
     | _, _ => some "split-returns-an-array")
  | "slice" =>
    (match x, out, args with
     | .arr _, _, _ => none
     | _, .sc (.str o), off :: rest =>
       let len : Int := match rest with | [l] => (refInt l).getD 1 | _ => 1
       let _ := off
       if !isInfix o s then some "slice-is-a-contiguous-piece"
       else if (o.length : Int) > len then some "slice-length-bound"
       else none
     | _, _, _ => some "slice-returns-a-string")
  | "truncate" =>
    (match args with
     | [] | [_] | [_, _] =>
       let n : Int := match args with | a :: _ => (refInt a).getD 0 | [] => 50
       let e : Str := match args with | [_, b] => b.render | _ => "...".toList
       if n < 0 then (if out.same x then none else some "truncate-negative-limit-is-no-limit") else
       let o := out.render
       -- never longer than the larger of limit and ellipsis, in grapheme clusters
       if (u.seg o).length > max n.toNat (u.seg e).length then some "truncate-length-bound"
       else if s.length ≤ n.toNat then (if out.same x then none else some "truncate-changed-an-input-within-the-limit")
       else if !(e.isSuffixOf o && (o.take (o.length - e.length)).isPrefixOf s) then some "truncate-prefix-plus-ellipsis"
       else none
     | _ => none)
  | "size" =>
    (match out with
     | .sc (.int i) => if i < 0 then some "size-non-negative" else none
     | _ => some "size-returns-an-integer")
  | _ => none

/-- verdict on one observed filter application: `none` = fine, `some law` = violated -/
def check (u : Uni) (name : String) (x : V) (args : List V) (obs : Obs) : Option String :=
  match obs with
  | .panic => some "no-panic"
  | .err false => some "error-has-message"
  | .err true =>
    (match arity name with
     | some (req, opt) =>
       if args.length < req || args.length > req + opt then none else
       (match expected u name x args with
        | some (some _) => some "unexpected-error"
        | _ => none)
     | none => none)
  | .ok out =>
    (match arity name with
     | some (req, opt) =>
       if args.length < req || args.length > req + opt then some "arity-error-expected" else
       (match laws u name x args out with
        | some l => some l
        | none =>
          (match expected u name x args with
           | some (some v) => if v.same out then none else some ("reference-" ++ name)
           | some none => some "error-expected"
           | none => none))
     | none => none)

end Liquid.C13S
