/-
  Specification vocabulary for C16, written from the property text (not from the filters' code):
  the language `(Safe | Entity)*`, "replacing the entities back", the URL output alphabet, and
  "contains a complete `<…>` tag".  Everything the correspondence evaluates on the
  implementation's observed output is an executable `Bool`/`Str` function here; the theorems in
  `Props/C16.lean` are stated with the same functions (and with the inductive `SafeEnt`/`UrlLang`
  whose agreement with the executable versions is proved there).  Import-free.
-/
import LiquidModel.Model.Html
import LiquidModel.Model.Url
namespace Liquid.C16
open Liquid Liquid.Html Liquid.Url

/-! ### HTML -/

def isSpecial (c : Char) : Bool := c == '<' || c == '>' || c == '\'' || c == '"' || c == '&'

/-- the five entities `escape` produces, with the character each stands for -/
def entities : List (Char × Str) :=
  [('<', ['&', 'l', 't', ';']), ('>', ['&', 'g', 't', ';']), ('\'', ['&', '#', '3', '9', ';']),
   ('"', ['&', 'q', 'u', 'o', 't', ';']), ('&', ['&', 'a', 'm', 'p', ';'])]

def entityStrs : List Str := entities.map (·.2)

/-- what `escape` writes for one character: its entity for the five specials, the character otherwise -/
def escChar (c : Char) : Str :=
  if c = '<' then entLt else if c = '>' then entGt else if c = '\'' then ent39
  else if c = '"' then entQuot else if c = '&' then entAmp else [c]

/-- `(Safe | Entity)*`: a string made of characters other than `< > ' " &` and of the five entities -/
inductive SafeEnt : Str → Prop
  | nil : SafeEnt []
  | safe (c : Char) (t : Str) : isSpecial c = false → SafeEnt t → SafeEnt (c :: t)
  | ent (e : Str) (t : Str) : e ∈ entityStrs → SafeEnt t → SafeEnt (e ++ t)

/-- which entity (given without its `&`) starts the text: the character it stands for and the
number of characters after the `&` -/
def entityAt (r : Str) : Option (Char × Nat) :=
  if ['l', 't', ';'].isPrefixOf r then some ('<', 3)
  else if ['g', 't', ';'].isPrefixOf r then some ('>', 3)
  else if ['#', '3', '9', ';'].isPrefixOf r then some ('\'', 4)
  else if ['q', 'u', 'o', 't', ';'].isPrefixOf r then some ('"', 5)
  else if ['a', 'm', 'p', ';'].isPrefixOf r then some ('&', 4)
  else none

/-- "replacing those entities back": one left-to-right pass, every entity becomes its character,
everything else (also an `&` that starts no entity) stays.  First argument: characters of the
current entity still to be passed over. -/
def unescGo : Nat → Str → Str
  | _, [] => []
  | k + 1, _ :: r => unescGo k r
  | 0, c :: r =>
    if c = '&' then
      match entityAt r with
      | some (ch, n) => ch :: unescGo n r
      | none => c :: unescGo 0 r
    else c :: unescGo 0 r

def unescape (s : Str) : Str := unescGo 0 s

/-- executable membership test for `(Safe | Entity)*` -/
def langGo : Nat → Str → Bool
  | _, [] => true
  | k + 1, _ :: r => langGo k r
  | 0, c :: r =>
    if c = '&' then
      match entityAt r with
      | some (_, n) => langGo n r
      | none => false
    else if isSpecial c then false
    else langGo 0 r

def inLang (s : Str) : Bool := langGo 0 s

/-- a complete tag: some `<` with a `>` somewhere behind it -/
def HasTag (s : Str) : Prop := ∃ a b c : Str, s = a ++ '<' :: b ++ '>' :: c

/-- executable: is there a `>` behind the first `<`? -/
def hasTag : Str → Bool
  | [] => false
  | c :: r => if c = '<' then r.contains '>' else hasTag r

/-! ### URL -/

def isUnreservedChar (c : Char) : Bool :=
  let n := c.toNat
  (48 ≤ n && n ≤ 57) || (65 ≤ n && n ≤ 90) || (97 ≤ n && n ≤ 122) || c == '-' || c == '.' || c == '_'

def isUpperHex (c : Char) : Bool :=
  let n := c.toNat
  (48 ≤ n && n ≤ 57) || (65 ≤ n && n ≤ 70)

/-- `(Unreserved | '%' HEX HEX)*` -/
inductive UrlLang : Str → Prop
  | nil : UrlLang []
  | plain (c : Char) (t : Str) : isUnreservedChar c = true → UrlLang t → UrlLang (c :: t)
  | pct (h l : Char) (t : Str) : isUpperHex h = true → isUpperHex l = true → UrlLang t → UrlLang ('%' :: h :: l :: t)

/-- executable membership test for `UrlLang` -/
def urlLang : Str → Bool
  | [] => true
  | c :: r =>
    if c = '%' then
      match r with
      | h :: l :: r2 => isUpperHex h && isUpperHex l && urlLang r2
      | _ => false
    else isUnreservedChar c && urlLang r

/-! ### verdicts on observed behaviour (used by the driver) -/

/-- escape: output in the language, and unescaping gives the input back -/
def escapeLaw (s out : Str) : Option String :=
  if !inLang out then some "escape-output-not-in-(Safe|Entity)*"
  else if unescape out != s then some "unescape(escape s) != s"
  else none

/-- escape_once: output in the language, same text after unescaping, second application changes nothing -/
def onceLaw (s out out2 : Str) : Option String :=
  if !inLang out then some "escape_once-output-not-in-(Safe|Entity)*"
  else if unescape out != unescape s then some "unescape(escape_once s) != unescape s"
  else if out2 != out then some "escape_once-not-idempotent"
  else none

/-- existing entity `e` between `p` and `t` is kept, and what surrounds it is treated as if alone -/
def keepsLaw (e whole pOut tOut : Str) : Option String :=
  if whole != pOut ++ e ++ tOut then some "escape_once-touched-an-existing-entity" else none

/-- url_encode alphabet, and url_decode inverts it -/
def urlEncLaw (s enc : Str) (back : Option Str) : Option String :=
  if !urlLang enc then some "url_encode-output-alphabet"
  else if back != some s then some "url_decode(url_encode s) != s"
  else none

/-- url_decode on an arbitrary string: an error exactly when the decoded bytes are not UTF-8,
otherwise the string those bytes encode -/
def urlDecLaw (s : Str) (dec : Option Str) : Option String :=
  let bytes := decodedBytes s
  match dec with
  | none => if validUtf8 bytes then some "url_decode-error-on-valid-utf8" else none
  | some t => if !validUtf8 bytes then some "url_decode-accepted-invalid-utf8"
              else if utf8Enc t != bytes then some "url_decode-wrong-bytes" else none

def stripLaw (out : Str) : Option String :=
  if hasTag out then some "strip_html-output-has-a-complete-tag" else none

end Liquid.C16
