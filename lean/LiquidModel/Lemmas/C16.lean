/-
  Helper lemmas for C16 (escape / escape_once / strip_html / url_encode / url_decode / UTF-8).
  Core tactics only; no Mathlib import.
-/
import LiquidModel.Spec.C16
namespace Liquid.C16
open Liquid Liquid.Html

theorem escGo_skip (once : Bool) (p t : Str) : escGo once p.length (p ++ t) = p ++ escGo once 0 t := by
  induction p with
  | nil => simp
  | cons c p ih => simp [escGo, ih]

theorem unescGo_skip (p t : Str) : unescGo p.length (p ++ t) = unescGo 0 t := by
  induction p with
  | nil => simp
  | cons c p ih => simp [unescGo, ih]

theorem langGo_skip (p t : Str) : langGo p.length (p ++ t) = langGo 0 t := by
  induction p with
  | nil => simp
  | cons c p ih => simp [langGo, ih]

theorem escape_cons (c : Char) (r : Str) : escape (c :: r) = escChar c ++ escape r := by
  unfold escape escChar
  simp only [escGo]
  split <;> try rfl
  split <;> try rfl
  split <;> try rfl
  split <;> try rfl
  split <;> simp

theorem escape_eq_flatMap (s : Str) : escape s = s.flatMap escChar := by
  induction s with
  | nil => rfl
  | cons c r ih => rw [escape_cons, ih]; simp

theorem unescape_escChar (c : Char) (t : Str) : unescGo 0 (escChar c ++ t) = c :: unescGo 0 t := by
  unfold escChar
  split
  · subst_vars; simp [unescGo, entLt, tailLt, entityAt]
  split
  · subst_vars; simp [unescGo, entGt, tailGt, entityAt]
  split
  · subst_vars; simp [unescGo, ent39, tail39, entityAt]
  split
  · subst_vars; simp [unescGo, entQuot, tailQuot, entityAt]
  split
  · subst_vars; simp [unescGo, entAmp, tailAmp, entityAt]
  · simp [unescGo, *]

theorem unescape_escape (s : Str) : unescape (escape s) = s := by
  induction s with
  | nil => rfl
  | cons c r ih =>
    rw [escape_cons]; unfold unescape at *; rw [unescape_escChar, ih]



/-! ### `(Safe | Entity)*` -/

theorem isSpecial_escChar_single (c : Char) (h : isSpecial c = false) : escChar c = [c] := by
  unfold isSpecial at h
  simp only [Bool.or_eq_false_iff, beq_eq_false_iff_ne] at h
  unfold escChar
  simp [h.1.1.1.1, h.1.1.1.2, h.1.1.2, h.1.2, h.2]

theorem escChar_safeEnt (c : Char) (t : Str) (ht : SafeEnt t) : SafeEnt (escChar c ++ t) := by
  by_cases hs : isSpecial c = false
  · rw [isSpecial_escChar_single c hs]; exact SafeEnt.safe c t hs ht
  · unfold escChar
    split
    · exact SafeEnt.ent _ _ (by simp [entityStrs, entities, entLt, tailLt]) ht
    split
    · exact SafeEnt.ent _ _ (by simp [entityStrs, entities, entGt, tailGt]) ht
    split
    · exact SafeEnt.ent _ _ (by simp [entityStrs, entities, ent39, tail39]) ht
    split
    · exact SafeEnt.ent _ _ (by simp [entityStrs, entities, entQuot, tailQuot]) ht
    split
    · exact SafeEnt.ent _ _ (by simp [entityStrs, entities, entAmp, tailAmp]) ht
    · exfalso; apply hs; simp [isSpecial, *]

theorem escape_safeEnt (s : Str) : SafeEnt (escape s) := by
  induction s with
  | nil => exact SafeEnt.nil
  | cons c r ih => rw [escape_cons]; exact escChar_safeEnt c _ ih

/-- shape of a successful `entityAt` -/
theorem entityAt_some {r : Str} {ch : Char} {n : Nat} (h : entityAt r = some (ch, n)) :
    ∃ tail r', r = tail ++ r' ∧ n = tail.length ∧ (ch, '&' :: tail) ∈ entities := by
  unfold entityAt at h
  split at h
  · rename_i hp; rw [List.isPrefixOf_iff_prefix] at hp; obtain ⟨r', rfl⟩ := hp
    simp only [Option.some.injEq, Prod.mk.injEq] at h
    exact ⟨_, r', rfl, by simp [← h.2], by simp [entities, ← h.1]⟩
  split at h
  · rename_i hp; rw [List.isPrefixOf_iff_prefix] at hp; obtain ⟨r', rfl⟩ := hp
    simp only [Option.some.injEq, Prod.mk.injEq] at h
    exact ⟨_, r', rfl, by simp [← h.2], by simp [entities, ← h.1]⟩
  split at h
  · rename_i hp; rw [List.isPrefixOf_iff_prefix] at hp; obtain ⟨r', rfl⟩ := hp
    simp only [Option.some.injEq, Prod.mk.injEq] at h
    exact ⟨_, r', rfl, by simp [← h.2], by simp [entities, ← h.1]⟩
  split at h
  · rename_i hp; rw [List.isPrefixOf_iff_prefix] at hp; obtain ⟨r', rfl⟩ := hp
    simp only [Option.some.injEq, Prod.mk.injEq] at h
    exact ⟨_, r', rfl, by simp [← h.2], by simp [entities, ← h.1]⟩
  split at h
  · rename_i hp; rw [List.isPrefixOf_iff_prefix] at hp; obtain ⟨r', rfl⟩ := hp
    simp only [Option.some.injEq, Prod.mk.injEq] at h
    exact ⟨_, r', rfl, by simp [← h.2], by simp [entities, ← h.1]⟩
  · cases h

/-- `entityAt` finds each of the five entity tails -/
theorem entityAt_of_mem {ch : Char} {tail : Str} (h : (ch, '&' :: tail) ∈ entities) (t : Str) :
    entityAt (tail ++ t) = some (ch, tail.length) := by
  simp only [entities, List.mem_cons, Prod.mk.injEq, List.cons.injEq, true_and, List.mem_nil_iff, or_false] at h
  rcases h with ⟨rfl, rfl⟩ | ⟨rfl, rfl⟩ | ⟨rfl, rfl⟩ | ⟨rfl, rfl⟩ | ⟨rfl, rfl⟩ <;> simp [entityAt]

theorem mem_entityStrs {e : Str} (h : e ∈ entityStrs) : ∃ ch tail, e = '&' :: tail ∧ (ch, '&' :: tail) ∈ entities := by
  simp only [entityStrs, entities, List.map_cons, List.map_nil, List.mem_cons, List.mem_nil_iff, or_false] at h
  rcases h with rfl | rfl | rfl | rfl | rfl
  · exact ⟨'<', _, rfl, by simp [entities]⟩
  · exact ⟨'>', _, rfl, by simp [entities]⟩
  · exact ⟨'\'', _, rfl, by simp [entities]⟩
  · exact ⟨'"', _, rfl, by simp [entities]⟩
  · exact ⟨'&', _, rfl, by simp [entities]⟩

theorem inLang_of_safeEnt {t : Str} (h : SafeEnt t) : inLang t = true := by
  induction h with
  | nil => rfl
  | safe c t hc _ ih =>
    have hne : c ≠ '&' := by intro h; subst h; simp [isSpecial] at hc
    unfold inLang at *; simp [langGo, hne, hc, ih]
  | ent e t he _ ih =>
    obtain ⟨ch, tail, rfl, hm⟩ := mem_entityStrs he
    unfold inLang at *
    simp only [List.cons_append, langGo, if_true, entityAt_of_mem hm t, langGo_skip, ih]

theorem safeEnt_of_langGo (n : Nat) : ∀ t : Str, t.length ≤ n → langGo 0 t = true → SafeEnt t := by
  induction n with
  | zero => intro t hl _; have : t = [] := List.eq_nil_of_length_eq_zero (by omega); subst this; exact SafeEnt.nil
  | succ n ih =>
    intro t hl h
    cases t with
    | nil => exact SafeEnt.nil
    | cons c r =>
      simp only [langGo] at h
      split at h
      · rename_i hc; subst hc
        split at h
        · rename_i ch k hk
          obtain ⟨tail, r', rfl, rfl, hm⟩ := entityAt_some hk
          rw [langGo_skip] at h
          have : SafeEnt r' := ih r' (by simp at hl; omega) h
          have := SafeEnt.ent ('&' :: tail) r' (by
            simp only [entityStrs, List.mem_map]; exact ⟨_, hm, rfl⟩) this
          simpa using this
        · cases h
      · split at h
        · cases h
        · rename_i hs
          exact SafeEnt.safe c r (by simpa using hs) (ih r (by simp at hl; omega) h)

theorem inLang_iff_safeEnt (t : Str) : inLang t = true ↔ SafeEnt t :=
  ⟨safeEnt_of_langGo t.length t (Nat.le_refl _), inLang_of_safeEnt⟩


/-! ### escape_once -/

theorem nrEscaped_eq (r : Str) : nrEscaped r = match entityAt r with | some (_, n) => n | none => 0 := by
  unfold nrEscaped entityAt tailLt tailGt tail39 tailQuot tailAmp
  split; · rfl
  split; · rfl
  split; · rfl
  split; · rfl
  split <;> rfl

/-- induction along the way `escape_once` (and `unescape`) read a string: plain character,
`&` that starts no entity, or a whole existing entity -/
theorem once_induction {P : Str → Prop} (nil : P [])
    (chr : ∀ c r, c ≠ '&' → P r → P (c :: r))
    (amp : ∀ r, entityAt r = none → P r → P ('&' :: r))
    (ent : ∀ ch tail r', (ch, '&' :: tail) ∈ entities → P r' → P ('&' :: tail ++ r')) :
    ∀ s, P s := by
  have aux : ∀ n, ∀ s : Str, s.length ≤ n → P s := by
    intro n
    induction n with
    | zero => intro s hl; have : s = [] := List.eq_nil_of_length_eq_zero (by omega); subst this; exact nil
    | succ n ih =>
      intro s hl
      cases s with
      | nil => exact nil
      | cons c r =>
        simp only [List.length_cons] at hl
        by_cases hc : c = '&'
        · subst hc
          cases he : entityAt r with
          | none => exact amp r he (ih r (by omega))
          | some v =>
            obtain ⟨ch, k⟩ := v
            obtain ⟨tail, r', rfl, rfl, hm⟩ := entityAt_some he
            exact ent ch tail r' hm (ih r' (by simp at hl; omega))
        · exact chr c r hc (ih r (by omega))
  exact fun s => aux s.length s (Nat.le_refl _)

theorem once_chr (c : Char) (r : Str) (hc : c ≠ '&') : escapeOnce (c :: r) = escChar c ++ escapeOnce r := by
  unfold escapeOnce escChar
  simp only [escGo]
  split; · rfl
  split; · rfl
  split; · rfl
  split; · rfl
  simp

theorem once_amp (r : Str) (h : entityAt r = none) : escapeOnce ('&' :: r) = entAmp ++ escapeOnce r := by
  unfold escapeOnce
  simp [escGo, nrEscaped_eq, h]

theorem once_ent {ch : Char} {tail : Str} (hm : (ch, '&' :: tail) ∈ entities) (t : Str) :
    escapeOnce ('&' :: tail ++ t) = '&' :: tail ++ escapeOnce t := by
  have hpos : tail.length ≠ 0 := by
    simp only [entities, List.mem_cons, Prod.mk.injEq, List.cons.injEq, true_and, List.mem_nil_iff, or_false] at hm
    rcases hm with ⟨_, rfl⟩ | ⟨_, rfl⟩ | ⟨_, rfl⟩ | ⟨_, rfl⟩ | ⟨_, rfl⟩ <;> simp
  unfold escapeOnce
  simp [escGo, nrEscaped_eq, entityAt_of_mem hm, hpos, escGo_skip]

theorem escChar_cases (c : Char) :
    (isSpecial c = false ∧ escChar c = [c]) ∨ ∃ tail, escChar c = '&' :: tail ∧ (c, '&' :: tail) ∈ entities := by
  by_cases hs : isSpecial c = false
  · exact Or.inl ⟨hs, isSpecial_escChar_single c hs⟩
  · right
    unfold escChar
    split; · subst_vars; exact ⟨tailLt, rfl, by simp [entities, tailLt]⟩
    split; · subst_vars; exact ⟨tailGt, rfl, by simp [entities, tailGt]⟩
    split; · subst_vars; exact ⟨tail39, rfl, by simp [entities, tail39]⟩
    split; · subst_vars; exact ⟨tailQuot, rfl, by simp [entities, tailQuot]⟩
    split; · subst_vars; exact ⟨tailAmp, rfl, by simp [entities, tailAmp]⟩
    exfalso; apply hs; simp [isSpecial, *]

/-- what `escape` produced for one character is read back as a unit by `escape_once` -/
theorem once_escChar (c : Char) (t : Str) : escapeOnce (escChar c ++ t) = escChar c ++ escapeOnce t := by
  rcases escChar_cases c with ⟨hs, h⟩ | ⟨tail, h, hm⟩
  · rw [h]
    have hne : c ≠ '&' := by intro h; subst h; simp [isSpecial] at hs
    simpa [h] using once_chr c t hne
  · rw [h]; exact once_ent hm t

theorem once_idem (s : Str) : escapeOnce (escapeOnce s) = escapeOnce s := by
  induction s using once_induction with
  | nil => rfl
  | chr c r hc ih => rw [once_chr c r hc, once_escChar, ih]
  | amp r h ih =>
    rw [once_amp r h]
    have := once_ent (ch := '&') (tail := tailAmp) (by simp [entities, tailAmp]) (escapeOnce r)
    simp only [entAmp]; rw [this, ih]
  | ent ch tail r' hm ih => rw [once_ent hm, once_ent hm, ih]

theorem unesc_chr (c : Char) (r : Str) (hc : c ≠ '&') : unescape (c :: r) = c :: unescape r := by
  simp [unescape, unescGo, hc]

theorem unesc_amp (r : Str) (h : entityAt r = none) : unescape ('&' :: r) = '&' :: unescape r := by
  simp [unescape, unescGo, h]

theorem unesc_ent {ch : Char} {tail : Str} (hm : (ch, '&' :: tail) ∈ entities) (t : Str) :
    unescape ('&' :: tail ++ t) = ch :: unescape t := by
  simp [unescape, unescGo, entityAt_of_mem hm, unescGo_skip]

theorem once_unescape (s : Str) : unescape (escapeOnce s) = unescape s := by
  induction s using once_induction with
  | nil => rfl
  | chr c r hc ih =>
    rw [once_chr c r hc, unesc_chr c r hc]
    have := unescape_escChar c (escapeOnce r)
    unfold unescape at *; rw [this, ih]
  | amp r h ih =>
    rw [once_amp r h, unesc_amp r h]
    have := unesc_ent (ch := '&') (tail := tailAmp) (by simp [entities, tailAmp]) (escapeOnce r)
    simp only [entAmp]; rw [this, ih]
  | ent ch tail r' hm ih => rw [once_ent hm, unesc_ent hm, unesc_ent hm, ih]

theorem once_safeEnt (s : Str) : SafeEnt (escapeOnce s) := by
  induction s using once_induction with
  | nil => exact SafeEnt.nil
  | chr c r hc ih => rw [once_chr c r hc]; exact escChar_safeEnt c _ ih
  | amp r h ih =>
    rw [once_amp r h]
    exact SafeEnt.ent _ _ (by simp [entityStrs, entities, entAmp, tailAmp]) ih
  | ent ch tail r' hm ih =>
    rw [once_ent hm]
    have := SafeEnt.ent ('&' :: tail) (escapeOnce r') (by simp only [entityStrs, List.mem_map]; exact ⟨_, hm, rfl⟩) ih
    simpa using this

/-! #### an existing entity is kept wherever it stands -/

theorem isPrefixOf_append_amp (tail : Str) (h : '&' ∉ tail) (p y : Str) :
    tail.isPrefixOf (p ++ '&' :: y) = tail.isPrefixOf p := by
  induction tail generalizing p with
  | nil => simp
  | cons a tl ih =>
    simp only [List.mem_cons, not_or] at h
    cases p with
    | nil =>
      have : (a == '&') = false := by simpa using fun h' => h.1 h'.symm
      simp [List.isPrefixOf, this]
    | cons b p' => simp [List.isPrefixOf, ih h.2 p']

theorem entityAt_append_amp (p y : Str) : entityAt (p ++ '&' :: y) = entityAt p := by
  unfold entityAt
  rw [isPrefixOf_append_amp _ (by decide), isPrefixOf_append_amp _ (by decide), isPrefixOf_append_amp _ (by decide),
    isPrefixOf_append_amp _ (by decide), isPrefixOf_append_amp _ (by decide)]

theorem entityAt_le {r : Str} {ch : Char} {n : Nat} (h : entityAt r = some (ch, n)) : n ≤ r.length := by
  obtain ⟨tail, r', rfl, rfl, _⟩ := entityAt_some h
  simp

theorem escGo_append_amp (y : Str) : ∀ (p : Str) (k : Nat), k ≤ p.length →
    escGo true k (p ++ '&' :: y) = escGo true k p ++ escGo true 0 ('&' :: y) := by
  generalize hZ : escGo true 0 ('&' :: y) = Z
  intro p
  induction p with
  | nil => intro k hk; have : k = 0 := by simpa using hk
           subst this; simpa [escGo] using hZ
  | cons c p ih =>
    intro k hk
    cases k with
    | succ k => simp only [List.cons_append, escGo]; rw [ih k (by simpa using hk)]
    | zero =>
      simp only [List.cons_append, escGo]
      split; · rw [ih 0 (by omega)]; simp
      split; · rw [ih 0 (by omega)]; simp
      split; · rw [ih 0 (by omega)]; simp
      split; · rw [ih 0 (by omega)]; simp
      split
      · simp only [if_true, nrEscaped_eq, entityAt_append_amp]
        cases he : entityAt p with
        | none => simp; rw [ih 0 (by omega)]
        | some v =>
          obtain ⟨ch, n⟩ := v
          have hn := entityAt_le he
          simp only
          split
          · rw [ih 0 (by omega)]; simp
          · rw [ih n hn]; simp
      · rw [ih 0 (by omega)]; simp

theorem once_keeps (p t : Str) {ch : Char} {tail : Str} (hm : (ch, '&' :: tail) ∈ entities) :
    escapeOnce (p ++ ('&' :: tail) ++ t) = escapeOnce p ++ ('&' :: tail) ++ escapeOnce t := by
  have h1 := escGo_append_amp (tail ++ t) p 0 (by omega)
  have h2 := once_ent hm t
  unfold escapeOnce at *
  simp only [List.append_assoc, List.cons_append] at *
  rw [h1, h2]

/-! ### strip_html -/

theorem hasTag_iff (s : Str) : hasTag s = true ↔ HasTag s := by
  induction s with
  | nil =>
    simp only [hasTag, Bool.false_eq_true, false_iff]
    rintro ⟨a, b, c, h⟩
    cases a <;> simp at h
  | cons x r ih =>
    simp only [hasTag]
    split
    · rename_i hx; subst hx
      constructor
      · intro h
        have hm : '>' ∈ r := by simpa using h
        obtain ⟨b, c, rfl⟩ := List.append_of_mem hm
        exact ⟨[], b, c, by simp⟩
      · rintro ⟨a, b, c, h⟩
        cases a with
        | nil =>
          simp only [List.nil_append, List.cons_append, List.cons.injEq, true_and] at h
          subst h; simp
        | cons a0 a' =>
          simp only [List.cons_append, List.cons.injEq] at h
          obtain ⟨_, rfl⟩ := h; simp
    · rename_i hx
      rw [ih]
      constructor
      · rintro ⟨a, b, c, rfl⟩; exact ⟨x :: a, b, c, by simp⟩
      · rintro ⟨a, b, c, h⟩
        cases a with
        | nil => simp only [List.nil_append, List.cons_append, List.cons.injEq] at h; exact absurd h.1 hx
        | cons a0 a' =>
          simp only [List.cons_append, List.cons.injEq] at h
          exact ⟨a', b, c, by simpa using h.2⟩

theorem stripGo_sublist (opn cls : Str) (s : Str) : ∀ k, (stripGo opn cls k s).Sublist s := by
  induction s with
  | nil => intro k; simp [stripGo]
  | cons c r ih =>
    intro k
    cases k with
    | succ k => simp only [stripGo]; exact (ih k).cons c
    | zero =>
      simp only [stripGo]
      split
      · exact (ih _).cons c
      · exact (ih 0).cons_cons c

theorem ciEq_lt (c : Char) : ciEq '<' c = (c == '<') := by
  simp [ciEq, isAsciiLower]

theorem ciEq_gt (c : Char) : ciEq '>' c = (c == '>') := by
  simp [ciEq, isAsciiLower]

theorem findCloser_gt_none (r : Str) (h : findCloser tagClose r = none) : '>' ∉ r := by
  induction r with
  | nil => simp
  | cons c r ih =>
    simp only [findCloser, tagClose, ciPrefix, ciEq_gt, Bool.and_true] at h
    split at h
    · cases h
    · rename_i hc
      split at h
      · cases h
      · rename_i hn
        simp only [List.mem_cons, not_or]
        exact ⟨fun h' => hc (by simp [← h']), ih (by simpa [tagClose] using hn)⟩

theorem stripTags_no_tag (s : Str) : ∀ k, hasTag (stripGo tagOpen tagClose k s) = false := by
  induction s with
  | nil => intro k; simp [stripGo, hasTag]
  | cons c r ih =>
    intro k
    cases k with
    | succ k => simp only [stripGo]; exact ih k
    | zero =>
      simp only [stripGo]
      split
      · exact ih _
      · rename_i hm
        simp only [hasTag]
        split
        · rename_i hc; subst hc
          have hf : findCloser tagClose r = none := by
            simp only [matchAt, tagOpen, ciPrefix, ciEq_lt, beq_self_eq_true, Bool.and_true, if_true,
              List.length_cons, List.length_nil, List.drop_succ_cons, List.drop_zero] at hm
            split at hm
            · cases hm
            · assumption
          have hn := findCloser_gt_none r hf
          have : '>' ∉ stripGo tagOpen tagClose 0 r := fun h => hn ((stripGo_sublist _ _ r 0).subset h)
          simpa using this
        · exact ih 0

/-- every opener starts with `<`: without a `<` in the text no pass matches anywhere -/
theorem stripGo_no_lt (o cls : Str) (s : Str) (h : '<' ∉ s) : stripGo ('<' :: o) cls 0 s = s := by
  induction s with
  | nil => rfl
  | cons c r ih =>
    simp only [List.mem_cons, not_or] at h
    have hc : (c == '<') = false := by simpa using fun h' => h.1 h'.symm
    simp [stripGo, matchAt, ciPrefix, ciEq_lt, hc, ih h.2]

theorem stripHtml_no_lt (s : Str) (h : '<' ∉ s) : stripHtml s = s := by
  unfold stripHtml stripTags stripPass scriptOpen styleOpen commentOpen tagOpen
  rw [stripGo_no_lt _ _ s h, stripGo_no_lt _ _ s h, stripGo_no_lt _ _ s h, stripGo_no_lt _ _ s h]

theorem stripHtml_sublist (s : Str) : (stripHtml s).Sublist s := by
  unfold stripHtml stripTags stripPass
  exact (((stripGo_sublist _ _ _ 0).trans (stripGo_sublist _ _ _ 0)).trans (stripGo_sublist _ _ _ 0)).trans (stripGo_sublist _ _ _ 0)

/-! ### UTF-8 -/
section utf8
open Liquid.Url

theorem char_valid (c : Char) : c.toNat < 0xD800 ∨ (0xDFFF < c.toNat ∧ c.toNat < 0x110000) := c.valid

theorem toNat_ofNat_valid (n : Nat) (h : n < 0xD800 ∨ (0xDFFF < n ∧ n < 0x110000)) : (Char.ofNat n).toNat = n := by
  have h' : n.isValidChar := h
  simp [Char.ofNat, h', Char.toNat, Char.ofNatAux]

theorem utf8Enc1_lt (c : Char) : ∀ b ∈ utf8Enc1 c, b < 256 := by
  have hv := char_valid c
  intro b hb
  unfold utf8Enc1 at hb
  simp only at hb
  split at hb
  · simp at hb; omega
  split at hb
  · simp at hb; omega
  split at hb
  · simp at hb; omega
  · simp at hb; omega

theorem utf8Enc_lt (s : Str) : ∀ b ∈ utf8Enc s, b < 256 := by
  intro b hb
  simp only [utf8Enc, List.mem_flatMap] at hb
  obtain ⟨c, _, hc⟩ := hb
  exact utf8Enc1_lt c b hc

/-- the second-byte condition of three-byte sequences (no overlong forms, no surrogates) -/
def ok3 (b0 b1 : Nat) : Prop :=
  (b0 = 0xE0 ∧ 0xA0 ≤ b1 ∧ b1 ≤ 0xBF) ∨ (0xE1 ≤ b0 ∧ b0 ≤ 0xEC ∧ 0x80 ≤ b1 ∧ b1 ≤ 0xBF) ∨
  (b0 = 0xED ∧ 0x80 ≤ b1 ∧ b1 ≤ 0x9F) ∨ (0xEE ≤ b0 ∧ b0 ≤ 0xEF ∧ 0x80 ≤ b1 ∧ b1 ≤ 0xBF)

/-- the second-byte condition of four-byte sequences (no overlong forms, nothing above U+10FFFF) -/
def ok4 (b0 b1 : Nat) : Prop :=
  (b0 = 0xF0 ∧ 0x90 ≤ b1 ∧ b1 ≤ 0xBF) ∨ (0xF1 ≤ b0 ∧ b0 ≤ 0xF3 ∧ 0x80 ≤ b1 ∧ b1 ≤ 0xBF) ∨
  (b0 = 0xF4 ∧ 0x80 ≤ b1 ∧ b1 ≤ 0x8F)

def consOpt (c : Char) : Option Str → Option Str
  | some t => some (c :: t)
  | none => none

theorem utf8Dec_w1 (b0 : Nat) (rest : List Nat) (h : b0 < 0x80) :
    utf8Dec (b0 :: rest) = consOpt (Char.ofNat b0) (utf8Dec rest) := by
  rw [utf8Dec.eq_def]; dsimp only; rw [if_pos h]; cases utf8Dec rest <;> rfl

theorem utf8Dec_w2 (b0 b1 : Nat) (rest : List Nat) (h0 : 0xC2 ≤ b0 ∧ b0 ≤ 0xDF) (h1 : isCont b1 = true) :
    utf8Dec (b0 :: b1 :: rest) = consOpt (Char.ofNat ((b0 - 0xC0) * 64 + (b1 - 0x80))) (utf8Dec rest) := by
  rw [utf8Dec.eq_def]; dsimp only; rw [if_neg (by omega), if_pos h0, if_pos h1]; cases utf8Dec rest <;> rfl

theorem utf8Dec_w3 (b0 b1 b2 : Nat) (rest : List Nat) (h0 : 0xE0 ≤ b0 ∧ b0 ≤ 0xEF) (h1 : ok3 b0 b1)
    (h2 : isCont b2 = true) :
    utf8Dec (b0 :: b1 :: b2 :: rest) =
      consOpt (Char.ofNat ((b0 - 0xE0) * 4096 + (b1 - 0x80) * 64 + (b2 - 0x80))) (utf8Dec rest) := by
  rw [utf8Dec.eq_def]; dsimp only
  rw [if_neg (by omega), if_neg (by omega), if_pos h0, if_pos ⟨h1, h2⟩]; cases utf8Dec rest <;> rfl

theorem utf8Dec_w4 (b0 b1 b2 b3 : Nat) (rest : List Nat) (h0 : 0xF0 ≤ b0 ∧ b0 ≤ 0xF4) (h1 : ok4 b0 b1)
    (h2 : isCont b2 = true) (h3 : isCont b3 = true) :
    utf8Dec (b0 :: b1 :: b2 :: b3 :: rest) =
      consOpt (Char.ofNat ((b0 - 0xF0) * 262144 + (b1 - 0x80) * 4096 + (b2 - 0x80) * 64 + (b3 - 0x80))) (utf8Dec rest) := by
  rw [utf8Dec.eq_def]; dsimp only
  rw [if_neg (by omega), if_neg (by omega), if_neg (by omega), if_pos h0, if_pos ⟨h1, h2, h3⟩]; cases utf8Dec rest <;> rfl

theorem isCont_low (n : Nat) : isCont (0x80 + n % 64) = true := by
  simp [isCont]; omega

/-- decoding reads back one encoded character -/
theorem utf8Dec_enc1 (c : Char) (rest : List Nat) :
    utf8Dec (utf8Enc1 c ++ rest) = consOpt c (utf8Dec rest) := by
  have hv := char_valid c
  unfold utf8Enc1
  simp only
  split
  · rename_i h1
    rw [List.singleton_append, utf8Dec_w1 _ _ h1, Char.ofNat_toNat]
  split
  · rename_i h1 h2
    have e : (0xC0 + c.toNat / 64 - 0xC0) * 64 + (0x80 + c.toNat % 64 - 0x80) = c.toNat := by omega
    show utf8Dec (_ :: _ :: rest) = _
    rw [utf8Dec_w2 _ _ _ (by omega) (isCont_low _), e, Char.ofNat_toNat]
  split
  · rename_i h1 h2 h3
    have e : (0xE0 + c.toNat / 4096 - 0xE0) * 4096 + (0x80 + c.toNat / 64 % 64 - 0x80) * 64 + (0x80 + c.toNat % 64 - 0x80) = c.toNat := by omega
    show utf8Dec (_ :: _ :: _ :: rest) = _
    rw [utf8Dec_w3 _ _ _ _ (by omega) (by unfold ok3; omega) (isCont_low _), e, Char.ofNat_toNat]
  · rename_i h1 h2 h3
    have e : (0xF0 + c.toNat / 262144 - 0xF0) * 262144 + (0x80 + c.toNat / 4096 % 64 - 0x80) * 4096 + (0x80 + c.toNat / 64 % 64 - 0x80) * 64 + (0x80 + c.toNat % 64 - 0x80) = c.toNat := by omega
    show utf8Dec (_ :: _ :: _ :: _ :: rest) = _
    rw [utf8Dec_w4 _ _ _ _ _ (by omega) (by unfold ok4; omega) (isCont_low _) (isCont_low _), e, Char.ofNat_toNat]

theorem utf8Dec_enc (s : Str) : utf8Dec (utf8Enc s) = some s := by
  induction s with
  | nil => rfl
  | cons c r ih =>
    have : utf8Enc (c :: r) = utf8Enc1 c ++ utf8Enc r := by simp [utf8Enc]
    rw [this, utf8Dec_enc1, ih]; rfl


theorem isCont_iff (b : Nat) : isCont b = true ↔ 0x80 ≤ b ∧ b ≤ 0xBF := by simp [isCont]

theorem enc1_w1 (b0 : Nat) (h : b0 < 0x80) : utf8Enc1 (Char.ofNat b0) = [b0] := by
  have hN := toNat_ofNat_valid b0 (by omega)
  unfold utf8Enc1; simp only [hN]; rw [if_pos h]

theorem enc1_w2 (b0 b1 : Nat) (h0 : 0xC2 ≤ b0 ∧ b0 ≤ 0xDF) (h1 : isCont b1 = true) :
    utf8Enc1 (Char.ofNat ((b0 - 0xC0) * 64 + (b1 - 0x80))) = [b0, b1] := by
  rw [isCont_iff] at h1
  have hN := toNat_ofNat_valid ((b0 - 0xC0) * 64 + (b1 - 0x80)) (by omega)
  unfold utf8Enc1; simp only [hN]; rw [if_neg (by omega), if_pos (by omega)]
  simp only [List.cons.injEq, and_true]; omega

theorem enc1_w3 (b0 b1 b2 : Nat) (h0 : 0xE0 ≤ b0 ∧ b0 ≤ 0xEF) (h1 : ok3 b0 b1) (h2 : isCont b2 = true) :
    utf8Enc1 (Char.ofNat ((b0 - 0xE0) * 4096 + (b1 - 0x80) * 64 + (b2 - 0x80))) = [b0, b1, b2] := by
  rw [isCont_iff] at h2
  unfold ok3 at h1
  have hN := toNat_ofNat_valid ((b0 - 0xE0) * 4096 + (b1 - 0x80) * 64 + (b2 - 0x80)) (by omega)
  unfold utf8Enc1; simp only [hN]; rw [if_neg (by omega), if_neg (by omega), if_pos (by omega)]
  simp only [List.cons.injEq, and_true]; omega

theorem enc1_w4 (b0 b1 b2 b3 : Nat) (h0 : 0xF0 ≤ b0 ∧ b0 ≤ 0xF4) (h1 : ok4 b0 b1) (h2 : isCont b2 = true)
    (h3 : isCont b3 = true) :
    utf8Enc1 (Char.ofNat ((b0 - 0xF0) * 262144 + (b1 - 0x80) * 4096 + (b2 - 0x80) * 64 + (b3 - 0x80))) = [b0, b1, b2, b3] := by
  rw [isCont_iff] at h2 h3
  unfold ok4 at h1
  have hN := toNat_ofNat_valid ((b0 - 0xF0) * 262144 + (b1 - 0x80) * 4096 + (b2 - 0x80) * 64 + (b3 - 0x80)) (by omega)
  unfold utf8Enc1; simp only [hN]; rw [if_neg (by omega), if_neg (by omega), if_neg (by omega)]
  simp only [List.cons.injEq, and_true]; omega

theorem consOpt_some {c : Char} {o : Option Str} {t : Str} (h : consOpt c o = some t) :
    ∃ t', o = some t' ∧ t = c :: t' := by
  cases o with
  | none => cases h
  | some t' => exact ⟨t', rfl, by simpa [consOpt] using h.symm⟩

theorem utf8Enc_cons (c : Char) (t : Str) : utf8Enc (c :: t) = utf8Enc1 c ++ utf8Enc t := by simp [utf8Enc]

/-- whatever `from_utf8` accepts is the encoding of the string it returns (no two byte strings
decode to the same text) -/
theorem utf8Enc_of_dec : ∀ (n : Nat) (bs : List Nat) (t : Str), bs.length ≤ n → utf8Dec bs = some t → utf8Enc t = bs := by
  intro n
  induction n with
  | zero =>
    intro bs t hl h
    have : bs = [] := List.eq_nil_of_length_eq_zero (by omega)
    subst this; simp [utf8Dec] at h; subst h; rfl
  | succ n ih =>
    intro bs t hl h
    cases bs with
    | nil => simp [utf8Dec] at h; subst h; rfl
    | cons b0 r =>
      simp only [List.length_cons] at hl
      by_cases c1 : b0 < 0x80
      · rw [utf8Dec_w1 _ _ c1] at h
        obtain ⟨t', ht', rfl⟩ := consOpt_some h
        rw [utf8Enc_cons, enc1_w1 _ c1, ih r t' (by omega) ht']; rfl
      by_cases c2 : 0xC2 ≤ b0 ∧ b0 ≤ 0xDF
      · cases r with
        | nil => rw [utf8Dec.eq_def] at h; dsimp only at h; rw [if_neg c1, if_pos c2] at h; cases h
        | cons b1 r1 =>
          by_cases k1 : isCont b1 = true
          · rw [utf8Dec_w2 _ _ _ c2 k1] at h
            obtain ⟨t', ht', rfl⟩ := consOpt_some h
            simp only [List.length_cons] at hl
            rw [utf8Enc_cons, enc1_w2 _ _ c2 k1, ih r1 t' (by omega) ht']; rfl
          · rw [utf8Dec.eq_def] at h; dsimp only at h; rw [if_neg c1, if_pos c2, if_neg k1] at h; cases h
      by_cases c3 : 0xE0 ≤ b0 ∧ b0 ≤ 0xEF
      · match r with
        | [] => rw [utf8Dec.eq_def] at h; dsimp only at h; rw [if_neg c1, if_neg c2, if_pos c3] at h; cases h
        | [_] => rw [utf8Dec.eq_def] at h; dsimp only at h; rw [if_neg c1, if_neg c2, if_pos c3] at h; cases h
        | b1 :: b2 :: r2 =>
          by_cases k : ok3 b0 b1 ∧ isCont b2 = true
          · rw [utf8Dec_w3 _ _ _ _ c3 k.1 k.2] at h
            obtain ⟨t', ht', rfl⟩ := consOpt_some h
            simp only [List.length_cons] at hl
            rw [utf8Enc_cons, enc1_w3 _ _ _ c3 k.1 k.2, ih r2 t' (by omega) ht']; rfl
          · rw [utf8Dec.eq_def] at h; dsimp only at h; unfold ok3 at k
            rw [if_neg c1, if_neg c2, if_pos c3, if_neg k] at h; cases h
      by_cases c4 : 0xF0 ≤ b0 ∧ b0 ≤ 0xF4
      · match r with
        | [] => rw [utf8Dec.eq_def] at h; dsimp only at h; rw [if_neg c1, if_neg c2, if_neg c3, if_pos c4] at h; cases h
        | [_] => rw [utf8Dec.eq_def] at h; dsimp only at h; rw [if_neg c1, if_neg c2, if_neg c3, if_pos c4] at h; cases h
        | [_, _] => rw [utf8Dec.eq_def] at h; dsimp only at h; rw [if_neg c1, if_neg c2, if_neg c3, if_pos c4] at h; cases h
        | b1 :: b2 :: b3 :: r3 =>
          by_cases k : ok4 b0 b1 ∧ isCont b2 = true ∧ isCont b3 = true
          · rw [utf8Dec_w4 _ _ _ _ _ c4 k.1 k.2.1 k.2.2] at h
            obtain ⟨t', ht', rfl⟩ := consOpt_some h
            simp only [List.length_cons] at hl
            rw [utf8Enc_cons, enc1_w4 _ _ _ _ c4 k.1 k.2.1 k.2.2, ih r3 t' (by omega) ht']; rfl
          · rw [utf8Dec.eq_def] at h; dsimp only at h; unfold ok4 at k
            rw [if_neg c1, if_neg c2, if_neg c3, if_pos c4, if_neg k] at h; cases h
      · rw [utf8Dec.eq_def] at h; dsimp only at h
        rw [if_neg c1, if_neg c2, if_neg c3, if_neg c4] at h; cases h

end utf8

/-! ### percent-encoding -/
section pct
open Liquid.Url

theorem pctGo_skip (p t : List Nat) : pctGo p.length (p ++ t) = pctGo 0 t := by
  induction p with
  | nil => simp
  | cons c p ih => simp [pctGo, ih]

theorem hexVal_hexUp : ∀ d, d < 16 → hexVal (hexUp d) = some d := by decide

theorem shouldEncode_pct : shouldEncode 37 = true := by decide

theorem pctDecode_encByte (b : Nat) (hb : b < 256) (rest : List Nat) :
    pctDecode (encByte b ++ rest) = b :: pctDecode rest := by
  unfold encByte pctDecode
  split
  · have h1 := hexVal_hexUp (b / 16) (by omega)
    have h2 := hexVal_hexUp (b % 16) (by omega)
    have e : b / 16 * 16 + b % 16 = b := by omega
    have := pctGo_skip [hexUp (b / 16), hexUp (b % 16)] rest
    simp only [List.length_cons, List.length_nil, List.cons_append, List.nil_append] at this
    simp only [pctByte, List.cons_append, List.nil_append, pctGo, if_true, afterPercent, h1, h2, e]
  · rename_i hs
    have hne : b ≠ 37 := by intro h; subst h; exact hs shouldEncode_pct
    simp [pctGo, hne]

theorem pctDecode_pctEncode (bs : List Nat) (h : ∀ b ∈ bs, b < 256) : pctDecode (pctEncode bs) = bs := by
  induction bs with
  | nil => rfl
  | cons b r ih =>
    have : pctEncode (b :: r) = encByte b ++ pctEncode r := by simp [pctEncode]
    rw [this, pctDecode_encByte b (h b (by simp)), ih (fun x hx => h x (by simp [hx]))]

/-- every output byte is ASCII and is not `+` -/
theorem encByte_ascii : ∀ b, b < 256 → ∀ x ∈ encByte b, x < 128 ∧ x ≠ 43 := by decide +kernel

theorem pctEncode_ascii (bs : List Nat) (h : ∀ b ∈ bs, b < 256) : ∀ x ∈ pctEncode bs, x < 128 ∧ x ≠ 43 := by
  intro x hx
  simp only [pctEncode, List.mem_flatMap] at hx
  obtain ⟨b, hb, hx⟩ := hx
  exact encByte_ascii b (h b hb) x hx

theorem utf8Enc_asciiStr (bs : List Nat) (h : ∀ x ∈ bs, x < 128) : utf8Enc (asciiStr bs) = bs := by
  induction bs with
  | nil => rfl
  | cons b r ih =>
    have hb : b < 128 := h b (by simp)
    simp only [asciiStr, List.map_cons, utf8Enc_cons, enc1_w1 b hb]
    have := ih (fun x hx => h x (by simp [hx]))
    simp only [asciiStr] at this
    rw [this]; rfl

theorem ofNat_ne_plus (b : Nat) (h1 : b < 128) (h2 : b ≠ 43) : Char.ofNat b ≠ '+' := by
  intro h
  have := congrArg Char.toNat h
  rw [toNat_ofNat_valid b (by omega)] at this
  exact h2 this

theorem plusToSpace_asciiStr (bs : List Nat) (h : ∀ x ∈ bs, x < 128 ∧ x ≠ 43) : plusToSpace (asciiStr bs) = asciiStr bs := by
  induction bs with
  | nil => rfl
  | cons b r ih =>
    have hb := h b (by simp)
    have := ih (fun x hx => h x (by simp [hx]))
    simp only [plusToSpace, asciiStr, List.map_cons, List.map_map] at this ⊢
    rw [if_neg (ofNat_ne_plus b hb.1 hb.2)]
    congr 1

theorem decodedBytes_urlEncode (s : Str) : decodedBytes (urlEncode s) = utf8Enc s := by
  have ha := pctEncode_ascii (utf8Enc s) (utf8Enc_lt s)
  unfold decodedBytes urlEncode
  rw [plusToSpace_asciiStr _ ha, utf8Enc_asciiStr _ (fun x hx => (ha x hx).1), pctDecode_pctEncode _ (utf8Enc_lt s)]

theorem urlDecode_urlEncode (s : Str) : urlDecode (urlEncode s) = .ok s := by
  unfold urlDecode
  rw [decodedBytes_urlEncode, utf8Dec_enc]

/-- the set of bytes left alone is exactly: ASCII letters, digits, `-`, `.`, `_` -/
theorem shouldEncode_exact : ∀ b, b < 256 →
    (shouldEncode b = false ↔
      ((48 ≤ b ∧ b ≤ 57) ∨ (65 ≤ b ∧ b ≤ 90) ∨ (97 ≤ b ∧ b ≤ 122) ∨ b = 45 ∨ b = 46 ∨ b = 95)) := by decide +kernel

theorem unreserved_char : ∀ b, b < 256 → shouldEncode b = false → isUnreservedChar (Char.ofNat b) = true := by decide +kernel

theorem upperHex_char : ∀ d, d < 16 → isUpperHex (Char.ofNat (hexUp d)) = true := by decide

theorem urlLang_asciiStr_pctEncode (bs : List Nat) (h : ∀ b ∈ bs, b < 256) : UrlLang (asciiStr (pctEncode bs)) := by
  induction bs with
  | nil => exact UrlLang.nil
  | cons b r ih =>
    have hb := h b (by simp)
    have ih' := ih (fun x hx => h x (by simp [hx]))
    have : pctEncode (b :: r) = encByte b ++ pctEncode r := by simp [pctEncode]
    rw [this]
    unfold encByte
    split
    · simp only [pctByte, asciiStr, List.cons_append, List.nil_append, List.map_cons]
      have : Char.ofNat 37 = '%' := rfl
      rw [this]
      exact UrlLang.pct _ _ _ (upperHex_char _ (by omega)) (upperHex_char _ (by omega)) ih'
    · rename_i hs
      simp only [asciiStr, List.cons_append, List.nil_append, List.map_cons]
      exact UrlLang.plain _ _ (unreserved_char b hb (by simpa using hs)) ih'

theorem urlLang_sound {t : Str} (h : UrlLang t) : urlLang t = true := by
  induction h with
  | nil => rfl
  | plain c t hc _ ih =>
    have hne : c ≠ '%' := by intro h; subst h; revert hc; decide
    rw [urlLang.eq_def]; simp [hne, hc, ih]
  | pct hh l t h1 h2 _ ih => simp [urlLang, h1, h2, ih]

theorem urlLang_chars {t : Str} (h : UrlLang t) : ∀ c ∈ t, isUnreservedChar c = true ∨ c = '%' := by
  induction h with
  | nil => simp
  | plain c t hc _ ih =>
    intro x hx
    rcases List.mem_cons.mp hx with rfl | hx
    · exact Or.inl hc
    · exact ih x hx
  | pct hh l t h1 h2 _ ih =>
    have up : ∀ c, isUpperHex c = true → isUnreservedChar c = true := by
      intro c hc; simp only [isUpperHex, isUnreservedChar, Bool.or_eq_true, Bool.and_eq_true, decide_eq_true_eq] at hc ⊢
      omega
    intro x hx
    simp only [List.mem_cons] at hx
    rcases hx with rfl | rfl | rfl | hx
    · exact Or.inr rfl
    · exact Or.inl (up _ h1)
    · exact Or.inl (up _ h2)
    · exact ih x hx

end pct
end Liquid.C16
