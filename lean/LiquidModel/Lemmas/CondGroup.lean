/-
  General grouping theorem for `parse_condition` (`Model/CondParse.lean`): a flat token sequence
  `a11 and a12 … or a21 and … or …` of ANY shape parses to the left-nested disjunction of the
  left-nested conjunctions of its atoms — `and` binds tighter than `or`, both associate to the left —
  and, conversely, every accepted token sequence has that shape.
-/
import LiquidModel.Model.CondParse
namespace Liquid.CondGroup
open Liquid

/-- an atomic condition: a bare value, or `value op value` -/
inductive Atom where
  | ex (e : Expr)
  | bin (l : Expr) (o : CmpOp) (r : Expr)

def Atom.toks : Atom → List CTok
  | .ex e => [.val e]
  | .bin l o r => [.val l, .cmp o, .val r]

def Atom.cond : Atom → Cond
  | .ex e => .exist e
  | .bin l o r => .bin l o r

/-- a conjunction group: first atom and the atoms joined to it by `and` -/
abbrev Group := Atom × List Atom

def andTail (bs : List Atom) : List CTok := bs.flatMap fun b => CTok.and_ :: b.toks
def conjToks (g : Group) : List CTok := g.1.toks ++ andTail g.2
def conjTree (g : Group) : Cond := g.2.foldl (fun c b => Cond.and c b.cond) g.1.cond
def orTail (gs : List Group) : List CTok := gs.flatMap fun g => CTok.or_ :: conjToks g
/-- the token sequence `g or g1 or g2 …` -/
def disjToks (g : Group) (gs : List Group) : List CTok := conjToks g ++ orTail gs
/-- its expected parse: `((g or g1) or g2) …` with every group `((a and b) and c) …` -/
def disjTree (g : Group) (gs : List Group) : Cond := gs.foldl (fun c g => Cond.or c (conjTree g)) (conjTree g)

/-- what may follow an atom: nothing or a connective -/
def Sep : List CTok → Prop
  | [] => True
  | .and_ :: _ => True
  | .or_ :: _ => True
  | _ => False

/-- what may follow a conjunction chain: nothing or `or` -/
def OrSep : List CTok → Prop
  | [] => True
  | .or_ :: _ => True
  | _ => False

theorem OrSep.sep {r : List CTok} (h : OrSep r) : Sep r := by
  match r, h with
  | [], _ => trivial
  | .or_ :: _, _ => trivial

theorem parseAtom_toks (a : Atom) (rest : List CTok) (h : Sep rest) :
    parseAtom (a.toks ++ rest) = some (a.cond, rest) := by
  cases a with
  | bin l o r => rfl
  | ex e =>
    match rest, h with
    | [], _ => rfl
    | .and_ :: _, _ => rfl
    | .or_ :: _, _ => rfl

theorem sep_andTail (bs : List Atom) (rest : List CTok) (h : OrSep rest) : Sep (andTail bs ++ rest) := by
  cases bs with
  | nil => simpa [andTail] using h.sep
  | cons b bs => simp [andTail, Sep]

theorem conjLoop_andTail (bs : List Atom) : ∀ (fuel : Nat) (lh : Cond) (rest : List CTok),
    bs.length < fuel → OrSep rest →
    conjLoop fuel lh (andTail bs ++ rest) = some (bs.foldl (fun c b => Cond.and c b.cond) lh, rest) := by
  induction bs with
  | nil =>
    intro fuel lh rest hf hr
    obtain ⟨f, rfl⟩ : ∃ f, fuel = f + 1 := ⟨fuel - 1, by omega⟩
    match rest, hr with
    | [], _ => rfl
    | .or_ :: _, _ => rfl
  | cons b bs ih =>
    intro fuel lh rest hf hr
    obtain ⟨f, rfl⟩ : ∃ f, fuel = f + 1 := ⟨fuel - 1, by omega⟩
    have e : andTail (b :: bs) ++ rest = CTok.and_ :: (b.toks ++ (andTail bs ++ rest)) := by
      simp [andTail]
    rw [e]
    show (match parseAtom (b.toks ++ (andTail bs ++ rest)) with
          | some (rh, rest') => conjLoop f (.and lh rh) rest'
          | none => none) = _
    rw [parseAtom_toks b _ (sep_andTail bs rest hr)]
    simp only [List.length_cons] at hf
    exact ih f (.and lh b.cond) rest (by omega) hr

theorem parseConj_toks (g : Group) (fuel : Nat) (rest : List CTok) (hf : g.2.length < fuel) (hr : OrSep rest) :
    parseConj fuel (conjToks g ++ rest) = some (conjTree g, rest) := by
  unfold parseConj conjToks
  rw [List.append_assoc, parseAtom_toks g.1 _ (sep_andTail g.2 rest hr)]
  exact conjLoop_andTail g.2 fuel g.1.cond rest hf hr

theorem toks_length_pos (a : Atom) : 1 ≤ a.toks.length := by cases a <;> simp [Atom.toks]

theorem andTail_length (bs : List Atom) : 2 * bs.length ≤ (andTail bs).length := by
  induction bs with
  | nil => simp [andTail]
  | cons b bs ih =>
    have := toks_length_pos b
    simp only [andTail, List.flatMap_cons, List.length_cons, List.length_append] at *
    omega

theorem conjToks_length (g : Group) : 2 * g.2.length + 1 ≤ (conjToks g).length := by
  have := toks_length_pos g.1; have := andTail_length g.2
  simp only [conjToks, List.length_append]; omega

theorem orSep_orTail (gs : List Group) : OrSep (orTail gs) := by
  cases gs <;> simp [orTail, OrSep]

theorem disjLoop_orTail (gs : List Group) : ∀ (fuel : Nat) (lh : Cond),
    (orTail gs).length < fuel →
    disjLoop fuel lh (orTail gs) = some (gs.foldl (fun c g => Cond.or c (conjTree g)) lh) := by
  induction gs with
  | nil =>
    intro fuel lh hf
    obtain ⟨f, rfl⟩ : ∃ f, fuel = f + 1 := ⟨fuel - 1, by omega⟩
    rfl
  | cons g gs ih =>
    intro fuel lh hf
    obtain ⟨f, rfl⟩ : ∃ f, fuel = f + 1 := ⟨fuel - 1, by omega⟩
    have e : orTail (g :: gs) = CTok.or_ :: (conjToks g ++ orTail gs) := by simp [orTail]
    have hl := conjToks_length g
    rw [e] at hf ⊢
    simp only [List.length_cons, List.length_append] at hf
    show (match parseConj f (conjToks g ++ orTail gs) with
          | some (rh, rest') => disjLoop f (.or lh rh) rest'
          | none => none) = _
    rw [parseConj_toks g f _ (by omega) (orSep_orTail gs)]
    exact ih f (.or lh (conjTree g)) (by omega)

/-- **General grouping theorem.** -/
theorem parseCondition_disjToks (g : Group) (gs : List Group) :
    parseCondition (disjToks g gs) = some (disjTree g gs) := by
  unfold parseCondition
  have hl := conjToks_length g
  have hlen : (disjToks g gs).length = (conjToks g).length + (orTail gs).length := by
    simp [disjToks]
  show (match parseConj ((disjToks g gs).length + 1) (disjToks g gs) with
        | some (lh, rest) => disjLoop ((disjToks g gs).length + 1) lh rest
        | none => none) = _
  have : parseConj ((disjToks g gs).length + 1) (disjToks g gs) = some (conjTree g, orTail gs) :=
    parseConj_toks g _ _ (by omega) (orSep_orTail gs)
  rw [this]
  exact disjLoop_orTail gs _ _ (by omega)

/-! ### the value of a grouped condition -/

theorem eval_and_fold (st : Stack) (tv : Atom → Bool) (bs : List Atom) :
    ∀ (c : Cond) (bc : Bool), c.eval st = .ok bc → (∀ b ∈ bs, b.cond.eval st = .ok (tv b)) →
    Cond.eval st (bs.foldl (fun c b => Cond.and c b.cond) c) = .ok (bc && bs.all tv) := by
  induction bs with
  | nil => intro c bc hc _; simpa using hc
  | cons b bs ih =>
    intro c bc hc hb
    have h1 : Cond.eval st (.and c b.cond) = .ok (bc && tv b) := by
      have := hb b (by simp)
      cases bc <;> simp [Cond.eval, hc, this, bind, Res.bind, pure]
    have := ih (.and c b.cond) (bc && tv b) h1 (fun x hx => hb x (by simp [hx]))
    simpa [List.foldl_cons, List.all_cons, Bool.and_assoc] using this

theorem eval_conjTree (st : Stack) (tv : Atom → Bool) (g : Group)
    (h : ∀ b ∈ g.1 :: g.2, b.cond.eval st = .ok (tv b)) :
    (conjTree g).eval st = .ok ((g.1 :: g.2).all tv) := by
  have := eval_and_fold st tv g.2 g.1.cond (tv g.1) (h g.1 (by simp)) (fun b hb => h b (by simp [hb]))
  simpa [conjTree, List.all_cons] using this

theorem eval_or_fold (st : Stack) (tv : Atom → Bool) (gs : List Group) :
    ∀ (c : Cond) (bc : Bool), c.eval st = .ok bc →
    (∀ g ∈ gs, ∀ b ∈ g.1 :: g.2, b.cond.eval st = .ok (tv b)) →
    Cond.eval st (gs.foldl (fun c g => Cond.or c (conjTree g)) c) = .ok (bc || gs.any fun g => (g.1 :: g.2).all tv) := by
  induction gs with
  | nil => intro c bc hc _; simpa using hc
  | cons g gs ih =>
    intro c bc hc hg
    have hgt := eval_conjTree st tv g (hg g (by simp))
    have h1 : Cond.eval st (.or c (conjTree g)) = .ok (bc || (g.1 :: g.2).all tv) := by
      cases bc <;> simp [Cond.eval, hc, hgt, bind, Res.bind, pure]
    have := ih (.or c (conjTree g)) _ h1 (fun x hx => hg x (by simp [hx]))
    simpa [List.foldl_cons, List.any_cons, Bool.or_assoc] using this

/-- a grouped condition whose atoms all evaluate is true iff some group has all its atoms true -/
theorem eval_disjTree (st : Stack) (tv : Atom → Bool) (g : Group) (gs : List Group)
    (h : ∀ x ∈ g :: gs, ∀ b ∈ x.1 :: x.2, b.cond.eval st = .ok (tv b)) :
    (disjTree g gs).eval st = .ok ((g :: gs).any fun x => (x.1 :: x.2).all tv) := by
  have := eval_or_fold st tv gs (conjTree g) _ (eval_conjTree st tv g (h g (by simp)))
    (fun x hx => h x (by simp [hx]))
  simpa [disjTree, List.any_cons] using this

/-! ### converse: everything `parse_condition` accepts has that shape -/

theorem parseAtom_shape {toks rest : List CTok} {c : Cond} (h : parseAtom toks = some (c, rest)) :
    ∃ a : Atom, toks = a.toks ++ rest ∧ c = a.cond := by
  unfold parseAtom at h
  split at h
  · cases h; exact ⟨.bin _ _ _, rfl, rfl⟩
  · cases h
  · cases h; exact ⟨.ex _, rfl, rfl⟩
  · cases h

theorem conjLoop_shape : ∀ (fuel : Nat) (lh : Cond) (toks rest : List CTok) (c : Cond),
    conjLoop fuel lh toks = some (c, rest) →
    ∃ bs : List Atom, toks = andTail bs ++ rest ∧ c = bs.foldl (fun c b => Cond.and c b.cond) lh := by
  intro fuel
  induction fuel with
  | zero => intro lh toks rest c h; simp [conjLoop] at h
  | succ f ih =>
    intro lh toks rest c h
    unfold conjLoop at h
    split at h
    · cases h
    · rename_i fuel' lh' rest' heq
      cases heq
      split at h
      · rename_i rh rest'' hp
        obtain ⟨a, ht, hc⟩ := parseAtom_shape hp
        obtain ⟨bs, hbs, hcs⟩ := ih _ _ _ _ h
        refine ⟨a :: bs, ?_, ?_⟩
        · simp [andTail, ht, hbs]
        · simp [hcs, hc]
      · cases h
    · cases h; exact ⟨[], by simp [andTail], rfl⟩

theorem parseConj_shape {fuel : Nat} {toks rest : List CTok} {c : Cond}
    (h : parseConj fuel toks = some (c, rest)) :
    ∃ g : Group, toks = conjToks g ++ rest ∧ c = conjTree g := by
  unfold parseConj at h
  split at h
  · rename_i lh r hp
    obtain ⟨a, ht, hc⟩ := parseAtom_shape hp
    obtain ⟨bs, hbs, hcs⟩ := conjLoop_shape _ _ _ _ _ h
    exact ⟨(a, bs), by simp [conjToks, ht, hbs], by simp [conjTree, hcs, hc]⟩
  · cases h

theorem disjLoop_shape : ∀ (fuel : Nat) (lh : Cond) (toks : List CTok) (c : Cond),
    disjLoop fuel lh toks = some c →
    ∃ gs : List Group, toks = orTail gs ∧ c = gs.foldl (fun c g => Cond.or c (conjTree g)) lh := by
  intro fuel
  induction fuel with
  | zero => intro lh toks c h; simp [disjLoop] at h
  | succ f ih =>
    intro lh toks c h
    unfold disjLoop at h
    split at h
    · cases h
    · cases h; exact ⟨[], by simp [orTail], rfl⟩
    · rename_i fuel' lh' rest' heq
      cases heq
      split at h
      · rename_i rh rest'' hp
        obtain ⟨g, ht, hc⟩ := parseConj_shape hp
        obtain ⟨gs, hgs, hcs⟩ := ih _ _ _ h
        exact ⟨g :: gs, by simp [orTail, ht, hgs], by simp [hcs, hc]⟩
      · cases h
    · cases h

/-- **Converse.** Whatever `parse_condition` accepts is a disjunction of conjunctions of atoms,
and its parse is the grouped tree: no other reading of a flat condition exists. -/
theorem parseCondition_shape {toks : List CTok} {c : Cond} (h : parseCondition toks = some c) :
    ∃ (g : Group) (gs : List Group), toks = disjToks g gs ∧ c = disjTree g gs := by
  unfold parseCondition at h
  simp only at h
  split at h
  · rename_i lh rest hp
    obtain ⟨g, ht, hc⟩ := parseConj_shape hp
    obtain ⟨gs, hgs, hcs⟩ := disjLoop_shape _ _ _ _ h
    exact ⟨g, gs, by simp [disjToks, ht, hgs], by simp [disjTree, hcs, hc]⟩
  · cases h

end Liquid.CondGroup
