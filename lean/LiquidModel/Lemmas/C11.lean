/-
  Helper lemmas for C11, umbrella file.  Parts: C11Base (induction, `every`, `strCmp`),
  C11Scalar, C11Sort (`sortK`, lookups), C11Eq (`value_eq`), C11Cmp (`value_cmp`),
  C11Canon (`canon`, deep permutations, `i64 as f64`), C11Trans (transitivity inside a kind).
-/
import LiquidModel.Lemmas.C11Trans
namespace Liquid.C11L
open Liquid Liquid.C11

theorem every_mono (p q : V → Bool) (hpq : ∀ v, p v = true → q v = true) (a : V) :
    a.every p = true → a.every q = true := by
  refine induct₁ (fun a => a.every p = true → a.every q = true) ?_ a
  intro a ih h
  cases a with
  | arr xs =>
    rw [every_arr] at h ⊢
    exact ⟨hpq _ h.1, fun x hx => ih x (sizeOf_lt_arr hx) (h.2 x hx)⟩
  | obj kvs =>
    rw [every_obj] at h ⊢
    exact ⟨hpq _ h.1, fun e he => ih e.2 (sizeOf_lt_obj he) (h.2 e he)⟩
  | nil => simp only [V.every] at h ⊢; exact hpq _ h
  | st s => simp only [V.every] at h ⊢; exact hpq _ h
  | sc s => simp only [V.every] at h ⊢; exact hpq _ h

theorem noTruthy_of_wf (a : V) (h : WF a = true) : NoTruthy a = true := by
  apply every_mono isNoMarker isNoTruthy _ a h
  intro v hv
  cases v with
  | st s => cases s <;> simp_all [isNoMarker, isNoTruthy]
  | _ => rfl

def isArr : V → Bool | .arr _ => true | _ => false
def isObj : V → Bool | .obj _ => true | _ => false

/-- computation rule for concrete non-container pairs -/
theorem valueEq_of_flat (a b : V) (h1 : (isArr a && isArr b) = false) (h2 : (isObj a && isObj b) = false) :
    valueEq a b = valueEqFlat a b := by
  apply valueEq_flat
  · cases a <;> cases b <;> simp_all [bothArr, isArr]
  · cases a <;> cases b <;> simp_all [bothObj, isObj]

theorem vLe_eq (a b : V) : vLe a b = (valueCmp a b == some .lt || valueCmp a b == some .eq) := by
  unfold vLe
  cases h : valueCmp a b with
  | none => rfl
  | some o => cases o <;> rfl

theorem vGe_eq (a b : V) : vGe a b = (valueCmp a b == some .gt || valueCmp a b == some .eq) := by
  unfold vGe
  cases h : valueCmp a b with
  | none => rfl
  | some o => cases o <;> rfl

end Liquid.C11L
