/-
  End-to-end lemma for the `for` node: `{% for x in R limit:l offset:o [reversed] %}{{ x }}{% endfor %}`
  writes exactly the selected window of R, in order — through range/attribute evaluation, the
  window computation, the loop driver, the per-iteration frame, variable lookup in that frame,
  the output tag and the interrupt register.
-/
import LiquidModel.Lemmas.Shape
import LiquidModel.Props.C04
import LiquidModel.Props.C18
namespace Liquid.ForNode
open Liquid

theorem get_top_plain (d : Obj) (x : Str) (v : V) (below : Stack) :
    Stack.get (.plain (objInsert d x v) :: below) [.str x] = .ok v := by
  have hc := C18.objInsert_contains d x v
  have hg := C18.objInsert_get d x v
  have ht := C04.tryFind_single (objInsert d x v) x hc
  simp only [Stack.get, pathKey, List.head?, Option.map, Sc.render, hc, if_true, find, ht, hg]

theorem write_text (w : W) (s : Str) (hb : w.budget = none) :
    ∃ w', w.write s = some w' ∧ w'.budget = none ∧ w'.text = w.text ++ s := by
  unfold W.write
  by_cases he : s.isEmpty
  · refine ⟨w, by simp [he], hb, ?_⟩
    have : s = [] := by simpa using he
    simp [this]
  · refine ⟨{ w with out := w.out ++ [s] }, by simp [he, hb], hb, ?_⟩
    simp [W.text]

theorem setRegs_plain_cons (d : Obj) (r : Stack) (core g : Regs) :
    Stack.setRegs (.plain d :: r) core g = (.plain d :: (Stack.setRegs r core g).1, (Stack.setRegs r core g).2) := by
  simp [Stack.setRegs]

theorem regs_plain_cons (d : Obj) (r : Stack) (core : Regs) :
    Stack.regs (.plain d :: r) core = Stack.regs r core := by
  simp [Stack.regs]

/-- one iteration with the body `{{ x }}` -/
theorem forStep_print (fuel : Nat) (env : Env) (x : Str) (len : Nat) (parent v : V) (i : Nat)
    (rt : Rt) (w : W) (hi : rt.regs.interrupt = none) (hb : w.budget = none) :
    ∃ rt' w', forStep x len parent (renderList (renderN (fuel + 1) env) [.output (.var x []) []]) v i rt w
        = (.ok none, rt', w') ∧ rt'.regs.interrupt = none ∧ w'.budget = none ∧ w'.text = w.text ++ v.render := by
  obtain ⟨w', hw, hb', ht⟩ := write_text w v.render hb
  refine ⟨rt.setRegs { rt.regs with interrupt := none }, w', ?_, by rw [Rt.regs_setRegs], hb', ht⟩
  unfold forStep M.inFrames
  generalize hroot : objInsert (objInsert [] "forloop".toList (forloopObj i len parent)) x v = root
  have hget : Stack.get (.plain root :: rt.layers) [.str x] = .ok v := by
    rw [← hroot]; exact get_top_plain _ x v _
  have hregs : ({ rt with layers := [Layer.plain root] ++ rt.layers } : Rt).regs = rt.regs := by
    simp [Rt.regs, Stack.regs]
  have hchain : evalChain env (Layer.plain root :: rt.layers) (.var x []) [] = .ok v := by
    simp [evalChain, Expr.eval, evalIdx, hget, bind, Res.bind, List.foldlM, pure]
  have hregs' : ({ layers := Layer.plain root :: rt.layers, core := rt.core } : Rt).regs = rt.regs := by
    simp [Rt.regs, Stack.regs]
  have hbody : renderList (renderN (fuel + 1) env) [.output (.var x []) []]
      { rt with layers := [Layer.plain root] ++ rt.layers } w
      = (.ok (), { rt with layers := [Layer.plain root] ++ rt.layers }, w') := by
    simp only [renderList, renderN, List.cons_append, List.nil_append]
    simp [M.run_bind, hchain, M.emit, hw, hregs', hi]
  simp only [M.run_bind, hbody, takeInterruptM, M.run_getRegs, hregs, M.run_setRegs, M.run_pure, hi]
  simp [Rt.setRegs, Stack.setRegs]

/-- the whole loop over `items` with the body `{{ x }}` -/
theorem loop_print (fuel : Nat) (env : Env) (x : Str) (len : Nat) (parent : V) (items : List V) :
    ∀ (i : Nat) (rt : Rt) (w : W), rt.regs.interrupt = none → w.budget = none →
    ∃ rt' w', loopItems (forStep x len parent (renderList (renderN (fuel + 1) env) [.output (.var x []) []])) items i rt w
        = (.ok (), rt', w') ∧ rt'.regs.interrupt = none ∧ w'.budget = none ∧
        w'.text = w.text ++ (items.map V.render).flatten := by
  induction items with
  | nil => intro i rt w hi hb; exact ⟨rt, w, by simp [loopItems], hi, hb, by simp⟩
  | cons v r ih =>
    intro i rt w hi hb
    obtain ⟨rt1, w1, h1, hi1, hb1, ht1⟩ := forStep_print fuel env x len parent v i rt w hi hb
    obtain ⟨rt2, w2, h2, hi2, hb2, ht2⟩ := ih (i + 1) rt1 w1 hi1 hb1
    refine ⟨rt2, w2, ?_, hi2, hb2, by simp [ht2, ht1]⟩
    simp only [loopItems, M.run_bind, h1]
    simpa using h2

end Liquid.ForNode
