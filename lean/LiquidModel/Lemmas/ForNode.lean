/-
  End-to-end lemma for the `for` node: `{% for x in R limit:l offset:o [reversed] %}{{ x }}{% endfor %}`
  writes exactly the selected window of R, in order — through range/attribute evaluation, the
  window computation, the loop driver, the per-iteration frame, variable lookup in that frame,
  the output tag and the interrupt register.
-/
import LiquidModel.Lemmas.Shape
import LiquidModel.Props.C04
import LiquidModel.Props.C18
namespace Liquid.ForNode
open Liquid

theorem get_top_plain (d : Obj) (x : Str) (v : V) (below : Stack) :
    Stack.get (.plain (objInsert d x v) :: below) [.str x] = .ok v := by
  have hc := C18.objInsert_contains d x v
  have hg := C18.objInsert_get d x v
  have ht := C04.tryFind_single (objInsert d x v) x hc
  simp only [Stack.get, pathKey, List.head?, Option.map, Sc.render, hc, if_true, find, ht, hg]

theorem write_text (w : W) (s : Str) (hb : w.budget = none) :
    ∃ w', w.write s = some w' ∧ w'.budget = none ∧ w'.text = w.text ++ s := by
  unfold W.write
  by_cases he : s.isEmpty
  · refine ⟨w, by simp [he], hb, ?_⟩
    have : s = [] := by simpa using he
    simp [this]
  · refine ⟨{ w with out := w.out ++ [s] }, by simp [he, hb], hb, ?_⟩
    simp [W.text]

theorem setRegs_plain_cons (d : Obj) (r : Stack) (core g : Regs) :
    Stack.setRegs (.plain d :: r) core g = (.plain d :: (Stack.setRegs r core g).1, (Stack.setRegs r core g).2) := by
  simp [Stack.setRegs]

theorem regs_plain_cons (d : Obj) (r : Stack) (core : Regs) :
    Stack.regs (.plain d :: r) core = Stack.regs r core := by
  simp [Stack.regs]

/-- the frame of iteration `i` of `len` over element `v` -/
def iterRoot (x : Str) (len : Nat) (parent v : V) (i : Nat) : Obj :=
  objInsert (objInsert [] "forloop".toList (forloopObj i len parent)) x v

/-- `body` is a *pure printer* in the frame `root`: pushed on ANY runtime without pending interrupt
it succeeds, writes `s`, and leaves the runtime exactly as it was -/
def WritesIn (body : M Unit) (root : Obj) (s : Str) : Prop :=
  ∀ (rt : Rt) (w : W), rt.regs.interrupt = none → w.budget = none →
    ∃ w', body { rt with layers := [Layer.plain root] ++ rt.layers } w
        = (.ok (), { rt with layers := [Layer.plain root] ++ rt.layers }, w') ∧
      w'.budget = none ∧ w'.text = w.text ++ s

/-- one iteration of a loop whose body is a pure printer -/
theorem forStep_pure (x : Str) (len : Nat) (parent v : V) (i : Nat) (body : M Unit) (s : Str)
    (hbody : WritesIn body (iterRoot x len parent v i) s)
    (rt : Rt) (w : W) (hi : rt.regs.interrupt = none) (hb : w.budget = none) :
    ∃ rt' w', forStep x len parent body v i rt w = (.ok none, rt', w') ∧
      rt'.regs.interrupt = none ∧ w'.budget = none ∧ w'.text = w.text ++ s := by
  obtain ⟨w', hrun, hb', ht⟩ := hbody rt w hi hb
  refine ⟨rt.setRegs { rt.regs with interrupt := none }, w', ?_, by rw [Rt.regs_setRegs], hb', ht⟩
  unfold forStep M.inFrames
  unfold iterRoot at hrun
  generalize hroot : objInsert (objInsert [] "forloop".toList (forloopObj i len parent)) x v = root at hrun
  have hregs : ({ rt with layers := [Layer.plain root] ++ rt.layers } : Rt).regs = rt.regs := by
    simp [Rt.regs, Stack.regs]
  simp only [M.run_bind, hrun, takeInterruptM, M.run_getRegs, hregs, M.run_setRegs, M.run_pure, hi]
  simp [Rt.setRegs, Stack.setRegs]

/-- the whole loop: the outputs of the iterations, in order, with positions `i, i+1, …` -/
theorem loop_pure (x : Str) (len : Nat) (parent : V) (body : M Unit) (f : V → Nat → Str)
    (hbody : ∀ v i, WritesIn body (iterRoot x len parent v i) (f v i)) (items : List V) :
    ∀ (i : Nat) (rt : Rt) (w : W), rt.regs.interrupt = none → w.budget = none →
    ∃ rt' w', loopItems (forStep x len parent body) items i rt w = (.ok (), rt', w') ∧
      rt'.regs.interrupt = none ∧ w'.budget = none ∧
      w'.text = w.text ++ ((items.zipIdx i).map fun (v, j) => f v j).flatten := by
  induction items with
  | nil => intro i rt w hi hb; exact ⟨rt, w, by simp [loopItems], hi, hb, by simp⟩
  | cons v r ih =>
    intro i rt w hi hb
    obtain ⟨rt1, w1, h1, hi1, hb1, ht1⟩ := forStep_pure x len parent v i body (f v i) (hbody v i) rt w hi hb
    obtain ⟨rt2, w2, h2, hi2, hb2, ht2⟩ := ih (i + 1) rt1 w1 hi1 hb1
    refine ⟨rt2, w2, ?_, hi2, hb2, by simp [ht2, ht1, List.zipIdx_cons]⟩
    simp only [loopItems, M.run_bind, h1]
    simpa using h2

/-- the body `{{ x }}` prints what the innermost frame binds `x` to -/
theorem print_var_writes_root (fuel : Nat) (env : Env) (x : Str) (d : Obj) (v : V) :
    WritesIn (renderList (renderN (fuel + 1) env) [.output (.var x []) []]) (objInsert d x v) v.render := by
  intro rt w hi hb
  obtain ⟨w', hw, hb', ht⟩ := write_text w v.render hb
  refine ⟨w', ?_, hb', ht⟩
  generalize hroot : objInsert d x v = root
  have hget : Stack.get (.plain root :: rt.layers) [.str x] = .ok v := by
    rw [← hroot]; exact get_top_plain _ x v _
  have hchain : evalChain env (Layer.plain root :: rt.layers) (.var x []) [] = .ok v := by
    simp [evalChain, Expr.eval, evalIdx, hget, bind, Res.bind, List.foldlM, pure]
  have hregs' : ({ layers := Layer.plain root :: rt.layers, core := rt.core } : Rt).regs = rt.regs := by
    simp [Rt.regs, Stack.regs]
  simp only [renderList, renderN, List.cons_append, List.nil_append]
  simp [M.run_bind, hchain, M.emit, hw, hregs', hi]

/-- the body `{{ x }}` prints the element -/
theorem print_var_writes (fuel : Nat) (env : Env) (x : Str) (len : Nat) (parent v : V) (i : Nat) :
    WritesIn (renderList (renderN (fuel + 1) env) [.output (.var x []) []]) (iterRoot x len parent v i) v.render :=
  print_var_writes_root fuel env x _ v

/-- the whole loop over `items` with the body `{{ x }}` -/
theorem loop_print (fuel : Nat) (env : Env) (x : Str) (len : Nat) (parent : V) (items : List V)
    (i : Nat) (rt : Rt) (w : W) (hi : rt.regs.interrupt = none) (hb : w.budget = none) :
    ∃ rt' w', loopItems (forStep x len parent (renderList (renderN (fuel + 1) env) [.output (.var x []) []])) items i rt w
        = (.ok (), rt', w') ∧ rt'.regs.interrupt = none ∧ w'.budget = none ∧
        w'.text = w.text ++ (items.map V.render).flatten := by
  obtain ⟨rt', w', h, h1, h2, h3⟩ := loop_pure x len parent _ (fun v _ => v.render)
    (fun v j => print_var_writes fuel env x len parent v j) items i rt w hi hb
  refine ⟨rt', w', h, h1, h2, ?_⟩
  rw [h3]
  congr 2
  clear h h3
  induction items generalizing i with
  | nil => rfl
  | cons a r ih => simp [List.zipIdx_cons, ih (i + 1)]


/-- looking up `forloop.<field>` in an iteration frame whose loop variable is not itself called
`forloop` -/
theorem get_forloop_field (x : Str) (len : Nat) (parent v : V) (i : Nat) (k : Str) (fv : V) (below : Stack)
    (hx : x ≠ "forloop".toList)
    (hf : ∃ kvs, forloopObj i len parent = .obj kvs ∧ objGet kvs k = some fv) :
    Stack.get (.plain (iterRoot x len parent v i) :: below) [.str "forloop".toList, .str k] = .ok fv := by
  obtain ⟨kvs, hobj, hk⟩ := hf
  have hg : objGet (iterRoot x len parent v i) "forloop".toList = some (forloopObj i len parent) := by
    unfold iterRoot
    rw [C18.objInsert_get_other _ _ _ _ (Ne.symm hx), C18.objInsert_get]
  have hc : objContains (iterRoot x len parent v i) "forloop".toList = true := by
    have := C18.objGet_isSome_iff_contains (iterRoot x len parent v i) "forloop".toList
    rw [hg] at this; simpa using this.symm
  have ht : tryFind (.obj (iterRoot x len parent v i)) [.str "forloop".toList, .str k] = some fv := by
    simp only [tryFind, augGet, Sc.render, hg, hobj, hk]
  simp only [Stack.get, pathKey, List.head?, Option.map, Sc.render, hc, if_true, find, ht]

/-- a body `{{ r.k }}` prints what the path resolves to in the frame -/
theorem print_path2_writes (fuel : Nat) (env : Env) (root : Obj) (r k : Str) (fv : V)
    (hget : ∀ below, Stack.get (.plain root :: below) [.str r, .str k] = .ok fv) :
    WritesIn (renderList (renderN (fuel + 1) env) [.output (.var r [.lit (.sc (.str k))]) []]) root fv.render := by
  intro rt w hi hb
  obtain ⟨w', hw, hb', ht⟩ := write_text w fv.render hb
  refine ⟨w', ?_, hb', ht⟩
  have hchain : evalChain env (Layer.plain root :: rt.layers) (.var r [.lit (.sc (.str k))]) [] = .ok fv := by
    simp [evalChain, Expr.eval, evalIdx, hget rt.layers, bind, Res.bind, List.foldlM, pure]
  have hregs' : ({ layers := Layer.plain root :: rt.layers, core := rt.core } : Rt).regs = rt.regs := by
    simp [Rt.regs, Stack.regs]
  simp only [renderList, renderN, List.cons_append, List.nil_append]
  simp [M.run_bind, hchain, M.emit, hw, hregs', hi]

/-- the body `{{ forloop.<field> }}` prints that field of the truthful forloop object -/
theorem print_forloop_field_writes (fuel : Nat) (env : Env) (x : Str) (len : Nat) (parent v : V) (i : Nat)
    (k : Str) (fv : V) (hx : x ≠ "forloop".toList)
    (hf : ∃ kvs, forloopObj i len parent = .obj kvs ∧ objGet kvs k = some fv) :
    WritesIn (renderList (renderN (fuel + 1) env) [.output (.var "forloop".toList [.lit (.sc (.str k))]) []])
      (iterRoot x len parent v i) fv.render :=
  print_path2_writes fuel env _ _ k fv (fun below => get_forloop_field x len parent v i k fv below hx hf)


/-! ### tablerow -/

/-- the frame of cell `i` of `len` in a table of `ncols` columns -/
def cellRoot (x : Str) (len ncols : Nat) (v : V) (i : Nat) : Obj :=
  objInsert (objInsert [] "tablerow".toList (tablerowObj i len (i % ncols) (usizeAsI64 ncols))) x v

/-- what one cell writes around the body's text `s` -/
def cellText (len ncols i : Nat) (s : Str) : Str :=
  (if i % ncols == 0 then "<tr class=\"row".toList ++ natDigits (i / ncols + 1) ++ "\">".toList else []) ++
  ("<td class=\"col".toList ++ natDigits (i % ncols + 1) ++ "\">".toList) ++ s ++ "</td>".toList ++
  (if (((i % ncols : Nat) : Int) + 1 == usizeAsI64 ncols) || ((i : Int) == (len : Int) - 1) then "</tr>".toList else [])

theorem emit_text (s : Str) (rt : Rt) (w : W) (hb : w.budget = none) :
    ∃ w', M.emit s rt w = (.ok (), rt, w') ∧ w'.budget = none ∧ w'.text = w.text ++ s := by
  obtain ⟨w', hw, hb', ht⟩ := write_text w s hb
  exact ⟨w', by simp [M.emit, hw], hb', ht⟩

/-- one cell whose body is a pure printer -/
theorem tablerowStep_pure (x : Str) (len ncols : Nat) (hn : ncols ≠ 0) (v : V) (i : Nat) (body : M Unit) (s : Str)
    (hbody : WritesIn body (cellRoot x len ncols v i) s)
    (rt : Rt) (w : W) (hi : rt.regs.interrupt = none) (hb : w.budget = none) :
    ∃ w', tablerowStep x len ncols body v i rt w = (.ok (), rt, w') ∧ w'.budget = none ∧
      w'.text = w.text ++ cellText len ncols i s := by
  have hn' : (ncols == 0) = false := by simpa using hn
  unfold tablerowStep cellText
  simp only [hn', Bool.false_eq_true, if_false]
  have hb0 := hbody
  unfold cellRoot at hb0
  generalize ((((i % ncols : Nat) : Int) + 1 == usizeAsI64 ncols) || ((i : Int) == (len : Int) - 1)) = colLast
  generalize (i % ncols == 0) = c0
  generalize ("<tr class=\"row".toList ++ natDigits (i / ncols + 1) ++ "\">".toList) = sRow
  generalize ("<td class=\"col".toList ++ natDigits (i % ncols + 1) ++ "\">".toList) = sCol
  generalize "</td>".toList = sTd
  generalize "</tr>".toList = sTr
  generalize objInsert (objInsert [] "tablerow".toList (tablerowObj i len (i % ncols) (usizeAsI64 ncols))) x v = root at hb0
  have inF : ∀ w2, w2.budget = none → ∃ w3, M.inFrames [Layer.plain root] body rt w2 = (.ok (), rt, w3) ∧
      w3.budget = none ∧ w3.text = w2.text ++ s := by
    intro w2 b2
    obtain ⟨w3, e3, b3, t3⟩ := hb0 rt w2 hi b2
    exact ⟨w3, by unfold M.inFrames; rw [e3]; simp, b3, t3⟩
  cases c0 <;> cases colLast
  · obtain ⟨w2, e2, b2, t2⟩ := emit_text sCol rt w hb
    obtain ⟨w3, e3, b3, t3⟩ := inF w2 b2
    obtain ⟨w4, e4, b4, t4⟩ := emit_text sTd rt w3 b3
    exact ⟨w4, by simp [M.run_bind, e2, e3, e4], b4, by simp [t4, t3, t2, List.append_assoc]⟩
  · obtain ⟨w2, e2, b2, t2⟩ := emit_text sCol rt w hb
    obtain ⟨w3, e3, b3, t3⟩ := inF w2 b2
    obtain ⟨w4, e4, b4, t4⟩ := emit_text sTd rt w3 b3
    obtain ⟨w5, e5, b5, t5⟩ := emit_text sTr rt w4 b4
    exact ⟨w5, by simp [M.run_bind, e2, e3, e4, e5], b5, by simp [t5, t4, t3, t2, List.append_assoc]⟩
  · obtain ⟨w1, e1, b1, t1⟩ := emit_text sRow rt w hb
    obtain ⟨w2, e2, b2, t2⟩ := emit_text sCol rt w1 b1
    obtain ⟨w3, e3, b3, t3⟩ := inF w2 b2
    obtain ⟨w4, e4, b4, t4⟩ := emit_text sTd rt w3 b3
    exact ⟨w4, by simp [M.run_bind, e1, e2, e3, e4], b4, by simp [t4, t3, t2, t1, List.append_assoc]⟩
  · obtain ⟨w1, e1, b1, t1⟩ := emit_text sRow rt w hb
    obtain ⟨w2, e2, b2, t2⟩ := emit_text sCol rt w1 b1
    obtain ⟨w3, e3, b3, t3⟩ := inF w2 b2
    obtain ⟨w4, e4, b4, t4⟩ := emit_text sTd rt w3 b3
    obtain ⟨w5, e5, b5, t5⟩ := emit_text sTr rt w4 b4
    exact ⟨w5, by simp [M.run_bind, e1, e2, e3, e4, e5], b5, by simp [t5, t4, t3, t2, t1, List.append_assoc]⟩

/-- the whole table: the cells in order -/
theorem table_pure (x : Str) (len ncols : Nat) (hn : ncols ≠ 0) (body : M Unit) (f : V → Nat → Str)
    (hbody : ∀ v i, WritesIn body (cellRoot x len ncols v i) (f v i)) (items : List V) :
    ∀ (i : Nat) (rt : Rt) (w : W), rt.regs.interrupt = none → w.budget = none →
    ∃ w', tableItems (tablerowStep x len ncols body) items i rt w = (.ok (), rt, w') ∧ w'.budget = none ∧
      w'.text = w.text ++ ((items.zipIdx i).map fun (v, j) => cellText len ncols j (f v j)).flatten := by
  induction items with
  | nil => intro i rt w hi hb; exact ⟨w, by simp [tableItems], hb, by simp⟩
  | cons v r ih =>
    intro i rt w hi hb
    obtain ⟨w1, h1, hb1, ht1⟩ := tablerowStep_pure x len ncols hn v i body (f v i) (hbody v i) rt w hi hb
    obtain ⟨w2, h2, hb2, ht2⟩ := ih (i + 1) rt w1 hi hb1
    refine ⟨w2, ?_, hb2, by simp [ht2, ht1, List.zipIdx_cons]⟩
    simp only [tableItems, M.run_bind, h1]
    exact h2

end Liquid.ForNode
