/-
  Helper lemmas for Props/C03.lean (and reusable by C01): decomposition lemmas for every matcher of the
  lax lexer, tiling, fuel stability, `WHITESPACE*` = maximal run of the whitespace class.
-/
import LiquidModel.Model.MiniParse
namespace Liquid.Lex

/-! ### whitespace -/

theorem wsRun_append_skipWs (s : List Char) : wsRun s ++ skipWs s = s := by
  simp [wsRun, skipWs, List.takeWhile_append_dropWhile]

theorem takeWhile_all (p : Char → Bool) : ∀ (s : List Char), ∀ c ∈ s.takeWhile p, p c = true
  | [], c, h => by simp at h
  | a :: t, c, h => by
    by_cases ha : p a = true
    · simp [List.takeWhile, ha] at h
      rcases h with h | h
      · simpa [h] using ha
      · exact takeWhile_all p t c h
    · simp [List.takeWhile, ha] at h

theorem dropWhile_head (p : Char → Bool) : ∀ (s : List Char) c, (s.dropWhile p).head? = some c → p c = false
  | [], c, h => by simp at h
  | a :: t, c, h => by
    by_cases ha : p a = true
    · simp [List.dropWhile, ha] at h
      exact dropWhile_head p t c (by simpa using h)
    · simp [List.dropWhile, ha] at h
      subst h
      simpa using ha

theorem wsRun_all (s : List Char) : ∀ c ∈ wsRun s, isWs c = true := takeWhile_all isWs s

theorem skipWs_head (s : List Char) : ∀ c, (skipWs s).head? = some c → isWs c = false :=
  dropWhile_head isWs s

theorem skipWs_of_ws {c : Char} (h : isWs c = true) (s : List Char) : skipWs (c :: s) = skipWs s := by
  simp [skipWs, List.dropWhile, h]

theorem skipWs_of_not_ws {c : Char} (h : isWs c = false) (s : List Char) : skipWs (c :: s) = c :: s := by
  simp [skipWs, List.dropWhile, h]

theorem wsRun_of_not_ws {c : Char} (h : isWs c = false) (s : List Char) : wsRun (c :: s) = [] := by
  simp [wsRun, List.takeWhile, h]

/-! ### literals and delimiters -/

theorem stripPrefix?_eq : ∀ (p s r : List Char), stripPrefix? p s = some r → s = p ++ r
  | [], s, r, h => by simp [stripPrefix?] at h; simp [h]
  | _ :: _, [], r, h => by simp [stripPrefix?] at h
  | a :: p, b :: s, r, h => by
    simp only [stripPrefix?] at h
    split at h
    · rename_i hab
      have := stripPrefix?_eq p s r h
      simp at hab
      simp [hab, this]
    · simp at h

theorem plainStart_eq {d : Char} {s r : List Char} (h : plainStart d s = some r) : s = '{' :: d :: r := by
  unfold plainStart at h
  split at h
  · split at h
    · rename_i hc; simp at hc; simp at h; simp [hc, h]
    · simp at h
  · simp at h

theorem trimStart_eq {d : Char} {s r : List Char} (h : trimStart d s = some r) :
    skipWs s = '{' :: d :: '-' :: r := by
  unfold trimStart at h
  split at h
  · rename_i heq
    split at h
    · rename_i hc; simp at hc; simp at h; simp [heq, hc, h]
    · simp at h
  · simp at h

theorem startAt_eq {d : Char} {s pre r : List Char} {tl : Bool} (h : startAt d s = some (pre, tl, r)) :
    s = pre ++ (openDelim d tl ++ r) ∧ (tl = false → pre = []) ∧ (∀ c ∈ pre, isWs c = true) ∧
    (tl = true → trimStart d s = some r) := by
  unfold startAt at h
  split at h
  · rename_i r' ht
    simp at h
    obtain ⟨h1, h2, h3⟩ := h
    subst h1 h2 h3
    refine ⟨?_, by simp, wsRun_all s, fun _ => ht⟩
    have := trimStart_eq ht
    conv => lhs; rw [← wsRun_append_skipWs s, this]
    simp [openDelim]
  · split at h
    · rename_i r' hp
      simp at h
      obtain ⟨h1, h2, h3⟩ := h
      subst h1 h2 h3
      refine ⟨?_, by simp, by simp, by simp⟩
      simp [plainStart_eq hp, openDelim]
    · simp at h

theorem endAt_eq {d : Char} {s post r : List Char} {tr : Bool} (h : endAt d s = some (tr, post, r)) :
    s = closeDelim d tr ++ (post ++ r) ∧ (tr = false → post = []) ∧ (∀ c ∈ post, isWs c = true) ∧
    (tr = true → ∀ c, r.head? = some c → isWs c = false) := by
  unfold endAt at h
  split at h
  · rename_i c r'
    split at h
    · rename_i hc
      simp at hc; simp at h
      obtain ⟨h1, h2, h3⟩ := h
      subst h1 h2 h3 hc
      refine ⟨by simp [closeDelim, wsRun_append_skipWs], by simp, wsRun_all r', fun _ => skipWs_head r'⟩
    · simp at h
  · rename_i c r' _
    split at h
    · rename_i hc
      simp at hc; simp at h
      obtain ⟨h1, h2, h3⟩ := h
      subst h1 h2 h3 hc
      exact ⟨by simp [closeDelim], by simp, by simp, by simp⟩
    · simp at h
  · simp at h

/-! ### markup elements -/

/-- everything `markupAt` guarantees about a match -/
structure MarkupSpec (o c : Char) (s : List Char) (m : Markup) (rest : List Char) : Prop where
  tile : s = m.text o c ++ rest
  pre_none : m.trimL = false → m.pre = []
  pre_ws : ∀ x ∈ m.pre, isWs x = true
  post_none : m.trimR = false → m.post = []
  post_ws : ∀ x ∈ m.post, isWs x = true
  post_max : m.trimR = true → ∀ x, rest.head? = some x → isWs x = false
  start : ∃ r, startAt o s = some (m.pre, m.trimL, r)

theorem markupAt_spec {o c : Char} {inner : InnerM} {s rest : List Char} {m : Markup}
    (h : markupAt o c inner s = some (m, rest)) : MarkupSpec o c s m rest := by
  unfold markupAt at h
  split at h
  · simp at h
  · rename_i pre tl r1 hs
    split at h
    · simp at h
    · rename_i n hn
      simp only at h
      split at h
      · simp at h
      · rename_i tr post r5 he
        simp at h
        obtain ⟨hm, hr⟩ := h
        subst hm hr
        obtain ⟨s1, s2, s3, s4⟩ := startAt_eq hs
        obtain ⟨e1, e2, e3, e4⟩ := endAt_eq he
        refine ⟨?_, s2, s3, e2, e3, e4, ⟨r1, hs⟩⟩
        simp only [Markup.text]
        have h3 : (skipWs r1).drop n = wsRun ((skipWs r1).drop n) ++ skipWs ((skipWs r1).drop n) :=
          (wsRun_append_skipWs _).symm
        have h2 : skipWs r1 = (skipWs r1).take n ++ (skipWs r1).drop n := (List.take_append_drop n _).symm
        have h1 : r1 = wsRun r1 ++ skipWs r1 := (wsRun_append_skipWs _).symm
        rw [s1]
        conv => lhs; rw [h1, h2, h3, e1]
        simp [List.append_assoc]

theorem Markup.text_ne_nil (o c : Char) (m : Markup) : m.text o c ≠ [] := by
  simp [Markup.text, openDelim]
  intro _
  split <;> simp

/-! ### raw text -/

theorem scanRaw_append : ∀ (r : List Char), (scanRaw r).1 ++ (scanRaw r).2 = r
  | [] => by simp [scanRaw]
  | c :: r => by
    unfold scanRaw
    split
    · simp
    · simp [scanRaw_append r]

/-- no position inside the scanned text is the start of a delimiter -/
theorem scanRaw_noStart : ∀ (r a b : List Char), (scanRaw r).1 = a ++ b → b ≠ [] →
    isStart (b ++ (scanRaw r).2) = false
  | [], a, b, h, hb => by simp [scanRaw] at h; exact absurd h.2 hb
  | c :: r, a, b, h, hb => by
    unfold scanRaw at h ⊢
    split
    · rename_i hs; simp [hs] at h; exact absurd h.2 hb
    · rename_i hs
      simp [hs] at h ⊢
      cases a with
      | nil =>
        simp at h
        subst h
        simp [scanRaw_append r]
        simpa using hs
      | cons a0 a' =>
        simp at h
        exact scanRaw_noStart r a' b h.2 hb

/-- the scan stops at the end of input or right before a delimiter start -/
theorem scanRaw_stop : ∀ (r : List Char), (scanRaw r).2 = [] ∨ isStart (scanRaw r).2 = true
  | [] => by simp [scanRaw]
  | c :: r => by
    unfold scanRaw
    split
    · rename_i hs; simp [hs]
    · simpa using scanRaw_stop r

/-! ### one element -/

theorem lexOne_tile (g : Inner) (c : Char) (r : List Char) :
    (lexOne g c r).1.text ++ (lexOne g c r).2 = c :: r ∧ (lexOne g c r).1.text ≠ [] := by
  unfold lexOne
  simp only
  split
  · rename_i m rest h
    exact ⟨(markupAt_spec h).tile.symm, Markup.text_ne_nil _ _ m⟩
  · split
    · rename_i m rest h
      exact ⟨(markupAt_spec h).tile.symm, Markup.text_ne_nil _ _ m⟩
    · split
      · simp [Elem.text]
      · simp [Elem.text, scanRaw_append r]

theorem lexOne_rest_length (g : Inner) (c : Char) (r : List Char) : (lexOne g c r).2.length ≤ r.length := by
  have ⟨h, hne⟩ := lexOne_tile g c r
  have hl := congrArg List.length h
  simp at hl
  have : 0 < (lexOne g c r).1.text.length := List.length_pos_iff.mpr hne
  omega

/-! ### the loop -/

def texts (es : List Elem) : List Char := es.flatMap Elem.text

theorem lexFuel_tile (g : Inner) : ∀ (n : Nat) (s : List Char), s.length < n → texts (lexFuel g n s) = s
  | 0, s, h => by omega
  | n + 1, [], _ => by simp [lexFuel, texts]
  | n + 1, c :: r, h => by
    simp only [lexFuel, texts, List.flatMap_cons]
    have hl := lexOne_rest_length g c r
    have ih := lexFuel_tile g n (lexOne g c r).2 (by simp at h; omega)
    simp only [texts] at ih
    rw [ih]
    exact (lexOne_tile g c r).1

theorem lexFuel_nonempty (g : Inner) : ∀ (n : Nat) (s : List Char), ∀ e ∈ lexFuel g n s, e.text ≠ []
  | 0, s, e, h => by simp [lexFuel] at h
  | n + 1, [], e, h => by simp [lexFuel] at h
  | n + 1, c :: r, e, h => by
    simp only [lexFuel, List.mem_cons] at h
    rcases h with h | h
    · subst h; exact (lexOne_tile g c r).2
    · exact lexFuel_nonempty g n _ e h

/-- more fuel than `length + 1` changes nothing: the loop always stops by exhausting the input -/
theorem lexFuel_stable (g : Inner) : ∀ (n k : Nat) (s : List Char), s.length < n → s.length < k →
    lexFuel g n s = lexFuel g k s
  | 0, _, s, h, _ => by omega
  | _, 0, s, _, h => by omega
  | n + 1, k + 1, [], _, _ => by simp [lexFuel]
  | n + 1, k + 1, c :: r, hn, hk => by
    simp only [lexFuel]
    have hl := lexOne_rest_length g c r
    rw [lexFuel_stable g n k (lexOne g c r).2 (by simp at hn; omega) (by simp at hk; omega)]

theorem lexLax_tile (g : Inner) (s : List Char) : texts (lexLax g s) = s :=
  lexFuel_tile g _ s (by omega)

/-- unfolding equation of the lexer on a non-empty input -/
theorem lexLax_cons (g : Inner) (c : Char) (r : List Char) :
    lexLax g (c :: r) = (lexOne g c r).1 :: lexLax g (lexOne g c r).2 := by
  have hl := lexOne_rest_length g c r
  simp only [lexLax, List.length_cons, lexFuel]
  rw [lexFuel_stable g (r.length + 1) ((lexOne g c r).2.length + 1) _ (by omega) (by omega)]

theorem lexLax_nil (g : Inner) : lexLax g [] = [] := by simp [lexLax, lexFuel]

/-! ### `WHITESPACE*` as pest runs it = the maximal run of the class -/

/-- every alternative is non-empty and consists of characters that are alternatives themselves -/
def AltsShape (alts : List (List Char)) : Prop :=
  ∀ a ∈ alts, a ≠ [] ∧ ∀ c ∈ a, alts.contains [c] = true

theorem pegAlt_some : ∀ (alts : List (List Char)) (s r : List Char), pegAlt alts s = some r →
    ∃ a ∈ alts, s = a ++ r
  | [], s, r, h => by simp [pegAlt] at h
  | a :: as, s, r, h => by
    simp only [pegAlt] at h
    split at h
    · rename_i r' hp
      simp at h; subst h
      exact ⟨a, by simp, stripPrefix?_eq a s r' hp⟩
    · obtain ⟨b, hb, hs⟩ := pegAlt_some as s r h
      exact ⟨b, by simp [hb], hs⟩

theorem stripPrefix?_append (p r : List Char) : stripPrefix? p (p ++ r) = some r := by
  induction p with
  | nil => simp [stripPrefix?]
  | cons a p ih => simp [stripPrefix?, ih]

theorem pegAlt_isSome_of_mem : ∀ (alts : List (List Char)) (a r : List Char), a ∈ alts →
    (pegAlt alts (a ++ r)).isSome = true
  | [], a, r, h => by simp at h
  | b :: bs, a, r, h => by
    simp only [pegAlt]
    split
    · simp
    · rename_i hn
      simp at h
      rcases h with h | h
      · subst h; simp [stripPrefix?_append] at hn
      · exact pegAlt_isSome_of_mem bs a r h

theorem dropWhile_append_all (p : Char → Bool) : ∀ (a r : List Char), (∀ c ∈ a, p c = true) →
    (a ++ r).dropWhile p = r.dropWhile p
  | [], r, _ => by simp
  | c :: a, r, h => by
    have hc : p c = true := h c (by simp)
    simp [hc]
    exact dropWhile_append_all p a r (fun x hx => h x (by simp [hx]))

theorem pegStarFuel_eq (alts : List (List Char)) (hs : AltsShape alts) :
    ∀ (n : Nat) (s : List Char), s.length < n →
      pegStarFuel alts n s = s.dropWhile (fun c => alts.contains [c])
  | 0, s, h => by omega
  | n + 1, s, h => by
    simp only [pegStarFuel]
    split
    · rename_i r hr
      obtain ⟨a, ha, hsa⟩ := pegAlt_some alts s r hr
      obtain ⟨hne, hall⟩ := hs a ha
      have hlen : r.length < s.length := by
        have : 0 < a.length := List.length_pos_iff.mpr hne
        simp [hsa]; omega
      rw [if_pos hlen, pegStarFuel_eq alts hs n r (by omega), hsa]
      exact (dropWhile_append_all _ a r hall).symm
    · rename_i hnone
      cases s with
      | nil => simp
      | cons c t =>
        by_cases hc : alts.contains [c] = true
        · have := pegAlt_isSome_of_mem alts [c] t (by simpa using hc)
          simp [hnone] at this
        · rw [List.dropWhile_cons_of_neg (by simpa using hc)]

theorem pegStar_eq_dropWhile (alts : List (List Char)) (hs : AltsShape alts) (s : List Char) :
    pegStar alts s = s.dropWhile (fun c => alts.contains [c]) :=
  pegStarFuel_eq alts hs _ s (by omega)

/-! ### splitting the element list -/

theorem lexLax_split (g : Inner) : ∀ (es₁ es₂ : List Elem) (s : List Char), lexLax g s = es₁ ++ es₂ →
    ∃ s₂, s = texts es₁ ++ s₂ ∧ lexLax g s₂ = es₂
  | [], es₂, s, h => ⟨s, by simp [texts], by simpa using h⟩
  | e :: es₁, es₂, [], h => by simp [lexLax_nil] at h
  | e :: es₁, es₂, c :: r, h => by
    rw [lexLax_cons] at h
    simp at h
    obtain ⟨he, ht⟩ := h
    obtain ⟨s₂, h1, h2⟩ := lexLax_split g es₁ es₂ _ ht
    refine ⟨s₂, ?_, h2⟩
    have := (lexOne_tile g c r).1
    rw [← this, h1, ← he]
    simp [texts]

theorem lexLax_head (g : Inner) {s : List Char} {e : Elem} {es : List Elem} (h : lexLax g s = e :: es) :
    ∃ c r, s = c :: r ∧ (lexOne g c r).1 = e ∧ lexLax g (lexOne g c r).2 = es := by
  cases s with
  | nil => simp [lexLax_nil] at h
  | cons c r =>
    rw [lexLax_cons] at h
    simp at h
    exact ⟨c, r, rfl, h.1, h.2⟩

theorem lexOne_tag {g : Inner} {c : Char} {r : List Char} {m : Markup} (h : (lexOne g c r).1 = .tag m) :
    markupAt '%' '%' g.tagInner (c :: r) = some (m, (lexOne g c r).2) := by
  unfold lexOne at h ⊢
  simp only at h ⊢
  split at h
  · simp at h
  · split at h
    · rename_i m' rest hm
      simp at h; subst h
      simp [hm]
    · split at h <;> simp at h

theorem lexOne_expr {g : Inner} {c : Char} {r : List Char} {m : Markup} (h : (lexOne g c r).1 = .expr m) :
    markupAt '{' '}' g.exprInner (c :: r) = some (m, (lexOne g c r).2) := by
  unfold lexOne at h ⊢
  simp only at h ⊢
  split at h
  · rename_i m' rest hm
    simp at h; subst h
    simp [hm]
  · split at h
    · simp at h
    · split at h <;> simp at h

theorem lexOne_raw {g : Inner} {c : Char} {r t : List Char} (h : (lexOne g c r).1 = .raw t) :
    isStart (c :: r) = false ∧ t = c :: (scanRaw r).1 ∧ (lexOne g c r).2 = (scanRaw r).2 := by
  unfold lexOne at h ⊢
  simp only at h ⊢
  split at h
  · simp at h
  · split at h
    · simp at h
    · split at h
      · simp at h
      · rename_i hs
        simp at h
        simp [hs, h]

/-- a markup element of the output, with what `markupAt` guarantees, and the text after it -/
theorem lexLax_markup (g : Inner) {s : List Char} {es₁ es₂ : List Elem} {e : Elem} {m : Markup}
    (h : lexLax g s = es₁ ++ e :: es₂) (hm : e = .tag m ∨ e = .expr m) :
    ∃ o c s₂, MarkupSpec o c s₂ m (texts es₂) ∧ s = texts es₁ ++ s₂ := by
  obtain ⟨s₂, hs, h2⟩ := lexLax_split g es₁ (e :: es₂) s h
  obtain ⟨c, r, hc, he, hr⟩ := lexLax_head g h2
  have hrest : texts es₂ = (lexOne g c r).2 := by rw [← hr]; exact lexLax_tile g _
  rcases hm with hm | hm
  · subst hm
    have := markupAt_spec (lexOne_tag he)
    exact ⟨'%', '%', s₂, by rw [hrest, hc]; exact this, hs⟩
  · subst hm
    have := markupAt_spec (lexOne_expr he)
    exact ⟨'{', '}', s₂, by rw [hrest, hc]; exact this, hs⟩

theorem exists_init_of_getLast? : ∀ (l : List Char) (x : Char), l.getLast? = some x → ∃ ini, l = ini ++ [x]
  | [], x, h => by simp at h
  | [a], x, h => by simp at h; exact ⟨[], by simp [h]⟩
  | a :: b :: l, x, h => by
    rw [List.getLast?_cons_cons] at h
    obtain ⟨ini, hi⟩ := exists_init_of_getLast? (b :: l) x h
    exact ⟨a :: ini, by simp [hi]⟩

theorem trimStart_ws {d x : Char} (hx : isWs x = true) (s : List Char) :
    trimStart d (x :: s) = trimStart d s := by
  simp [trimStart, skipWs_of_ws hx]

theorem isStart_of_startAt {d : Char} (hd : d = '%' ∨ d = '{') {s : List Char}
    (h : (startAt d s).isSome = true) : isStart s = true := by
  rcases hd with hd | hd <;> subst hd <;> simp [isStart, h]

/-- left maximality: a text element directly before a markup element that starts with `{%-`/`{{-`
does not end in whitespace -/
theorem raw_before_trim (g : Inner) {s : List Char} {es₀ es₂ : List Elem} {t : List Char} {e : Elem} {m : Markup}
    (h : lexLax g s = es₀ ++ .raw t :: e :: es₂) (hm : e = .tag m ∨ e = .expr m) (htl : m.trimL = true) :
    ∀ x, t.getLast? = some x → isWs x = false := by
  intro x hx
  obtain ⟨s₁, _, h1⟩ := lexLax_split g es₀ (.raw t :: e :: es₂) s h
  obtain ⟨c, r, hc, he1, hr1⟩ := lexLax_head g h1
  obtain ⟨hns, ht, hrest⟩ := lexOne_raw he1
  rw [hrest] at hr1
  obtain ⟨c2, r2, hc2, he2, _⟩ := lexLax_head g hr1
  -- the markup element starts with the trim alternative at `(scanRaw r).2`
  have hstart : ∃ d, (d = '%' ∨ d = '{') ∧ ∃ r3, trimStart d (scanRaw r).2 = some r3 := by
    rcases hm with hm | hm
    · subst hm
      obtain ⟨r3, h3⟩ := (markupAt_spec (lexOne_tag he2)).start
      rw [htl, ← hc2] at h3
      exact ⟨'%', Or.inl rfl, r3, (startAt_eq h3).2.2.2 rfl⟩
    · subst hm
      obtain ⟨r3, h3⟩ := (markupAt_spec (lexOne_expr he2)).start
      rw [htl, ← hc2] at h3
      exact ⟨'{', Or.inr rfl, r3, (startAt_eq h3).2.2.2 rfl⟩
  obtain ⟨d, hd, r3, h3⟩ := hstart
  by_cases hw : isWs x = true
  · -- then a delimiter start would already match at `x`, so the scan cannot have consumed it
    exfalso
    have hst : isStart (x :: (scanRaw r).2) = true := by
      apply isStart_of_startAt hd
      simp [startAt, trimStart_ws hw, h3]
    cases hsr : (scanRaw r).1 with
    | nil =>
      simp [ht, hsr] at hx
      subst hx
      have : (scanRaw r).2 = r := by simpa [hsr] using scanRaw_append r
      rw [this] at hst
      simp [hst] at hns
    | cons a0 a' =>
      have hlast : (scanRaw r).1.getLast? = some x := by
        rw [ht, hsr] at hx
        simpa [hsr, List.getLast?_cons_cons] using hx
      obtain ⟨ini, hini⟩ := exists_init_of_getLast? _ x hlast
      have := scanRaw_noStart r ini [x] hini (by simp)
      simp at this
      simp [this] at hst
  · simpa using hw

theorem markupAt_isSome_congr {o c : Char} {inner : InnerM} {s s' pre pre' r1 : List Char} {tl tl' : Bool}
    (h : startAt o s = some (pre, tl, r1)) (h' : startAt o s' = some (pre', tl', r1)) :
    (markupAt o c inner s).isSome = (markupAt o c inner s').isSome := by
  unfold markupAt
  rw [h, h']
  simp only
  cases inner (skipWs r1) with
  | none => rfl
  | some n =>
    simp only
    cases endAt c (skipWs (List.drop n (skipWs r1))) with
    | none => rfl
    | some p => rfl

theorem lexOne_invalid {g : Inner} {c x : Char} {r : List Char} (h : (lexOne g c r).1 = .invalid x) :
    x = c ∧ (lexOne g c r).2 = r ∧ markupAt '{' '}' g.exprInner (c :: r) = none ∧
    markupAt '%' '%' g.tagInner (c :: r) = none := by
  unfold lexOne at h ⊢
  simp only at h ⊢
  split at h
  · simp at h
  · rename_i he
    split at h
    · simp at h
    · rename_i ht
      split at h
      · rename_i hs
        simp at h
        subst h
        simp [he, ht, hs]
      · simp at h

/-- an invalid one-character element right before a `{%-`/`{{-` element is not a whitespace character -/
theorem invalid_before_trim (g : Inner) {s : List Char} {es₀ es₂ : List Elem} {x : Char} {e : Elem} {m : Markup}
    (h : lexLax g s = es₀ ++ .invalid x :: e :: es₂) (hm : e = .tag m ∨ e = .expr m) (htl : m.trimL = true) :
    isWs x = false := by
  obtain ⟨s₁, _, h1⟩ := lexLax_split g es₀ (.invalid x :: e :: es₂) s h
  obtain ⟨c, r, hc, he1, hr1⟩ := lexLax_head g h1
  obtain ⟨hx, hrest, hne, hnt⟩ := lexOne_invalid he1
  subst hx
  rw [hrest] at hr1
  obtain ⟨c2, r2, hc2, he2, _⟩ := lexLax_head g hr1
  by_cases hw : isWs x = true
  · exfalso
    rcases hm with hm | hm
    · subst hm
      have hmk := lexOne_tag he2
      obtain ⟨r3, h3⟩ := (markupAt_spec hmk).start
      rw [htl, ← hc2] at h3
      have ht3 := (startAt_eq h3).2.2.2 rfl
      have h3' : startAt '%' (x :: r) = some (wsRun (x :: r), true, r3) := by
        simp [startAt, trimStart_ws hw, ht3]
      have := markupAt_isSome_congr (c := '%') (inner := g.tagInner) h3' h3
      rw [← hc2] at hmk
      rw [hnt, hmk] at this
      simp at this
    · subst hm
      have hmk := lexOne_expr he2
      obtain ⟨r3, h3⟩ := (markupAt_spec hmk).start
      rw [htl, ← hc2] at h3
      have ht3 := (startAt_eq h3).2.2.2 rfl
      have h3' : startAt '{' (x :: r) = some (wsRun (x :: r), true, r3) := by
        simp [startAt, trimStart_ws hw, ht3]
      have := markupAt_isSome_congr (c := '}') (inner := g.exprInner) h3' h3
      rw [← hc2] at hmk
      rw [hne, hmk] at this
      simp at this
  · simpa using hw

theorem Markup.text_last_of_noTrim (o c : Char) (m : Markup) (h : m.trimR = false) (hp : m.post = []) :
    (m.text o c).getLast? = some '}' := by
  simp [Markup.text, closeDelim, h, hp]

/-- left maximality in general: the element right before a `{%-`/`{{-` element ends in whitespace only if
it is itself a markup element whose `-%}`/`-}}` has absorbed that whitespace -/
theorem before_trim (g : Inner) {s : List Char} {es₀ es₂ : List Elem} {p e : Elem} {m : Markup}
    (h : lexLax g s = es₀ ++ p :: e :: es₂) (hm : e = .tag m ∨ e = .expr m) (htl : m.trimL = true)
    (x : Char) (hx : p.text.getLast? = some x) (hw : isWs x = true) :
    ∃ m', (p = .tag m' ∨ p = .expr m') ∧ m'.trimR = true := by
  have hbrace : isWs '}' = false := by decide
  cases p with
  | raw t =>
    have := raw_before_trim g h hm htl x (by simpa [Elem.text] using hx)
    simp [this] at hw
  | invalid c =>
    have hc : x = c := by simpa [Elem.text] using hx.symm
    subst hc
    have := invalid_before_trim g h hm htl
    simp [this] at hw
  | tag m' =>
    by_cases htr : m'.trimR = true
    · exact ⟨m', Or.inl rfl, htr⟩
    · exfalso
      have htr' : m'.trimR = false := by simpa using htr
      obtain ⟨o, c, s₂, sp, _⟩ := lexLax_markup g (es₁ := es₀) (es₂ := e :: es₂) h (Or.inl rfl)
      have := Markup.text_last_of_noTrim '%' '%' m' htr' (sp.post_none htr')
      simp [Elem.text, this] at hx
      subst hx
      simp [hbrace] at hw
  | expr m' =>
    by_cases htr : m'.trimR = true
    · exact ⟨m', Or.inr rfl, htr⟩
    · exfalso
      have htr' : m'.trimR = false := by simpa using htr
      obtain ⟨o, c, s₂, sp, _⟩ := lexLax_markup g (es₁ := es₀) (es₂ := e :: es₂) h (Or.inr rfl)
      have := Markup.text_last_of_noTrim '{' '}' m' htr' (sp.post_none htr')
      simp [Elem.text, this] at hx
      subst hx
      simp [hbrace] at hw

end Liquid.Lex

namespace Liquid.Lex

/-! ### text without delimiters -/

/-- the text contains `{{` or `{%` -/
def hasOpen : List Char → Bool
  | [] => false
  | c :: r => (c == '{' && (r.head? == some '{' || r.head? == some '%')) || hasOpen r

theorem hasOpen_tail {c : Char} {r : List Char} (h : hasOpen (c :: r) = false) : hasOpen r = false := by
  simp [hasOpen] at h; exact h.2

theorem hasOpen_dropWhile (p : Char → Bool) : ∀ (s : List Char), hasOpen s = false → hasOpen (s.dropWhile p) = false
  | [], _ => by simp [hasOpen]
  | c :: r, h => by
    by_cases hc : p c = true
    · simp [hc]; exact hasOpen_dropWhile p r (hasOpen_tail h)
    · simp [hc]; exact h

theorem startAt_none_of_noOpen {d : Char} (hd : d = '%' ∨ d = '{') {s : List Char} (h : hasOpen s = false) :
    startAt d s = none := by
  have hk : hasOpen (skipWs s) = false := hasOpen_dropWhile isWs s h
  unfold startAt trimStart plainStart
  split
  · rename_i r hr
    split at hr
    · rename_i c r' heq
      split at hr
      · rename_i hcd
        simp at hcd; subst hcd
        rw [heq] at hk
        rcases hd with hd | hd <;> subst hd <;> simp [hasOpen] at hk
      · simp at hr
    · simp at hr
  · split
    · rename_i r hr
      split at hr
      · rename_i c r'
        split at hr
        · rename_i hcd
          simp at hcd; subst hcd
          rcases hd with hd | hd <;> subst hd <;> simp [hasOpen] at h
        · simp at hr
      · simp at hr
    · rfl

theorem isStart_false_of_noOpen {s : List Char} (h : hasOpen s = false) : isStart s = false := by
  simp [isStart, startAt_none_of_noOpen (Or.inl rfl) h, startAt_none_of_noOpen (Or.inr rfl) h]

theorem scanRaw_noOpen : ∀ (s : List Char), hasOpen s = false → scanRaw s = (s, [])
  | [], _ => by simp [scanRaw]
  | c :: r, h => by
    simp [scanRaw, isStart_false_of_noOpen h, scanRaw_noOpen r (hasOpen_tail h)]

theorem markupAt_none_of_noOpen {o c : Char} (ho : o = '%' ∨ o = '{') (inner : InnerM) {s : List Char}
    (h : hasOpen s = false) : markupAt o c inner s = none := by
  simp [markupAt, startAt_none_of_noOpen ho h]

/-- a non-empty text without `{{`/`{%` is one `Raw` element -/
theorem lexLax_plain (g : Inner) (c : Char) (r : List Char) (h : hasOpen (c :: r) = false) :
    lexLax g (c :: r) = [.raw (c :: r)] := by
  rw [lexLax_cons]
  have h1 : lexOne g c r = (.raw (c :: r), []) := by
    simp [lexOne, markupAt_none_of_noOpen (Or.inl rfl) _ h, markupAt_none_of_noOpen (Or.inr rfl) _ h,
      isStart_false_of_noOpen h, scanRaw_noOpen r (hasOpen_tail h)]
  simp [h1, lexLax_nil]

end Liquid.Lex

namespace Liquid.Mini
open Liquid Liquid.Lex

/-! ### raw blocks -/

theorem escapeLiquid_verbatim (endTag : List Char) : ∀ (body : List Elem) (cl : Elem) (rest : List Tok) (acc : List Char),
    (∀ e ∈ body, isCloser endTag e = false) → isCloser endTag cl = true →
    escapeLiquid endTag (body.map Tok.elem ++ Tok.elem cl :: rest) acc =
      (.ok (if closerTrim cl then stripRightWs (acc ++ texts body) else acc ++ texts body), rest)
  | [], cl, rest, acc, _, hc => by simp [escapeLiquid, hc, texts]
  | e :: body, cl, rest, acc, hb, hc => by
    have he : isCloser endTag e = false := hb e (by simp)
    simp only [List.map_cons, List.cons_append, escapeLiquid, he]
    rw [escapeLiquid_verbatim endTag body cl rest (acc ++ e.text) (fun x hx => hb x (by simp [hx])) hc]
    simp [texts, List.append_assoc]

theorem escapeLiquidOld_verbatim (endTag : List Char) : ∀ (body : List Elem) (cl : Elem) (rest : List Tok) (acc : List Char),
    (∀ e ∈ body, isCloser endTag e = false) → isCloser endTag cl = true →
    escapeLiquidOld endTag (body.map Tok.elem ++ Tok.elem cl :: rest) acc = (.ok (acc ++ texts body), rest)
  | [], cl, rest, acc, _, hc => by simp [escapeLiquidOld, hc, texts]
  | e :: body, cl, rest, acc, hb, hc => by
    have he : isCloser endTag e = false := hb e (by simp)
    simp only [List.map_cons, List.cons_append, escapeLiquidOld, he]
    rw [escapeLiquidOld_verbatim endTag body cl rest (acc ++ e.text) (fun x hx => hb x (by simp [hx])) hc]
    simp [texts, List.append_assoc]

theorem escapeLiquid_unclosed (endTag : List Char) : ∀ (body : List Elem) (acc : List Char),
    (∀ e ∈ body, isCloser endTag e = false) →
    escapeLiquid endTag (toks body) acc = (.err, [])
  | [], acc, _ => by simp [escapeLiquid, toks]
  | e :: body, acc, hb => by
    have he : isCloser endTag e = false := hb e (by simp)
    have := escapeLiquid_unclosed endTag body (acc ++ e.text) (fun x hx => hb x (by simp [hx]))
    simp only [toks] at this
    simp [toks, escapeLiquid, he, this]

/-- on an iterator that still ends in `EOI`, `escape_liquid` cannot reach its final `panic!` -/
theorem escapeLiquid_no_panic (endTag : List Char) : ∀ (es : List Elem) (rest : List Tok) (acc : List Char) (site : String),
    (escapeLiquid endTag (es.map Tok.elem ++ Tok.eoi :: rest) acc).1 ≠ .panic site
  | [], rest, acc, site => by simp [escapeLiquid]
  | e :: es, rest, acc, site => by
    simp only [List.map_cons, List.cons_append, escapeLiquid]
    split
    · simp
    · exact escapeLiquid_no_panic endTag es rest _ site

/-! ### comment blocks -/

/-- whatever a comment block's body holds, if it parses at all it parses to the `Comment` renderable -/
theorem parseComment_ok : ∀ (n : Nat) (it it' : List Tok) (nd : Node),
    parseComment n it = (.ok nd, it') → nd = .comment
  | 0, it, it', nd, h => by simp [parseComment] at h
  | n + 1, it, it', nd, h => by
    unfold parseComment at h
    split at h
    · simp at h
    · simp at h
    · rename_i e r
      split at h
      · rename_i m
        simp only at h
        split at h
        · split at h
          · simp at h; exact h.1.symm
          · simp at h
        · split at h
          · split at h
            · exact parseComment_ok n _ _ _ h
            · rename_i o hne
              exact absurd h (hne nd it')
          · split at h
            · simp at h
            · simp at h
            · exact parseComment_ok n _ _ _ h
      · exact parseComment_ok n _ _ _ h

end Liquid.Mini
