/-
  Fuel is only a device: the pure evaluators never return `Res.fuel`, a template whose nesting depth
  (plus that of the partials it can reach) is below the fuel never runs out of it, and giving more
  fuel never changes a result that was not `fuel`.
-/
import LiquidModel.Lemmas.NoPanic
namespace Liquid

def Res.isFuel {α} : Res α → Bool | .fuel => true | _ => false

/-! ### pure evaluators never run out of fuel -/

theorem Stack.get_not_fuel (st : Stack) (p : List Sc) : (st.get p).isFuel = false := by
  rw [C18.C18_get_tryget]; cases st.tryGet p <;> rfl

mutual
theorem Expr.eval_not_fuel (st : Stack) : ∀ e : Expr, (e.eval st).isFuel = false
  | .lit v => rfl
  | .var root idx => by
    have h := evalIdx_not_fuel st idx
    simp only [Expr.eval]
    cases hi : evalIdx st idx <;> simp_all [Res.isFuel]
    exact Stack.get_not_fuel st _
theorem evalIdx_not_fuel (st : Stack) : ∀ es : List Expr, (evalIdx st es).isFuel = false
  | [] => rfl
  | e :: r => by
    have h1 := Expr.eval_not_fuel st e
    have h2 := evalIdx_not_fuel st r
    simp only [evalIdx]
    cases he : e.eval st with
    | ok v =>
      cases v with
      | sc s => simp only []; cases hr : evalIdx st r <;> simp_all [Res.isFuel]
      | nil => rfl
      | st x => rfl
      | arr xs => rfl
      | obj kvs => rfl
    | err => rfl
    | io => rfl
    | fuel => simp [he, Res.isFuel] at h1
    | panic s => rfl
end

theorem bind_not_fuel {α β} (r : Res α) (f : α → Res β) (h1 : r.isFuel = false)
    (h2 : ∀ a, (f a).isFuel = false) : (r >>= f).isFuel = false := by
  cases r <;> simp_all [bind, Res.bind, Res.isFuel]

theorem cmpOpEval_not_fuel (op : CmpOp) (a b : V) : (cmpOpEval op a b).isFuel = false := by
  cases op <;> simp [cmpOpEval, Res.isFuel]
  unfold containsCheck; cases a <;> simp [Res.isFuel] <;> cases b <;> simp [Res.isFuel]

theorem Cond.eval_not_fuel (st : Stack) : ∀ c : Cond, (c.eval st).isFuel = false
  | .bin l op r => by
    simp only [Cond.eval]
    exact bind_not_fuel _ _ (Expr.eval_not_fuel st l) (fun a =>
      bind_not_fuel _ _ (Expr.eval_not_fuel st r) (fun b => cmpOpEval_not_fuel op a b))
  | .exist e => rfl
  | .and a b => by
    simp only [Cond.eval]
    refine bind_not_fuel _ _ (Cond.eval_not_fuel st a) (fun x => ?_)
    cases x
    · rfl
    · exact Cond.eval_not_fuel st b
  | .or a b => by
    simp only [Cond.eval]
    refine bind_not_fuel _ _ (Cond.eval_not_fuel st a) (fun x => ?_)
    cases x
    · exact Cond.eval_not_fuel st b
    · rfl

theorem getArray_not_fuel (v : V) : (getArray v).isFuel = false := by
  cases v <;> simp [getArray, Res.isFuel]

theorem intArg_not_fuel (st : Stack) (e : Expr) : (intArg st e).isFuel = false := by
  unfold intArg
  refine bind_not_fuel _ _ (Expr.eval_not_fuel st e) (fun v => ?_)
  cases v with
  | sc s => simp only []; cases s.toInteger? <;> rfl
  | _ => rfl

theorem RangeE.eval_not_fuel (st : Stack) (r : RangeE) : (r.eval st).isFuel = false := by
  cases r with
  | arr e => exact bind_not_fuel _ _ (Expr.eval_not_fuel st e) (fun v => getArray_not_fuel v)
  | counted a b =>
    exact bind_not_fuel _ _ (intArg_not_fuel st a) (fun _ => bind_not_fuel _ _ (intArg_not_fuel st b) (fun _ => rfl))

theorem evalAttr_not_fuel (st : Stack) (o : Option Expr) : (evalAttr st o).isFuel = false := by
  cases o with
  | none => rfl
  | some e =>
    refine bind_not_fuel _ _ (Expr.eval_not_fuel st e) (fun v => ?_)
    cases v with
    | sc s => simp only []; cases s.toInteger? <;> rfl
    | _ => rfl

theorem evalVars_not_fuel (st : Stack) : ∀ (vs : List (Str × Expr)) (acc : Obj), (evalVars st vs acc).isFuel = false
  | [], _ => rfl
  | (k, e) :: r, acc => by
    simp only [evalVars]
    cases e.tryEval st with
    | some v => exact evalVars_not_fuel st r _
    | none => rfl

theorem evalArgs_not_fuel (st : Stack) : ∀ es : List Expr, (evalArgs st es).isFuel = false
  | [] => rfl
  | e :: r => by
    simp only [evalArgs]
    exact bind_not_fuel _ _ (Expr.eval_not_fuel st e) (fun _ =>
      bind_not_fuel _ _ (evalArgs_not_fuel st r) (fun _ => rfl))

theorem anyEqArgs_not_fuel (st : Stack) (value : V) : ∀ es : List Expr, (anyEqArgs st value es).isFuel = false
  | [] => rfl
  | a :: r => by
    have h := Expr.eval_not_fuel st a
    simp only [anyEqArgs]
    cases he : a.eval st with
    | ok v =>
      simp only []
      by_cases hv : valueEq v value = true
      · simp [hv, Res.isFuel]
      · simp only [hv]; exact anyEqArgs_not_fuel st value r
    | err => rfl
    | io => rfl
    | fuel => simp [he, Res.isFuel] at h
    | panic s => rfl

theorem casePick_not_fuel (st : Stack) (value : V) : ∀ arms, (casePick st value arms).isFuel = false
  | [] => rfl
  | (args, body) :: r => by
    have h := anyEqArgs_not_fuel st value args
    simp only [casePick]
    cases ha : anyEqArgs st value args with
    | ok b => cases b <;> simp [Res.isFuel]; exact casePick_not_fuel st value r
    | err => rfl
    | io => rfl
    | fuel => simp [ha, Res.isFuel] at h
    | panic s => rfl

/-- filters that never run out of fuel -/
def FiltersNoFuel (env : Env) : Prop := ∀ name f, env.filters name = some f → ∀ v args, (f v args).isFuel = false

theorem foldlM_not_fuel {α β} (f : β → α → Res β) (hf : ∀ b a, (f b a).isFuel = false) :
    ∀ (l : List α) (init : β), (l.foldlM f init).isFuel = false
  | [], _ => rfl
  | a :: r, init => by
    simp only [List.foldlM]
    exact bind_not_fuel _ _ (hf init a) (fun b => foldlM_not_fuel f hf r b)

theorem evalChain_not_fuel (env : Env) (hf : FiltersNoFuel env) (st : Stack) (e : Expr) (fs : List FCall) :
    (evalChain env st e fs).isFuel = false := by
  unfold evalChain
  refine bind_not_fuel _ _ (Expr.eval_not_fuel st e) (fun v => ?_)
  refine foldlM_not_fuel _ (fun acc f => ?_) fs v
  refine bind_not_fuel _ _ (evalArgs_not_fuel st f.args) (fun args => ?_)
  cases hfn : env.filters f.name with
  | none => rfl
  | some fn => exact hf _ fn hfn acc args

end Liquid

namespace Liquid


/-! ### depth and partial-freedom of templates -/

mutual
/-- the fuel an element needs: 1 for a leaf, 1 more than its deepest body for a block -/
def dN : Node → Nat
  | .capture _ b => dL b + 1
  | .cond _ _ t e => max (dL t) (dO e) + 1
  | .case_ _ arms e => max (dA arms) (dO e) + 1
  | .for_ _ _ _ _ _ b e => max (dL b) (dO e) + 1
  | .tablerow _ _ _ _ _ b => dL b + 1
  | .ifchanged b => dL b + 1
  | _ => 1
def dL : List Node → Nat
  | [] => 0
  | n :: r => max (dN n) (dL r)
def dO : Option (List Node) → Nat
  | none => 0
  | some t => dL t
def dA : List (List Expr × List Node) → Nat
  | [] => 0
  | (_, b) :: r => max (dL b) (dA r)
end

mutual
/-- no `include` / `render` anywhere inside -/
def npN : Node → Bool
  | .include_ _ _ => false
  | .render_ _ _ _ => false
  | .capture _ b => npL b
  | .cond _ _ t e => npL t && npO e
  | .case_ _ arms e => npA arms && npO e
  | .for_ _ _ _ _ _ b e => npL b && npO e
  | .tablerow _ _ _ _ _ b => npL b
  | .ifchanged b => npL b
  | _ => true
def npL : List Node → Bool
  | [] => true
  | n :: r => npN n && npL r
def npO : Option (List Node) → Bool
  | none => true
  | some t => npL t
def npA : List (List Expr × List Node) → Bool
  | [] => true
  | (_, b) :: r => npL b && npA r
end

theorem dO_some (t : List Node) : dO (some t) = dL t := by rw [dO]

theorem dN_le_dL : ∀ (t : List Node) (n : Node), n ∈ t → dN n ≤ dL t
  | [], _, h => by simp at h
  | a :: r, n, h => by
    simp only [dL]
    rcases List.mem_cons.mp h with rfl | h'
    · exact Nat.le_max_left _ _
    · exact Nat.le_trans (dN_le_dL r n h') (Nat.le_max_right _ _)

theorem npN_of_npL : ∀ (t : List Node), npL t = true → ∀ n, n ∈ t → npN n = true
  | [], _, _, h => by simp at h
  | a :: r, hp, n, h => by
    simp only [npL, Bool.and_eq_true] at hp
    rcases List.mem_cons.mp h with rfl | h'
    · exact hp.1
    · exact npN_of_npL r hp.2 n h'

theorem casePick_mem (st : Stack) (value : V) : ∀ (arms : List (List Expr × List Node)) (b : List Node),
    casePick st value arms = .ok (some b) → dL b ≤ dA arms ∧ (npA arms = true → npL b = true)
  | [], b, h => by simp [casePick] at h
  | (args, bd) :: r, b, h => by
    simp only [casePick] at h
    simp only [dA, npA, Bool.and_eq_true]
    cases ha : anyEqArgs st value args with
    | ok bb =>
      cases bb
      · simp [ha] at h
        have := casePick_mem st value r b h
        exact ⟨Nat.le_trans this.1 (Nat.le_max_right _ _), fun hp => this.2 hp.2⟩
      · simp [ha] at h; subst h
        exact ⟨Nat.le_max_left _ _, fun hp => hp.1⟩
    | err => simp [ha] at h
    | io => simp [ha] at h
    | fuel => simp [ha] at h
    | panic s => simp [ha] at h

/-! ### computations that never run out of fuel -/

def NF {α : Type} (m : M α) : Prop := ∀ rt w, (m rt w).1.isFuel = false

theorem setGlobal_not_fuel : ∀ (st : Stack) (k : Str) (v : V), (st.setGlobal k v).isFuel = false
  | [], _, _ => rfl
  | l :: r, k, v => by
    have ih := setGlobal_not_fuel r k v
    cases l <;> simp only [Stack.setGlobal] <;> first | rfl | (cases h : Stack.setGlobal r k v <;> simp_all [bind, Res.bind, pure, Res.isFuel])

theorem setIndex_not_fuel : ∀ (st : Stack) (k : Str) (v : V), (st.setIndex k v).isFuel = false
  | [], _, _ => rfl
  | l :: r, k, v => by
    have ih := setIndex_not_fuel r k v
    cases l <;> simp only [Stack.setIndex] <;> first | rfl | (cases h : Stack.setIndex r k v <;> simp_all [bind, Res.bind, pure, Res.isFuel])

namespace NF

theorem pure {α} (a : α) : NF (Pure.pure a : M α) := fun _ _ => rfl
theorem lift {α} (r : Res α) (h : r.isFuel = false) : NF (M.lift r) := fun _ _ => h
theorem getSt : NF M.getSt := fun _ _ => rfl
theorem getRegs : NF M.getRegs := fun _ _ => rfl
theorem setRegs (g : Regs) : NF (M.setRegs g) := fun _ _ => rfl
theorem emit (s : Str) : NF (M.emit s) := fun rt w => by unfold M.emit; cases w.write s <;> rfl

theorem bind {α β} {m : M α} {f : α → M β} (hm : NF m) (hf : ∀ a, NF (f a)) : NF (m >>= f) := by
  intro rt w
  have h1 := hm rt w
  rw [M.run_bind]
  rcases hr : m rt w with ⟨r, rt', w'⟩
  rw [hr] at h1
  cases r with
  | ok a => exact hf a rt' w'
  | err => rfl
  | io => rfl
  | panic s => rfl
  | fuel => exact h1

/-- binding a pure result: the continuation only matters for the value actually produced -/
theorem bindLift {α β} {r : Res α} {f : α → M β} (hr : r.isFuel = false)
    (hf : ∀ a, r = .ok a → NF (f a)) : NF (M.lift r >>= f) := by
  cases r with
  | ok a => exact fun rt w => hf a rfl rt w
  | err => exact fun _ _ => rfl
  | io => exact fun _ _ => rfl
  | panic s => exact fun _ _ => rfl
  | fuel => simp [Res.isFuel] at hr

theorem setGlobalM (x : Str) (v : V) : NF (setGlobalM x v) := by
  intro rt w
  have := setGlobal_not_fuel rt.layers x v
  simp only [Liquid.setGlobalM, M.run_bind, M.run_getSt, M.run_lift]
  cases h : rt.layers.setGlobal x v <;> simp_all [Res.isFuel, M.setLayers]

theorem setIndexM (x : Str) (v : V) : NF (setIndexM x v) := by
  intro rt w
  have := setIndex_not_fuel rt.layers x v
  simp only [Liquid.setIndexM, M.run_bind, M.run_getSt, M.run_lift]
  cases h : rt.layers.setIndex x v <;> simp_all [Res.isFuel, M.setLayers]

theorem setInterruptM (i : Option Intr) : NF (setInterruptM i) := bind getRegs (fun _ => setRegs _)
theorem takeInterruptM : NF takeInterruptM := bind getRegs (fun _ => bind (setRegs _) (fun _ => pure _))

theorem capture {m : M Unit} (hm : NF m) : NF (M.capture m) := by
  intro rt w
  have h := hm rt {}
  unfold M.capture
  rcases hr : m rt {} with ⟨r, rt', cw⟩
  rw [hr] at h
  cases r <;> simp_all [Res.isFuel, M.castErr]

theorem inFrames {α} (ls : List Layer) {m : M α} (hm : NF m) : NF (M.inFrames ls m) := by
  intro rt w
  have h := hm { rt with layers := ls ++ rt.layers } w
  unfold M.inFrames
  rcases hr : m { rt with layers := ls ++ rt.layers } w with ⟨r, rt', w'⟩
  rw [hr] at h
  exact h

theorem renderList {f : Node → M Unit} : ∀ t : List Node, (∀ n, n ∈ t → NF (f n)) → NF (Liquid.renderList f t)
  | [], _ => pure ()
  | n :: r, hf => by
    unfold Liquid.renderList
    refine bind (hf n (by simp)) (fun _ => bind getRegs (fun g => ?_))
    split
    · exact pure ()
    · exact renderList r (fun x hx => hf x (by simp [hx]))

theorem loopItems {step : V → Nat → M (Option Intr)} (hs : ∀ v i, NF (step v i)) :
    ∀ items i, NF (Liquid.loopItems step items i)
  | [], _ => pure ()
  | v :: r, i => by
    unfold Liquid.loopItems
    refine bind (hs v i) (fun intr => ?_)
    split
    · exact pure ()
    · exact loopItems hs r (i + 1)

theorem tableItems {step : V → Nat → M Unit} (hs : ∀ v i, NF (step v i)) :
    ∀ items i, NF (Liquid.tableItems step items i)
  | [], _ => pure ()
  | v :: r, i => by
    unfold Liquid.tableItems
    exact bind (hs v i) (fun _ => tableItems hs r (i + 1))

theorem forStep (x : Str) (len : Nat) (parent : V) {body : M Unit} (hb : NF body) (v : V) (i : Nat) :
    NF (forStep x len parent body v i) :=
  inFrames _ (bind hb (fun _ => takeInterruptM))

theorem renderForStep (st : Stack) (args : List (Str × Expr)) (as_ : Str) (len : Nat) {body : M Unit}
    (hb : NF body) (v : V) (i : Nat) : NF (renderForStep st args as_ len body v i) :=
  bind (lift _ (evalVars_not_fuel st args [])) (fun _ => inFrames _ (bind hb (fun _ => takeInterruptM)))

end NF

syntax "nf_step" : tactic
macro_rules
  | `(tactic| nf_step) => `(tactic| first
    | exact NF.pure _
    | exact NF.emit _
    | exact NF.getSt
    | exact NF.getRegs
    | exact NF.setRegs _
    | exact NF.setGlobalM _ _
    | exact NF.setIndexM _ _
    | exact NF.lift _ rfl
    | exact NF.lift _ (Expr.eval_not_fuel _ _)
    | refine NF.bind ?_ (fun _ => ?_)
    | split
    | dsimp only)

theorem NF.tablerowStep (x : Str) (len ncols : Nat) {body : M Unit} (hb : NF body) (v : V) (i : Nat) :
    NF (tablerowStep x len ncols body v i) := by
  unfold Liquid.tablerowStep
  repeat (first | exact NF.inFrames _ hb | nf_step)

/-- the partial store never answers `fuel`, and what it hands out renders without running out of
fuel whenever at least `k` is given -/
def LookupNF (env : Env) (k : Nat) : Prop :=
  ∀ name, (env.lookup name).isFuel = false ∧
    ∀ t, env.lookup name = .ok t → ∀ f, k ≤ f → NF (Liquid.renderList (Liquid.renderN f env) t)

theorem lookupPartialR_nf (env : Env) (k : Nat) (hl : LookupNF env k) (name : Str) :
    (lookupPartialR env name).isFuel = false ∧
      ∀ t, lookupPartialR env name = .ok t → ∀ f, k ≤ f → NF (Liquid.renderList (Liquid.renderN f env) t) := by
  unfold lookupPartialR lookupPartial
  cases h : env.lookup name with
  | ok t => exact ⟨rfl, fun t' ht => by cases ht; exact (hl name).2 t h⟩
  | err => exact hl _
  | io => exact hl _
  | panic s => exact hl _
  | fuel => have := (hl name).1; simp [h, Res.isFuel] at this

set_option maxHeartbeats 4000000 in
/-- **Enough fuel is enough.** An element whose depth plus `k` is at most the fuel never runs out of
fuel, if it contains no partial call or the store's templates never run out of fuel given `k`. -/
theorem renderN_nf (env : Env) (hf : FiltersNoFuel env) (k : Nat) :
    ∀ fuel n, dN n + k ≤ fuel → (npN n = true ∨ LookupNF env k) → NF (renderN fuel env n)
  | 0, n, hd, _ => by
    exfalso
    have : 1 ≤ dN n := by cases n <;> simp [dN]
    omega
  | fuel + 1, n, hd, hp => by
    have ih := renderN_nf env hf k fuel
    have body : ∀ t, dL t + k ≤ fuel → (npL t = true ∨ LookupNF env k) →
        NF (Liquid.renderList (Liquid.renderN fuel env) t) := by
      intro t hdt hpt
      refine NF.renderList t (fun x hx => ih x ?_ ?_)
      · have := dN_le_dL t x hx; omega
      · rcases hpt with h | h
        · exact .inl (npN_of_npL t h x hx)
        · exact .inr h
    have chain : ∀ st e fs, NF (M.lift (evalChain env st e fs)) :=
      fun st e fs => NF.lift _ (evalChain_not_fuel env hf st e fs)
    cases n with
    | text s => rw [Liquid.renderN]; exact NF.emit _
    | raw s => rw [Liquid.renderN]; exact NF.emit _
    | comment => rw [Liquid.renderN]; exact NF.pure _
    | brk => rw [Liquid.renderN]; exact NF.setInterruptM _
    | cont => rw [Liquid.renderN]; exact NF.setInterruptM _
    | output e fs =>
      rw [Liquid.renderN]
      exact NF.bind NF.getSt (fun st => NF.bind (chain st e fs) (fun v => NF.emit _))
    | assign x e fs =>
      rw [Liquid.renderN]
      exact NF.bind NF.getSt (fun st => NF.bind (chain st e fs) (fun v => NF.setGlobalM _ _))
    | capture x b =>
      rw [Liquid.renderN]
      simp only [dN, npN] at hd hp
      exact NF.bind (NF.capture (body b (by omega) hp)) (fun s => NF.setGlobalM _ _)
    | incr x => rw [Liquid.renderN]; repeat nf_step
    | decr x => rw [Liquid.renderN]; repeat nf_step
    | cycle name vals => rw [Liquid.renderN]; repeat nf_step
    | cond c mode thn els =>
      (first | rw [Liquid.renderN] | simp only [Liquid.renderN])
      simp only [dN, npN, Bool.and_eq_true] at hd hp
      have h1 : dL thn ≤ max (dL thn) (dO els) := Nat.le_max_left _ _
      have h2 : dO els ≤ max (dL thn) (dO els) := Nat.le_max_right _ _
      refine NF.bind NF.getSt (fun st => NF.bind (NF.lift _ (Cond.eval_not_fuel st c)) (fun b => ?_))
      split
      · exact body thn (by omega) (hp.imp (fun h => h.1) id)
      · split
        · rename_i t
          exact body t (by simp only [dO_some] at h2 hd; omega) (hp.imp (fun h => by simpa [npO] using h.2) id)
        · exact NF.pure _
    | case_ target arms els =>
      (first | rw [Liquid.renderN] | simp only [Liquid.renderN])
      simp only [dN, npN, Bool.and_eq_true] at hd hp
      have h1 : dA arms ≤ max (dA arms) (dO els) := Nat.le_max_left _ _
      have h2 : dO els ≤ max (dA arms) (dO els) := Nat.le_max_right _ _
      refine NF.bind NF.getSt (fun st => NF.bind (NF.lift _ (Expr.eval_not_fuel st target)) (fun value => ?_))
      refine NF.bindLift (casePick_not_fuel st value arms) (fun pick hpk => ?_)
      split
      · rename_i bd
        have := casePick_mem st value arms bd hpk
        exact body bd (by omega) (hp.imp (fun h => this.2 h.1) id)
      · split
        · rename_i t
          exact body t (by simp only [dO_some] at h2 hd; omega) (hp.imp (fun h => by simpa [npO] using h.2) id)
        · exact NF.pure _
    | for_ x rng limit offset rev b els =>
      (first | rw [Liquid.renderN] | simp only [Liquid.renderN])
      simp only [dN, npN, Bool.and_eq_true] at hd hp
      have h1 : dL b ≤ max (dL b) (dO els) := Nat.le_max_left _ _
      have h2 : dO els ≤ max (dL b) (dO els) := Nat.le_max_right _ _
      refine NF.bind NF.getSt (fun st => NF.bind (NF.lift _ (RangeE.eval_not_fuel st rng)) (fun arr =>
        NF.bind (NF.lift _ (evalAttr_not_fuel st limit)) (fun lim =>
        NF.bind (NF.lift _ (evalAttr_not_fuel st offset)) (fun off => ?_))))
      split
      · split
        · rename_i t
          exact body t (by simp only [dO_some] at h2 hd; omega) (hp.imp (fun h => by simpa [npO] using h.2) id)
        · exact NF.pure _
      · exact NF.loopItems (fun v i => NF.forStep _ _ _ (body b (by omega) (hp.imp (fun h => h.1) id)) v i) _ _
    | tablerow x rng cols limit offset b =>
      rw [Liquid.renderN]
      simp only [dN, npN] at hd hp
      refine NF.bind NF.getSt (fun st => NF.bind (NF.lift _ (RangeE.eval_not_fuel st rng)) (fun arr =>
        NF.bind (NF.lift _ (evalAttr_not_fuel st cols)) (fun c => ?_)))
      split
      · exact NF.lift _ rfl
      · refine NF.bind (NF.lift _ (evalAttr_not_fuel st limit)) (fun lim =>
          NF.bind (NF.lift _ (evalAttr_not_fuel st offset)) (fun off => ?_))
        exact NF.tableItems (fun v i => NF.tablerowStep _ _ _ (body b (by omega) hp) v i) _ _
    | ifchanged b =>
      rw [Liquid.renderN]
      simp only [dN, npN] at hd hp
      refine NF.bind (NF.capture (body b (by omega) hp)) (fun s => ?_)
      repeat nf_step
    | include_ name args =>
      rw [Liquid.renderN]
      simp only [dN, npN] at hd hp
      have hl : LookupNF env k := by rcases hp with h | h; exact absurd h (by simp); exact h
      refine NF.bind NF.getSt (fun st => NF.bind (NF.lift _ (Expr.eval_not_fuel st name)) (fun v => ?_))
      split
      · refine NF.bind (NF.lift _ (evalVars_not_fuel st args [])) (fun pass => ?_)
        exact NF.bindLift (hl _).1 (fun t ht => NF.inFrames _ ((hl _).2 t ht fuel (by omega)))
      · exact NF.lift _ rfl
    | render_ name form args =>
      rw [Liquid.renderN]
      simp only [dN, npN] at hd hp
      have hl : LookupNF env k := by rcases hp with h | h; exact absurd h (by simp); exact h
      refine NF.bind NF.getSt (fun st => NF.bind (NF.lift _ (Expr.eval_not_fuel st name)) (fun v => ?_))
      split
      · dsimp only
        rename_i s
        have hR := lookupPartialR_nf env k hl s.render
        split
        · refine NF.bind (NF.lift _ (RangeE.eval_not_fuel st _)) (fun items => ?_)
          refine NF.loopItems (fun v i => NF.renderForStep _ _ _ _ ?_ v i) _ _
          exact NF.bindLift hR.1 (fun t ht => hR.2 t ht fuel (by omega))
        · refine NF.bind (NF.lift _ (evalVars_not_fuel st _ [])) (fun root => ?_)
          exact NF.bindLift hR.1 (fun t ht => NF.inFrames _ (hR.2 t ht fuel (by omega)))
      · exact NF.lift _ rfl

/-! ### more fuel never changes a result -/

/-- `m2` agrees with `m1` wherever `m1` did not run out of fuel -/
def Mono {α : Type} (m1 m2 : M α) : Prop := ∀ rt w, (m1 rt w).1.isFuel = false → m2 rt w = m1 rt w

namespace Mono

theorem refl {α} (m : M α) : Mono m m := fun _ _ _ => rfl

theorem bind {α β} {m1 m2 : M α} {f1 f2 : α → M β} (hm : Mono m1 m2) (hf : ∀ a, Mono (f1 a) (f2 a)) :
    Mono (m1 >>= f1) (m2 >>= f2) := by
  intro rt w h
  rw [M.run_bind] at h
  rw [M.run_bind, M.run_bind]
  rcases hr : m1 rt w with ⟨r, rt', w'⟩
  rw [hr] at h
  have h1 : (m1 rt w).1.isFuel = false := by
    rw [hr]; cases r <;> first | rfl | exact h
  rw [hm rt w h1, hr]
  cases r with
  | ok a => exact hf a rt' w' h
  | err => rfl
  | io => rfl
  | panic s => rfl
  | fuel => rfl

theorem capture {m1 m2 : M Unit} (hm : Mono m1 m2) : Mono (M.capture m1) (M.capture m2) := by
  intro rt w h
  unfold M.capture at h ⊢
  rcases hr : m1 rt {} with ⟨r, rt', cw⟩
  rw [hr] at h
  have h1 : (m1 rt {}).1.isFuel = false := by
    rw [hr]; cases r <;> first | rfl | exact h
  rw [hm rt {} h1, hr]

theorem inFrames {α} (ls : List Layer) {m1 m2 : M α} (hm : Mono m1 m2) :
    Mono (M.inFrames ls m1) (M.inFrames ls m2) := by
  intro rt w h
  unfold M.inFrames at h ⊢
  rcases hr : m1 { rt with layers := ls ++ rt.layers } w with ⟨r, rt', w'⟩
  rw [hr] at h
  have h1 : (m1 { rt with layers := ls ++ rt.layers } w).1.isFuel = false := by rw [hr]; exact h
  rw [hm _ w h1, hr]

theorem renderList {f1 f2 : Node → M Unit} (hf : ∀ n, Mono (f1 n) (f2 n)) :
    ∀ t, Mono (Liquid.renderList f1 t) (Liquid.renderList f2 t)
  | [] => refl _
  | n :: r => by
    unfold Liquid.renderList
    refine bind (hf n) (fun _ => bind (refl _) (fun g => ?_))
    split
    · exact refl _
    · exact renderList hf r

theorem loopItems {s1 s2 : V → Nat → M (Option Intr)} (hs : ∀ v i, Mono (s1 v i) (s2 v i)) :
    ∀ items i, Mono (Liquid.loopItems s1 items i) (Liquid.loopItems s2 items i)
  | [], _ => refl _
  | v :: r, i => by
    unfold Liquid.loopItems
    refine bind (hs v i) (fun intr => ?_)
    split
    · exact refl _
    · exact loopItems hs r (i + 1)

theorem tableItems {s1 s2 : V → Nat → M Unit} (hs : ∀ v i, Mono (s1 v i) (s2 v i)) :
    ∀ items i, Mono (Liquid.tableItems s1 items i) (Liquid.tableItems s2 items i)
  | [], _ => refl _
  | v :: r, i => by
    unfold Liquid.tableItems
    exact bind (hs v i) (fun _ => tableItems hs r (i + 1))

theorem forStep (x : Str) (len : Nat) (parent : V) {b1 b2 : M Unit} (hb : Mono b1 b2) (v : V) (i : Nat) :
    Mono (forStep x len parent b1 v i) (forStep x len parent b2 v i) :=
  inFrames _ (bind hb (fun _ => refl _))

theorem renderForStep (st : Stack) (args : List (Str × Expr)) (as_ : Str) (len : Nat) {b1 b2 : M Unit}
    (hb : Mono b1 b2) (v : V) (i : Nat) :
    Mono (renderForStep st args as_ len b1 v i) (renderForStep st args as_ len b2 v i) :=
  bind (refl _) (fun _ => inFrames _ (bind hb (fun _ => refl _)))

end Mono

syntax "mono_step" : tactic
macro_rules
  | `(tactic| mono_step) => `(tactic| first
    | exact Mono.refl _
    | refine Mono.bind ?_ (fun _ => ?_)
    | split
    | dsimp only)

theorem Mono.tablerowStep (x : Str) (len ncols : Nat) {b1 b2 : M Unit} (hb : Mono b1 b2) (v : V) (i : Nat) :
    Mono (tablerowStep x len ncols b1 v i) (tablerowStep x len ncols b2 v i) := by
  unfold Liquid.tablerowStep
  repeat (first | exact Mono.refl _ | exact Mono.inFrames _ hb | refine Mono.bind ?_ (fun _ => ?_) | split | dsimp only)

set_option maxHeartbeats 4000000 in
/-- **Fuel monotonicity.** If rendering an element with some fuel did not run out of it, rendering
it with one more unit gives exactly the same result, runtime and output. -/
theorem renderN_mono (env : Env) : ∀ fuel n, Mono (renderN fuel env n) (renderN (fuel + 1) env n)
  | 0, n => by
    intro rt w h
    rw [Liquid.renderN] at h
    simp [Res.isFuel] at h
  | fuel + 1, n => by
    have ih := renderN_mono env fuel
    have body : ∀ t, Mono (Liquid.renderList (Liquid.renderN fuel env) t) (Liquid.renderList (Liquid.renderN (fuel + 1) env) t) :=
      fun t => Mono.renderList ih t
    cases n with
    | text s => rw [Liquid.renderN, Liquid.renderN]; exact Mono.refl _
    | raw s => rw [Liquid.renderN, Liquid.renderN]; exact Mono.refl _
    | comment => rw [Liquid.renderN, Liquid.renderN]; exact Mono.refl _
    | brk => rw [Liquid.renderN, Liquid.renderN]; exact Mono.refl _
    | cont => rw [Liquid.renderN, Liquid.renderN]; exact Mono.refl _
    | output e fs => rw [Liquid.renderN, Liquid.renderN]; exact Mono.refl _
    | assign x e fs => rw [Liquid.renderN, Liquid.renderN]; exact Mono.refl _
    | incr x => rw [Liquid.renderN, Liquid.renderN]; exact Mono.refl _
    | decr x => rw [Liquid.renderN, Liquid.renderN]; exact Mono.refl _
    | cycle name vals => rw [Liquid.renderN, Liquid.renderN]; exact Mono.refl _
    | capture x b =>
      rw [Liquid.renderN, Liquid.renderN]
      exact Mono.bind (Mono.capture (body b)) (fun _ => Mono.refl _)
    | cond c mode thn els =>
      simp only [Liquid.renderN]
      refine Mono.bind (Mono.refl _) (fun st => Mono.bind (Mono.refl _) (fun b => ?_))
      split
      · exact body thn
      · split
        · exact body _
        · exact Mono.refl _
    | case_ target arms els =>
      simp only [Liquid.renderN]
      refine Mono.bind (Mono.refl _) (fun st => Mono.bind (Mono.refl _) (fun value =>
        Mono.bind (Mono.refl _) (fun pick => ?_)))
      split
      · exact body _
      · split
        · exact body _
        · exact Mono.refl _
    | for_ x rng limit offset rev b els =>
      simp only [Liquid.renderN]
      refine Mono.bind (Mono.refl _) (fun st => Mono.bind (Mono.refl _) (fun arr =>
        Mono.bind (Mono.refl _) (fun lim => Mono.bind (Mono.refl _) (fun off => ?_))))
      split
      · split
        · exact body _
        · exact Mono.refl _
      · exact Mono.loopItems (fun v i => Mono.forStep _ _ _ (body b) v i) _ _
    | tablerow x rng cols limit offset b =>
      rw [Liquid.renderN, Liquid.renderN]
      refine Mono.bind (Mono.refl _) (fun st => Mono.bind (Mono.refl _) (fun arr =>
        Mono.bind (Mono.refl _) (fun c => ?_)))
      split
      · exact Mono.refl _
      · refine Mono.bind (Mono.refl _) (fun lim => Mono.bind (Mono.refl _) (fun off => ?_))
        exact Mono.tableItems (fun v i => Mono.tablerowStep _ _ _ (body b) v i) _ _
    | ifchanged b =>
      rw [Liquid.renderN, Liquid.renderN]
      exact Mono.bind (Mono.capture (body b)) (fun _ => Mono.refl _)
    | include_ name args =>
      rw [Liquid.renderN, Liquid.renderN]
      refine Mono.bind (Mono.refl _) (fun st => Mono.bind (Mono.refl _) (fun v => ?_))
      split
      · exact Mono.bind (Mono.refl _) (fun pass => Mono.bind (Mono.refl _) (fun t => Mono.inFrames _ (body t)))
      · exact Mono.refl _
    | render_ name form args =>
      rw [Liquid.renderN, Liquid.renderN]
      refine Mono.bind (Mono.refl _) (fun st => Mono.bind (Mono.refl _) (fun v => ?_))
      split
      · dsimp only
        split
        · refine Mono.bind (Mono.refl _) (fun items => ?_)
          exact Mono.loopItems (fun v i => Mono.renderForStep _ _ _ _
            (Mono.bind (Mono.refl _) (fun t => body t)) v i) _ _
        · exact Mono.bind (Mono.refl _) (fun root => Mono.bind (Mono.refl _) (fun t => Mono.inFrames _ (body t)))
      · exact Mono.refl _

/-- more fuel, same result: for any amount of extra fuel -/
theorem renderT_mono (env : Env) (fuel extra : Nat) (t : Tmpl) (rt : Rt) (w : W)
    (h : (renderT fuel env t rt w).1.isFuel = false) :
    renderT (fuel + extra) env t rt w = renderT fuel env t rt w := by
  induction extra with
  | zero => rfl
  | succ e ih =>
    have hm := Mono.renderList (renderN_mono env (fuel + e)) t rt w
    unfold renderT at hm ih h ⊢
    rw [ih] at hm
    rw [← Nat.add_assoc, hm h]

end Liquid
