/-
  C11 helper lemmas, part 4: `value_eq` — unfolding, symmetry, reflexivity, permutations, canon.
-/
import LiquidModel.Lemmas.C11Sort
namespace Liquid.C11L
open Liquid Liquid.C11

/-! ### unfolding -/

theorem valueEq_arr (xs ys : List V) :
    valueEq (.arr xs) (.arr ys) = (xs.length == ys.length && eqZip xs ys) := valueEq.eq_1 xs ys

theorem valueEq_obj (xs ys : Obj) :
    valueEq (.obj xs) (.obj ys) = (xs.length == ys.length && eqObj xs ys) := valueEq.eq_2 xs ys

def bothArr : V → V → Prop
  | .arr _, .arr _ => True
  | _, _ => False
def bothObj : V → V → Prop
  | .obj _, .obj _ => True
  | _, _ => False

theorem valueEq_flat (a b : V) (h1 : ¬ bothArr a b) (h2 : ¬ bothObj a b) : valueEq a b = valueEqFlat a b := by
  apply valueEq.eq_3
  · intro xs ys ha hb; subst ha; subst hb; exact h1 trivial
  · intro xs ys ha hb; subst ha; subst hb; exact h2 trivial

theorem eqZip_nil_left (ys : List V) : eqZip [] ys = true := by rw [eqZip.eq_def]
theorem eqZip_nil_right (xs : List V) : eqZip xs [] = true := by rw [eqZip.eq_def]; cases xs <;> rfl
theorem eqZip_cons (x : V) (xs : List V) (y : V) (ys : List V) :
    eqZip (x :: xs) (y :: ys) = (valueEq x y && eqZip xs ys) := by rw [eqZip.eq_def]

theorem eqGet_eq (ys : Obj) (k : Str) (v : V) :
    eqGet ys k v = match objGet ys k with | some w => valueEq w v | none => false := by
  induction ys with
  | nil => rw [eqGet.eq_def]; rfl
  | cons e r ih =>
    cases e with | mk k' w =>
    rw [eqGet.eq_def, objGet_cons]
    by_cases h : k' = k
    · simp [h]
    · have hb : (k' == k) = false := by simp [h]
      simp only [hb, h, if_false]; exact ih

theorem eqObj_nil (ys : Obj) : eqObj [] ys = true := by rw [eqObj.eq_def]
theorem eqObj_cons (k : Str) (v : V) (r ys : Obj) :
    eqObj ((k, v) :: r) ys = (eqGet ys k v && eqObj r ys) := by rw [eqObj.eq_def]

theorem eqObj_eq (xs ys : Obj) : eqObj xs ys = xs.all (fun e => eqGet ys e.1 e.2) := by
  induction xs with
  | nil => simp [eqObj_nil]
  | cons e r ih => cases e with | mk k v => simp [eqObj_cons, ih]

theorem eqObj_iff (xs ys : Obj) :
    eqObj xs ys = true ↔ ∀ e ∈ xs, ∃ w, objGet ys e.1 = some w ∧ valueEq w e.2 = true := by
  rw [eqObj_eq, List.all_eq_true]
  constructor
  · intro h e he
    have := h e he
    rw [eqGet_eq] at this
    cases hg : objGet ys e.1 with
    | none => simp [hg] at this
    | some w => simp only [hg] at this; exact ⟨w, rfl, this⟩
  · intro h e he
    obtain ⟨w, hw, hv⟩ := h e he
    rw [eqGet_eq, hw]; exact hv

/-! ### symmetry -/

theorem valueEqFlat_symm (a b : V) (ha : isNoTruthy a = true) (hb : isNoTruthy b = true) :
    valueEqFlat a b = valueEqFlat b a := by
  cases a <;> cases b <;>
    (try rename_i s s'; cases s <;> cases s') <;>
    (try rename_i s; cases s) <;>
    simp_all [valueEqFlat, V.queryState, V.isNil, scalarEq_symm, isNoTruthy, Sc.queryState]
  all_goals first
    | rfl
    | (rename_i x y; exact scalarEq_symm x y)

theorem eqZip_symm (xs ys : List V) (H : ∀ x ∈ xs, ∀ y ∈ ys, valueEq x y = valueEq y x) :
    eqZip xs ys = eqZip ys xs := by
  induction xs generalizing ys with
  | nil => rw [eqZip_nil_left, eqZip_nil_right]
  | cons x xs ih =>
    cases ys with
    | nil => rw [eqZip_nil_left, eqZip_nil_right]
    | cons y ys =>
      rw [eqZip_cons, eqZip_cons, H x (by simp) y (by simp),
        ih ys (fun x hx y hy => H x (List.mem_cons_of_mem _ hx) y (List.mem_cons_of_mem _ hy))]

/-- objects with distinct keys: "every entry of `xs` is matched in `ys`" + same size ⇒ the converse -/
theorem eqObj_flip (xs ys : Obj) (hnx : (keysOf xs).Nodup) (hny : (keysOf ys).Nodup)
    (hlen : xs.length = ys.length) (h : eqObj xs ys = true)
    (H : ∀ e ∈ xs, ∀ e' ∈ ys, valueEq e'.2 e.2 = true → valueEq e.2 e'.2 = true) :
    eqObj ys xs = true := by
  rw [eqObj_iff] at h ⊢
  have hsub : ∀ k ∈ keysOf xs, k ∈ keysOf ys := by
    intro k hk
    obtain ⟨v, hv⟩ := mem_keysOf.1 hk
    obtain ⟨w, hw, _⟩ := h (k, v) hv
    exact mem_keysOf.2 ⟨w, objGet_some_mem ys hw⟩
  have hperm := keys_subset_symm (l' := xs) hnx hsub hlen rfl
  intro e' he'
  have hk : e'.1 ∈ keysOf xs := hperm.mem_iff.2 (mem_keysOf.2 ⟨e'.2, he'⟩)
  obtain ⟨v, hv⟩ := mem_keysOf.1 hk
  refine ⟨v, objGet_of_mem xs hnx hv, ?_⟩
  obtain ⟨w, hw, hwv⟩ := h (e'.1, v) hv
  have : objGet ys e'.1 = some e'.2 := objGet_of_mem ys hny he'
  rw [this] at hw; cases hw
  exact H (e'.1, v) hv e' he' hwv

theorem wfv_obj_keys {kvs : Obj} (h : WFV (.obj kvs) = true) : (keysOf kvs).Nodup := by
  have := ((every_obj _ _).1 h).1
  simpa [isKeysNodup, keysNodup_iff, keys_eq_keysOf] using this

theorem wfv_obj_mem {kvs : Obj} (h : WFV (.obj kvs) = true) {e : Str × V} (he : e ∈ kvs) : WFV e.2 = true :=
  ((every_obj _ _).1 h).2 e he

theorem wfv_arr_mem {xs : List V} (h : WFV (.arr xs) = true) {x : V} (hx : x ∈ xs) : WFV x = true :=
  ((every_arr _ _).1 h).2 x hx

theorem noTruthy_obj_mem {kvs : Obj} (h : NoTruthy (.obj kvs) = true) {e : Str × V} (he : e ∈ kvs) : NoTruthy e.2 = true :=
  ((every_obj _ _).1 h).2 e he

theorem noTruthy_arr_mem {xs : List V} (h : NoTruthy (.arr xs) = true) {x : V} (hx : x ∈ xs) : NoTruthy x = true :=
  ((every_arr _ _).1 h).2 x hx

theorem every_top (p : V → Bool) (a : V) (h : a.every p = true) : p a = true := by
  cases a with
  | arr xs => exact ((every_arr _ _).1 h).1
  | obj kvs => exact ((every_obj _ _).1 h).1
  | _ => simpa [V.every] using h

theorem valueEq_symm (a b : V) :
    NoTruthy a = true → NoTruthy b = true → WFV a = true → WFV b = true → valueEq a b = valueEq b a := by
  refine induct₂ (fun a b => NoTruthy a = true → NoTruthy b = true → WFV a = true → WFV b = true →
    valueEq a b = valueEq b a) ?_ a b
  intro a b ih hta htb hwa hwb
  by_cases hA : bothArr a b
  · cases a <;> cases b <;> simp only [bothArr] at hA
    rename_i xs ys
    rw [valueEq_arr, valueEq_arr, beq_comm' xs.length ys.length]
    congr 1
    apply eqZip_symm
    intro x hx y hy
    have s1 := sizeOf_lt_arr hx
    have s2 := sizeOf_lt_arr hy
    exact ih x y (by omega) (noTruthy_arr_mem hta hx) (noTruthy_arr_mem htb hy)
      (wfv_arr_mem hwa hx) (wfv_arr_mem hwb hy)
  · by_cases hO : bothObj a b
    · cases a <;> cases b <;> simp only [bothObj] at hO
      rename_i xs ys
      rw [valueEq_obj, valueEq_obj, Bool.eq_iff_iff]
      simp only [Bool.and_eq_true, beq_iff_eq]
      have hnx := wfv_obj_keys hwa
      have hny := wfv_obj_keys hwb
      constructor
      · rintro ⟨hl, he⟩
        refine ⟨hl.symm, eqObj_flip xs ys hnx hny hl he ?_⟩
        intro e he e' he' hv
        have s1 := sizeOf_lt_obj he
        have s2 := sizeOf_lt_obj he'
        rw [ih e.2 e'.2 (by omega) (noTruthy_obj_mem hta he) (noTruthy_obj_mem htb he')
          (wfv_obj_mem hwa he) (wfv_obj_mem hwb he')]
        exact hv
      · rintro ⟨hl, he⟩
        refine ⟨hl.symm, eqObj_flip ys xs hny hnx hl he ?_⟩
        intro e he e' he' hv
        have s1 := sizeOf_lt_obj he
        have s2 := sizeOf_lt_obj he'
        rw [← ih e'.2 e.2 (by omega) (noTruthy_obj_mem hta he') (noTruthy_obj_mem htb he)
          (wfv_obj_mem hwa he') (wfv_obj_mem hwb he)]
        exact hv
    · have hA' : ¬ bothArr b a := by
        cases a <;> cases b <;> simp_all [bothArr]
      have hO' : ¬ bothObj b a := by
        cases a <;> cases b <;> simp_all [bothObj]
      rw [valueEq_flat a b hA hO, valueEq_flat b a hA' hO']
      exact valueEqFlat_symm a b (every_top _ _ hta) (every_top _ _ htb)

/-! ### reflexivity -/

theorem eqZip_refl (xs : List V) (H : ∀ x ∈ xs, valueEq x x = true) : eqZip xs xs = true := by
  induction xs with
  | nil => exact eqZip_nil_left _
  | cons x xs ih =>
    rw [eqZip_cons, H x (by simp), ih (fun x hx => H x (List.mem_cons_of_mem _ hx))]; rfl

theorem valueEq_refl (a : V) :
    NoTruthy a = true → WFV a = true → NaNFree a = true → valueEq a a = true := by
  refine induct₁ (fun a => NoTruthy a = true → WFV a = true → NaNFree a = true → valueEq a a = true) ?_ a
  intro a ih ht hw hn
  cases a with
  | nil => rw [valueEq_flat _ _ (by simp [bothArr]) (by simp [bothObj])]; rfl
  | st s =>
    rw [valueEq_flat _ _ (by simp [bothArr]) (by simp [bothObj])]
    have := every_top _ _ ht
    cases s <;> simp_all [valueEqFlat, V.queryState, V.isNil, isNoTruthy]
  | sc x =>
    rw [valueEq_flat _ _ (by simp [bothArr]) (by simp [bothObj])]
    simp only [valueEqFlat, V.isNil, Bool.false_and]
    exact scalarEq_refl x (every_top _ _ hn)
  | arr xs =>
    rw [valueEq_arr]
    simp only [beq_self_eq_true, Bool.true_and]
    apply eqZip_refl
    intro x hx
    exact ih x (sizeOf_lt_arr hx) (noTruthy_arr_mem ht hx) (wfv_arr_mem hw hx) (((every_arr _ _).1 hn).2 x hx)
  | obj kvs =>
    rw [valueEq_obj]
    simp only [beq_self_eq_true, Bool.true_and]
    rw [eqObj_iff]
    intro e he
    refine ⟨e.2, objGet_of_mem kvs (wfv_obj_keys hw) he, ?_⟩
    exact ih e.2 (sizeOf_lt_obj he) (noTruthy_obj_mem ht he) (wfv_obj_mem hw he) (((every_obj _ _).1 hn).2 e he)

/-! ### permutations of entry lists -/

theorem eqObj_perm {xs xs' ys ys' : Obj} (hx : xs.Perm xs') (hy : ys.Perm ys') (hn : (keysOf ys).Nodup) :
    eqObj xs ys = eqObj xs' ys' := by
  rw [eqObj_eq, eqObj_eq, hx.all_eq]
  congr 1
  funext e
  rw [eqGet_eq, eqGet_eq, objGet_perm hy hn]

theorem valueEq_obj_perm {xs xs' ys ys' : Obj} (hx : xs.Perm xs') (hy : ys.Perm ys') (hn : (keysOf ys).Nodup) :
    valueEq (.obj xs) (.obj ys) = valueEq (.obj xs') (.obj ys') := by
  rw [valueEq_obj, valueEq_obj, eqObj_perm hx hy hn, hx.length_eq, hy.length_eq]

end Liquid.C11L
