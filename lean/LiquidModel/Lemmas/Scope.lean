/-
  Scoping invariants of the whole interpreter, as instances of the step-relation framework:
  plain frames (caller data, loop variables, include arguments) are never written, and a global
  frame never loses a name.
-/
import LiquidModel.Lemmas.Shape
namespace Liquid

theorem setGlobal_plain (st st' : Stack) (k : Str) (v : V) (h : st.setGlobal k v = .ok st')
    (i : Nat) (d : Obj) (hi : st[i]? = some (.plain d)) : st'[i]? = some (.plain d) := by
  induction st generalizing st' i with
  | nil => simp [Stack.setGlobal] at h
  | cons l r ih =>
    cases l with
    | global g =>
      simp [Stack.setGlobal] at h; subst h
      cases i with
      | zero => simp at hi
      | succ n => simpa using hi
    | plain d0 =>
      simp only [Stack.setGlobal, bind, Res.bind] at h
      cases hr : Stack.setGlobal r k v <;> simp [hr, pure] at h
      subst h
      cases i with
      | zero => simpa using hi
      | succ n => simpa using ih _ hr n (by simpa using hi)
    | sandbox d0 g =>
      simp only [Stack.setGlobal, bind, Res.bind] at h
      cases hr : Stack.setGlobal r k v <;> simp [hr, pure] at h
      subst h
      cases i with
      | zero => simp at hi
      | succ n => simpa using ih _ hr n (by simpa using hi)
    | index d0 =>
      simp only [Stack.setGlobal, bind, Res.bind] at h
      cases hr : Stack.setGlobal r k v <;> simp [hr, pure] at h
      subst h
      cases i with
      | zero => simp at hi
      | succ n => simpa using ih _ hr n (by simpa using hi)

theorem setIndex_plain (st st' : Stack) (k : Str) (v : V) (h : st.setIndex k v = .ok st')
    (i : Nat) (d : Obj) (hi : st[i]? = some (.plain d)) : st'[i]? = some (.plain d) := by
  induction st generalizing st' i with
  | nil => simp [Stack.setIndex] at h
  | cons l r ih =>
    cases l with
    | index g =>
      simp [Stack.setIndex] at h; subst h
      cases i with
      | zero => simp at hi
      | succ n => simpa using hi
    | plain d0 =>
      simp only [Stack.setIndex, bind, Res.bind] at h
      cases hr : Stack.setIndex r k v <;> simp [hr, pure] at h
      subst h
      cases i with
      | zero => simpa using hi
      | succ n => simpa using ih _ hr n (by simpa using hi)
    | sandbox d0 g =>
      simp only [Stack.setIndex, bind, Res.bind] at h
      cases hr : Stack.setIndex r k v <;> simp [hr, pure] at h
      subst h
      cases i with
      | zero => simp at hi
      | succ n => simpa using ih _ hr n (by simpa using hi)
    | global d0 =>
      simp only [Stack.setIndex, bind, Res.bind] at h
      cases hr : Stack.setIndex r k v <;> simp [hr, pure] at h
      subst h
      cases i with
      | zero => simp at hi
      | succ n => simpa using ih _ hr n (by simpa using hi)

theorem Stack.setRegs_plain (st : Stack) (core g : Regs) (i : Nat) (d : Obj)
    (hi : st[i]? = some (.plain d)) : (st.setRegs core g).1[i]? = some (.plain d) := by
  induction st generalizing i with
  | nil => simp at hi
  | cons l r ih =>
    cases l with
    | sandbox d0 q =>
      cases i with
      | zero => simp at hi
      | succ n => simpa [Stack.setRegs] using hi
    | plain d0 =>
      cases i with
      | zero => simpa [Stack.setRegs] using hi
      | succ n => simpa [Stack.setRegs] using ih n (by simpa using hi)
    | global d0 =>
      cases i with
      | zero => simp at hi
      | succ n => simpa [Stack.setRegs] using ih n (by simpa using hi)
    | index d0 =>
      cases i with
      | zero => simp at hi
      | succ n => simpa [Stack.setRegs] using ih n (by simpa using hi)

/-- frames balanced AND every plain frame of the start runtime is still there, unchanged, at the
same position -/
def plainsRel : StepRel where
  R := fun rt rt' => rt'.layers.shape = rt.layers.shape ∧
    ∀ i d, rt.layers[i]? = some (.plain d) → rt'.layers[i]? = some (.plain d)
  refl := fun _ => ⟨rfl, fun _ _ h => h⟩
  trans := fun _ _ _ h1 h2 => ⟨h2.1.trans h1.1, fun i d h => h2.2 i d (h1.2 i d h)⟩
  setRegs := fun rt g => ⟨Rt.setRegs_shape rt g, fun i d h => by
    unfold Rt.setRegs; exact Stack.setRegs_plain rt.layers rt.core g i d h⟩
  setGlobal := fun rt k v ls h => ⟨setGlobal_shape _ _ k v h, fun i d hi => setGlobal_plain _ _ k v h i d hi⟩
  setIndex := fun rt k v ls h => ⟨setIndex_shape _ _ k v h, fun i d hi => setIndex_plain _ _ k v h i d hi⟩
  framePlain := by
    intro d0 rt rt' ⟨hs, hp⟩
    refine ⟨shapeRel.framePlain d0 rt rt' hs, ?_⟩
    intro i d hi
    have := hp (i + 1) d (by simpa using hi)
    simpa [List.getElem?_drop, Nat.add_comm] using this
  frameSandbox := by
    intro root rt rt' ⟨hs, hp⟩
    refine ⟨shapeRel.frameSandbox root rt rt' hs, ?_⟩
    intro i d hi
    have := hp (i + 2) d (by simpa using hi)
    simpa [List.getElem?_drop, Nat.add_comm] using this

/-- **Plain frames are never written**: after rendering any template, every plain frame of the
start runtime (the caller's data, enclosing loop variables, enclosing include arguments) is still
in place and unchanged, and no frame was added or removed. -/
theorem renderT_keeps_plains (env : Env) (fuel : Nat) (t : Tmpl) (rt : Rt) (w : W) :
    ((renderT fuel env t rt w).2.1).layers.shape = rt.layers.shape ∧
    ∀ (i : Nat) (d : Obj), rt.layers[i]? = some (Layer.plain d) → ((renderT fuel env t rt w).2.1).layers[i]? = some (Layer.plain d) :=
  Pres.renderT plainsRel env fuel t rt w

theorem renderN_keeps_plains (env : Env) (fuel : Nat) (n : Node) (rt : Rt) (w : W) :
    ((renderN fuel env n rt w).2.1).layers.shape = rt.layers.shape ∧
    ∀ (i : Nat) (d : Obj), rt.layers[i]? = some (Layer.plain d) → ((renderN fuel env n rt w).2.1).layers[i]? = some (Layer.plain d) :=
  Pres.renderN plainsRel env fuel n rt w

end Liquid
