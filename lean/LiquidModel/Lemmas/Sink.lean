/-
  The failing-sink simulation (C10): what any render computation does against a sink that accepts
  only `k` more writes is determined by what it does against a sink that never fails.
-/
import LiquidModel.Lemmas.Monad
namespace Liquid

/-- `m` behaves uniformly in the sink: from every runtime `rt` there is one outcome `r`, one end
state `rt'` and one list `δ` of written fragments such that
* against an infallible sink holding `o`, `m` ends with `r`, `rt'` and `o ++ δ`;
* against a sink that accepts `k ≥ |δ|` more writes, exactly the same, with `k - |δ|` left;
* against a sink that accepts `k < |δ|` more writes, `m` fails with the sink's error, having had
  exactly the first `k` fragments accepted (and nothing is written after the failure: the sink
  ends with zero budget and that prefix). -/
def SinkOk {α} (m : M α) : Prop :=
  ∀ rt, ∃ (r : Res α) (rt' : Rt) (δ : List Str),
    (∀ o, m rt ⟨o, none⟩ = (r, rt', ⟨o ++ δ, none⟩)) ∧
    (∀ o k, δ.length ≤ k → m rt ⟨o, some k⟩ = (r, rt', ⟨o ++ δ, some (k - δ.length)⟩)) ∧
    (∀ o k, k < δ.length → ∃ rt'', m rt ⟨o, some k⟩ = (.io, rt'', ⟨o ++ δ.take k, some 0⟩))

namespace SinkOk

/-- a computation that never touches the sink -/
theorem of_sinkless {α} (m : M α) (r : Rt → Res α) (g : Rt → Rt)
    (h : ∀ rt w, m rt w = (r rt, g rt, w)) : SinkOk m := by
  intro rt
  refine ⟨r rt, g rt, [], ?_, ?_, ?_⟩
  · intro o; simp [h]
  · intro o k _; simp [h]
  · intro o k hk; simp at hk

theorem pure {α} (a : α) : SinkOk (Pure.pure a : M α) :=
  of_sinkless _ (fun _ => .ok a) id (fun _ _ => rfl)

theorem lift {α} (r : Res α) : SinkOk (M.lift r) :=
  of_sinkless _ (fun _ => r) id (fun _ _ => rfl)

theorem getSt : SinkOk M.getSt := of_sinkless _ (fun rt => .ok rt.layers) id (fun _ _ => rfl)
theorem getRegs : SinkOk M.getRegs := of_sinkless _ (fun rt => .ok rt.regs) id (fun _ _ => rfl)
theorem setRegs (g : Regs) : SinkOk (M.setRegs g) :=
  of_sinkless _ (fun _ => .ok ()) (fun rt => rt.setRegs g) (fun _ _ => rfl)

theorem setGlobalM (x : Str) (v : V) : SinkOk (setGlobalM x v) := by
  refine of_sinkless _ (fun rt => match rt.layers.setGlobal x v with
      | .ok _ => .ok () | .err => .err | .io => .io | .panic s => .panic s | .fuel => .fuel)
    (fun rt => match rt.layers.setGlobal x v with | .ok ls => { rt with layers := ls } | _ => rt) ?_
  intro rt w
  simp only [Liquid.setGlobalM, M.bind'_getSt]
  cases h : rt.layers.setGlobal x v <;> simp [M.run_bind]

theorem setIndexM (x : Str) (v : V) : SinkOk (setIndexM x v) := by
  refine of_sinkless _ (fun rt => match rt.layers.setIndex x v with
      | .ok _ => .ok () | .err => .err | .io => .io | .panic s => .panic s | .fuel => .fuel)
    (fun rt => match rt.layers.setIndex x v with | .ok ls => { rt with layers := ls } | _ => rt) ?_
  intro rt w
  simp only [Liquid.setIndexM, M.bind'_getSt]
  cases h : rt.layers.setIndex x v <;> simp [M.run_bind]

theorem emit (s : Str) : SinkOk (M.emit s) := by
  intro rt
  by_cases hs : s = []
  · subst hs
    refine ⟨.ok (), rt, [], ?_, ?_, ?_⟩
    · intro o; simp [M.emit, W.write]
    · intro o k _; simp [M.emit, W.write]
    · intro o k hk; simp at hk
  · have he : s.isEmpty = false := by cases s <;> simp_all
    refine ⟨.ok (), rt, [s], ?_, ?_, ?_⟩
    · intro o; simp [M.emit, W.write, he]
    · intro o k hk
      cases k with
      | zero => simp at hk
      | succ n => simp [M.emit, W.write, he]
    · intro o k hk
      have : k = 0 := by simp at hk; omega
      subst this
      exact ⟨rt, by simp [M.emit, W.write, he]⟩

theorem capture {m : M Unit} (_hm : SinkOk m) : SinkOk (M.capture m) := by
  intro rt
  rcases hr : m rt {} with ⟨r, rt', cw⟩
  cases r with
  | ok u =>
    refine ⟨.ok cw.text, rt', [], ?_, ?_, ?_⟩
    · intro o; simp [M.capture, hr]
    · intro o k _; simp [M.capture, hr]
    · intro o k hk; simp at hk
  | err =>
    refine ⟨.err, rt', [], ?_, ?_, ?_⟩
    · intro o; simp [M.capture, hr, M.castErr]
    · intro o k _; simp [M.capture, hr, M.castErr]
    · intro o k hk; simp at hk
  | io =>
    refine ⟨.io, rt', [], ?_, ?_, ?_⟩
    · intro o; simp [M.capture, hr, M.castErr]
    · intro o k _; simp [M.capture, hr, M.castErr]
    · intro o k hk; simp at hk
  | panic s =>
    refine ⟨.panic s, rt', [], ?_, ?_, ?_⟩
    · intro o; simp [M.capture, hr, M.castErr]
    · intro o k _; simp [M.capture, hr, M.castErr]
    · intro o k hk; simp at hk
  | fuel =>
    refine ⟨.fuel, rt', [], ?_, ?_, ?_⟩
    · intro o; simp [M.capture, hr, M.castErr]
    · intro o k _; simp [M.capture, hr, M.castErr]
    · intro o k hk; simp at hk

theorem inFrames {α} (ls : List Layer) {m : M α} (hm : SinkOk m) : SinkOk (M.inFrames ls m) := by
  intro rt
  obtain ⟨r, rt', δ, h1, h2, h3⟩ := hm { rt with layers := ls ++ rt.layers }
  refine ⟨r, { rt' with layers := rt'.layers.drop ls.length }, δ, ?_, ?_, ?_⟩
  · intro o; simp [M.inFrames, h1]
  · intro o k hk; simp [M.inFrames, h2 o k hk]
  · intro o k hk
    obtain ⟨rt'', h⟩ := h3 o k hk
    exact ⟨{ rt'' with layers := rt''.layers.drop ls.length }, by simp [M.inFrames, h]⟩

theorem bind {α β} {m : M α} {f : α → M β} (hm : SinkOk m) (hf : ∀ a, SinkOk (f a)) :
    SinkOk (m >>= f) := by
  intro rt
  obtain ⟨r1, rt1, δ1, a1, a2, a3⟩ := hm rt
  cases r1 with
  | ok a =>
    obtain ⟨r2, rt2, δ2, b1, b2, b3⟩ := hf a rt1
    refine ⟨r2, rt2, δ1 ++ δ2, ?_, ?_, ?_⟩
    · intro o
      rw [M.run_bind_ok _ _ _ _ _ _ _ (a1 o), b1]
      simp [List.append_assoc]
    · intro o k hk
      simp only [List.length_append] at hk
      rw [M.run_bind_ok _ _ _ _ _ _ _ (a2 o k (by omega)), b2 _ _ (by omega)]
      simp only [List.append_assoc, List.length_append, Nat.sub_sub]
    · intro o k hk
      simp only [List.length_append] at hk
      by_cases h1 : k < δ1.length
      · obtain ⟨rt'', h⟩ := a3 o k h1
        refine ⟨rt'', ?_⟩
        rw [M.run_bind_notok _ _ _ _ _ _ _ h rfl]
        simp [M.castErr, List.take_append_of_le_length (Nat.le_of_lt h1)]
      · have h1' : δ1.length ≤ k := by omega
        obtain ⟨rt'', h⟩ := b3 (o ++ δ1) (k - δ1.length) (by omega)
        refine ⟨rt'', ?_⟩
        rw [M.run_bind_ok _ _ _ _ _ _ _ (a2 o k h1'), h]
        simp [List.take_append, List.take_of_length_le h1', List.append_assoc]
  | err =>
    refine ⟨.err, rt1, δ1, ?_, ?_, ?_⟩
    · intro o; rw [M.run_bind_notok _ _ _ _ _ _ _ (a1 o) rfl]; rfl
    · intro o k hk; rw [M.run_bind_notok _ _ _ _ _ _ _ (a2 o k hk) rfl]; rfl
    · intro o k hk
      obtain ⟨rt'', h⟩ := a3 o k hk
      exact ⟨rt'', by rw [M.run_bind_notok _ _ _ _ _ _ _ h rfl]; rfl⟩
  | io =>
    refine ⟨.io, rt1, δ1, ?_, ?_, ?_⟩
    · intro o; rw [M.run_bind_notok _ _ _ _ _ _ _ (a1 o) rfl]; rfl
    · intro o k hk; rw [M.run_bind_notok _ _ _ _ _ _ _ (a2 o k hk) rfl]; rfl
    · intro o k hk
      obtain ⟨rt'', h⟩ := a3 o k hk
      exact ⟨rt'', by rw [M.run_bind_notok _ _ _ _ _ _ _ h rfl]; rfl⟩
  | panic s =>
    refine ⟨.panic s, rt1, δ1, ?_, ?_, ?_⟩
    · intro o; rw [M.run_bind_notok _ _ _ _ _ _ _ (a1 o) rfl]; rfl
    · intro o k hk; rw [M.run_bind_notok _ _ _ _ _ _ _ (a2 o k hk) rfl]; rfl
    · intro o k hk
      obtain ⟨rt'', h⟩ := a3 o k hk
      exact ⟨rt'', by rw [M.run_bind_notok _ _ _ _ _ _ _ h rfl]; rfl⟩
  | fuel =>
    refine ⟨.fuel, rt1, δ1, ?_, ?_, ?_⟩
    · intro o; rw [M.run_bind_notok _ _ _ _ _ _ _ (a1 o) rfl]; rfl
    · intro o k hk; rw [M.run_bind_notok _ _ _ _ _ _ _ (a2 o k hk) rfl]; rfl
    · intro o k hk
      obtain ⟨rt'', h⟩ := a3 o k hk
      exact ⟨rt'', by rw [M.run_bind_notok _ _ _ _ _ _ _ h rfl]; rfl⟩

end SinkOk

/-- the simulation as an `MProp` -/
def sinkProp : MProp where
  P := fun m => SinkOk m
  pure := SinkOk.pure
  bind := SinkOk.bind
  lift := SinkOk.lift
  emit := SinkOk.emit
  getSt := SinkOk.getSt
  getRegs := SinkOk.getRegs
  setRegs := SinkOk.setRegs
  setGlobalM := SinkOk.setGlobalM
  setIndexM := SinkOk.setIndexM
  capture := SinkOk.capture
  inPlain := fun d => SinkOk.inFrames [.plain d]
  inSandbox := fun root => SinkOk.inFrames [.global [], .sandbox root {}]

/-- **Every template is sink-uniform.** -/
theorem renderT_sinkOk (env : Env) (fuel : Nat) (t : Tmpl) : SinkOk (renderT fuel env t) :=
  MProp.renderT sinkProp env fuel t

end Liquid
