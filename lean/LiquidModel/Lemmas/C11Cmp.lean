/-
  C11 helper lemmas, part 5: `value_cmp` — unfolding, duality, consistency with `value_eq`,
  permutations.
-/
import LiquidModel.Lemmas.C11Eq
namespace Liquid.C11L
open Liquid Liquid.C11

/-- lexicographic comparison of two entry lists as they stand (`cmpOOld` over the repaired `valueCmp`) -/
def lexO : Obj → Obj → Option Ordering
  | [], [] => some .eq
  | [], _ :: _ => some .lt
  | _ :: _, [] => some .gt
  | (k, x) :: xs, (k', y) :: ys =>
    match strCmp k k' with
    | .eq => (match valueCmp x y with
              | some .eq => lexO xs ys
              | o => o)
    | o => some o

theorem lexK_cmpFns (xs ys : Obj) : lexK (cmpFns xs) ys = lexO xs ys := by
  induction xs generalizing ys with
  | nil => cases ys <;> simp [cmpFns, lexK, lexO]
  | cons e r ih =>
    cases e with | mk k x =>
    cases ys with
    | nil => simp [cmpFns, lexK, lexO]
    | cons e' r' =>
      cases e' with | mk k' y =>
      simp only [cmpFns, lexK, lexO, ih]
      rfl

theorem valueCmp_obj (xs ys : Obj) : valueCmp (.obj xs) (.obj ys) = lexO (sortK xs) (sortK ys) := by
  simp only [valueCmp]
  rw [cmpFns_eq, sortK_mapV, ← cmpFns_eq, lexK_cmpFns]

theorem cmpO_eq (xs ys : Obj) : cmpO xs ys = lexO (sortK xs) (sortK ys) := by
  rw [← valueCmp_obj]; simp [cmpO, valueCmp]

theorem valueCmp_arr (xs ys : List V) : valueCmp (.arr xs) (.arr ys) = cmpL xs ys := by simp [valueCmp]
theorem valueCmp_sc (x y : Sc) : valueCmp (.sc x) (.sc y) = scalarCmp x y := by simp [valueCmp]

def bothSc : V → V → Prop
  | .sc _, .sc _ => True
  | _, _ => False

theorem valueCmp_none (a b : V) (h1 : ¬ bothSc a b) (h2 : ¬ bothArr a b) (h3 : ¬ bothObj a b) :
    valueCmp a b = none := by
  cases a <;> cases b <;> simp_all [valueCmp, bothSc, bothArr, bothObj]

/-! ### duality -/

theorem cmpL_dual (xs ys : List V) (H : ∀ x ∈ xs, ∀ y ∈ ys, valueCmp y x = swapO (valueCmp x y)) :
    cmpL ys xs = swapO (cmpL xs ys) := by
  induction xs generalizing ys with
  | nil => cases ys <;> simp [cmpL, swapO]
  | cons x xs ih =>
    cases ys with
    | nil => simp [cmpL, swapO]
    | cons y ys =>
      simp only [cmpL]
      rw [H x (by simp) y (by simp)]
      have ih' := ih ys (fun x hx y hy => H x (List.mem_cons_of_mem _ hx) y (List.mem_cons_of_mem _ hy))
      rcases hc : valueCmp x y with _ | o
      · simp [swapO]
      · cases o <;> simp [swapO, ih']

theorem lexO_dual (xs ys : Obj) (H : ∀ e ∈ xs, ∀ e' ∈ ys, valueCmp e'.2 e.2 = swapO (valueCmp e.2 e'.2)) :
    lexO ys xs = swapO (lexO xs ys) := by
  induction xs generalizing ys with
  | nil => cases ys <;> simp [lexO, swapO]
  | cons e xs ih =>
    cases e with | mk k x =>
    cases ys with
    | nil => simp [lexO, swapO]
    | cons e' ys =>
      cases e' with | mk k' y =>
      simp only [lexO]
      rw [strCmp_swap k k']
      have hxy := H (k, x) (by simp) (k', y) (by simp)
      simp only at hxy
      have ih' := ih ys (fun e he e' he' => H e (List.mem_cons_of_mem _ he) e' (List.mem_cons_of_mem _ he'))
      rcases hk : strCmp k k' with _ | _ | _
      · simp [Ordering.swap, swapO]
      · simp only [Ordering.swap]
        rw [hxy]
        rcases hc : valueCmp x y with _ | o
        · simp [swapO]
        · cases o <;> simp [swapO, ih']
      · simp [Ordering.swap, swapO]

theorem valueCmp_dual (a b : V) : valueCmp b a = swapO (valueCmp a b) := by
  refine induct₂ (fun a b => valueCmp b a = swapO (valueCmp a b)) ?_ a b
  intro a b ih
  by_cases hS : bothSc a b
  · cases a <;> cases b <;> simp only [bothSc] at hS
    rw [valueCmp_sc, valueCmp_sc]; exact scalarCmp_dual _ _
  · by_cases hA : bothArr a b
    · cases a <;> cases b <;> simp only [bothArr] at hA
      rename_i xs ys
      rw [valueCmp_arr, valueCmp_arr]
      apply cmpL_dual
      intro x hx y hy
      have s1 := sizeOf_lt_arr hx
      have s2 := sizeOf_lt_arr hy
      exact ih x y (by omega)
    · by_cases hO : bothObj a b
      · cases a <;> cases b <;> simp only [bothObj] at hO
        rename_i xs ys
        rw [valueCmp_obj, valueCmp_obj]
        apply lexO_dual
        intro e he e' he'
        have s1 := sizeOf_lt_obj ((mem_sortK _ _).1 he)
        have s2 := sizeOf_lt_obj ((mem_sortK _ _).1 he')
        exact ih e.2 e'.2 (by omega)
      · have hS' : ¬ bothSc b a := by cases a <;> cases b <;> simp_all [bothSc]
        have hA' : ¬ bothArr b a := by cases a <;> cases b <;> simp_all [bothArr]
        have hO' : ¬ bothObj b a := by cases a <;> cases b <;> simp_all [bothObj]
        rw [valueCmp_none a b hS hA hO, valueCmp_none b a hS' hA' hO']; rfl

/-! ### consistency of the order with equality -/

/-- the statement proved for every ordered pair: both `a == b` and `b == a` hold exactly when the
order says `Equal` -/
def Cons (a b : V) : Prop :=
  ∀ o, valueCmp a b = some o → ((valueEq a b = true ↔ o = .eq) ∧ (valueEq b a = true ↔ o = .eq))

theorem cmpL_cons (xs ys : List V) (H : ∀ x ∈ xs, ∀ y ∈ ys, Cons x y) :
    ∀ o, cmpL xs ys = some o →
      (((xs.length == ys.length && eqZip xs ys) = true ↔ o = .eq) ∧
       ((ys.length == xs.length && eqZip ys xs) = true ↔ o = .eq)) := by
  induction xs generalizing ys with
  | nil =>
    cases ys with
    | nil => intro o h; simp [cmpL] at h; subst h; simp [eqZip_nil_left]
    | cons y ys => intro o h; simp [cmpL] at h; subst h; simp
  | cons x xs ih =>
    cases ys with
    | nil => intro o h; simp [cmpL] at h; subst h; simp
    | cons y ys =>
      intro o h
      simp only [cmpL] at h
      have hxy := H x (by simp) y (by simp)
      have ih' := ih ys (fun x hx y hy => H x (List.mem_cons_of_mem _ hx) y (List.mem_cons_of_mem _ hy))
      rw [eqZip_cons, eqZip_cons]
      simp only [List.length_cons, Nat.add_right_cancel_iff, Bool.and_eq_true, beq_iff_eq]
      rcases hc : valueCmp x y with _ | o'
      · rw [hc] at h; cases h
      · obtain ⟨h1, h2⟩ := hxy o' hc
        rw [hc] at h
        cases o'
        · simp at h; subst h
          have e1 : ¬ valueEq x y = true := by rw [h1]; simp
          have e2 : ¬ valueEq y x = true := by rw [h2]; simp
          simp [e1, e2]
        · simp only at h
          obtain ⟨i1, i2⟩ := ih' o h
          have e1 : valueEq x y = true := h1.2 rfl
          have e2 : valueEq y x = true := h2.2 rfl
          simp only [Bool.and_eq_true, beq_iff_eq] at i1 i2
          simp only [e1, e2, true_and]
          exact ⟨i1, i2⟩
        · simp at h; subst h
          have e1 : ¬ valueEq x y = true := by rw [h1]; simp
          have e2 : ¬ valueEq y x = true := by rw [h2]; simp
          simp [e1, e2]

def valsOf (l : Obj) : List V := l.map (·.2)

/-- with position-wise equal keys, the entry-wise comparison is the comparison of the value lists -/
theorem lexO_aligned (xs ys : Obj) (hk : keysOf xs = keysOf ys) : lexO xs ys = cmpL (valsOf xs) (valsOf ys) := by
  induction xs generalizing ys with
  | nil => cases ys with
    | nil => rfl
    | cons => simp [keysOf] at hk
  | cons e xs ih =>
    cases e with | mk k x =>
    cases ys with
    | nil => simp [keysOf] at hk
    | cons e' ys =>
      cases e' with | mk k' y =>
      simp only [keysOf, List.map_cons, List.cons.injEq] at hk
      obtain ⟨hk1, hk2⟩ := hk
      subst hk1
      simp only [lexO, strCmp_refl, valsOf, List.map_cons, cmpL]
      rw [ih ys hk2]; rfl

theorem lexO_eq_keys (xs ys : Obj) (h : lexO xs ys = some .eq) : keysOf xs = keysOf ys := by
  induction xs generalizing ys with
  | nil => cases ys with
    | nil => rfl
    | cons => simp [lexO] at h
  | cons e xs ih =>
    cases e with | mk k x =>
    cases ys with
    | nil => simp [lexO] at h
    | cons e' ys =>
      cases e' with | mk k' y =>
      simp only [lexO] at h
      rcases hk : strCmp k k' with _ | _ | _
      · rw [hk] at h; simp at h
      · rw [hk] at h; simp only at h
        have := (strCmp_eq_iff _ _).1 hk; subst this
        rcases hc : valueCmp x y with _ | o
        · rw [hc] at h; cases h
        · rw [hc] at h
          cases o
          · simp at h
          · simp only at h; simp [keysOf]; exact ih ys h
          · simp at h
      · rw [hk] at h; simp at h

theorem eqGet_cons_ne (k' : Str) (w : V) (r : Obj) (k : Str) (v : V) (h : k' ≠ k) :
    eqGet ((k', w) :: r) k v = eqGet r k v := by
  rw [eqGet_eq, eqGet_eq, objGet_cons]; simp [h]

theorem eqGet_cons_eq (k : Str) (w : V) (r : Obj) (v : V) : eqGet ((k, w) :: r) k v = valueEq w v := by
  rw [eqGet_eq, objGet_cons]; simp

theorem eqObj_cons_irrelevant (xs : Obj) (k : Str) (w : V) (r : Obj) (h : ∀ e ∈ xs, e.1 ≠ k) :
    eqObj xs ((k, w) :: r) = eqObj xs r := by
  rw [eqObj_eq, eqObj_eq, Bool.eq_iff_iff, List.all_eq_true, List.all_eq_true]
  constructor
  · intro hh e he; rw [← eqGet_cons_ne k w r e.1 e.2 (fun hh' => h e he hh'.symm)]; exact hh e he
  · intro hh e he; rw [eqGet_cons_ne k w r e.1 e.2 (fun hh' => h e he hh'.symm)]; exact hh e he

/-- keys aligned and distinct: the object test is the position-wise test of the values (flipped) -/
theorem eqObj_aligned (xs ys : Obj) (hk : keysOf xs = keysOf ys) (hn : (keysOf ys).Nodup) :
    eqObj xs ys = eqZip (valsOf ys) (valsOf xs) := by
  induction xs generalizing ys with
  | nil => cases ys with
    | nil => simp [eqObj_nil, valsOf, eqZip_nil_left]
    | cons => simp [keysOf] at hk
  | cons e xs ih =>
    cases e with | mk k x =>
    cases ys with
    | nil => simp [keysOf] at hk
    | cons e' ys =>
      cases e' with | mk k' y =>
      simp only [keysOf, List.map_cons, List.cons.injEq] at hk
      obtain ⟨hk1, hk2⟩ := hk
      subst hk1
      simp only [keysOf, List.map_cons, List.nodup_cons] at hn
      rw [eqObj_cons, eqGet_cons_eq]
      simp only [valsOf, List.map_cons]
      rw [eqZip_cons]
      congr 1
      rw [eqObj_cons_irrelevant]
      · exact ih ys hk2 hn.2
      · intro e he hke
        apply hn.1
        have : e.1 ∈ List.map (fun x => x.fst) xs := List.mem_map.2 ⟨e, he, rfl⟩
        rw [hk2] at this
        rw [← hke]; exact this

theorem keys_strict {l : Obj} (h : l.Pairwise ltK) : (keysOf l).Pairwise (fun a b => strCmp a b = .lt) := by
  unfold keysOf; rw [List.pairwise_map]; exact h

theorem nodup_of_strict {l : Obj} (h : l.Pairwise ltK) : (keysOf l).Nodup := by
  have := keys_strict h
  refine this.imp ?_
  intro a b hab e; subst e; rw [strCmp_refl] at hab; cases hab

/-- two strictly sorted entry lists whose objects are equal have the same key sequence -/
theorem keys_eq_of_eqObj (xs ys : Obj) (hx : xs.Pairwise ltK) (hy : ys.Pairwise ltK)
    (hlen : xs.length = ys.length) (h : eqObj xs ys = true) : keysOf xs = keysOf ys := by
  have hsub : ∀ k ∈ keysOf xs, k ∈ keysOf ys := by
    intro k hk
    obtain ⟨v, hv⟩ := mem_keysOf.1 hk
    obtain ⟨w, hw, _⟩ := (eqObj_iff xs ys).1 h (k, v) hv
    exact mem_keysOf.2 ⟨w, objGet_some_mem ys hw⟩
  have hperm := keys_subset_symm (l' := xs) (nodup_of_strict hx) hsub hlen rfl
  apply List.Perm.eq_of_pairwise (le := fun a b => strCmp a b = .lt) _ (keys_strict hx) (keys_strict hy) hperm
  intro a b _ _ hab hba
  rw [← strCmp_gt_iff] at hba; rw [hab] at hba; cases hba

theorem length_valsOf (l : Obj) : (valsOf l).length = l.length := by simp [valsOf]

theorem lexO_cons (xs ys : Obj) (hx : xs.Pairwise ltK) (hy : ys.Pairwise ltK)
    (H : ∀ e ∈ xs, ∀ e' ∈ ys, Cons e.2 e'.2) :
    ∀ o, lexO xs ys = some o →
      (((xs.length == ys.length && eqObj xs ys) = true ↔ o = .eq) ∧
       ((ys.length == xs.length && eqObj ys xs) = true ↔ o = .eq)) := by
  intro o h
  have Hv : ∀ x ∈ valsOf xs, ∀ y ∈ valsOf ys, Cons x y := by
    intro x hx' y hy'
    obtain ⟨e, he, rfl⟩ := List.mem_map.1 hx'
    obtain ⟨e', he', rfl⟩ := List.mem_map.1 hy'
    exact H e he e' he'
  have key : keysOf xs = keysOf ys →
      (((xs.length == ys.length && eqObj xs ys) = true ↔ o = .eq) ∧
       ((ys.length == xs.length && eqObj ys xs) = true ↔ o = .eq)) := by
    intro hk
    rw [lexO_aligned xs ys hk] at h
    obtain ⟨c1, c2⟩ := cmpL_cons (valsOf xs) (valsOf ys) Hv o h
    rw [length_valsOf, length_valsOf] at c1 c2
    rw [eqObj_aligned xs ys hk (nodup_of_strict hy), eqObj_aligned ys xs hk.symm (nodup_of_strict hx)]
    constructor
    · rw [beq_comm' xs.length ys.length]; exact c2
    · rw [beq_comm' ys.length xs.length]; exact c1
  constructor
  · constructor
    · intro hh
      simp only [Bool.and_eq_true, beq_iff_eq] at hh
      exact (key (keys_eq_of_eqObj xs ys hx hy hh.1 hh.2)).1.1 (by simp [hh.1, hh.2])
    · intro ho; subst ho
      exact (key (lexO_eq_keys xs ys h)).1.2 rfl
  · constructor
    · intro hh
      simp only [Bool.and_eq_true, beq_iff_eq] at hh
      exact (key (keys_eq_of_eqObj ys xs hy hx hh.1 hh.2).symm).2.1 (by simp [hh.1, hh.2])
    · intro ho; subst ho
      exact (key (lexO_eq_keys xs ys h)).2.2 rfl

theorem valueCmp_cons (a b : V) : WFV a = true → WFV b = true → Cons a b := by
  refine induct₂ (fun a b => WFV a = true → WFV b = true → Cons a b) ?_ a b
  intro a b ih hwa hwb
  by_cases hS : bothSc a b
  · cases a <;> cases b <;> simp only [bothSc] at hS
    rename_i x y
    intro o h
    rw [valueCmp_sc] at h
    rw [valueEq_flat _ _ (by simp [bothArr]) (by simp [bothObj]),
        valueEq_flat _ _ (by simp [bothArr]) (by simp [bothObj])]
    simp only [valueEqFlat, V.isNil, Bool.false_and]
    have := scalarCmp_eq_iff x y o h
    rw [scalarEq_symm y x]
    exact ⟨this, this⟩
  · by_cases hA : bothArr a b
    · cases a <;> cases b <;> simp only [bothArr] at hA
      rename_i xs ys
      intro o h
      rw [valueCmp_arr] at h
      rw [valueEq_arr, valueEq_arr]
      apply cmpL_cons xs ys _ o h
      intro x hx y hy
      have s1 := sizeOf_lt_arr hx
      have s2 := sizeOf_lt_arr hy
      exact ih x y (by omega) (wfv_arr_mem hwa hx) (wfv_arr_mem hwb hy)
    · by_cases hO : bothObj a b
      · cases a <;> cases b <;> simp only [bothObj] at hO
        rename_i xs ys
        intro o h
        rw [valueCmp_obj] at h
        have hnx := wfv_obj_keys hwa
        have hny := wfv_obj_keys hwb
        rw [valueEq_obj_perm (sortK_perm xs).symm (sortK_perm ys).symm hny,
            valueEq_obj_perm (sortK_perm ys).symm (sortK_perm xs).symm hnx,
            valueEq_obj, valueEq_obj]
        apply lexO_cons (sortK xs) (sortK ys) (sortK_strict xs hnx) (sortK_strict ys hny) _ o h
        intro e he e' he'
        have he := (mem_sortK _ _).1 he
        have he' := (mem_sortK _ _).1 he'
        have s1 := sizeOf_lt_obj he
        have s2 := sizeOf_lt_obj he'
        exact ih e.2 e'.2 (by omega) (wfv_obj_mem hwa he) (wfv_obj_mem hwb he')
      · intro o h
        rw [valueCmp_none a b hS hA hO] at h; cases h

/-! ### permutations -/

theorem valueCmp_obj_perm {xs xs' ys ys' : Obj} (hx : xs.Perm xs') (hy : ys.Perm ys')
    (hnx : (keysOf xs).Nodup) (hny : (keysOf ys).Nodup) :
    valueCmp (.obj xs) (.obj ys) = valueCmp (.obj xs') (.obj ys') := by
  rw [valueCmp_obj, valueCmp_obj, sortK_eq_of_perm hx hnx, sortK_eq_of_perm hy hny]

end Liquid.C11L
