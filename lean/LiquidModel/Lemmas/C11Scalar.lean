/-
  C11 helper lemmas, part 2: scalars (`scalar_eq`, `scalar_cmp`, floats, int → float).
-/
import LiquidModel.Lemmas.C11Base
namespace Liquid.C11L
open Liquid Liquid.C11

theorem swapO_swapO (o : Option Ordering) : swapO (swapO o) = o := by
  cases o with
  | none => rfl
  | some o => cases o <;> rfl

theorem swapO_eq_some_eq (o : Option Ordering) : swapO o = some .eq ↔ o = some .eq := by
  cases o with
  | none => simp [swapO]
  | some o => cases o <;> simp [swapO]

theorem cmpInt_swap (a b : Int) : compare b a = (compare a b).swap := by
  simp only [compare, compareOfLessAndEq]
  split <;> split <;> (try split) <;> (try split) <;> simp [Ordering.swap] <;> omega

theorem cmpInt_eq_iff (a b : Int) : compare a b = .eq ↔ a = b := by
  simp only [compare, compareOfLessAndEq]
  split <;> (try split) <;> simp <;> omega

theorem cmpInt_lt_iff (a b : Int) : compare a b = .lt ↔ a < b := by
  simp only [compare, compareOfLessAndEq]
  split <;> (try split) <;> simp <;> omega

theorem cmpInt_gt_iff (a b : Int) : compare a b = .gt ↔ b < a := by
  simp only [compare, compareOfLessAndEq]
  split <;> (try split) <;> simp <;> omega

theorem swapO_some (o : Ordering) : swapO (some o) = some o.swap := by cases o <;> rfl

theorem boolCmp_swap (a b : Bool) : boolCmp b a = (boolCmp a b).swap := by
  cases a <;> cases b <;> rfl

theorem boolCmp_eq_iff (a b : Bool) : boolCmp a b = .eq ↔ a = b := by
  cases a <;> cases b <;> simp [boolCmp]

theorem beq_comm' {α} [BEq α] [LawfulBEq α] (a b : α) : (a == b) = (b == a) := by
  rw [Bool.eq_iff_iff]; simp only [beq_iff_eq]; exact eq_comm

/-! ### floats -/

theorem FV.eq_symm (a b : FV) : a.eq b = b.eq a := by
  cases a <;> cases b <;> simp [FV.eq]
  exact beq_comm' _ _

theorem FV.cmp_dual (a b : FV) : b.cmp a = swapO (a.cmp b) := by
  cases a <;> cases b <;> simp only [FV.cmp, swapO]
  rw [cmpInt_swap, ← swapO_some]; rfl

theorem FV.cmp_eq_iff (a b : FV) : a.cmp b = some .eq ↔ a.eq b = true := by
  cases a <;> cases b <;> simp [FV.cmp, FV.eq, cmpInt_eq_iff]

theorem FV.eq_refl (a : FV) (h : a ≠ .nan) : a.eq a = true := by
  cases a <;> simp [FV.eq] at h ⊢

/-! ### `scalar_eq` / `scalar_cmp` -/

theorem scalarEq_symm (x y : Sc) : scalarEq x y = scalarEq y x := by
  cases x <;> cases y <;> simp only [scalarEq, FV.eq_symm] <;> exact beq_comm' _ _

theorem scalarCmp_dual (x y : Sc) : scalarCmp y x = swapO (scalarCmp x y) := by
  cases x <;> cases y <;> simp only [scalarCmp, swapO_some, Option.some.injEq] <;>
    first
      | rfl
      | exact cmpInt_swap _ _
      | exact boolCmp_swap _ _
      | exact strCmp_swap _ _
      | exact FV.cmp_dual _ _

/-- two ordered scalars are equal exactly when the order says `Equal`. -/
theorem scalarCmp_eq_iff (x y : Sc) (o : Ordering) (h : scalarCmp x y = some o) :
    scalarEq x y = true ↔ o = .eq := by
  cases x <;> cases y <;> simp only [scalarCmp, scalarEq, Option.some.injEq, reduceCtorEq] at h ⊢
  · subst h; simp [cmpInt_eq_iff]
  · rw [← FV.cmp_eq_iff, h]; simp
  · rw [← FV.cmp_eq_iff, h]; simp
  · rw [← FV.cmp_eq_iff, h]; simp
  · subst h; simp [boolCmp_eq_iff]
  · subst h; simp [cmpInt_eq_iff]
  · subst h; simp [cmpInt_eq_iff]
  · subst h; simp [cmpInt_eq_iff]; exact eq_comm
  · subst h; simp [cmpInt_eq_iff]
  · subst h; simp [strCmp_eq_iff]

theorem scalarEq_refl (x : Sc) (h : isNanFree (.sc x) = true) : scalarEq x x = true := by
  cases x with
  | flt f =>
    simp only [isNanFree] at h
    simp only [scalarEq]
    apply FV.eq_refl
    intro hn; simp [hn] at h
  | _ => simp [scalarEq]

end Liquid.C11L
