/-
  C11 helper lemmas, part 7: inside one scalar kind `scalar_cmp` is transitive and `scalar_eq`
  an equivalence (the mixed rows — integer/float above 2^53, date/date-time, bool/anything —
  are not: see the `_counterexample` theorems of Props/C11.lean).
-/
import LiquidModel.Lemmas.C11Canon
namespace Liquid.C11L
open Liquid Liquid.C11

def leO (o : Option Ordering) : Prop := o = some .lt ∨ o = some .eq

theorem cmpInt_cases (a b : Int) :
    (compare a b = .lt ∧ a < b) ∨ (compare a b = .eq ∧ a = b) ∨ (compare a b = .gt ∧ b < a) := by
  rcases h : compare a b with _ | _ | _
  · exact Or.inl ⟨rfl, (cmpInt_lt_iff a b).1 h⟩
  · exact Or.inr (Or.inl ⟨rfl, (cmpInt_eq_iff a b).1 h⟩)
  · exact Or.inr (Or.inr ⟨rfl, (cmpInt_gt_iff a b).1 h⟩)

theorem cmpInt_lt_trans {a b c : Int} (h1 : compare a b = .lt) (h2 : compare b c = .lt) : compare a c = .lt := by
  rw [cmpInt_lt_iff] at *; omega

theorem cmpInt_le_trans {a b c : Int} (h1 : compare a b ≠ .gt) (h2 : compare b c ≠ .gt) : compare a c ≠ .gt := by
  rw [Ne, cmpInt_gt_iff] at *; omega

theorem strCmp_cases (a b : Str) : strCmp a b = .lt ∨ strCmp a b = .eq ∨ strCmp a b = .gt := by
  cases strCmp a b <;> simp

theorem FV.cmp_lt_trans {a b c : FV} (h1 : a.cmp b = some .lt) (h2 : b.cmp c = some .lt) : a.cmp c = some .lt := by
  cases a <;> cases b <;> cases c <;> simp_all [FV.cmp, cmpInt_lt_iff] <;> omega

theorem FV.cmp_le_trans {a b c : FV} (h1 : leO (a.cmp b)) (h2 : leO (b.cmp c)) : leO (a.cmp c) := by
  unfold leO at *
  cases a <;> cases b <;> cases c <;> simp_all [FV.cmp, cmpInt_lt_iff, cmpInt_eq_iff] <;> omega

theorem FV.eq_trans {a b c : FV} (h1 : a.eq b = true) (h2 : b.eq c = true) : a.eq c = true := by
  cases a <;> cases b <;> cases c <;> simp_all [FV.eq]

theorem scalarCmp_lt_trans (x y z : Sc) (k1 : scKind x = scKind y) (k2 : scKind y = scKind z)
    (h1 : scalarCmp x y = some .lt) (h2 : scalarCmp y z = some .lt) : scalarCmp x z = some .lt := by
  cases x <;> cases y <;> simp [scKind] at k1 <;> cases z <;> simp [scKind] at k2 <;>
    simp only [scalarCmp, Option.some.injEq] at h1 h2 ⊢
  · exact cmpInt_lt_trans h1 h2
  · exact FV.cmp_lt_trans h1 h2
  · rename_i a b c; cases a <;> cases b <;> cases c <;> simp_all [boolCmp]
  · exact cmpInt_lt_trans h1 h2
  · exact cmpInt_lt_trans h1 h2
  · exact strCmp_lt_trans h1 h2

theorem leO_some (o : Ordering) : leO (some o) ↔ o ≠ .gt := by
  unfold leO; cases o <;> simp

theorem scalarCmp_le_trans (x y z : Sc) (k1 : scKind x = scKind y) (k2 : scKind y = scKind z)
    (h1 : leO (scalarCmp x y)) (h2 : leO (scalarCmp y z)) : leO (scalarCmp x z) := by
  cases x <;> cases y <;> simp [scKind] at k1 <;> cases z <;> simp [scKind] at k2 <;>
    simp only [scalarCmp] at h1 h2 ⊢
  · rw [leO_some] at *; exact cmpInt_le_trans h1 h2
  · exact FV.cmp_le_trans h1 h2
  · rename_i a b c; rw [leO_some] at *; cases a <;> cases b <;> cases c <;> simp_all [boolCmp]
  · rw [leO_some] at *; exact cmpInt_le_trans h1 h2
  · rw [leO_some] at *; exact cmpInt_le_trans h1 h2
  · rw [leO_some] at *; exact strCmp_le_trans h1 h2

theorem scalarEq_trans (x y z : Sc) (k1 : scKind x = scKind y) (k2 : scKind y = scKind z)
    (h1 : scalarEq x y = true) (h2 : scalarEq y z = true) : scalarEq x z = true := by
  cases x <;> cases y <;> simp [scKind] at k1 <;> cases z <;> simp [scKind] at k2 <;>
    simp only [scalarEq, beq_iff_eq] at h1 h2 ⊢
  · exact h1.trans h2
  · exact FV.eq_trans h1 h2
  · exact h1.trans h2
  · exact h1.trans h2
  · exact h1.trans h2
  · exact h1.trans h2

end Liquid.C11L
