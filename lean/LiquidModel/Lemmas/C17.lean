/-
  Helper lemmas for C17 (calendar, digits, strftime machine, default print/parse).
-/
import LiquidModel.Model.DateFmt
namespace Liquid.Cal

theorem dby_succ (y : Int) : daysBeforeYear (y + 1) = daysBeforeYear y + yearLen y := by
  unfold daysBeforeYear leapsBefore yearLen isLeap
  by_cases h : (y % 4 = 0 ∧ (y % 100 ≠ 0 ∨ y % 400 = 0))
  · simp [h]; omega
  · simp [h]; omega

theorem yearLen_bounds (y : Int) : 365 ≤ yearLen y ∧ yearLen y ≤ 366 := by unfold yearLen; split <;> omega

theorem yearLen_eq (y : Int) : yearLen y = 365 + (if isLeap y then 1 else 0) := by unfold yearLen; split <;> simp

theorem dby_add (y : Int) (k : Nat) : daysBeforeYear y + 365 * k ≤ daysBeforeYear (y + k) := by
  induction k with
  | zero => simp
  | succ k ih =>
    have : y + ((k + 1 : Nat) : Int) = (y + k) + 1 := by omega
    rw [this, dby_succ]
    have := yearLen_bounds (y + k)
    omega

theorem dby_mono {y z : Int} (h : y ≤ z) : daysBeforeYear y ≤ daysBeforeYear z := by
  have := dby_add y (z - y).toNat
  have e : y + ((z - y).toNat : Int) = z := by omega
  rw [e] at this; omega

theorem year_spec (n : Int) : daysBeforeYear (yearOfDay n) ≤ n ∧ n < daysBeforeYear (yearOfDay n + 1) := by
  unfold yearOfDay
  simp only
  split
  · constructor
    · assumption
    · unfold daysBeforeYear leapsBefore at *; omega
  · split
    · constructor
      · unfold daysBeforeYear leapsBefore at *; omega
      · have : 400 * (n + 719162) / 146097 + 1 - 1 + 1 = 400 * (n + 719162) / 146097 + 1 := by omega
        rw [this]; assumption
    · constructor <;> omega

theorem year_unique {n y : Int} (h1 : daysBeforeYear y ≤ n) (h2 : n < daysBeforeYear (y + 1)) : yearOfDay n = y := by
  have ⟨h3, h4⟩ := year_spec n
  generalize yearOfDay n = z at *
  by_cases h : z < y
  · have := dby_mono (show z + 1 ≤ y by omega); omega
  · by_cases h' : y < z
    · have := dby_mono (show y + 1 ≤ z by omega); omega
    · omega

/-- month table: cumulative = sum of lengths -/
theorem dbm_succ (y m : Int) (h1 : 1 ≤ m) (h2 : m ≤ 12) :
    daysBeforeMonth (isLeap y) (m + 1) = daysBeforeMonth (isLeap y) m + monthLen y m := by
  have : m = 1 ∨ m = 2 ∨ m = 3 ∨ m = 4 ∨ m = 5 ∨ m = 6 ∨ m = 7 ∨ m = 8 ∨ m = 9 ∨ m = 10 ∨ m = 11 ∨ m = 12 := by omega
  rcases this with h|h|h|h|h|h|h|h|h|h|h|h <;> subst h <;> cases hl : isLeap y <;> simp [daysBeforeMonth, monthLen, hl]

theorem dbm_13 (y : Int) : daysBeforeMonth (isLeap y) 13 = yearLen y := by
  cases hl : isLeap y <;> simp [daysBeforeMonth, yearLen, hl]

theorem monthLen_pos (y m : Int) : 28 ≤ monthLen y m ∧ monthLen y m ≤ 31 := by
  unfold monthLen; repeat' split
  all_goals omega



/-- finite table: for both kinds of year and every day of the year the month search returns a
month whose cumulative bounds enclose the day -/
theorem month_table : ∀ l : Bool, ∀ o : Nat, o < 366 →
    (Int.ofNat o < daysBeforeMonth l 13 →
      1 ≤ monthOfOrd l o ∧ monthOfOrd l o ≤ 12 ∧ daysBeforeMonth l (monthOfOrd l o) ≤ Int.ofNat o ∧
      Int.ofNat o < daysBeforeMonth l (monthOfOrd l o + 1)) := by
  decide +kernel

/-- finite table: the cumulative month table is monotone -/
theorem dbm_table : ∀ l : Bool, ∀ a : Nat, a < 14 → ∀ b : Nat, b < 14 → 1 ≤ a → a ≤ b →
    daysBeforeMonth l (Int.ofNat a) ≤ daysBeforeMonth l (Int.ofNat b) := by
  decide +kernel

theorem dbm_13_le (l : Bool) : daysBeforeMonth l 13 ≤ 366 := by cases l <;> decide

theorem month_spec (l : Bool) (o : Int) (h0 : 0 ≤ o) (h1 : o < daysBeforeMonth l 13) :
    1 ≤ monthOfOrd l o ∧ monthOfOrd l o ≤ 12 ∧ daysBeforeMonth l (monthOfOrd l o) ≤ o ∧
      o < daysBeforeMonth l (monthOfOrd l o + 1) := by
  have h13 := dbm_13_le l
  have := month_table l o.toNat (by omega)
  have e : Int.ofNat o.toNat = o := by simp; omega
  have e' : ((o.toNat : Nat) : Int) = o := by omega
  rw [e] at this
  simp only [e'] at this
  exact this h1

theorem dbm_mono (l : Bool) {a b : Int} (h1 : 1 ≤ a) (h2 : a ≤ b) (h3 : b ≤ 13) :
    daysBeforeMonth l a ≤ daysBeforeMonth l b := by
  have := dbm_table l a.toNat (by omega) b.toNat (by omega) (by omega) (by omega)
  have ea : Int.ofNat a.toNat = a := by simp; omega
  have eb : Int.ofNat b.toNat = b := by simp; omega
  rwa [ea, eb] at this

theorem month_unique (l : Bool) (o m : Int) (hm1 : 1 ≤ m) (hm2 : m ≤ 12)
    (h1 : daysBeforeMonth l m ≤ o) (h2 : o < daysBeforeMonth l (m + 1)) : monthOfOrd l o = m := by
  have h0 : 0 ≤ o := by
    have := dbm_mono l (show (1:Int) ≤ 1 by omega) hm1 (by omega)
    have z : daysBeforeMonth l 1 = 0 := by cases l <;> decide
    omega
  have h13 : o < daysBeforeMonth l 13 := by
    have := dbm_mono l (show (1:Int) ≤ m + 1 by omega) (show m + 1 ≤ 13 by omega) (by omega)
    omega
  obtain ⟨a, b, c, d⟩ := month_spec l o h0 h13
  generalize monthOfOrd l o = m' at *
  by_cases h : m' < m
  · have := dbm_mono l (show (1:Int) ≤ m' + 1 by omega) (show m' + 1 ≤ m by omega) (by omega); omega
  · by_cases h' : m < m'
    · have := dbm_mono l (show (1:Int) ≤ m + 1 by omega) (show m + 1 ≤ m' by omega) (by omega); omega
    · omega


/-! ### civil round trip -/

theorem ordinal_bounds (n : Int) : 1 ≤ ordinalOf n ∧ ordinalOf n ≤ yearLen (yearOfDay n) := by
  have ⟨a, b⟩ := year_spec n
  rw [dby_succ] at b
  unfold ordinalOf; omega

theorem civil_valid (n : Int) : validCivil (yearOf n) (monthOf n) (dayOf n) ∧
    dayOfCivil (yearOf n) (monthOf n) (dayOf n) = n := by
  have ⟨o1, o2⟩ := ordinal_bounds n
  have h13 := dbm_13 (yearOfDay n)
  obtain ⟨a, b, c, d⟩ := month_spec (isLeap (yearOfDay n)) (ordinalOf n - 1) (by omega) (by omega)
  have hs := dbm_succ (yearOfDay n) _ a b
  unfold validCivil yearOf monthOf dayOf dayOfCivil
  unfold monthOf at *
  refine ⟨⟨a, b, by omega, by omega⟩, ?_⟩
  unfold ordinalOf; omega

theorem civil_unique {y m d : Int} (h : validCivil y m d) :
    yearOf (dayOfCivil y m d) = y ∧ monthOf (dayOfCivil y m d) = m ∧ dayOf (dayOfCivil y m d) = d := by
  obtain ⟨m1, m2, d1, d2⟩ := h
  have hs := dbm_succ y m m1 m2
  have hlo := dbm_mono (isLeap y) (show (1:Int) ≤ 1 by omega) m1 (by omega)
  have hhi := dbm_mono (isLeap y) (show (1:Int) ≤ m + 1 by omega) (show m + 1 ≤ 13 by omega) (by omega)
  have z : daysBeforeMonth (isLeap y) 1 = 0 := by cases isLeap y <;> decide
  have h13 := dbm_13 y
  have hy : yearOfDay (dayOfCivil y m d) = y := by
    apply year_unique
    · unfold dayOfCivil; omega
    · rw [dby_succ]; unfold dayOfCivil; omega
  have ho : ordinalOf (dayOfCivil y m d) = daysBeforeMonth (isLeap y) m + d := by
    unfold ordinalOf; rw [hy]; unfold dayOfCivil; omega
  have hm : monthOf (dayOfCivil y m d) = m := by
    unfold monthOf; rw [hy, ho]
    exact month_unique _ _ _ m1 m2 (by omega) (by omega)
  refine ⟨hy, hm, ?_⟩
  unfold dayOf; rw [hm, hy, ho]; omega

/-! ### weeks -/

theorem firstWeekdayOrd_spec (n w : Int) (hw0 : 0 ≤ w) (hw : w < 7) :
    1 ≤ firstWeekdayOrd n w ∧ firstWeekdayOrd n w ≤ 7 ∧
    wdFromMonday (daysBeforeYear (yearOfDay n) + (firstWeekdayOrd n w - 1)) = w ∧
    ∀ o, 1 ≤ o → o < firstWeekdayOrd n w → wdFromMonday (daysBeforeYear (yearOfDay n) + (o - 1)) ≠ w := by
  unfold firstWeekdayOrd wdFromMonday
  simp only
  generalize daysBeforeYear (yearOfDay n) = j
  refine ⟨by omega, by omega, by omega, ?_⟩
  intro o h1 h2; omega

/-- the definitional week number equals the closed formula used by C libraries / the `time` crate -/
theorem weekFrom_closed (n w : Int) :
    weekFrom n w = (ordinalOf n - (wdFromMonday n - w) % 7 + 6) / 7 := by
  have ⟨o1, _⟩ := ordinal_bounds n
  unfold weekFrom firstWeekdayOrd
  simp only
  have hn : n = daysBeforeYear (yearOfDay n) + (ordinalOf n - 1) := by unfold ordinalOf; omega
  generalize ordinalOf n = o at *
  generalize daysBeforeYear (yearOfDay n) = j at *
  subst hn
  unfold wdFromMonday
  split <;> omega

theorem week_bounds (n w : Int) : 0 ≤ weekFrom n w ∧ weekFrom n w ≤ 53 := by
  have ⟨o1, o2⟩ := ordinal_bounds n
  have := yearLen_bounds (yearOfDay n)
  rw [weekFrom_closed n w]
  omega

theorem isoWeek1Start_spec (y : Int) :
    wdFromMonday (isoWeek1Start y) = 0 ∧ isoWeek1Start y ≤ daysBeforeYear y + 3 ∧ daysBeforeYear y + 3 < isoWeek1Start y + 7 := by
  unfold isoWeek1Start wdFromMonday; simp only; omega

theorem iso_spec (n : Int) : isoWeek1Start (isoYear n) ≤ n ∧ n < isoWeek1Start (isoYear n + 1) := by
  have ⟨a, b⟩ := year_spec n
  have s0 := dby_succ (yearOfDay n - 1)
  have s1 := dby_succ (yearOfDay n)
  have s2 := dby_succ (yearOfDay n + 1)
  have l0 := yearLen_bounds (yearOfDay n - 1)
  have l1 := yearLen_bounds (yearOfDay n)
  have l2 := yearLen_bounds (yearOfDay n + 1)
  have e : yearOfDay n - 1 + 1 = yearOfDay n := by omega
  rw [e] at s0
  have w0 := isoWeek1Start_spec (yearOfDay n - 1)
  have w1 := isoWeek1Start_spec (yearOfDay n)
  have w2 := isoWeek1Start_spec (yearOfDay n + 1)
  have w3 := isoWeek1Start_spec (yearOfDay n + 1 + 1)
  unfold isoYear; simp only
  split
  · constructor <;> omega
  · split
    · constructor <;> omega
    · rw [e]; constructor <;> omega

theorem isoWeek1Start_mono {y z : Int} (h : y + 1 ≤ z) : isoWeek1Start y + 7 ≤ isoWeek1Start z := by
  have := dby_mono h
  have s := dby_succ y
  have l := yearLen_bounds y
  have w1 := isoWeek1Start_spec y
  have w2 := isoWeek1Start_spec z
  unfold wdFromMonday at w1 w2
  omega

theorem iso_unique (n y : Int) (h1 : isoWeek1Start y ≤ n) (h2 : n < isoWeek1Start (y + 1)) : isoYear n = y := by
  have ⟨a, b⟩ := iso_spec n
  generalize isoYear n = z at *
  by_cases h : z < y
  · by_cases h'' : z + 1 = y
    · subst h''; omega
    · have := isoWeek1Start_mono (show z + 1 + 1 ≤ y by omega); omega
  · by_cases h' : y < z
    · have := isoWeek1Start_mono (show y + 1 ≤ z by omega)
      by_cases h'' : y + 1 = z
      · subst h''; omega
      · have := isoWeek1Start_mono (show y + 1 + 1 ≤ z by omega); omega
    · omega

theorem isoWeek_bounds (n : Int) : 1 ≤ isoWeek n ∧ isoWeek n ≤ 53 := by
  have ⟨a, b⟩ := iso_spec n
  have w1 := isoWeek1Start_spec (isoYear n)
  have w2 := isoWeek1Start_spec (isoYear n + 1)
  have s := dby_succ (isoYear n)
  have l := yearLen_bounds (isoYear n)
  unfold wdFromMonday at w1 w2
  unfold isoWeek; omega


end Liquid.Cal

namespace Liquid.Strf
open Liquid Liquid.Cal

/-! ### byte slices -/

theorem utf8Len1_pos (c : Char) : 1 ≤ utf8Len1 c := by unfold utf8Len1; simp only; split <;> (try split) <;> (try split) <;> omega

theorem utf8Len_cons (c : Char) (s : Str) : utf8Len (c :: s) = utf8Len1 c + utf8Len s := by
  simp [utf8Len]

theorem utf8Len_append (a b : Str) : utf8Len (a ++ b) = utf8Len a + utf8Len b := by
  induction a with
  | nil => simp [utf8Len]
  | cons c a ih => simp [utf8Len_cons, ih]; omega

theorem sliceFrom_take (b c : Str) (pos : Nat) : sliceFrom pos (b ++ c) pos (pos + utf8Len b) = some b := by
  induction b generalizing pos with
  | nil =>
    simp [utf8Len]
    cases c <;> simp [sliceFrom]
  | cons x b ih =>
    have hx := utf8Len1_pos x
    simp only [List.cons_append, sliceFrom, utf8Len_cons]
    rw [if_neg (by omega), if_neg (by omega), if_pos trivial, if_neg (by omega)]
    have : pos + (utf8Len1 x + utf8Len b) = (pos + utf8Len1 x) + utf8Len b := by omega
    rw [this, ih]; rfl

theorem sliceFrom_skip (a r : Str) (pos e : Nat) (he : pos + utf8Len a ≤ e) (hne : a ≠ [] → pos + utf8Len a ≠ e ∨ True) :
    sliceFrom pos (a ++ r) (pos + utf8Len a) e = sliceFrom (pos + utf8Len a) r (pos + utf8Len a) e := by
  induction a generalizing pos with
  | nil => simp [utf8Len]
  | cons x a ih =>
    have hx := utf8Len1_pos x
    simp only [List.cons_append, utf8Len_cons] at *
    rw [sliceFrom]
    rw [if_neg (by omega), if_pos (by omega)]
    have : pos + (utf8Len1 x + utf8Len a) = (pos + utf8Len1 x) + utf8Len a := by omega
    rw [this]
    exact ih (pos + utf8Len1 x) (by omega) (fun _ => Or.inr trivial)

theorem byteSlice_mid (a b c : Str) :
    byteSlice (a ++ b ++ c) (utf8Len a) (utf8Len a + utf8Len b) = some b := by
  unfold byteSlice
  rw [if_pos (by omega)]
  have := sliceFrom_skip a (b ++ c) 0 (utf8Len a + utf8Len b) (by omega) (fun _ => Or.inr trivial)
  simp only [Nat.zero_add, List.append_assoc] at this ⊢
  rw [this]
  exact sliceFrom_take b c (utf8Len a)

/-! ### the index-free machine -/

structure ACtx where
  seen : List Char
  fl : Flags

inductive ASt where
  | text
  | flags (k : ACtx)
  | width (k : ACtx) (ds : List Char)
  | modif (k : ACtx) (w : Option Nat)
  | colon1 (k : ACtx) (w : Option Nat)
  | colon2 (k : ACtx) (w : Option Nat)

def ACtx.eat (k : ACtx) (c : Char) : ACtx := { k with seen := c :: k.seen }

def aDirective (d : DT) (k : ACtx) (w : Option Nat) (c : Char) : Str × ASt :=
  if c = ':' then ([], .colon1 k w)
  else match directive true d k.fl w c with
    | some out => (out, .text)
    | none => (k.seen.reverse, .text)

def aFmtChar (d : DT) (k : ACtx) (w : Option Nat) (c : Char) : Str × ASt :=
  if c = 'E' ∨ c = 'O' then ([], .modif k w) else aDirective d k w c

/-- `none` = `Err(DateFormatError)` -/
def stepA (d : DT) (st : ASt) (c : Char) : Option (Str × ASt) :=
  match st with
  | .text => if c = '%' then some ([], .flags ⟨['%'], {}⟩) else some ([c], .text)
  | .flags k =>
    if isFlagChar c then some ([], .flags ⟨c :: k.seen, k.fl.apply c⟩)
    else if c.isDigit then some ([], .width (k.eat c) [c])
    else some (aFmtChar d (k.eat c) none c)
  | .width k ds =>
    if c.isDigit then some ([], .width (k.eat c) (ds ++ [c]))
    else match parseUsize ds with
      | none => none
      | some w => some (aFmtChar d (k.eat c) (some w) c)
  | .modif k w => some (aDirective d (k.eat c) w c)
  | .colon1 k w =>
    if c = 'z' then some (fmtOffset true k.fl w d.off true false, .text)
    else if c = ':' then some ([], .colon2 (k.eat c) w)
    else some ((k.eat c).seen.reverse, .text)
  | .colon2 k w =>
    if c = 'z' then some (fmtOffset true k.fl w d.off true true, .text)
    else some ((k.eat c).seen.reverse, .text)

def atEndA : ASt → Option Str
  | .text => some []
  | .flags _ => none
  | .width _ _ => none
  | .modif _ _ => none
  | .colon1 k _ => some k.seen.reverse
  | .colon2 k _ => some k.seen.reverse

def runA (d : DT) (st : ASt) : List Char → Option Str
  | [] => atEndA st
  | c :: cs =>
    match stepA d st c with
    | some (o, st') => (runA d st' cs).map (o ++ ·)
    | none => none

def toRes : Option Str → Res Str
  | some s => .ok s
  | none => .err

/-! ### simulation -/

def Ctx.abs (k : Ctx) : ACtx := ⟨k.seen, k.fl⟩

def PSt.abs : PSt → ASt
  | .text => .text
  | .flags k => .flags k.abs
  | .width k ds => .width k.abs ds
  | .modif k w => .modif k.abs w
  | .colon1 k w => .colon1 k.abs w
  | .colon2 k w => .colon2 k.abs w

/-- `k` describes the directive text that ends exactly at the end of `pre` -/
def Good (pre : Str) (k : Ctx) : Prop :=
  ∃ pre0, pre = pre0 ++ k.seen.reverse ∧ k.p = utf8Len pre0 ∧ k.cur + 1 = utf8Len pre

def GoodSt (pre : Str) : PSt → Prop
  | .text => True
  | .flags k => Good pre k
  | .width k _ => Good pre k
  | .modif k _ => Good pre k
  | .colon1 k _ => Good pre k
  | .colon2 k _ => Good pre k

theorem echo_good {pre rest : Str} {k : Ctx} (h : Good pre k) : echo (pre ++ rest) k = .ok k.seen.reverse := by
  obtain ⟨pre0, e, hp, hc⟩ := h
  unfold echo
  have : byteSlice (pre ++ rest) k.p (k.cur + 1) = some k.seen.reverse := by
    rw [e, hp, hc, e, utf8Len_append]
    exact byteSlice_mid pre0 k.seen.reverse rest
  rw [this]

theorem good_eat {pre : Str} {k : Ctx} (h : Good pre k) (c : Char) :
    Good (pre ++ [c]) (k.eat true (utf8Len pre) c) := by
  obtain ⟨pre0, e, hp, hc⟩ := h
  refine ⟨pre0, ?_, hp, ?_⟩
  · simp [Ctx.eat, e]
  · have := utf8Len1_pos c
    simp [Ctx.eat, utf8Len]; omega

theorem eat_abs (k : Ctx) (pos : Nat) (c : Char) : (k.eat true pos c).abs = k.abs.eat c := by
  simp [Ctx.eat, Ctx.abs, ACtx.eat]


def absStep : Res (Str × PSt) → Option (Option (Str × ASt))
  | .ok (o, st) => some (some (o, st.abs))
  | .err => some none
  | _ => none

theorem Res.bind_ok' {α β} (a : α) (f : α → Res β) : (Res.ok a).bind f = f a := rfl

/-- one step of the real machine (byte-slicing echo) = one step of the index-free machine -/
theorem step_sim (d : DT) (pre : Str) (c : Char) (cs : Str) (st : PSt) (h : GoodSt pre st) :
    absStep (step true d (echo (pre ++ c :: cs)) st (utf8Len pre) c) = some (stepA d st.abs c) := by
  have hfmt : pre ++ c :: cs = (pre ++ [c]) ++ cs := by simp
  cases st with
  | text => simp only [PSt.abs, stepA, step]; split <;> simp [absStep, PSt.abs, Ctx.abs]
  | flags k =>
    have ee := echo_good (rest := cs) (good_eat h c)
    rw [← hfmt] at ee
    simp only [PSt.abs, stepA, step, aFmtChar, onFmtChar, aDirective, onDirective, ee, Res.bind_ok', ← eat_abs k (utf8Len pre) c]
    repeat' split
    all_goals simp_all [absStep, PSt.abs, Ctx.abs, Ctx.eat]
  | width k ds =>
    have ee := echo_good (rest := cs) (good_eat h c)
    rw [← hfmt] at ee
    simp only [PSt.abs, stepA, step, aFmtChar, onFmtChar, aDirective, onDirective, ee, Res.bind_ok', ← eat_abs k (utf8Len pre) c]
    repeat' split
    all_goals simp_all [absStep, PSt.abs, Ctx.abs, Ctx.eat]
  | modif k w =>
    have ee := echo_good (rest := cs) (good_eat h c)
    rw [← hfmt] at ee
    simp only [PSt.abs, stepA, step, aDirective, onDirective, ee, Res.bind_ok', ← eat_abs k (utf8Len pre) c]
    repeat' split
    all_goals simp_all [absStep, PSt.abs, Ctx.abs, Ctx.eat]
  | colon1 k w =>
    have ee := echo_good (rest := cs) (good_eat h c)
    rw [← hfmt] at ee
    simp only [PSt.abs, stepA, step, ee, Res.bind_ok', ← eat_abs k (utf8Len pre) c]
    repeat' split
    all_goals simp_all [absStep, PSt.abs, Ctx.abs, Ctx.eat]
  | colon2 k w =>
    have ee := echo_good (rest := cs) (good_eat h c)
    rw [← hfmt] at ee
    simp only [PSt.abs, stepA, step, ee, Res.bind_ok', ← eat_abs k (utf8Len pre) c]
    repeat' split
    all_goals simp_all [absStep, PSt.abs, Ctx.abs, Ctx.eat]

theorem good_fl {pre : Str} {k : Ctx} (h : Good pre k) (f : Flags) : Good pre { k with fl := f } := h

theorem step_good (d : DT) (fmt pre : Str) (c : Char) (st : PSt) (h : GoodSt pre st)
    (o : Str) (st' : PSt) (hs : step true d (echo fmt) st (utf8Len pre) c = .ok (o, st')) :
    GoodSt (pre ++ [c]) st' := by
  cases st with
  | text =>
    simp only [step] at hs
    split at hs
    · simp only [Res.ok.injEq, Prod.mk.injEq] at hs
      obtain ⟨_, rfl⟩ := hs
      refine ⟨pre, by simp_all, rfl, ?_⟩
      subst_vars
      simp [utf8Len, utf8Len1]
    · simp only [Res.ok.injEq, Prod.mk.injEq] at hs
      obtain ⟨_, rfl⟩ := hs; trivial
  | flags k =>
    have g := good_eat h c
    simp only [step, onFmtChar, onDirective] at hs
    repeat' split at hs
    all_goals first
      | (simp only [Res.ok.injEq, Prod.mk.injEq] at hs; obtain ⟨_, rfl⟩ := hs; first | exact g | trivial | exact good_fl g _)
      | (cases he : echo fmt (Ctx.eat true k (utf8Len pre) c) <;> simp [he, Res.bind] at hs; obtain ⟨_, rfl⟩ := hs; trivial)
  | width k ds =>
    have g := good_eat h c
    simp only [step, onFmtChar, onDirective] at hs
    repeat' split at hs
    all_goals first
      | (simp only [Res.ok.injEq, Prod.mk.injEq] at hs; obtain ⟨_, rfl⟩ := hs; first | exact g | trivial | exact good_fl g _)
      | (cases he : echo fmt (Ctx.eat true k (utf8Len pre) c) <;> simp [he, Res.bind] at hs; obtain ⟨_, rfl⟩ := hs; trivial)
      | (simp at hs)
  | modif k w =>
    have g := good_eat h c
    simp only [step, onDirective] at hs
    repeat' split at hs
    all_goals first
      | (simp only [Res.ok.injEq, Prod.mk.injEq] at hs; obtain ⟨_, rfl⟩ := hs; first | exact g | trivial | exact good_fl g _)
      | (cases he : echo fmt (Ctx.eat true k (utf8Len pre) c) <;> simp [he, Res.bind] at hs; obtain ⟨_, rfl⟩ := hs; trivial)
  | colon1 k w =>
    have g := good_eat h c
    simp only [step] at hs
    repeat' split at hs
    all_goals first
      | (simp only [Res.ok.injEq, Prod.mk.injEq] at hs; obtain ⟨_, rfl⟩ := hs; first | exact g | trivial | exact good_fl g _)
      | (cases he : echo fmt (Ctx.eat true k (utf8Len pre) c) <;> simp [he, Res.bind] at hs; obtain ⟨_, rfl⟩ := hs; trivial)
  | colon2 k w =>
    have g := good_eat h c
    simp only [step] at hs
    repeat' split at hs
    all_goals first
      | (simp only [Res.ok.injEq, Prod.mk.injEq] at hs; obtain ⟨_, rfl⟩ := hs; first | exact g | trivial | exact good_fl g _)
      | (cases he : echo fmt (Ctx.eat true k (utf8Len pre) c) <;> simp [he, Res.bind] at hs; obtain ⟨_, rfl⟩ := hs; trivial)


theorem toRes_map (o : Str) (r : Option Str) : toRes (r.map (o ++ ·)) = prepend o (toRes r) := by
  cases r <;> rfl

/-- the real machine never leaves the index-free one (for the repaired `cursor`) -/
theorem run_sim (d : DT) (cs pre : Str) (st : PSt) (h : GoodSt pre st) :
    run true d (echo (pre ++ cs)) st (utf8Len pre) cs = toRes (runA d st.abs cs) := by
  induction cs generalizing pre st with
  | nil =>
    cases st <;> simp only [run, atEnd, runA, atEndA, PSt.abs, toRes]
    · exact echo_good h
    · exact echo_good h
  | cons c cs ih =>
    have hs := step_sim d pre c cs st h
    have hg := step_good d (pre ++ c :: cs) pre c st h
    simp only [run, runA]
    cases hst : step true d (echo (pre ++ c :: cs)) st (utf8Len pre) c with
    | ok p =>
      obtain ⟨o, st'⟩ := p
      rw [hst] at hs
      simp only [absStep, Option.some.injEq] at hs
      rw [← hs]
      simp only [toRes_map]
      have := ih (pre ++ [c]) st' (hg o st' hst)
      have e1 : pre ++ [c] ++ cs = pre ++ c :: cs := by simp
      have e2 : utf8Len (pre ++ [c]) = utf8Len pre + utf8Len1 c := by simp [utf8Len]
      rw [e1, e2] at this
      rw [this]
    | err =>
      rw [hst] at hs
      simp only [absStep, Option.some.injEq] at hs
      rw [← hs]; rfl
    | io => rw [hst] at hs; simp [absStep] at hs
    | panic s => rw [hst] at hs; simp [absStep] at hs
    | fuel => rw [hst] at hs; simp [absStep] at hs

/-- `strftime` is the index-free machine: in particular it never panics -/
theorem strftime_eq (d : DT) (fmt : Str) : strftime d fmt = toRes (runA d .text fmt) := by
  have := run_sim d fmt [] .text trivial
  simpa [strftime, strftimeG, utf8Len, PSt.abs] using this

theorem runA_lit (d : DT) (pre : Str) (hpre : '%' ∉ pre) (cs : Str) :
    runA d .text (pre ++ cs) = (runA d .text cs).map (pre ++ ·) := by
  induction pre with
  | nil => simp
  | cons x pre ih =>
    have hx : x ≠ '%' := fun e => hpre (by simp [e])
    have hp : '%' ∉ pre := fun e => hpre (by simp [e])
    simp only [List.cons_append, runA, stepA, if_neg hx, ih hp]
    cases runA d .text cs <;> simp

theorem runA_pct (d : DT) (cs : Str) : runA d .text ('%' :: cs) = runA d (.flags ⟨['%'], {}⟩) cs := by
  simp only [runA, stepA, if_pos]
  cases runA d (.flags ⟨['%'], {}⟩) cs <;> simp

theorem runA_flags (d : DT) (fs : Str) (hfs : ∀ x ∈ fs, isFlagChar x = true) (k : ACtx) (rest : Str) :
    runA d (.flags k) (fs ++ rest) = runA d (.flags ⟨fs.reverse ++ k.seen, fs.foldl Flags.apply k.fl⟩) rest := by
  induction fs generalizing k with
  | nil => simp
  | cons x fs ih =>
    have hx : isFlagChar x = true := hfs x (by simp)
    have hr : ∀ y ∈ fs, isFlagChar y = true := fun y hy => hfs y (by simp [hy])
    simp only [List.cons_append, runA, stepA, hx, if_true]
    rw [ih hr]
    simp only [List.reverse_cons, List.append_assoc, List.singleton_append, List.foldl_cons]
    cases runA d _ rest <;> simp

theorem runA_width (d : DT) (ds : Str) (hds : ∀ x ∈ ds, x.isDigit = true) (k : ACtx) (ds0 rest : Str) :
    runA d (.width k ds0) (ds ++ rest) = runA d (.width ⟨ds.reverse ++ k.seen, k.fl⟩ (ds0 ++ ds)) rest := by
  induction ds generalizing k ds0 with
  | nil => simp
  | cons x ds ih =>
    have hx : x.isDigit = true := hds x (by simp)
    have hr : ∀ y ∈ ds, y.isDigit = true := fun y hy => hds y (by simp [hy])
    simp only [List.cons_append, runA, stepA, hx, if_true]
    rw [ih hr]
    simp only [ACtx.eat, List.reverse_cons, List.append_assoc, List.singleton_append]
    cases runA d _ rest <;> simp

theorem digit_not_flag (x : Char) (h : x.isDigit = true) (h0 : x ≠ '0') : isFlagChar x = false := by
  simp only [isFlagChar, Bool.or_eq_false_iff, beq_eq_false_iff_ne, ne_eq]
  refine ⟨⟨⟨⟨?_, ?_⟩, h0⟩, ?_⟩, ?_⟩ <;> (rintro rfl; simp [Char.isDigit] at h)

/-- what the width digits mean: no digits = no width; otherwise `parse::<usize>` (may overflow) -/
def specWidth (ds : List Char) : Option (Option Nat) :=
  if ds = [] then some none else (parseUsize ds).map some

/-- The general single-directive law: after literal text, `%`, flags, width digits and a
directive character (not `E`, `O`, `:`), the output is the literal text, the directive's rendering
under the folded flags and parsed width (or the directive text itself when it is unknown), and then
whatever the rest of the format produces. -/
theorem strftime_single (d : DT) (pre fs ds : Str) (c : Char) (post : Str)
    (hpre : '%' ∉ pre) (hfs : ∀ x ∈ fs, isFlagChar x = true) (hds : ∀ x ∈ ds, x.isDigit = true)
    (hds0 : ds.head? ≠ some '0')
    (hc1 : isFlagChar c = false) (hc2 : c.isDigit = false) (hc3 : c ≠ 'E') (hc4 : c ≠ 'O') (hc5 : c ≠ ':') :
    strftime d (pre ++ '%' :: (fs ++ ds ++ c :: post)) =
      match specWidth ds with
      | none => .err
      | some w => prepend (pre ++ (directive true d (fs.foldl Flags.apply {}) w c).getD ('%' :: (fs ++ ds ++ [c])))
                    (strftime d post) := by
  rw [strftime_eq, strftime_eq, runA_lit d pre hpre, runA_pct, List.append_assoc, runA_flags d fs hfs]
  cases ds with
  | nil =>
    simp only [specWidth, if_true, List.nil_append, runA, stepA, hc1, hc2, aFmtChar, aDirective, hc3, hc4, hc5,
      Bool.false_eq_true, if_false, or_self, ACtx.eat]
    cases hd : directive true d (List.foldl Flags.apply {} fs) none c <;>
      cases runA d .text post <;> simp [toRes, prepend]
  | cons x ds =>
    have hx : x.isDigit = true := hds x (by simp)
    have hx0 : x ≠ '0' := fun e => hds0 (by simp [e])
    have hr : ∀ y ∈ ds, y.isDigit = true := fun y hy => hds y (by simp [hy])
    have hxf := digit_not_flag x hx hx0
    simp only [List.cons_append, runA, stepA, hxf, hx, Bool.false_eq_true, if_false, if_true]
    rw [runA_width d ds hr]
    simp only [specWidth, List.nil_append, runA, stepA, hc2, Bool.false_eq_true, if_false, reduceCtorEq,
      List.singleton_append]
    cases hw : parseUsize (x :: ds) with
    | none => simp [toRes]
    | some w =>
      simp only [aFmtChar, aDirective, hc3, hc4, hc5, or_self, if_false, ACtx.eat, Option.map_some]
      cases hd : directive true d (List.foldl Flags.apply {} fs) (some w) c <;>
        cases runA d .text post <;> simp [toRes, prepend]


/-! ### decimal digits -/

theorem decVal_append (a : List Char) (c : Char) : decVal (a ++ [c]) = 10 * decVal a + (c.toNat - 48) := by
  simp [decVal, List.foldl_append]

theorem decVal_natDigits (n : Nat) : decVal (natDigits n) = n := by
  induction n using Nat.strongRecOn with
  | _ n ih =>
    unfold natDigits
    rw [Nat.toDigits_eq_if (by omega)]
    split
    · rename_i h
      simp [decVal, Nat.toNat_digitChar_sub_48_of_lt_ten h]
    · rename_i h
      rw [decVal_append]
      have := ih (n / 10) (by omega)
      unfold natDigits at this
      rw [this, Nat.toNat_digitChar_sub_48_of_lt_ten (Nat.mod_lt _ (by omega))]
      omega

theorem natDigits_isDigit (n : Nat) : ∀ c ∈ natDigits n, c.isDigit = true :=
  fun _ hc => Nat.isDigit_of_mem_toDigits (by omega) (by omega) hc

theorem natDigits_length_le (n k : Nat) (hk : 0 < k) (h : n < 10 ^ k) : (natDigits n).length ≤ k :=
  (Nat.length_toDigits_le_iff (by omega) hk).mpr h

theorem decVal_zeros (k : Nat) (s : List Char) : decVal (rep k '0' ++ s) = decVal s := by
  induction k with
  | zero => simp [rep]
  | succ k ih =>
    simp only [rep, List.replicate_succ, List.cons_append] at *
    simp only [decVal, List.foldl_cons] at *
    simpa using ih

/-- zero-padded to `k` digits: right length, digits only, right value -/
theorem padLeft_zero_spec (k n : Nat) (hk : 0 < k) (h : n < 10 ^ k) :
    (padLeft k '0' (natDigits n)).length = k ∧ (∀ c ∈ padLeft k '0' (natDigits n), c.isDigit = true) ∧
    decVal (padLeft k '0' (natDigits n)) = n := by
  have hl := natDigits_length_le n k hk h
  refine ⟨by simp [padLeft, rep]; omega, ?_, by rw [padLeft, decVal_zeros, decVal_natDigits]⟩
  intro c hc
  simp only [padLeft, rep, List.mem_append, List.mem_replicate] at hc
  rcases hc with ⟨_, rfl⟩ | hc
  · rfl
  · exact natDigits_isDigit n c hc

theorem pad9_spec (ns : Int) (h0 : 0 ≤ ns) (h : ns < 1000000000) :
    (pad9 ns).length = 9 ∧ (∀ c ∈ pad9 ns, c.isDigit = true) ∧ (decVal (pad9 ns) : Int) = ns := by
  have := padLeft_zero_spec 9 ns.natAbs (by omega) (by omega)
  refine ⟨this.1, this.2.1, ?_⟩
  unfold pad9; rw [this.2.2]; omega

/-- `%L`/`%N` (repaired): the first `k` characters of the nine nanosecond digits followed by zeros -/
theorem fmtFraction_spec (w : Option Nat) (isL : Bool) (ns : Int) (h0 : 0 ≤ ns) (h : ns < 1000000000) :
    fmtFraction true w isL ns =
      (pad9 ns ++ rep (w.getD (if isL then 3 else 9) - 9) '0').take (w.getD (if isL then 3 else 9)) := by
  have hl := (pad9_spec ns h0 h).1
  unfold fmtFraction
  simp only [if_true]
  generalize w.getD (if isL then 3 else 9) = k
  split
  · rw [List.take_append_of_le_length (by omega)]
  · unfold padRight
    rw [hl, List.take_of_length_le (by simp [rep, hl]; omega)]

/-- non-negative numeric field: right-aligned in the width with the fill character, or bare with `-` -/
theorem fmtNumeric_nonneg (fl : Flags) (w : Option Nat) (v : Int) (dw : Nat) (hv : 0 ≤ v) :
    fmtNumeric fl w v dw =
      if fl.usePad then padLeft (w.getD dw) (padCharNum fl.pad) (natDigits v.toNat) else natDigits v.toNat := by
  have e : v.natAbs = v.toNat := by omega
  have hn : ¬ v < 0 := by omega
  unfold fmtNumeric padLeft
  simp [hn, e]

/-- negative numeric field (years before 0, instants before 1970): with zero fill the sign comes
first and counts towards the width; with blank fill it sits next to the digits -/
theorem fmtNumeric_neg (fl : Flags) (w : Option Nat) (v : Int) (dw : Nat) (hv : v < 0) :
    fmtNumeric fl w v dw =
      if fl.usePad then
        (if fl.pad = .space then rep (w.getD (dw + 1) - ((natDigits v.natAbs).length + 1)) ' ' ++ '-' :: natDigits v.natAbs
         else '-' :: (rep (w.getD (dw + 1) - ((natDigits v.natAbs).length + 1)) '0' ++ natDigits v.natAbs))
      else '-' :: natDigits v.natAbs := by
  unfold fmtNumeric
  cases fl.pad <;> simp [hv, padCharNum]


/-! ### flags, directive tables, malformed shapes -/

theorem flags_usePad (fs : Str) (fl : Flags) :
    (fs.foldl Flags.apply fl).usePad = (fl.usePad && !fs.contains '-') := by
  induction fs generalizing fl with
  | nil => simp
  | cons x fs ih =>
    rw [List.foldl_cons, ih]
    by_cases h : x = '-'
    · subst h; simp [Flags.apply]
    · have : (x == '-') = false := by simpa using h
      simp only [Flags.apply, if_neg h, List.contains_cons]
      have h' : ('-' == x) = false := by simpa using fun e => h e.symm
      rw [h']
      split <;> (try split) <;> (try split) <;> (try split) <;> simp

/-- the characters `directive` knows -/
def knownDirective (c : Char) : Bool :=
  (['Y', 'C', 'y', 'm', 'd', 'e', 'w', 'u', 'U', 'W', 'G', 'g', 'V', 'j', 'H', 'k', 'I', 'l', 'M', 'S', 's', 'b', 'h', 'B', 'a', 'A', 'p', 'P', 'F', 'v', 'R', 'D', 'x', 'T', 'X', 'r', 'c', 'n', 't', 'L', 'N', 'z', 'Z', '%'] : List Char).contains c

theorem directive_unknown (fixed : Bool) (d : DT) (fl : Flags) (w : Option Nat) (c : Char)
    (h : knownDirective c = false) : directive fixed d fl w c = none := by
  simp only [knownDirective, List.contains_eq_mem, List.mem_cons, List.not_mem_nil, or_false,
    decide_eq_false_iff_not, not_or] at h
  simp only [directive]
  obtain ⟨h1, h2, h3, h4, h5, h6, h7, h8, h9, h10, h11, h12, h13, h14, h15, h16, h17, h18, h19, h20,
    h21, h22, h23, h24, h25, h26, h27, h28, h29, h30, h31, h32, h33, h34, h35, h36, h37, h38, h39, h40, h41, h42, h43, h44⟩ := h
  simp [*]


/-- field, default width, and whether blanks are the default fill, of each numeric directive -/
def numericField (d : DT) (c : Char) : Option (Int × Nat × Bool) :=
  let n := localDay d
  if c = 'Y' then some (yearOf n, 4, false)
  else if c = 'C' then some ((yearOf n).tdiv 100, 2, false)
  else if c = 'y' then some ((yearOf n).tmod 100, 2, false)
  else if c = 'm' then some (monthOf n, 2, false)
  else if c = 'd' then some (dayOf n, 2, false)
  else if c = 'e' then some (dayOf n, 2, true)
  else if c = 'w' then some (wdFromSunday n, 0, false)
  else if c = 'u' then some (wdIso n, 0, false)
  else if c = 'U' then some (sundayWeek n, 2, false)
  else if c = 'W' then some (mondayWeek n, 2, false)
  else if c = 'G' then some (isoYear n, 4, false)
  else if c = 'g' then some ((isoYear n).tmod 100, 2, false)
  else if c = 'V' then some (isoWeek n, 2, false)
  else if c = 'j' then some (ordinalOf n, 3, false)
  else if c = 'H' then some (hour d, 2, false)
  else if c = 'k' then some (hour d, 2, true)
  else if c = 'I' then some (hour12 (hour d), 2, false)
  else if c = 'l' then some (hour12 (hour d), 2, true)
  else if c = 'M' then some (minute d, 2, false)
  else if c = 'S' then some (second d, 2, false)
  else if c = 's' then some (unixSeconds d, 0, false)
  else none

theorem directive_numeric (fixed : Bool) (d : DT) (fl : Flags) (w : Option Nat) (c : Char) (v : Int) (dw : Nat) (b : Bool)
    (h : numericField d c = some (v, dw, b)) :
    directive fixed d fl w c = some (fmtNumeric (if b then fl.spaceDefault else fl) w v dw) := by
  unfold numericField at h
  by_cases h0 : c = 'Y'
  · subst h0; simp at h; obtain ⟨rfl, rfl, rfl⟩ := h; simp [directive]
  rw [if_neg h0] at h
  by_cases h1 : c = 'C'
  · subst h1; simp at h; obtain ⟨rfl, rfl, rfl⟩ := h; simp [directive]
  rw [if_neg h1] at h
  by_cases h2 : c = 'y'
  · subst h2; simp at h; obtain ⟨rfl, rfl, rfl⟩ := h; simp [directive]
  rw [if_neg h2] at h
  by_cases h3 : c = 'm'
  · subst h3; simp at h; obtain ⟨rfl, rfl, rfl⟩ := h; simp [directive]
  rw [if_neg h3] at h
  by_cases h4 : c = 'd'
  · subst h4; simp at h; obtain ⟨rfl, rfl, rfl⟩ := h; simp [directive]
  rw [if_neg h4] at h
  by_cases h5 : c = 'e'
  · subst h5; simp at h; obtain ⟨rfl, rfl, rfl⟩ := h; simp [directive]
  rw [if_neg h5] at h
  by_cases h6 : c = 'w'
  · subst h6; simp at h; obtain ⟨rfl, rfl, rfl⟩ := h; simp [directive]
  rw [if_neg h6] at h
  by_cases h7 : c = 'u'
  · subst h7; simp at h; obtain ⟨rfl, rfl, rfl⟩ := h; simp [directive]
  rw [if_neg h7] at h
  by_cases h8 : c = 'U'
  · subst h8; simp at h; obtain ⟨rfl, rfl, rfl⟩ := h; simp [directive]
  rw [if_neg h8] at h
  by_cases h9 : c = 'W'
  · subst h9; simp at h; obtain ⟨rfl, rfl, rfl⟩ := h; simp [directive]
  rw [if_neg h9] at h
  by_cases h10 : c = 'G'
  · subst h10; simp at h; obtain ⟨rfl, rfl, rfl⟩ := h; simp [directive]
  rw [if_neg h10] at h
  by_cases h11 : c = 'g'
  · subst h11; simp at h; obtain ⟨rfl, rfl, rfl⟩ := h; simp [directive]
  rw [if_neg h11] at h
  by_cases h12 : c = 'V'
  · subst h12; simp at h; obtain ⟨rfl, rfl, rfl⟩ := h; simp [directive]
  rw [if_neg h12] at h
  by_cases h13 : c = 'j'
  · subst h13; simp at h; obtain ⟨rfl, rfl, rfl⟩ := h; simp [directive]
  rw [if_neg h13] at h
  by_cases h14 : c = 'H'
  · subst h14; simp at h; obtain ⟨rfl, rfl, rfl⟩ := h; simp [directive]
  rw [if_neg h14] at h
  by_cases h15 : c = 'k'
  · subst h15; simp at h; obtain ⟨rfl, rfl, rfl⟩ := h; simp [directive]
  rw [if_neg h15] at h
  by_cases h16 : c = 'I'
  · subst h16; simp at h; obtain ⟨rfl, rfl, rfl⟩ := h; simp [directive]
  rw [if_neg h16] at h
  by_cases h17 : c = 'l'
  · subst h17; simp at h; obtain ⟨rfl, rfl, rfl⟩ := h; simp [directive]
  rw [if_neg h17] at h
  by_cases h18 : c = 'M'
  · subst h18; simp at h; obtain ⟨rfl, rfl, rfl⟩ := h; simp [directive]
  rw [if_neg h18] at h
  by_cases h19 : c = 'S'
  · subst h19; simp at h; obtain ⟨rfl, rfl, rfl⟩ := h; simp [directive]
  rw [if_neg h19] at h
  by_cases h20 : c = 's'
  · subst h20; simp at h; obtain ⟨rfl, rfl, rfl⟩ := h; simp [directive]
  rw [if_neg h20] at h
  simp at h

theorem numericField_char (d : DT) (c : Char) (x : Int × Nat × Bool) (h : numericField d c = some x) :
    isFlagChar c = false ∧ c.isDigit = false ∧ c ≠ 'E' ∧ c ≠ 'O' ∧ c ≠ ':' := by
  unfold numericField at h
  by_cases h0 : c = 'Y'
  · subst h0; decide
  rw [if_neg h0] at h
  by_cases h1 : c = 'C'
  · subst h1; decide
  rw [if_neg h1] at h
  by_cases h2 : c = 'y'
  · subst h2; decide
  rw [if_neg h2] at h
  by_cases h3 : c = 'm'
  · subst h3; decide
  rw [if_neg h3] at h
  by_cases h4 : c = 'd'
  · subst h4; decide
  rw [if_neg h4] at h
  by_cases h5 : c = 'e'
  · subst h5; decide
  rw [if_neg h5] at h
  by_cases h6 : c = 'w'
  · subst h6; decide
  rw [if_neg h6] at h
  by_cases h7 : c = 'u'
  · subst h7; decide
  rw [if_neg h7] at h
  by_cases h8 : c = 'U'
  · subst h8; decide
  rw [if_neg h8] at h
  by_cases h9 : c = 'W'
  · subst h9; decide
  rw [if_neg h9] at h
  by_cases h10 : c = 'G'
  · subst h10; decide
  rw [if_neg h10] at h
  by_cases h11 : c = 'g'
  · subst h11; decide
  rw [if_neg h11] at h
  by_cases h12 : c = 'V'
  · subst h12; decide
  rw [if_neg h12] at h
  by_cases h13 : c = 'j'
  · subst h13; decide
  rw [if_neg h13] at h
  by_cases h14 : c = 'H'
  · subst h14; decide
  rw [if_neg h14] at h
  by_cases h15 : c = 'k'
  · subst h15; decide
  rw [if_neg h15] at h
  by_cases h16 : c = 'I'
  · subst h16; decide
  rw [if_neg h16] at h
  by_cases h17 : c = 'l'
  · subst h17; decide
  rw [if_neg h17] at h
  by_cases h18 : c = 'M'
  · subst h18; decide
  rw [if_neg h18] at h
  by_cases h19 : c = 'S'
  · subst h19; decide
  rw [if_neg h19] at h
  by_cases h20 : c = 's'
  · subst h20; decide
  rw [if_neg h20] at h
  simp at h

theorem runA_flags_end (d : DT) (k : ACtx) : runA d (.flags k) [] = none := rfl
theorem runA_width_end (d : DT) (k : ACtx) (ds : Str) : runA d (.width k ds) [] = none := rfl

/-- a `%` followed only by flags and width digits is an error (`NoFormatSpecifier`) -/
theorem strftime_dangling (d : DT) (pre fs ds : Str)
    (hpre : '%' ∉ pre) (hfs : ∀ x ∈ fs, isFlagChar x = true) (hds : ∀ x ∈ ds, x.isDigit = true)
    (hds0 : ds.head? ≠ some '0') :
    strftime d (pre ++ '%' :: (fs ++ ds)) = .err := by
  rw [strftime_eq, runA_lit d pre hpre, runA_pct, runA_flags d fs hfs]
  cases ds with
  | nil => simp [runA, atEndA, toRes]
  | cons x ds =>
    have hx : x.isDigit = true := hds x (by simp)
    have hx0 : x ≠ '0' := fun e => hds0 (by simp [e])
    have hr : ∀ y ∈ ds, y.isDigit = true := fun y hy => hds y (by simp [hy])
    have hxf := digit_not_flag x hx hx0
    simp only [runA, stepA, hxf, hx, Bool.false_eq_true, if_false, if_true]
    have := runA_width d ds hr ⟨x :: (fs.reverse ++ ['%']), fs.foldl Flags.apply {}⟩ [x] []
    simp only [List.append_nil] at this
    simp only [ACtx.eat]
    rw [this]
    simp [runA, atEndA, toRes]

/-- … and so is one that stops after an `E` / `O` modifier (`NoFormatSpecifierAfterModifier`) -/
theorem strftime_dangling_modifier (d : DT) (pre fs ds : Str) (m : Char)
    (hpre : '%' ∉ pre) (hfs : ∀ x ∈ fs, isFlagChar x = true) (hds : ∀ x ∈ ds, x.isDigit = true)
    (hds0 : ds.head? ≠ some '0') (hm : m = 'E' ∨ m = 'O') :
    strftime d (pre ++ '%' :: (fs ++ ds ++ [m])) = .err := by
  have hm1 : isFlagChar m = false := by rcases hm with rfl | rfl <;> decide
  have hm2 : m.isDigit = false := by rcases hm with rfl | rfl <;> decide
  rw [strftime_eq, runA_lit d pre hpre, runA_pct, List.append_assoc, runA_flags d fs hfs]
  cases ds with
  | nil => simp [runA, stepA, hm1, hm2, aFmtChar, hm, atEndA, toRes]
  | cons x ds =>
    have hx : x.isDigit = true := hds x (by simp)
    have hx0 : x ≠ '0' := fun e => hds0 (by simp [e])
    have hr : ∀ y ∈ ds, y.isDigit = true := fun y hy => hds y (by simp [hy])
    have hxf := digit_not_flag x hx hx0
    simp only [List.cons_append, runA, stepA, hxf, hx, Bool.false_eq_true, if_false, if_true]
    rw [runA_width d ds hr]
    simp only [runA, stepA, hm2, Bool.false_eq_true, if_false, List.nil_append]
    cases hp : parseUsize (x :: ds) <;> simp [hp, aFmtChar, hm, atEndA, toRes]


end Liquid.Strf

namespace Liquid.DateFmt
open Liquid Liquid.Cal Liquid.Strf

/-! ### parsing what was printed -/

def foldDigits (acc : Nat) (ds : List Char) : Nat := ds.foldl (fun a c => 10 * a + (c.toNat - 48)) acc

theorem foldDigits_eq (acc : Nat) (ds : List Char) : foldDigits acc ds = acc * 10 ^ ds.length + decVal ds := by
  induction ds generalizing acc with
  | nil => simp [foldDigits, decVal]
  | cons c ds ih =>
    have h1 := ih (10 * acc + (c.toNat - 48))
    have h2 := ih (10 * 0 + (c.toNat - 48))
    simp only [foldDigits, decVal, List.foldl_cons, List.length_cons] at *
    rw [h1, h2, Nat.pow_succ]
    simp only [Nat.mul_zero, Nat.zero_add, Nat.add_mul]
    have e : acc * (10 ^ ds.length * 10) = 10 * (acc * 10 ^ ds.length) := by
      rw [← Nat.mul_assoc, Nat.mul_comm]
    have e' : 10 * acc * 10 ^ ds.length = 10 * (acc * 10 ^ ds.length) := Nat.mul_assoc _ _ _
    rw [e, e']
    omega

theorem digitsN_all (ds : List Char) (hds : ∀ c ∈ ds, c.isDigit = true) (acc : Nat) (rest : Str) :
    digitsN ds.length acc (ds ++ rest) = some (foldDigits acc ds, rest) := by
  induction ds generalizing acc with
  | nil => simp [digitsN, foldDigits]
  | cons c ds ih =>
    have hc : c.isDigit = true := hds c (by simp)
    have hr : ∀ x ∈ ds, x.isDigit = true := fun x hx => hds x (by simp [hx])
    simp only [List.length_cons, List.cons_append, digitsN, hc, if_true, digitVal]
    rw [ih hr]; rfl

/-- `k` zero-padded digits parse back to the number -/
theorem digitsN_pad (k n : Nat) (hk : 0 < k) (h : n < 10 ^ k) (rest : Str) :
    digitsN k 0 (padLeft k '0' (natDigits n) ++ rest) = some (n, rest) := by
  obtain ⟨hl, hd, hv⟩ := padLeft_zero_spec k n hk h
  have := digitsN_all _ hd 0 rest
  rw [hl] at this
  rw [this, foldDigits_eq, hv]; simp

theorem p2_pad2 (v : Int) (h0 : 0 ≤ v) (h : v < 100) (rest : Str) : p2 (pad2 v ++ rest) = some (v, rest) := by
  unfold p2 pad2
  rw [digitsN_pad 2 v.natAbs (by omega) (by omega)]
  simp; omega

theorem optSign_digit (c : Char) (hc : c.isDigit = true) (r : Str) : optSign (c :: r) = some (none, c :: r) := by
  unfold optSign
  split
  · rename_i h; cases h; simp [Char.isDigit] at hc
  · rename_i h; cases h; simp [Char.isDigit] at hc
  · rfl

theorem pYear_fmtYear (y : Int) (h1 : -9999 ≤ y) (h2 : y ≤ 9999) (rest : Str) :
    pYear (fmtYear y ++ rest) = some (y, rest) := by
  obtain ⟨hl, hd, hv⟩ := padLeft_zero_spec 4 y.natAbs (by omega) (by omega)
  have hp := digitsN_pad 4 y.natAbs (by omega) (by omega) rest
  unfold fmtYear pYear
  by_cases hy : y < 0
  · simp only [hy, if_true, List.singleton_append, List.cons_append]
    simp only [optSign]
    have e : -(y.natAbs : Int) = y := by omega
    simp [hp, e]
  · simp only [hy, if_false, List.nil_append]
    generalize hq : padLeft 4 '0' (natDigits y.natAbs) = q at *
    match q, hl with
    | c :: q', _ =>
      have hc : c.isDigit = true := hd c (by simp)
      rw [List.cons_append] at hp
      rw [List.cons_append, optSign_digit c hc]
      have e : (y.natAbs : Int) = y := by omega
      simp [hp, e]


theorem lit_single (c : Char) (r : Str) : lit [c] (c :: r) = some ((), r) := by
  simp [lit, List.isPrefixOf]

theorem lit_single_ne (c x : Char) (r : Str) (h : x ≠ c) : lit [c] (x :: r) = none := by
  have : (c == x) = false := by simpa using fun e => h e.symm
  simp [lit, List.isPrefixOf, this]

/-- place-value reading with weights `m, m/10, …` -/
def wval (m : Int) : List Char → Int
  | [] => 0
  | c :: s => digitVal c * m + wval (m / 10) s

theorem wval_zeros (m : Int) (j : Nat) : wval m (rep j '0') = 0 := by
  induction j generalizing m with
  | zero => rfl
  | succ j ih => simp [rep, List.replicate_succ, wval, digitVal] at *; exact ih _

theorem wval_append_zeros (m : Int) (s : List Char) (j : Nat) : wval m (s ++ rep j '0') = wval m s := by
  induction s generalizing m with
  | nil => simpa [wval] using wval_zeros m j
  | cons c s ih => simp [wval, ih]

theorem decVal_cons (c : Char) (s : List Char) : decVal (c :: s) = (c.toNat - 48) * 10 ^ s.length + decVal s := by
  have := foldDigits_eq (10 * 0 + (c.toNat - 48)) s
  simp only [foldDigits, Nat.mul_zero, Nat.zero_add] at this
  simp only [decVal, List.foldl_cons, Nat.mul_zero, Nat.zero_add]
  exact this

theorem wval_decVal (s : List Char) : wval (10 ^ (s.length - 1) : Nat) s = decVal s := by
  induction s with
  | nil => simp [wval, decVal]
  | cons c s ih =>
    rw [decVal_cons]
    simp only [wval, List.length_cons, Nat.add_sub_cancel, digitVal]
    cases s with
    | nil => simp [wval, decVal]
    | cons x s =>
      have e : ((10 ^ (x :: s).length : Nat) : Int) / 10 = ((10 ^ ((x :: s).length - 1) : Nat) : Int) := by
        simp only [List.length_cons, Nat.add_sub_cancel, Nat.pow_succ]
        omega
      rw [e, ih]
      simp

theorem subsecGo_digits (ds : List Char) (hds : ∀ c ∈ ds, c.isDigit = true) (x : Char) (hx : x.isDigit = false)
    (rest : Str) (f : Nat) (hf : ds.length + 1 ≤ f) (v m : Int) :
    subsecGo f v m (ds ++ x :: rest) = (v + wval m ds, x :: rest) := by
  induction ds generalizing f v m with
  | nil =>
    match f, hf with
    | f + 1, _ => simp [subsecGo, hx, wval]
  | cons c ds ih =>
    have hc : c.isDigit = true := hds c (by simp)
    have hr : ∀ y ∈ ds, y.isDigit = true := fun y hy => hds y (by simp [hy])
    match f, hf with
    | f + 1, hf =>
      simp only [List.cons_append, subsecGo, hc, if_true]
      rw [ih hr f (by simp at hf; omega)]
      simp [wval]; omega

theorem strip_decomp (s : List Char) : ∃ j, s = stripTrailingZeros s ++ rep j '0' := by
  unfold stripTrailingZeros
  have h := List.takeWhile_append_dropWhile (p := (· == '0')) (l := s.reverse)
  refine ⟨(s.reverse.takeWhile (· == '0')).length, ?_⟩
  have hz : (s.reverse.takeWhile (· == '0')).reverse = rep (s.reverse.takeWhile (· == '0')).length '0' := by
    rw [rep, List.eq_replicate_iff]
    refine ⟨by simp, ?_⟩
    intro b hb
    have hall := List.all_takeWhile (l := s.reverse) (p := (· == '0'))
    rw [List.all_eq_true] at hall
    simpa using hall b (List.mem_reverse.mp hb)
  rw [← hz, ← List.reverse_append, h, List.reverse_reverse]

theorem pSubsec_fmtSubsec (ns : Int) (h0 : 0 < ns) (h : ns < 1000000000) (rest : Str) :
    pSubsec (fmtSubsec ns ++ ' ' :: rest) = some (ns, ' ' :: rest) := by
  obtain ⟨hl, hd, hv⟩ := pad9_spec ns (by omega) h
  obtain ⟨j, hj⟩ := strip_decomp (pad9 ns)
  unfold fmtSubsec
  generalize hS : stripTrailingZeros (pad9 ns) = S at *
  have hSd : ∀ c ∈ S, c.isDigit = true := fun c hc => hd c (by rw [hj]; simp [hc])
  have hw : wval 100000000 S = ns := by
    have := wval_decVal (pad9 ns)
    rw [hl] at this
    have e : ((10 ^ (9 - 1) : Nat) : Int) = 100000000 := by decide
    rw [e, hj, wval_append_zeros, ← hj, hv] at this
    exact this
  cases S with
  | nil => simp [wval] at hw; omega
  | cons c S =>
    have hc : c.isDigit = true := hSd c (by simp)
    have hr : ∀ y ∈ S, y.isDigit = true := fun y hy => hSd y (by simp [hy])
    simp only [List.cons_append, pSubsec, hc, if_true]
    rw [subsecGo_digits S hr ' ' (by decide) rest _ (by simp)]
    simp only [wval] at hw
    have e : (100000000 : Int) / 10 = 10000000 := by decide
    rw [e] at hw
    rw [hw]


theorem digit_toNat (c : Char) (h : c.isDigit = true) : 48 ≤ c.toNat ∧ c.toNat ≤ 57 := by
  simp only [Char.isDigit, Bool.and_eq_true, decide_eq_true_eq] at h
  exact ⟨h.1, h.2⟩

theorem clock_bounds (d : DT) :
    0 ≤ hour d ∧ hour d ≤ 23 ∧ 0 ≤ minute d ∧ minute d ≤ 59 ∧ 0 ≤ second d ∧ second d ≤ 59 ∧
    0 ≤ nanos d ∧ nanos d < 1000000000 ∧
    localDay d * nsPerDay + ((hour d * 3600 + minute d * 60 + second d) * nsPerSec + nanos d) = d.loc := by
  unfold hour minute second nanos nsOfDay localDay nsPerDay nsPerSec
  omega

theorem pad2_abs (v : Int) : pad2 v = pad2 (v.natAbs : Int) := by simp [pad2]

theorem pad2_two (v : Int) (h : v.natAbs < 100) : ∃ a b, pad2 v = [a, b] ∧ a.isDigit = true ∧ b.isDigit = true := by
  obtain ⟨hl, hd, _⟩ := padLeft_zero_spec 2 v.natAbs (by omega) (by omega)
  unfold pad2
  match hq : padLeft 2 '0' (natDigits v.natAbs), hl with
  | [a, b], _ => exact ⟨a, b, rfl, hd a (by simp [hq]), hd b (by simp [hq])⟩

theorem pad2_head_lt20 : ∀ v : Nat, v < 20 →
    (padLeft 2 '0' (natDigits v)).head? = some '0' ∨ (padLeft 2 '0' (natDigits v)).head? = some '1' := by
  decide

/-- hours / minutes of a whole-minute offset below 20 h -/
theorem offset_parts (off : Int) (hm : off % 60 = 0) (hlo : -72000 < off) (hhi : off < 72000) :
    (offHours off).natAbs < 20 ∧ (offMinutes off).natAbs < 60 ∧
    (if off < 0 then -(((offHours off).natAbs : Int) * 3600 + ((offMinutes off).natAbs : Int) * 60)
     else ((offHours off).natAbs : Int) * 3600 + ((offMinutes off).natAbs : Int) * 60) = off := by
  unfold offHours offMinutes
  by_cases hn : off < 0
  · obtain ⟨k, rfl⟩ : ∃ k : Int, off = -k := ⟨-off, by omega⟩
    rw [Int.neg_tdiv, Int.neg_tdiv, Int.neg_tmod, Int.tdiv_eq_ediv_of_nonneg (by omega),
      Int.tdiv_eq_ediv_of_nonneg (by omega), Int.tmod_eq_emod_of_nonneg (by omega)]
    simp only [hn, if_true, Int.natAbs_neg]
    omega
  · rw [Int.tdiv_eq_ediv_of_nonneg (by omega), Int.tdiv_eq_ediv_of_nonneg (by omega),
      Int.tmod_eq_emod_of_nonneg (by omega)]
    simp only [hn, if_false]
    omega

theorem pOffset_fmt (pr : Parsed) (off : Int) (hm : off % 60 = 0) (hlo : -72000 < off) (hhi : off < 72000) :
    pOffset pr (fmtOffsetHM off) =
      some ({ pr with offNeg := decide (off < 0), offHour := (offHours off).natAbs, offMin := (offMinutes off).natAbs }, []) := by
  obtain ⟨h1, h2, _⟩ := offset_parts off hm hlo hhi
  have e1 := p2_pad2 ((offHours off).natAbs : Int) (by omega) (by omega)
  have e2 := p2_pad2 ((offMinutes off).natAbs : Int) (by omega) (by omega) []
  rw [← pad2_abs] at e1 e2
  rw [List.append_nil] at e2
  unfold fmtOffsetHM pOffset
  by_cases hn : off < 0
  · simp [hn, optSign, e1, e2]
  · simp [hn, optSign, e1, e2]

theorem hasOffsetSuffix_fmt (A : Str) (off : Int) (hm : off % 60 = 0) (hlo : -72000 < off) (hhi : off < 72000) :
    hasOffsetSuffix (A ++ fmtOffsetHM off) = true := by
  obtain ⟨h1, h2, _⟩ := offset_parts off hm hlo hhi
  obtain ⟨a, b, hab, ha, hb⟩ := pad2_two (offHours off) (by omega)
  obtain ⟨c, e, hce, hc, he⟩ := pad2_two (offMinutes off) (by omega)
  have hhead := pad2_head_lt20 (offHours off).natAbs h1
  have hfm : fmtOffsetHM off = [if off < 0 then '-' else '+', a, b, c, e] := by
    simp [fmtOffsetHM, hab, hce]
  unfold pad2 at hab
  rw [hab] at hhead
  simp only [List.head?_cons, Option.some.injEq] at hhead
  unfold hasOffsetSuffix
  rw [hfm, List.drop_left' (by simp)]
  simp only [hb, hc, he, Bool.and_true]
  rcases hhead with rfl | rfl <;> split <;> simp


/-- the printed text starts with a digit or `-` -/
def startsDateLike (s : Str) : Prop := ∃ x r, s = x :: r ∧ (x.isDigit = true ∨ x = '-')

theorem not_ws_of_datelike (x : Char) (h : x.isDigit = true ∨ x = '-') : isUniWs x = false := by
  rcases h with h | rfl
  · have := digit_toNat x h
    simp only [isUniWs, Bool.or_eq_false_iff, Bool.and_eq_false_iff, decide_eq_false_iff_not, beq_eq_false_iff_ne]
    refine ⟨⟨⟨⟨⟨⟨⟨⟨⟨⟨?_, ?_⟩, ?_⟩, ?_⟩, ?_⟩, ?_⟩, ?_⟩, ?_⟩, ?_⟩, ?_⟩, ?_⟩ <;> omega
  · decide

theorem dropWhile_snoc_neg {α} (p : α → Bool) (l : List α) (x : α) (hx : p x = false) :
    (l ++ [x]).dropWhile p = l.dropWhile p ++ [x] := by
  induction l with
  | nil => simp [hx]
  | cons a l ih =>
    simp only [List.cons_append, List.dropWhile_cons]
    split <;> simp_all

theorem trimWs_head (x : Char) (r : Str) (hx : isUniWs x = false) : ∃ r', trimWs (x :: r) = x :: r' := by
  unfold trimWs
  simp only [List.dropWhile_cons, hx, Bool.false_eq_true, if_false, List.reverse_cons]
  rw [dropWhile_snoc_neg _ _ _ hx]
  exact ⟨(List.dropWhile isUniWs r.reverse).reverse, by simp⟩

theorem lower_datelike (x : Char) (h : x.isDigit = true ∨ x = '-') : lowerChar x = x := by
  rcases h with h | rfl
  · have := digit_toNat x h
    unfold lowerChar
    rw [if_neg]
    rintro ⟨h1, _⟩
    have : 65 ≤ x.toNat := h1
    omega
  · decide

theorem not_now (s : Str) (h : startsDateLike s) :
    ¬ (trimWs (s.map lowerChar) = "now".toList ∨ trimWs (s.map lowerChar) = "today".toList) := by
  obtain ⟨x, r, rfl, hx⟩ := h
  simp only [List.map_cons, lower_datelike x hx]
  obtain ⟨r', hr⟩ := trimWs_head x (r.map lowerChar) (not_ws_of_datelike x hx)
  rw [hr]
  rintro (h | h) <;> (injection h with h1 _; subst h1; rcases hx with hx | hx <;> revert hx <;> decide)

theorem isI64_false (a : Str) (T : Str) (ha : ∀ c ∈ a, c.isDigit = true) (hne : a ≠ []) :
    isI64 (a ++ '-' :: T) = false ∧ isI64 ('-' :: (a ++ '-' :: T)) = false := by
  have hall : (a ++ '-' :: T).all Char.isDigit = false := by
    rw [Bool.eq_false_iff]
    intro h
    rw [List.all_eq_true] at h
    have := h '-' (by simp)
    simp at this
  constructor
  · cases a with
    | nil => exact absurd rfl hne
    | cons x a =>
      have hx := ha x (by simp)
      rw [List.cons_append] at hall ⊢
      unfold isI64
      rw [optSign_digit x hx]
      simp only [hall, Bool.and_false, Bool.false_and]
  · unfold isI64
    simp only [optSign, hall, Bool.and_false, Bool.false_and]


theorem default_roundtrip (d : DT) (hy1 : -9999 ≤ year d) (hy2 : year d ≤ 9999)
    (hm : d.off % 60 = 0) (hlo : -72000 < d.off) (hhi : d.off < 72000) :
    ∃ e, parseDT (displayDT d) = .some e ∧ e.loc = d.loc ∧ e.off = d.off := by
  obtain ⟨⟨v1, v2, v3, v4⟩, hday⟩ := civil_valid (localDay d)
  obtain ⟨c1, c2, c3, c4, c5, c6, c7, c8, hloc⟩ := clock_bounds d
  obtain ⟨o1, o2, hoff⟩ := offset_parts d.off hm hlo hhi
  have hml := monthLen_pos (yearOf (localDay d)) (monthOf (localDay d))
  unfold year at hy1 hy2
  -- field parsers on what was printed
  have hY := pYear_fmtYear (yearOf (localDay d)) hy1 hy2
  have hMo := p2_pad2 (monthOf (localDay d)) (by omega) (by omega)
  have hD := p2_pad2 (dayOf (localDay d)) (by omega) (by omega)
  have hH := p2_pad2 (hour d) c1 (by omega)
  have hMi := p2_pad2 (minute d) c3 (by omega)
  have hS := p2_pad2 (second d) c5 (by omega)
  have hO := fun pr => pOffset_fmt pr d.off hm hlo hhi
  -- the date / time blocks
  have kYMD : ∀ rest, pYMD {} (fmtDate (localDay d) ++ rest) =
      some ({ year := yearOf (localDay d), month := monthOf (localDay d), day := dayOf (localDay d) }, rest) := by
    intro rest
    simp only [fmtDate, pYMD, bindP, List.append_assoc, List.singleton_append, List.cons_append, List.nil_append, hY, lit_single, hMo, hD]
  have kHMS : ∀ pr rest, pHMS pr (pad2 (hour d) ++ ':' :: (pad2 (minute d) ++ ':' :: (pad2 (second d) ++ rest))) =
      some ({ pr with hour := Cal.hour d, minute := Cal.minute d, second := Cal.second d }, rest) := by
    intro pr rest
    simp only [pHMS, hH, lit_single, hMi, hS]
  -- the build step
  have kBuild : ∀ nano, nano = nanos d →
      (Parsed.build ⟨yearOf (localDay d), monthOf (localDay d), dayOf (localDay d), hour d, minute d, second d, nano,
        decide (d.off < 0), (offHours d.off).natAbs, (offMinutes d.off).natAbs⟩) =
      some (mkDT (yearOf (localDay d)) (monthOf (localDay d)) (dayOf (localDay d)) (hour d) (minute d) (second d) (nanos d) d.off) := by
    intro nano hn
    subst hn
    unfold Parsed.build
    rw [if_pos (by dsimp only; refine ⟨v1, v2, v3, v4, ?_, ?_, ?_, ?_, ?_⟩ <;> omega)]
    by_cases hneg : d.off < 0
    · simp only [hneg, decide_true, if_true] at hoff ⊢
      rw [hoff]
    · simp only [hneg, decide_false, if_false, Bool.false_eq_true] at hoff ⊢
      rw [hoff]
  have hres : (mkDT (yearOf (localDay d)) (monthOf (localDay d)) (dayOf (localDay d)) (hour d) (minute d) (second d) (nanos d) d.off).loc = d.loc := by
    simp only [mkDT, hday]; exact hloc
  refine ⟨_, ?_, hres, rfl⟩
  -- the shape of the printed text
  have hfy : ∃ x q, fmtYear (yearOf (localDay d)) = x :: q ∧ (x.isDigit = true ∨ x = '-') := by
    obtain ⟨hl, hd, _⟩ := padLeft_zero_spec 4 (yearOf (localDay d)).natAbs (by omega) (by omega)
    unfold fmtYear
    by_cases hneg : yearOf (localDay d) < 0
    · refine ⟨'-', padLeft 4 '0' (natDigits (yearOf (localDay d)).natAbs), ?_, Or.inr rfl⟩
      simp only [hneg, if_true, List.singleton_append]
    · match hq : padLeft 4 '0' (natDigits (yearOf (localDay d)).natAbs), hl with
      | x :: q, _ => exact ⟨x, q, by simp only [hneg, if_false, List.nil_append, hq], Or.inl (hd x (by simp [hq]))⟩
  have hstart : startsDateLike (displayDT d) := by
    obtain ⟨x, q, hxq, hx⟩ := hfy
    refine ⟨x, q ++ (['-'] ++ pad2 (monthOf (localDay d)) ++ ['-'] ++ pad2 (dayOf (localDay d)) ++ [' '] ++ pad2 (hour d) ++ [':'] ++
      pad2 (minute d) ++ [':'] ++ pad2 (second d) ++ (if nanos d = 0 then [] else '.' :: fmtSubsec (nanos d)) ++ [' '] ++
      fmtOffsetHM d.off), ?_, hx⟩
    unfold displayDT fmtDate
    rw [hxq]
    simp only [List.append_assoc, List.cons_append]
  have hne : (displayDT d).isEmpty = false := by
    obtain ⟨x, r, e, _⟩ := hstart; rw [e]; rfl
  have hi64 : isI64 (displayDT d) = false := by
    obtain ⟨hl, hd, _⟩ := padLeft_zero_spec 4 (yearOf (localDay d)).natAbs (by omega) (by omega)
    have hq : padLeft 4 '0' (natDigits (yearOf (localDay d)).natAbs) ≠ [] := by
      intro e; rw [e] at hl; simp at hl
    have := isI64_false _ (pad2 (monthOf (localDay d)) ++ ['-'] ++ pad2 (dayOf (localDay d)) ++ [' '] ++ pad2 (hour d) ++ [':'] ++
      pad2 (minute d) ++ [':'] ++ pad2 (second d) ++ (if nanos d = 0 then [] else '.' :: fmtSubsec (nanos d)) ++ [' '] ++
      fmtOffsetHM d.off) hd hq
    unfold displayDT fmtDate fmtYear
    by_cases hneg : yearOf (localDay d) < 0
    · simpa [hneg] using this.2
    · simpa [hneg] using this.1
  have hsuf : hasOffsetSuffix (displayDT d) = true := by
    unfold displayDT
    exact hasOffsetSuffix_fmt _ d.off hm hlo hhi
  unfold parseDT
  rw [if_neg (by simp [hne]), if_neg (not_now _ hstart), if_neg (by simp [hi64])]
  simp only [hsuf, if_true]
  -- now the format list
  by_cases hns : nanos d = 0
  · have hp : parseWith (fmtDefault false) (displayDT d) = some (mkDT (yearOf (localDay d)) (monthOf (localDay d)) (dayOf (localDay d)) (hour d) (minute d) (second d) (nanos d) d.off) := by
      unfold parseWith displayDT
      simp only [hns, if_true, List.append_nil, List.nil_append, List.append_assoc, List.singleton_append, List.cons_append, fmtDefault, bindP, kYMD, sp,
        lit_single, kHMS, hO, Bool.false_eq_true, if_false]
      simpa [hns] using kBuild 0 hns.symm
    simp only [userFormats, firstSome, hp]
  · have hp1 : parseWith (fmtDefault false) (displayDT d) = none := by
      unfold parseWith displayDT
      simp only [hns, if_false, List.append_assoc, List.nil_append, List.singleton_append, List.cons_append, fmtDefault, bindP, kYMD, sp,
        lit_single, kHMS, Bool.false_eq_true, lit_single_ne ' ' '.' _ (by decide)]
    have hp2 : parseWith (fmtDefault true) (displayDT d) = some (mkDT (yearOf (localDay d)) (monthOf (localDay d)) (dayOf (localDay d)) (hour d) (minute d) (second d) (nanos d) d.off) := by
      unfold parseWith displayDT
      simp only [hns, if_false, List.append_assoc, List.nil_append, List.singleton_append, List.cons_append, fmtDefault, bindP, kYMD, sp,
        lit_single, kHMS, if_true, pSubsec_fmtSubsec (nanos d) (by omega) c8, hO]
      exact kBuild _ rfl
    simp only [userFormats, firstSome, hp1, hp2]


end Liquid.DateFmt
