/-
  Helper lemmas for C12: inserting entries with distinct keys one by one into an empty object
  rebuilds the entry list; `Res.bind` / `Option.bind` computation rules.
-/
import LiquidModel.Spec.C12
namespace Liquid.C12
open Liquid

@[simp] theorem Res.bind_ok {α β} (a : α) (f : α → Res β) : (Res.ok a).bind f = f a := rfl
@[simp] theorem Res.bind_err {α β} (f : α → Res β) : (Res.err : Res α).bind f = .err := rfl

theorem objInsert_fresh (acc : Obj) (k : Str) (v : V) (h : acc.any (·.1 == k) = false) :
    objInsert acc k v = acc ++ [(k, v)] := by
  induction acc with
  | nil => rfl
  | cons e r ih =>
    obtain ⟨k', w⟩ := e
    simp only [List.any_cons, Bool.or_eq_false_iff] at h
    simp [objInsert, h.1, ih h.2]

theorem foldl_insert_distinct {es : Obj} : ∀ (acc : Obj), keysDistinct es = true →
    (∀ e ∈ es, acc.any (·.1 == e.1) = false) →
    es.foldl (fun o e => objInsert o e.1 e.2) acc = acc ++ es := by
  induction es with
  | nil => intro acc _ _; simp
  | cons e r ih =>
    intro acc hd hf
    obtain ⟨k, v⟩ := e
    simp only [keysDistinct, Bool.and_eq_true, Bool.not_eq_true'] at hd
    have hk : acc.any (·.1 == k) = false := hf (k, v) (by simp)
    simp only [List.foldl_cons]
    rw [objInsert_fresh acc k v hk, ih (acc ++ [(k, v)]) hd.2]
    · simp
    · intro e he
      have h1 : acc.any (·.1 == e.1) = false := hf e (by simp [he])
      have h2 : (e.1 == k) = false := by
        have := hd.1
        rw [List.any_eq_false] at this
        simpa using this e he
      have h3 : (k == e.1) = false := by
        rw [beq_eq_false_iff_ne] at h2 ⊢
        exact fun h => h2 h.symm
      simp [List.any_append, h1, h3]

/-- `HashMap::insert` of entries with pairwise distinct keys keeps every entry. -/
theorem objOfEntries_distinct (es : Obj) (h : keysDistinct es = true) : objOfEntries es = es := by
  unfold objOfEntries
  rw [foldl_insert_distinct [] h (by simp)]
  simp

end Liquid.C12
