/-
  C11 helper lemmas, part 6: the canonical representative (`canon`), deep permutations (`VPerm`),
  and integer → float conversion below 2^53.
-/
import LiquidModel.Lemmas.C11Cmp
namespace Liquid.C11L
open Liquid Liquid.C11

/-! ### `canon` keeps what `value_eq` / `value_cmp` look at -/

theorem canon_arr (xs : List V) : canon (.arr xs) = .arr (xs.map canon) := by simp [canon, canonL_eq]
theorem canon_obj (xs : Obj) : canon (.obj xs) = .obj (sortK (mapV canon xs)) := by simp [canon, canonO_eq]

theorem objGet_mapV (f : V → V) (l : Obj) (k : Str) : objGet (mapV f l) k = (objGet l k).map f := by
  induction l with
  | nil => rfl
  | cons e r ih =>
    cases e with | mk k' w =>
    simp only [mapV, List.map_cons] at ih ⊢
    rw [objGet_cons, objGet_cons]
    by_cases h : k' = k
    · simp [h]
    · simp [h]; exact ih

theorem eqZip_map (f : V → V) (xs ys : List V) (H : ∀ x ∈ xs, ∀ y ∈ ys, valueEq (f x) (f y) = valueEq x y) :
    eqZip (xs.map f) (ys.map f) = eqZip xs ys := by
  induction xs generalizing ys with
  | nil => simp [eqZip_nil_left]
  | cons x xs ih =>
    cases ys with
    | nil => simp [eqZip_nil_right]
    | cons y ys =>
      simp only [List.map_cons]
      rw [eqZip_cons, eqZip_cons, H x (by simp) y (by simp),
        ih ys (fun x hx y hy => H x (List.mem_cons_of_mem _ hx) y (List.mem_cons_of_mem _ hy))]

theorem eqObj_mapV (f : V → V) (xs ys : Obj)
    (H : ∀ e ∈ xs, ∀ e' ∈ ys, valueEq (f e'.2) (f e.2) = valueEq e'.2 e.2) :
    eqObj (mapV f xs) (mapV f ys) = eqObj xs ys := by
  rw [eqObj_eq, eqObj_eq, Bool.eq_iff_iff, List.all_eq_true, List.all_eq_true]
  have step : ∀ e ∈ xs, eqGet (mapV f ys) e.1 (f e.2) = eqGet ys e.1 e.2 := by
    intro e he
    rw [eqGet_eq, eqGet_eq, objGet_mapV]
    cases hg : objGet ys e.1 with
    | none => rfl
    | some w =>
      simp only [Option.map_some]
      exact H e he (e.1, w) (objGet_some_mem ys hg)
  constructor
  · intro hh e he
    rw [← step e he]
    exact hh (e.1, f e.2) (List.mem_map.2 ⟨e, he, rfl⟩)
  · intro hh e he
    obtain ⟨e0, he0, rfl⟩ := List.mem_map.1 he
    simp only
    rw [step e0 he0]; exact hh e0 he0

theorem canon_isNil (a : V) : (canon a).isNil = a.isNil := by cases a <;> simp [canon, V.isNil]

theorem canon_queryState (a : V) (s : St) : (canon a).queryState s = a.queryState s := by
  cases a with
  | arr xs => rw [canon_arr]; cases s <;> simp [V.queryState]
  | obj xs =>
    rw [canon_obj]
    have : (sortK (mapV canon xs)).isEmpty = xs.isEmpty := by
      have := length_sortK (mapV canon xs)
      cases xs with
      | nil => rfl
      | cons e r =>
        cases hs : sortK (mapV canon (e :: r)) with
        | nil => rw [hs] at this; simp [mapV] at this
        | cons => rfl
    cases s <;> simp [V.queryState, this]
  | _ => simp [canon]

theorem canon_nil : canon .nil = .nil := by simp [canon]
theorem canon_st (s : St) : canon (.st s) = .st s := by simp [canon]
theorem canon_sc (x : Sc) : canon (.sc x) = .sc x := by simp [canon]

theorem valueEqFlat_canon (a b : V) (h1 : ¬ bothArr a b) (h2 : ¬ bothObj a b) :
    valueEqFlat (canon a) (canon b) = valueEqFlat a b := by
  unfold valueEqFlat
  rw [canon_isNil, canon_isNil]
  cases a <;> cases b <;>
    simp only [canon_nil, canon_st, canon_sc, canon_arr, canon_obj, V.isNil, bothArr, bothObj,
      not_true_eq_false, Bool.and_self, Bool.and_false, Bool.false_and, if_true, if_false] at h1 h2 ⊢ <;>
    first
      | rfl
      | (rw [← canon_arr, canon_queryState])
      | (rw [← canon_obj, canon_queryState])
      | (rw [← canon_arr, canon_isNil]; rfl)
      | (rw [← canon_obj, canon_isNil]; rfl)

theorem wfv_keys_mapV (f : V → V) (xs : Obj) (h : (keysOf xs).Nodup) : (keysOf (mapV f xs)).Nodup := by
  rw [keysOf_mapV]; exact h

theorem valueEq_canon (a b : V) : WFV a = true → WFV b = true → valueEq (canon a) (canon b) = valueEq a b := by
  refine induct₂ (fun a b => WFV a = true → WFV b = true → valueEq (canon a) (canon b) = valueEq a b) ?_ a b
  intro a b ih hwa hwb
  by_cases hA : bothArr a b
  · cases a <;> cases b <;> simp only [bothArr] at hA
    rename_i xs ys
    rw [canon_arr, canon_arr, valueEq_arr, valueEq_arr, List.length_map, List.length_map]
    congr 1
    apply eqZip_map
    intro x hx y hy
    have s1 := sizeOf_lt_arr hx
    have s2 := sizeOf_lt_arr hy
    exact ih x y (by omega) (wfv_arr_mem hwa hx) (wfv_arr_mem hwb hy)
  · by_cases hO : bothObj a b
    · cases a <;> cases b <;> simp only [bothObj] at hO
      rename_i xs ys
      have hnx := wfv_obj_keys hwa
      have hny := wfv_obj_keys hwb
      rw [canon_obj, canon_obj,
        valueEq_obj_perm (sortK_perm (mapV canon xs)) (sortK_perm (mapV canon ys))
          (nodup_keys_perm (sortK_perm (mapV canon ys)).symm (wfv_keys_mapV canon ys hny)),
        valueEq_obj, valueEq_obj]
      have l1 : (mapV canon xs).length = xs.length := by simp [mapV]
      have l2 : (mapV canon ys).length = ys.length := by simp [mapV]
      rw [l1, l2]
      congr 1
      apply eqObj_mapV
      intro e he e' he'
      have s1 := sizeOf_lt_obj he
      have s2 := sizeOf_lt_obj he'
      exact ih e'.2 e.2 (by omega) (wfv_obj_mem hwb he') (wfv_obj_mem hwa he)
    · have hA' : ¬ bothArr (canon a) (canon b) := by
        cases a <;> cases b <;> simp_all [bothArr, canon]
      have hO' : ¬ bothObj (canon a) (canon b) := by
        cases a <;> cases b <;> simp_all [bothObj, canon]
      rw [valueEq_flat _ _ hA' hO', valueEq_flat _ _ hA hO]
      exact valueEqFlat_canon a b hA hO

theorem cmpL_map (f : V → V) (xs ys : List V) (H : ∀ x ∈ xs, ∀ y ∈ ys, valueCmp (f x) (f y) = valueCmp x y) :
    cmpL (xs.map f) (ys.map f) = cmpL xs ys := by
  induction xs generalizing ys with
  | nil => cases ys <;> simp [cmpL]
  | cons x xs ih =>
    cases ys with
    | nil => simp [cmpL]
    | cons y ys =>
      simp only [List.map_cons, cmpL]
      rw [H x (by simp) y (by simp),
        ih ys (fun x hx y hy => H x (List.mem_cons_of_mem _ hx) y (List.mem_cons_of_mem _ hy))]

theorem lexO_mapV (f : V → V) (xs ys : Obj) (H : ∀ e ∈ xs, ∀ e' ∈ ys, valueCmp (f e.2) (f e'.2) = valueCmp e.2 e'.2) :
    lexO (mapV f xs) (mapV f ys) = lexO xs ys := by
  induction xs generalizing ys with
  | nil => cases ys <;> simp [lexO, mapV]
  | cons e xs ih =>
    cases e with | mk k x =>
    cases ys with
    | nil => simp [lexO, mapV]
    | cons e' ys =>
      cases e' with | mk k' y =>
      have hxy := H (k, x) (by simp) (k', y) (by simp)
      simp only at hxy
      have ih' := ih ys (fun e he e' he' => H e (List.mem_cons_of_mem _ he) e' (List.mem_cons_of_mem _ he'))
      simp only [mapV, List.map_cons, lexO] at ih' ⊢
      rw [hxy, ih']

theorem valueCmp_canon (a b : V) : valueCmp (canon a) (canon b) = valueCmp a b := by
  refine induct₂ (fun a b => valueCmp (canon a) (canon b) = valueCmp a b) ?_ a b
  intro a b ih
  by_cases hS : bothSc a b
  · cases a <;> cases b <;> simp only [bothSc] at hS
    simp [canon]
  · by_cases hA : bothArr a b
    · cases a <;> cases b <;> simp only [bothArr] at hA
      rename_i xs ys
      rw [canon_arr, canon_arr, valueCmp_arr, valueCmp_arr]
      apply cmpL_map
      intro x hx y hy
      have s1 := sizeOf_lt_arr hx
      have s2 := sizeOf_lt_arr hy
      exact ih x y (by omega)
    · by_cases hO : bothObj a b
      · cases a <;> cases b <;> simp only [bothObj] at hO
        rename_i xs ys
        rw [canon_obj, canon_obj, valueCmp_obj, valueCmp_obj, sortK_idem, sortK_idem,
          sortK_mapV, sortK_mapV]
        apply lexO_mapV
        intro e he e' he'
        have s1 := sizeOf_lt_obj ((mem_sortK _ _).1 he)
        have s2 := sizeOf_lt_obj ((mem_sortK _ _).1 he')
        exact ih e.2 e'.2 (by omega)
      · have hS' : ¬ bothSc (canon a) (canon b) := by cases a <;> cases b <;> simp_all [bothSc, canon]
        have hA' : ¬ bothArr (canon a) (canon b) := by cases a <;> cases b <;> simp_all [bothArr, canon]
        have hO' : ¬ bothObj (canon a) (canon b) := by cases a <;> cases b <;> simp_all [bothObj, canon]
        rw [valueCmp_none _ _ hS' hA' hO', valueCmp_none _ _ hS hA hO]

/-! ### deep permutation of entry lists -/

/-- `VPerm a a'`: `a'` is `a` with the entry lists of any of its objects (at any depth) permuted. -/
inductive VPerm : V → V → Prop
  | refl (a : V) : VPerm a a
  | trans {a b c : V} : VPerm a b → VPerm b c → VPerm a c
  | arrCons {x y : V} {xs ys : List V} : VPerm x y → VPerm (.arr xs) (.arr ys) → VPerm (.arr (x :: xs)) (.arr (y :: ys))
  | objPerm {xs ys : Obj} : xs.Perm ys → VPerm (.obj xs) (.obj ys)
  | objCons {k : Str} {x y : V} {xs ys : Obj} :
      VPerm x y → VPerm (.obj xs) (.obj ys) → VPerm (.obj ((k, x) :: xs)) (.obj ((k, y) :: ys))

theorem wfv_arr_cons (x : V) (xs : List V) : WFV (.arr (x :: xs)) = true ↔ WFV x = true ∧ WFV (.arr xs) = true := by
  unfold WFV
  rw [every_arr, every_arr]
  simp [isKeysNodup]

theorem keysOf_cons (k : Str) (x : V) (xs : Obj) : keysOf ((k, x) :: xs) = k :: keysOf xs := rfl

theorem wfv_obj_cons (k : Str) (x : V) (xs : Obj) :
    WFV (.obj ((k, x) :: xs)) = true ↔ k ∉ keysOf xs ∧ WFV x = true ∧ WFV (.obj xs) = true := by
  unfold WFV
  rw [every_obj, every_obj]
  simp only [isKeysNodup, keysNodup_iff, keys_eq_keysOf, keysOf_cons, List.nodup_cons, List.mem_cons, forall_eq_or_imp]
  constructor
  · rintro ⟨⟨h1, h2⟩, h3, h4⟩; exact ⟨h1, h3, h2, h4⟩
  · rintro ⟨h1, h3, h2, h4⟩; exact ⟨⟨h1, h2⟩, h3, h4⟩

theorem keysOf_sortK (l : Obj) : (keysOf (sortK l)).Perm (keysOf l) := keysOf_perm (sortK_perm l)

/-- a deep permutation preserves well-formedness, the key set and the canonical representative -/
theorem VPerm.canon_eq {a a' : V} (h : VPerm a a') :
    WFV a = true → (WFV a' = true ∧ canon a = canon a' ∧
      (∀ xs ys, a = .obj xs → a' = .obj ys → (keysOf xs).Perm (keysOf ys))) := by
  induction h with
  | refl a => intro hw; exact ⟨hw, rfl, fun xs ys h1 h2 => by subst h1; cases h2; exact List.Perm.refl _⟩
  | @trans a b c h1 h2 ih1 ih2 =>
    intro hw
    obtain ⟨w1, c1, k1⟩ := ih1 hw
    obtain ⟨w2, c2, k2⟩ := ih2 w1
    refine ⟨w2, c1.trans c2, ?_⟩
    intro xs ys e1 e2
    subst e1; subst e2
    -- the middle value is an object as well (canon keeps the constructor)
    cases b with
    | obj zs => exact (k1 xs zs rfl rfl).trans (k2 zs ys rfl rfl)
    | _ => simp [canon] at c1
  | arrCons hx hxs ihx ihxs =>
    intro hw
    rw [wfv_arr_cons] at hw
    obtain ⟨w1, c1, _⟩ := ihx hw.1
    obtain ⟨w2, c2, _⟩ := ihxs hw.2
    refine ⟨(wfv_arr_cons _ _).2 ⟨w1, w2⟩, ?_, fun xs ys h1 => by cases h1⟩
    rw [canon_arr, canon_arr] at c2 ⊢
    simp only [V.arr.injEq] at c2
    simp [c1, c2]
  | objPerm hp =>
    rename_i xs ys
    intro hw
    have hn := wfv_obj_keys hw
    refine ⟨?_, ?_, fun xs' ys' h1 h2 => by cases h1; cases h2; exact keysOf_perm hp⟩
    · unfold WFV at hw ⊢
      rw [every_obj] at hw ⊢
      refine ⟨?_, fun e he => hw.2 e (hp.mem_iff.2 he)⟩
      simp only [isKeysNodup, keysNodup_iff, keys_eq_keysOf]
      exact nodup_keys_perm hp hn
    · rw [canon_obj, canon_obj]
      congr 1
      apply sortK_eq_of_perm (hp.map _)
      exact wfv_keys_mapV canon xs hn
  | objCons hx hxs ihx ihxs =>
    rename_i k x y xs ys
    intro hw
    rw [wfv_obj_cons] at hw
    obtain ⟨w1, c1, _⟩ := ihx hw.2.1
    obtain ⟨w2, c2, k2⟩ := ihxs hw.2.2
    have kp := k2 xs ys rfl rfl
    refine ⟨(wfv_obj_cons _ _ _).2 ⟨fun hk => hw.1 (kp.mem_iff.2 hk), w1, w2⟩, ?_, ?_⟩
    · rw [canon_obj, canon_obj] at c2 ⊢
      simp only [V.obj.injEq] at c2
      simp only [mapV, List.map_cons, sortK] at c2 ⊢
      rw [c1, c2]
    · intro xs' ys' h1 h2
      cases h1; cases h2
      simp only [keysOf_cons]
      exact List.Perm.cons _ kp

/-! ### `i64 as f64` is exact up to 2^53 -/

theorem bitLen_le_of_lt (n k : Nat) (h : n < 2 ^ k) : bitLen n ≤ k := by
  unfold bitLen
  split
  · omega
  · rename_i hn
    have := (Nat.log2_lt hn).2 h
    omega

theorem roundI64ToF64_exact (x : Int) (h : -(2 : Int) ^ 53 ≤ x ∧ x ≤ 2 ^ 53) : roundI64ToF64 x = x := by
  by_cases hlt : x.natAbs < 2 ^ 53
  · unfold roundI64ToF64
    have := bitLen_le_of_lt x.natAbs 53 hlt
    simp only [this, if_true, Int.ofNat_eq_natCast]
    split <;> omega
  · have e : x = 2 ^ 53 ∨ x = -(2 ^ 53) := by omega
    rcases e with e | e <;> subst e <;> decide

end Liquid.C11L
