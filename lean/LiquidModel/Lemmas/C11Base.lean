/-
  Helper lemmas for C11 (equality and ordering of values).
-/
import LiquidModel.Spec.C11
import Batteries.Data.List.Perm
namespace Liquid.C11L
open Liquid Liquid.C11

/-! ### induction over values -/

theorem sizeOf_lt_arr {x : V} {xs : List V} (h : x ∈ xs) : sizeOf x < sizeOf (V.arr xs) := by
  have := List.sizeOf_lt_of_mem h
  simp only [V.arr.sizeOf_spec]; omega

theorem sizeOf_lt_obj {e : Str × V} {kvs : List (Str × V)} (h : e ∈ kvs) :
    sizeOf e.2 < sizeOf (V.obj kvs) := by
  have := List.sizeOf_lt_of_mem h
  have h2 : sizeOf e.2 < sizeOf e := by
    cases e with | mk k v => simp only [Prod.mk.sizeOf_spec]; omega
  simp only [V.obj.sizeOf_spec]; omega

/-- induction on two values at once: the hypothesis is available for every pair of smaller total size. -/
theorem induct₂ (P : V → V → Prop)
    (h : ∀ a b, (∀ a' b', sizeOf a' + sizeOf b' < sizeOf a + sizeOf b → P a' b') → P a b) :
    ∀ a b, P a b := by
  intro a b
  generalize hn : sizeOf a + sizeOf b = n
  induction n using Nat.strongRecOn generalizing a b with
  | _ n ih =>
    apply h
    intro a' b' hlt
    exact ih _ (by omega) a' b' rfl

theorem induct₁ (P : V → Prop)
    (h : ∀ a, (∀ a', sizeOf a' < sizeOf a → P a') → P a) : ∀ a, P a := by
  intro a
  generalize hn : sizeOf a = n
  induction n using Nat.strongRecOn generalizing a with
  | _ n ih => exact h a (fun a' hlt => ih _ (by omega) a' rfl)

/-! ### `every` -/

theorem everyL_iff (p : V → Bool) (xs : List V) : everyL p xs = true ↔ ∀ x ∈ xs, x.every p = true := by
  induction xs with
  | nil => simp [everyL]
  | cons x xs ih => simp [everyL, ih]

theorem everyO_iff (p : V → Bool) (kvs : List (Str × V)) :
    everyO p kvs = true ↔ ∀ e ∈ kvs, e.2.every p = true := by
  induction kvs with
  | nil => simp [everyO]
  | cons e kvs ih => cases e with | mk k v => simp [everyO, ih]

theorem every_arr (p : V → Bool) (xs : List V) :
    (V.arr xs).every p = true ↔ p (.arr xs) = true ∧ ∀ x ∈ xs, x.every p = true := by
  simp [V.every, everyL_iff]

theorem every_obj (p : V → Bool) (kvs : List (Str × V)) :
    (V.obj kvs).every p = true ↔ p (.obj kvs) = true ∧ ∀ e ∈ kvs, e.2.every p = true := by
  simp [V.every, everyO_iff]

/-! ### `strCmp` is a strict total order -/

theorem strCmp_eq_iff (a b : Str) : strCmp a b = .eq ↔ a = b := by
  induction a generalizing b with
  | nil => cases b <;> simp [strCmp]
  | cons x xs ih =>
    cases b with
    | nil => simp [strCmp]
    | cons y ys =>
      simp only [strCmp]
      by_cases h1 : x.toNat < y.toNat
      · simp [h1]; intro h; subst h; omega
      · by_cases h2 : y.toNat < x.toNat
        · simp [h1, h2]; intro h; subst h; omega
        · have : x = y := Char.toNat_inj.mp (by omega)
          simp [h1, h2, ih, this]

theorem strCmp_refl (a : Str) : strCmp a a = .eq := (strCmp_eq_iff a a).2 rfl

theorem strCmp_swap (a b : Str) : strCmp b a = (strCmp a b).swap := by
  induction a generalizing b with
  | nil => cases b <;> simp [strCmp, Ordering.swap]
  | cons x xs ih =>
    cases b with
    | nil => simp [strCmp, Ordering.swap]
    | cons y ys =>
      simp only [strCmp]
      by_cases h1 : x.toNat < y.toNat
      · have : ¬ y.toNat < x.toNat := by omega
        simp [h1, this, Ordering.swap]
      · by_cases h2 : y.toNat < x.toNat
        · simp [h1, h2, Ordering.swap]
        · simp [h1, h2, ih]

theorem strCmp_lt_trans {a b c : Str} (h1 : strCmp a b = .lt) (h2 : strCmp b c = .lt) : strCmp a c = .lt := by
  induction a generalizing b c with
  | nil =>
    cases c with
    | nil => cases b <;> simp [strCmp] at h1 h2
    | cons => simp [strCmp]
  | cons x xs ih =>
    cases b with
    | nil => simp [strCmp] at h1
    | cons y ys =>
      cases c with
      | nil => simp [strCmp] at h2
      | cons z zs =>
        simp only [strCmp] at h1 h2 ⊢
        by_cases a1 : x.toNat < y.toNat
        · by_cases b1 : y.toNat < z.toNat
          · have : x.toNat < z.toNat := by omega
            simp [this]
          · by_cases b2 : z.toNat < y.toNat
            · simp [b1, b2] at h2
            · have : x.toNat < z.toNat := by omega
              simp [this]
        · by_cases a2 : y.toNat < x.toNat
          · simp [a1, a2] at h1
          · simp only [a1, a2, if_false] at h1
            by_cases b1 : y.toNat < z.toNat
            · have : x.toNat < z.toNat := by omega
              simp [this]
            · by_cases b2 : z.toNat < y.toNat
              · simp [b1, b2] at h2
              · simp only [b1, b2, if_false] at h2
                have e1 : ¬ x.toNat < z.toNat := by omega
                have e2 : ¬ z.toNat < x.toNat := by omega
                simp only [e1, e2, if_false]
                exact ih h1 h2

end Liquid.C11L
