/-
  Reasoning about the render monad `M`: run lemmas for the primitives, and a generic induction
  principle for the interpreter: any property of computations that holds for the primitives and is
  closed under `bind`, `capture` and `inFrames` (an `MProp`) holds for `renderN`/`renderT` of every
  template (by induction on the fuel and cases on the node).  `Pres` (a preorder on runtimes that
  every step respects) is the first instance; the sink simulation of C10 is another.
-/
import LiquidModel.Model.Render
namespace Liquid
open M

/-! ### run lemmas -/

@[simp] theorem M.run_pure {α} (a : α) (rt : Rt) (w : W) : (Pure.pure a : M α) rt w = (.ok a, rt, w) := rfl
@[simp] theorem M.run_pure' {α} (a : α) (rt : Rt) (w : W) : (M.pure a : M α) rt w = (.ok a, rt, w) := rfl

theorem M.run_bind {α β} (m : M α) (f : α → M β) (rt : Rt) (w : W) :
    (m >>= f) rt w = match m rt w with
      | (.ok a, rt', w') => f a rt' w'
      | (.err, rt', w') => (.err, rt', w')
      | (.io, rt', w') => (.io, rt', w')
      | (.panic s, rt', w') => (.panic s, rt', w')
      | (.fuel, rt', w') => (.fuel, rt', w') := rfl

theorem M.run_bind_ok {α β} (m : M α) (f : α → M β) (rt rt' : Rt) (w w' : W) (a : α)
    (h : m rt w = (.ok a, rt', w')) : (m >>= f) rt w = f a rt' w' := by
  simp [M.run_bind, h]

theorem M.run_bind_notok {α β} (m : M α) (f : α → M β) (rt rt' : Rt) (w w' : W) (r : Res α)
    (h : m rt w = (r, rt', w')) (hr : r.isOk = false) : (m >>= f) rt w = (M.castErr r, rt', w') := by
  cases r <;> simp_all [M.run_bind, Res.isOk, M.castErr]

@[simp] theorem M.run_lift {α} (r : Res α) (rt : Rt) (w : W) : M.lift r rt w = (r, rt, w) := rfl
@[simp] theorem M.run_getSt (rt : Rt) (w : W) : M.getSt rt w = (.ok rt.layers, rt, w) := rfl
@[simp] theorem M.run_getRegs (rt : Rt) (w : W) : M.getRegs rt w = (.ok rt.regs, rt, w) := rfl
@[simp] theorem M.run_setLayers (ls : Stack) (rt : Rt) (w : W) :
    M.setLayers ls rt w = (.ok (), { rt with layers := ls }, w) := rfl
@[simp] theorem M.run_setRegs (g : Regs) (rt : Rt) (w : W) :
    M.setRegs g rt w = (.ok (), rt.setRegs g, w) := rfl

/-! the same for the `M.bind` form that `do` blocks elaborate to -/
@[simp] theorem M.bind_getSt {β} (f : Stack → M β) (rt : Rt) (w : W) : M.bind M.getSt f rt w = f rt.layers rt w := rfl
@[simp] theorem M.bind_getRegs {β} (f : Regs → M β) (rt : Rt) (w : W) : M.bind M.getRegs f rt w = f rt.regs rt w := rfl
@[simp] theorem M.bind_lift_ok {α β} (a : α) (f : α → M β) (rt : Rt) (w : W) :
    M.bind (M.lift (.ok a)) f rt w = f a rt w := rfl
@[simp] theorem M.bind_lift_err {α β} (f : α → M β) (rt : Rt) (w : W) :
    M.bind (M.lift (.err : Res α)) f rt w = (.err, rt, w) := rfl
@[simp] theorem M.bind_lift_panic {α β} (s : String) (f : α → M β) (rt : Rt) (w : W) :
    M.bind (M.lift (.panic s : Res α)) f rt w = (.panic s, rt, w) := rfl
@[simp] theorem M.bind_setRegs {β} (g : Regs) (f : Unit → M β) (rt : Rt) (w : W) :
    M.bind (M.setRegs g) f rt w = f () (rt.setRegs g) w := rfl
@[simp] theorem M.bind_setLayers {β} (ls : Stack) (f : Unit → M β) (rt : Rt) (w : W) :
    M.bind (M.setLayers ls) f rt w = f () { rt with layers := ls } w := rfl
@[simp] theorem M.bind_pure {α β} (a : α) (f : α → M β) (rt : Rt) (w : W) :
    M.bind (Pure.pure a) f rt w = f a rt w := rfl
@[simp] theorem M.bind'_getSt {β} (f : Stack → M β) (rt : Rt) (w : W) : (M.getSt >>= f) rt w = f rt.layers rt w := rfl
@[simp] theorem M.bind'_getRegs {β} (f : Regs → M β) (rt : Rt) (w : W) : (M.getRegs >>= f) rt w = f rt.regs rt w := rfl
@[simp] theorem M.bind'_lift_ok {α β} (a : α) (f : α → M β) (rt : Rt) (w : W) :
    (M.lift (.ok a) >>= f) rt w = f a rt w := rfl
@[simp] theorem M.bind'_lift_err {α β} (f : α → M β) (rt : Rt) (w : W) :
    (M.lift (.err : Res α) >>= f) rt w = (.err, rt, w) := rfl
@[simp] theorem M.bind'_lift_panic {α β} (s : String) (f : α → M β) (rt : Rt) (w : W) :
    (M.lift (.panic s : Res α) >>= f) rt w = (.panic s, rt, w) := rfl
@[simp] theorem M.bind'_setRegs {β} (g : Regs) (f : Unit → M β) (rt : Rt) (w : W) :
    (M.setRegs g >>= f) rt w = f () (rt.setRegs g) w := rfl
@[simp] theorem M.bind'_setLayers {β} (ls : Stack) (f : Unit → M β) (rt : Rt) (w : W) :
    (M.setLayers ls >>= f) rt w = f () { rt with layers := ls } w := rfl
@[simp] theorem M.bind'_pure {α β} (a : α) (f : α → M β) (rt : Rt) (w : W) :
    ((Pure.pure a : M α) >>= f) rt w = f a rt w := rfl
theorem M.bind_eq {α β} (m : M α) (f : α → M β) : M.bind m f = (m >>= f) := rfl

/-! ### properties of computations closed under the interpreter's combinators -/

structure MProp where
  P : {α : Type} → M α → Prop
  pure : ∀ {α : Type} (a : α), P (Pure.pure a : M α)
  bind : ∀ {α β : Type} {m : M α} {f : α → M β}, P m → (∀ a, P (f a)) → P (m >>= f)
  lift : ∀ {α : Type} (r : Res α), P (M.lift r)
  emit : ∀ s, P (M.emit s)
  getSt : P M.getSt
  getRegs : P M.getRegs
  setRegs : ∀ g, P (M.setRegs g)
  setGlobalM : ∀ x v, P (Liquid.setGlobalM x v)
  setIndexM : ∀ x v, P (Liquid.setIndexM x v)
  capture : ∀ {m : M Unit}, P m → P (M.capture m)
  inPlain : ∀ {α : Type} (d : Obj) {m : M α}, P m → P (M.inFrames [.plain d] m)
  inSandbox : ∀ {α : Type} (root : Obj) {m : M α}, P m → P (M.inFrames [.global [], .sandbox root {}] m)

namespace MProp
variable (Q : MProp)

theorem setInterruptM (i : Option Intr) : Q.P (setInterruptM i) :=
  Q.bind Q.getRegs (fun _ => Q.setRegs _)

theorem takeInterruptM : Q.P takeInterruptM :=
  Q.bind Q.getRegs (fun _ => Q.bind (Q.setRegs _) (fun _ => Q.pure _))

theorem renderList {f : Node → M Unit} (hf : ∀ n, Q.P (f n)) : ∀ t, Q.P (renderList f t)
  | [] => Q.pure ()
  | n :: r => by
    unfold Liquid.renderList
    refine Q.bind (hf n) (fun _ => Q.bind Q.getRegs (fun g => ?_))
    split
    · exact Q.pure ()
    · exact renderList hf r

theorem loopItems {step : V → Nat → M (Option Intr)} (hs : ∀ v i, Q.P (step v i)) :
    ∀ items i, Q.P (loopItems step items i)
  | [], _ => Q.pure ()
  | v :: r, i => by
    unfold Liquid.loopItems
    refine Q.bind (hs v i) (fun intr => ?_)
    split
    · exact Q.pure ()
    · exact loopItems hs r (i + 1)

theorem tableItems {step : V → Nat → M Unit} (hs : ∀ v i, Q.P (step v i)) :
    ∀ items i, Q.P (tableItems step items i)
  | [], _ => Q.pure ()
  | v :: r, i => by
    unfold Liquid.tableItems
    exact Q.bind (hs v i) (fun _ => tableItems hs r (i + 1))

end MProp

/-- closes `Q.P (…)` goals built from the primitives, splitting `match`/`if` -/
syntax "mprop_step " ident : tactic
macro_rules
  | `(tactic| mprop_step $Q:ident) =>
  `(tactic| first
    | exact MProp.pure $Q _
    | exact MProp.lift $Q _
    | exact MProp.emit $Q _
    | exact MProp.getSt $Q
    | exact MProp.getRegs $Q
    | exact MProp.setRegs $Q _
    | exact MProp.setGlobalM $Q _ _
    | exact MProp.setIndexM $Q _ _
    | exact MProp.setInterruptM $Q _
    | exact MProp.takeInterruptM $Q
    | refine MProp.bind $Q ?_ (fun _ => ?_)
    | refine MProp.capture $Q ?_
    | refine MProp.inPlain $Q _ ?_
    | refine MProp.inSandbox $Q _ ?_
    | refine MProp.renderList $Q (fun _ => ?_) _
    | split
    | dsimp only)

namespace MProp
variable (Q : MProp)

theorem forStep (x : Str) (len : Nat) (parent : V) {body : M Unit} (hb : Q.P body) (v : V) (i : Nat) :
    Q.P (forStep x len parent body v i) :=
  Q.inPlain _ (Q.bind hb (fun _ => Q.takeInterruptM))

theorem tablerowStep (x : Str) (len ncols : Nat) {body : M Unit} (hb : Q.P body) (v : V) (i : Nat) :
    Q.P (tablerowStep x len ncols body v i) := by
  unfold Liquid.tablerowStep
  repeat (first | exact hb | mprop_step Q)

theorem renderForStep (st : Stack) (args : List (Str × Expr)) (as_ : Str) (len : Nat) {body : M Unit}
    (hb : Q.P body) (v : V) (i : Nat) : Q.P (renderForStep st args as_ len body v i) :=
  Q.bind (Q.lift _) (fun _ => Q.inSandbox _ (Q.bind hb (fun _ => Q.takeInterruptM)))

theorem loopItems_forStep (x : Str) (len : Nat) (parent : V) {body : M Unit} (hb : Q.P body)
    (items : List V) (i : Nat) : Q.P (Liquid.loopItems (Liquid.forStep x len parent body) items i) :=
  Q.loopItems (fun v i => Q.forStep x len parent hb v i) items i

theorem loopItems_renderForStep (st : Stack) (args : List (Str × Expr)) (as_ : Str) (len : Nat)
    {body : M Unit} (hb : Q.P body) (items : List V) (i : Nat) :
    Q.P (Liquid.loopItems (Liquid.renderForStep st args as_ len body) items i) :=
  Q.loopItems (fun v i => Q.renderForStep st args as_ len hb v i) items i

theorem tableItems_tablerowStep (x : Str) (len ncols : Nat) {body : M Unit} (hb : Q.P body)
    (items : List V) (i : Nat) : Q.P (Liquid.tableItems (Liquid.tablerowStep x len ncols body) items i) :=
  Q.tableItems (fun v i => Q.tablerowStep x len ncols hb v i) items i

end MProp

syntax "mprop_node " ident ident : tactic
macro_rules
  | `(tactic| mprop_node $Q:ident $ih:ident) =>
  `(tactic| (
      (first | rw [Liquid.renderN] | simp only [Liquid.renderN])
      repeat (first
        | exact $ih _
        | refine MProp.loopItems_forStep $Q _ _ _ ?_ _ _
        | refine MProp.loopItems_renderForStep $Q _ _ _ _ ?_ _ _
        | refine MProp.tableItems_tablerowStep $Q _ _ _ ?_ _ _
        | mprop_step $Q)))

set_option maxHeartbeats 4000000 in
/-- **Interpreter induction.** Every `MProp` holds of the rendering of every element, for every
fuel — by induction on the fuel and cases on the node. -/
theorem MProp.renderN (Q : MProp) (env : Env) : ∀ fuel n, Q.P (renderN fuel env n)
  | 0, n => by rw [Liquid.renderN]; exact Q.lift _
  | fuel + 1, n => by
    have ih := MProp.renderN Q env fuel
    cases n with
    | text s => mprop_node Q ih
    | output e fs => mprop_node Q ih
    | assign x e fs => mprop_node Q ih
    | capture x body => mprop_node Q ih
    | incr x => mprop_node Q ih
    | decr x => mprop_node Q ih
    | brk => mprop_node Q ih
    | cont => mprop_node Q ih
    | cond c mode thn els => mprop_node Q ih
    | case_ target arms els => mprop_node Q ih
    | for_ x rng limit offset rev body els => mprop_node Q ih
    | tablerow x rng cols limit offset body => mprop_node Q ih
    | cycle name vals => mprop_node Q ih
    | ifchanged body => mprop_node Q ih
    | include_ name args => mprop_node Q ih
    | render_ name form args => mprop_node Q ih
    | raw s => mprop_node Q ih
    | comment => mprop_node Q ih

theorem MProp.renderT (Q : MProp) (env : Env) (fuel : Nat) (t : Tmpl) : Q.P (renderT fuel env t) :=
  Q.renderList (MProp.renderN Q env fuel) t

/-! ### first instance: a preorder on runtimes respected by every step -/

/-- A reflexive, transitive relation between the runtime before and after a computation that
every state-changing primitive respects. -/
structure StepRel where
  R : Rt → Rt → Prop
  refl : ∀ rt, R rt rt
  trans : ∀ a b c, R a b → R b c → R a c
  setRegs : ∀ rt g, R rt (rt.setRegs g)
  setGlobal : ∀ rt k v ls, rt.layers.setGlobal k v = .ok ls → R rt { rt with layers := ls }
  setIndex : ∀ rt k v ls, rt.layers.setIndex k v = .ok ls → R rt { rt with layers := ls }
  framePlain : ∀ (d : Obj) rt rt', R { rt with layers := .plain d :: rt.layers } rt' →
    R rt { rt' with layers := rt'.layers.drop 1 }
  frameSandbox : ∀ (root : Obj) rt rt', R { rt with layers := .global [] :: .sandbox root {} :: rt.layers } rt' →
    R rt { rt' with layers := rt'.layers.drop 2 }

/-- `m` relates every start state to the state it ends in (whatever the outcome and the sink). -/
def Pres (S : StepRel) {α} (m : M α) : Prop := ∀ rt w, S.R rt (m rt w).2.1

def StepRel.toMProp (S : StepRel) : MProp where
  P := fun m => Pres S m
  pure := fun _ rt _ => S.refl rt
  bind := by
    intro α β m f hm hf rt w
    have h1 := hm rt w
    rw [M.run_bind]
    rcases hr : m rt w with ⟨r, rt', w'⟩
    rw [hr] at h1
    cases r with
    | ok a => exact S.trans _ _ _ h1 (hf a rt' w')
    | err => exact h1
    | io => exact h1
    | panic s => exact h1
    | fuel => exact h1
  lift := fun _ rt _ => S.refl rt
  emit := by intro s rt w; unfold M.emit; cases w.write s <;> exact S.refl rt
  getSt := fun rt _ => S.refl rt
  getRegs := fun rt _ => S.refl rt
  setRegs := fun g rt _ => S.setRegs rt g
  setGlobalM := by
    intro x v rt w
    simp only [Liquid.setGlobalM, M.run_bind, M.run_getSt, M.run_lift]
    cases h : rt.layers.setGlobal x v <;> simp only [M.run_setLayers]
    · exact S.setGlobal rt x v _ h
    all_goals exact S.refl rt
  setIndexM := by
    intro x v rt w
    simp only [Liquid.setIndexM, M.run_bind, M.run_getSt, M.run_lift]
    cases h : rt.layers.setIndex x v <;> simp only [M.run_setLayers]
    · exact S.setIndex rt x v _ h
    all_goals exact S.refl rt
  capture := by
    intro m hm rt w
    have h := hm rt {}
    unfold M.capture
    rcases hr : m rt {} with ⟨r, rt', cw⟩
    rw [hr] at h
    cases r <;> exact h
  inPlain := by
    intro α d m hm rt w
    have h := hm { rt with layers := [Layer.plain d] ++ rt.layers } w
    unfold M.inFrames
    rcases hr : m { rt with layers := [Layer.plain d] ++ rt.layers } w with ⟨r, rt', w'⟩
    rw [hr] at h
    exact S.framePlain d rt rt' h
  inSandbox := by
    intro α root m hm rt w
    have h := hm { rt with layers := [Layer.global [], Layer.sandbox root {}] ++ rt.layers } w
    unfold M.inFrames
    rcases hr : m { rt with layers := [Layer.global [], Layer.sandbox root {}] ++ rt.layers } w with ⟨r, rt', w'⟩
    rw [hr] at h
    exact S.frameSandbox root rt rt' h

/-- **Every render step respects `S`.** -/
theorem Pres.renderN (S : StepRel) (env : Env) (fuel : Nat) (n : Node) : Pres S (renderN fuel env n) :=
  MProp.renderN S.toMProp env fuel n

theorem Pres.renderT (S : StepRel) (env : Env) (fuel : Nat) (t : Tmpl) : Pres S (renderT fuel env t) :=
  MProp.renderT S.toMProp env fuel t

end Liquid
