/-
  Helper lemmas for C14: sort theory relative to a list (`TotalPreorderOn`), order facts about
  `strCmp` / integers / the repaired comparator, and the `uniq` loop.
-/
import LiquidModel.Spec.C14
namespace Liquid.C14
open Liquid Liquid.Arr List

/-! ### sort theory relative to the elements of one list -/

section ext
variable {α : Type}

open Classical in
/-- A comparator that agrees with `le` on `xs` and is a total preorder on the whole type as soon as
`le` is one on `xs` (everything outside `xs` is put, as one class, below `xs`). -/
noncomputable def extLe (xs : List α) (le : α → α → Bool) (a b : α) : Bool :=
  if a ∈ xs then (if b ∈ xs then le a b else false) else true

theorem extLe_agree (xs : List α) (le : α → α → Bool) {a b : α} (ha : a ∈ xs) (hb : b ∈ xs) :
    extLe xs le a b = le a b := by
  simp [extLe, ha, hb]

theorem extLe_total {xs : List α} {le : α → α → Bool} (h : TotalPreorderOn xs le) (a b : α) :
    (extLe xs le a b || extLe xs le b a) = true := by
  by_cases ha : a ∈ xs <;> by_cases hb : b ∈ xs <;> simp [extLe, ha, hb]
  exact by simpa using h.total a ha b hb

theorem extLe_trans {xs : List α} {le : α → α → Bool} (h : TotalPreorderOn xs le) (a b c : α) :
    extLe xs le a b = true → extLe xs le b c = true → extLe xs le a c = true := by
  by_cases ha : a ∈ xs <;> by_cases hb : b ∈ xs <;> by_cases hc : c ∈ xs <;> simp [extLe, ha, hb, hc]
  exact h.trans a ha b hb c hc

theorem mergeSort_congr_on (xs : List α) (le le' : α → α → Bool)
    (h : ∀ a, a ∈ xs → ∀ b, b ∈ xs → le a b = le' a b) : mergeSort xs le = mergeSort xs le' := by
  have := map_mergeSort (r := le) (s := le') (f := id) (l := xs) (by simpa using h)
  simpa using this

theorem mergeSort_ext (xs : List α) (le : α → α → Bool) :
    mergeSort xs le = mergeSort xs (extLe xs le) :=
  mergeSort_congr_on xs le _ fun _ ha _ hb => (extLe_agree xs le ha hb).symm

theorem sorted_of_preorderOn {xs : List α} {le : α → α → Bool} (h : TotalPreorderOn xs le) :
    (mergeSort xs le).Pairwise (fun a b => le a b = true) := by
  have hp := pairwise_mergeSort (le := extLe xs le) (extLe_trans h) (extLe_total h) xs
  rw [← mergeSort_ext] at hp
  refine hp.imp_of_mem ?_
  intro a b ha hb hab
  rw [mem_mergeSort] at ha hb
  rwa [extLe_agree xs le ha hb] at hab

theorem stable_of_preorderOn {xs : List α} {le : α → α → Bool} (h : TotalPreorderOn xs le)
    {ys : List α} (hs : ys <+ xs) (hp : ys.Pairwise (fun a b => le a b = true)) :
    ys <+ mergeSort xs le := by
  rw [mergeSort_ext]
  refine sublist_mergeSort (extLe_trans h) (extLe_total h) ?_ hs
  refine hp.imp_of_mem ?_
  intro a b ha hb hab
  rwa [extLe_agree xs le (hs.subset ha) (hs.subset hb)]

theorem idem_of_preorderOn {xs : List α} {le : α → α → Bool} (h : TotalPreorderOn xs le) :
    mergeSort (mergeSort xs le) le = mergeSort xs le :=
  mergeSort_of_pairwise (sorted_of_preorderOn h)

/-- Uniqueness of the stable sorted arrangement: a rearrangement of the index-tagged input that is
sorted by (`le`, then input position) is, after dropping the tags, `mergeSort xs le`. -/
theorem stable_unique_of_preorderOn {xs : List α} {le : α → α → Bool} (h : TotalPreorderOn xs le)
    (ys : List (α × Nat)) (hperm : ys.Perm xs.zipIdx)
    (hsorted : ys.Pairwise (fun a b => zipIdxLE le a b = true)) :
    ys.map (·.1) = mergeSort xs le := by
  have hmemfst : ∀ p, p ∈ xs.zipIdx → p.1 ∈ xs := by
    intro p hp
    have := (mem_zipIdx_iff_getElem?.mp hp)
    exact mem_of_getElem? this
  have hagree : ∀ p, p ∈ xs.zipIdx → ∀ q, q ∈ xs.zipIdx →
      zipIdxLE (extLe xs le) p q = zipIdxLE le p q := by
    intro p hp q hq
    simp only [zipIdxLE, extLe_agree xs le (hmemfst p hp) (hmemfst q hq),
      extLe_agree xs le (hmemfst q hq) (hmemfst p hp)]
  have hm := pairwise_mergeSort (le := zipIdxLE (extLe xs le))
    (zipIdxLE_trans (extLe_trans h)) (zipIdxLE_total (extLe_total h)) xs.zipIdx
  have hys : ys.Pairwise (fun a b => zipIdxLE (extLe xs le) a b = true) := by
    refine hsorted.imp_of_mem ?_
    intro a b ha hb hab
    rwa [hagree a (hperm.mem_iff.mp ha) b (hperm.mem_iff.mp hb)]
  have heq : ys = mergeSort xs.zipIdx (zipIdxLE (extLe xs le)) := by
    refine Perm.eq_of_pairwise (le := fun a b => zipIdxLE (extLe xs le) a b = true) ?_ hys hm
      (hperm.trans (mergeSort_perm _ _).symm)
    intro a b ha hb hab hba
    have ha' := hperm.mem_iff.mp ha
    have hb' : b ∈ xs.zipIdx := by rwa [mem_mergeSort] at hb
    have hidx : a.2 = b.2 := by
      simp only [zipIdxLE] at hab hba
      by_cases h1 : extLe xs le a.1 b.1 = true <;> by_cases h2 : extLe xs le b.1 a.1 = true <;>
        simp [h1, h2] at hab hba
      omega
    have h1 := mem_zipIdx_iff_getElem?.mp ha'
    have h2 := mem_zipIdx_iff_getElem?.mp hb'
    rw [hidx] at h1
    have : a.1 = b.1 := by rw [h1] at h2; exact Option.some.inj h2
    exact Prod.ext this hidx
  rw [heq, mergeSort_zipIdx, ← mergeSort_ext]

end ext

end Liquid.C14

namespace Liquid.C14
open Liquid Liquid.Arr List

/-! ### order facts -/

theorem bne_gt_iff (o : Ordering) : (o != Ordering.gt) = true ↔ o ≠ .gt := by
  cases o <;> simp

theorem int_le_iff (x y : Int) : (compare x y != Ordering.gt) = true ↔ x ≤ y := by
  rw [bne_gt_iff, Ne, Int.compare_eq_gt]; omega

/-- `a ≤ b` on strings (code-point lexicographic) -/
def strLe (a b : Str) : Bool := strCmp a b != .gt

theorem strLe_total : ∀ a b : Str, (strLe a b || strLe b a) = true
  | [], [] => by simp [strLe, strCmp]
  | [], _ :: _ => by simp [strLe, strCmp]
  | _ :: _, [] => by simp [strLe, strCmp]
  | a :: as, b :: bs => by
    have ih := strLe_total as bs
    simp only [strLe, strCmp] at ih ⊢
    by_cases h1 : a.toNat < b.toNat
    · simp [h1]
    · by_cases h2 : b.toNat < a.toNat
      · simp [h1, h2]
      · simpa [h1, h2] using ih

theorem strLe_trans : ∀ a b c : Str, strLe a b = true → strLe b c = true → strLe a c = true
  | [], _, [] => by simp [strLe, strCmp]
  | [], _, _ :: _ => by simp [strLe, strCmp]
  | _ :: _, [], _ => by simp [strLe, strCmp]
  | _ :: _, _ :: _, [] => by simp [strLe, strCmp]
  | a :: as, b :: bs, c :: cs => by
    have ih := strLe_trans as bs cs
    simp only [strLe, strCmp] at ih ⊢
    by_cases ab : a.toNat < b.toNat
    · by_cases bc : b.toNat < c.toNat
      · have : a.toNat < c.toNat := by omega
        simp [this]
      · by_cases cb : c.toNat < b.toNat
        · simp [bc, cb]
        · have : a.toNat < c.toNat := by omega
          simp [this]
    · by_cases ba : b.toNat < a.toNat
      · simp [ab, ba]
      · by_cases bc : b.toNat < c.toNat
        · have : a.toNat < c.toNat := by omega
          simp [this]
        · by_cases cb : c.toNat < b.toNat
          · simp [bc, cb]
          · have h1 : ¬ a.toNat < c.toNat := by omega
            have h2 : ¬ c.toNat < a.toNat := by omega
            simpa [ab, ba, bc, cb, h1, h2] using ih

/-- sort key of a value: (kind rank with nil last, float tier, number, text) -/
abbrev SK := Nat × Nat × Int × Str

def lexLe (a b : SK) : Bool :=
  decide (a.1 < b.1) || (a.1 == b.1 &&
    (decide (a.2.1 < b.2.1) || (a.2.1 == b.2.1 &&
      (decide (a.2.2.1 < b.2.2.1) || (a.2.2.1 == b.2.2.1 && strLe a.2.2.2 b.2.2.2)))))

theorem lexLe_total (a b : SK) : (lexLe a b || lexLe b a) = true := by
  obtain ⟨a1, a2, a3, a4⟩ := a
  obtain ⟨b1, b2, b3, b4⟩ := b
  have hs := strLe_total a4 b4
  simp only [lexLe]
  rcases Nat.lt_trichotomy a1 b1 with h | h | h
  · simp [h]
  · subst h
    rcases Nat.lt_trichotomy a2 b2 with h | h | h
    · simp [h]
    · subst h
      rcases Int.lt_trichotomy a3 b3 with h | h | h
      · simp [h]
      · subst h; simpa using hs
      · simp [h]
    · simp [h]
  · simp [h]

theorem lexLe_trans (a b c : SK) : lexLe a b = true → lexLe b c = true → lexLe a c = true := by
  obtain ⟨a1, a2, a3, a4⟩ := a
  obtain ⟨b1, b2, b3, b4⟩ := b
  obtain ⟨c1, c2, c3, c4⟩ := c
  have hs := strLe_trans a4 b4 c4
  simp only [lexLe, Bool.or_eq_true, Bool.and_eq_true, decide_eq_true_eq, beq_iff_eq]
  intro h1 h2
  rcases h1 with h1 | ⟨e1, h1⟩
  · rcases h2 with h2 | ⟨e2, h2⟩
    · left; omega
    · left; omega
  · rcases h2 with h2 | ⟨e2, h2⟩
    · left; omega
    · right; refine ⟨by omega, ?_⟩
      rcases h1 with h1 | ⟨f1, h1⟩
      · rcases h2 with h2 | ⟨f2, h2⟩
        · left; omega
        · left; omega
      · rcases h2 with h2 | ⟨f2, h2⟩
        · left; omega
        · right; refine ⟨by omega, ?_⟩
          rcases h1 with h1 | ⟨g1, h1⟩
          · rcases h2 with h2 | ⟨g2, h2⟩
            · left; omega
            · left; omega
          · rcases h2 with h2 | ⟨g2, h2⟩
            · left; omega
            · right; exact ⟨by omega, hs h1 h2⟩

theorem int_cmp_lex (x y : Int) :
    (compare x y != Ordering.gt) = (decide (x < y) || (x == y && (Ordering.eq != Ordering.gt))) := by
  rcases Int.lt_trichotomy x y with h1 | h1 | h1
  · have : (compare x y != Ordering.gt) = true := (int_le_iff x y).2 (by omega)
    simp [this, h1]
  · have : (compare x y != Ordering.gt) = true := (int_le_iff x y).2 (by omega)
    simp [h1]
  · have : (compare x y != Ordering.gt) = false := by
      rw [← Bool.not_eq_true, int_le_iff]; omega
    rw [this]
    have h2 : ¬ x < y := by omega
    have h3 : ¬ x = y := by omega
    simp [h2, h3]

def skF : FV → SK
  | .nan => (1, 0, 0, [])
  | .ninf => (0, 0, 0, [])
  | .fin q => (0, 1, q, [])
  | .pinf => (0, 2, 0, [])

def sk : V → SK
  | .nil => (8, 0, 0, [])
  | .st _ => (7, 0, 0, [])
  | .sc (.int i) => (0, 1, i, [])
  | .sc (.flt f) => skF f.toFV
  | .sc (.bool b) => (2, 0, if b then 1 else 0, [])
  | .sc (.dt _) => (3, 0, 0, [])
  | .sc (.date d) => (3, 0, d.days, [])
  | .sc (.str s) => (4, 0, 0, s)
  | .arr _ => (5, 0, 0, [])
  | .obj _ => (6, 0, 0, [])

theorem sortLe_eq_lex (fl : Bool) (a b : V) (ha : nice fl a = true) (hb : nice fl b = true) :
    sortLe a b = lexLe (sk a) (sk b) := by
  rcases a with _ | s | (i | f | bb | d | d | s) | xs | kvs <;>
  rcases b with _ | s' | (i' | f' | bb' | d' | d' | s') | xs' | kvs'
  all_goals first
    | (simp [nice] at ha; done)
    | (simp [nice] at hb; done)
    | (simp [nice] at ha hb; simp_all; done)
    | skip
  all_goals try (rcases hx : f.toFV with _ | _ | _ | q)
  all_goals try (rcases hy : f'.toFV with _ | _ | _ | q')
  all_goals simp only [sortLe, sortCmp, nilSafeCompare, V.isNil, kindRank, sk, lexLe, valueCmp, scalarCmp]
  all_goals try simp [strLe, strCmp, skF, FV.cmp, isNanFV, *]
  all_goals try decide
  all_goals try exact int_cmp_lex _ _
  all_goals try (cases bb <;> cases bb' <;> decide)


theorem preorderOn_of_nice (fl : Bool) (key : V → V) (xs : List V)
    (h : ∀ v, v ∈ xs → nice fl (key v) = true) :
    TotalPreorderOn xs (fun a b => sortLe (key a) (key b)) where
  total a ha b hb := by
    simp only [sortLe_eq_lex fl _ _ (h a ha) (h b hb), sortLe_eq_lex fl _ _ (h b hb) (h a ha)]
    exact lexLe_total _ _
  trans a ha b hb c hc := by
    simp only [sortLe_eq_lex fl _ _ (h a ha) (h b hb), sortLe_eq_lex fl _ _ (h b hb) (h c hc),
      sortLe_eq_lex fl _ _ (h a ha) (h c hc)]
    exact lexLe_trans _ _ _

theorem sortLe_nil_left (b : V) : sortLe .nil b = b.isNil := by
  cases b <;> rfl

/-! ### sort_natural: the key comparator is a total preorder on everything -/

theorem casecmpLe_total (a b : Option Str) : (casecmpLe a b || casecmpLe b a) = true := by
  cases a <;> cases b <;> simp [casecmpLe, casecmp]
  exact by simpa [strLe] using strLe_total _ _

theorem casecmpLe_trans (a b c : Option Str) :
    casecmpLe a b = true → casecmpLe b c = true → casecmpLe a c = true := by
  cases a <;> cases b <;> cases c <;> simp [casecmpLe, casecmp]
  exact by simpa [strLe] using strLe_trans _ _ _

theorem casecmpLe_none_left (b : Option Str) : casecmpLe none b = b.isNone := by
  cases b <;> rfl

/-- `sort_natural` is the stable sort by the case-folded key. -/
theorem sortNaturalBy_eq (lower : Str → Str) (key : V → V) (xs : List V) :
    sortNaturalBy lower key xs =
      xs.mergeSort (fun a b => casecmpLe (casecmpKey lower (key a)) (casecmpKey lower (key b))) := by
  unfold sortNaturalBy
  rw [map_mergeSort (s := fun a b => casecmpLe (casecmpKey lower (key a)) (casecmpKey lower (key b)))
    (f := fun p : Option Str × V => p.2)]
  · simp [Function.comp_def]
  · intro a ha b hb
    simp only [mem_map] at ha hb
    obtain ⟨v, _, rfl⟩ := ha
    obtain ⟨w, _, rfl⟩ := hb
    rfl

theorem natural_preorderOn (lower : Str → Str) (key : V → V) (xs : List V) :
    TotalPreorderOn xs (fun a b => casecmpLe (casecmpKey lower (key a)) (casecmpKey lower (key b))) where
  total _ _ _ _ := casecmpLe_total _ _
  trans _ _ _ _ _ _ := casecmpLe_trans _ _ _

/-! ### uniq -/

theorem uniqFrom_append (seen l1 l2 : List V) :
    uniqFrom seen (l1 ++ l2) = uniqFrom seen l1 ++ uniqFrom (seen ++ uniqFrom seen l1) l2 := by
  induction l1 generalizing seen with
  | nil => simp [uniqFrom]
  | cons y r ih =>
    simp only [cons_append, uniqFrom]
    split
    · exact ih seen
    · rw [ih (seen ++ [y])]; simp

theorem uniqFrom_sublist (seen xs : List V) : uniqFrom seen xs <+ xs := by
  induction xs generalizing seen with
  | nil => simp [uniqFrom]
  | cons y r ih =>
    simp only [uniqFrom]
    split
    · exact (ih seen).cons y
    · exact (ih _).cons_cons y

theorem uniqFrom_distinct (seen xs : List V) :
    (uniqFrom seen xs).Pairwise (fun a b => valueEq a b = false) ∧
    ∀ s, s ∈ seen → ∀ y, y ∈ uniqFrom seen xs → valueEq s y = false := by
  induction xs generalizing seen with
  | nil => simp [uniqFrom]
  | cons y r ih =>
    simp only [uniqFrom]
    split
    · exact ih seen
    · rename_i hy
      obtain ⟨h1, h2⟩ := ih (seen ++ [y])
      refine ⟨pairwise_cons.mpr ⟨fun z hz => h2 y (by simp) z hz, h1⟩, ?_⟩
      intro s hs z hz
      rcases mem_cons.mp hz with rfl | hz
      · simp only [any_eq_true, not_exists, not_and, Bool.not_eq_true] at hy
        exact hy s hs
      · exact h2 s (by simp [hs]) z hz

theorem uniqFrom_covers (seen xs : List V) :
    ∀ x, x ∈ xs → (∃ k, k ∈ seen ++ uniqFrom seen xs ∧ valueEq k x = true) ∨ x ∈ uniqFrom seen xs := by
  induction xs generalizing seen with
  | nil => simp
  | cons y r ih =>
    intro x hx
    simp only [uniqFrom]
    split
    · rename_i hy
      rcases mem_cons.mp hx with rfl | hx
      · left
        simp only [any_eq_true] at hy
        obtain ⟨k, hk, hkx⟩ := hy
        exact ⟨k, by simp [hk], hkx⟩
      · exact ih seen x hx
    · rcases mem_cons.mp hx with rfl | hx
      · right; simp
      · rcases ih (seen ++ [y]) x hx with ⟨k, hk, hkx⟩ | h
        · left; exact ⟨k, by simpa using hk, hkx⟩
        · right; simp [h]

theorem inI64_iff (i : Int) :
    inI64 i = true ↔ -9223372036854775808 ≤ i ∧ i ≤ 9223372036854775807 := by
  simp only [inI64, i64Min, i64Max, Bool.and_eq_true]
  constructor
  · rintro ⟨h1, h2⟩; exact ⟨of_decide_eq_true h1, of_decide_eq_true h2⟩
  · rintro ⟨h1, h2⟩; exact ⟨decide_eq_true h1, decide_eq_true h2⟩


theorem valueCmp_none_of_rank_ne (a b : V) (h : kindRank a ≠ kindRank b) : valueCmp a b = none := by
  rcases a with _ | s | (i | f | bb | d | d | s) | xs | kvs <;>
  rcases b with _ | s' | (i' | f' | bb' | d' | d' | s') | xs' | kvs'
  all_goals first
    | rfl
    | (exfalso; exact h rfl)
    | skip
  all_goals try (rcases hx : f.toFV with _ | _ | _ | q)
  all_goals try (rcases hy : f'.toFV with _ | _ | _ | q')
  all_goals simp only [kindRank, valueCmp, scalarCmp, FV.cmp, FV.ofI64, isNanFV] at h ⊢
  all_goals simp_all

/-- what the repaired comparator calls "not greater" is never "greater" by the property's reading -/
theorem not_cmpGt_of_sortLe (a b : V) (h : sortLe a b = true) : cmpGt a b = false := by
  by_cases ha : a.isNil = true
  · have : a = .nil := by cases a <;> simp_all [V.isNil]
    subst this
    rw [sortLe_nil_left] at h
    have : b = .nil := by cases b <;> simp_all [V.isNil]
    subst this; rfl
  · by_cases hb : b.isNil = true
    · have : b = .nil := by cases b <;> simp_all [V.isNil]
      subst this
      cases a <;> simp_all [cmpGt, nilSafeCompareOld, V.isNil]
    · simp only [sortLe, sortCmp, nilSafeCompare, ha, hb, Bool.false_eq_true, Bool.and_self, if_false] at h
      simp only [cmpGt, nilSafeCompareOld, ha, hb, Bool.false_eq_true, Bool.and_self, if_false]
      by_cases h1 : kindRank a < kindRank b
      · rw [valueCmp_none_of_rank_ne a b (by omega)]; rfl
      · by_cases h2 : kindRank b < kindRank a
        · simp [h1, h2] at h
        · simp only [h1, h2, if_false] at h
          cases hv : valueCmp a b with
          | none => rfl
          | some o => cases o <;> simp_all


theorem round_small (x : Int) (h : x.natAbs < 2^53) : roundI64ToF64 x = x := by
  have hl : bitLen x.natAbs ≤ 53 := by
    unfold bitLen
    split
    · omega
    · rename_i h0
      have := (Nat.log2_lt h0 (k := 53)).2 h
      omega
  simp only [roundI64ToF64, hl, if_true]
  split <;> simp only [Int.ofNat_eq_natCast] <;> omega

/-- the scale of `FV.fin`: one unit is 2^-1074 -/
def scaleS : Int := 2^1074

theorem scaleS_pos : 0 < scaleS := Int.pow_pos (by decide)

theorem ofI64_small (x : Int) (h : x.natAbs < 2^53) : FV.ofI64 x = .fin (x * scaleS) := by
  unfold FV.ofI64 scaleS
  rw [round_small x h]

theorem int_cmp_lex_scaled (x y : Int) :
    (compare x y != Ordering.gt) =
      (decide (x * scaleS < y * scaleS) || (x * scaleS == y * scaleS && (Ordering.eq != Ordering.gt))) := by
  have h0 := int_cmp_lex x y
  have h1 : (x * scaleS < y * scaleS) ↔ x < y := Int.mul_lt_mul_right scaleS_pos
  have h2 : (x * scaleS = y * scaleS) ↔ x = y := by
    constructor
    · intro h; exact Int.eq_of_mul_eq_mul_right (Int.ne_of_gt scaleS_pos) h
    · intro h; rw [h]
  have e1 : decide (x * scaleS < y * scaleS) = decide (x < y) := decide_eq_decide.2 h1
  have e2 : (x * scaleS == y * scaleS) = (x == y) := by
    rw [Bool.eq_iff_iff]; simp only [beq_iff_eq]; exact h2
  rw [e1, e2]; exact h0

def sk2 : V → SK
  | .sc (.int i) => (0, 1, i * scaleS, [])
  | v => sk v

theorem sortLe_eq_lex2 (a b : V) (ha : nice2 a = true) (hb : nice2 b = true) :
    sortLe a b = lexLe (sk2 a) (sk2 b) := by
  rcases a with _ | s | (i | f | bb | d | d | s) | xs | kvs <;>
  rcases b with _ | s' | (i' | f' | bb' | d' | d' | s') | xs' | kvs'
  all_goals first
    | (simp [nice2] at ha; done)
    | (simp [nice2] at hb; done)
    | skip
  all_goals try (have hi := ofI64_small i (by simpa [nice2] using ha))
  all_goals try (have hi' := ofI64_small i' (by simpa [nice2] using hb))
  all_goals try (rcases hx : f.toFV with _ | _ | _ | q)
  all_goals try (rcases hy : f'.toFV with _ | _ | _ | q')
  all_goals simp only [sortLe, sortCmp, nilSafeCompare, V.isNil, kindRank, sk, sk2, lexLe, valueCmp, scalarCmp]
  all_goals try simp only [hi]
  all_goals try simp only [hi']
  all_goals try simp [strLe, strCmp, skF, FV.cmp, isNanFV, *]
  all_goals try decide
  all_goals try exact int_cmp_lex _ _
  all_goals try exact int_cmp_lex_scaled _ _
  all_goals try (cases bb <;> cases bb' <;> decide)


theorem preorderOn_of_nice2 (key : V → V) (xs : List V)
    (h : ∀ v, v ∈ xs → nice2 (key v) = true) :
    TotalPreorderOn xs (fun a b => sortLe (key a) (key b)) where
  total a ha b hb := by
    simp only [sortLe_eq_lex2 _ _ (h a ha) (h b hb), sortLe_eq_lex2 _ _ (h b hb) (h a ha)]
    exact lexLe_total _ _
  trans a ha b hb c hc := by
    simp only [sortLe_eq_lex2 _ _ (h a ha) (h b hb), sortLe_eq_lex2 _ _ (h b hb) (h c hc),
      sortLe_eq_lex2 _ _ (h a ha) (h c hc)]
    exact lexLe_trans _ _ _

end Liquid.C14
