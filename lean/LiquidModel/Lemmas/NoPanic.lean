/-
  C02 core: rendering a well-formed template never reaches a panic site of the interpreter (other
  than the two counter-overflow sites, which need 2^63 increments), provided the filters and the
  partial store do not panic.  Proved by the same induction as `MProp.renderN`, with the pure
  `lift` sites discharged by lemmas about the evaluators.
-/
import LiquidModel.Lemmas.Shape
import LiquidModel.Props.C18
namespace Liquid

/-! ### well-formedness the parser guarantees: a `cycle` tag has at least one value -/

mutual
def wfN : Node → Bool
  | .cycle _ vals => !vals.isEmpty
  | .capture _ b => wfL b
  | .cond _ _ t e => wfL t && wfO e
  | .case_ _ arms e => wfA arms && wfO e
  | .for_ _ _ _ _ _ b e => wfL b && wfO e
  | .tablerow _ _ _ _ _ b => wfL b
  | .ifchanged b => wfL b
  | _ => true
def wfL : List Node → Bool
  | [] => true
  | n :: r => wfN n && wfL r
def wfO : Option (List Node) → Bool
  | none => true
  | some t => wfL t
def wfA : List (List Expr × List Node) → Bool
  | [] => true
  | (_, b) :: r => wfL b && wfA r
end

/-! ### which panics are tolerated, and safety of pure results -/

def okPanic (s : String) : Bool := s == "increment: add overflow" || s == "decrement: sub overflow"

def Res.safe {α} : Res α → Bool
  | .panic s => okPanic s
  | _ => true

theorem Res.safe_of_not_panic {α} (r : Res α) (h : r.isPanic = false) : r.safe = true := by
  cases r <;> simp_all [Res.safe, Res.isPanic]

/-! ### pure evaluators never panic -/

theorem Stack.get_not_panic (st : Stack) (p : List Sc) : (st.get p).isPanic = false := by
  rw [C18.C18_get_tryget]; cases st.tryGet p <;> rfl

mutual
theorem Expr.eval_not_panic (st : Stack) : ∀ e : Expr, (e.eval st).isPanic = false
  | .lit v => rfl
  | .var root idx => by
    have h := evalIdx_not_panic st idx
    simp only [Expr.eval]
    cases hi : evalIdx st idx <;> simp_all [Res.isPanic]
    exact Stack.get_not_panic st _
theorem evalIdx_not_panic (st : Stack) : ∀ es : List Expr, (evalIdx st es).isPanic = false
  | [] => rfl
  | e :: r => by
    have h1 := Expr.eval_not_panic st e
    have h2 := evalIdx_not_panic st r
    simp only [evalIdx]
    cases he : e.eval st with
    | ok v =>
      cases v with
      | sc s => simp only []; cases hr : evalIdx st r <;> simp_all [Res.isPanic]
      | nil => rfl
      | st x => rfl
      | arr xs => rfl
      | obj kvs => rfl
    | err => rfl
    | io => rfl
    | fuel => rfl
    | panic s => simp [he, Res.isPanic] at h1
end

theorem bind_not_panic {α β} (r : Res α) (f : α → Res β) (h1 : r.isPanic = false)
    (h2 : ∀ a, (f a).isPanic = false) : (r >>= f).isPanic = false := by
  cases r <;> simp_all [bind, Res.bind, Res.isPanic]

theorem cmpOpEval_not_panic (op : CmpOp) (a b : V) : (cmpOpEval op a b).isPanic = false := by
  cases op <;> simp [cmpOpEval, Res.isPanic]
  unfold containsCheck; cases a <;> simp [Res.isPanic] <;> cases b <;> simp [Res.isPanic]

theorem Cond.eval_not_panic (st : Stack) : ∀ c : Cond, (c.eval st).isPanic = false
  | .bin l op r => by
    simp only [Cond.eval]
    exact bind_not_panic _ _ (Expr.eval_not_panic st l) (fun a =>
      bind_not_panic _ _ (Expr.eval_not_panic st r) (fun b => cmpOpEval_not_panic op a b))
  | .exist e => rfl
  | .and a b => by
    simp only [Cond.eval]
    refine bind_not_panic _ _ (Cond.eval_not_panic st a) (fun x => ?_)
    cases x
    · rfl
    · exact Cond.eval_not_panic st b
  | .or a b => by
    simp only [Cond.eval]
    refine bind_not_panic _ _ (Cond.eval_not_panic st a) (fun x => ?_)
    cases x
    · exact Cond.eval_not_panic st b
    · rfl

theorem getArray_not_panic (v : V) : (getArray v).isPanic = false := by
  cases v <;> simp [getArray, Res.isPanic]

theorem intArg_not_panic (st : Stack) (e : Expr) : (intArg st e).isPanic = false := by
  unfold intArg
  refine bind_not_panic _ _ (Expr.eval_not_panic st e) (fun v => ?_)
  cases v with
  | sc s => simp only []; cases s.toInteger? <;> rfl
  | _ => rfl

theorem RangeE.eval_not_panic (st : Stack) (r : RangeE) : (r.eval st).isPanic = false := by
  cases r with
  | arr e => exact bind_not_panic _ _ (Expr.eval_not_panic st e) (fun v => getArray_not_panic v)
  | counted a b =>
    exact bind_not_panic _ _ (intArg_not_panic st a) (fun _ => bind_not_panic _ _ (intArg_not_panic st b) (fun _ => rfl))

theorem evalAttr_not_panic (st : Stack) (o : Option Expr) : (evalAttr st o).isPanic = false := by
  cases o with
  | none => rfl
  | some e =>
    refine bind_not_panic _ _ (Expr.eval_not_panic st e) (fun v => ?_)
    cases v with
    | sc s => simp only []; cases s.toInteger? <;> rfl
    | _ => rfl

theorem evalVars_not_panic (st : Stack) : ∀ (vs : List (Str × Expr)) (acc : Obj), (evalVars st vs acc).isPanic = false
  | [], _ => rfl
  | (k, e) :: r, acc => by
    simp only [evalVars]
    cases e.tryEval st with
    | some v => exact evalVars_not_panic st r _
    | none => rfl

theorem evalArgs_not_panic (st : Stack) : ∀ es : List Expr, (evalArgs st es).isPanic = false
  | [] => rfl
  | e :: r => by
    simp only [evalArgs]
    exact bind_not_panic _ _ (Expr.eval_not_panic st e) (fun _ =>
      bind_not_panic _ _ (evalArgs_not_panic st r) (fun _ => rfl))

theorem anyEqArgs_not_panic (st : Stack) (value : V) : ∀ es : List Expr, (anyEqArgs st value es).isPanic = false
  | [] => rfl
  | a :: r => by
    have h := Expr.eval_not_panic st a
    simp only [anyEqArgs]
    cases he : a.eval st with
    | ok v =>
      simp only []
      by_cases hv : valueEq v value = true
      · simp [hv, Res.isPanic]
      · simp only [hv]; exact anyEqArgs_not_panic st value r
    | err => rfl
    | io => rfl
    | fuel => rfl
    | panic s => simp [he, Res.isPanic] at h

theorem casePick_not_panic (st : Stack) (value : V) : ∀ arms, (casePick st value arms).isPanic = false
  | [] => rfl
  | (args, body) :: r => by
    have h := anyEqArgs_not_panic st value args
    simp only [casePick]
    cases ha : anyEqArgs st value args with
    | ok b => cases b <;> simp [Res.isPanic]; exact casePick_not_panic st value r
    | err => rfl
    | io => rfl
    | fuel => rfl
    | panic s => simp [ha, Res.isPanic] at h

/-- filters that never panic -/
def FiltersSafe (env : Env) : Prop := ∀ name f, env.filters name = some f → ∀ v args, (f v args).isPanic = false

theorem foldlM_not_panic {α β} (f : β → α → Res β) (hf : ∀ b a, (f b a).isPanic = false) :
    ∀ (l : List α) (init : β), (l.foldlM f init).isPanic = false
  | [], _ => rfl
  | a :: r, init => by
    simp only [List.foldlM]
    exact bind_not_panic _ _ (hf init a) (fun b => foldlM_not_panic f hf r b)

theorem evalChain_not_panic (env : Env) (hf : FiltersSafe env) (st : Stack) (e : Expr) (fs : List FCall) :
    (evalChain env st e fs).isPanic = false := by
  unfold evalChain
  refine bind_not_panic _ _ (Expr.eval_not_panic st e) (fun v => ?_)
  refine foldlM_not_panic _ (fun acc f => ?_) fs v
  refine bind_not_panic _ _ (evalArgs_not_panic st f.args) (fun args => ?_)
  cases hfn : env.filters f.name with
  | none => rfl
  | some fn => exact hf _ fn hfn acc args

end Liquid

namespace Liquid

/-! ### the render monad: safe computations -/

def Layer.isGlobal : Layer → Bool | .global _ => true | _ => false
def Layer.isIndex : Layer → Bool | .index _ => true | _ => false
/-- a runtime as `RuntimeBuilder::build` makes them has a global frame and a counter frame -/
def hasGI (st : Stack) : Bool := st.any Layer.isGlobal && st.any Layer.isIndex

theorem hasGI_of_shape (a b : Stack) (h : b.shape = a.shape) : hasGI b = hasGI a := by
  have key : ∀ (a b : Stack), b.shape = a.shape →
      b.any Layer.isGlobal = a.any Layer.isGlobal ∧ b.any Layer.isIndex = a.any Layer.isIndex := by
    intro a
    induction a with
    | nil => intro b h; cases b <;> simp_all [Stack.shape]
    | cons x xs ih =>
      intro b h
      cases b with
      | nil => simp [Stack.shape] at h
      | cons y ys =>
        simp only [Stack.shape, List.map_cons, List.cons.injEq] at h
        obtain ⟨i1, i2⟩ := ih ys h.2
        cases x <;> cases y <;> simp_all [Layer.kind, Layer.isGlobal, Layer.isIndex]
  obtain ⟨h1, h2⟩ := key a b h
  simp [hasGI, h1, h2]

theorem setGlobal_ok (st : Stack) (k : Str) (v : V) (h : st.any Layer.isGlobal = true) :
    ∃ st', st.setGlobal k v = .ok st' := by
  induction st with
  | nil => simp at h
  | cons l r ih =>
    cases l with
    | global g => exact ⟨_, rfl⟩
    | plain d => obtain ⟨s', hs⟩ := ih (by simpa [Layer.isGlobal] using h); exact ⟨Layer.plain d :: s', by simp [Stack.setGlobal, hs, bind, Res.bind, pure]⟩
    | sandbox d q => obtain ⟨s', hs⟩ := ih (by simpa [Layer.isGlobal] using h); exact ⟨Layer.sandbox d q :: s', by simp [Stack.setGlobal, hs, bind, Res.bind, pure]⟩
    | index d => obtain ⟨s', hs⟩ := ih (by simpa [Layer.isGlobal] using h); exact ⟨Layer.index d :: s', by simp [Stack.setGlobal, hs, bind, Res.bind, pure]⟩

theorem setIndex_ok (st : Stack) (k : Str) (v : V) (h : st.any Layer.isIndex = true) :
    ∃ st', st.setIndex k v = .ok st' := by
  induction st with
  | nil => simp at h
  | cons l r ih =>
    cases l with
    | index g => exact ⟨_, rfl⟩
    | plain d => obtain ⟨s', hs⟩ := ih (by simpa [Layer.isIndex] using h); exact ⟨Layer.plain d :: s', by simp [Stack.setIndex, hs, bind, Res.bind, pure]⟩
    | sandbox d q => obtain ⟨s', hs⟩ := ih (by simpa [Layer.isIndex] using h); exact ⟨Layer.sandbox d q :: s', by simp [Stack.setIndex, hs, bind, Res.bind, pure]⟩
    | global d => obtain ⟨s', hs⟩ := ih (by simpa [Layer.isIndex] using h); exact ⟨Layer.global d :: s', by simp [Stack.setIndex, hs, bind, Res.bind, pure]⟩

/-- frames stay balanced AND, started with a global and a counter frame, the outcome is safe -/
def SP {α} (m : M α) : Prop :=
  Pres shapeRel m ∧ ∀ rt w, hasGI rt.layers = true → (m rt w).1.safe = true

namespace SP

theorem pure {α} (a : α) : SP (Pure.pure a : M α) := ⟨shapeRel.toMProp.pure a, fun _ _ _ => rfl⟩
theorem lift {α} (r : Res α) (h : r.safe = true) : SP (M.lift r) := ⟨shapeRel.toMProp.lift r, fun _ _ _ => h⟩
theorem liftNP {α} (r : Res α) (h : r.isPanic = false) : SP (M.lift r) := lift r (Res.safe_of_not_panic r h)
theorem getSt : SP M.getSt := ⟨shapeRel.toMProp.getSt, fun _ _ _ => rfl⟩
theorem getRegs : SP M.getRegs := ⟨shapeRel.toMProp.getRegs, fun _ _ _ => rfl⟩
theorem setRegs (g : Regs) : SP (M.setRegs g) := ⟨shapeRel.toMProp.setRegs g, fun _ _ _ => rfl⟩
theorem emit (s : Str) : SP (M.emit s) :=
  ⟨shapeRel.toMProp.emit s, fun rt w _ => by unfold M.emit; cases w.write s <;> rfl⟩

theorem bind {α β} {m : M α} {f : α → M β} (hm : SP m) (hf : ∀ a, SP (f a)) : SP (m >>= f) := by
  refine ⟨shapeRel.toMProp.bind hm.1 (fun a => (hf a).1), ?_⟩
  intro rt w hgi
  have h1 := hm.2 rt w hgi
  have hs := hm.1 rt w
  rw [M.run_bind]
  rcases hr : m rt w with ⟨r, rt', w'⟩
  rw [hr] at h1 hs
  cases r with
  | ok a => exact (hf a).2 rt' w' (by rw [hasGI_of_shape _ _ hs]; exact hgi)
  | err => rfl
  | io => rfl
  | fuel => rfl
  | panic s => exact h1

/-- binding the result of a pure computation: the continuation only has to be safe for the value
actually produced -/
theorem bindLift {α β} {r : Res α} {f : α → M β} (hr : r.isPanic = false)
    (hf : ∀ a, r = .ok a → SP (f a)) : SP (M.lift r >>= f) := by
  cases r with
  | ok a =>
    have h := hf a rfl
    exact ⟨fun rt w => h.1 rt w, fun rt w hgi => h.2 rt w hgi⟩
  | err => exact ⟨fun rt _ => shapeRel.refl rt, fun _ _ _ => rfl⟩
  | io => exact ⟨fun rt _ => shapeRel.refl rt, fun _ _ _ => rfl⟩
  | fuel => exact ⟨fun rt _ => shapeRel.refl rt, fun _ _ _ => rfl⟩
  | panic s => simp [Res.isPanic] at hr

theorem setGlobalM (x : Str) (v : V) : SP (setGlobalM x v) := by
  refine ⟨shapeRel.toMProp.setGlobalM x v, ?_⟩
  intro rt w hgi
  have hg : rt.layers.any Layer.isGlobal = true := by
    unfold hasGI at hgi; rw [Bool.and_eq_true] at hgi; exact hgi.1
  obtain ⟨st', hs⟩ := setGlobal_ok rt.layers x v hg
  simp [Liquid.setGlobalM, M.run_bind, hs, Res.safe]

theorem setIndexM (x : Str) (v : V) : SP (setIndexM x v) := by
  refine ⟨shapeRel.toMProp.setIndexM x v, ?_⟩
  intro rt w hgi
  have hg : rt.layers.any Layer.isIndex = true := by
    unfold hasGI at hgi; rw [Bool.and_eq_true] at hgi; exact hgi.2
  obtain ⟨st', hs⟩ := setIndex_ok rt.layers x v hg
  simp [Liquid.setIndexM, M.run_bind, hs, Res.safe]

theorem setInterruptM (i : Option Intr) : SP (setInterruptM i) := bind getRegs (fun _ => setRegs _)
theorem takeInterruptM : SP takeInterruptM := bind getRegs (fun _ => bind (setRegs _) (fun _ => pure _))

theorem capture {m : M Unit} (hm : SP m) : SP (M.capture m) := by
  refine ⟨shapeRel.toMProp.capture hm.1, ?_⟩
  intro rt w hgi
  have h := hm.2 rt {} hgi
  unfold M.capture
  rcases hr : m rt {} with ⟨r, rt', cw⟩
  rw [hr] at h
  cases r <;> simp_all [Res.safe, M.castErr]

theorem inPlain {α} (d : Obj) {m : M α} (hm : SP m) : SP (M.inFrames [.plain d] m) := by
  refine ⟨shapeRel.toMProp.inPlain d hm.1, ?_⟩
  intro rt w hgi
  have h := hm.2 { rt with layers := [Layer.plain d] ++ rt.layers } w
    (by simpa [hasGI, Layer.isGlobal, Layer.isIndex] using hgi)
  unfold M.inFrames
  rcases hr : m { rt with layers := [Layer.plain d] ++ rt.layers } w with ⟨r, rt', w'⟩
  rw [hr] at h; exact h

theorem inSandbox {α} (root : Obj) {m : M α} (hm : SP m) : SP (M.inFrames [.global [], .sandbox root {}] m) := by
  refine ⟨shapeRel.toMProp.inSandbox root hm.1, ?_⟩
  intro rt w hgi
  have h := hm.2 { rt with layers := [Layer.global [], Layer.sandbox root {}] ++ rt.layers } w
    (by simp [hasGI, Layer.isGlobal, Layer.isIndex] at hgi ⊢; exact hgi.2)
  unfold M.inFrames
  rcases hr : m { rt with layers := [Layer.global [], Layer.sandbox root {}] ++ rt.layers } w with ⟨r, rt', w'⟩
  rw [hr] at h; exact h

theorem renderList {f : Node → M Unit} (hf : ∀ n, wfN n = true → SP (f n)) :
    ∀ t, wfL t = true → SP (renderList f t)
  | [], _ => pure ()
  | n :: r, h => by
    simp only [wfL, Bool.and_eq_true] at h
    unfold Liquid.renderList
    refine bind (hf n h.1) (fun _ => bind getRegs (fun g => ?_))
    split
    · exact pure ()
    · exact renderList hf r h.2

theorem loopItems {step : V → Nat → M (Option Intr)} (hs : ∀ v i, SP (step v i)) :
    ∀ items i, SP (loopItems step items i)
  | [], _ => pure ()
  | v :: r, i => by
    unfold Liquid.loopItems
    refine bind (hs v i) (fun intr => ?_)
    split
    · exact pure ()
    · exact loopItems hs r (i + 1)

theorem tableItems {step : V → Nat → M Unit} (hs : ∀ v i, SP (step v i)) :
    ∀ items i, SP (tableItems step items i)
  | [], _ => pure ()
  | v :: r, i => by
    unfold Liquid.tableItems
    exact bind (hs v i) (fun _ => tableItems hs r (i + 1))

theorem forStep (x : Str) (len : Nat) (parent : V) {body : M Unit} (hb : SP body) (v : V) (i : Nat) :
    SP (forStep x len parent body v i) :=
  inPlain _ (bind hb (fun _ => takeInterruptM))

theorem renderForStep (st : Stack) (args : List (Str × Expr)) (as_ : Str) (len : Nat) {body : M Unit}
    (hb : SP body) (v : V) (i : Nat) : SP (renderForStep st args as_ len body v i) :=
  bind (liftNP _ (evalVars_not_panic st args [])) (fun _ => inSandbox _ (bind hb (fun _ => takeInterruptM)))

theorem tablerowStep (x : Str) (len ncols : Nat) (hn : ncols ≠ 0) {body : M Unit} (hb : SP body) (v : V) (i : Nat) :
    SP (tablerowStep x len ncols body v i) := by
  unfold Liquid.tablerowStep
  have : (ncols == 0) = false := by simpa using hn
  simp only [this, Bool.false_eq_true, if_false]
  have tail : ∀ (root : Obj) (c : Bool), SP (do
      M.emit ("<td class=\"col".toList ++ natDigits (i % ncols + 1) ++ "\">".toList)
      M.inFrames [Layer.plain root] body
      M.emit "</td>".toList
      if c = true then M.emit "</tr>".toList else Pure.pure ()) := by
    intro root c
    refine bind (emit _) (fun _ => bind (inPlain _ hb) (fun _ => bind (emit _) (fun _ => ?_)))
    split
    · exact emit _
    · exact pure _
  split
  · exact bind (emit _) (fun _ => tail _ _)
  · exact tail _ _

end SP

end Liquid

namespace Liquid

/-- the partial store does not panic and hands out well-formed templates -/
def LookupSafe (env : Env) : Prop :=
  ∀ name, (env.lookup name).isPanic = false ∧ ∀ t, env.lookup name = .ok t → wfL t = true

theorem cycleStep_some (cycles : List (Str × Nat)) (name : Str) (n : Nat) (h : n ≠ 0) :
    ∃ r, cycleStep cycles name n = some r := by
  unfold cycleStep
  have : (n == 0) = false := by simpa using h
  simp [this]

theorem lookupPartialR_safe (env : Env) (hl : LookupSafe env) (name : Str) :
    (lookupPartialR env name).isPanic = false ∧ ∀ t, lookupPartialR env name = .ok t → wfL t = true := by
  unfold lookupPartialR lookupPartial
  cases h : env.lookup name with
  | ok t => exact ⟨rfl, fun t' ht => by cases ht; exact (hl name).2 t h⟩
  | err => exact hl _
  | io => exact hl _
  | fuel => exact hl _
  | panic s => have := (hl name).1; simp [h, Res.isPanic] at this

syntax "sp_step" : tactic
macro_rules
  | `(tactic| sp_step) => `(tactic| first
    | exact SP.pure _
    | exact SP.emit _
    | exact SP.getSt
    | exact SP.getRegs
    | exact SP.setRegs _
    | exact SP.setGlobalM _ _
    | exact SP.setIndexM _ _
    | exact SP.setInterruptM _
    | exact SP.takeInterruptM
    | exact SP.lift _ rfl
    | exact SP.liftNP _ (Expr.eval_not_panic _ _)
    | exact SP.liftNP _ (Cond.eval_not_panic _ _)
    | exact SP.liftNP _ (RangeE.eval_not_panic _ _)
    | exact SP.liftNP _ (evalAttr_not_panic _ _)
    | exact SP.liftNP _ (evalVars_not_panic _ _ _)
    | exact SP.liftNP _ (casePick_not_panic _ _ _)
    | refine SP.bind ?_ (fun _ => ?_)
    | refine SP.capture ?_
    | refine SP.inPlain _ ?_
    | refine SP.inSandbox _ ?_
    | split
    | dsimp only)

set_option maxHeartbeats 4000000 in
/-- **No panic site is reachable** when rendering a well-formed element in a runtime that has a
global and a counter frame (every runtime `RuntimeBuilder::build` makes), given filters and a
partial store that do not panic — except the two counter-overflow sites. -/
theorem renderN_sp (env : Env) (hf : FiltersSafe env) (hl : LookupSafe env) :
    ∀ fuel n, wfN n = true → SP (renderN fuel env n)
  | 0, n, _ => by rw [Liquid.renderN]; exact SP.lift _ rfl
  | fuel + 1, n, hwf => by
    have ih := renderN_sp env hf hl fuel
    have body : ∀ t, wfL t = true → SP (Liquid.renderList (Liquid.renderN fuel env) t) :=
      fun t ht => SP.renderList ih t ht
    have chain : ∀ st e fs, SP (M.lift (evalChain env st e fs)) :=
      fun st e fs => SP.liftNP _ (evalChain_not_panic env hf st e fs)
    cases n with
    | text s => rw [Liquid.renderN]; exact SP.emit _
    | raw s => rw [Liquid.renderN]; exact SP.emit _
    | comment => rw [Liquid.renderN]; exact SP.pure _
    | brk => rw [Liquid.renderN]; exact SP.setInterruptM _
    | cont => rw [Liquid.renderN]; exact SP.setInterruptM _
    | output e fs =>
      rw [Liquid.renderN]
      exact SP.bind SP.getSt (fun st => SP.bind (chain st e fs) (fun v => SP.emit _))
    | assign x e fs =>
      rw [Liquid.renderN]
      exact SP.bind SP.getSt (fun st => SP.bind (chain st e fs) (fun v => SP.setGlobalM _ _))
    | capture x b =>
      rw [Liquid.renderN]
      simp only [wfN] at hwf
      exact SP.bind (SP.capture (body b hwf)) (fun s => SP.setGlobalM _ _)
    | incr x => rw [Liquid.renderN]; repeat sp_step
    | decr x => rw [Liquid.renderN]; repeat sp_step
    | cycle name vals =>
      rw [Liquid.renderN]
      simp only [wfN] at hwf
      refine SP.bind SP.getRegs (fun g => ?_)
      obtain ⟨r, hr⟩ := cycleStep_some g.cycles name vals.length (by
        cases vals <;> simp_all)
      rw [hr]
      repeat sp_step
    | cond c mode thn els =>
      (first | rw [Liquid.renderN] | simp only [Liquid.renderN])
      simp only [wfN, Bool.and_eq_true] at hwf
      refine SP.bind SP.getSt (fun st => SP.bind (SP.liftNP _ (Cond.eval_not_panic st c)) (fun b => ?_))
      split
      · exact body thn hwf.1
      · split
        · rename_i t; exact body t (by simpa [wfO] using hwf.2)
        · exact SP.pure _
    | case_ target arms els =>
      (first | rw [Liquid.renderN] | simp only [Liquid.renderN])
      simp only [wfN, Bool.and_eq_true] at hwf
      have harms : ∀ (st : Stack) (value : V) (arms : List (List Expr × List Node)) (pick : List Node),
          wfA arms = true → casePick st value arms = .ok (some pick) → wfL pick = true := by
        intro st value arms
        induction arms with
        | nil => intro pick _ h; simp [casePick] at h
        | cons a r iha =>
          intro pick hw h
          obtain ⟨args, bd⟩ := a
          simp only [wfA, Bool.and_eq_true] at hw
          simp only [casePick] at h
          cases ha : anyEqArgs st value args with
          | ok bb =>
            cases bb
            · simp [ha] at h; exact iha pick hw.2 h
            · simp [ha] at h; subst h; exact hw.1
          | err => simp [ha] at h
          | io => simp [ha] at h
          | fuel => simp [ha] at h
          | panic s => simp [ha] at h
      refine SP.bind SP.getSt (fun st => SP.bind (SP.liftNP _ (Expr.eval_not_panic st target)) (fun value => ?_))
      refine SP.bindLift (casePick_not_panic st value arms) (fun pick hp => ?_)
      split
      · rename_i bd; exact body bd (harms st value arms bd hwf.1 hp)
      · split
        · rename_i t; exact body t (by simpa [wfO] using hwf.2)
        · exact SP.pure _
    | for_ x rng limit offset rev b els =>
      (first | rw [Liquid.renderN] | simp only [Liquid.renderN])
      simp only [wfN, Bool.and_eq_true] at hwf
      refine SP.bind SP.getSt (fun st => SP.bind (SP.liftNP _ (RangeE.eval_not_panic st rng)) (fun arr =>
        SP.bind (SP.liftNP _ (evalAttr_not_panic st limit)) (fun lim =>
        SP.bind (SP.liftNP _ (evalAttr_not_panic st offset)) (fun off => ?_))))
      split
      · split
        · rename_i t; exact body t (by simpa [wfO] using hwf.2)
        · exact SP.pure _
      · exact SP.loopItems (fun v i => SP.forStep _ _ _ (body b hwf.1) v i) _ _
    | tablerow x rng cols limit offset b =>
      rw [Liquid.renderN]
      simp only [wfN] at hwf
      refine SP.bind SP.getSt (fun st => SP.bind (SP.liftNP _ (RangeE.eval_not_panic st rng)) (fun arr =>
        SP.bind (SP.liftNP _ (evalAttr_not_panic st cols)) (fun c => ?_)))
      split
      · exact SP.lift _ rfl
      · rename_i hc
        refine SP.bind (SP.liftNP _ (evalAttr_not_panic st limit)) (fun lim =>
          SP.bind (SP.liftNP _ (evalAttr_not_panic st offset)) (fun off => ?_))
        dsimp only
        generalize hitems : iterArray arr lim (off.getD 0) false = items
        cases items with
        | nil => exact SP.pure ()
        | cons v r =>
          have hn : c.getD (v :: r).length ≠ 0 := by
            cases c with
            | none => simp
            | some k =>
              simp only [Option.getD_some]
              intro hk; subst hk; simp at hc
          exact SP.tableItems (fun v i => SP.tablerowStep _ _ _ hn (body b hwf) v i) _ _
    | ifchanged b =>
      rw [Liquid.renderN]
      simp only [wfN] at hwf
      refine SP.bind (SP.capture (body b hwf)) (fun s => ?_)
      repeat sp_step
    | include_ name args =>
      rw [Liquid.renderN]
      refine SP.bind SP.getSt (fun st => SP.bind (SP.liftNP _ (Expr.eval_not_panic st name)) (fun v => ?_))
      split
      · refine SP.bind (SP.liftNP _ (evalVars_not_panic st args [])) (fun pass => ?_)
        exact SP.bindLift (hl _).1 (fun t ht => SP.inPlain _ (body t ((hl _).2 t ht)))
      · exact SP.lift _ rfl
    | render_ name form args =>
      rw [Liquid.renderN]
      refine SP.bind SP.getSt (fun st => SP.bind (SP.liftNP _ (Expr.eval_not_panic st name)) (fun v => ?_))
      split
      · dsimp only
        rename_i s
        have hR := lookupPartialR_safe env hl s.render
        split
        · refine SP.bind (SP.liftNP _ (RangeE.eval_not_panic st _)) (fun items => ?_)
          refine SP.loopItems (fun v i => SP.renderForStep _ _ _ _ ?_ v i) _ _
          exact SP.bindLift hR.1 (fun t ht => body t (hR.2 t ht))
        · refine SP.bind (SP.liftNP _ (evalVars_not_panic st _ [])) (fun root => ?_)
          exact SP.bindLift hR.1 (fun t ht => SP.inSandbox _ (body t (hR.2 t ht)))
      · exact SP.lift _ rfl

end Liquid
