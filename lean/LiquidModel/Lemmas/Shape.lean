/-
  Frame discipline: no render step changes the number or the kinds of the frames of the runtime it
  was given (frames pushed inside are popped again), and plain frames are never written.
-/
import LiquidModel.Lemmas.Monad
namespace Liquid

def Layer.kind : Layer → Nat
  | .plain _ => 0 | .sandbox _ _ => 1 | .global _ => 2 | .index _ => 3

def Stack.shape (st : Stack) : List Nat := st.map Layer.kind

theorem setGlobal_shape (st st' : Stack) (k : Str) (v : V) (h : st.setGlobal k v = .ok st') :
    st'.shape = st.shape := by
  induction st generalizing st' with
  | nil => simp [Stack.setGlobal] at h
  | cons l r ih =>
    cases l with
    | global g => simp [Stack.setGlobal] at h; subst h; simp [Stack.shape, Layer.kind]
    | plain d =>
      simp only [Stack.setGlobal, bind, Res.bind] at h
      cases hr : Stack.setGlobal r k v <;> simp [hr, pure] at h
      subst h; have := ih _ hr; simp_all [Stack.shape]
    | sandbox d g =>
      simp only [Stack.setGlobal, bind, Res.bind] at h
      cases hr : Stack.setGlobal r k v <;> simp [hr, pure] at h
      subst h; have := ih _ hr; simp_all [Stack.shape]
    | index d =>
      simp only [Stack.setGlobal, bind, Res.bind] at h
      cases hr : Stack.setGlobal r k v <;> simp [hr, pure] at h
      subst h; have := ih _ hr; simp_all [Stack.shape]

theorem setIndex_shape (st st' : Stack) (k : Str) (v : V) (h : st.setIndex k v = .ok st') :
    st'.shape = st.shape := by
  induction st generalizing st' with
  | nil => simp [Stack.setIndex] at h
  | cons l r ih =>
    cases l with
    | index g => simp [Stack.setIndex] at h; subst h; simp [Stack.shape, Layer.kind]
    | plain d =>
      simp only [Stack.setIndex, bind, Res.bind] at h
      cases hr : Stack.setIndex r k v <;> simp [hr, pure] at h
      subst h; have := ih _ hr; simp_all [Stack.shape]
    | sandbox d g =>
      simp only [Stack.setIndex, bind, Res.bind] at h
      cases hr : Stack.setIndex r k v <;> simp [hr, pure] at h
      subst h; have := ih _ hr; simp_all [Stack.shape]
    | global d =>
      simp only [Stack.setIndex, bind, Res.bind] at h
      cases hr : Stack.setIndex r k v <;> simp [hr, pure] at h
      subst h; have := ih _ hr; simp_all [Stack.shape]

theorem Stack.setRegs_shape (st : Stack) (core g : Regs) : (st.setRegs core g).1.shape = st.shape := by
  induction st with
  | nil => rfl
  | cons l r ih => cases l <;> simp_all [Stack.setRegs, Stack.shape, Layer.kind]

theorem Rt.setRegs_shape (rt : Rt) (g : Regs) : (rt.setRegs g).layers.shape = rt.layers.shape := by
  unfold Rt.setRegs; exact Stack.setRegs_shape rt.layers rt.core g

theorem Stack.regs_setRegs (st : Stack) (core g : Regs) :
    (st.setRegs core g).1.regs (st.setRegs core g).2 = g := by
  induction st with
  | nil => rfl
  | cons l r ih => cases l <;> simp_all [Stack.setRegs, Stack.regs]

/-- writing the registers and reading them back gives what was written -/
theorem Rt.regs_setRegs (rt : Rt) (g : Regs) : (rt.setRegs g).regs = g := by
  unfold Rt.setRegs Rt.regs; exact Stack.regs_setRegs rt.layers rt.core g

/-- registers live in the nearest sandbox (or the core): a plain/global/index frame on top does
not change which registers are current -/
theorem Stack.regs_cons_nonsandbox (l : Layer) (r : Stack) (core : Regs) (h : l.kind ≠ 1) :
    Stack.regs (l :: r) core = Stack.regs r core := by
  cases l <;> simp_all [Stack.regs, Layer.kind]

/-- the frame discipline as a step relation -/
def shapeRel : StepRel where
  R := fun rt rt' => rt'.layers.shape = rt.layers.shape
  refl := fun _ => rfl
  trans := fun _ _ _ h1 h2 => h2.trans h1
  setRegs := fun rt g => Rt.setRegs_shape rt g
  setGlobal := fun rt k v ls h => setGlobal_shape _ _ k v h
  setIndex := fun rt k v ls h => setIndex_shape _ _ k v h
  framePlain := by
    intro d rt rt' h
    simp only [Stack.shape, List.map_cons] at h ⊢
    rw [List.map_drop, h]; simp
  frameSandbox := by
    intro root rt rt' h
    simp only [Stack.shape, List.map_cons] at h ⊢
    rw [List.map_drop, h]; simp

/-- **Frames are balanced**: rendering any template leaves the runtime with exactly the frames
(number and kinds) it started with — whatever the outcome, whatever the sink. -/
theorem renderT_keeps_frames (env : Env) (fuel : Nat) (t : Tmpl) (rt : Rt) (w : W) :
    ((renderT fuel env t rt w).2.1).layers.shape = rt.layers.shape :=
  Pres.renderT shapeRel env fuel t rt w

theorem renderN_keeps_frames (env : Env) (fuel : Nat) (n : Node) (rt : Rt) (w : W) :
    ((renderN fuel env n rt w).2.1).layers.shape = rt.layers.shape :=
  Pres.renderN shapeRel env fuel n rt w

end Liquid
