/-
  Helper lemmas for the C13 property theorems (string filters).
-/
import LiquidModel.Model.StrFilters
import LiquidModel.Spec.C13
namespace Liquid.StrF
open Liquid

theorem len_pos {α} {l : List α} (h : l ≠ []) : 0 < l.length := by
  cases l with
  | nil => exact absurd rfl h
  | cons _ _ => simp

/-! ### trim -/

theorem trimStart_eq_dropWhile (s : Str) : trimStart s = s.dropWhile isUniWs := by
  induction s with
  | nil => rfl
  | cons c r ih => simp only [trimStart, List.dropWhile_cons]; split <;> simp_all

theorem trimEnd_cons (c : Char) (r : Str) :
    trimEnd (c :: r) = if trimEnd r = [] then (if isUniWs c then [] else [c]) else c :: trimEnd r := by
  by_cases ht : trimEnd r = []
  · simp [trimEnd, ht]
  · rw [if_neg ht]
    cases hr : trimEnd r with
    | nil => exact absurd hr ht
    | cons d t => simp [trimEnd, hr]

theorem trimStart_of_not_ws {c : Char} {r : Str} (h : isUniWs c = false) : trimStart (c :: r) = c :: r := by
  simp [trimStart, h]

/-- `trim_end ∘ trim_start = trim_start ∘ trim_end` -/
theorem trimEnd_trimStart_comm (s : Str) : trimEnd (trimStart s) = trimStart (trimEnd s) := by
  induction s with
  | nil => rfl
  | cons c r ih =>
    by_cases hc : isUniWs c = true
    · have h1 : trimStart (c :: r) = trimStart r := by simp [trimStart, hc]
      rw [h1, ih, trimEnd_cons]
      by_cases ht : trimEnd r = []
      · simp [ht, hc, trimStart]
      · simp [ht, trimStart, hc]
    · have hc' : isUniWs c = false := by simpa using hc
      rw [trimStart_of_not_ws hc', trimEnd_cons]
      by_cases ht : trimEnd r = []
      · simp [ht, hc', trimStart]
      · simp [ht, trimStart, hc']

theorem trimEnd_append_ws (s : Str) :
    ∃ b, s = trimEnd s ++ b ∧ b.all isUniWs = true := by
  induction s with
  | nil => exact ⟨[], rfl, rfl⟩
  | cons c r ih =>
    obtain ⟨b, hb, hws⟩ := ih
    rw [trimEnd_cons]
    by_cases ht : trimEnd r = []
    · rw [ht] at hb
      by_cases hc : isUniWs c = true
      · refine ⟨c :: r, by simp [ht, hc], ?_⟩
        simp only [List.nil_append] at hb
        rw [hb]; simp [hc]; simpa [List.all_eq_true] using hws
      · refine ⟨r, by simp [ht, hc], ?_⟩
        simp only [List.nil_append] at hb
        rw [hb]; exact hws
    · refine ⟨b, by simp only [if_neg ht, List.cons_append]; rw [← hb], hws⟩

theorem trimEnd_getLast_not_ws (s : Str) : ∀ c, (trimEnd s).getLast? = some c → isUniWs c = false := by
  induction s with
  | nil => intro c h; simp [trimEnd] at h
  | cons d r ih =>
    intro c h
    rw [trimEnd_cons] at h
    by_cases ht : trimEnd r = []
    · simp only [ht, if_true] at h
      by_cases hd : isUniWs d = true
      · simp [hd] at h
      · simp [hd] at h; subst h; simpa using hd
    · simp only [if_neg ht] at h
      rw [List.getLast?_cons_of_ne_nil ht] at h
      exact ih c h

theorem trimStart_head_not_ws (s : Str) : ∀ c, (trimStart s).head? = some c → isUniWs c = false := by
  induction s with
  | nil => intro c h; simp [trimStart] at h
  | cons d r ih =>
    intro c h
    simp only [trimStart] at h
    split at h
    · exact ih c h
    · next hd => simp at h; subst h; simpa using hd

theorem trimStart_append_ws (s : Str) : ∃ a, s = a ++ trimStart s ∧ a.all isUniWs = true := by
  induction s with
  | nil => exact ⟨[], rfl, rfl⟩
  | cons c r ih =>
    obtain ⟨a, ha, hws⟩ := ih
    simp only [trimStart]
    split
    · next hc => exact ⟨c :: a, by simp [← ha], by simp [hc, hws]⟩
    · exact ⟨[], rfl, rfl⟩

theorem trimEnd_eq_nil_of_all_ws (s : Str) (h : s.all isUniWs = true) : trimEnd s = [] := by
  induction s with
  | nil => rfl
  | cons c r ih =>
    simp only [List.all_cons, Bool.and_eq_true] at h
    rw [trimEnd_cons, ih h.2]; simp [h.1]

theorem trimStart_eq_nil_of_all_ws (s : Str) (h : s.all isUniWs = true) : trimStart s = [] := by
  induction s with
  | nil => rfl
  | cons c r ih =>
    simp only [List.all_cons, Bool.and_eq_true] at h
    simp [trimStart, h.1, ih h.2]

/-! ### join / split -/

theorem joinWith_cons_cons (sep x y : Str) (r : List Str) :
    joinWith sep (x :: y :: r) = x ++ sep ++ joinWith sep (y :: r) := rfl

theorem joinWith_cons_of_ne_nil (sep x : Str) {xs : List Str} (h : xs ≠ []) :
    joinWith sep (x :: xs) = x ++ sep ++ joinWith sep xs := by
  cases xs with
  | nil => exact absurd rfl h
  | cons y r => rfl

theorem joinWith_push_char (sep : Str) (c : Char) (p : Str) (ps : List Str) :
    joinWith sep ((c :: p) :: ps) = c :: joinWith sep (p :: ps) := by
  cases ps with
  | nil => rfl
  | cons y r => simp [joinWith]

theorem splitK_ne_nil (pat : Str) (k : Nat) (s : Str) : splitK pat k s ≠ [] := by
  induction s generalizing k with
  | nil => simp [splitK]
  | cons c r ih =>
    cases k with
    | succ k => simpa [splitK] using ih k
    | zero =>
      simp only [splitK]
      split
      · simp
      · split <;> simp

theorem splitK_drop (pat : Str) (k : Nat) (s : Str) : splitK pat k s = splitK pat 0 (s.drop k) := by
  induction s generalizing k with
  | nil => simp [splitK]
  | cons c r ih =>
    cases k with
    | zero => rfl
    | succ k => simpa [splitK] using ih k

/-- unfolding equation at a match -/
theorem splitK_match {pat : Str} (hp : pat ≠ []) {s : Str} (h : pat.isPrefixOf s = true) (hs : s ≠ []) :
    splitK pat 0 s = [] :: splitK pat 0 (s.drop pat.length) := by
  cases s with
  | nil => exact absurd rfl hs
  | cons c r =>
    simp only [splitK, h, if_true]
    rw [splitK_drop]
    obtain ⟨n, hn⟩ : ∃ n, pat.length = n + 1 := ⟨pat.length - 1, by have := len_pos hp; omega⟩
    rw [hn]; simp

/-- unfolding equation off a match -/
theorem splitK_nomatch {pat : Str} {c : Char} {r : Str} (h : pat.isPrefixOf (c :: r) = false) :
    ∃ p ps, splitK pat 0 r = p :: ps ∧ splitK pat 0 (c :: r) = (c :: p) :: ps := by
  have hne := splitK_ne_nil pat 0 r
  cases hsp : splitK pat 0 r with
  | nil => exact absurd hsp hne
  | cons p ps => exact ⟨p, ps, rfl, by simp [splitK, h, hsp]⟩

theorem isPrefixOf_eq_append {pat s : Str} (h : pat.isPrefixOf s = true) : s = pat ++ s.drop pat.length := by
  have := List.isPrefixOf_iff_prefix.mp h
  obtain ⟨t, rfl⟩ := this
  simp

theorem joinWith_splitK (pat : Str) (hp : pat ≠ []) (s : Str) :
    ∀ k, joinWith pat (splitK pat k s) = s.drop k := by
  induction s with
  | nil => intro k; simp [splitK, joinWith]
  | cons c r ih =>
    intro k
    cases k with
    | succ k => simpa [splitK] using ih k
    | zero =>
      by_cases h : pat.isPrefixOf (c :: r) = true
      · simp only [splitK, h, if_true, List.drop_zero]
        rw [joinWith_cons_of_ne_nil _ _ (splitK_ne_nil _ _ _), ih]
        have hlen : pat.length - 1 + 1 = pat.length := by
          have : 0 < pat.length := len_pos hp
          omega
        have e := isPrefixOf_eq_append h
        rw [← hlen, List.drop_succ_cons] at e
        simpa using e.symm
      · have h' : pat.isPrefixOf (c :: r) = false := by simpa only [Bool.not_eq_true] using h
        obtain ⟨p, ps, h1, h2⟩ := splitK_nomatch h'
        rw [h2, joinWith_push_char, ← h1, ih 0]; simp

theorem joinWith_splitEmpty (s : Str) : joinWith [] (splitEmpty s) = s := by
  unfold splitEmpty
  have key : ∀ t : Str, joinWith [] (t.map (fun c => [c]) ++ [[]]) = t := by
    intro t
    induction t with
    | nil => rfl
    | cons c r ih =>
      simp only [List.map_cons, List.cons_append]
      rw [joinWith_cons_of_ne_nil _ _ (by simp), ih]; simp
  rw [joinWith_cons_of_ne_nil _ _ (by simp), key]; simp

theorem joinWith_strSplit (pat s : Str) : joinWith pat (strSplit pat s) = s := by
  unfold strSplit
  by_cases hp : pat = []
  · subst hp; simp [joinWith_splitEmpty]
  · have : pat.isEmpty = false := by simpa using hp
    simp only [this]
    simpa using joinWith_splitK pat hp s 0

/-! ### replace: unfolding equations -/

theorem strSplit_of_ne_nil {pat : Str} (hp : pat ≠ []) (s : Str) : strSplit pat s = splitK pat 0 s := by
  unfold strSplit
  have : pat.isEmpty = false := by simpa using hp
  simp [this]

theorem strReplace_nil {pat : Str} (hp : pat ≠ []) (to : Str) : strReplace pat to [] = [] := by
  simp [strReplace, strSplit_of_ne_nil hp, splitK, joinWith]

theorem strReplace_match {pat : Str} (hp : pat ≠ []) (to : Str) {s : Str}
    (h : pat.isPrefixOf s = true) : strReplace pat to s = to ++ strReplace pat to (s.drop pat.length) := by
  have hs : s ≠ [] := by
    intro e; subst e
    cases pat with
    | nil => exact hp rfl
    | cons _ _ => simp [List.isPrefixOf] at h
  simp only [strReplace, strSplit_of_ne_nil hp]
  rw [splitK_match hp h hs, joinWith_cons_of_ne_nil _ _ (splitK_ne_nil _ _ _)]; simp

theorem strReplace_nomatch {pat : Str} (hp : pat ≠ []) (to : Str) {c : Char} {r : Str}
    (h : pat.isPrefixOf (c :: r) = false) : strReplace pat to (c :: r) = c :: strReplace pat to r := by
  simp only [strReplace, strSplit_of_ne_nil hp]
  obtain ⟨p, ps, h1, h2⟩ := splitK_nomatch h
  rw [h2, joinWith_push_char, h1]

theorem strReplace_empty (to s : Str) : strReplace [] to s = to ++ s.flatMap (fun c => c :: to) := by
  simp only [strReplace, strSplit, List.isEmpty_nil, if_true, splitEmpty]
  have key : ∀ t : Str, to ++ joinWith to (t.map (fun c => [c]) ++ [[]]) = to ++ t.flatMap (fun c => c :: to) := by
    intro t
    induction t with
    | nil => simp [joinWith]
    | cons c r ih =>
      simp only [List.map_cons, List.cons_append, List.flatMap_cons]
      rw [joinWith_cons_of_ne_nil _ _ (by simp)]
      simp only [List.append_assoc, List.cons_append]
      rw [ih]; simp
  rw [joinWith_cons_of_ne_nil _ _ (by simp)]
  simpa using key s

/-! ### splitFirst -/

theorem splitFirst_some {pat s a b : Str} (h : splitFirst pat s = some (a, b)) : s = a ++ pat ++ b := by
  induction s generalizing a with
  | nil =>
    simp only [splitFirst] at h
    split at h
    · next hp => simp at h; obtain ⟨rfl, rfl⟩ := h; simp at hp; simp [hp]
    · simp at h
  | cons c r ih =>
    simp only [splitFirst] at h
    split at h
    · next hp =>
      simp at h; obtain ⟨rfl, rfl⟩ := h
      simpa using isPrefixOf_eq_append hp
    · split at h
      · next a0 b0 h0 =>
        simp at h; obtain ⟨rfl, rfl⟩ := h
        have := ih h0
        simp [this]
      · simp at h

theorem splitFirst_none {pat s : Str} (h : splitFirst pat s = none) : ¬ pat <:+: s := by
  induction s with
  | nil =>
    simp only [splitFirst] at h
    split at h
    · simp at h
    · next hp =>
      intro hin
      have : pat = [] := by simpa using hin
      simp [this] at hp
  | cons c r ih =>
    simp only [splitFirst] at h
    split at h
    · simp at h
    · next hp =>
      split at h
      · simp at h
      · next h0 =>
        intro hin
        rw [List.infix_cons_iff] at hin
        rcases hin with hpre | hin
        · exact hp (List.isPrefixOf_iff_prefix.mpr hpre)
        · exact ih h0 hin

/-- the match found is the leftmost one -/
theorem splitFirst_leftmost {pat s a b : Str} (h : splitFirst pat s = some (a, b)) :
    ∀ a' b', s = a' ++ pat ++ b' → a.length ≤ a'.length := by
  induction s generalizing a with
  | nil =>
    intro a' b' e
    simp only [splitFirst] at h
    split at h
    · simp at h; obtain ⟨rfl, rfl⟩ := h; simp
    · simp at h
  | cons c r ih =>
    intro a' b' e
    simp only [splitFirst] at h
    split at h
    · simp at h; obtain ⟨rfl, rfl⟩ := h; simp
    · next hp =>
      split at h
      · next a0 b0 h0 =>
        simp at h; obtain ⟨rfl, rfl⟩ := h
        cases a' with
        | nil =>
          exfalso; apply hp
          apply List.isPrefixOf_iff_prefix.mpr
          exact ⟨b', by simpa using e.symm⟩
        | cons d a'' =>
          simp only [List.cons_append, List.cons.injEq] at e
          have := ih h0 a'' b' e.2
          simp; omega
      · simp at h

/-! ### segmentations -/

/-- what a grapheme segmentation is, as far as the theorems need it: a partition of the string
into non-empty pieces -/
def IsSeg (seg : Str → List Str) : Prop :=
  ∀ s, (seg s).flatten = s ∧ ∀ g ∈ seg s, g ≠ []

theorem length_le_flatten_length (L : List Str) (h : ∀ g ∈ L, g ≠ []) : L.length ≤ L.flatten.length := by
  induction L with
  | nil => simp
  | cons g gs ih =>
    have hg : 0 < g.length := len_pos (h g (by simp))
    have := ih (fun x hx => h x (by simp [hx]))
    simp only [List.length_cons, List.flatten_cons, List.length_append]
    omega

theorem IsSeg.length_le {seg : Str → List Str} (h : IsSeg seg) (s : Str) : (seg s).length ≤ s.length := by
  have := length_le_flatten_length (seg s) (h s).2
  rw [(h s).1] at this
  exact this

theorem segSimple_flatten (s : Str) : (segSimple s).flatten = s := by
  induction s with
  | nil => rfl
  | cons c r ih =>
    simp only [segSimple]
    split
    · next h => rw [h] at ih; simp at ih; simp [← ih]
    · next gs h => rw [h] at ih; simp at ih; simp [← ih]
    · next d g gs h =>
      rw [h] at ih
      split <;> simp at ih ⊢ <;> simp [← ih]

theorem segSimple_ne_nil (s : Str) : ∀ g ∈ segSimple s, g ≠ [] := by
  induction s with
  | nil => simp [segSimple]
  | cons c r ih =>
    simp only [segSimple]
    split
    · simp
    · next gs h =>
      intro g hg
      simp at hg
      rcases hg with rfl | hg
      · simp
      · exact ih g (by rw [h]; simp [hg])
    · next d g gs h =>
      split
      · intro x hx
        simp at hx
        rcases hx with rfl | hx
        · simp
        · exact ih x (by rw [h]; simp [hx])
      · intro x hx
        simp at hx
        rcases hx with rfl | rfl | hx
        · simp
        · simp
        · exact ih x (by rw [h]; simp [hx])

theorem segSimple_isSeg : IsSeg segSimple := fun s => ⟨segSimple_flatten s, segSimple_ne_nil s⟩

theorem lastChar_eq_drop (t : Str) : lastChar t = t.drop (t.length - 1) := by
  unfold lastChar
  induction t with
  | nil => rfl
  | cons c r ih =>
    cases r with
    | nil => rfl
    | cons d r' =>
      rw [List.getLast?_cons_cons, ih]; simp

/-! ### slice -/

theorem canonSlice_spec (off len : Int) (n : Nat) (ho : inI64 off = true) (hl : inI64 len = true)
    (h1 : 1 ≤ len) (hn : n < 2^63) :
    ∃ o l, canonSlice off len n = .ok (o, l) ∧
      ((0 ≤ off ∧ o = min off.toNat n ∧ (l = len.toNat ∨ (l = n - o ∧ n - o ≤ len.toNat))) ∨
       (off < 0 ∧ 0 ≤ off + n ∧ o = (off + n).toNat ∧ (l = len.toNat ∨ (l = n - o ∧ n - o ≤ len.toNat))) ∨
       (off + n < 0 ∧ n ≤ o)) := by
  unfold inI64 i64Min i64Max at ho hl
  simp only [Bool.and_eq_true, decide_eq_true_eq] at ho hl
  unfold canonSlice satAddI64 toUsize inI64 i64Min i64Max
  simp only [Bool.and_eq_true, Bool.not_eq_true',
    Bool.and_eq_false_iff, decide_eq_true_eq, decide_eq_false_iff_not, gt_iff_lt]
  repeat' split
  all_goals first
    | (refine ⟨_, _, rfl, ?_⟩; omega)
    | (exfalso; omega)

/-- `slice` written from its documentation: a non-negative offset counts from the front, a
negative one from the end; at most `len` elements; out of range ⇒ empty. -/
def sliceSpec {α} (off len : Int) (s : List α) : List α :=
  if 0 ≤ off then (s.drop off.toNat).take len.toNat
  else if 0 ≤ off + s.length then (s.drop (off + s.length).toNat).take len.toNat
  else []

theorem drop_min_length {α} (s : List α) (a : Nat) : s.drop (min a s.length) = s.drop a := by
  by_cases h : a ≤ s.length
  · rw [Nat.min_eq_left h]
  · have h' : s.length ≤ a := by omega
    rw [Nat.min_eq_right h', List.drop_of_length_le h', List.drop_of_length_le (Nat.le_refl _)]

theorem take_drop_clip {α} (s : List α) (o l : Nat) (h : s.length - o ≤ l) :
    (s.drop o).take (s.length - o) = (s.drop o).take l := by
  rw [List.take_of_length_le (by simp), List.take_of_length_le (by simp; omega)]

theorem canonSlice_list {α} (s : List α) (off len : Int) (ho : inI64 off = true) (hl : inI64 len = true)
    (h1 : 1 ≤ len) (hn : s.length < 2^63) :
    ∃ o l, canonSlice off len s.length = .ok (o, l) ∧ (s.drop o).take l = sliceSpec off len s := by
  obtain ⟨o, l, hc, h⟩ := canonSlice_spec off len s.length ho hl h1 hn
  refine ⟨o, l, hc, ?_⟩
  unfold sliceSpec
  rcases h with ⟨h0, rfl, hl'⟩ | ⟨h0, h0', rfl, hl'⟩ | ⟨h0, hge⟩
  · rw [if_pos h0]
    rcases hl' with rfl | ⟨rfl, hle⟩
    · rw [drop_min_length]
    · rw [take_drop_clip _ _ _ hle, drop_min_length]
  · rw [if_neg (by omega), if_pos h0']
    rcases hl' with rfl | ⟨rfl, hle⟩
    · rfl
    · rw [take_drop_clip _ _ _ hle]
  · rw [if_neg (by omega), if_neg (by omega), List.drop_of_length_le hge]; simp

theorem sliceSpec_infix {α} (off len : Int) (s : List α) : sliceSpec off len s <:+: s := by
  unfold sliceSpec
  split
  · exact List.IsInfix.trans (List.take_prefix _ _).isInfix (List.drop_suffix _ _).isInfix
  · split
    · exact List.IsInfix.trans (List.take_prefix _ _).isInfix (List.drop_suffix _ _).isInfix
    · exact List.nil_infix

theorem sliceSpec_length {α} (off len : Int) (s : List α) : (sliceSpec off len s).length ≤ len.toNat := by
  unfold sliceSpec
  split
  · simp [List.length_take]; omega
  · split
    · simp [List.length_take]; omega
    · simp
/-! ### integer arguments, panic freedom -/

theorem parseI64_inI64 {s : Str} {v : Int} (h : parseI64 s = some v) : inI64 v = true := by
  unfold parseI64 at h
  simp only [] at h
  split at h <;> (repeat' (split at h)) <;> simp at h <;> (subst h; assumption)

theorem intArg_ok {v : V} {i : Int} (h : StrF.intArg v = .ok i) : v = .sc (.int i) ∨ inI64 i = true := by
  unfold StrF.intArg at h
  split at h
  · next s =>
    split at h
    · next j hj =>
      simp at h; subst h
      unfold Sc.toInteger? at hj
      split at hj
      · simp at hj; subst hj; left; rfl
      · right; exact parseI64_inI64 hj
      · simp at hj
    · simp at h
  · simp at h

theorem intArg_not_panic (v : V) : (StrF.intArg v).isPanic = false := by
  unfold StrF.intArg
  split
  · split <;> rfl
  · rfl

theorem isPanic_bind_ok {α β} (r : Res α) (g : α → β) : (r.bind fun a => .ok (g a)).isPanic = r.isPanic := by
  cases r <;> rfl

theorem sliceV_not_panic (x : V) (off len : Int) (ho : inI64 off = true) (hl : inI64 len = true)
    (hs : x.render.length < 2^63) (hx : ∀ xs, x = .arr xs → xs.length < 2^63) :
    (sliceV x off len).isPanic = false := by
  unfold sliceV
  split
  · rfl
  · next h =>
    have h1 : 1 ≤ len := by omega
    split
    · next xs =>
      obtain ⟨o, l, hc, _⟩ := canonSlice_list xs off len ho hl h1 (hx xs rfl)
      simp [sliceArr, hc, Res.bind, Res.isPanic]
    · obtain ⟨o, l, hc, _⟩ := canonSlice_list x.render off len ho hl h1 hs
      simp [sliceStr, hc, Res.bind, Res.isPanic]

theorem apply_not_panic (u : Uni) (f : Fn) (x : V) (args : List V)
    (hargs : ∀ i, V.sc (.int i) ∈ args → inI64 i = true)
    (hs : x.render.length < 2^63) (hx : ∀ xs, x = .arr xs → xs.length < 2^63) :
    (apply u f x args).isPanic = false := by
  have hint : ∀ a i, a ∈ args → StrF.intArg a = .ok i → inI64 i = true := by
    intro a i ha h
    rcases intArg_ok h with rfl | h'
    · exact hargs i ha
    · exact h'
  unfold apply
  simp only []
  split
  all_goals first
    | rfl
    | (simp only [isPanic_bind_ok]; exact intArg_not_panic _)
    | (unfold joinV; split <;> rfl)
    | (unfold firstV; split <;> rfl)
    | (unfold lastV; split <;> rfl)
    | skip
  · next o =>
    cases ho : StrF.intArg o with
    | ok i => exact sliceV_not_panic x i 1 (hint o i (by simp) ho) (by decide) hs hx
    | err => rfl
    | io => rfl
    | fuel => rfl
    | panic m => have := intArg_not_panic o; rw [ho] at this; exact this
  · next o l =>
    cases ho : StrF.intArg o with
    | ok i =>
      cases hl : StrF.intArg l with
      | ok j => exact sliceV_not_panic x i j (hint o i (by simp) ho) (hint l j (by simp) hl) hs hx
      | err => rfl
      | io => rfl
      | fuel => rfl
      | panic m => have := intArg_not_panic l; rw [hl] at this; exact this
    | err => rfl
    | io => rfl
    | fuel => rfl
    | panic m => have := intArg_not_panic o; rw [ho] at this; exact this
/-! ### pieces of a split -/

theorem joinWith_head_prefix (sep p : Str) (ps : List Str) : p <+: joinWith sep (p :: ps) := by
  cases ps with
  | nil => exact List.prefix_refl _
  | cons y r => rw [joinWith_cons_cons, List.append_assoc]; exact List.prefix_append _ _

theorem splitK_head_prefix {pat : Str} (hp : pat ≠ []) {s p : Str} {ps : List Str}
    (h : splitK pat 0 s = p :: ps) : p <+: s := by
  have := joinWith_splitK pat hp s 0
  rw [h] at this
  simp only [List.drop_zero] at this
  rw [← this]
  exact joinWith_head_prefix _ _ _

theorem splitK_pieces_no_pat {pat : Str} (hp : pat ≠ []) (s : Str) :
    ∀ k, ∀ p ∈ splitK pat k s, ¬ pat <:+: p := by
  induction s with
  | nil =>
    intro k p hmem hin
    simp [splitK] at hmem
    subst hmem
    exact hp (by simpa using hin)
  | cons c r ih =>
    intro k
    cases k with
    | succ k => simpa [splitK] using ih k
    | zero =>
      intro p hmem
      by_cases h : pat.isPrefixOf (c :: r) = true
      · simp only [splitK, h, if_true, List.mem_cons] at hmem
        rcases hmem with rfl | hmem
        · intro hin; exact hp (by simpa using hin)
        · exact ih _ p hmem
      · have h' : pat.isPrefixOf (c :: r) = false := by simpa only [Bool.not_eq_true] using h
        obtain ⟨p0, ps, h1, h2⟩ := splitK_nomatch h'
        rw [h2] at hmem
        simp only [List.mem_cons] at hmem
        rcases hmem with rfl | hmem
        · intro hin
          rw [List.infix_cons_iff] at hin
          rcases hin with hpre | hin
          · apply h
            apply List.isPrefixOf_iff_prefix.mpr
            have hp0 : p0 <+: r := splitK_head_prefix hp h1
            exact List.IsPrefix.trans hpre ((List.prefix_cons_inj c).mpr hp0)
          · exact ih 0 p0 (by rw [h1]; simp) hin
        · exact ih 0 p (by rw [h1]; simp [hmem])
/-! ### the reference implementations of Spec/C13.lean compute the same functions as the model -/

theorem refRstrip_eq (s : Str) : C13S.refRstrip s = trimEnd s := by
  unfold C13S.refRstrip
  induction s with
  | nil => rfl
  | cons c r ih =>
    rw [trimEnd_cons, ← ih, List.reverse_cons, List.dropWhile_append]
    by_cases h : (List.dropWhile isUniWs r.reverse).isEmpty = true
    · have h2 : List.dropWhile isUniWs r.reverse = [] := by simpa using h
      simp only [h2, List.isEmpty_nil, if_true, List.reverse_nil]
      by_cases hc : isUniWs c = true <;> simp [hc]
    · have h2 : List.dropWhile isUniWs r.reverse ≠ [] := by simpa using h
      simp [h, h2]

theorem refJoin_eq (sep : Str) (xs : List Str) : C13S.refJoin sep xs = joinWith sep xs := by
  cases xs with
  | nil => rfl
  | cons x r =>
    simp only [C13S.refJoin]
    have key : ∀ (acc : Str) (r : List Str) (x : Str),
        List.foldl (fun acc y => acc ++ sep ++ y) (acc ++ x) r = acc ++ joinWith sep (x :: r) := by
      intro acc r
      induction r generalizing acc with
      | nil => intro x; rfl
      | cons y r ih =>
        intro x
        simp only [List.foldl_cons, joinWith_cons_cons]
        have := ih (acc ++ x ++ sep) y
        simp only [List.append_assoc] at this ⊢
        exact this
    simpa using key [] r x

theorem refSlice_eq {α} (off len : Int) (s : List α) : C13S.refSlice off len s = sliceSpec off len s := by
  unfold C13S.refSlice sliceSpec
  simp only []
  by_cases h : 0 ≤ off
  · have h' : ¬ off < 0 := by omega
    simp [h, h']
  · have h' : off < 0 := by omega
    simp only [h', if_true, h, if_false]
    by_cases h2 : 0 ≤ off + s.length
    · have : ¬ ((s.length : Int) + off < 0) := by omega
      simp only [this, if_false, h2, if_true]
      rw [Int.add_comm]
    · have : ((s.length : Int) + off < 0) := by omega
      simp [this, h2]

theorem length_drop_lt {pat : Str} (hp : pat ≠ []) (c : Char) (r : Str) :
    ((c :: r).drop pat.length).length ≤ r.length := by
  have := len_pos hp
  simp only [List.length_drop, List.length_cons]; omega

theorem refReplaceF_eq {pat : Str} (hp : pat ≠ []) (to : Str) :
    ∀ (f : Nat) (s : Str), s.length < f → C13S.refReplaceF pat to f s = strReplace pat to s := by
  intro f
  induction f with
  | zero => intro s h; omega
  | succ f ih =>
    intro s h
    cases s with
    | nil => simp [C13S.refReplaceF, strReplace_nil hp]
    | cons c r =>
      simp only [C13S.refReplaceF]
      by_cases hpre : pat.isPrefixOf (c :: r) = true
      · rw [if_pos hpre, strReplace_match hp to hpre, ih]
        have := length_drop_lt hp c r
        simp only [List.length_cons] at h; omega
      · have h' : pat.isPrefixOf (c :: r) = false := by simpa only [Bool.not_eq_true] using hpre
        rw [if_neg hpre, strReplace_nomatch hp to h', ih]
        simp only [List.length_cons] at h; omega

theorem refReplace_eq (pat to s : Str) : C13S.refReplace pat to s = strReplace pat to s := by
  unfold C13S.refReplace
  by_cases hp : pat = []
  · subst hp; simp [strReplace_empty]
  · have : pat.isEmpty = false := by simpa using hp
    simp only [this, Bool.false_eq_true, if_false]
    exact refReplaceF_eq hp to _ s (by omega)

def pushHead (a : Str) : List Str → List Str
  | p :: ps => (a ++ p) :: ps
  | [] => [a]

theorem refSplitF_eq {pat : Str} (hp : pat ≠ []) :
    ∀ (f : Nat) (cur s : Str), s.length < f →
      C13S.refSplitF pat f cur s = pushHead cur.reverse (splitK pat 0 s) := by
  intro f
  induction f with
  | zero => intro cur s h; omega
  | succ f ih =>
    intro cur s h
    cases s with
    | nil => simp [C13S.refSplitF, splitK, pushHead]
    | cons c r =>
      simp only [C13S.refSplitF]
      by_cases hpre : pat.isPrefixOf (c :: r) = true
      · rw [if_pos hpre, splitK_match hp hpre (by simp), ih]
        · simp only [List.reverse_nil, pushHead, List.append_nil]
          cases hsp : splitK pat 0 (List.drop pat.length (c :: r)) with
          | nil => exact absurd hsp (splitK_ne_nil _ _ _)
          | cons p ps => simp [pushHead]
        · have := length_drop_lt hp c r
          simp only [List.length_cons] at h; omega
      · have h' : pat.isPrefixOf (c :: r) = false := by simpa only [Bool.not_eq_true] using hpre
        obtain ⟨p0, ps, h1, h2⟩ := splitK_nomatch h'
        rw [if_neg hpre, ih _ _ (by simp only [List.length_cons] at h; omega), h1, h2]
        simp [pushHead]

theorem refSplit_eq (pat s : Str) : C13S.refSplit pat s = strSplit pat s := by
  unfold C13S.refSplit strSplit
  by_cases hp : pat = []
  · subst hp; simp [splitEmpty]
  · have : pat.isEmpty = false := by simpa using hp
    simp only [this, Bool.false_eq_true, if_false]
    rw [refSplitF_eq hp _ [] s (by omega)]
    cases hsp : splitK pat 0 s with
    | nil => exact absurd hsp (splitK_ne_nil _ _ _)
    | cons p ps => simp [pushHead]

theorem refFind_eq (pat : Str) : ∀ (s : Str) (i0 : Nat),
    C13S.refFind pat i0 s = (splitFirst pat s).map (fun ab => i0 + ab.1.length) := by
  intro s
  induction s with
  | nil => intro i0; simp only [C13S.refFind, splitFirst]; split <;> simp
  | cons c r ih =>
    intro i0
    simp only [C13S.refFind, splitFirst]
    split
    · simp
    · rw [ih]
      cases splitFirst pat r with
      | none => rfl
      | some ab => obtain ⟨a, b⟩ := ab; simp; omega

theorem refReplaceFirst_eq (pat to s : Str) : C13S.refReplaceFirst pat to s = replaceFirst pat to s := by
  unfold C13S.refReplaceFirst replaceFirst
  rw [refFind_eq]
  cases h : splitFirst pat s with
  | none => rfl
  | some ab =>
    obtain ⟨a, b⟩ := ab
    have e := splitFirst_some h
    simp only [Option.map_some, Nat.zero_add]
    subst e
    simp [List.take_append, List.drop_append]

theorem removeFirst_eq_replaceFirst (pat s : Str) : removeFirst pat s = replaceFirst pat [] s := by
  unfold removeFirst replaceFirst
  cases splitFirst pat s with
  | none => rfl
  | some ab => obtain ⟨a, b⟩ := ab; simp

theorem refWords_eq (s : Str) : C13S.refWords s = strSplit [' '] s := by
  rw [strSplit_of_ne_nil (by simp)]
  unfold C13S.refWords
  induction s with
  | nil => rfl
  | cons c r ih =>
    simp only [List.foldr_cons, splitK]
    rw [ih]
    by_cases hc : c = ' '
    · subst hc; simp [List.isPrefixOf]
    · have h1 : (c == ' ') = false := by simpa using hc
      have h2 : List.isPrefixOf [' '] (c :: r) = false := by
        simp [List.isPrefixOf]; exact fun h => hc h.symm
      simp only [h1, h2, Bool.false_eq_true, if_false]
      cases splitK [' '] 0 r <;> rfl
end Liquid.StrF
