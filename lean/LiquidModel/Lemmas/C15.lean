/-
  Helper lemmas for C15 (arithmetic filters).  Core tactics only.
-/
import LiquidModel.Model.Math
namespace Liquid.C15
open Liquid

/-! ### `Res` plumbing -/

theorem floatPath_cases (ops : FloatOps) (op : MathOp) (x y : Sc) :
    floatPath ops op x y = .err ∨ ∃ f, floatPath ops op x y = .ok (fltV f) := by
  unfold floatPath
  split
  · exact Or.inr ⟨_, rfl⟩
  · exact Or.inl rfl

theorem inI64_iff (i : Int) : inI64 i = true ↔ i64Min ≤ i ∧ i ≤ i64Max := by
  simp [inI64]

theorem inI64_false_iff (i : Int) : inI64 i = false ↔ (i < i64Min ∨ i64Max < i) := by
  rw [← Bool.not_eq_true, inI64_iff]; omega

/-! ### truncated division stays in range -/

theorem natAbs_tdiv_le (a b : Int) : (a.tdiv b).natAbs ≤ a.natAbs := by
  rw [Int.natAbs_tdiv]
  exact Nat.div_le_self _ _

theorem tdiv_inI64 (a b : Int) (ha : inI64 a = true) (h : ¬(a = i64Min ∧ b = -1)) (hb : b ≠ 0) :
    inI64 (a.tdiv b) = true := by
  rw [inI64_iff] at *
  have h1 := natAbs_tdiv_le a b
  unfold i64Min i64Max at *
  by_cases hm : a = -9223372036854775808
  · -- |b| ≥ 2 or b = 1
    have hb1 : b ≠ -1 := fun e => h ⟨hm, e⟩
    subst hm
    have h2 : ((-9223372036854775808 : Int).tdiv b).natAbs = 9223372036854775808 / b.natAbs := by
      rw [Int.natAbs_tdiv]; rfl
    by_cases hb2 : b = 1
    · subst hb2; simp
    · have : 2 ≤ b.natAbs := by omega
      have h3 : 9223372036854775808 / b.natAbs ≤ 9223372036854775808 / 2 :=
        Nat.div_le_div_left this (by decide)
      omega
  · omega

theorem tmod_inI64 (a b : Int) (ha : inI64 a = true) : inI64 (a.tmod b) = true := by
  rw [inI64_iff] at *
  have h1 : (a.tmod b).natAbs ≤ a.natAbs := by
    rw [Int.natAbs_tmod]; exact Nat.mod_le _ _
  unfold i64Min i64Max at *
  by_cases h0 : 0 ≤ a
  · have := Int.tmod_nonneg b h0
    omega
  · have h2 : 0 ≤ (-a).tmod b := Int.tmod_nonneg b (by omega)
    rw [Int.neg_tmod] at h2
    omega

theorem tmod_natAbs_lt (a b : Int) (hb : b ≠ 0) : (a.tmod b).natAbs < b.natAbs := by
  rw [Int.natAbs_tmod]
  exact Nat.mod_lt _ (by omega)

/-! ### decimal strings -/

theorem digitVal_of_isDigit (c : Char) (h : c.isDigit = true) : digitVal? c = some (c.toNat - '0'.toNat) := by
  unfold digitVal?
  have : '0' ≤ c ∧ c ≤ '9' := by
    simp [Char.isDigit] at h
    constructor
    · exact h.1
    · exact h.2
  simp [this]

theorem digitsVal_eq (ds : Str) (h : ∀ c ∈ ds, c.isDigit = true) (acc : Nat) :
    digitsVal? ds acc = some (Nat.ofDigitChars 10 ds acc) := by
  induction ds generalizing acc with
  | nil => simp [digitsVal?]
  | cons c t ih =>
    have hc := digitVal_of_isDigit c (h c (by simp))
    simp only [digitsVal?, hc, Nat.ofDigitChars_cons]
    rw [ih (fun c hc => h c (by simp [hc]))]
    congr 2
    omega

theorem toDigits_isDigit (n : Nat) : ∀ c ∈ Nat.toDigits 10 n, c.isDigit = true :=
  fun _ hc => Nat.isDigit_of_mem_toDigits (by decide) (by decide) hc

theorem parseI64_digits (ds : Str) (hne : ds ≠ []) (hd : ∀ c ∈ ds, c.isDigit = true) :
    parseI64 ds = (if inI64 (Nat.ofDigitChars 10 ds 0 : Nat) then some ((Nat.ofDigitChars 10 ds 0 : Nat) : Int) else none) := by
  unfold parseI64
  split
  · rename_i r
    have := hd '-' (by simp)
    simp [Char.isDigit] at this
  · rename_i r
    have := hd '+' (by simp)
    simp [Char.isDigit] at this
  · simp [hne, digitsVal_eq ds hd]

theorem parseI64_neg_digits (ds : Str) (hne : ds ≠ []) (hd : ∀ c ∈ ds, c.isDigit = true) :
    parseI64 ('-' :: ds) = (if inI64 (-((Nat.ofDigitChars 10 ds 0 : Nat) : Int)) then some (-((Nat.ofDigitChars 10 ds 0 : Nat) : Int)) else none) := by
  unfold parseI64
  simp [hne, digitsVal_eq ds hd]

theorem parseI64_intRepr (n : Int) (hn : inI64 n = true) : parseI64 (intRepr n) = some n := by
  unfold intRepr natDigits
  have hd := toDigits_isDigit n.natAbs
  have hne : Nat.toDigits 10 n.natAbs ≠ [] := Nat.toDigits_ne_nil
  split
  · rw [parseI64_neg_digits _ hne hd, Nat.ofDigitChars_ten_toDigits]
    have : -(n.natAbs : Int) = n := by omega
    simp [this, hn]
  · rw [parseI64_digits _ hne hd, Nat.ofDigitChars_ten_toDigits]
    have : (n.natAbs : Int) = n := by omega
    simp [this, hn]

theorem takeWhile_all (p : Char → Bool) (l : List Char) (h : ∀ c ∈ l, p c = true) : l.takeWhile p = l := by
  induction l with
  | nil => rfl
  | cons a t ih => simp [List.takeWhile, h a (by simp), ih (fun c hc => h c (by simp [hc]))]

theorem dropWhile_all (p : Char → Bool) (l : List Char) (h : ∀ c ∈ l, p c = true) : l.dropWhile p = [] := by
  induction l with
  | nil => rfl
  | cons a t ih => simp [List.dropWhile, h a (by simp), ih (fun c hc => h c (by simp [hc]))]

theorem parseDecimal_digits (ds : Str) (hne : ds ≠ []) (hd : ∀ c ∈ ds, c.isDigit = true) :
    parseDecimal ds = some (Nat.ofDigitChars 10 ds 0, 0) := by
  have h1 : ds.takeWhile Char.isDigit = ds := takeWhile_all _ _ hd
  have h2 : ds.dropWhile Char.isDigit = [] := dropWhile_all _ _ hd
  have h3 : ds.length ≠ 0 := by simpa using hne
  unfold parseDecimal
  simp only [h1, h2]
  simp [h3, digitsNat, Nat.ofDigitChars]

theorem decToBits_zero_exp (m : Nat) : decToBits m 0 = roundRatBits m 1 := by
  unfold decToBits
  by_cases hm : m = 0
  · subst hm; simp [roundRatBits]
  · have : ¬ (400 + (bitLen m : Int) < 0) := by omega
    simp [hm, this]

theorem parseF64_digits (ds : Str) (hne : ds ≠ []) (hd : ∀ c ∈ ds, c.isDigit = true) :
    parseF64 ds = some (roundRatBits (Nat.ofDigitChars 10 ds 0) 1) := by
  cases ds with
  | nil => exact absurd rfl hne
  | cons c t =>
    have hc := hd c (by simp)
    have hm : (c == '-') = false := by
      cases h : c == '-' with
      | false => rfl
      | true => have := eq_of_beq h; subst this; simp [Char.isDigit] at hc
    have hp : (c == '+') = false := by
      cases h : c == '+' with
      | false => rfl
      | true => have := eq_of_beq h; subst this; simp [Char.isDigit] at hc
    unfold parseF64
    simp only [hm, hp, Bool.or_self, Bool.false_eq_true, if_false]
    rw [parseDecimal_digits (c :: t) hne hd]
    simp [decToBits_zero_exp]

theorem parseF64_neg_digits (ds : Str) (hne : ds ≠ []) (hd : ∀ c ∈ ds, c.isDigit = true) :
    parseF64 ('-' :: ds) = some (f64Sign + roundRatBits (Nat.ofDigitChars 10 ds 0) 1) := by
  unfold parseF64
  simp only [beq_self_eq_true, Bool.true_or, if_true]
  rw [parseDecimal_digits ds hne hd]
  simp [decToBits_zero_exp, hne]

theorem parseF64_intRepr (n : Int) : parseF64 (intRepr n) = some (f64OfInt n) := by
  unfold intRepr natDigits f64OfInt
  have hd := toDigits_isDigit n.natAbs
  have hne : Nat.toDigits 10 n.natAbs ≠ [] := Nat.toDigits_ne_nil
  split
  · rw [parseF64_neg_digits _ hne hd, Nat.ofDigitChars_ten_toDigits]
  · rw [parseF64_digits _ hne hd, Nat.ofDigitChars_ten_toDigits]; simp

/-! ### floor / ceil / round on `q / U` -/

theorem floor_spec (q U : Int) (hU : 0 < U) : (q / U) * U ≤ q ∧ q < (q / U + 1) * U :=
  ⟨Int.ediv_mul_le q (by omega), Int.lt_ediv_add_one_mul_self q hU⟩

theorem ceil_spec (q U : Int) (hU : 0 < U) : (-((-q) / U) - 1) * U < q ∧ q ≤ (-((-q) / U)) * U := by
  have h := floor_spec (-q) U hU
  simp only [Int.add_mul, Int.sub_mul, Int.neg_mul, Int.one_mul] at *
  omega

theorem round_spec_nonneg (q U : Int) (hU : 0 < U) (hq : 0 ≤ q) :
    let r := (2 * q + U) / (2 * U)
    (-U ≤ 2 * (q - r * U)) ∧ (2 * (q - r * U) < U) ∧ 0 ≤ r := by
  intro r
  have h := floor_spec (2 * q + U) (2 * U) (by omega)
  have hr : r = (2 * q + U) / (2 * U) := rfl
  rw [← hr] at h
  have e1 : r * (2 * U) = 2 * (r * U) := by rw [Int.mul_left_comm]
  have e2 : (r + 1) * (2 * U) = 2 * (r * U) + 2 * U := by rw [Int.add_mul, e1]; omega
  rw [e1, e2] at h
  have h0 : 0 ≤ r := Int.ediv_nonneg (by omega) (by omega)
  refine ⟨by omega, by omega, h0⟩

end Liquid.C15

namespace Liquid.C15
open Liquid

theorem round_spec_neg (q U : Int) (hU : 0 < U) (hq : q < 0) :
    let r := -((2 * (-q) + U) / (2 * U))
    (-U < 2 * (q - r * U)) ∧ (2 * (q - r * U) ≤ U) ∧ r ≤ 0 := by
  intro r
  have h := round_spec_nonneg (-q) U hU (by omega)
  simp only at h
  have hr : r = -((2 * (-q) + U) / (2 * U)) := rfl
  have e : r * U = -(((2 * (-q) + U) / (2 * U)) * U) := by rw [hr, Int.neg_mul]
  refine ⟨by omega, by omega, by omega⟩

theorem fUnit_pos : 0 < fUnit := by unfold fUnit; exact Int.pow_pos (by decide)

/-- `satI64` is the identity on the 64-bit range -/
theorem satI64_of_in (x : Int) (h1 : i64Min ≤ x) (h2 : x ≤ i64Max) : satI64 x = x := by
  unfold satI64; split
  · omega
  · split
    · omega
    · rfl

theorem floorQ_range (q : Int) (hlo : i64Min * fUnit ≤ q) (hhi : q ≤ i64Max * fUnit) :
    i64Min ≤ floorQ q ∧ floorQ q ≤ i64Max := by
  have hU := fUnit_pos
  unfold floorQ
  constructor
  · exact (Int.le_ediv_iff_mul_le hU).mpr hlo
  · have : q / fUnit < i64Max + 1 := by
      rw [Int.ediv_lt_iff_lt_mul hU, Int.add_mul]; omega
    omega

theorem ceilQ_range (q : Int) (hlo : i64Min * fUnit ≤ q) (hhi : q ≤ i64Max * fUnit) :
    i64Min ≤ ceilQ q ∧ ceilQ q ≤ i64Max := by
  have hU := fUnit_pos
  unfold ceilQ
  have h1 : -i64Max ≤ (-q) / fUnit := by
    rw [Int.le_ediv_iff_mul_le hU, Int.neg_mul]; omega
  have h2 : (-q) / fUnit < -i64Min + 1 := by
    rw [Int.ediv_lt_iff_lt_mul hU, Int.add_mul, Int.neg_mul]; omega
  omega

theorem roundQ_range (q : Int) (hlo : i64Min * fUnit ≤ q) (hhi : q ≤ i64Max * fUnit) :
    i64Min ≤ roundQ q ∧ roundQ q ≤ i64Max := by
  have hU := fUnit_pos
  unfold roundQ
  split
  · rename_i h0
    have h1 : 0 ≤ (2 * q + fUnit) / (2 * fUnit) := Int.ediv_nonneg (by omega) (by omega)
    have h2 : (2 * q + fUnit) / (2 * fUnit) < i64Max + 1 := by
      rw [Int.ediv_lt_iff_lt_mul (by omega), Int.add_mul, Int.mul_left_comm]; omega
    unfold i64Min at *; omega
  · rename_i h0
    have h1 : 0 ≤ (2 * (-q) + fUnit) / (2 * fUnit) := Int.ediv_nonneg (by omega) (by omega)
    have h2 : (2 * (-q) + fUnit) / (2 * fUnit) < -i64Min + 1 := by
      rw [Int.ediv_lt_iff_lt_mul (by omega), Int.add_mul, Int.mul_left_comm, Int.neg_mul] ; omega
    unfold i64Max at *; omega

end Liquid.C15

namespace Liquid.C15
open Liquid

/-! ### float order -/

theorem fLt_irrefl (a : Nat) : fLt a a = false := by
  unfold fLt
  cases fv a <;> simp [FV.cmp]

theorem fLt_asymm (a b : Nat) (h : fLt a b = true) : fLt b a = false := by
  unfold fLt at *
  cases ha : fv a <;> cases hb : fv b <;> simp [FV.cmp, ha, hb] at h ⊢
  rename_i qa qb
  intro h'
  have h1 := Int.compare_eq_lt.mp h
  have h2 := Int.compare_eq_lt.mp h'
  omega

/-! ### no panic, per filter -/

theorem floatPath_no_panic (ops : FloatOps) (op : MathOp) (x y : Sc) :
    (floatPath ops op x y).isPanic = false := by
  rcases floatPath_cases ops op x y with h | ⟨f, h⟩ <;> simp [h, Res.isPanic]

theorem binScalars_no_panic (ops : FloatOps) (op : MathOp) (x y : Sc) :
    (binScalars .new ops op x y).isPanic = false := by
  have hfp := floatPath_no_panic ops op x y
  unfold binScalars
  split
  · rfl
  · rename_i hg
    cases hx : x.toInteger? with
    | none => simpa using hfp
    | some a =>
      cases hy : y.toInteger? with
      | none => simpa using hfp
      | some b =>
        simp only []
        cases op <;>
          simp only [IntArith.new, arithNew, checkedAdd, checkedSub, checkedMul, checkedDiv]
        · by_cases h : inI64 (a + b) = true
          all_goals first | (simp [h, Res.isPanic]; done) | (simp [h]; exact hfp)
        · by_cases h : inI64 (a - b) = true
          all_goals first | (simp [h, Res.isPanic]; done) | (simp [h]; exact hfp)
        · by_cases h : inI64 (a * b) = true
          all_goals first | (simp [h, Res.isPanic]; done) | (simp [h]; exact hfp)
        · by_cases h : (b = 0 ∨ a = i64Min ∧ b = -1)
          all_goals first | (simp [h, Res.isPanic]; done) | (simp [h]; exact hfp)
        · -- modulo: the zero-divisor guard has excluded `b = 0`
          have hb : b ≠ 0 := by
            intro hb; subst hb
            simp [MathOp.isDiv, zeroGuard, hy] at hg
          by_cases hmin : a = i64Min ∧ b = -1 <;> simp [wrappingRem, hb, hmin, Res.bind, Res.isPanic]
        · simp [Res.isPanic]
        · simp [Res.isPanic]

theorem binFilter_no_panic (ops : FloatOps) (op : MathOp) (input : V) (args : List V) :
    (binFilter .new ops op input args).isPanic = false := by
  unfold binFilter
  split
  · split
    · exact binScalars_no_panic ops op _ _
    · rfl
  · rfl

theorem absFilter_no_panic (input : V) (args : List V) : (absFilter .new input args).isPanic = false := by
  unfold absFilter
  split
  · split
    · rename_i x _
      unfold absScalar
      simp only [IntArith.new, absNew, checkedAbs]
      cases x.toInteger? with
      | none => cases x.toFloatBits? <;> simp [Res.isPanic]
      | some a =>
        by_cases h : a = i64Min <;> cases x.toFloatBits? <;> simp [h, Res.isPanic]
    · rfl
  · rfl

theorem toI64Filter_no_panic (mode : Int → Int) (input : V) (args : List V) :
    (toI64Filter mode input args).isPanic = false := by
  unfold toI64Filter
  split
  · split
    · split
      · rfl
      · split <;> rfl
    · rfl
  · rfl

theorem roundGo_no_panic (ops : FloatOps) (input : V) (n : Int) : (roundGo ops input n).isPanic = false := by
  unfold roundGo
  split
  · split
    · rfl
    · split
      · split
        · rfl
        · split <;> rfl
      · rfl
  · rfl

theorem roundFilter_no_panic (ops : FloatOps) (input : V) (args : List V) :
    (roundFilter ops input args).isPanic = false := by
  unfold roundFilter
  split
  · exact roundGo_no_panic ops input 0
  · split
    · split
      · exact roundGo_no_panic ops input _
      · rfl
    · rfl
  · rfl

theorem filter_cases (ar : IntArith) (ops : FloatOps) (name : Str) (f : V → List V → Res V)
    (h : mathFiltersWith ar ops name = some f) :
    f = absFilter ar ∨ (∃ op, f = binFilter ar ops op) ∨ f = roundFilter ops ∨
    f = toI64Filter ceilQ ∨ f = toI64Filter floorQ := by
  unfold mathFiltersWith at h
  repeat' split at h
  all_goals first
    | (injection h with h; subst h; simp; done)
    | (injection h with h; subst h; exact Or.inr (Or.inl ⟨_, rfl⟩))
    | (injection h with h; subst h; exact Or.inl rfl)
    | contradiction

end Liquid.C15

namespace Liquid.C15
open Liquid

/-! ### doubles below 2^63 are at most 2^63 − 1024 -/

theorem mag_bound (e m : Nat) (hm : m < 2^52) (he : 1 ≤ e)
    (h : (2^52 + m) * 2^(e-1) < 2^63 * 2^1074) : (2^52 + m) * 2^(e-1) ≤ (2^63 - 1024) * 2^1074 := by
  have he' : e - 1 ≤ 1084 := by
    apply Classical.byContradiction
    intro hc
    have h1 : 2^1085 ≤ 2^(e-1) := Nat.pow_le_pow_right (by decide) (by omega)
    have h2 : 2^52 * 2^1085 ≤ (2^52 + m) * 2^(e-1) := Nat.mul_le_mul (by omega) h1
    have h3 : (2:Nat)^52 * 2^1085 = 2^63 * 2^1074 := by decide +kernel
    omega
  have h1 : 2^(e-1) ≤ 2^1084 := Nat.pow_le_pow_right (by decide) he'
  have h2 : (2^52 + m) * 2^(e-1) ≤ (2^53 - 1) * 2^1084 := Nat.mul_le_mul (by omega) h1
  have h3 : ((2:Nat)^53 - 1) * 2^1084 = (2^63 - 1024) * 2^1074 := by decide +kernel
  omega

theorem fv_fin_cases (b : Nat) (q : Int) (hq : fv b = .fin q) :
    ∃ mag : Nat, (q = (mag : Int) ∨ q = -(mag : Int)) ∧
      (mag < 2^52 ∨ ∃ e m : Nat, m < 2^52 ∧ 1 ≤ e ∧ mag = (2^52 + m) * 2^(e-1)) := by
  unfold fv Fl.toFV at hq
  simp only [] at hq
  split at hq
  · split at hq
    · cases hq
    · split at hq <;> cases hq
  · injection hq with hq
    refine ⟨if (Fl.expBits { bits := b } == 0) = true then Fl.mant { bits := b } else (2 ^ 52 + Fl.mant { bits := b }) * 2 ^ (Fl.expBits { bits := b } - 1), ?_, ?_⟩
    rotate_left
    · by_cases he : (Fl.expBits { bits := b } == 0) = true
      · left
        simp only [he, if_true]
        unfold Fl.mant
        exact Nat.mod_lt _ (by decide)
      · right
        refine ⟨Fl.expBits { bits := b }, Fl.mant { bits := b }, ?_, ?_, ?_⟩
        · unfold Fl.mant; exact Nat.mod_lt _ (by decide)
        · have : Fl.expBits { bits := b } ≠ 0 := by simpa using he
          omega
        · simp only [he]; rfl
    · split at hq
      · right; exact hq.symm
      · left; exact hq.symm

theorem float_range (b : Nat) (q : Int) (hq : fv b = .fin q) (h : q < 2^63 * fUnit) :
    q ≤ i64Max * fUnit := by
  obtain ⟨mag, hs, hm⟩ := fv_fin_cases b q hq
  have hU : fUnit = ((2^1074 : Nat) : Int) := by unfold fUnit; rw [Int.natCast_pow]; rfl
  have h63 : (2:Int)^63 = ((2^63 : Nat) : Int) := by rw [Int.natCast_pow]; rfl
  have hmax : i64Max = ((2^63 - 1 : Nat) : Int) := by decide
  rw [hU, hmax]
  rw [hU, h63] at h
  rcases hs with hs | hs
  · subst hs
    have h2 : mag < 2^63 * 2^1074 := by exact_mod_cast h
    have : mag ≤ (2^63 - 1024) * 2^1074 := by
      rcases hm with hm | ⟨e, m, hm, he, hmag⟩
      · have : (2:Nat)^52 ≤ (2^63 - 1024) * 2^1074 := by decide +kernel
        omega
      · subst hmag
        exact mag_bound e m hm he h2
    have h3 : (2^63 - 1024) * 2^1074 ≤ (2^63 - 1) * 2^1074 := Nat.mul_le_mul (by decide) (Nat.le_refl _)
    exact_mod_cast Nat.le_trans this h3
  · subst hs
    have : (0:Int) ≤ ((2^63 - 1 : Nat) : Int) * ((2^1074 : Nat) : Int) := by
      exact_mod_cast Nat.zero_le _
    omega

end Liquid.C15
