/-
  Isolation of `render` partials: whatever runs inside a (fresh global frame over a) sandboxed
  frame can change nothing below the sandbox except the contents of counter (index) frames.
-/
import LiquidModel.Lemmas.Shape
namespace Liquid

/-- the frames below the first sandboxed frame (`none`: there is no sandbox) -/
def belowSandbox : Stack → Option Stack
  | [] => none
  | .sandbox _ _ :: r => some r
  | _ :: r => belowSandbox r

/-- scanning from the innermost frame, a global frame comes before any sandboxed frame — then
`set_global` cannot reach below the sandbox -/
def globalFirst : Stack → Bool
  | [] => false
  | .global _ :: _ => true
  | .sandbox _ _ :: _ => false
  | _ :: r => globalFirst r

/-- equal frames, except that two counter frames may hold different counters -/
def layerEqMod : Layer → Layer → Prop
  | .index _, .index _ => True
  | a, b => a = b

/-- equal frame by frame, except that counter frames may hold different counters -/
def eqModIndex : Stack → Stack → Prop
  | [], [] => True
  | x :: a, y :: b => layerEqMod x y ∧ eqModIndex a b
  | _, _ => False

theorem layerEqMod_refl (l : Layer) : layerEqMod l l := by cases l <;> simp [layerEqMod]

theorem layerEqMod_trans (a b c : Layer) (h1 : layerEqMod a b) (h2 : layerEqMod b c) : layerEqMod a c := by
  cases a <;> cases b <;> cases c <;> simp_all [layerEqMod]

theorem layerEqMod_kind (a b : Layer) (h : layerEqMod a b) : b.kind = a.kind := by
  cases a <;> cases b <;> simp_all [layerEqMod, Layer.kind]

theorem eqModIndex_refl : ∀ st, eqModIndex st st
  | [] => trivial
  | l :: r => ⟨layerEqMod_refl l, eqModIndex_refl r⟩

theorem eqModIndex_trans : ∀ a b c, eqModIndex a b → eqModIndex b c → eqModIndex a c
  | [], [], [], _, _ => trivial
  | [], [], _ :: _, _, h => by simp [eqModIndex] at h
  | [], _ :: _, _, h, _ => by simp [eqModIndex] at h
  | _ :: _, [], _, h, _ => by simp [eqModIndex] at h
  | _ :: _, _ :: _, [], _, h => by simp [eqModIndex] at h
  | x :: a, y :: b, z :: c, h1, h2 =>
    ⟨layerEqMod_trans x y z h1.1 h2.1, eqModIndex_trans a b c h1.2 h2.2⟩

theorem eqModIndex_shape : ∀ a b, eqModIndex a b → b.shape = a.shape
  | [], [], _ => rfl
  | [], _ :: _, h => by simp [eqModIndex] at h
  | _ :: _, [], h => by simp [eqModIndex] at h
  | x :: a, y :: b, h => by
    have := eqModIndex_shape a b h.2
    simp only [Stack.shape, List.map_cons] at this ⊢
    rw [layerEqMod_kind x y h.1, this]

theorem globalFirst_of_shape : ∀ a b : Stack, b.shape = a.shape → globalFirst b = globalFirst a
  | [], [], _ => rfl
  | [], _ :: _, h => by simp [Stack.shape] at h
  | _ :: _, [], h => by simp [Stack.shape] at h
  | x :: a, y :: b, h => by
    simp only [Stack.shape, List.map_cons, List.cons.injEq] at h
    have ih := globalFirst_of_shape a b h.2
    cases x <;> cases y <;> simp_all [globalFirst, Layer.kind]

/-- `belowSandbox` of two stacks of the same shape: both defined or both undefined, with
results of the same shape -/
theorem belowSandbox_of_shape : ∀ a b : Stack, b.shape = a.shape →
    (belowSandbox a = none ∧ belowSandbox b = none) ∨
    ∃ ra rb, belowSandbox a = some ra ∧ belowSandbox b = some rb ∧ rb.shape = ra.shape
  | [], [], _ => Or.inl ⟨rfl, rfl⟩
  | [], _ :: _, h => by simp [Stack.shape] at h
  | _ :: _, [], h => by simp [Stack.shape] at h
  | x :: a, y :: b, h => by
    simp only [Stack.shape, List.map_cons, List.cons.injEq] at h
    have ih := belowSandbox_of_shape a b h.2
    cases x <;> cases y <;> simp_all [belowSandbox, Layer.kind, Stack.shape]

theorem eqModIndex_belowSandbox : ∀ a b, eqModIndex a b → ∀ ra, belowSandbox a = some ra →
    ∃ rb, belowSandbox b = some rb ∧ eqModIndex ra rb
  | [], [], _, ra, h => by simp [belowSandbox] at h
  | [], _ :: _, h, _, _ => by simp [eqModIndex] at h
  | _ :: _, [], h, _, _ => by simp [eqModIndex] at h
  | x :: a, y :: b, h, ra, hra => by
    obtain ⟨h1, h2⟩ := h
    cases x <;> cases y <;> simp_all [layerEqMod, belowSandbox] <;>
      exact eqModIndex_belowSandbox a b h2 ra hra

/-- what a step may do to the part of the runtime that lies below the first sandbox: nothing but
updating counters; and the core registers are untouched -/
def isoR (rt rt' : Rt) : Prop :=
  rt'.layers.shape = rt.layers.shape ∧
  (globalFirst rt.layers = true → ∀ b, belowSandbox rt.layers = some b →
    ∃ b', belowSandbox rt'.layers = some b' ∧ eqModIndex b b' ∧ rt'.core = rt.core)

theorem Stack.setRegs_below (st : Stack) (core g : Regs) (b : Stack) (h : belowSandbox st = some b) :
    belowSandbox (st.setRegs core g).1 = some b ∧ (st.setRegs core g).2 = core := by
  induction st with
  | nil => simp [belowSandbox] at h
  | cons l r ih => cases l <;> simp_all [belowSandbox, Stack.setRegs]

theorem setGlobal_below (st st' : Stack) (k : Str) (v : V) (hs : st.setGlobal k v = .ok st')
    (hg : globalFirst st = true) (b : Stack) (h : belowSandbox st = some b) :
    belowSandbox st' = some b := by
  induction st generalizing st' with
  | nil => simp [belowSandbox] at h
  | cons l r ih =>
    cases l with
    | global g => simp [Stack.setGlobal] at hs; subst hs; simpa [belowSandbox] using h
    | sandbox d q => simp [globalFirst] at hg
    | plain d =>
      simp only [Stack.setGlobal, bind, Res.bind] at hs
      cases hr : Stack.setGlobal r k v <;> simp [hr, pure] at hs
      subst hs
      simpa [belowSandbox] using ih _ hr (by simpa [globalFirst] using hg) (by simpa [belowSandbox] using h)
    | index d =>
      simp only [Stack.setGlobal, bind, Res.bind] at hs
      cases hr : Stack.setGlobal r k v <;> simp [hr, pure] at hs
      subst hs
      simpa [belowSandbox] using ih _ hr (by simpa [globalFirst] using hg) (by simpa [belowSandbox] using h)

theorem setIndex_eqModIndex (st st' : Stack) (k : Str) (v : V) (hs : st.setIndex k v = .ok st') :
    eqModIndex st st' := by
  induction st generalizing st' with
  | nil => simp [Stack.setIndex] at hs
  | cons l r ih =>
    cases l with
    | index c => simp [Stack.setIndex] at hs; subst hs; simp [eqModIndex, layerEqMod, eqModIndex_refl]
    | plain d =>
      simp only [Stack.setIndex, bind, Res.bind] at hs
      cases hr : Stack.setIndex r k v <;> simp [hr, pure] at hs
      subst hs; simp [eqModIndex, layerEqMod, ih _ hr]
    | global d =>
      simp only [Stack.setIndex, bind, Res.bind] at hs
      cases hr : Stack.setIndex r k v <;> simp [hr, pure] at hs
      subst hs; simp [eqModIndex, layerEqMod, ih _ hr]
    | sandbox d q =>
      simp only [Stack.setIndex, bind, Res.bind] at hs
      cases hr : Stack.setIndex r k v <;> simp [hr, pure] at hs
      subst hs; simp [eqModIndex, layerEqMod, ih _ hr]

def isoRel : StepRel where
  R := isoR
  refl := fun rt => ⟨rfl, fun _ b hb => ⟨b, hb, eqModIndex_refl b, rfl⟩⟩
  trans := by
    intro a b c ⟨s1, h1⟩ ⟨s2, h2⟩
    refine ⟨s2.trans s1, ?_⟩
    intro hg ba hba
    obtain ⟨bb, hbb, e1, c1⟩ := h1 hg ba hba
    have hgb : globalFirst b.layers = true := by rw [globalFirst_of_shape _ _ s1]; exact hg
    obtain ⟨bc, hbc, e2, c2⟩ := h2 hgb bb hbb
    exact ⟨bc, hbc, eqModIndex_trans _ _ _ e1 e2, c2.trans c1⟩
  setRegs := by
    intro rt g
    refine ⟨Rt.setRegs_shape rt g, ?_⟩
    intro _ b hb
    have := Stack.setRegs_below rt.layers rt.core g b hb
    exact ⟨b, by unfold Rt.setRegs; exact this.1, eqModIndex_refl b, by unfold Rt.setRegs; exact this.2⟩
  setGlobal := by
    intro rt k v ls h
    refine ⟨setGlobal_shape _ _ k v h, ?_⟩
    intro hg b hb
    exact ⟨b, setGlobal_below _ _ k v h hg b hb, eqModIndex_refl b, rfl⟩
  setIndex := by
    intro rt k v ls h
    refine ⟨setIndex_shape _ _ k v h, ?_⟩
    intro _ b hb
    obtain ⟨b', hb', he⟩ := eqModIndex_belowSandbox _ _ (setIndex_eqModIndex _ _ k v h) b hb
    exact ⟨b', hb', he, rfl⟩
  framePlain := by
    intro d rt rt' ⟨hs, hp⟩
    refine ⟨shapeRel.framePlain d rt rt' hs, ?_⟩
    intro hg b hb
    obtain ⟨b', hb', he, hc⟩ := hp (by simpa [globalFirst] using hg) b (by simpa [belowSandbox] using hb)
    refine ⟨b', ?_, he, hc⟩
    -- rt'.layers = l :: L' with l plain
    rcases hl : rt'.layers with _ | ⟨l, rest⟩
    · simp [hl, Stack.shape] at hs
    · simp only [hl, Stack.shape, List.map_cons, List.cons.injEq] at hs
      rw [hl] at hb'
      cases l <;> simp_all [Layer.kind, belowSandbox]
  frameSandbox := by
    intro root rt rt' ⟨hs, hp⟩
    refine ⟨shapeRel.frameSandbox root rt rt' hs, ?_⟩
    intro hg b hb
    obtain ⟨b', hb', he, hc⟩ := hp (by simp [globalFirst]) rt.layers (by simp [belowSandbox])
    -- rt'.layers = g' :: s' :: L' and b' = L'
    rcases hl : rt'.layers with _ | ⟨l1, _ | ⟨l2, rest⟩⟩
    · simp [hl, Stack.shape] at hs
    · simp [hl, Stack.shape] at hs
    · simp only [hl, Stack.shape, List.map_cons, List.cons.injEq] at hs
      rw [hl] at hb'
      have hb'' : b' = rest := by
        cases l1 <;> cases l2 <;> simp_all [Layer.kind, belowSandbox]
      subst hb''
      obtain ⟨b2, hb2, he2⟩ := eqModIndex_belowSandbox _ _ he b hb
      exact ⟨b2, by simpa using hb2, he2, hc⟩

/-- **Inside a sandbox nothing below it changes but counters** — for every template. -/
theorem renderT_isolated (env : Env) (fuel : Nat) (t : Tmpl) (rt : Rt) (w : W) :
    isoR rt (renderT fuel env t rt w).2.1 :=
  Pres.renderT isoRel env fuel t rt w

end Liquid
