/-
  C11 helper lemmas, part 3: key-sorted entry lists (`insK`, `sortK`), lookups, permutations.
-/
import LiquidModel.Lemmas.C11Scalar
namespace Liquid.C11L
open Liquid Liquid.C11

variable {α β : Type}

def keysOf (l : List (Str × α)) : List Str := l.map (·.1)

def leK (e e' : Str × α) : Prop := strCmp e.1 e'.1 ≠ .gt
def ltK (e e' : Str × α) : Prop := strCmp e.1 e'.1 = .lt

theorem strCmp_gt_iff (a b : Str) : strCmp a b = .gt ↔ strCmp b a = .lt := by
  rw [strCmp_swap a b]; cases strCmp a b <;> simp [Ordering.swap]

theorem strCmp_le_trans {a b c : Str} (h1 : strCmp a b ≠ .gt) (h2 : strCmp b c ≠ .gt) : strCmp a c ≠ .gt := by
  intro h
  rw [strCmp_gt_iff] at h
  -- c < a, a ≤ b, b ≤ c
  rcases hab : strCmp a b with _ | _ | _
  · -- a < b ⇒ c < b ⇒ b > c
    have := strCmp_lt_trans h hab
    rw [← strCmp_gt_iff] at this; exact h2 this
  · have e := (strCmp_eq_iff a b).1 hab; subst e
    rw [← strCmp_gt_iff] at h; exact h2 h
  · exact h1 hab

theorem mem_insK (k : Str) (a : α) (l : List (Str × α)) (e : Str × α) :
    e ∈ insK k a l ↔ e = (k, a) ∨ e ∈ l := by
  induction l with
  | nil => simp [insK]
  | cons x r ih =>
    cases x with | mk k' b =>
    simp only [insK]
    split
    · simp [ih]; constructor
      · rintro (h | h | h) <;> simp [h]
      · rintro (h | h | h) <;> simp [h]
    · simp

theorem insK_perm (k : Str) (a : α) (l : List (Str × α)) : (insK k a l).Perm ((k, a) :: l) := by
  induction l with
  | nil => simp [insK]
  | cons x r ih =>
    cases x with | mk k' b =>
    simp only [insK]
    split
    · exact (List.Perm.cons _ ih).trans (List.Perm.swap _ _ _)
    · exact List.Perm.refl _

theorem sortK_perm (l : List (Str × α)) : (sortK l).Perm l := by
  induction l with
  | nil => simp [sortK]
  | cons x r ih =>
    cases x with | mk k a =>
    simp only [sortK]
    exact (insK_perm k a _).trans (List.Perm.cons _ ih)

theorem mem_sortK (l : List (Str × α)) (e : Str × α) : e ∈ sortK l ↔ e ∈ l := (sortK_perm l).mem_iff

theorem length_sortK (l : List (Str × α)) : (sortK l).length = l.length := (sortK_perm l).length_eq

theorem insK_sorted (k : Str) (a : α) (l : List (Str × α)) (h : l.Pairwise leK) :
    (insK k a l).Pairwise leK := by
  induction l with
  | nil => simp [insK]
  | cons x r ih =>
    cases x with | mk k' b =>
    simp only [insK]
    rw [List.pairwise_cons] at h
    split
    · rename_i hgt
      have hgt' : strCmp k k' = .gt := by simpa using hgt
      rw [List.pairwise_cons]
      refine ⟨?_, ih h.2⟩
      intro e he
      rw [mem_insK] at he
      rcases he with he | he
      · subst he
        show strCmp k' k ≠ .gt
        rw [strCmp_gt_iff] at hgt'
        rw [hgt']; simp
      · exact h.1 e he
    · rename_i hgt
      have hle : strCmp k k' ≠ .gt := by simpa using hgt
      rw [List.pairwise_cons]
      refine ⟨?_, List.pairwise_cons.2 h⟩
      intro e he
      rcases List.mem_cons.1 he with he | he
      · subst he; exact hle
      · exact strCmp_le_trans hle (h.1 e he)

theorem sortK_sorted (l : List (Str × α)) : (sortK l).Pairwise leK := by
  induction l with
  | nil => simp [sortK]
  | cons x r ih => cases x with | mk k a => exact insK_sorted k a _ ih

theorem keysOf_perm {l l' : List (Str × α)} (h : l.Perm l') : (keysOf l).Perm (keysOf l') := h.map _

theorem nodup_keys_perm {l l' : List (Str × α)} (h : l.Perm l') (hn : (keysOf l).Nodup) : (keysOf l').Nodup :=
  (keysOf_perm h).nodup_iff.1 hn

/-- pairwise-distinct keys, as a property of the entries -/
theorem pairwise_ne_of_nodup_keys (l : List (Str × α)) (h : (keysOf l).Nodup) :
    l.Pairwise (fun e e' => e.1 ≠ e'.1) := by
  unfold keysOf at h
  rw [List.Nodup, List.pairwise_map] at h
  exact h

theorem sortK_strict (l : List (Str × α)) (h : (keysOf l).Nodup) : (sortK l).Pairwise ltK := by
  have hs := sortK_sorted l
  have hn := pairwise_ne_of_nodup_keys _ (nodup_keys_perm (sortK_perm l).symm h)
  have := hs.and hn
  refine this.imp ?_
  intro e e' ⟨h1, h2⟩
  unfold leK at h1; unfold ltK
  rcases hc : strCmp e.1 e'.1 with _ | _ | _
  · rfl
  · exact absurd ((strCmp_eq_iff _ _).1 hc) h2
  · exact absurd hc h1

/-- two strictly key-sorted permutations of each other are the same list -/
theorem eq_of_perm_of_strict {l l' : List (Str × α)} (hp : l.Perm l') (h : l.Pairwise ltK) (h' : l'.Pairwise ltK) :
    l = l' := by
  apply List.Perm.eq_of_pairwise (le := ltK) _ h h' hp
  intro a b _ _ hab hba
  unfold ltK at hab hba
  rw [← strCmp_gt_iff] at hba
  rw [hab] at hba; cases hba

theorem sortK_eq_of_perm {l l' : List (Str × α)} (hp : l.Perm l') (hn : (keysOf l).Nodup) : sortK l = sortK l' :=
  eq_of_perm_of_strict (((sortK_perm l).trans hp).trans (sortK_perm l').symm)
    (sortK_strict l hn) (sortK_strict l' (nodup_keys_perm hp hn))

theorem insK_of_le (k : Str) (a : α) (l : List (Str × α)) (h : ∀ e ∈ l, strCmp k e.1 ≠ .gt) :
    insK k a l = (k, a) :: l := by
  cases l with
  | nil => rfl
  | cons x r =>
    cases x with | mk k' b =>
    have := h (k', b) (by simp)
    simp only [insK]
    split
    · rename_i hgt; exact absurd (by simpa using hgt) this
    · rfl

theorem sortK_of_sorted (l : List (Str × α)) (h : l.Pairwise leK) : sortK l = l := by
  induction l with
  | nil => rfl
  | cons x r ih =>
    cases x with | mk k a =>
    rw [List.pairwise_cons] at h
    simp only [sortK]
    rw [ih h.2]
    exact insK_of_le k a r (fun e he => h.1 e he)

theorem sortK_idem (l : List (Str × α)) : sortK (sortK l) = sortK l := sortK_of_sorted _ (sortK_sorted l)

/-- mapping the values commutes with sorting by key -/
def mapV (f : α → β) (l : List (Str × α)) : List (Str × β) := l.map (fun e => (e.1, f e.2))

theorem insK_mapV (f : α → β) (k : Str) (a : α) (l : List (Str × α)) :
    insK k (f a) (mapV f l) = mapV f (insK k a l) := by
  induction l with
  | nil => rfl
  | cons x r ih =>
    cases x with | mk k' b =>
    simp only [mapV, List.map_cons, insK] at ih ⊢
    split
    · simp only [List.map_cons]; rw [← ih]
    · rfl

theorem sortK_mapV (f : α → β) (l : List (Str × α)) : sortK (mapV f l) = mapV f (sortK l) := by
  induction l with
  | nil => rfl
  | cons x r ih =>
    cases x with | mk k a =>
    simp only [mapV, List.map_cons, sortK] at ih ⊢
    rw [ih]; exact insK_mapV f k a _

theorem keysOf_mapV (f : α → β) (l : List (Str × α)) : keysOf (mapV f l) = keysOf l := by
  simp [keysOf, mapV]

theorem cmpFns_eq (xs : Obj) : cmpFns xs = mapV valueCmp xs := by
  induction xs with
  | nil => rfl
  | cons e r ih => cases e with | mk k x => simp [cmpFns, mapV, ih]

theorem canonO_eq (xs : Obj) : canonO xs = mapV canon xs := by
  induction xs with
  | nil => rfl
  | cons e r ih => cases e with | mk k x => simp [canonO, mapV, ih]

theorem canonL_eq (xs : List V) : canonL xs = xs.map canon := by
  induction xs with
  | nil => rfl
  | cons e r ih => simp [canonL, ih]

theorem keysNodup_iff (l : List Str) : keysNodup l = true ↔ l.Nodup := by
  induction l with
  | nil => simp [keysNodup]
  | cons k r ih => simp [keysNodup, ih, List.nodup_cons]

theorem keys_eq_keysOf (l : Obj) : keys l = keysOf l := rfl

/-! ### lookups -/

theorem objGet_cons (k' : Str) (w : V) (r : Obj) (k : Str) :
    objGet ((k', w) :: r) k = if k' = k then some w else objGet r k := by
  simp only [objGet, List.find?_cons]
  by_cases h : k' = k
  · simp [h]
  · have hb : (k' == k) = false := by simp [h]
    simp [h, hb]

theorem objGet_of_mem (l : Obj) (hn : (keysOf l).Nodup) {k : Str} {v : V} (h : (k, v) ∈ l) : objGet l k = some v := by
  induction l with
  | nil => cases h
  | cons x r ih =>
    cases x with | mk k' w =>
    rw [objGet_cons]
    simp only [keysOf, List.map_cons, List.nodup_cons] at hn
    rcases List.mem_cons.1 h with h | h
    · cases h; simp
    · have : k' ≠ k := by
        intro e; subst e
        exact hn.1 (List.mem_map.2 ⟨(k', v), h, rfl⟩)
      simp [this]; exact ih hn.2 h

theorem objGet_none (l : Obj) {k : Str} (h : k ∉ keysOf l) : objGet l k = none := by
  induction l with
  | nil => rfl
  | cons x r ih =>
    cases x with | mk k' w =>
    rw [objGet_cons]
    simp only [keysOf, List.map_cons, List.mem_cons, not_or] at h
    have : k' ≠ k := fun e => h.1 e.symm
    simp [this]; exact ih h.2

theorem objGet_some_mem (l : Obj) {k : Str} {v : V} (h : objGet l k = some v) : (k, v) ∈ l := by
  induction l with
  | nil => cases h
  | cons x r ih =>
    cases x with | mk k' w =>
    rw [objGet_cons] at h
    by_cases e : k' = k
    · subst e; simp at h; subst h; simp
    · simp [e] at h; exact List.mem_cons_of_mem _ (ih h)

theorem mem_keysOf {l : List (Str × α)} {k : Str} : k ∈ keysOf l ↔ ∃ v, (k, v) ∈ l := by
  simp [keysOf]

theorem objGet_perm {l l' : Obj} (hp : l.Perm l') (hn : (keysOf l).Nodup) (k : Str) : objGet l k = objGet l' k := by
  by_cases h : k ∈ keysOf l
  · obtain ⟨v, hv⟩ := mem_keysOf.1 h
    rw [objGet_of_mem l hn hv, objGet_of_mem l' (nodup_keys_perm hp hn) (hp.mem_iff.1 hv)]
  · have h' : k ∉ keysOf l' := fun hk => h ((keysOf_perm hp).mem_iff.2 hk)
    rw [objGet_none l h, objGet_none l' h']

/-- pigeonhole: distinct keys, all found on the other side, same number of entries ⇒ the other
side has no further keys -/
theorem keys_subset_symm {l l' : List (Str × α)} {m : List (Str × β)} (hn : (keysOf l).Nodup)
    (hsub : ∀ k ∈ keysOf l, k ∈ keysOf m) (hlen : l.length = m.length) (hl' : l' = l) :
    (keysOf l).Perm (keysOf m) := by
  subst hl'
  have sp := List.subperm_of_subset hn (fun k hk => hsub k hk)
  apply sp.perm_of_length_le
  simp [keysOf, hlen]

end Liquid.C11L
